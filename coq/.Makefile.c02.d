Base/Common.vo Base/Common.glob Base/Common.v.beautified Base/Common.required_vo: Base/Common.v 
Base/Common.vio: Base/Common.v 
Base/Common.vos Base/Common.vok Base/Common.required_vos: Base/Common.v 
Model/Position.vo Model/Position.glob Model/Position.v.beautified Model/Position.required_vo: Model/Position.v 
Model/Position.vio: Model/Position.v 
Model/Position.vos Model/Position.vok Model/Position.required_vos: Model/Position.v 
Proofs/Position.vo Proofs/Position.glob Proofs/Position.v.beautified Proofs/Position.required_vo: Proofs/Position.v Model/Position.vo
Proofs/Position.vio: Proofs/Position.v Model/Position.vio
Proofs/Position.vos Proofs/Position.vok Proofs/Position.required_vos: Proofs/Position.v Model/Position.vos
Props/C02.vo Props/C02.glob Props/C02.v.beautified Props/C02.required_vo: Props/C02.v Model/Position.vo Proofs/Position.vo
Props/C02.vio: Props/C02.v Model/Position.vio Proofs/Position.vio
Props/C02.vos Props/C02.vok Props/C02.required_vos: Props/C02.v Model/Position.vos Proofs/Position.vos
Corr/C02.vo Corr/C02.glob Corr/C02.v.beautified Corr/C02.required_vo: Corr/C02.v Base/Common.vo Model/Position.vo Corr/PosObs.vo
Corr/C02.vio: Corr/C02.v Base/Common.vio Model/Position.vio Corr/PosObs.vio
Corr/C02.vos Corr/C02.vok Corr/C02.required_vos: Corr/C02.v Base/Common.vos Model/Position.vos Corr/PosObs.vos
Pins/C02.vo Pins/C02.glob Pins/C02.v.beautified Pins/C02.required_vo: Pins/C02.v Model/Position.vo Proofs/Position.vo Props/C02.vo Corr/C02.vo
Pins/C02.vio: Pins/C02.v Model/Position.vio Proofs/Position.vio Props/C02.vio Corr/C02.vio
Pins/C02.vos Pins/C02.vok Pins/C02.required_vos: Pins/C02.v Model/Position.vos Proofs/Position.vos Props/C02.vos Corr/C02.vos
Model/MarketData.vo Model/MarketData.glob Model/MarketData.v.beautified Model/MarketData.required_vo: Model/MarketData.v Model/Position.vo
Model/MarketData.vio: Model/MarketData.v Model/Position.vio
Model/MarketData.vos Model/MarketData.vok Model/MarketData.required_vos: Model/MarketData.v Model/Position.vos
Proofs/MarketData.vo Proofs/MarketData.glob Proofs/MarketData.v.beautified Proofs/MarketData.required_vo: Proofs/MarketData.v Model/Position.vo Model/MarketData.vo Proofs/Position.vo
Proofs/MarketData.vio: Proofs/MarketData.v Model/Position.vio Model/MarketData.vio Proofs/Position.vio
Proofs/MarketData.vos Proofs/MarketData.vok Proofs/MarketData.required_vos: Proofs/MarketData.v Model/Position.vos Model/MarketData.vos Proofs/Position.vos
Props/C15.vo Props/C15.glob Props/C15.v.beautified Props/C15.required_vo: Props/C15.v Model/Position.vo Model/MarketData.vo Proofs/Position.vo Proofs/MarketData.vo
Props/C15.vio: Props/C15.v Model/Position.vio Model/MarketData.vio Proofs/Position.vio Proofs/MarketData.vio
Props/C15.vos Props/C15.vok Props/C15.required_vos: Props/C15.v Model/Position.vos Model/MarketData.vos Proofs/Position.vos Proofs/MarketData.vos
Corr/PosObs.vo Corr/PosObs.glob Corr/PosObs.v.beautified Corr/PosObs.required_vo: Corr/PosObs.v Base/Common.vo Model/Position.vo
Corr/PosObs.vio: Corr/PosObs.v Base/Common.vio Model/Position.vio
Corr/PosObs.vos Corr/PosObs.vok Corr/PosObs.required_vos: Corr/PosObs.v Base/Common.vos Model/Position.vos
Corr/C15.vo Corr/C15.glob Corr/C15.v.beautified Corr/C15.required_vo: Corr/C15.v Base/Common.vo Model/Position.vo Model/MarketData.vo Corr/PosObs.vo
Corr/C15.vio: Corr/C15.v Base/Common.vio Model/Position.vio Model/MarketData.vio Corr/PosObs.vio
Corr/C15.vos Corr/C15.vok Corr/C15.required_vos: Corr/C15.v Base/Common.vos Model/Position.vos Model/MarketData.vos Corr/PosObs.vos
Pins/C15.vo Pins/C15.glob Pins/C15.v.beautified Pins/C15.required_vo: Pins/C15.v Model/Position.vo Model/MarketData.vo Proofs/Position.vo Proofs/MarketData.vo Props/C15.vo Corr/C15.vo
Pins/C15.vio: Pins/C15.v Model/Position.vio Model/MarketData.vio Proofs/Position.vio Proofs/MarketData.vio Props/C15.vio Corr/C15.vio
Pins/C15.vos Pins/C15.vok Pins/C15.required_vos: Pins/C15.v Model/Position.vos Model/MarketData.vos Proofs/Position.vos Proofs/MarketData.vos Props/C15.vos Corr/C15.vos
