(** Shared definitions for the correspondence side: decimals as exact rationals, tolerance
    comparison, verdict codes. Definitions only. *)
From Coq Require Export List ZArith NArith QArith Bool Lia.
Export ListNotations.

(** [dq m s] = m / 10^s : the exact value of a rust_decimal with mantissa [m] and scale [s]. *)
Definition dq (m : Z) (s : N) : Q := Qmake m (Z.to_pos (10 ^ Z.of_N s)).

(** |x - y| <= tol * max(1,|x|) *)
Definition Qabs' (x : Q) : Q := if Qle_bool 0 x then x else Qopp x.
Definition Qmax1 (x : Q) : Q := if Qle_bool 1 (Qabs' x) then Qabs' x else 1%Q.
Definition Qclose (tol x y : Q) : bool := Qle_bool (Qabs' (x - y)) (tol * Qmax1 x).
Definition tol18 : Q := Qmake 1 (Z.to_pos (10 ^ 18)).
Definition tol12 : Q := Qmake 1 (Z.to_pos (10 ^ 12)).

Definition oQclose (tol : Q) (x y : option Q) : bool :=
  match x, y with
  | Some a, Some b => Qclose tol a b
  | None, None => true
  | _, _ => false
  end.

(** Verdict code of one correspondence case.
    0 ok; 1 model/implementation disagree but the observed behaviour satisfies the property
    oracle; 2 the observed behaviour violates the property; 100+k it violates it inside the
    known-finding class k. *)
Definition judge_code (corr prop : bool) (known : N) : N :=
  if prop then (if corr then 0 else 1)%N
  else (if N.eqb known 0 then 2 else 100 + known)%N.

Definition judge_all {C : Type} (judge : C -> N) (cs : list (N * C)) : list (N * N) :=
  filter (fun p => negb (N.eqb (snd p) 0)) (map (fun p => (fst p, judge (snd p))) cs).

Fixpoint list_eqb {A} (eqb : A -> A -> bool) (l1 l2 : list A) : bool :=
  match l1, l2 with
  | [], [] => true
  | x :: t1, y :: t2 => eqb x y && list_eqb eqb t1 t2
  | _, _ => false
  end.

Definition option_eqb {A} (eqb : A -> A -> bool) (x y : option A) : bool :=
  match x, y with
  | Some a, Some b => eqb a b
  | None, None => true
  | _, _ => false
  end.

Definition pair_eqb {A B} (ea : A -> A -> bool) (eb : B -> B -> bool) (x y : A * B) : bool :=
  ea (fst x) (fst y) && eb (snd x) (snd y).
