(** C15 — Unrealised PnL of an open position tracks the instrument's latest price.
    Property theorems only; each is closed by [exact <lemma>] and followed by
    [Print Assumptions].

    [irun h] runs one instrument's state (position manager + DefaultInstrumentMarketData) over a
    history [h] of market events and fills, the way EngineState::update_from_market (after fix
    d9de16e: through InstrumentState::update_from_market) and update_from_account(Trade) do;
    [erun h i] is the engine with instruments addressed by index. [grun h] is what the history
    alone determines: the market data, the reference price [g_ref] (= the instrument's price()
    after the last market event that yielded one, or the price of a later fill), and whether the
    position was freshly opened by the last fill with no priced market event since [g_fresh].
    [estimate p r] = the documented estimate (price move on the open quantity minus pro-rata
    estimated exit fees) of position [p] at price [r]; [tracks h] = the open position's
    pnl_unrealised equals [estimate] at the reference price.
    Instrument kind (spot / perpetual / future / option), contract size and settlement asset are
    NOT inputs of the estimate, neither in the documented formula ("price move on the open
    quantity minus pro-rata estimated exit fees" at the instrument's price) nor in the code: the
    model has no such parameters, and the correspondence runs use engines with derivative
    instruments of contract size 0.001 / 0.01 / 100 so that code scaling by it disagrees.

    KNOWN FINDING (class 1, not repaired because position.rs unit tests TC3/TC7 pin it):
    Position::from(&Trade) - a position opened from flat or as the remainder of a flip - stores
    pnl_unrealised = 0 instead of the estimate at the fill price (= minus its entry fee). The
    main theorem therefore excludes [fresh_open] histories, [C15_fresh_open_refuted] exhibits the
    violation inside the class and [C15_fresh_open_value] says exactly what is stored there. *)
From Coq Require Import Qcanon Qcabs.
From BV Require Import Model.Position Model.MarketData Proofs.Position Proofs.MarketData.
Open Scope Qc_scope.

(** After ANY interleaving of fills and market events (trades, top-of-book updates, others;
    stale and duplicate ones included) on an instrument, an open position's unrealised PnL is the
    documented estimate at the reference price: the instrument's current price if a market event
    yielded one after the last fill, else the last fill's price - unless the position was freshly
    opened by the last fill (known class). *)
Theorem C15_tracks_latest_price : forall i h,
  Forall (valid_ievent i) h -> ~ fresh_open h -> tracks h.
Proof. exact tracks_unless_fresh. Qed.
Print Assumptions C15_tracks_latest_price.

(** The same at engine level, for every instrument index of a multi-instrument engine: events of
    other instruments never matter ([proj i h] = the events routed to instrument [i]). *)
Theorem C15_engine_tracks_latest_price : forall h i,
  Forall valid_eevent h -> ~ fresh_open (proj i h) ->
  match is_pos (erun h i), g_ref (grun (proj i h)) with
  | Some p, Some r => p_pnl_u p = estimate p r
  | _, _ => True
  end.
Proof. exact engine_tracks. Qed.
Print Assumptions C15_engine_tracks_latest_price.

Theorem C15_instruments_independent : forall h i,
  erun h i = irun (proj i h).
Proof. exact erun_proj. Qed.
Print Assumptions C15_instruments_independent.

(** First sentence of the property, literally: right after a processed market event, if the
    instrument has an open position and a price, the unrealised PnL is the estimate at that price
    (no exception: this holds for freshly opened positions too). *)
Theorem C15_refreshed_by_market : forall i h m p pr,
  Forall (valid_ievent i) h ->
  is_pos (irun (h ++ [IMarket m])) = Some p ->
  md_price (is_md (irun (h ++ [IMarket m]))) = Some pr ->
  p_pnl_u p = estimate p pr.
Proof. exact refreshed_by_market. Qed.
Print Assumptions C15_refreshed_by_market.

(** Second sentence: right after a fill that increased or reduced the position, the unrealised
    PnL is the estimate at the fill price. *)
Theorem C15_after_fill : forall i h f p,
  Forall (valid_ievent i) h -> valid_fill i f ->
  ~ fresh_open (h ++ [IFill f]) ->
  is_pos (irun (h ++ [IFill f])) = Some p ->
  p_pnl_u p = estimate p (f_price f).
Proof. exact after_fill. Qed.
Print Assumptions C15_after_fill.

(** The instrument's current price is determined by the delivered market events alone, "latest
    wins per kind, top of book preferred": after ANY delivery list (stale, duplicate, equal and
    cross-kind out-of-order timestamps included) price() is the volume-weighted mid of a
    top-of-book update with the greatest exchange timestamp (the default book counting as time 0
    with no levels) when that book has both sides, else the price of a priced public trade with
    the greatest timestamp, else none. With equal timestamps any of the tied deliveries is
    acceptable (the code keeps the first). Hypothesis: top-of-book events carry
    last_update_time = time_exchange. *)
Theorem C15_price_latest_wins : forall h, Forall mevent_wf h ->
  exists l last,
    is_latest ((0%Z, l1_default) :: l1_deliveries h) (l1_time l, l) /\
    match last with
    | None => trade_deliveries h = []%list
    | Some d => is_latest (trade_deliveries h) d
    end /\
    md_price (md_run h) = ref_price l last.
Proof. exact price_latest_wins. Qed.
Print Assumptions C15_price_latest_wins.

(** ... and the market data of an instrument state is that of its market events: fills never
    touch it. Together with [C15_tracks_latest_price] (whose reference price is [md_price] of this
    data after the last priced market event): the unrealised PnL is the estimate at a price
    computed from the newest delivered market data, never from an older one. *)
Theorem C15_market_data_of_history : forall h, is_md (irun h) = md_run (market_events h).
Proof. exact irun_md. Qed.
Print Assumptions C15_market_data_of_history.

(** Receive times never matter: re-stamping MarketEvent.time_received in any way (feed latency
    larger than the gap between events, clock skew with received < exchange, ...) leaves every
    instrument's market data, price() and position - hence the marked unrealised PnL - unchanged.
    The marked price depends on the (time_exchange, price / book) history only
    ([C15_price_latest_wins]). *)
Theorem C15_received_time_irrelevant : forall h h',
  same_modulo_received h h' -> srun h = srun h'.
Proof. exact restamp_invariant. Qed.
Print Assumptions C15_received_time_irrelevant.

(** Persisting and restoring an instrument's state (a serde round trip of the InstrumentState:
    position, market data, orders, tear sheet) between any two events changes nothing: a delivery
    with restore steps runs exactly like the events alone, so every theorem here holds across
    restores. (That the implementation's round trip IS the identity is checked by the
    correspondence harness on every restore step.) *)
Theorem C15_restore_invariant : forall h, perun h = srun (drop_restores h).
Proof. exact perun_restore_invariant. Qed.
Print Assumptions C15_restore_invariant.

(** Inside the known class the code stores 0, the reference price is the position's entry price
    and the documented estimate there is minus the entry fees: the deviation is exactly the
    (pro-rata) fee of the opening fill, so it vanishes iff that fee is 0. *)
Theorem C15_fresh_open_value : forall i h p,
  Forall (valid_ievent i) h -> fresh_open h -> is_pos (irun h) = Some p ->
  p_pnl_u p = 0 /\ g_ref (grun h) = Some (p_avg p) /\ estimate p (p_avg p) = - p_fin p.
Proof. exact fresh_open_value. Qed.
Print Assumptions C15_fresh_open_value.

(** The known finding is a genuine violation: buy 1 @ 100 with fee 1 from flat leaves
    pnl_unrealised = 0 although the estimate at the fill price is -1. *)
Definition c15_witness : list ievent := [IFill (mkFill 1 0 1 Buy (qcz 100) (qcz 1) (qcz 1))]%list.
Theorem C15_fresh_open_refuted :
  exists h, Forall (valid_ievent 0) h /\ fresh_open h /\ ~ tracks h.
Proof.
  exists c15_witness. split; [|split].
  - repeat constructor.
  - reflexivity.
  - unfold tracks. vm_compute. intros H. apply (f_equal this) in H. vm_compute in H. discriminate H.
Qed.
Print Assumptions C15_fresh_open_refuted.

(** Non-vacuity: open long 2 @ 100 (fee 1), a public trade at 104, a top-of-book update
    (bid 105 x 1, ask 107 x 3 => micro-price 105.5), an older trade (ignored), an increase by
    1 @ 106 (fee 1), a candle, a partial close: hypotheses hold, the history is outside the known
    class at the end, the position is open and its unrealised PnL is the non-trivial estimate at
    the micro-price that the candle event re-evaluated. *)
Definition c15_example : list ievent :=
  [ IFill (mkFill 1 0 10 Buy (qcz 100) (qcz 2) (qcz 1));
    IMarket (MTrade 20 (Some (qcz 104)));
    IMarket (ML1 30 (mkL1 30 (Some (qcz 105, qcz 1)) (Some (qcz 107, qcz 3))));
    IMarket (MTrade 15 (Some (qcz 90)));
    IFill (mkFill 2 0 40 Buy (qcz 106) (qcz 1) (qcz 1));
    IMarket (MOther 50);
    IFill (mkFill 3 0 60 Sell (qcz 108) (qcz 1) (qcz 0)) ]%list.
Example C15_nonvacuous :
  Forall (valid_ievent 0) c15_example /\ ~ fresh_open c15_example /\
  option_map this (g_ref (grun c15_example)) = Some (108 # 1)%Q /\
  option_map (fun p => this (p_pnl_u p)) (is_pos (irun c15_example)) = Some (32 # 3)%Q /\
  option_map (fun p => this (p_pnl_u p)) (is_pos (irun (firstn 6 c15_example))) = Some (17 # 2)%Q /\
  option_map (fun p => this (p_pnl_u p)) (is_pos (irun (firstn 1 c15_example))) = Some (0 # 1)%Q.
Proof.
  split; [repeat constructor|]. split; [unfold fresh_open; vm_compute; discriminate|].
  vm_compute. repeat split; reflexivity.
Qed.

(** Link between the theorems above and the correspondence check, modulo the known class: on
    every well-formed case, if the implementation's observed instrument states agree with the
    model ([corr_b], within the stated Decimal tolerances), every verdict of the property oracle
    is "accepted" (0) or "known class 1: position freshly opened by the last fill storing 0"
    (1) - so [judge] is 0 or 101 and the oracle is no stricter than the model. *)
From BV Require Proofs.CorrC15 Corr.C15.
Theorem C15_oracle_sound : forall c,
  Corr.C15.wf_case c = true -> Corr.C15.corr_b c = true ->
  forallb (fun v => N.eqb v 0 || N.eqb v 1) (Corr.C15.verdicts c) = true /\
  (Corr.C15.prop_b c = true \/ Corr.C15.known_b c = 1%N) /\
  (Corr.C15.judge c = 0%N \/ Corr.C15.judge c = 101%N).
Proof.
  intros c Hwf Hc. split; [exact (Proofs.CorrC15.verdicts_sound c Hwf Hc)|].
  split; [exact (Proofs.CorrC15.oracle_sound c Hwf Hc)|exact (Proofs.CorrC15.judge_sound c Hwf Hc)].
Qed.
Print Assumptions C15_oracle_sound.
