(** C06 — Binance L2 streams never leave a silently wrong local book.
    Property theorems only; each is closed by [exact <lemma>] and followed by
    [Print Assumptions].  [v : venue] ranges over both rule sets (Spot, Fut);
    [delta : N -> list level * list level] is an arbitrary exchange evolution (the changes made
    by each update id), [B delta side n] the exchange's book after every id <= n. *)
From BV Require Import Base.Common Model.Book Proofs.Book Model.BinanceSeq Proofs.BinanceSeq.
From BV Require Import Corr.C06 Proofs.CorrC06.

(** Key lemma: re-applying absolute-quantity updates that a map already contains changes
    nothing; hence a message whose id range U..u overlaps or abuts the book's id k
    (U <= k+1 <= u+1) takes the exchange's book as of k to the exchange's book as of u. *)
Theorem C06_reapply_idempotent : forall l m p, spec_upsert (spec_upsert m l) l p = spec_upsert m l p.
Proof. exact spec_upsert_idem. Qed.
Print Assumptions C06_reapply_idempotent.

Theorem C06_overlap : forall delta sd U k u p,
  (U <= k + 1)%N -> (k <= u)%N ->
  spec_upsert (B delta sd k) (payload delta sd U u) p = B delta sd u p.
Proof. exact overlap. Qed.
Print Assumptions C06_overlap.

(** For ANY exchange evolution, ANY snapshot point l (the REST snapshot being the exchange's
    book as of l) and ANY finite list of genuine depth-update messages delivered afterwards —
    in any order, with any multiplicity, with any gaps — after every delivered message the
    local book is strictly sorted, reports the sequencer's last update id as its sequence and
    equals, price by price on both sides, the exchange's book as of that id. *)
Theorem C06_book_is_exchange_book : forall delta v l bs as_ ms,
  nodup_prices bs = true -> nodup_prices as_ = true ->
  (forall p, lookup bs p = B delta Bid l p) -> (forall p, lookup as_ p = B delta Ask l p) ->
  Forall (genuine delta v) ms ->
  forall k, let st := fst (run1 v (ist_init l bs as_) (firstn k ms)) in
            book_is delta (i_book st) (sq_last (i_seq st)).
Proof.
  intros delta v l bs as_ ms Nb Na Hb Ha Hg k.
  exact (run1_inv delta v ms (ist_init l bs as_) Hg (init_inv delta l bs as_ Nb Na Hb Ha) k).
Qed.
Print Assumptions C06_book_is_exchange_book.

(** Every delivered message is classified Dropped / InvalidSequence / Applied; on the first two
    neither the sequencer nor the book changes, every error is the terminal InvalidSequence
    naming the held id and the message's first id; on Applied the sequencer advances to the
    message's last update id, which is also the sequence the book reports. *)
Theorem C06_classified : forall v st m,
  match step1 v st m with
  | (st', VDrop) => st' = st
  | (st', VErr e) => st' = st /\ e = InvalidSequence (sq_last (i_seq st)) (m_U m) /\ is_terminal e = true
  | (st', VOk) => i_seq st' = advance v (i_seq st) m /\ i_book st' = update (i_book st) (event_of v m) /\
                  sq_last (i_seq st') = m_u m /\ bseq (i_book st') = m_u m /\
                  sq_ups (i_seq st') = (sq_ups (i_seq st) + 1)%N
  end.
Proof. exact step1_classified. Qed.
Print Assumptions C06_classified.

(** The admitted messages form an unbroken chain under the venue's published rule
    (spot: U1 <= l+1 <= u1 then U = previous u + 1; futures: U1 <= l <= u1 then pu = previous u),
    whatever was delivered. *)
Theorem C06_admitted_chain : forall v l bk ms,
  chain_ok v l (admitted ms (snd (run1 v (mkIst (seq_new l) bk) ms))).
Proof. intros v l bk ms. exact (admitted_chain_first v ms (mkIst (seq_new l) bk) eq_refl). Qed.
Print Assumptions C06_admitted_chain.

(** Any number of strictly older messages followed by a gap-free in-order stream: the older
    ones are dropped, every message of the stream is applied, nothing errs. *)
Theorem C06_no_false_alarm : forall v l bk old suffix,
  Forall (older v l) old -> Forall (ids_wf v) suffix -> chain_ok v l suffix ->
  snd (run1 v (mkIst (seq_new l) bk) (old ++ suffix)) =
  repeat VDrop (length old) ++ repeat VOk (length suffix).
Proof. exact no_false_alarm_lemma. Qed.
Print Assumptions C06_no_false_alarm.

(** Every error of [validate_sequence] is an InvalidSequence, is terminal, and leaves the
    sequencer unchanged. *)
Theorem C06_sequence_error_terminal : forall v s m e,
  snd (validate_sequence v s m) = VErr e ->
  e = InvalidSequence (sq_last s) (m_U m) /\ is_terminal e = true /\ fst (validate_sequence v s m) = s.
Proof. exact validate_error_terminal. Qed.
Print Assumptions C06_sequence_error_terminal.

(** An error leaving the transformer is either "unidentifiable subscription id" (no instrument
    is subscribed under it; nothing changes) or the routed sequencer's terminal InvalidSequence
    (no sequencer changes). *)
Theorem C06_transform_error : forall v t sid m e,
  snd (transform v t sid m) = TErr e ->
  (tfind sid t = None /\ e = SocketUnidentifiable sid /\ is_terminal e = false /\ fst (transform v t sid m) = t) \/
  (exists mt, tfind sid t = Some mt /\ e = InvalidSequence (sq_last (mt_seq mt)) (m_U m) /\
              is_terminal e = true /\ forall sid', tfind sid' (fst (transform v t sid m)) = tfind sid' t).
Proof. exact transform_error. Qed.
Print Assumptions C06_transform_error.

(** An event leaving the transformer is attributed to the instrument subscribed under the
    message's subscription id, is the message's update with sequence = its last update id, and
    was admitted by that instrument's sequencer. *)
Theorem C06_transform_event : forall v t sid m key te ev,
  snd (transform v t sid m) = TEvent key te ev ->
  exists mt, tfind sid t = Some mt /\ key = mt_key mt /\ te = m_E m /\ ev = event_of v m /\
             event_seq ev = m_u m /\ snd (validate_sequence v (mt_seq mt) m) = VOk.
Proof. exact transform_event. Qed.
Print Assumptions C06_transform_event.

(** [with_termination_on_error(is_terminal)]: the consumer receives exactly the outputs before
    the first terminal error; none of them is a terminal error; if the connection produced one,
    it is the item at which the stream was cut (the connection is re-initialised). *)
Theorem C06_termination : forall os,
  exists k, with_termination os = firstn k os /\
            Forall (fun o => tout_terminal o = false) (firstn k os) /\
            ((k < length os)%nat -> exists o, nth_error os k = Some o /\ tout_terminal o = true) /\
            ((length os <= k)%nat -> k = length os).
Proof. exact with_termination_spec. Qed.
Print Assumptions C06_termination.

(** Several instruments on one connection: with pairwise distinct instrument keys, the
    sequencer and the book of the instrument subscribed under [sid] evolve exactly as if the
    messages carrying [sid] had been delivered to that instrument alone. *)
Theorem C06_routing : forall v ds t bs sid mt b,
  keys_distinct t -> tfind sid t = Some mt -> bfind (mt_key mt) bs = Some b ->
  let st' := fst (trun v (t, bs) ds) in
  let st1 := fst (run1 v (mkIst (mt_seq mt) b) (map snd (filter (fun d => N.eqb (fst d) sid) ds))) in
  tfind sid (fst st') = Some (mkMeta (mt_key mt) (i_seq st1)) /\
  bfind (mt_key mt) (snd st') = Some (i_book st1).
Proof. exact routing_lemma. Qed.
Print Assumptions C06_routing.

(** End to end on one connection carrying several instruments: if the local book of the
    instrument subscribed under [sid] starts as the exchange's book as of its sequencer's id and
    every delivered message carrying [sid] is genuine for that instrument's exchange, then after
    the whole delivery (hence, taking prefixes, after every message) - whatever was delivered
    under the other subscription ids - that instrument's book is again the exchange's book as
    of the id its sequencer holds, which is the sequence the book reports. *)
Theorem C06_connection : forall delta v ds t bs sid mt b,
  keys_distinct t -> tfind sid t = Some mt -> bfind (mt_key mt) bs = Some b ->
  book_is delta b (sq_last (mt_seq mt)) ->
  Forall (fun d => fst d = sid -> genuine delta v (snd d)) ds ->
  exists s' b', tfind sid (fst (fst (trun v (t, bs) ds))) = Some (mkMeta (mt_key mt) s') /\
                bfind (mt_key mt) (snd (fst (trun v (t, bs) ds))) = Some b' /\
                book_is delta b' (sq_last s').
Proof. exact connection_inv. Qed.
Print Assumptions C06_connection.

(** The sort done by [OrderBook::new] and the venue's one-level-per-price form do not change
    what a level list says, so both the concatenated changes and their netted form are
    genuine payloads. *)
Theorem C06_payload_forms : forall s l p,
  last_write (sort_levels s l) p = last_write l p /\ last_write (net l) p = last_write l p.
Proof. intros s l p. split; [exact (last_write_sort_levels s l p)|exact (last_write_net l p)]. Qed.
Print Assumptions C06_payload_forms.

(** Link between the theorems above and the correspondence judgement (Corr/C06.v): on EVERY
    case that meets the input requirements ([in_domain]: for a stream case, pairwise distinct
    subscription ids and instrument keys, and REST snapshots equal to the simulated exchange's
    book as of their id - checked, not trusted), if the model reproduces the observations exactly
    ([corr_b]) then the property oracle accepts them ([prop_b]) - for single sequencer calls,
    whole multi-instrument stream cases (any delivery, genuine or not), init cases and crashes
    alike.  So the oracle is no stricter than the proved model: a [prop_b] failure on the
    implementation always comes with (or without) a model disagreement, never from the oracle
    asking for more than the model provably delivers. *)
Theorem C06_oracle_sound : forall c, in_domain c = true -> corr_b c = true -> prop_b c = true.
Proof. exact oracle_sound. Qed.
Print Assumptions C06_oracle_sound.

(* ------------------------------------------------------------------------------------------ *)
(** Non-vacuity: a concrete exchange, a snapshot at id 2 and a delivery with an old message, an
    overlapping first message, a duplicate, a gap (error) and the late in-order message satisfy
    the hypotheses of [C06_book_is_exchange_book]; the run classifies them as expected and ends
    in the exchange's book as of id 5. *)
Definition c06_delta (n : N) : list level * list level :=
  match n with
  | 1%N => ([(100, 5)], [(101, 3)])%Z
  | 2%N => ([(99, 2)], [])%Z
  | 3%N => ([(100, 0)], [(102, 1)])%Z
  | 4%N => ([(98, 7)], [(101, 0)])%Z
  | 5%N => ([(99, 4)], [])%Z
  | _ => ([], [])
  end.

Definition c06_msg (U u : N) : msg :=
  mkMsg U u (U - 1) 0 0 (payload c06_delta Bid U u) (payload c06_delta Ask U u).

Definition c06_msgs : list msg :=
  [c06_msg 1 2; c06_msg 2 3; c06_msg 4 4; c06_msg 4 4; c06_msg 6 6; c06_msg 5 5]%N.

Example C06_nonvacuous :
  nodup_prices [(99, 2); (100, 5)]%Z = true /\ nodup_prices [(101, 3)]%Z = true /\
  (forall p, lookup [(99, 2); (100, 5)]%Z p = B c06_delta Bid 2 p) /\
  (forall p, lookup [(101, 3)]%Z p = B c06_delta Ask 2 p) /\
  Forall (genuine c06_delta Spot) c06_msgs /\
  run1 Spot (ist_init 2 [(99, 2); (100, 5)]%Z [(101, 3)]%Z) c06_msgs =
    (mkIst (mkSeq 3 5 4) (mkBook 5 None [(99, 4); (98, 7)]%Z [(102, 1)]%Z),
     [VDrop; VOk; VOk; VDrop; VErr (InvalidSequence 4 6); VOk]).
Proof.
  split; [reflexivity|]. split; [reflexivity|].
  split; [intros p; reflexivity|]. split; [intros p; reflexivity|].
  split; [|vm_compute; reflexivity].
  unfold c06_msgs.
  repeat (constructor; [unfold genuine, c06_msg; cbn [m_U m_u m_bids m_asks];
                        split; [lia|]; split; [intros; reflexivity|]; split; [intros; reflexivity|exact I]|]).
  constructor.
Qed.

(** The same exchange under the futures rule set: first message covers the snapshot id
    (U <= 2 <= u), the next ones chain by pu = previous u; a re-delivery of the message just
    applied is NOT dropped by the futures sequencer (u < last is false) and surfaces as a
    terminal error. *)
Example C06_nonvacuous_futures :
  Forall (genuine c06_delta Fut) [c06_msg 1 1; c06_msg 2 3; c06_msg 4 5; c06_msg 4 5]%N /\
  run1 Fut (ist_init 2 [(99, 2); (100, 5)]%Z [(101, 3)]%Z) [c06_msg 1 1; c06_msg 2 3; c06_msg 4 5; c06_msg 4 5]%N =
    (mkIst (mkSeq 2 5 2) (mkBook 5 (Some 0%Z) [(99, 4); (98, 7)]%Z [(102, 1)]%Z),
     [VDrop; VOk; VOk; VErr (InvalidSequence 5 4)]).
Proof.
  split; [|vm_compute; reflexivity].
  repeat (constructor; [unfold genuine, c06_msg; cbn [m_U m_u m_pu m_bids m_asks];
                        split; [lia|]; split; [intros; reflexivity|]; split; [intros; reflexivity|];
                        split; [lia|intros; lia]|]).
  constructor.
Qed.
