(** C05 — Local L2 order book equals a price->amount map after any event sequence.
    Property theorems only; each is closed by [exact <lemma>] and followed by
    [Print Assumptions]. *)
From BV Require Import Base.Common Model.Book Proofs.Book Corr.C05 Proofs.CorrC05.

(** After ANY finite sequence of snapshots and updates (snapshots listing each price once per
    side) applied to ANY book whose sides are strictly sorted, the sides are still strictly
    sorted (bids descending, asks ascending, so no price twice) and the book represents exactly
    the price->amount map obtained by running the map specification over the same events:
    zero amount deletes, other amounts set, deleting an absent level is a no-op; sequence and
    engine time are those of the last event. *)
Theorem C05_refines_map : forall evs b,
  forallb wf_event evs = true -> book_inv b ->
  book_inv (fold_left update evs b) /\
  sbook_eq (abs_book (fold_left update evs b)) (fold_left spec_update evs (abs_book b)).
Proof. intros evs b Hwf Hinv. exact (run_refines evs b (abs_book b) Hwf Hinv (sbook_eq_refl _)). Qed.
Print Assumptions C05_refines_map.

(** The level list holds *exactly* the levels of the map: two strictly sorted lists that
    represent the same map are equal, i.e. the list is the sorted enumeration of the map. *)
Theorem C05_levels_are_the_map : forall s l1 l2,
  strict_sorted s l1 = true -> strict_sorted s l2 = true ->
  (forall p, lookup l1 p = lookup l2 p) -> l1 = l2.
Proof. exact levels_determined. Qed.
Print Assumptions C05_levels_are_the_map.

(** One upsert acts on the map as specified and keeps the side sorted. *)
Theorem C05_upsert_single : forall s l lv p,
  strict_sorted s l = true ->
  strict_sorted s (upsert_single s l lv) = true /\
  lookup (upsert_single s l lv) p = spec_upsert_single (lookup l) lv p.
Proof.
  intros s l lv p H. rewrite strict_sorted_SS in *. split;
  [exact (upsert_single_SS s l lv H)|exact (lookup_upsert_single s l lv p H)].
Qed.
Print Assumptions C05_upsert_single.

(** Best bid / ask are the best prices of the map; mid-price and volume-weighted mid-price are
    the documented formulas on them. *)
Theorem C05_best_and_mid : forall b bp ba ap aa,
  book_inv b ->
  spec_best Bid (lookup (bids b)) bp ba -> spec_best Ask (lookup (asks b)) ap aa ->
  mid_price b = Some ((zq bp + zq ap) / 2)%Q /\
  vw_mid_price b = if Z.eqb (ba + aa) 0 then VwDivZero
                   else VwValue ((zq bp * zq aa + zq ap * zq ba) / zq (ba + aa))%Q.
Proof. exact mid_price_spec. Qed.
Print Assumptions C05_best_and_mid.

Theorem C05_head_is_best : forall s p a tl,
  strict_sorted s ((p, a) :: tl) = true -> spec_best s (lookup ((p, a) :: tl)) p a.
Proof. exact head_is_best. Qed.
Print Assumptions C05_head_is_best.

(** A depth-limited snapshot holds exactly the [d] best levels of each side of the map,
    with unchanged sequence. *)
Theorem C05_snapshot_depth : forall b d,
  book_inv b ->
  book_inv (snapshot b d) /\ bseq (snapshot b d) = bseq b /\ btime (snapshot b d) = btime b /\
  bids (snapshot b d) = firstn d (bids b) /\ asks (snapshot b d) = firstn d (asks b) /\
  (forall p, lookup (bids (snapshot b d)) p =
             if Nat.ltb (rank Bid (bids b) p) d then lookup (bids b) p else None) /\
  (forall p, lookup (asks (snapshot b d)) p =
             if Nat.ltb (rank Ask (asks b) p) d then lookup (asks b) p else None).
Proof. exact snapshot_spec. Qed.
Print Assumptions C05_snapshot_depth.

(** The book's sequence is that of the last applied event. *)
Theorem C05_sequence_is_last : forall evs e b,
  bseq (fold_left update (evs ++ [e]) b) = event_seq e.
Proof. exact last_seq. Qed.
Print Assumptions C05_sequence_is_last.

(** The L2 manager applies every stream item to the book of the instrument it names and to no
    other: after ANY stream, book [i] is what it would be had it received exactly its own events
    (so C05_refines_map applies to it); reconnecting notices change nothing. *)
Theorem C05_manager_routes : forall evs bs i d, (i < length bs)%nat ->
  nth i (fold_left mgr_step evs bs) d = fold_left update (route i evs) (nth i bs d).
Proof. exact mgr_routes. Qed.
Print Assumptions C05_manager_routes.

(** Algebra of upserts on a strictly sorted side: the level *list* itself (not only the map it
    represents) is independent of the path that produced it - the last write to a price wins,
    writes to distinct prices commute, deleting an absent level leaves the list untouched,
    insert-then-delete at an absent price restores the very list, and a batch acts only through
    its action on the map. *)
Theorem C05_upsert_algebra : forall s l,
  strict_sorted s l = true ->
  (forall p a1 a2,
     upsert_single s (upsert_single s l (p, a1)) (p, a2) = upsert_single s l (p, a2)) /\
  (forall x y, fst x <> fst y ->
     upsert_single s (upsert_single s l x) y = upsert_single s (upsert_single s l y) x) /\
  (forall p, lookup l p = None -> upsert_single s l (p, 0%Z) = l) /\
  (forall p a, lookup l p = None -> upsert_single s (upsert_single s l (p, a)) (p, 0%Z) = l) /\
  (forall lvs1 lvs2,
     (forall p, spec_upsert (lookup l) lvs1 p = spec_upsert (lookup l) lvs2 p) ->
     upsert s l lvs1 = upsert s l lvs2).
Proof. exact upsert_algebra. Qed.
Print Assumptions C05_upsert_algebra.

(** An update without levels changes nothing but sequence and time; a snapshot erases all
    earlier history (the resulting book does not depend on the book it is applied to). *)
Theorem C05_heartbeat_and_snapshot : forall b b' sq t bs as_,
  (bids (update b (Update sq t [] [])) = bids b /\ asks (update b (Update sq t [] [])) = asks b /\
   bseq (update b (Update sq t [] [])) = sq /\ btime (update b (Update sq t [] [])) = t) /\
  update b (Snapshot sq t bs as_) = update b' (Snapshot sq t bs as_).
Proof. exact heartbeat_and_snapshot. Qed.
Print Assumptions C05_heartbeat_and_snapshot.

(** Link between the theorems and the correspondence check: on every well-formed case on which
    the implementation's observed output equals the model's ([corr_b]), the observed output
    satisfies the property oracle ([prop_b]) — the oracle demands no more than the model gives. *)
Theorem C05_oracle_sound : forall c, wf_case c = true -> corr_b c = true -> prop_b c = true.
Proof. exact corr_implies_prop. Qed.
Print Assumptions C05_oracle_sound.

(** Non-vacuity: a concrete history (snapshot, front/middle/back inserts, replace, delete,
    absent delete, duplicate price inside one update) meets the hypotheses and ends in the
    expected non-trivial book. *)
Definition c05_example : list event :=
  [ Snapshot 10 (Some 1) [(100, 5); (98, 1); (99, 2)] [(103, 1); (101, 4)];
    Update 11 (Some 2) [(101, 7); (99, 0); (97, 3)] [(102, 2); (101, 0); (110, 0)];
    Update 12 None [(98, 4); (98, 6)] [(105, 9)] ]%Z.
Example C05_nonvacuous :
  forallb wf_event c05_example = true /\ book_inv empty_book /\
  fold_left update c05_example empty_book =
    mkBook 12 None [(101, 7); (100, 5); (98, 6); (97, 3)]%Z [(102, 2); (103, 1); (105, 9)]%Z.
Proof. split; [reflexivity|]. split; [exact empty_book_inv|vm_compute; reflexivity]. Qed.
