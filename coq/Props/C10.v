(** C10 — Audit stream is gap-free and sufficient to replicate engine state.
    Property theorems only; each is closed by [exact <lemma>] (plus destructuring glue) and
    followed by [Print Assumptions].

    Every theorem is universally quantified over the type [rest] of "everything both sides update
    with the same code" (trading state is concrete; [rest] stands for connectivity, balances,
    positions, market data, tear-sheet generators, global data), over the item payload type [P]
    and over the four deterministic update functions; over all engine states, all event feeds and
    all scripts of requests sent by commands, hooks and algo generation. *)
From Coq Require Import List ZArith NArith Bool.
From BV Require Import Base.Common Model.Replica Proofs.Replica Corr.C10 Proofs.CorrC10.
Import ListNotations.

Section C10.
Variables (rest P : Type).
Variable upd_acc_reconn : rest -> Z -> rest.
Variable upd_mkt_reconn : rest -> Z -> rest.
Variable upd_account : rest -> P -> rest.
Variable upd_market : rest -> P -> rest.

Notation run_loop := (run_loop rest P upd_acc_reconn upd_mkt_reconn upd_account upd_market).
Notation run_manual := (run_manual rest P upd_acc_reconn upd_mkt_reconn upd_account upd_market).
Notation replica_step :=
  (replica_step rest P upd_acc_reconn upd_mkt_reconn upd_account upd_market).
Notation replica_run :=
  (replica_run rest P upd_acc_reconn upd_mkt_reconn upd_account upd_market).
Notation apply_ticks :=
  (apply_ticks rest P upd_acc_reconn upd_mkt_reconn upd_account upd_market).
Notation hyps := (hyps rest P upd_acc_reconn upd_mkt_reconn upd_account upd_market).
Notation lockstep := (lockstep rest P upd_acc_reconn upd_mkt_reconn upd_account upd_market).

(** A runner (sync_run_with_audit / async_run_with_audit) started after the state snapshot with
    sequence [s0] emits ticks numbered [s0+1, s0+2, ...]: exactly one per processed input event,
    in feed order, each carrying that event; no tick before the last is terminal and the last
    one is: either the feed-ended record after the whole feed, or the record of the event
    (shutdown / fatal error) at which the run stopped. *)
Theorem C10_one_per_event_consecutive : forall (e0 : engine rest) (f : feed P),
  let '(e1, snap) := audit_snapshot e0 in
  let '(e2, ticks) := run_loop e1 f in
  fst snap = e_seq e0 /\
  map fst ticks = seqN (fst snap + 1) (length ticks) /\
  e_seq e2 = (fst snap + 1 + N.of_nat (length ticks))%N /\
  exists pre last,
    ticks = pre ++ [last] /\
    Forall (fun t => is_terminal (snd t) = false) pre /\
    is_terminal (snd last) = true /\
    map (fun t => carried (snd t)) pre = map Some (firstn (length pre) (map fst f)) /\
    ((snd last = AFeedEnded /\ length pre = length f) \/
     (exists ev, carried (snd last) = Some ev /\ nth_error (map fst f) (length pre) = Some ev)).
Proof.
  intros e0 f. unfold audit_snapshot.
  destruct (run_loop _ f) as [e2 ticks] eqn:H. cbn [fst].
  destruct (run_loop_numbering _ _ _ _ _ _ _ _ _ _ H) as [N1 N2]. cbn [e_seq] in N1, N2.
  repeat split; auto. exact (run_loop_shape _ _ _ _ _ _ _ _ _ _ H).
Qed.

(** [process_with_audit] called event by event: one tick per event, carrying it, numbered
    consecutively from the engine's current sequence. *)
Theorem C10_manual_consecutive : forall (e e' : engine rest) (f : feed P) ticks,
  run_manual e f = (e', ticks) ->
  map fst ticks = seqN (e_seq e) (length f) /\ length ticks = length f /\
  map (fun t => carried (snd t)) ticks = map Some (map fst f) /\
  e_seq e' = (e_seq e + N.of_nat (length f))%N.
Proof.
  intros e e' f ticks.
  exact (run_manual_numbering rest P upd_acc_reconn upd_mkt_reconn upd_account upd_market f e e' ticks).
Qed.

(** The replica seeded with the snapshot is related to the engine, and over ANY feed and ANY
    scripts satisfying the input requirements ([hyps]: exchange reports carry no in-flight
    markers and echo the static data of a record that holds no exchange data yet; open requests
    use client ids with no confirmed order tracked), every tick is applied by the replica and
    afterwards: trading state equal, [rest] equal, and the orders equal once in-flight markers
    are set aside ([Rel] / [Rst]); a replica without markers stays without. *)
Theorem C10_replica_simulation : forall (e0 : engine rest) (f : feed P),
  hyps (e_state e0) (e_state e0) f = true ->
  let '(e1, snap) := audit_snapshot e0 in
  Rel e1 (replica_init snap) /\ lockstep e1 (replica_init snap) f.
Proof.
  intros e0 f H. unfold audit_snapshot, replica_init. cbn [fst snd].
  assert (R0 : Rel (mkEngine (e_state e0) (e_seq e0 + 1)) (mkReplica (e_state e0) (e_seq e0))).
  { split; [|reflexivity]. cbn [e_state r_state]. repeat split; reflexivity. }
  split; [exact R0|].
  exact (lockstep_holds rest P upd_acc_reconn upd_mkt_reconn upd_account upd_market f _ _ R0 H).
Qed.

(** Reading of the relation when the replica holds no marker (e.g. snapshot taken while no
    request was in flight): its orders ARE the engine's orders with the markers set aside. *)
Theorem C10_orders_modulo_markers : forall (e : engine rest) (r : replica rest),
  Rel e r -> marker_free (orders (r_state r)) ->
  trading (e_state e) = trading (r_state r) /\ srest (e_state e) = srest (r_state r) /\
  forall k, proj (ofind (orders (e_state e)) k) = ofind (orders (r_state r)) k.
Proof.
  intros e r [(H1 & H2 & H3) _] Hm. repeat split; auto. intro k. rewrite H3. apply Hm.
Qed.

(** The whole stream a runner sends is accepted by [StateReplicaManager::run] (Ok), and the
    final replica is related to the final engine. *)
Theorem C10_run_replicated : forall (e0 : engine rest) (f : feed P),
  hyps (e_state e0) (e_state e0) f = true ->
  let '(e1, snap) := audit_snapshot e0 in
  let '(e2, ticks) := run_loop e1 f in
  exists r2, replica_run (replica_init snap) ticks = (r2, true) /\ Rst (e_state e2) (r_state r2).
Proof.
  intros e0 f H. unfold audit_snapshot, replica_init. cbn [fst snd].
  destruct (run_loop _ f) as [e2 ticks] eqn:Hr.
  assert (R0 : Rel (mkEngine (e_state e0) (e_seq e0 + 1)) (mkReplica (e_state e0) (e_seq e0))).
  { split; [|reflexivity]. cbn [e_state r_state]. repeat split; reflexivity. }
  exact (run_loop_replica rest P upd_acc_reconn upd_mkt_reconn upd_account upd_market
           f _ _ _ _ R0 H Hr).
Qed.

(** A record whose number skips ahead is rejected: [run] returns Err and the replica keeps the
    state it had — also when the gap comes after any accepted prefix (a stream with one record
    deleted). *)
Theorem C10_gap_rejected :
  (forall (r : replica rest) (t : N * audit P) ts,
     carried (snd t) <> None -> (r_seq r + 1 < fst t)%N ->
     replica_step r t = (r, RErr) /\ replica_run r (t :: ts) = (r, false)) /\
  (forall (pre : list (N * audit P)) (r : replica rest) u ts,
     valid_from (r_seq r + 1) pre -> carried (snd u) <> None ->
     (r_seq r + N.of_nat (length pre) + 1 < fst u)%N ->
     replica_run r (pre ++ u :: ts) = (apply_ticks r pre, false)).
Proof.
  split.
  - intros r t ts Hc Hg. split.
    + exact (gap_step rest P upd_acc_reconn upd_mkt_reconn upd_account upd_market r t Hc Hg).
    + exact (gap_run rest P upd_acc_reconn upd_mkt_reconn upd_account upd_market r t ts Hc Hg).
  - exact (gap_after_prefix rest P upd_acc_reconn upd_mkt_reconn upd_account upd_market).
Qed.

(** A repeated or older record is skipped without touching the replica; a stream with a record
    duplicated in place gives exactly the result of the original stream. *)
Theorem C10_repeat_skipped :
  (forall (r : replica rest) (t : N * audit P) ts,
     carried (snd t) <> None -> (fst t <= r_seq r)%N ->
     replica_step r t = (r, RSkipped) /\ replica_run r (t :: ts) = replica_run r ts) /\
  (forall (pre : list (N * audit P)) (r : replica rest) t ts,
     replica_run r (pre ++ t :: t :: ts) = replica_run r (pre ++ t :: ts)).
Proof.
  split.
  - intros r t ts Hc Hg. split.
    + exact (skip_step rest P upd_acc_reconn upd_mkt_reconn upd_account upd_market r t Hc Hg).
    + exact (skip_run rest P upd_acc_reconn upd_mkt_reconn upd_account upd_market r t ts Hc Hg).
  - exact (repeated_tick_same rest P upd_acc_reconn upd_mkt_reconn upd_account upd_market).
Qed.

End C10.

Print Assumptions C10_one_per_event_consecutive.
Print Assumptions C10_manual_consecutive.
Print Assumptions C10_replica_simulation.
Print Assumptions C10_orders_modulo_markers.
Print Assumptions C10_run_replicated.
Print Assumptions C10_gap_rejected.
Print Assumptions C10_repeat_skipped.

(** The correspondence oracle is no stricter than the model: whenever the model reproduces every
    observation of a case ([corr_b]), the observations satisfy the property oracle ([prop_b]) -
    for every case, perturbed streams included. No separate well-formedness hypothesis is needed:
    [prop_b] itself asks for the simulation part only when the processed part of the feed meets
    the input requirements ([wf_case], i.e. [hyps]), and that is the one place the proof uses them.
    Hence a [prop_b] failure on a case the model agrees with is impossible, and an oracle failure
    always means the implementation left the model. *)
Theorem C10_oracle_sound : forall c : case, corr_b c = true -> prop_b c = true.
Proof. exact oracle_sound. Qed.
Print Assumptions C10_oracle_sound.

(** the form with the input requirements spelled as a hypothesis *)
Theorem C10_oracle_sound_wf : forall c : case,
  wf_case c = true -> corr_b c = true -> prop_b c = true.
Proof. intros c _. exact (oracle_sound c). Qed.
Print Assumptions C10_oracle_sound_wf.

(** Non-vacuity: a concrete history meets the hypotheses. [rest] is a log of the updates applied
    (so equality of [rest] is equality of everything the shared code did). The engine opens an
    order by command (OpenInFlight), the exchange confirms it, the strategy cancels it
    (CancelInFlight), the cancel fails, a second order is opened by the algo and fully filled,
    trading is disabled; shutdown ends the run. Engine and replica orders differ by the markers
    only. *)
Definition c10_log (tag : Z) (l : list Z) (x : Z) : list Z := l ++ [tag; x].
Definition c10_run := run_loop (list Z) Z (c10_log 1) (c10_log 2) (c10_log 3) (c10_log 4).
Definition c10_replica_run := replica_run (list Z) Z (c10_log 1) (c10_log 2) (c10_log 3) (c10_log 4).
Definition c10_hyps := hyps (list Z) Z (c10_log 1) (c10_log 2) (c10_log 3) (c10_log 4).

Definition c10_feed : list (event Z * script) :=
  let m1 := mkMeta 100 10 0 in
  let m2 := mkMeta 101 20 5 in
  let none := mkScript no_sent no_sent no_sent in
  [ (EvMarket 7%Z, none);
    (EvCommand (CmdSendOpens [((0, 1), (11, 5))]),
       mkScript (mkSent [] [((0, 1), (11, 5))] false) no_sent no_sent);
    (EvAccount 8 [OSnap (0, 1) 11 5 (SOpen m1)], none);
    (EvTrading true, mkScript no_sent no_sent (mkSent [(0, 1)] [((1, 2), (12, 5))] false));
    (EvAccount 9 [OCancelResp (0, 1) false; OSnap (1, 2) 12 5 (SOpen m2)], none);
    (EvAccReconn 0, mkScript no_sent (mkSent [(0, 1)] [] false) no_sent);
    (EvTrading false, none);
    (EvShutdown, none);
    (EvMarket 10, none) ]%Z.

Definition c10_e0 : engine (list Z) := mkEngine (mkState false [] []) 4.

Example C10_nonvacuous :
  c10_hyps (e_state c10_e0) (e_state c10_e0) c10_feed = true /\
  let '(e1, snap) := audit_snapshot c10_e0 in
  let '(e2, ticks) := c10_run e1 c10_feed in
  fst snap = 4%N /\ map fst ticks = [5; 6; 7; 8; 9; 10; 11; 12]%N /\
  orders (e_state e2) = [((0, 1), mkOrder 11 5 (CIF (Some (mkMeta 100 10 0))))]%Z /\
  exists r2, c10_replica_run (replica_init snap) ticks = (r2, true) /\
    orders (r_state r2) = [((0, 1), mkOrder 11 5 (Open (mkMeta 100 10 0)))]%Z /\
    srest (r_state r2) = srest (e_state e2) /\ r_seq r2 = 12%N.
Proof.
  split; [vm_compute; reflexivity|]. vm_compute.
  repeat split. eexists. repeat split.
Qed.
Print Assumptions C10_nonvacuous.
