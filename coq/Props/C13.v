(** C13 — Market-data messages are attributed to the subscribed instrument, or rejected.
    Property theorems only; each is closed by [exact <lemma>] and followed by
    [Print Assumptions].  The model (Model/SubId.v) covers every connector of the dynamic stream
    builder served by the generic StatelessTransformer; [venue_symbol] / [venue_channel] are the
    venues' conventions, independent of the code's [market_of] / [channel_of]. *)
From Coq Require Import String List ZArith NArith.
From BV Require Import Base.Common Model.SubId Proofs.SubId Corr.C13 Proofs.SubIdOracle Proofs.SubIdL2.
Import ListNotations.
Local Open Scope string_scope.

(** ATTRIBUTED.  For every connector (Bitfinex: see below), subscription kind and ANY list of
    subscriptions whose venue symbols are pairwise distinct per channel (option strikes written
    without lower-case letters): a message in the venue's format about the market the venue
    calls [venue_symbol e (snd s)] of a subscribed instrument [s] is normalised into exactly one
    event per item of the message, each carrying the key of [s], the connector's exchange id,
    and the item's time, price, side and amount (or top-of-book levels / liquidation fields). *)
Theorem C13_attributed : forall e sk subs confs s m,
  In s subs -> strikes_plain subs -> distinct_venue_symbols e sk subs ->
  msg_about e sk (channel_of e sk (kind_of (snd s))) (venue_symbol e (snd s)) m ->
  exists c sy cid items evs,
    m = MData c sy cid items /\
    transform e sk (transformer_map e sk subs confs) m = OOut (map OEv evs) /\
    Forall2 (event_matches e sk (fst s)) items evs.
Proof. exact attributed. Qed.
Print Assumptions C13_attributed.

(** REJECTED.  A message in the venue's format about a market [sym] that no subscribed
    instrument has (on that channel) yields exactly one unidentifiable-subscription error and
    no event. *)
Theorem C13_rejected : forall e sk subs confs k sym m,
  strikes_plain subs ->
  msg_about e sk (channel_of e sk k) sym m ->
  (forall s, In s subs ->
     ~ (channel_of e sk (kind_of (snd s)) = channel_of e sk k /\ venue_symbol e (snd s) = sym)) ->
  transform e sk (transformer_map e sk subs confs) m = OOut [OUnident (sub_id (channel_of e sk k) sym)].
Proof. exact rejected. Qed.
Print Assumptions C13_rejected.

(** NEVER ANOTHER INSTRUMENT.  Whatever the message (well formed or not, any connector, any
    subscription list, no distinctness needed): every event the transformer emits carries the
    connector's exchange id and the key of a subscribed instrument, and (all connectors but
    Bitfinex) the message's subscription id is exactly the id of that subscription. *)
Theorem C13_never_another : forall e sk subs confs m l ev,
  transform e sk (transformer_map e sk subs confs) m = OOut l -> In (OEv ev) l ->
  e_exch ev = e /\
  exists s, In s subs /\ fst s = e_key ev /\ (e <> Bitfinex -> msg_id e sk m = IdSome (sid e sk s)).
Proof. exact never_another. Qed.
Print Assumptions C13_never_another.

(** BITFINEX identifies messages by the numeric channel id of the subscription confirmation.
    If the venue confirms each market once and hands out distinct channel ids, a trade message
    carrying the channel id confirmed for the market of subscribed instrument [s] is attributed
    to [s]; a trade message carrying a channel id that was never handed out is rejected. *)
Theorem C13_bitfinex_attributed : forall sk subs confs s c sy cid items,
  In s subs -> distinct_venue_symbols Bitfinex sk subs ->
  NoDup (map conf_cid confs) -> NoDup (map conf_sid confs) ->
  In ("trades", venue_symbol Bitfinex (snd s), cid) confs ->
  exists evs,
    transform Bitfinex sk (transformer_map Bitfinex sk subs confs) (MData c sy cid items) = OOut (map OEv evs) /\
    Forall2 (event_matches Bitfinex sk (fst s)) items evs.
Proof. exact bitfinex_attributed_venue. Qed.
Print Assumptions C13_bitfinex_attributed.

Theorem C13_bitfinex_rejected : forall sk subs confs c sy cid items,
  ~ In cid (map conf_cid confs) ->
  transform Bitfinex sk (transformer_map Bitfinex sk subs confs) (MData c sy cid items)
  = OOut [OUnident (dec cid)].
Proof. exact bitfinex_rejected. Qed.
Print Assumptions C13_bitfinex_rejected.

(** The code's market identifier is the venue's symbol, for every connector, every instrument
    flavour and kind, whatever the letter case of the base / quote names. *)
Theorem C13_market_is_venue_symbol : forall e d,
  strike_plain (kind_of d) -> market_of e d = venue_symbol e d.
Proof. exact market_is_venue_symbol. Qed.
Print Assumptions C13_market_is_venue_symbol.

Theorem C13_channel_is_venue_channel : forall e sk k c,
  venue_channel e k = Some c -> channel_of e sk k = c.
Proof. exact channel_is_venue_channel. Qed.
Print Assumptions C13_channel_is_venue_channel.

(** [channel ++ "|" ++ market] determines channel and market: '|' occurs in no channel name. *)
Theorem C13_sub_id_injective : forall e sk k1 k2 m1 m2,
  sub_id (channel_of e sk k1) m1 = sub_id (channel_of e sk k2) m2 ->
  channel_of e sk k1 = channel_of e sk k2 /\ m1 = m2.
Proof. intros e sk k1 k2 m1 m2. apply sub_id_inj; apply channel_no_bar. Qed.
Print Assumptions C13_sub_id_injective.

(** ASCII case maps distribute over concatenation and are idempotent; lower-casing first (as
    [AssetNameInternal::new] does) does not change the upper-cased result. *)
Theorem C13_case_maps : forall a b,
  upper (a ++ b) = upper a ++ upper b /\ lower (a ++ b) = lower a ++ lower b /\
  upper (upper a) = upper a /\ lower (lower a) = lower a /\ upper (lower a) = upper a.
Proof.
  intros a b. repeat split;
  [exact (upper_app a b)|exact (lower_app a b)|exact (upper_idem a)|exact (lower_idem a)|exact (upper_lower a)].
Qed.
Print Assumptions C13_case_maps.

(** ORACLE vs MODEL.  The executable oracle [msg_prop] that judges the implementation's observed
    behaviour in the correspondence runs (Corr/C13.v, written against the venue conventions) is
    satisfied by the model's own outcome on EVERY message - well formed or not, subscribed or
    not, with or without colliding symbols - for every connector but Bitfinex (payload channel
    names without '|', Bybit symbols without '.', single-object payloads with one item).  Hence
    an oracle failure is always a deviation of the implementation from the model, and wherever
    implementation = model ([corr_b]) the oracle holds. *)
Theorem C13_oracle_accepts_model : forall e sk subs confs m,
  e <> Bitfinex -> family_of e <> FNone ->
  strikes_plain subs -> msg_ok e sk m = true -> chan_plain m -> bybit_plain e m ->
  msg_prop e sk subs confs m (transform e sk (transformer_map e sk subs confs) m) = true.
Proof. exact oracle_accepts_model. Qed.
Print Assumptions C13_oracle_accepts_model.

(** The same for Bitfinex, whose messages are identified through the confirmations. *)
Theorem C13_oracle_accepts_model_bitfinex : forall sk subs confs m,
  bfx_confs_ok confs ->
  msg_prop Bitfinex sk subs confs m (transform Bitfinex sk (transformer_map Bitfinex sk subs confs) m) = true.
Proof. exact oracle_accepts_model_bitfinex. Qed.
Print Assumptions C13_oracle_accepts_model_bitfinex.

(** ORACLE SOUNDNESS at case level, all connectors: for every correspondence case inside the
    decidable domain [in_domain] (input requirements [wf_case]; strikes without lower-case
    letters; payload channels without '|', Bybit symbols without '.'; Bitfinex: distinct channel
    ids, each market confirmed once on the trades channel, and - the one observed fact that is
    not a model output - the venue was asked for the market of every subscribed instrument):
    if the implementation's observed table and outcomes equal the model's ([corr_b]) then the
    property oracle holds ([prop_b]). *)
Theorem C13_oracle_sound : forall c, in_domain c = true -> corr_b c = true -> prop_b c = true.
Proof. exact oracle_sound. Qed.
Print Assumptions C13_oracle_sound.

(** THE DYNAMIC BUILDER'S VALIDATION ([exchange_supports_instrument_kind_sub_kind], used by
    [validate_subscriptions] before any connection is made) accepts exactly the (exchange,
    instrument kind, subscription kind) triples for which [DynamicStreams::init] has a connector
    arm ([routed_pair]) and whose instrument kind the venue endpoint serves ([venue_serves]);
    the typed per-connector validation accepts at least what the venue serves. *)
Theorem C13_builder_accepts_exactly_supported : forall e k sk,
  supports_triple e k sk = (routed_pair e sk && venue_serves e k)%bool.
Proof. exact supports_triple_spec. Qed.
Print Assumptions C13_builder_accepts_exactly_supported.

Theorem C13_typed_validation_accepts_served : forall e k,
  venue_serves e k = true -> supports_kind e k = true.
Proof. exact venue_serves_supports_kind. Qed.
Print Assumptions C13_typed_validation_accepts_served.

(** oracle soundness for the builder-validation observations: observed = model implies the
    oracle holds (per triple and per validated batch) *)
Theorem C13_support_oracle_sound :
  (forall t, triple_corr t = true -> triple_prop t = true) /\
  (forall b, batch_corr b = true -> batch_prop b = true).
Proof. exact support_oracle_sound. Qed.
Print Assumptions C13_support_oracle_sound.

(** BINANCE ORDER BOOKS L2 (spot and USD futures).  With pairwise distinct venue symbols and a
    successfully initialised transformer: the first depth update for the market of subscribed
    instrument [s] that is valid, per the venue rule, against the snapshot fetched for [s]
    yields exactly one update event carrying the key of [s], the connector's exchange id, the
    message's event time, sequence = u, engine time (futures) and levels. *)
Theorem C13_l2_attributed : forall e subs snaps t s l m,
  In s subs -> strikes_plain subs -> distinct_l2_symbols e subs ->
  l2_init e subs snaps = Some t ->
  snap_of snaps (fst s) = Some (fst s, l) ->
  l_sym m = venue_symbol e (snd s) ->
  first_update_valid e l m = true ->
  snd (l2_transform e t m) = L2Out [l2_event e (fst s) m].
Proof. exact l2_attributed. Qed.
Print Assumptions C13_l2_attributed.

(** a depth update for a market no subscribed instrument has: unidentifiable, table unchanged *)
Theorem C13_l2_rejected : forall e subs snaps t m,
  strikes_plain subs -> l2_init e subs snaps = Some t ->
  (forall s, In s subs -> venue_symbol e (snd s) <> l_sym m) ->
  l2_transform e t m = (t, L2Out [L2Unident (sub_id l2_channel (l_sym m))]).
Proof. exact l2_rejected. Qed.
Print Assumptions C13_l2_rejected.

(** over ANY sequence of depth updates after ANY successful init: every emitted event carries
    the connector's exchange id and the key of the subscription whose id the update names *)
Theorem C13_l2_never_another : forall e subs snaps t ms,
  l2_init e subs snaps = Some t ->
  Forall2 (fun m o => forall l k ex te sq ten bs as_, o = L2Out l -> In (L2Ev k ex te sq ten bs as_) l ->
             ex = e /\ exists s, In s subs /\ fst s = k /\ l2_sid e s = sub_id l2_channel (l_sym m))
          ms (l2_run e t ms).
Proof. intros e subs snaps t ms H. apply l2_run_never_another. exact (l2_init_keys_ok _ _ _ _ H). Qed.
Print Assumptions C13_l2_never_another.

(** Non-vacuity: concrete subscription sets satisfy the hypotheses (similar prefixes, mixed
    case, a dated future at the turn of the year, a Bitfinex confirmation table) and the
    transformer attributes / rejects as stated. *)
Definition c13_subs : list sub :=
  [ (1%N, IPair "Btc" "usdt" KSpot); (2%N, IPair "btcd" "USDT" KSpot);
    (3%N, IPair "btc" "usd" (KFuture 1735545600000)); (4%N, INamed "ETH-USDT-SWAP" KPerp) ].
Definition c13_item (sym : string) : item := mkItem sym "42" (Some 1630048897897%Z) Sell 168879 3 0 0.
Example C13_nonvacuous :
  strikes_plain c13_subs /\ distinct_venue_symbols Okx PublicTrades c13_subs /\
  msg_about Okx PublicTrades "trades" "BTC-USD-241230" (MData "trades" "BTC-USD-241230" 0 [c13_item "BTC-USD-241230"]) /\
  transform Okx PublicTrades (transformer_map Okx PublicTrades c13_subs [])
    (MData "trades" "BTC-USD-241230" 0 [c13_item "BTC-USD-241230"])
  = OOut [OEv (mkEv 3 Okx (Some 1630048897897%Z) (BTrade "42" 168879 3 Sell))] /\
  transform Okx PublicTrades (transformer_map Okx PublicTrades c13_subs [])
    (MData "trades" "BTCD-USD" 0 [c13_item "BTCD-USD"]) = OOut [OUnident "trades|BTCD-USD"] /\
  transform Bitfinex PublicTrades
    (transformer_map Bitfinex PublicTrades [(7%N, IPair "btc" "usd" KSpot); (8%N, IPair "eth" "USD" KSpot)]
       [("trades", "tETHUSD", 17%N); ("trades", "tBTCUSD", 420191%N)])
    (MData "" "" 17 [c13_item ""])
  = OOut [OEv (mkEv 8 Bitfinex (Some 1630048897897%Z) (BTrade "42" 168879 3 Sell))].
Proof.
  split. { intros s Hs. cbn in Hs. repeat (destruct Hs as [<-|Hs]; [exact I|]). contradiction. }
  split.
  { intros s1 s2 H1 H2 _. cbn in H1, H2.
    repeat (destruct H1 as [<-|H1]; [repeat (destruct H2 as [<-|H2]; [vm_compute; try reflexivity; discriminate|]); contradiction|]).
    contradiction. }
  split. { cbn. split; reflexivity. }
  repeat split; vm_compute; reflexivity.
Qed.
