(** C17 — Running dataset statistics equal the statistics of the whole dataset.
    Property theorems only; each is closed by [exact <lemma>] and followed by
    [Print Assumptions].  Arithmetic is exact ([Qc]); decimal rounding is abstracted and is
    accounted for by tolerances on the correspondence side (Corr/C17.v). *)
From Coq Require Import Permutation.
From BV Require Import Model.Stats Proofs.Stats Corr.C17 Proofs.CorrC17.
Open Scope Qc_scope.

(** For ANY finite sequence of values fed one by one to [DataSetSummary::update] starting from
    [default()], the running count, sum, mean, recurrence M and population variance equal the
    quantities computed from the whole sequence at once: n, the sum, sum/n, the sum of squared
    deviations from that mean, and that sum divided by n. *)
Theorem C17_running_equals_batch : forall l,
  s_count (ds_run l) = nQc (length l) /\
  s_sum (ds_run l) = sumQc l /\
  s_mean (ds_run l) = sumQc l / nQc (length l) /\
  d_m (s_disp (ds_run l)) = sumQc (map (fun x => sq (x - sumQc l / nQc (length l))) l) /\
  d_var (s_disp (ds_run l)) =
    sumQc (map (fun x => sq (x - sumQc l / nQc (length l))) l) / nQc (length l).
Proof. exact run_equals_batch. Qed.
Print Assumptions C17_running_equals_batch.

(** ... and this holds after every single update, since every prefix is itself a sequence:
    the state after [l1 ++ l2] is the state after [l1] updated with [l2]. *)
Theorem C17_every_prefix : forall l1 l2,
  ds_run (l1 ++ l2) = fold_left ds_update l2 (ds_run l1).
Proof. intros. unfold ds_run. apply fold_left_app. Qed.
Print Assumptions C17_every_prefix.

(** The range is activated and holds exactly the greatest and the least value seen. *)
Theorem C17_range_is_min_max : forall l, l <> [] ->
  r_act (d_range (s_disp (ds_run l))) = true /\
  is_max l (r_high (d_range (s_disp (ds_run l)))) /\
  is_min l (r_low (d_range (s_disp (ds_run l)))).
Proof. exact run_range. Qed.
Print Assumptions C17_range_is_min_max.

(** Variance (and the recurrence M) are never negative. *)
Theorem C17_variance_nonneg : forall l,
  0 <= d_var (s_disp (ds_run l)) /\ 0 <= d_m (s_disp (ds_run l)).
Proof. intro l. split; [exact (run_var_nonneg l)|exact (run_m_nonneg l)]. Qed.
Print Assumptions C17_variance_nonneg.

(** The mean always lies within the range. *)
Theorem C17_mean_in_range : forall l, l <> [] ->
  r_low (d_range (s_disp (ds_run l))) <= s_mean (ds_run l) /\
  s_mean (ds_run l) <= r_high (d_range (s_disp (ds_run l))).
Proof. exact run_mean_in_range. Qed.
Print Assumptions C17_mean_in_range.

(** A value landing exactly on the running mean leaves mean and M unchanged, yet the variance is
    re-derived from the grown count (M / (n + 1)): no "nothing changed" shortcut is sound. *)
Theorem C17_value_at_mean : forall s : ds,
  s_mean (ds_update s (s_mean s)) = s_mean s /\
  d_m (s_disp (ds_update s (s_mean s))) = d_m (s_disp s) /\
  d_var (s_disp (ds_update s (s_mean s))) = calc_pop_var (d_m (s_disp s)) (s_count s + 1) /\
  s_count (ds_update s (s_mean s)) = s_count s + 1.
Proof. exact ds_update_at_mean. Qed.
Print Assumptions C17_value_at_mean.

(** Arrival order is irrelevant: two orderings of the same values lead to the SAME summary
    (count, sum, mean, M, variance, range — every field). *)
Theorem C17_order_independent : forall l l', Permutation l l' -> ds_run l = ds_run l'.
Proof. exact run_perm. Qed.
Print Assumptions C17_order_independent.

(** The standard deviation is not a function of the model; the correspondence oracle accepts
    an observed value [s] when [0 <= s] and [s * s] is the variance.  That determines it. *)
Theorem C17_std_dev_determined : forall v s1 s2 : Qc,
  0 <= s1 -> 0 <= s2 -> s1 * s1 = v -> s2 * s2 = v -> s1 = s2.
Proof. exact sqrt_unique. Qed.
Print Assumptions C17_std_dev_determined.

(** The correspondence oracle is no stricter than the model: the summary the model computes for
    ANY non-empty dataset, completed with any [sd >= 0] whose square is the variance, passes the
    whole-dataset oracle [batch_ok_gen] of Corr/C17.v at every tolerance scale.  So wherever the
    implementation agrees with the model, its observed summaries satisfy the oracle. *)
Theorem C17_oracle_accepts_model : forall (exact : bool) (sc1 sc2 : Q) (l : list Qc) (sd : Q),
  l <> [] -> (0 <= sd)%Q -> (sd * sd == this (d_var (s_disp (ds_run l))))%Q ->
  batch_ok_gen exact sc1 sc2 l (obs_of_ds (ds_run l) sd) = true.
Proof. exact oracle_accepts_model. Qed.
Print Assumptions C17_oracle_accepts_model.

(** The general link between the two halves of the correspondence check: for EVERY case (every
    input and every tuple of observed outputs, whatever the implementation returned), if the
    observation agrees with the model ([corr_b]: exact fields equal, divided fields within the
    tolerance, plus the exact facts variance >= 0, std_dev^2 = variance, low <= mean <= high) then
    it satisfies the property oracle [prop_b] at the same tolerance (twice the tolerance where two
    observations are compared with each other).  No input requirement is needed for C17. *)
Theorem C17_oracle_sound : forall c : case, corr_b c = true -> prop_b c = true.
Proof. exact oracle_sound. Qed.
Print Assumptions C17_oracle_sound.

(** Persist/restore steps (serialise the summary, deserialise it, continue) anywhere in a history
    do not change any later state of the model: a history with such steps ends in the state of
    the history without them.  (On the implementation side the harness checks that the restored
    value equals the original and continues on the restored one.) *)
Theorem C17_persist_invariant : forall ops s,
  fold_left ds_step ops s = fold_left ds_update (dvals ops) s.
Proof. exact persist_invariant. Qed.
Print Assumptions C17_persist_invariant.

(** Non-vacuity: a concrete dataset with negatives, a repeat and widely different magnitudes. *)
Definition c17_example : list Qc :=
  [Q2Qc (10 # 1); Q2Qc (-25 # 10); Q2Qc (10 # 1); Q2Qc (1000000 # 1); Q2Qc (1 # 1000)].
Example C17_nonvacuous :
  c17_example <> [] /\
  s_count (ds_run c17_example) = Q2Qc (5 # 1) /\
  s_sum (ds_run c17_example) = Q2Qc (1000017501 # 1000) /\
  s_mean (ds_run c17_example) = Q2Qc (1000017501 # 5000) /\
  r_high (d_range (s_disp (ds_run c17_example))) = Q2Qc (1000000 # 1) /\
  r_low (d_range (s_disp (ds_run c17_example))) = Q2Qc (-25 # 10) /\
  Qcltb 0 (d_var (s_disp (ds_run c17_example))) = true.
Proof.
  split; [discriminate|].
  repeat split; try (apply Qc_is_canon; vm_compute; reflexivity).
Qed.
