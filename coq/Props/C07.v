(** C07 — Every execution request is answered exactly once (response or timeout).  PARTIAL:
    these theorems are about the manager's bookkeeping ([run_manager]: intake into the two
    in-flight sets, completion through the four process_* handlers, timeout vs response),
    assuming every in-flight future is driven to completion at its completion time.  That the
    tokio runtime actually does so (select! fairness, FuturesUnordered wake-ups, the timer wheel)
    is not modelled and is only exercised by the virtual-time runs of the correspondence check.

    Setting: [script] = the requests in the order they were sent (time-sorted), each with the
    scripted client behaviour; [stop] = when Shutdown is sent (None: after everything resolved).
    Property theorems only; each is closed by [exact <lemma>] and followed by
    [Print Assumptions]. *)
From BV Require Import Base.Common Model.ExecMgr Proofs.ExecMgr.
From Coq Require Import Permutation.
Local Open Scope N_scope.

(** Main refinement, for ANY script, shutdown time and mix of accepted / non-configured
    requests: the events the manager sends are — as a multiset — exactly one [spec_event] for
    every request it took in while running and that resolves before it stops, and nothing
    else.  ([spec_event] is the statement's per-request prescription: the client's response
    at arrival+delay if delay < timeout, otherwise one timeout failure at arrival+timeout.) *)
Theorem C07_events_are_spec : forall m stop script, sorted_by_arrival script = true ->
  Permutation (s_out (run_manager m stop script)) (spec_events m stop script) /\
  s_end (run_manager m stop script) = end_of m stop script.
Proof. exact run_refines_spec. Qed.
Print Assumptions C07_events_are_spec.

(** exactly_one: with every request accepted, a client that echoes resolvable keys, and the
    manager left running, the client order ids of the events sent are exactly the client order
    ids of the requests — as multisets: one event per request, never two, never none, none for
    anything else; whatever the number of requests outstanding. *)
Theorem C07_exactly_one : forall m script,
  sorted_by_arrival script = true -> forallb (accepted m) script = true ->
  forallb well_behaved script = true ->
  Permutation (map e_cid (s_out (run_manager m None script))) (map r_cid script).
Proof. exact exactly_one_cids. Qed.
Print Assumptions C07_exactly_one.

(** which_one: every event sent is the prescribed event of some request taken in ... *)
Theorem C07_every_event_has_a_request : forall m stop script e,
  sorted_by_arrival script = true -> In e (s_out (run_manager m stop script)) ->
  exists r, In r (taken m stop script) /\ In e (spec_event m r).
Proof. exact every_event_is_some_requests. Qed.
Print Assumptions C07_every_event_has_a_request.

(** ... and the prescribed event is the client's own response (at arrival + delay) exactly when
    it comes strictly before the timeout, otherwise the Timeout failure at arrival + timeout —
    never both (it is a single event). *)
Theorem C07_which_one : forall m r, well_behaved r = true ->
  exists e, spec_event m r = [e] /\
    match r_beh r with
    | Respond d rs =>
        (d < m_tau m -> e_out e = response_outcome (r_kind r) rs /\ e_time e = r_arrival r + d) /\
        (m_tau m <= d -> e_out e = timeout_outcome (r_kind r) /\ e_time e = r_arrival r + m_tau m)
    | _ => e_out e = timeout_outcome (r_kind r) /\ e_time e = r_arrival r + m_tau m
    end.
Proof. exact spec_event_which. Qed.
Print Assumptions C07_which_one.

(** attribution: the event names the manager's exchange, the request's instrument and client
    order id, and is an order snapshot for an open / a cancel response for a cancel. *)
Theorem C07_attribution : forall m r e, In e (spec_event m r) ->
  e_exchange e = m_exchange m /\ e_instr e = r_instr r /\ e_cid e = r_cid r /\ ev_kind (e_out e) = r_kind r.
Proof. exact spec_event_attribution. Qed.
Print Assumptions C07_attribution.

(** independence from what else is outstanding: the events carrying client order id [c] are
    determined by the requests carrying [c] alone. *)
Theorem C07_independent_of_others : forall m script c,
  sorted_by_arrival script = true -> forallb (accepted m) script = true ->
  Permutation (filter (fun e => N.eqb (e_cid e) c) (s_out (run_manager m None script)))
              (flat_map (spec_event m) (filter (fun r => N.eqb (r_cid r) c) script)).
Proof. exact independent_of_others. Qed.
Print Assumptions C07_independent_of_others.

(** independence from order: two scripts with the same requests (sent in any two time-sorted
    orders, hence with responses arriving in any order) yield the same multiset of events. *)
Theorem C07_order_independent : forall m s1 s2,
  Permutation s1 s2 -> sorted_by_arrival s1 = true -> sorted_by_arrival s2 = true ->
  forallb (accepted m) s1 = true ->
  Permutation (s_out (run_manager m None s1)) (s_out (run_manager m None s2)).
Proof. exact order_independent. Qed.
Print Assumptions C07_order_independent.

(** independence from the account stream: ExecutionManager::init merges the response channel
    with the reconnecting account stream; whatever the schedule of account-stream disconnects,
    failed re-initialisations and backoff policy, the answers carried by the merged stream are
    the same, namely one [spec_event] per request taken in.  (In the model the two sides share
    no state — that the runtime merge keeps delivering both is exercised by the 'Acct' runs.) *)
Theorem C07_answers_independent_of_account_stream : forall m stop script pol1 sched1 pol2 sched2,
  sorted_by_arrival script = true ->
  orders_of (merged m stop script pol1 sched1) = orders_of (merged m stop script pol2 sched2) /\
  Permutation (orders_of (merged m stop script pol1 sched1)) (spec_events m stop script).
Proof. exact answers_independent_of_account_stream. Qed.
Print Assumptions C07_answers_independent_of_account_stream.

(** Non-vacuity: manager of exchange 1 with instruments 2 and 3, timeout 10 ms; an open answered
    in time, a cancel answered too late, an open never answered, an open answered with an
    error at the last in-time millisecond, all outstanding together. *)
Definition c07_mgr : mgr := mkMgr 1 [2; 3] 10.
Definition c07_example : list req :=
  [ mkReq KOpen 1 2 70 0 (Respond 3 (ROk false));
    mkReq KCancel 1 3 71 0 (Respond 25 (ROk true));
    mkReq KOpen 1 3 72 4 Never;
    mkReq KOpen 1 2 73 5 (Respond 9 (RErr ERejected)) ].
Example C07_nonvacuous :
  sorted_by_arrival c07_example = true /\ forallb (accepted c07_mgr) c07_example = true /\
  forallb well_behaved c07_example = true /\
  s_out (run_manager c07_mgr None c07_example) =
    [ mkEv 1 2 70 OutActive 3; mkEv 1 3 71 (OutCancelFailed ETimeout) 10;
      mkEv 1 3 72 (OutOpenFailed ETimeout) 14; mkEv 1 2 73 (OutOpenFailed ERejected) 14 ].
Proof. repeat split; vm_compute; reflexivity. Qed.
