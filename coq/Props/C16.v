(** C16 — Tear-sheet PnL, win rate and profit factor match the closed positions; the trading
    summary reports for every instrument / asset the sheet of exactly that key's history.
    Property theorems only; each is closed by [exact <lemma>] and followed by
    [Print Assumptions].  The model follows the repaired [TearSheetGenerator::generate]
    (fix commit ff8cc49: wins = total.count - losses.count, gross profit = total.sum - losses.sum). *)
From BV Require Import Model.Stats Proofs.Stats Model.TearSheet Proofs.TearSheet.
From BV Require Import Corr.C16 Proofs.CorrC16.
Open Scope Qc_scope.

(** For ANY finite sequence of closed positions fed to a fresh generator, the sheet's PnL is the
    sum of their realised PnL. *)
Theorem C16_pnl_is_sum : forall ps t,
  sh_pnl (tsg_generate (tsg_run ps (tsg_init t))) = sumQc (map p_pnl ps).
Proof. exact sheet_pnl. Qed.
Print Assumptions C16_pnl_is_sum.

(** The win rate is the fraction of closed positions whose return is not negative; it is
    absent exactly when there are no positions. *)
Theorem C16_win_rate : forall ps t,
  sh_win_rate (tsg_generate (tsg_run ps (tsg_init t))) =
  match ps with
  | [] => None
  | _ => Some (nQc (List.length (filter (fun r => negb (Qcltb r 0)) (map pnl_return ps)))
               / nQc (List.length ps))
  end.
Proof. exact sheet_win_rate. Qed.
Print Assumptions C16_win_rate.

(** The profit factor is the gross winning returns divided by the absolute gross losing
    returns; None when both are zero (no positions, or only break-even ones), Decimal::MAX when
    there are no losses, Decimal::MIN when there are losses but nothing was won. *)
Theorem C16_profit_factor : forall ps t,
  sh_profit_factor (tsg_generate (tsg_run ps (tsg_init t))) =
  let wins := sumQc (filter (fun r => negb (Qcltb r 0)) (map pnl_return ps)) in
  let losses := sumQc (filter (fun r => Qcltb r 0) (map pnl_return ps)) in
  if Qceqb wins 0 && Qceqb losses 0 then None
  else if Qceqb losses 0 then Some PFMax
  else if Qceqb wins 0 then Some PFMin
  else Some (PFVal (wins / - losses)).
Proof. exact sheet_profit_factor. Qed.
Print Assumptions C16_profit_factor.

(** [ProfitFactor::calculate] is insensitive to the sign in which gross profits / losses are
    handed to it (the generator passes the signed sum of the negative returns), and wins and
    signed losses that cancel exactly give a factor of 1 - never the "no data" answer. *)
Theorem C16_profit_factor_sign : forall p l : Qc,
  profit_factor_calc p (- l) = profit_factor_calc p l /\
  profit_factor_calc (- p) l = profit_factor_calc p l /\
  (p <> 0 -> profit_factor_calc p (- p) = Some (PFVal 1)).
Proof.
  intros p l. destruct (profit_factor_calc_sign p l) as [H1 H2].
  exact (conj H1 (conj H2 (profit_factor_calc_cancel p))).
Qed.
Print Assumptions C16_profit_factor_sign.

(** The two return datasets kept by the generator are the running summaries (hence, by C17,
    the whole-dataset statistics) of all returns and of the negative returns. *)
Theorem C16_return_datasets : forall ps t,
  pr_total (g_pr (tsg_run ps (tsg_init t))) = ds_run (map pnl_return ps) /\
  pr_losses (g_pr (tsg_run ps (tsg_init t))) =
    ds_run (filter (fun r => Qcltb r 0) (map pnl_return ps)).
Proof. exact datasets_of_history. Qed.
Print Assumptions C16_return_datasets.

(** The trading summary: after ANY sequence of generator updates (positions addressed by
    instrument index or by instrument name, balances addressed by asset index or key, clock
    updates) none of which addresses a missing key, the key order is unchanged and the entry at
    every position [j] is the generator it started with updated with exactly the positions
    addressed to that instrument, in order (resp. the last balance addressed to that asset);
    [generate] then reports [tsg_generate] of each. *)
Theorem C16_summary_per_key : forall ops s s',
  NoDup (map fst (sg_insts s)) -> NoDup (map fst (sg_assets s)) ->
  sgen_run ops s = Some s' ->
  sg_start s' = sg_start s /\
  (forall j, nth_error (sg_insts s') j =
     match nth_error (sg_insts s) j with
     | Some (k, g) => Some (k, tsg_run (ops_of j k ops) g) | None => None end) /\
  (forall j, nth_error (sg_assets s') j =
     match nth_error (sg_assets s) j with
     | Some (k, a) => Some (k, bal_of j k ops a) | None => None end) /\
  su_insts (sgen_generate s') = map (fun kg => (fst kg, tsg_generate (snd kg))) (sg_insts s') /\
  su_assets (sgen_generate s') = sg_assets s'.
Proof.
  intros ops s s' NDi NDa H. destruct (summary_histories ops s s' NDi NDa H) as (A & B & C).
  repeat split; assumption.
Qed.
Print Assumptions C16_summary_per_key.

(** Frame: a position addressed to instrument [i] changes no other instrument's generator and
    no asset. *)
Theorem C16_summary_frame : forall s i p s',
  sgen_step s (SPosIdx i p) = Some s' ->
  sg_assets s' = sg_assets s /\
  forall j, j <> i -> nth_error (sg_insts s') j = nth_error (sg_insts s) j.
Proof. exact summary_frame. Qed.
Print Assumptions C16_summary_frame.

(** [TradingSummaryGenerator::init]: with pairwise distinct instrument names, the summary lists
    the engine's instrument tear sheets unchanged and in index order. *)
Theorem C16_init_keeps_index_order : forall start now insts assets,
  NoDup (map fst insts) -> NoDup (map fst assets) ->
  sg_insts (sgen_init start now insts assets) = insts /\
  sg_assets (sgen_init start now insts assets) = assets.
Proof.
  intros start now insts assets H1 H2. unfold sgen_init. cbn [sg_insts sg_assets].
  split; apply imap_collect_nodup; assumption.
Qed.
Print Assumptions C16_init_keeps_index_order.

(** The correspondence oracle is no stricter than the model: the sheet the model generates for
    ANY history passes the oracle [sheet_ok] of Corr/C16.v at every tolerance scale, so wherever
    the implementation agrees with the model its observed sheets satisfy the oracle. *)
Theorem C16_oracle_accepts_model : forall (scp : Q) (ps : list pos) (t : Z),
  sheet_ok scp ps (obs_of_sheet (tsg_generate (tsg_run ps (tsg_init t)))) = true.
Proof. exact sheet_oracle_accepts_model. Qed.
Print Assumptions C16_oracle_accepts_model.

(** The general link between the two halves of the correspondence check: for EVERY case inside the
    input requirements [wf_case] (non-zero cost of every position, pairwise distinct keys, every
    update addressed to an existing key) and every tuple of observed outputs, if the observation
    agrees with the model ([corr_b]) then it satisfies the property oracle [prop_b], at the same
    tolerance.  All five case constructors are covered (sheet histories, trading summaries in both
    modes, WinRate, ProfitFactor, calculate_pnl_return). *)
Theorem C16_oracle_sound : forall c : case, wf_case c = true -> corr_b c = true -> prop_b c = true.
Proof. exact oracle_sound. Qed.
Print Assumptions C16_oracle_sound.

(** Persist/restore steps anywhere in a history of a tear-sheet generator or of the trading
    summary generator do not change any later state of the model. *)
Theorem C16_persist_invariant : forall ops g ops' s,
  fold_left tsg_step ops g = tsg_run (some_of ops) g /\
  sgen_run_p ops' s = sgen_run (some_of ops') s.
Proof. intros. split; [apply tsg_persist_invariant|apply sgen_persist_invariant]. Qed.
Print Assumptions C16_persist_invariant.

(** Non-vacuity: three wins (one of them break-even), one loss, on two instruments. *)
Definition q (n : Z) (d : positive) : Qc := Q2Qc (n # d).
Definition c16_example : list pos :=
  [ mkPos (q 200 1) (q 100 1) (q 10 1) 1; mkPos (q 0 1) (q 50 1) (q 2 1) 2;
    mkPos (q (-50) 1) (q 100 1) (q 5 1) 3; mkPos (q 30 1) (q 10 1) (q 10 1) 4 ]%Z.
Definition pf_this (v : option pf_value) : option (option Q) :=
  match v with None => None | Some PFMax => Some None | Some PFMin => Some None
             | Some (PFVal x) => Some (Some (this x)) end.
Example C16_nonvacuous :
  forallb pos_ok c16_example = true /\
  (let sh := tsg_generate (tsg_run c16_example (tsg_init 0)) in
   this (sh_pnl sh) = (180 # 1)%Q /\ option_map this (sh_win_rate sh) = Some (3 # 4)%Q /\
   pf_this (sh_profit_factor sh) = Some (Some (5 # 1)%Q)) /\
  (let s0 := sgen_init 0 0 [("a"%string, tsg_init 0); ("b"%string, tsg_init 0)] [("x"%string, None)] in
   option_map (fun s => map (fun kg => this (sh_pnl (snd kg))) (su_insts (sgen_generate s)))
     (sgen_run [SPosIdx 0 (mkPos (q 200 1) (q 100 1) (q 10 1) 1);
                SPosName "b" (mkPos (q (-50) 1) (q 100 1) (q 5 1) 3);
                SBalIdx 0 (q 7 1) (q 7 1) 5;
                SPosIdx 0 (mkPos (q 30 1) (q 10 1) (q 10 1) 4)] s0)
   = Some [(230 # 1)%Q; (-50 # 1)%Q]).
Proof. split; [reflexivity|]. split; [repeat split; vm_compute; reflexivity|vm_compute; reflexivity]. Qed.
