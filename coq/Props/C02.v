(** C02 — Position size and realised PnL conserve the cash flows of the fills.
    Property theorems only; each is closed by [exact <lemma>] and followed by
    [Print Assumptions].

    [prun fs] runs PositionManager::update_from_trade over the fills [fs] starting with no
    position and returns (current position, PositionExited records in emission order).
    [valid_fill i f]: the fill is for instrument [i] and has quantity > 0 (price > 0 and
    fee >= 0 of the property text are not needed by any of the statements, so they hold a
    fortiori under them). Arithmetic is exact (Qc); "up to decimal rounding" is the
    correspondence tolerance. *)
From Coq Require Import Qcanon Qcabs.
From BV Require Import Model.Position Proofs.Position.
Open Scope Qc_scope.

(** (i) The open position's side and size are the sign and magnitude of the net signed filled
    quantity; there is no open position exactly when the net is zero. *)
Theorem C02_net_quantity : forall i fs, Forall (valid_fill i) fs ->
  match fst (prun fs) with
  | None => net fs = 0
  | Some p => 0 < p_qty p /\ p_qty p = Qcabs (net fs) /\
              (p_side p = Buy <-> 0 < net fs) /\ (p_side p = Sell <-> net fs < 0)
  end.
Proof. exact net_qty. Qed.
Print Assumptions C02_net_quantity.

(** (ii) A position-closed record is emitted by fill [f] exactly when the running net quantity
    reaches or crosses zero at [f]; a strictly crossing fill opens the opposite position from
    the theoretical trade "remainder quantity at the same price with the pro-rata fee
    fee * remainder / quantity"; with no open position the fill itself opens one. *)
Theorem C02_exit_iff_cross : forall i fs f, Forall (valid_fill i) fs -> valid_fill i f ->
  (crosses (net fs) (sq_fill f) ->
     exists x, snd (prun (fs ++ [f])) = (snd (prun fs) ++ [x])%list) /\
  (~ crosses (net fs) (sq_fill f) -> snd (prun (fs ++ [f])) = snd (prun fs)) /\
  (crosses_strictly (net fs) (sq_fill f) ->
     fst (prun (fs ++ [f])) =
     Some (pos_of_fill (remainder_fill f (Qcabs (net fs + sq_fill f))))) /\
  (net fs = 0 -> fst (prun (fs ++ [f])) = Some (pos_of_fill f)).
Proof. exact exit_iff_cross. Qed.
Print Assumptions C02_exit_iff_cross.

(** (iii) Realised PnL over all closed-position records plus the open position's realised PnL
    = sell proceeds - buy cost - all fees + open signed quantity * average entry price. *)
Theorem C02_cash_conservation : forall i fs, Forall (valid_fill i) fs ->
  sum_x_pnl (snd (prun fs)) + pnlr_pm (fst (prun fs)) =
  proceeds fs - cost fs - total_fees fs + sq_pm (fst (prun fs)) * avg_pm (fst (prun fs)).
Proof. exact cash_conservation. Qed.
Print Assumptions C02_cash_conservation.

(** (iv) Entry plus exit fees over all positions equal the fees of the fills. *)
Theorem C02_fee_conservation : forall i fs, Forall (valid_fill i) fs ->
  sum_x_fees (snd (prun fs)) + fees_pm (fst (prun fs)) = total_fees fs.
Proof. exact fee_conservation. Qed.
Print Assumptions C02_fee_conservation.

(** (v) The trade lists of all closed records followed by the open position's trade list are
    exactly the fill ids in order, a flipping fill being listed twice (once in the position it
    closes, once in the one it opens) ... *)
Theorem C02_trade_ids : forall i fs, Forall (valid_fill i) fs ->
  (flat_map x_trades (snd (prun fs)) ++ trades_pm (fst (prun fs)))%list = expected_ids 0 fs.
Proof. exact trade_ids. Qed.
Print Assumptions C02_trade_ids.

(** ... so every fill id is recorded ... *)
Theorem C02_every_fill_recorded : forall i fs f, Forall (valid_fill i) fs -> In f fs ->
  In (f_id f) (flat_map x_trades (snd (prun fs)) ++ trades_pm (fst (prun fs)))%list.
Proof. exact every_fill_recorded. Qed.
Print Assumptions C02_every_fill_recorded.

(** ... and it is recorded against the position(s) it affected: appended to the trade list of
    the position that was open (which is either still open or is the emitted closed record),
    and first in the list of a position it opens. *)
Theorem C02_trade_ids_step : forall i fs f, Forall (valid_fill i) fs -> valid_fill i f ->
  let s := prun fs in let s' := prun (fs ++ [f]) in
  match fst s with
  | None => snd s' = snd s /\ trades_pm (fst s') = [f_id f]%list
  | Some p =>
      (exists x, snd s' = (snd s ++ [x])%list /\ x_trades x = (p_trades p ++ [f_id f])%list /\
                 (fst s' = None \/ trades_pm (fst s') = [f_id f]%list)) \/
      (snd s' = snd s /\ trades_pm (fst s') = (p_trades p ++ [f_id f])%list)
  end.
Proof. exact trade_ids_step. Qed.
Print Assumptions C02_trade_ids_step.

(** Non-vacuity: 7 fills — open, reduce, increase after the reduction, flip, flip again,
    increase, exact close — satisfy the hypotheses; three closed records are emitted, the
    position ends flat, and both sides of the conservation law evaluate to the same non-zero
    amount. *)
Definition c02_example : list fill :=
  [ mkFill 1 0 1 Buy  (qcz 100) (qcz 2) (qcz 1);
    mkFill 2 0 2 Sell (qcz 110) (qcz 1) (qcz 1);
    mkFill 3 0 3 Buy  (qcz 120) (qcz 1) (qcz 1);
    mkFill 4 0 4 Sell (qcz 130) (qcz 5) (qcz 5);
    mkFill 5 0 5 Buy  (qcz 90)  (qcz 4) (qcz 2);
    mkFill 6 0 6 Buy  (qcz 95)  (qcz 1) (qcz 0);
    mkFill 7 0 7 Sell (qcz 100) (qcz 2) (qcz 1) ].
Example C02_nonvacuous :
  Forall (valid_fill 0) c02_example /\
  fst (prun c02_example) = None /\
  map x_trades (snd (prun c02_example)) = [[1; 2; 3; 4]; [4; 5]; [5; 6; 7]]%N /\
  map (fun x => this (x_pnl_r x)) (snd (prun c02_example)) = [(45 # 1)%Q; (231 # 2)%Q; (27 # 2)%Q] /\
  this (proceeds c02_example - cost c02_example - total_fees c02_example) = (174 # 1)%Q.
Proof.
  split.
  - repeat constructor.
  - vm_compute. repeat split; reflexivity.
Qed.

(** Link between the theorems above and the correspondence check: on every well-formed case
    (fills of one instrument with price > 0, quantity > 0, fee >= 0), if the implementation's
    observed positions and closed records agree with the model ([corr_b], within the stated
    Decimal tolerances) then the property oracle [prop_b] accepts them - the oracle is no stricter
    than the model. A sum of k observed amounts is compared with tolerance (k+1) x t. *)
From BV Require Proofs.CorrC02 Corr.C02.
Theorem C02_oracle_sound : forall c,
  Corr.C02.wf_case c = true -> Corr.C02.corr_b c = true -> Corr.C02.prop_b c = true.
Proof. exact Proofs.CorrC02.oracle_sound. Qed.
Print Assumptions C02_oracle_sound.

(** Persisting and restoring the state (a serde round trip of PositionManager / InstrumentState)
    between any two fills changes nothing: a history with restore steps runs exactly like the
    fills alone, so every theorem above holds across restores. (That the implementation's round
    trip IS the identity is checked by the correspondence harness on every restore step.) *)
Theorem C02_restore_invariant : forall ops, prun_r ops = prun (fills_of_ops ops).
Proof. exact prun_restore_invariant. Qed.
Print Assumptions C02_restore_invariant.

(** A rejected input leaves the state exactly as it was: a fill whose instrument key differs from
    the open position's takes the "different instrument" arm of Position::update_from_trade - no
    closed record, the position (quantity, PnL, fees, trade ids) and the records emitted so far
    untouched - and the rest of the history runs as if that fill had never been delivered. *)
Theorem C02_rejected_fill_noop : forall p xs f, f_inst f <> p_inst p ->
  pm_update (Some p) f = (Some p, None) /\ pstep (Some p, xs) f = (Some p, xs).
Proof. exact rejected_fill_noop. Qed.
Print Assumptions C02_rejected_fill_noop.

Theorem C02_rejected_fill_noop_history : forall i fs g rest,
  Forall (valid_fill i) fs -> fst (prun fs) <> None -> f_inst g <> i ->
  prun (fs ++ g :: rest) = prun (fs ++ rest).
Proof. exact rejected_fill_noop_history. Qed.
Print Assumptions C02_rejected_fill_noop_history.
