(** C11 — Instrument / asset / exchange indices are dense, unique and consistently resolved.
    Property theorems only; each is closed by [exact <lemma>] and followed by
    [Print Assumptions].  [build] is IndexedInstruments::new (None = panic); names are abstract
    ordered keys (see Model/Index.v). *)
From BV Require Import Base.Common Model.Index Proofs.Index.
From BV Require Import Model.ExecMap Proofs.ExecMap.
From BV Require Import Corr.C11 Proofs.CorrC11.
From Coq Require Import Permutation.

(** Building never panics: every exchange / asset lookup made while re-keying succeeds, for ANY
    list of definitions (any order, duplicates, shared names, settlement and unit assets). *)
Theorem C11_build_total : forall l, exists x, build l = Some x.
Proof. exact build_total. Qed.
Print Assumptions C11_build_total.

(** Index = position in all three tables; every distinct exchange and every distinct
    exchange-asset referenced by a definition (base, quote, settlement, quantity unit) receives
    exactly one entry and nothing else does; the instruments are, position by position, the
    definitions [sources l] = the distinct definitions in key order (one per distinct key, each
    taken from [l]), with their names and payload unchanged. *)
Theorem C11_dense_unique : forall l x, build l = Some x ->
  (dense (x_exchanges x) /\ NoDup (map snd (x_exchanges x)) /\
     (forall e, In e (map snd (x_exchanges x)) <-> In e (collect_exchanges l))) /\
  (dense (x_assets x) /\ NoDup (map snd (x_assets x)) /\
     (forall a, In a (map snd (x_assets x)) <-> In a (collect_assets l))) /\
  (dense (x_instruments x) /\ length (x_instruments x) = length (sources l) /\
     NoDup (map d_rank (sources l)) /\
     (forall r, In r (map d_rank (sources l)) <-> In r (map d_rank l)) /\
     (forall d, In d (sources l) -> In d l) /\
     (forall i d, nth_error (sources l) i = Some d ->
        exists r, nth_error (x_instruments x) i = Some (N.of_nat i, r) /\
                  snd (i_ex r) = i_ex (d_ins d) /\ i_ni r = i_ni (d_ins d) /\
                  i_ne r = i_ne (d_ins d) /\ i_tail r = i_tail (d_ins d))).
Proof. exact dense_unique. Qed.
Print Assumptions C11_dense_unique.

(** with a faithful key, the indexed definitions are exactly the given ones *)
Theorem C11_every_definition_indexed : forall l, faithful l -> forall d, In d (sources l) <-> In d l.
Proof. exact sources_faithful. Qed.
Print Assumptions C11_every_definition_indexed.

(** Lookups by name and by index are mutual inverses. *)
Theorem C11_find_inverse_exchange : forall l x k e, build l = Some x ->
  (find_exchange (x_exchanges x) k = Some e <-> find_exchange_index (x_exchanges x) e = Some k).
Proof. exact find_inverse_exchange. Qed.
Print Assumptions C11_find_inverse_exchange.

Theorem C11_find_inverse_asset : forall l x k e ni, build l = Some x -> assets_wf l ->
  (find_asset_index (x_assets x) e ni = Some k <->
   exists ne, find_asset (x_assets x) k = Some (e, (ni, ne))).
Proof. exact find_inverse_asset. Qed.
Print Assumptions C11_find_inverse_asset.

Theorem C11_find_inverse_instrument : forall l x k e ni, build l = Some x -> inames_ex_wf l ->
  (find_instrument_index (x_instruments x) e ni = Some k <->
   exists r, find_instrument (x_instruments x) k = Some r /\ snd (i_ex r) = e /\ i_ni r = ni).
Proof. exact find_inverse_instrument. Qed.
Print Assumptions C11_find_inverse_instrument.

(** Every instrument's exchange and asset keys resolve, through the tables, to exactly the
    entries it was defined with: dereferencing instrument [i] gives back definition [i]. *)
Theorem C11_refs_resolve : forall l x i d, build l = Some x -> assets_wf l ->
  nth_error (sources l) i = Some d ->
  exists r, nth_error (x_instruments x) i = Some (N.of_nat i, r) /\ resolve x r = Some (d_ins d).
Proof. exact refs_resolve. Qed.
Print Assumptions C11_refs_resolve.

Theorem C11_refs_resolve_all : forall l x d, build l = Some x -> assets_wf l -> faithful l -> In d l ->
  exists i r, nth_error (x_instruments x) i = Some (N.of_nat i, r) /\ resolve x r = Some (d_ins d).
Proof. exact refs_resolve_all. Qed.
Print Assumptions C11_refs_resolve_all.

(** The result does not depend on insertion order. *)
Theorem C11_order_independent : forall l l', faithful l -> Permutation l l' -> build l = build l'.
Proof. exact order_independent. Qed.
Print Assumptions C11_order_independent.

(** Engine instrument / asset / connectivity states and the execution transmitter map hold, at
    position i, the entry of the entity with index i (the tables are the index tables mapped
    entry by entry; with [dense], position = index). *)
Theorem C11_tables_aligned : forall l x added, build l = Some x -> assets_wf l -> inames_wf l ->
  instrument_states x =
    map (fun kv : N * instr (N * N) N =>
           (i_ni (snd kv), (fst kv, map_exchange_key (fst (i_ex (snd kv))) (snd kv))))
        (x_instruments x) /\
  asset_states x =
    map (fun kv : N * akey => ((fst (snd kv), fst (snd (snd kv))), snd (snd kv))) (x_assets x) /\
  connectivity_states x = map (fun kv : N * N => (snd kv, tt)) (x_exchanges x) /\
  tx_map x added = map (fun kv : N * N => (snd kv, existsb (N.eqb (snd kv)) added)) (x_exchanges x).
Proof. exact tables_aligned. Qed.
Print Assumptions C11_tables_aligned.

(** The executable hypothesis checks applied to every correspondence case (and to the example
    below) imply the hypotheses used above. *)
Theorem C11_hypothesis_checks : forall l,
  (faithful_b l = true -> faithful l) /\ (assets_wf_b l = true -> assets_wf l) /\
  (inames_wf_b l = true -> inames_wf l) /\ (inames_wf l -> inames_ex_wf l).
Proof.
  intros l. split; [exact (faithful_b_sound l)|]. split; [exact (assets_wf_b_sound l)|].
  split; [exact (inames_wf_b_sound l)|exact (inames_wf_ex l)].
Qed.
Print Assumptions C11_hypothesis_checks.

(** The execution-link table of EVERY exchange of EVERY built collection
    (generate_execution_instrument_map): a table exists exactly for the indexed exchanges; at a
    global instrument / asset index it holds a name only if that index belongs to the exchange,
    and then exactly that entity's exchange name ([instrument_owner] / [asset_owner] read the
    owner and exchange name of an index from the collection); foreign and out-of-range indices
    resolve to nothing; name -> index and index -> name are mutual inverses; and, when exchange
    names are distinct within the exchange, every own index is present. *)
Theorem C11_execution_map_aligned : forall l x e, build l = Some x ->
  (gen_map x e = None <-> ~ In e (map snd (x_exchanges x))) /\
  forall m, gen_map x e = Some m ->
    (forall k n, find_instrument_name m k = Some n ->
       instrument_owner x k = Some (e, n) /\ find_instrument_ix m n = Some k) /\
    (forall k n, find_instrument_ix m n = Some k ->
       instrument_owner x k = Some (e, n) /\ find_instrument_name m k = Some n) /\
    (forall k, (forall n, instrument_owner x k <> Some (e, n)) -> find_instrument_name m k = None) /\
    (names_distinct x e -> forall k n, instrument_owner x k = Some (e, n) ->
       find_instrument_name m k = Some n /\ find_instrument_ix m n = Some k) /\
    (forall k n, find_asset_name m k = Some n ->
       asset_owner x k = Some (e, n) /\ find_asset_ix m n = Some k) /\
    (forall k n, find_asset_ix m n = Some k ->
       asset_owner x k = Some (e, n) /\ find_asset_name m k = Some n) /\
    (forall k, (forall n, asset_owner x k <> Some (e, n)) -> find_asset_name m k = None) /\
    (names_distinct x e -> forall k n, asset_owner x k = Some (e, n) ->
       find_asset_name m k = Some n /\ find_asset_ix m n = Some k).
Proof. exact exec_map_aligned. Qed.
Print Assumptions C11_execution_map_aligned.

(** Link between the model theorems and the executable oracle of the correspondence check
    (Corr/C11.v): on every well-formed case (faithful definition keys both ways; for the
    insertion-order cases: >= 1 order tried, the listed orders are permutations, the listed
    results pairwise different) on which the model reproduces the observation, the oracle
    accepts the observation.  Hence the oracle is no stricter than the model: an oracle failure
    on a well-formed case always comes with a model / implementation disagreement. *)
Theorem C11_oracle_sound : forall c, wf_case c = true -> corr_b c = true -> prop_b c = true.
Proof. exact oracle_sound. Qed.
Print Assumptions C11_oracle_sound.

(** Non-vacuity: two exchanges sharing asset names (exchange 1 calls btc "XBT"), a duplicate, a
    perpetual with a settlement asset and an asset-denominated quantity unit, given out of
    order; the hypotheses hold and the result is the expected non-trivial collection. *)
Definition c11_example : list def :=
  [ mkDef 2 (mkInstr 1 12 22 (0, 5) (2, 2) KSpot None 0);
    mkDef 0 (mkInstr 0 10 20 (0, 0) (2, 2) KSpot (Some (UAsset (0, 0))) 1);
    mkDef 1 (mkInstr 0 11 21 (1, 1) (2, 2) (KPerpetual (3, 3)) (Some UContract) 2);
    mkDef 2 (mkInstr 1 12 22 (0, 5) (2, 2) KSpot None 0) ]%N.
Example C11_nonvacuous :
  faithful_b c11_example = true /\ assets_wf_b c11_example = true /\ inames_wf_b c11_example = true /\
  build c11_example = Some (mkIndexed
    [(0, 0); (1, 1)]
    [(0, (0, (0, 0))); (1, (0, (1, 1))); (2, (0, (2, 2))); (3, (0, (3, 3)));
     (4, (1, (0, 5))); (5, (1, (2, 2)))]
    [(0, mkInstr (0, 0) 10 20 0 2 KSpot (Some (UAsset 0)) 1);
     (1, mkInstr (0, 0) 11 21 1 2 (KPerpetual 3) (Some UContract) 2);
     (2, mkInstr (1, 1) 12 22 4 5 KSpot None 0)])%N.
Proof. vm_compute. repeat split; reflexivity. Qed.
