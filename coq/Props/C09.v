(** C09 — Late or duplicate exchange messages never roll engine state back.
    Property theorems only; each is closed by [exact <lemma>] and followed by
    [Print Assumptions].  [estep9] (Model/Timed.v) mirrors EngineState::update_from_account /
    update_from_market with AssetState::update_from_balance ([<=] guard),
    DefaultInstrumentMarketData::process ([<] guards) and the order tracking of Model/Orders.v;
    [put_le] / [put_lt] / [is_latest] are the abstract "latest timestamp wins" register. *)
From BV Require Import Model.Timed Proofs.Orders Proofs.Timed Corr.C09 Proofs.CorrC09.
From Coq Require Import Permutation.
Local Open Scope Z_scope.

(** A register guarded by [<=] (balances, open-order details), after ANY finite delivery list —
    any order, any repetition — on top of any initial content: it holds the greatest timestamp
    seen, with a value that was delivered with that timestamp (precisely: the LAST delivered
    among those with the greatest timestamp). *)
Theorem C09_latest_wins_le : forall (V : Type) (ds : list (Z * V)) (r0 : reg V),
  seen r0 ds <> [] ->
  exists t v l1 l2,
    fold_left put_le ds r0 = Some (t, v) /\ seen r0 ds = l1 ++ (t, v) :: l2 /\
    Forall (fun d => fst d <= t) l1 /\ Forall (fun d => fst d < t) l2.
Proof. intros V. exact (@latest_wins_le V). Qed.
Print Assumptions C09_latest_wins_le.

(** The same for a register guarded by [<] (last traded price, top of book): the FIRST delivered
    among those with the greatest timestamp. *)
Theorem C09_latest_wins_lt : forall (V : Type) (ds : list (Z * V)) (r0 : reg V),
  seen r0 ds <> [] ->
  exists t v l1 l2,
    fold_left put_lt ds r0 = Some (t, v) /\ seen r0 ds = l1 ++ (t, v) :: l2 /\
    Forall (fun d => fst d < t) l1 /\ Forall (fun d => fst d <= t) l2.
Proof. intros V. exact (@latest_wins_lt V). Qed.
Print Assumptions C09_latest_wins_lt.

(** Both in the words of the property: greatest delivered timestamp, value delivered with it. *)
Theorem C09_is_latest : forall (V : Type) (ds : list (Z * V)) (r0 : reg V),
  is_latest (seen r0 ds) (fold_left put_le ds r0) /\
  is_latest (seen r0 ds) (fold_left put_lt ds r0).
Proof. intros V ds r0. split; [exact (latest_le ds r0)|exact (latest_lt ds r0)]. Qed.
Print Assumptions C09_is_latest.

(** An older message never overwrites newer state (one delivery, either guard). *)
Theorem C09_never_older : forall (V : Type) (r : reg V) (d : Z * V) (t0 : Z) (v0 : V) (t : Z) (v : V),
  r = Some (t0, v0) ->
  (put_le r d = Some (t, v) -> t0 <= t) /\ (put_lt r d = Some (t, v) -> t0 <= t).
Proof.
  intros V r d t0 v0 t v H. split.
  - exact (put_le_never_older r d t0 v0 t v H).
  - exact (put_lt_never_older r d t0 v0 t v H).
Qed.
Print Assumptions C09_never_older.

(** The outcome does not depend on the delivery order or on duplicates: two delivery lists made
    of the same messages (in particular: permutations, with or without repetitions) end at the
    same timestamp, and in the same state when no two different values share a timestamp. *)
Theorem C09_order_independent : forall (V : Type) (l l' : list (Z * V)) (r r' : reg V),
  is_latest l r -> is_latest l' r' -> (forall d, In d l <-> In d l') ->
  option_map fst r = option_map fst r' /\
  ((forall t v v', In (t, v) l -> In (t, v') l -> v = v') -> r = r').
Proof.
  intros V l l' r r' H H' Hs. split.
  - exact (latest_time_unique l l' r r' H H' Hs).
  - exact (latest_value_unique l l' r r' H H' Hs).
Qed.
Print Assumptions C09_order_independent.

Theorem C09_permutation : forall (A : Type) (l l' : list A),
  Permutation l l' -> forall d, In d l <-> In d l'.
Proof. exact perm_same_elements. Qed.
Print Assumptions C09_permutation.

(** The engine: for ANY event list delivered through update_from_account / update_from_market,
    the balance held for an asset is the [<=] register over the balance messages delivered for
    that asset — a full account snapshot counting item by item ... *)
Theorem C09_balance : forall (xs : list ev) (e : engine) (a : Z),
  e_bal (erun9 xs e) a = fold_left put_le (bal_deliveries a xs) (e_bal e a).
Proof. exact balance_projection. Qed.
Print Assumptions C09_balance.

(** ... the last traded price of an instrument is the [<] register over its public trades ... *)
Theorem C09_last_trade : forall (xs : list ev) (e : engine) (i : Z),
  md_last (e_md (erun9 xs e) i) = fold_left put_lt (trade_deliveries i xs) (md_last (e_md e i)).
Proof. exact trade_projection. Qed.
Print Assumptions C09_last_trade.

(** ... its top of book is the [<] register over its L1 events (which carry the book's own
    update time) ... *)
Theorem C09_top_of_book : forall (xs : list ev) (e : engine) (i : Z),
  l1_wf xs ->
  l1reg (e_md (erun9 xs e) i) = fold_left put_lt (l1_deliveries i xs) (l1reg (e_md e i)).
Proof. exact l1_projection. Qed.
Print Assumptions C09_top_of_book.

(** ... the state of a client order id is the result of exactly the order inputs addressed to it
    on its instrument (snapshot items included, in order) ... *)
Theorem C09_order_inputs : forall (xs : list ev) (e : engine) (i c : Z),
  e_ord (erun9 xs e) i c = run (ord_inputs i c xs) (e_ord e i) c.
Proof. exact order_projection. Qed.
Print Assumptions C09_order_inputs.

(** ... and while those inputs are "open" reports with something left to fill, the open-order
    details held are the [<=] register over what they delivered. *)
Theorem C09_order_details : forall (xs : list ev) (e : engine) (i c : Z),
  Forall (fun o => open_report o <> None) (ord_inputs i c xs) ->
  oreg (e_ord (erun9 xs e) i c) =
  fold_left put_le (open_deliveries (ord_inputs i c xs)) (oreg (e_ord e i c)).
Proof. exact order_details_projection. Qed.
Print Assumptions C09_order_details.

(** For arbitrary order inputs (cancels, fills, in-flight requests interleaved): the held
    open-order details never move back to an older exchange timestamp (C01's history theorem). *)
Theorem C09_orders_never_older : forall (ops1 ops2 : list op) (s0 : orders) (c t : Z),
  ts (run ops1 s0) c = Some t ->
  (forall k, (k <= length ops2)%nat -> ts (run (ops1 ++ firstn k ops2) s0) c <> None) ->
  exists t', ts (run (ops1 ++ ops2) s0) c = Some t' /\ t <= t'.
Proof. exact history_monotone. Qed.
Print Assumptions C09_orders_never_older.

(** Engine-side in-flight recordings (open / cancel requests, also repeated) and cancel
    responses interleaved between the reports never weaken this: while an id stays tracked and
    no new open request for it is recorded, the open data held for it (inside Open or
    CancelInFlight) is never dropped and its exchange timestamp never decreases -- so a failed
    cancel restores the most recent confirmed open state, and a late older report arriving after
    any number of cancel requests is still refused ... *)
Theorem C09_details_persist : forall (s : orders) (o : op) (c t : Z),
  ts s c = Some t -> step s o c <> None ->
  (forall r, o = RecOpen r -> k_cid (o_key r) <> c) ->
  exists t', ts (step s o) c = Some t' /\ t <= t'.
Proof. exact details_persist. Qed.
Print Assumptions C09_details_persist.

(** ... and an "open" report with something left and exchange time T always leaves its id
    tracked with open data at least as recent as T, whatever was recorded in flight before. *)
Theorem C09_open_report_floor : forall (s : orders) (o : op) (T : Z) (m : meta),
  open_report o = Some (T, m) ->
  exists t', ts (step s o) (cid_of o) = Some t' /\ T <= t'.
Proof. exact open_report_floor. Qed.
Print Assumptions C09_open_report_floor.

(** Any run of open reports with a non-zero remaining quantity (something left, or over-filled)
    about a tracked id holding open data at least as recent as T leaves it tracked with data at
    least as recent as T ... *)
Theorem C09_open_reports_floor_run : forall (ops : list op) (s : orders) (c T t0 : Z),
  ts s c = Some t0 -> T <= t0 ->
  Forall (fun o => cid_of o = c /\ open_report o <> None) ops ->
  exists t', ts (run ops s) c = Some t' /\ T <= t'.
Proof. exact open_reports_floor_run. Qed.
Print Assumptions C09_open_reports_floor_run.

(** ... in particular after an OVER-FILLED open report (filled > quantity: the remaining quantity
    is negative, not zero, so the order stays tracked and its timestamp is remembered): no open
    report delivered later, however old, rolls the held details back before it. *)
Theorem C09_overfilled_no_rollback : forall (s : orders) (sn : osnap) (m : meta) (ops : list op),
  o_state sn = SA (Open m) -> rem (o_qty sn) m < 0 ->
  Forall (fun o => cid_of o = k_cid (o_key sn) /\ open_report o <> None) ops ->
  exists t', ts (run ops (step s (Snap sn))) (k_cid (o_key sn)) = Some t' /\ m_time m <= t'.
Proof. exact overfilled_no_rollback. Qed.
Print Assumptions C09_overfilled_no_rollback.

(** The run-time oracle is no stricter than the model: on every correspondence case where the
    model reproduces the observed engine states, they satisfy the oracle after every event. *)
Theorem C09_oracle_sound : forall c : case, corr_b c = true -> prop_b c = true.
Proof. exact Proofs.CorrC09.oracle_no_stricter_than_model. Qed.
Print Assumptions C09_oracle_sound.

(** Persist / restore of the engine state is a no-op of the model: runs are invariant under
    inserting such steps anywhere.  The correspondence check performs real serde_json round
    trips of every component the property covers (asset states, instrument market data,
    orders) in the middle of histories and requires them to be the identity on the
    implementation too (in particular: held exchange timestamps keep their full resolution). *)
Theorem C09_persist_invariant : forall (xs : list xev) (e : engine),
  fold_left xstep9 xs e = erun9 (evs_of xs) e.
Proof. exact Proofs.CorrC09.persist_invariant. Qed.
Print Assumptions C09_persist_invariant.

(** Non-vacuity: seven events in a "bad" order — balances at t=2, t=1 (late), t=2 (tie) and a
    full snapshot carrying t=3 then t=2 for the same asset; trades at t=5, t=4 (late), t=5 (tie);
    L1 at t=7 then t=6 (late); an order reported open at t=9 then t=8 (late) — leave the engine
    holding exactly the latest of each, and the delivery lists are not empty. *)
Definition c09_snap (t f : Z) : osnap :=
  mkO (mkK 0 0 7 1) Buy 100 10 Limit (GTC false) (SA (Open (mkM 5 t f))).
Definition c09_example : list ev :=
  [ ABalance (BM 0 2 (10, 10)); ABalance (BM 0 1 (11, 11)); ABalance (BM 0 2 (12, 12));
    Market 0 5 (MTrade (Some 100)); Market 0 4 (MTrade (Some 101)); Market 0 5 (MTrade (Some 102));
    Market 0 7 (ML1 (L1 7 (Some (99, 1)) (Some (101, 1))));
    Market 0 6 (ML1 (L1 6 (Some (98, 1)) (Some (102, 1))));
    ASnapshot [BM 0 3 (13, 13); BM 0 2 (14, 14)] [IS 0 [c09_snap 9 4; c09_snap 8 2]] ].
Example C09_nonvacuous :
  l1_wf c09_example /\
  length (bal_deliveries 0 c09_example) = 5%nat /\
  Forall (fun o => open_report o <> None) (ord_inputs 0 1 c09_example) /\
  e_bal (erun9 c09_example engine0) 0 = Some (3, (13, 13)) /\
  md_last (e_md (erun9 c09_example engine0) 0) = Some (5, 100) /\
  md_l1 (e_md (erun9 c09_example engine0) 0) = L1 7 (Some (99, 1)) (Some (101, 1)) /\
  oreg (e_ord (erun9 c09_example engine0) 0 1) = Some (9, mkM 5 9 4).
Proof.
  split.
  - intros j t b H. simpl in H.
    repeat (destruct H as [H|H]; [try discriminate; injection H as <- <- <-; reflexivity|]).
    destruct H.
  - split; [reflexivity|]. split.
    + vm_compute. repeat constructor; discriminate.
    + repeat split; vm_compute; reflexivity.
Qed.
