(** C20 — Backtests consume their whole dataset in order and do not affect one another.
    Property theorems only (logic core; label: partial — FIFO-ness of the tokio channel, task
    scheduling and memory isolation between concurrently running backtests are runtime facts that
    a pure model has by construction; they are exercised by the concurrent correspondence runs).

    All theorems quantify over every market/account event type, every engine state type, every
    engine step function (including which ticks are fatal) and every summary function. *)
From Coq Require Import List Arith Bool.
Import ListNotations.
From BV Require Import Model.Backtest Proofs.Backtest.

(** For every dataset, every sequence of account events and EVERY interleaving of the two that
    keeps both orders and has Shutdown right after the last dataset event on the market side:
    either the engine stopped on Shutdown, and then the market events it processed are exactly
    the dataset — in dataset order, each once, all before the one Shutdown, which is the last
    event processed — or it stopped on a fatal tick, and then what it processed is a prefix of
    the dataset (nothing skipped or reordered before the stop). *)
Theorem C20_consumes_all_in_order :
  forall (M A St : Type) (step : St -> ev M A -> St * bool) (ds : list M) (acs : list A)
         (feed : list (ev M A)) (s : St),
  admissible ds acs feed ->
  (outcome (run step s feed) = StopShutdown /\
   exists p', processed (run step s feed) = p' ++ [EShutdown] /\ markets p' = ds /\
              forallb (fun e => negb (is_shutdown e)) p' = true)
  \/
  (outcome (run step s feed) = StopFatal /\
   exists ds2, ds = markets (processed (run step s feed)) ++ ds2).
Proof. intros M A St step ds acs feed s H. exact (consumes_all_in_order M A St step ds acs feed s H). Qed.
Print Assumptions C20_consumes_all_in_order.

(** Unless a tick is fatal nothing is skipped. *)
Theorem C20_nothing_skipped_unless_fatal :
  forall (M A St : Type) (step : St -> ev M A -> St * bool) (ds : list M) (acs : list A)
         (feed : list (ev M A)) (s : St),
  admissible ds acs feed -> outcome (run step s feed) <> StopFatal ->
  outcome (run step s feed) = StopShutdown /\ markets (processed (run step s feed)) = ds /\
  exists p', processed (run step s feed) = p' ++ [EShutdown] /\ markets p' = ds /\
             forallb (fun e => negb (is_shutdown e)) p' = true.
Proof. intros M A St step ds acs feed s H Hn. exact (consumes_unless_fatal M A St step ds acs feed s H Hn). Qed.
Print Assumptions C20_nothing_skipped_unless_fatal.

(** What the engine processed is a prefix of the feed that ends at the first terminal tick: no
    tick strictly inside it is terminal, and (unless the feed ran dry) its last tick is terminal
    — Shutdown exactly when the run reports Shutdown. The final state is the state after exactly
    those ticks. *)
Theorem C20_processed_prefix_to_first_terminal :
  forall (M A St : Type) (step : St -> ev M A -> St * bool) (feed : list (ev M A)) (s : St),
  (exists rest, feed = processed (run step s feed) ++ rest) /\
  (forall p1 e p2, processed (run step s feed) = p1 ++ e :: p2 -> p2 <> [] ->
                   terminal step (state_after step s p1) e = false) /\
  (outcome (run step s feed) <> FeedEnded ->
     exists p1 e, processed (run step s feed) = p1 ++ [e] /\
                  terminal step (state_after step s p1) e = true /\
                  (outcome (run step s feed) = StopShutdown <-> e = EShutdown)) /\
  final (run step s feed) = state_after step s (processed (run step s feed)).
Proof.
  intros M A St step feed s. split; [exact (run_prefix M A St step feed s)|].
  split; [exact (run_inner_nonterminal M A St step feed s)|].
  split; [exact (run_last_terminal M A St step feed s)|exact (run_state M A St step feed s)].
Qed.
Print Assumptions C20_processed_prefix_to_first_terminal.

(** The summary is a function of that engine's own final state: it is [summarise] of the state
    reached by the ticks this engine processed, and anything queued behind the terminal tick
    cannot change it. *)
Theorem C20_summary_from_own_final_state :
  forall (M A St R : Type) (step : St -> ev M A -> St * bool) (summarise : St -> R)
         (s : St) (feed : list (ev M A)),
  backtest step summarise s feed =
    summarise (state_after step s (processed (run step s feed))) /\
  (outcome (run step s feed) <> FeedEnded ->
   forall rest', backtest step summarise s (processed (run step s feed) ++ rest') =
                 backtest step summarise s feed).
Proof.
  intros M A St R step summarise s feed. split.
  - exact (summary_of_own_state M A St R step summarise s feed).
  - intros H rest'. exact (summary_ignores_rest M A St R step summarise s feed rest' H).
Qed.
Print Assumptions C20_summary_from_own_final_state.

(** Several engines stepped under ANY schedule: engine [i] is exactly engine [i] stepped alone
    as often as the schedule names it (what the model has by construction, stated). *)
Theorem C20_schedule_independent :
  forall (M A St : Type) (step : St -> ev M A -> St * bool)
         (sched : list nat) (sys : list (eng M A St)) (i : nat),
  nth_error (run_schedule step sched sys) i =
    option_map (Nat.iter (ticks_of i sched) (tick step)) (nth_error sys i).
Proof. intros M A St step sched sys i. exact (schedule_independent M A St step sched sys i). Qed.
Print Assumptions C20_schedule_independent.

(** Hence a backtest given enough ticks inside any concurrent schedule ends with the state, the
    processed events, the stop reason and the summary it has when run alone. *)
Theorem C20_concurrent_equals_alone :
  forall (M A St R : Type) (step : St -> ev M A -> St * bool) (summarise : St -> R)
         (sched : list nat) (sys : list (eng M A St)) (i : nat) (s : St) (feed : list (ev M A)),
  nth_error sys i = Some (start s feed) -> S (length feed) <= ticks_of i sched ->
  exists e, nth_error (run_schedule step sched sys) i = Some e /\
            e_state e = final (run step s feed) /\
            rev (e_done e) = processed (run step s feed) /\
            e_stop e = Some (outcome (run step s feed)) /\
            summarise (e_state e) = backtest step summarise s feed.
Proof.
  intros M A St R step summarise sched sys i s feed Hi Hn.
  exact (concurrent_equals_alone M A St R step summarise sched sys i s feed Hi Hn).
Qed.
Print Assumptions C20_concurrent_equals_alone.

(** A batch (run_backtests) returns one summary per argument set and, at position i, the summary
    of the i-th backtest computed from the state its own engine reached on its own feed.
    (C20_schedule_independent / C20_concurrent_equals_alone above are positional as well: they
    speak about [nth_error ... i] of the system of engines.) *)
Theorem C20_batch_is_positional :
  forall (M A St R : Type) (step : St -> ev M A -> St * bool) (summarise : St -> R)
         (s0 : St) (feeds : list (list (ev M A))) (i : nat),
  length (run_backtests step summarise s0 feeds) = length feeds /\
  nth_error (run_backtests step summarise s0 feeds) i =
    option_map (fun feed => summarise (state_after step s0 (processed (run step s0 feed))))
               (nth_error feeds i).
Proof.
  intros M A St R step summarise s0 feeds i. split.
  - exact (batch_length M A St R step summarise s0 feeds).
  - rewrite (batch_positional M A St R step summarise s0 feeds i).
    destruct (nth_error feeds i) as [feed|]; [|reflexivity]. cbn [option_map]. f_equal.
    exact (summary_of_own_state M A St R step summarise s0 feed).
Qed.
Print Assumptions C20_batch_is_positional.

(** The executable merge used by the correspondence check only produces admissible feeds. *)
Theorem C20_weave_admissible :
  forall (M A : Type) (ds : list M) (acs : list A) (choices : list bool) (feed : list (ev M A)),
  weave (map EMarket ds ++ [EShutdown]) (map EAccount acs) choices = Some feed ->
  admissible ds acs feed.
Proof. intros M A ds acs choices feed H. exact (weave_interleave M A choices _ _ feed H). Qed.
Print Assumptions C20_weave_admissible.

(** Non-vacuity: a concrete engine (state = list of processed events, the tick of market event 4
    would be fatal), a dataset, account events arriving in between and after Shutdown: the feed
    is admissible and the run consumes exactly the dataset; with event 2 fatal it stops there. *)
Definition c20_step (bad : nat) (s : list (ev nat nat)) (e : ev nat nat) : list (ev nat nat) * bool :=
  (s ++ [e], match e with EMarket m => Nat.eqb m bad | _ => false end).
Definition c20_feed : list (ev nat nat) :=
  [EAccount 0; EMarket 1; EAccount 7; EAccount 8; EMarket 2; EMarket 3; EAccount 9; EShutdown; EAccount 10].
Example C20_nonvacuous :
  admissible [1; 2; 3] [0; 7; 8; 9; 10] c20_feed /\
  run (c20_step 4) [] c20_feed =
    ([EAccount 0; EMarket 1; EAccount 7; EAccount 8; EMarket 2; EMarket 3; EAccount 9],
     [EAccount 0; EMarket 1; EAccount 7; EAccount 8; EMarket 2; EMarket 3; EAccount 9; EShutdown],
     StopShutdown) /\
  markets (processed (run (c20_step 4) [] c20_feed)) = [1; 2; 3] /\
  outcome (run (c20_step 2) [] c20_feed) = StopFatal /\
  markets (processed (run (c20_step 2) [] c20_feed)) = [1; 2] /\
  backtest (c20_step 4) (@length _) [] c20_feed = 7.
Proof.
  split.
  - unfold admissible, c20_feed. cbn [map app].
    apply il_r. apply il_l. apply il_r. apply il_r. apply il_l. apply il_l. apply il_r. apply il_l.
    apply il_r. apply il_nil.
  - repeat split; vm_compute; reflexivity.
Qed.
