(** C01 — Active-order tracking follows the documented order lifecycle.
    Property theorems only; each is closed by [exact <lemma>] and followed by
    [Print Assumptions].  [step] (Model/Orders.v) mirrors Orders::update_from_order_snapshot /
    update_from_cancel_response / record_in_flight_{open,cancel}; [lifecycle] is the documented
    per-order table written independently of it. *)
From BV Require Import Model.Orders Proofs.Orders Corr.C01 Proofs.CorrC01.
Local Open Scope Z_scope.

(** For EVERY tracked map, every input and the client order id it addresses, the id's state
    moves exactly along the documented lifecycle table: tracked when a request is sent or the
    exchange reports it open; untracked as soon as it is reported cancelled / fully filled
    (including an open report with nothing left) / expired / failed or a cancel is confirmed; a
    failed cancel restores the last exchange-confirmed open state. *)
Theorem C01_lifecycle : forall (s : orders) (o : op),
  lifecycle (pst (s (cid_of o))) (abs_op o) (pst (step s o (cid_of o))).
Proof. exact step_refines_lifecycle. Qed.
Print Assumptions C01_lifecycle.

(** Inputs about one order never change another: every other id keeps its whole tracked order. *)
Theorem C01_frame : forall (s : orders) (o : op) (c : Z),
  cid_of o <> c -> step s o c = s c.
Proof. exact step_frame. Qed.
Print Assumptions C01_frame.

(** ... and the addressed id's new state depends on nothing but its own old state. *)
Theorem C01_local : forall (s1 s2 : orders) (o : op),
  s1 (cid_of o) = s2 (cid_of o) -> step s1 o (cid_of o) = step s2 o (cid_of o).
Proof. exact step_local. Qed.
Print Assumptions C01_local.

(** The lifecycle table itself never lets held exchange data go back in time ... *)
Theorem C01_table_monotone : forall (s : pstate) (o : aop) (s' : pstate) (t t' : Z),
  lifecycle s o s' -> pts s = Some t -> pts s' = Some t' -> t <= t'.
Proof. exact lifecycle_monotone. Qed.
Print Assumptions C01_table_monotone.

(** ... hence neither does one step of the tracker, for any input whatsoever ... *)
Theorem C01_monotone : forall (s : orders) (o : op) (c t t' : Z),
  ts s c = Some t -> ts (step s o) c = Some t' -> t <= t'.
Proof. exact step_ts_monotone. Qed.
Print Assumptions C01_monotone.

(** ... nor any history: between any two points of any history (any order, duplication or
    staleness of the inputs) throughout which the id keeps holding exchange-reported data (one
    tracking episode; a new open request for the same id or an untrack ends it), the held
    exchange timestamp at the later point is >= the one at the earlier point. *)
Theorem C01_history : forall (ops1 ops2 : list op) (s0 : orders) (c t : Z),
  ts (run ops1 s0) c = Some t ->
  (forall k, (k <= length ops2)%nat -> ts (run (ops1 ++ firstn k ops2) s0) c <> None) ->
  exists t', ts (run (ops1 ++ ops2) s0) c = Some t' /\ t <= t'.
Proof. exact history_monotone. Qed.
Print Assumptions C01_history.

(** The table as a function ([allowed], used as the run-time oracle on the implementation's
    observed states) is exactly the table. *)
Theorem C01_oracle_is_table : forall (s : pstate) (o : aop) (s' : pstate),
  lifecycle_b s o s' = true <-> lifecycle s o s'.
Proof. exact lifecycle_b_spec. Qed.
Print Assumptions C01_oracle_is_table.

(** The non-state data of a tracked order (key, side, price, quantity, kind, time in force) is
    fixed when tracking starts (from the request, or from the first exchange report) and is
    never altered by later reports. *)
Theorem C01_static_data : forall (s : orders) (o : op) (c : Z) (x y : order),
  s c = Some x -> step s o c = Some y ->
  (forall r, o = RecOpen r -> k_cid (o_key r) <> c) ->
  static y = static x.
Proof. exact step_static. Qed.
Print Assumptions C01_static_data.

(** Multi-instrument engine: an order input is applied to the Orders of the instrument its key
    names and nowhere else. *)
Theorem C01_routing : forall (e : estate) (o : op),
  estep e (EOrd o) (inst_of o) = step (e (inst_of o)) o /\
  (forall i, inst_of o <> i -> estep e (EOrd o) i = e i) /\
  (forall i c, cid_of o <> c -> estep e (EOrd o) i c = e i c).
Proof.
  intros e o. split; [exact (estep_target e o)|]. split.
  - intros i H. exact (estep_frame_inst e o i H).
  - intros i c H. exact (estep_frame_cid e o i c H).
Qed.
Print Assumptions C01_routing.

(** A full account snapshot acts on every instrument as the list of that instrument's order
    reports (other instruments untouched), and takes every id through the chain of lifecycle
    steps of the reports that concern it. *)
Theorem C01_account_snapshot : forall (l : list isnap) (e : estate) (i c : Z),
  estep e (EAcctSnapshot l) i = fold_left snapshot_step (reports_for i l) (e i) /\
  (~ In i (map is_inst l) -> estep e (EAcctSnapshot l) i = e i) /\
  lifecycle_seq c (pst (e i c)) (reports_for i l) (pst (estep e (EAcctSnapshot l) i c)).
Proof.
  intros l e i c. split; [exact (account_snapshot_per_instrument l e i)|]. split.
  - exact (account_snapshot_frame_inst l e i).
  - rewrite account_snapshot_per_instrument. exact (snapshots_refine (reports_for i l) (e i) c).
Qed.
Print Assumptions C01_account_snapshot.

(** An "open" report whose remaining quantity (the REPORT's quantity minus its filled quantity) is
    not zero never untracks the order.  In particular an OVER-FILLED report (filled > quantity:
    the remaining quantity is negative, not zero -- Open::quantity_remaining does not clamp) keeps
    the order tracked, whatever the tracked state and the timestamps. *)
Theorem C01_open_report_keeps_tracked : forall (s : orders) (sn : osnap) (m : meta),
  o_state sn = SA (Open m) -> rem (o_qty sn) m <> 0 ->
  step s (Snap sn) (k_cid (o_key sn)) <> None.
Proof. exact open_report_keeps_tracked. Qed.
Print Assumptions C01_open_report_keeps_tracked.

Theorem C01_overfilled_stays_tracked : forall (s : orders) (sn : osnap) (m : meta),
  o_state sn = SA (Open m) -> m_filled m > o_qty sn ->
  step s (Snap sn) (k_cid (o_key sn)) <> None.
Proof.
  intros s sn m Hs Hf. apply (open_report_keeps_tracked s sn m Hs). unfold rem. Lia.lia.
Qed.
Print Assumptions C01_overfilled_stays_tracked.

(** The run-time oracle is no stricter than the model: on every correspondence case where the
    model reproduces the observed maps, the observed maps satisfy the oracle (so an oracle failure
    on the implementation is always a genuine departure from the modelled behaviour). *)
Theorem C01_oracle_sound : forall c : case, corr_b c = true -> prop_b c = true.
Proof. exact Proofs.CorrC01.oracle_no_stricter_than_model. Qed.
Print Assumptions C01_oracle_sound.

(** Persist / restore (serialise the tracked orders, deserialise them, continue) is a no-op of the
    model: runs are invariant under inserting such steps anywhere.  The correspondence check
    performs real serde_json round trips of [Orders] in the middle of histories and requires them
    to be the identity on the implementation too. *)
Theorem C01_persist_invariant : forall (xs : list xop) (s : orders),
  fold_left xstep xs s = run (ops_of xs) s.
Proof. exact Proofs.CorrC01.persist_invariant. Qed.
Print Assumptions C01_persist_invariant.

(** Non-vacuity: a 9-step history on two ids — open sent, open (t=2, partly filled), cancel sent,
    stale open (t=1, ignored), newer open (t=3), cancel failed (restores the t=3 open state),
    a second id reported open, then the first id reported open with nothing left (t=4) — ends
    with the first id untracked and the second still tracked; the hypotheses of [C01_history]
    hold on the episode from step 2 to step 7. *)
Definition c01_k (c : Z) : key := mkK 0 0 7 c.
Definition c01_open (c q oid t f : Z) : op :=
  Snap (mkO (c01_k c) Buy 100 q Limit (GTC false) (SA (Open (mkM oid t f)))).
Definition c01_example : list op :=
  [ RecOpen (mkO (c01_k 1) Buy 100 10 Limit (GTC false) tt);
    c01_open 1 10 5 2 4;
    RecCancel (c01_k 1);
    c01_open 1 10 5 1 1;
    c01_open 1 10 5 3 6;
    CancelResp (c01_k 1) false;
    c01_open 2 8 6 3 0;
    c01_open 1 10 5 4 10 ].
Example C01_nonvacuous :
  ts (run (firstn 2 c01_example) empty) 1 = Some 2 /\
  (forall k, (k <= 4)%nat -> ts (run (firstn 2 c01_example ++ firstn k (firstn 4 (skipn 2 c01_example))) empty) 1 <> None) /\
  ts (run (firstn 6 c01_example) empty) 1 = Some 3 /\
  pst (run (firstn 6 c01_example) empty 1) = Some (Open (mkM 5 3 6)) /\
  run c01_example empty 1 = None /\
  pst (run c01_example empty 2) = Some (Open (mkM 6 3 0)).
Proof.
  split; [reflexivity|]. split.
  - intros k Hk.
    destruct k as [|[|[|[|[|k]]]]]; try (exfalso; Lia.lia); vm_compute; discriminate.
  - repeat split; reflexivity.
Qed.
