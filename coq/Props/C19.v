(** C19 — Cancel-orders and close-positions commands act on exactly the filtered scope.
    Property theorems only, over the engine model of Model/Engine.v (shared with C03).

    For ANY well-formed engine state [s] (any number of exchanges, instruments and underlyings; per
    instrument any mix of in-flight, open, partially filled and cancel-in-flight orders; any
    position; price known or not), ANY instrument filter [f] of the four kinds, and ANY condition
    of the execution links.  [state_wf] says: orders are stored under their own client order id
    in their own instrument (no id twice), a position names its instrument; it holds of the empty
    state and is preserved by every engine step whatever the scripts ([C19_wf_invariant]).

    How the requests are then delivered, reported and marked in flight is C03 ([C03_action]
    applies to these two commands verbatim, with [command_requests] = the lists characterised
    here). *)
From Coq Require Import List ZArith NArith Bool.
From BV Require Import Model.Engine Proofs.Engine.
Import ListNotations.
Local Open Scope N_scope.

(** The filtered scope: an instrument is in scope iff it is tracked at that index and
    - None: always;  - Exchanges l: its exchange is in l;  - Instruments l: its own index is in l;
    - Underlyings l: its (base, quote) pair is in l.  Each instrument at most once. *)
Theorem C19_filter_scope : forall f is_ i x,
  (In (i, x) (filtered f is_) <->
   nthN is_ i = Some x /\
   match f with
   | FNone => True
   | FExchanges l => In (i_ex x) l
   | FInstruments l => In i l
   | FUnderlyings l => In (i_base x, i_quote x) l
   end) /\
  NoDup (map fst (filtered f is_)).
Proof.
  intros f is_ i x. split; [|apply NoDup_filtered_fst].
  rewrite filtered_spec, filter_match_spec. tauto.
Qed.
Print Assumptions C19_filter_scope.

(** Cancel-orders scope: the requests the command submits are exactly — each once — the tracked
    orders of the matching instruments that are not already CancelInFlight, addressed by their key
    (exchange, instrument, strategy, client order id) and by their exchange order id when the
    order is Open (id known), by no id when it is still OpenInFlight. *)
Theorem C19_cancel_scope : forall s f,
  state_wf s = true ->
  (forall r, In r (cancel_requests f (insts s)) <->
     exists i x c o, nthN (insts s) i = Some x /\ filter_match f i x = true /\
                     oget (i_orders x) c = Some o /\ not_cif o = true /\ r = cancel_of_order o) /\
  NoDup (cancel_requests f (insts s)).
Proof.
  intros s f H. split; [intros r; apply cancel_requests_spec; exact H|apply NoDup_cancel_requests; exact H].
Qed.
Print Assumptions C19_cancel_scope.

(** ... and the command reports them partitioned by the link table (C03). *)
Theorem C19_cancel_command : forall cs s f,
  let rq := cancel_requests f (insts s) in
  snd (action cs s (CCancelOrders f)) =
  AOCancel (mkSendOut (spec_sent cr_ex (links s) rq) (spec_errs cr_ex (links s) rq)).
Proof. exact cancel_orders_output. Qed.
Print Assumptions C19_cancel_command.

(** Close-positions scope with the default strategy: no cancels; exactly one order per matching
    instrument that holds a position and has a price: on the instrument's exchange, for the
    position's instrument, opposite side, quantity = the position's absolute quantity, market,
    immediate-or-cancel, priced at the instrument's current price, client order id from the user's
    generator. *)
Theorem C19_close_scope : forall strat gen s f,
  fst (default_close strat gen s f) = [] /\
  (forall r, In r (snd (default_close strat gen s f)) <->
     exists i x p pr, nthN (insts s) i = Some x /\ filter_match f i x = true /\
                      i_pos x = Some p /\ i_price x = Some pr /\
                      r = mkOReq (mkKey (i_ex x) (p_inst p) strat (gen i))
                                 (mkROpen (flip_side (p_side p)) pr (p_qty p) Market IOC)) /\
  length (snd (default_close strat gen s f)) =
  length (filter (fun p => closable (snd p)) (filtered f (insts s))).
Proof. exact default_close_spec. Qed.
Print Assumptions C19_close_scope.

Theorem C19_close_command : forall strat gen s f,
  let rq := snd (default_close strat gen s f) in
  snd (action (default_close strat gen) s (CClosePositions f)) =
  AOClose (mkSendOut [] []) (mkSendOut (spec_sent or_ex (links s) rq) (spec_errs or_ex (links s) rq)).
Proof. exact close_positions_output. Qed.
Print Assumptions C19_close_command.

(** Instruments outside the filter keep their whole state (orders, position, price) under either
    command, whatever the links do. *)
Theorem C19_cancel_outside_untouched : forall cs s f j x,
  state_wf s = true -> nthN (insts s) j = Some x -> filter_match f j x = false ->
  nthN (insts (fst (action cs s (CCancelOrders f)))) j = Some x.
Proof. exact cancel_orders_outside. Qed.
Print Assumptions C19_cancel_outside_untouched.

Theorem C19_close_outside_untouched : forall strat gen s f j x,
  state_wf s = true -> nthN (insts s) j = Some x -> filter_match f j x = false ->
  nthN (insts (fst (action (default_close strat gen) s (CClosePositions f)))) j = Some x.
Proof. exact close_positions_outside. Qed.
Print Assumptions C19_close_outside_untouched.

(** Neither command changes any position or price, inside or outside the filter. *)
Theorem C19_positions_untouched : forall cs s c,
  map inst_rest (insts (fst (action cs s c))) = map inst_rest (insts s).
Proof. intros cs s c. pose proof (action_spec cs s c) as H. cbn zeta in H. tauto. Qed.
Print Assumptions C19_positions_untouched.

(** Repeating a cancel command while the first is still in flight requests nothing new: the
    second command's requests are among those the first one FAILED to send (closed / missing
    link), and there are none at all if every link involved was open. *)
Theorem C19_cancel_repeat : forall cs s f r,
  state_wf s = true ->
  In r (cancel_requests f (insts (fst (action cs s (CCancelOrders f))))) ->
  In r (cancel_requests f (insts s)) /\ link_open (links s) (cr_ex r) = false.
Proof. exact cancel_repeat. Qed.
Print Assumptions C19_cancel_repeat.

Theorem C19_cancel_repeat_nothing : forall cs s f,
  state_wf s = true ->
  (forall r, In r (cancel_requests f (insts s)) -> link_open (links s) (cr_ex r) = true) ->
  cancel_requests f (insts (fst (action cs s (CCancelOrders f)))) = [].
Proof. exact cancel_repeat_nothing. Qed.
Print Assumptions C19_cancel_repeat_nothing.

(** Well-formedness is an invariant of the engine: it holds of a state without instruments' orders
    and is preserved by every Engine::process step, for every event, strategy and script. *)
Theorem C19_wf_invariant : forall cs s ev g,
  state_wf s = true -> state_wf (fst (process cs s ev g)) = true.
Proof. exact state_wf_process. Qed.
Print Assumptions C19_wf_invariant.

(** Non-vacuity: two exchanges, three instruments (two underlyings); orders in all four states;
    long, short and no position; price from the L1 book (volume-weighted mid 51 = (48*1 + 52*3)/4,
    preferred over the last trade 99), from the last trade, and unknown (one-sided book). *)
Definition c19_key (e i c : N) : key := mkKey e i 7 c.
Definition c19_order (e i c : N) (st : ostate) : order := mkOrder (c19_key e i c) Buy 100 2 Limit GTD st.
Definition c19_state : state :=
  mkState false [LOpen []; LOpen []]
    [ mkInst 0 0 1 [(1, c19_order 0 0 1 OIF); (2, c19_order 0 0 2 (OOpen (mkMeta 12 5 1)));
                    (3, c19_order 0 0 3 (CIF None)); (4, c19_order 0 0 4 (CIF (Some (mkMeta 14 6 0))))]
             (Some (mkPos 0 Buy 15)) (mkMD (mkL1 2 (Some (48, 3)%Z) (Some (52, 1)%Z)) (Some (3, 99)%Z));
      mkInst 0 2 1 [(1, c19_order 0 1 1 (OOpen (mkMeta 21 5 0)))] (Some (mkPos 1 Sell 4)) (mkMD (mkL1 0 (Some (10, 1)%Z) None) None);
      mkInst 1 3 4 [(5, c19_order 1 2 5 OIF)] (Some (mkPos 2 Sell 7)) (mkMD (mkL1 0 None None) (Some (1, 60)%Z)) ].
Example C19_nonvacuous :
  state_wf c19_state = true /\
  cancel_requests (FExchanges [0]) (insts c19_state) =
    [mkCReq (c19_key 0 0 1) None; mkCReq (c19_key 0 0 2) (Some 12); mkCReq (c19_key 0 1 1) (Some 21)] /\
  cancel_requests (FUnderlyings [(3, 4)]) (insts c19_state) = [mkCReq (c19_key 1 2 5) None] /\
  snd (default_close 9 (fun i => 1000 + i) c19_state FNone) =
    [mkOReq (mkKey 0 0 9 1000) (mkROpen Sell 51 15 Market IOC);
     mkOReq (mkKey 1 2 9 1002) (mkROpen Buy 60 7 Market IOC)] /\
  let s' := fst (action (default_close 9 (fun i => 1000 + i)) c19_state (CCancelOrders (FInstruments [0]))) in
  mbox (links s') 0 = [XCancel (mkCReq (c19_key 0 0 1) None); XCancel (mkCReq (c19_key 0 0 2) (Some 12))] /\
  cancel_requests (FInstruments [0]) (insts s') = [] /\
  nthN (insts s') 1 = nthN (insts c19_state) 1.
Proof. vm_compute. repeat split; reflexivity. Qed.

(** Link between the proof side and the correspondence side (full): for every well-formed case,
    if the model reproduces the observation ([corr_b]; for CancelOrders commands up to the order
    of the requests, which the code takes from a hash map) then the oracle of Corr/C19.v accepts
    it ([prop_b]) — the oracle is no stricter than the model. *)
From BV Require Import Corr.C19 Proofs.OracleC19.
Theorem C19_oracle_sound : forall c, valid_case c = true -> corr_b c = true -> prop_b c = true.
Proof. exact oracle_sound_C19. Qed.
Print Assumptions C19_oracle_sound.
