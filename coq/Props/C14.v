(** C14 — Global connectivity is healthy exactly when every exchange link is.
    Property theorems only; each is closed by [exact <lemma>] and followed by
    [Print Assumptions].

    Setting: [ids] are the ExchangeIds the engine tracks, in ExchangeIndex order (pairwise
    distinct: they are the keys of an IndexMap; at least one).  A history is any finite list over
    {market item, account item, market reconnecting, account reconnecting} x exchanges; market
    items and both notices name the exchange by id, account items by index.  [valid_history]
    only says every event names a tracked exchange (an unknown exchange makes the code panic,
    see Pins/C14.v).  An "item" is ANY MarketStreamEvent::Item / AccountStreamEvent::Item,
    whatever its payload (public trade, L1/L2 book, candle, liquidation; account snapshot,
    balance, order snapshot in any state including OpenFailed(Connectivity(Timeout)), cancel
    response Ok or Err of any error class, trade): EngineState::update_from_account /
    update_from_market update connectivity before they look at the payload, so the model's
    [MarketItem] / [AccountItem] carry no payload and the theorems hold for every item kind.
    The correspondence check feeds every kind (Corr/C14.v, [c_kinds]).  All statements are about [run (init_engine ids) h], the engine after the
    whole history, starting from the all-reconnecting state. *)
From BV Require Import Base.Common Model.Connectivity Proofs.Connectivity.

(** After ANY history, global connectivity is Healthy exactly when every exchange's market-data
    link AND account link are Healthy. *)
Theorem C14_global_iff_all : forall ids h, NoDup ids -> ids <> [] -> valid_history ids h ->
  let s := econn (run (init_engine ids) h) in
  global s = Healthy <->
  forall id, In id ids -> link s id KMarket = Some Healthy /\ link s id KAccount = Some Healthy.
Proof. exact global_iff_all. Qed.
Print Assumptions C14_global_iff_all.

(** Refinement to the specification "a link is what the last event about it said": after ANY
    history the table still lists exactly the exchanges [ids], every link holds
    [spec_link] = Reconnecting initially, Healthy after an item of that link, Reconnecting after
    a notice for that link, whichever came last; the global flag is Healthy iff all of them are;
    the on_disconnect log and the audit outputs are the specified ones. *)
Theorem C14_links_follow_last_event : forall ids h,
  NoDup ids -> ids <> [] -> forallb (valid_event ids) h = true ->
  let e := run (init_engine ids) h in
  keys (econn e) = ids /\
  (forall id k, In id ids -> link (econn e) id k = Some (spec_link ids h id k)) /\
  (global (econn e) = Healthy <->
     forall id, In id ids -> spec_link ids h id KMarket = Healthy /\ spec_link ids h id KAccount = Healthy) /\
  calls e = spec_calls h /\
  outputs (init_engine ids) h = map spec_output h.
Proof. exact run_refines. Qed.
Print Assumptions C14_links_follow_last_event.

(** One more event after ANY history: the link it concerns becomes Reconnecting (notice) or
    Healthy (item); every other link of every exchange is unchanged; a notice makes the global
    flag Reconnecting; a notice invokes on_disconnect exactly once, with that exchange, and the
    audit carries that call's output under the right variant; an item invokes nothing. *)
Theorem C14_event_exact : forall ids h ev i k item,
  NoDup ids -> ids <> [] -> valid_history ids h -> link_of ids ev = Some (i, k, item) ->
  let before := run (init_engine ids) h in
  let after := run (init_engine ids) (h ++ [ev]) in
  link (econn after) i k = Some (if item then Healthy else Reconnecting) /\
  (forall i' k', (i', k') <> (i, k) -> link (econn after) i' k' = link (econn before) i' k') /\
  (item = false -> global (econn after) = Reconnecting) /\
  calls after = calls before ++ (if item then [] else [i]) /\
  snd (process before ev) = (if item then ONone else
                             match k with KMarket => OMarketDisconnect i | KAccount => OAccountDisconnect i end).
Proof. exact event_exact. Qed.
Print Assumptions C14_event_exact.

(** A disconnect notice marks that link Reconnecting; it stays so (and the global flag stays
    Reconnecting) through ANY events of other links; the next event from that link marks it
    Healthy again. *)
Theorem C14_down_until_next_event : forall ids h1 notice h2 item_ev i k,
  NoDup ids -> ids <> [] ->
  valid_history ids h1 -> valid_history ids h2 ->
  link_of ids notice = Some (i, k, false) -> link_of ids item_ev = Some (i, k, true) ->
  forallb (fun ev => negb (concerns ids i k ev)) h2 = true ->
  let down := econn (run (init_engine ids) (h1 ++ [notice] ++ h2)) in
  let up := econn (run (init_engine ids) ((h1 ++ [notice] ++ h2) ++ [item_ev])) in
  link down i k = Some Reconnecting /\ global down = Reconnecting /\ link up i k = Some Healthy.
Proof. exact down_until_next_event. Qed.
Print Assumptions C14_down_until_next_event.

(** on_disconnect is invoked exactly once per disconnect notice, with that notice's exchange,
    in order, and never otherwise; each notice's audit output is that call's. *)
Theorem C14_on_disconnect_once : forall ids h, NoDup ids -> ids <> [] -> valid_history ids h ->
  calls (run (init_engine ids) h) = spec_calls h /\
  outputs (init_engine ids) h = map spec_output h.
Proof. exact on_disconnect_once_per_notice. Qed.
Print Assumptions C14_on_disconnect_once.

(** Runs are invariant under inserting persist / restore steps anywhere in a history: every
    theorem above therefore also holds for histories during which the connectivity table is
    serialised and restored any number of times.  (That the serde round trip really is the
    identity on the implementation is checked by the correspondence runs, [o_rt].) *)
Theorem C14_persist_restore_invariant : forall l e, run_steps e l = run e (events_of l).
Proof. exact run_steps_events. Qed.
Print Assumptions C14_persist_restore_invariant.

(** Non-vacuity: three exchanges (ids 7, 3, 9 in index order), a history in which everything
    heals (global becomes Healthy), one account link drops and heals again. *)
Definition c14_ids : list N := [7; 3; 9]%N.
Definition c14_example : list event :=
  [ MarketItem 7; AccountItem 0; MarketItem 3; AccountItem 1; MarketItem 9; AccountItem 2;
    AccountReconnecting 3; MarketItem 3; MarketReconnecting 9; AccountItem 1 ]%N.
Example C14_nonvacuous :
  NoDup c14_ids /\ c14_ids <> [] /\ valid_history c14_ids c14_example /\
  global (econn (run (init_engine c14_ids) (firstn 6 c14_example))) = Healthy /\
  run (init_engine c14_ids) c14_example =
    mkEngine (mkConn Reconnecting [(7, mkCS Healthy Healthy); (3, mkCS Healthy Healthy);
                                   (9, mkCS Reconnecting Healthy)]%N) [3; 9]%N.
Proof.
  split; [repeat constructor; cbn; intuition discriminate|].
  split; [discriminate|]. split; [reflexivity|]. split; vm_compute; reflexivity.
Qed.
