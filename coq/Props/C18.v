(** C18 — Reported drawdowns are the peak-to-trough declines of the value curve.
    Property theorems only; each is closed by [exact <lemma>] and followed by
    [Print Assumptions]. Model and specification: Model/Drawdown.v. *)
From Coq Require Import List ZArith QArith Qcanon.
From BV Require Import Base.Common Model.Drawdown Proofs.Drawdown Corr.C18 Proofs.CorrC18.
Import ListNotations.
Local Open Scope Qc_scope.

(** For ANY finite timed curve [x :: pts] whose first value is positive (hence every running
    maximum is), fed point by point to a DrawdownGenerator created by [init x] — or, equally, to
    a [default()] generator fed [x] first —
      - the drawdowns returned by [update], in order, are exactly the COMPLETED drawdowns of the
        independent decomposition of the curve: for consecutive peaks p, q (indices whose value
        strictly exceeds every earlier value) the largest (v_p - v_j)/v_p over p < j < q,
        starting at the time of p and ending at the time of q, omitted when zero;
      - [generate()] returns the CURRENT drawdown: the same for the last peak and the end of the
        curve, ending at the time of the last point, None when zero.
    Since this holds for every curve it holds after every prefix, i.e. after each update. *)
Theorem C18_emitted_is_decomposition : forall x pts, 0 < snd x ->
  snd (gen_run (gen_init x) pts) = completed (x :: pts) /\
  gen_generate (fst (gen_run (gen_init x) pts)) = current (x :: pts) /\
  gen_run gen_default (x :: pts) = gen_run (gen_init x) pts.
Proof.
  intros x pts Hx. destruct (generator_is_decomposition x pts Hx) as [H1 H2].
  split; [exact H1|]. split; [exact H2|exact (gen_run_default x pts)].
Qed.
Print Assumptions C18_emitted_is_decomposition.

(** ... and the generator's fields are: the value and time of the last peak, the depth since
    it, the time of the last point. *)
Theorem C18_generator_state : forall x pts, 0 < snd x ->
  let g := fst (gen_run (gen_init x) pts) in
  exists p, last_opt (peaks (x :: pts)) = Some p /\
    g_peak g = Some (val (x :: pts) p) /\ g_tpeak g = Some (tim (x :: pts) p) /\
    g_ddmax g = depth (x :: pts) p (length (x :: pts)) /\
    g_now g = tim (x :: pts) (length pts).
Proof. exact generator_state. Qed.
Print Assumptions C18_generator_state.

(** The decomposition means what the property says: a peak is an index whose value strictly
    exceeds every earlier value; the depth of a segment is non-negative, bounds every relative
    decline inside the segment, and is one of them (or 0). *)
Theorem C18_decomposition_meaning : forall pts,
  (forall i, (i < length pts)%nat ->
     (is_peak_b pts i = true <-> forall j, (j < i)%nat -> val pts j < val pts i)) /\
  (forall p q, 0 <= depth pts p q /\
     (forall j, (p < j < q)%nat -> decline pts p j <= depth pts p q) /\
     (depth pts p q = 0 \/ exists j, (p < j < q)%nat /\ depth pts p q = decline pts p j)).
Proof. intros pts. split; [exact (is_peak_spec pts)|exact (depth_spec pts)]. Qed.
Print Assumptions C18_decomposition_meaning.

(** MaxDrawdownGenerator: after any drawdowns [d0 :: ds] (via [init d0] or [default()] +
    updates) [generate()] is the FIRST of them whose |value| no other exceeds. *)
Theorem C18_max_is_largest :
  max_run None [] = None /\
  (forall d0 ds, max_run None (d0 :: ds) = max_run (Some d0) ds) /\
  (forall d0 ds, exists d, max_run (Some d0) ds = Some d /\ first_max (d0 :: ds) d).
Proof. exact max_is_first_largest. Qed.
Print Assumptions C18_max_is_largest.

(** MeanDrawdownGenerator: after the drawdowns [ds] (non-empty) the count is their number, the
    mean depth times n is exactly their sum, and the integer mean duration [ms] satisfies
    2 |n * ms - sum| <= n (n - 1), i.e. it is within (n-1)/2 ms of the true average (the i64
    recurrence truncates at every step). *)
Theorem C18_mean_is_average :
  mean_run mean_default [] = mkMG 0 None /\
  (forall d0 ds, mean_run (mean_init d0) ds = mean_run mean_default (d0 :: ds)) /\
  (forall ds, ds <> [] ->
     exists m, mean_run mean_default ds = mkMG (len ds) (Some m) /\
       m_depth m * QcofZ (len ds) = sum_depth ds /\
       (2 * Z.abs (len ds * m_ms m - sum_ms ds) <= len ds * (len ds - 1))%Z).
Proof. exact mean_is_average. Qed.
Print Assumptions C18_mean_is_average.

(** Tear sheets (asset balance curve, instrument PnL curve): after any updates along the curve
    [x :: pts], the persistent mean / max generators hold exactly the completed drawdowns, and
    [generate()] reports the current drawdown and the mean / max over the completed drawdowns
    followed by the current one — and leaves the generator unchanged. *)
Theorem C18_tearsheet_report : forall x pts, 0 < snd x ->
  let ts := fold_left ts_update pts (ts_init x) in
  let r := snd (ts_generate ts) in
  ts_mean ts = mean_run mean_default (completed (x :: pts)) /\
  ts_max ts = max_run None (completed (x :: pts)) /\
  r_cur r = current (x :: pts) /\
  r_mean r = mg_mean (mean_run mean_default (reported (x :: pts))) /\
  r_max r = max_run None (reported (x :: pts)) /\
  fst (ts_generate ts) = ts.
Proof. exact tearsheet_report. Qed.
Print Assumptions C18_tearsheet_report.

(** the same report read through the two theorems above *)
Theorem C18_tearsheet_report_meaning : forall x pts, 0 < snd x ->
  let r := snd (ts_generate (fold_left ts_update pts (ts_init x))) in
  let ds := reported (x :: pts) in
  r_cur r = current (x :: pts) /\
  (ds = [] -> r_mean r = None /\ r_max r = None) /\
  (ds <> [] -> exists m d, r_mean r = Some m /\ is_mean_of ds m /\ r_max r = Some d /\ first_max ds d).
Proof. exact tearsheet_report_meaning. Qed.
Print Assumptions C18_tearsheet_report_meaning.

(** [generate()] is idempotent: in any interleaving of updates and generate calls the state is
    that of the updates alone, and k consecutive calls return the same report k times. *)
Theorem C18_generate_idempotent : forall ts ops,
  fst (ts_run ts ops) = fold_left ts_update (updates_of ops) ts /\
  forall k, ts_run ts (ops ++ repeat TGen k) =
            (fst (ts_run ts ops),
             snd (ts_run ts ops) ++ repeat (snd (ts_generate (fst (ts_run ts ops)))) k).
Proof. exact generate_idempotent. Qed.
Print Assumptions C18_generate_idempotent.

(** Persist / restore (the state is serialised and replaced by the deserialised copy; the
    identity on the unchanged code, a no-op of the model): inserting such a step anywhere in a
    history changes neither the states nor the reports. *)
Theorem C18_persist_restore_noop : forall ts ops1 ops2,
  ts_run ts (ops1 ++ TRt :: ops2) = ts_run ts (ops1 ++ ops2).
Proof. exact persist_restore_noop. Qed.
Print Assumptions C18_persist_restore_noop.

(** the asset / instrument generators run that glue on the total-balance curve, resp. on the
    cumulative realised PnL curve (a [default()] tear sheet behaves like [ts_init] from its
    first point on) *)
Theorem C18_wrappers :
  (forall a us, a_ts (asset_run a us) = fold_left ts_update (asset_pts us) (a_ts a)) /\
  (forall s us, i_ts (inst_run s us) = fold_left ts_update (cum_pts (i_pnl s) us) (i_ts s)) /\
  (forall x pts, fold_left ts_update (x :: pts) ts_default = fold_left ts_update pts (ts_init x)).
Proof. split; [exact asset_run_ts|]. split; [exact inst_run_ts|exact ts_default_first]. Qed.
Print Assumptions C18_wrappers.

(** What the code does outside the hypothesis (running maximum <= 0): nothing is recorded —
    [checked_div] by a zero peak is None, and below a negative peak the quotient is <= 0. *)
Theorem C18_nonpositive_peak_silent : forall g x p,
  g_peak g = Some p -> p <= 0 -> g_ddmax g = 0 -> snd x <= p ->
  g_ddmax (fst (gen_update g x)) = 0 /\ snd (gen_update g x) = None /\
  g_peak (fst (gen_update g x)) = Some p.
Proof. exact nonpositive_peak_silent. Qed.
Print Assumptions C18_nonpositive_peak_silent.

(** the executable oracle used by the correspondence computes [first_max] *)
Theorem C18_first_max_computed : forall ds d d',
  first_max ds d -> first_max_f ds = Some d /\ (first_max ds d' -> d = d').
Proof.
  intros ds d d' H. split; [exact (first_max_f_complete ds d H)|exact (first_max_unique ds d d' H)].
Qed.
Print Assumptions C18_first_max_computed.

(** The correspondence oracle is no stricter than the model: on every case inside the input
    requirement, wherever the implementation agrees with the model ([corr_b]) the observed
    reports satisfy the property oracle ([prop_b], computed from the decomposition alone). *)
Theorem C18_oracle_sound : forall c, in_scope c = true -> corr_b c = true -> prop_b c = true.
Proof. exact oracle_sound. Qed.
Print Assumptions C18_oracle_sound.

(** Non-vacuity: the curve of the repository's own unit test (with an exact recovery to the peak
    added) satisfies the hypothesis and yields two completed drawdowns and a current one. *)
Definition c18_q (n d : Z) : Qc := Q2Qc (Qmake n (Z.to_pos d)).
Definition c18_curve : list pt :=
  [(0, c18_q 100 1); (1, c18_q 110 1); (2, c18_q 99 1); (3, c18_q 88 1); (4, c18_q 110 1);
   (5, c18_q 115 1); (6, c18_q 115 1); (7, c18_q 1035 10); (8, c18_q 200 1); (9, c18_q 150 1)]%Z.
Definition dd_show (d : drawdown) : Q * Z * Z := (this (dd_value d), dd_start d, dd_end d).
Example C18_nonvacuous :
  positive_peaks c18_curve /\
  map dd_show (completed c18_curve) = [(1 # 5, 1, 5); (1 # 10, 5, 8)]%Z /\
  option_map dd_show (current c18_curve) = Some (1 # 4, 8, 9)%Z /\
  map dd_show (snd (gen_run gen_default c18_curve)) = map dd_show (completed c18_curve) /\
  option_map dd_show
    (r_max (snd (ts_generate (fold_left ts_update (tl c18_curve) (ts_init (0%Z, c18_q 100 1)))))) =
    Some (1 # 4, 8, 9)%Z.
Proof.
  split; [vm_compute; reflexivity|]. split; [vm_compute; reflexivity|].
  split; [vm_compute; reflexivity|]. split; vm_compute; reflexivity.
Qed.
