(** C08 — the simulated exchange keeps a consistent ledger of balances, orders and fills.
    Property theorems only; each is closed by [exact <lemma>] and followed by
    [Print Assumptions].

    Vocabulary (Model/MockExchange.v):  [spec_spent cfg req = Some a] says the order's kind is
    supported (market), its instrument is configured, and [a] is the asset it spends — the quote
    asset for a buy, the base asset for a sell.  [spec_need f req] is the amount needed:
    price x |quantity| x (1 + f) for a buy, |quantity| x (1 + f) for a sell ([|q| = q] for the
    non-negative quantities the property speaks about: [C08_abs_quantity]).
    [wf_state cfg st] is exactly the guard under which the real code does not panic: every
    configured instrument's base and quote asset has a balance, and every balance has
    total = free ([C08_panics_exactly_outside_guard]). *)
From Coq Require Import Sorted.
From BV Require Import Base.Common Model.MockExchange Proofs.MockExchange Corr.C08 Proofs.CorrC08.

Local Open Scope Qc_scope.

(** Under the guard an order is always answered, and it is accepted if and only if it is a
    market order on a configured instrument and the account holds at least the needed amount of
    the spent asset. *)
Theorem C08_accept_iff_funds : forall cfg st req, wf_state cfg st = true ->
  exists st' res n, open_order cfg st req = ODone st' res n /\
    (accepted res = true <->
       exists a b, spec_spent cfg req = Some a /\ lookup (s_bals st) a = Some b /\
                   spec_need (c_fee cfg) req <= b_free b).
Proof. exact accept_iff_funds. Qed.
Print Assumptions C08_accept_iff_funds.

(** The guard is exact: the code panics precisely when the spent asset has no balance, or its
    total differs from its free amount; it never panics under [wf_state]. *)
Theorem C08_panics_exactly_outside_guard : forall cfg st req,
  (open_order cfg st req = OPanicNoBalance <->
     exists a, spec_spent cfg req = Some a /\ lookup (s_bals st) a = None) /\
  (open_order cfg st req = OPanicTotalFree <->
     exists a b, spec_spent cfg req = Some a /\ lookup (s_bals st) a = Some b /\ b_total b <> b_free b) /\
  (wf_state cfg st = true -> exists st' res n, open_order cfg st req = ODone st' res n).
Proof.
  intros cfg st req. destruct (panic_iff cfg st req) as [H1 H2].
  split; [exact H1|]. split; [exact H2|exact (no_panic cfg st req)].
Qed.
Print Assumptions C08_panics_exactly_outside_guard.

(** An accepted order debits exactly the spent asset by exactly the needed amount (free and
    total), stamps it with the exchange time, and changes no other balance; it consumes one id
    and touches nothing else.  (The code does not credit the received asset.) *)
Theorem C08_debit_exact : forall cfg st req st' id t filled n,
  open_order cfg st req = ODone st' (ROpen id t filled) n ->
  exists a b, spec_spent cfg req = Some a /\ lookup (s_bals st) a = Some b /\
    let nb := b_free b - spec_need (c_fee cfg) req in
    lookup (s_bals st') a = Some (mkBal nb nb (s_now st)) /\
    (forall x, x <> a -> lookup (s_bals st') x = lookup (s_bals st) x) /\
    map fst (s_bals st') = map fst (s_bals st) /\
    s_seq st' = N.succ (s_seq st) /\ s_now st' = s_now st /\ s_trades st' = s_trades st /\
    s_open st' = s_open st /\ s_canc st' = s_canc st.
Proof. exact debit_exact. Qed.
Print Assumptions C08_debit_exact.

(** A rejected order leaves the whole exchange state untouched — every balance, the trade
    list, and the id counter (no id is consumed) — and announces nothing.  The error says why:
    unsupported kind, unknown instrument, or insufficient balance of the spent asset. *)
Theorem C08_reject_frame : forall cfg st req st' e n,
  open_order cfg st req = ODone st' (RErr e) n ->
  st' = st /\ n = None /\
  ((e = EKind /\ r_kind req = Limit) \/
   (e = EInstr (r_instr req) /\ r_kind req = Market /\ lookup (c_instruments cfg) (r_instr req) = None) \/
   (exists a b, e = EFunds a /\ spec_spent cfg req = Some a /\ lookup (s_bals st) a = Some b /\
                b_free b < spec_need (c_fee cfg) req)).
Proof. exact reject_frame. Qed.
Print Assumptions C08_reject_frame.

(** No balance ever goes negative: over ANY sequence of direct operations (orders, clock writes)
    and over ANY sequence of client requests through the request loop, from non-negative initial
    balances.  No hypothesis on the signs of price, quantity or fee is needed: acceptance is
    literally "the new balance is >= 0". *)
Theorem C08_nonneg_inv : forall cfg,
  (forall ops st, Nonneg st -> Nonneg (fold_left (dstep cfg) ops st)) /\
  (forall reqs st, Nonneg st -> Nonneg (fold_left (step_open cfg) reqs st)) /\
  (forall rqs st st' out, Nonneg st -> run cfg (Some st) rqs = (Some st', out) -> Nonneg st').
Proof.
  intro cfg. split; [exact (nonneg_inv cfg)|]. split; [exact (nonneg_orders cfg)|exact (run_nonneg cfg)].
Qed.
Print Assumptions C08_nonneg_inv.

(** The guard is an invariant, so under it the code never panics along any history and the
    exchange task never dies. *)
Theorem C08_guard_invariant : forall cfg,
  (forall ops st, wf_state cfg st = true -> wf_state cfg (fold_left (dstep cfg) ops st) = true) /\
  (forall rqs st, wf_state cfg st = true ->
     exists st' out, run cfg (Some st) rqs = (Some st', out) /\ wf_state cfg st' = true).
Proof. intro cfg. split; [exact (wf_inv cfg)|exact (run_alive cfg)]. Qed.
Print Assumptions C08_guard_invariant.

(** Ids: over any order sequence the ids of the accepted orders are the consecutive counter
    values starting at the initial one — strictly increasing, hence pairwise distinct — each
    fill's trade id and order id equal its order's id, rejected orders carry no fill, and the
    counter advances by exactly the number of accepted orders. *)
Theorem C08_ids_fresh : forall cfg reqs st,
  let ids := accepted_ids (trace cfg st reqs) in
  ids = seqN (s_seq st) (length ids) /\ StronglySorted N.lt ids /\ NoDup ids /\
  Forall ids_agree (trace cfg st reqs) /\
  s_seq (fold_left (step_open cfg) reqs st) = (s_seq st + N.of_nat (length ids))%N.
Proof. exact ids_fresh. Qed.
Print Assumptions C08_ids_fresh.

(** An order that announces anything was accepted, had the funds, and announces exactly: the
    spent asset's new balance, and one fill carrying the order's id (as trade id and order id),
    instrument, strategy, side, price, quantity, the exchange time, and quote fees equal to
    percentage x price x |quantity| — for buys and sells alike. *)
Theorem C08_fees_formula : forall cfg st req st' res n,
  open_order cfg st req = ODone st' res (Some n) ->
  exists a b, spec_spent cfg req = Some a /\ lookup (s_bals st) a = Some b /\
    spec_need (c_fee cfg) req <= b_free b /\
    let nb := b_free b - spec_need (c_fee cfg) req in
    res = ROpen (s_seq st) (s_now st) (r_qty req) /\
    n = mkNotif a (mkBal nb nb (s_now st))
          (mkTrade (s_seq st) (s_seq st) (r_instr req) (r_strategy req) (s_now st) (r_side req)
                   (r_price req) (r_qty req) (c_fee cfg * r_price req * qabs (r_qty req))) /\
    st' = debited st a nb.
Proof. exact accepted_notif. Qed.
Print Assumptions C08_fees_formula.

Theorem C08_notification_iff_accepted : forall cfg st req st' res n,
  open_order cfg st req = ODone st' res n -> (accepted res = true <-> n <> None).
Proof. exact notif_iff_accepted. Qed.
Print Assumptions C08_notification_iff_accepted.

(** The request loop, for ANY request sequence (orders, queries, cancels) and any state,
    alive or dead: one response per request; each accepted order is announced by exactly one
    balance and one trade notification, every other request by none; and the account's trade
    list grows by exactly the announced fills, in order. *)
Theorem C08_notifications : forall cfg rqs ost ost' out,
  run cfg ost rqs = (ost', out) ->
  length out = length rqs /\
  length (filter is_ev_balance (flat_map snd out)) = length (filter resp_accepted (map fst out)) /\
  length (filter is_ev_trade (flat_map snd out)) = length (filter resp_accepted (map fst out)) /\
  Forall (fun re => if resp_accepted (fst re)
                    then exists a b t, snd re = [EvBalance a b; EvTrade t]
                    else snd re = []) out /\
  (forall st st', ost = Some st -> ost' = Some st' ->
     s_trades st' = s_trades st ++ ev_trades (flat_map snd out)).
Proof. exact run_notifications. Qed.
Print Assumptions C08_notifications.

(** Response delivery is irrelevant to the ledger and its announcements: whatever each client
    does with its response receiver (await it, drop it at once, give up before the latency has
    elapsed — [run_b] masks the responses that are not awaited), the exchange state and the
    notifications emitted per request are exactly those of [run] on the same requests, so by
    [C08_notifications] every accepted order is announced by exactly one balance and one trade
    notification and recorded, whether or not its response could be delivered. *)
Theorem C08_notifications_independent_of_response_delivery : forall cfg brqs ost,
  fst (run_b cfg ost brqs) = fst (run cfg ost (map fst brqs)) /\
  map snd (snd (run_b cfg ost brqs)) = map snd (snd (run cfg ost (map fst brqs))) /\
  map fst (snd (run_b cfg ost brqs)) =
    map (fun x : (rrequest * bool) * (rresp * list event) => mask (snd (fst x)) (fst (snd x)))
        (combine brqs (snd (run cfg ost (map fst brqs)))).
Proof. exact run_b_independent. Qed.
Print Assumptions C08_notifications_independent_of_response_delivery.

(** The ledger does not depend on who listens: whether a receiver is subscribed to the account
    stream while a request is processed ([run_s] delivers the notifications only then) changes
    neither the exchange state — balances, id counter, STORED TRADES — nor any response; by
    [C08_notifications] the trade list therefore grows by the fill of every accepted order, heard
    or not, and [C08_queries] answers from it. *)
Theorem C08_ledger_independent_of_subscribers : forall cfg srqs ost,
  fst (run_s cfg ost srqs) = fst (run cfg ost (map fst srqs)) /\
  map fst (snd (run_s cfg ost srqs)) = map fst (snd (run cfg ost (map fst srqs))) /\
  map snd (snd (run_s cfg ost srqs)) =
    map (fun x : (rrequest * bool) * (rresp * list event) =>
           if snd (fst x) then snd (snd x) else [])
        (combine srqs (snd (run cfg ost (map fst srqs)))).
Proof. exact run_s_independent. Qed.
Print Assumptions C08_ledger_independent_of_subscribers.

(** Queries answer from the current account: a snapshot / balance query returns every asset with
    the ledger's amounts, a trade query returns the recorded fills not older than [since]. *)
Theorem C08_queries : forall cfg st t,
  let st1 := tick cfg st t in
  run_request cfg (Some st) (mkRq t KSnapshot) = (Some st1, PSnapshot (s_bals st1) (s_open st1) (s_canc st1), []) /\
  run_request cfg (Some st) (mkRq t KBalances) = (Some st1, PBalances (s_bals st1), []) /\
  (forall since, run_request cfg (Some st) (mkRq t (KTrades since)) =
     (Some st1, PTrades (filter (fun x => Z.leb since (t_time x)) (s_trades st)), [])) /\
  (forall a, option_map b_free (lookup (s_bals st1) a) = abs_ledger st a) /\
  (forall a, option_map b_total (lookup (s_bals st1) a) = option_map b_total (lookup (s_bals st) a)) /\
  map fst (s_bals st1) = map fst (s_bals st).
Proof. exact query_spec. Qed.
Print Assumptions C08_queries.

(** Refinement to the ledger specification (asset -> amount; accept iff need <= amount; debit):
    along ANY order sequence and ANY request sequence, under the guard, the accept / reject
    decisions are the specification's and the balances are the specification's ledger. *)
Theorem C08_refines_ledger : forall cfg,
  (forall reqs st, wf_state cfg st = true ->
     map (fun rn => accepted (fst rn)) (trace cfg st reqs) = spec_decisions cfg (abs_ledger st) reqs /\
     forall a, abs_ledger (fold_left (step_open cfg) reqs st) a =
               fold_left (spec_step cfg) reqs (abs_ledger st) a) /\
  (forall rqs st, wf_state cfg st = true ->
     exists st' out, run cfg (Some st) rqs = (Some st', out) /\
       map resp_accepted (filter (fun p => match p with POpen _ => true | _ => false end) (map fst out))
         = spec_decisions cfg (abs_ledger st) (opens_of rqs) /\
       forall a, abs_ledger st' a = fold_left (spec_step cfg) (opens_of rqs) (abs_ledger st) a).
Proof. intro cfg. split; [exact (run_refines cfg)|exact (run_loop_refines cfg)]. Qed.
Print Assumptions C08_refines_ledger.

(** Closed form: a balance is the initial one minus the amounts needed by the accepted orders
    that spend that asset — snapshots reflect exactly the accepted orders; and with a
    non-negative fee and prices that total is non-negative (balances only decrease). *)
Theorem C08_ledger_sum : forall cfg reqs led a,
  fold_left (spec_step cfg) reqs led a = option_map (fun v => v - spec_debits cfg led reqs a) (led a) /\
  (0 <= c_fee cfg -> Forall (fun r => 0 <= r_price r) reqs -> 0 <= spec_debits cfg led reqs a).
Proof.
  intros cfg reqs led a. split; [exact (ledger_sum cfg reqs led a)|exact (spec_debits_nonneg cfg reqs led a)].
Qed.
Print Assumptions C08_ledger_sum.

(** The instrument's kind, contract size and settlement asset are irrelevant: spot, perpetual,
    future and option instruments with any contract size are treated alike, the amounts are
    price x quantity (buy) resp. quantity (sell) plus fees, exactly as the property states. *)
Theorem C08_instrument_kind_irrelevant : forall cfg ks,
  (forall st req, open_order (with_kinds cfg ks) st req = open_order cfg st req) /\
  (forall ost rq, run_request (with_kinds cfg ks) ost rq = run_request cfg ost rq) /\
  (forall rqs ost, run (with_kinds cfg ks) ost rqs = run cfg ost rqs) /\
  (forall req, spec_spent (with_kinds cfg ks) req = spec_spent cfg req) /\
  (forall led req, spec_accepts (with_kinds cfg ks) led req = spec_accepts cfg led req).
Proof. exact kinds_irrelevant. Qed.
Print Assumptions C08_instrument_kind_irrelevant.

(** The code's [value + value x fee] is [value x (1 + fee)], the two fee computations (buy:
    on the quote value; sell: on the base quantity, converted at the order price) coincide, and
    [|q| = q] on the property's domain. *)
Theorem C08_abs_quantity : forall f req,
  required f req = spec_need f req /\ fees_quote f req = spec_fees f req /\
  (0 <= r_qty req -> qabs (r_qty req) = r_qty req).
Proof.
  intros f req. split; [exact (required_spec_need f req)|].
  split; [exact (fees_quote_spec f req)|exact (qabs_nonneg (r_qty req))].
Qed.
Print Assumptions C08_abs_quantity.

(** The correspondence oracle is no stricter than the model: on every case inside the input
    requirement, if the model reproduces all observations then the property oracle accepts them.
    So an oracle failure always means the implementation's observed behaviour differs from the
    (proved) model on that very input. *)
Theorem C08_oracle_no_stricter_than_model : forall c,
  in_domain c = true -> corr_b c = true -> prop_b c = true.
Proof. exact corr_implies_prop. Qed.
Print Assumptions C08_oracle_no_stricter_than_model.

(** Non-vacuity: a concrete account (btc/usdt/eth, three instruments sharing assets, fee 1 %)
    meets the guard; a history with an accepted buy, an accepted sell that exhausts the base
    balance exactly, a sell one unit too large, a limit order and an unknown instrument runs
    through the request loop and ends in the expected non-trivial state. *)
Definition c08_cfg : config :=
  mkCfg [(0, (0, 1)); (1, (2, 1)); (2, (0, 2))]%N (qc 1 2) 10
        [(1%N, mkKind 1 (qc 1 2) (Some 1%N)); (2%N, mkKind 3 (qc 100 0) (Some 0%N))].
Definition c08_init : state :=
  mkState [(0%N, mkBal (qc 101 2) (qc 101 2) 0); (1%N, mkBal (qc 1000 0) (qc 1000 0) 0);
           (2%N, mkBal (qc 5 0) (qc 5 0) 0)] 7 0 [] [] [].
Definition c08_reqs : list rrequest :=
  [ mkRq 100 (KOpen (mkReq 0 0 1 Buy (qc 100 0) (qc 2 0) Market 0));      (* needs 202 usdt *)
    mkRq 110 (KOpen (mkReq 0 0 2 Sell (qc 100 0) (qc 1 0) Market 0));     (* needs 1.01 btc: all *)
    mkRq 120 (KOpen (mkReq 2 1 3 Sell (qc 3 0) (qc 1 8) Market 0));       (* btc is gone *)
    mkRq 130 (KOpen (mkReq 1 1 4 Buy (qc 10 0) (qc 1 0) Limit 0));
    mkRq 140 (KOpen (mkReq 9 1 5 Buy (qc 10 0) (qc 1 0) Market 0));
    mkRq 150 KSnapshot ]%N%Z.
Example C08_nonvacuous :
  wf_state c08_cfg c08_init = true /\ nonneg_state c08_init = true /\
  exists st' out, run c08_cfg (Some c08_init) c08_reqs = (Some st', out) /\
    map (fun p => match p with POpen (ROpen id t _) => Some (id, t) | _ => None end) (map fst out) =
      [Some (7%N, 105%Z); Some (8%N, 115%Z); None; None; None; None] /\
    map (fun kb => (fst kb, this (b_free (snd kb)), b_time (snd kb))) (s_bals st') =
      [(0%N, 0 # 1, 155%Z); (1%N, 798 # 1, 155%Z); (2%N, 5 # 1, 155%Z)] /\
    length (flat_map snd out) = 4%nat /\
    map t_id (s_trades st') = [7; 8]%N /\ map (fun t => this (t_fees t)) (s_trades st') = [2 # 1; 1 # 1] /\
    s_seq st' = 9%N.
Proof.
  split; [vm_compute; reflexivity|]. split; [vm_compute; reflexivity|].
  eexists. eexists. split; [vm_compute; reflexivity|].
  repeat split; vm_compute; reflexivity.
Qed.
Print Assumptions C08_nonvacuous.
