(** C03 — Order requests: sent => delivered once and in flight; refused / failed => neither;
    trading gate.  Property theorems only, over the engine model of Model/Engine.v.

    All statements quantify over EVERY engine state, event, close-positions strategy [cs], and
    strategy / risk script [g] (what the AlgoStrategy returns this tick and the RiskManager's
    verdict per request), and over every condition of every execution link: [LOpen mailbox],
    [LClosed] (receiver gone), [LUnhealthy] (send fails recoverably), [LMissing] (no transmitter),
    or an exchange index beyond the link table ([SNoIndex]).

    Vocabulary: [spec_sent ex ls rs] = the requests of [rs] whose exchange's link is open in [ls];
    [spec_errs ex ls rs] = the others, each paired with the error class of its link's condition
    ([err_of_stat]); [to_ex e xs] = the requests of [xs] naming exchange [e]; [mbox ls e] = the
    mailbox of link [e]; [ord is i c] = the order instrument [i] tracks under client order id [c];
    [marked base cs os i c] = the pointwise in-flight marks of sent cancels [cs] then sent opens
    [os] over [base]. *)
From Coq Require Import List ZArith NArith Bool.
From BV Require Import Model.Engine Proofs.Engine.
Import ListNotations.
Local Open Scope N_scope.

(** One batch (SendRequests::send_requests): sent = exactly the requests whose link is open, in
    order; errors = the rest, classified by the link's condition; link conditions never change;
    each sent request is appended once, in order, to its own exchange's mailbox and to no other. *)
Theorem C03_send_partition : forall R (inj : R -> xreq) rs ls,
  let ex := fun r => xr_ex (inj r) in
  let ls' := fst (send_requests inj ls rs) in
  let out := snd (send_requests inj ls rs) in
  so_sent out = spec_sent ex ls rs /\
  so_errs out = spec_errs ex ls rs /\
  (forall e, lstat_of ls' e = lstat_of ls e) /\
  (forall e, mbox ls' e = mbox ls e ++ to_ex e (map inj (so_sent out))) /\
  length ls' = length ls.
Proof. exact send_requests_spec. Qed.
Print Assumptions C03_send_partition.

(** Error classes: closed channel => terminated (fatal); no transmitter or unknown exchange index
    => index error (fatal); unhealthy => recoverable; an open link never errs. *)
Theorem C03_error_classes : forall ls e,
  (lstat_of ls e = SClosed -> err_of_stat (lstat_of ls e) = KTerminated) /\
  (lstat_of ls e = SMissing \/ lstat_of ls e = SNoIndex -> err_of_stat (lstat_of ls e) = KIndex) /\
  (lstat_of ls e = SUnhealthy -> err_of_stat (lstat_of ls e) = KUnhealthy) /\
  unrecoverable KTerminated = true /\ unrecoverable KIndex = true /\ unrecoverable KUnhealthy = false /\
  (link_open ls e = true <-> lstat_of ls e = SOpen).
Proof.
  intros ls e. unfold link_open. repeat split; try (intros H; rewrite H; reflexivity).
  - intros [H|H]; rewrite H; reflexivity.
  - destruct (lstat_of ls e); intros; try discriminate; reflexivity.
Qed.
Print Assumptions C03_error_classes.

(** The risk verdicts partition the strategy's requests: every generated request is either
    approved or refused. *)
Theorem C03_risk_partition : forall A (l : list A) m,
  (length (fst (split_mask m l)) + length (snd (split_mask m l)) = length l)%nat /\
  forall x, In x l <-> In x (fst (split_mask m l)) \/ In x (snd (split_mask m l)).
Proof. exact split_mask_partition. Qed.
Print Assumptions C03_risk_partition.

(** Algorithmic generation (GenerateAlgoOrders::generate_algo_orders): with [ac]/[ao] the
    approved and [rc]/[ro] the refused requests, the output is the specification of the approved
    lists and lists the refused ones; the mailboxes receive exactly the sent requests (so a
    refused or failed request reaches no mailbox); positions and prices are untouched; the orders
    afterwards are the pointwise marks of the SENT cancels and opens only. *)
Theorem C03_generate : forall s g,
  let ac := fst (split_mask (gs_cmask g) (gs_cancels g)) in
  let rc := snd (split_mask (gs_cmask g) (gs_cancels g)) in
  let ao := fst (split_mask (gs_omask g) (gs_opens g)) in
  let ro := snd (split_mask (gs_omask g) (gs_opens g)) in
  let s' := fst (generate s g) in
  let a := snd (generate s g) in
  a = mkAlgo (mkSendOut (spec_sent cr_ex (links s) ac) (spec_errs cr_ex (links s) ac))
             (mkSendOut (spec_sent or_ex (links s) ao) (spec_errs or_ex (links s) ao)) rc ro /\
  trading s' = trading s /\
  (forall e, lstat_of (links s') e = lstat_of (links s) e) /\
  (forall e, mbox (links s') e = mbox (links s) e ++ to_ex e (algo_sent a)) /\
  map inst_rest (insts s') = map inst_rest (insts s) /\
  (forall i, has_inst (insts s') i = has_inst (insts s) i) /\
  (valid_opens (insts s) (so_sent (ao_opens a)) = true ->
   forall i c, ord (insts s') i c =
               marked (ord (insts s)) (so_sent (ao_cancels a)) (so_sent (ao_opens a)) i c).
Proof. exact generate_spec. Qed.
Print Assumptions C03_generate.

(** Commands (Engine::action), all four kinds, with [command_requests] the two lists the command
    submits (for ClosePositions: whatever the strategy [cs] returns): same statement, no risk
    check. *)
Theorem C03_action : forall cs s c,
  let rq := command_requests cs s c in
  let s' := fst (action cs s c) in
  let a := snd (action cs s c) in
  action_cancels a = mkSendOut (spec_sent cr_ex (links s) (fst rq)) (spec_errs cr_ex (links s) (fst rq)) /\
  action_opens a = mkSendOut (spec_sent or_ex (links s) (snd rq)) (spec_errs or_ex (links s) (snd rq)) /\
  trading s' = trading s /\
  (forall e, lstat_of (links s') e = lstat_of (links s) e) /\
  (forall e, mbox (links s') e = mbox (links s) e ++ to_ex e (action_sent a)) /\
  map inst_rest (insts s') = map inst_rest (insts s) /\
  (forall i, has_inst (insts s') i = has_inst (insts s) i) /\
  (valid_opens (insts s) (so_sent (action_opens a)) = true ->
   forall i c, ord (insts s') i c =
               marked (ord (insts s)) (so_sent (action_cancels a)) (so_sent (action_opens a)) i c).
Proof. exact action_spec. Qed.
Print Assumptions C03_action.

(** What the marks mean.  (i) every sent open is tracked OpenInFlight afterwards, as the order of a
    sent open with that instrument and client order id; *)
Theorem C03_sent_open_in_flight : forall base cs os r,
  In r os ->
  exists o, marked base cs os (k_inst (or_key r)) (k_cid (or_key r)) = Some o /\ o_st o = OIF /\
            exists r', In r' os /\ o = order_of_req r' /\
                       k_inst (or_key r') = k_inst (or_key r) /\ k_cid (or_key r') = k_cid (or_key r).
Proof. exact marked_open. Qed.
Print Assumptions C03_sent_open_in_flight.

(** (ii) every sent cancel of a tracked order leaves it in flight: CancelInFlight keeping the
    exchange data it had (or OpenInFlight if an open for the same id was sent in the same batch); *)
Theorem C03_sent_cancel_in_flight : forall base cs os r o,
  In r cs -> base (k_inst (cr_key r)) (k_cid (cr_key r)) = Some o ->
  (exists o', marked base cs os (k_inst (cr_key r)) (k_cid (cr_key r)) = Some o' /\ in_flight (o_st o') = true) /\
  (names_o (k_inst (cr_key r)) (k_cid (cr_key r)) os = false ->
   marked base cs os (k_inst (cr_key r)) (k_cid (cr_key r)) = Some (with_st o (CIF (open_meta (o_st o))))).
Proof.
  intros base cs os r o Hin Hb. split.
  - exact (marked_in_flight base cs os r o Hin Hb).
  - intros Hn. exact (marked_cancel base cs os r o Hin Hb Hn).
Qed.
Print Assumptions C03_sent_cancel_in_flight.

(** (iii) an order no sent request names is unchanged — in particular the orders named only by
    failed or refused requests. *)
Theorem C03_unsent_untouched : forall base cs os i c,
  names_c i c cs = false -> names_o i c os = false -> marked base cs os i c = base i c.
Proof. exact marked_frame. Qed.
Print Assumptions C03_unsent_untouched.

(** One whole Engine::process step.  Deliveries: each link receives, once and in order, exactly the
    requests of the step's trace (command output, then generation output) that name it. *)
Theorem C03_process_delivery : forall cs s ev g e,
  let s' := fst (process_trace cs s ev g) in
  let t := snd (process_trace cs s ev g) in
  lstat_of (links s') e = lstat_of (links s) e /\
  mbox (links s') e = mbox (links s) e ++ to_ex e (trace_sent t).
Proof. exact process_delivery. Qed.
Print Assumptions C03_process_delivery.

(** Orders after a step = marks of the command's sent requests, then of the generation's sent
    requests, over the event's own state update; positions and prices are exactly those of the
    event's own update (the engine keeps updating its state whatever happens to requests). *)
Theorem C03_process_orders : forall cs s ev g,
  let s' := fst (process_trace cs s ev g) in
  let t := snd (process_trace cs s ev g) in
  let su := fst (update_state s ev) in
  map inst_rest (insts s') = map inst_rest (insts su) /\
  (valid_opens (insts s) (tr_ao t) = true -> valid_opens (insts s) (tr_go t) = true ->
   forall i c, ord (insts s') i c =
               marked (marked (ord (insts su)) (tr_ac t) (tr_ao t)) (tr_gc t) (tr_go t) i c).
Proof. exact process_orders. Qed.
Print Assumptions C03_process_orders.

(** The audit: what it reports as sent is a prefix of what was delivered and all of it when the
    audit carries no error; every unrecoverable error of the step is in the audit. *)
Theorem C03_audit : forall cs s ev g,
  let t := snd (process_trace cs s ev g) in
  let a := snd (process cs s ev g) in
  a = audit_of t /\
  (exists extra, trace_sent t = audit_sent a ++ extra /\ (au_errors a = [] -> extra = [])) /\
  (forall k, In k (au_errors a) <-> In k (trace_unrec t)).
Proof. exact process_audit. Qed.
Print Assumptions C03_audit.

(** Trading disabled after the event: the step is the event's own update and nothing else, whatever
    the strategy and the risk manager would have returned — no strategy-generated request, state
    still updated. *)
Theorem C03_disabled_no_generation : forall cs s ev g,
  (forall c, ev <> EvCommand c) ->
  trading (fst (update_state s ev)) = false ->
  process cs s ev g = (fst (update_state s ev), mkAudit (snd (update_state s ev)) []).
Proof. exact process_disabled_event. Qed.
Print Assumptions C03_disabled_no_generation.

(** ... and commands are still actioned while disabled: the step is exactly Engine::action. *)
Theorem C03_disabled_commands_actioned : forall cs s c g,
  trading s = false ->
  process cs s (EvCommand c) g =
  (fst (action cs s c),
   mkAudit [OutCommanded (snd (action cs s c))] (action_unrec (snd (action cs s c)))).
Proof. exact process_disabled_command. Qed.
Print Assumptions C03_disabled_commands_actioned.

(** Re-enabling resumes generation on that very event. *)
Theorem C03_enable_resumes : forall cs s g,
  process cs s (EvTradingState true) g =
  (fst (generate (set_trading s true) g),
   audit_of (mkTrace None [] (Some (snd (generate (set_trading s true) g))))).
Proof. exact process_enable. Qed.
Print Assumptions C03_enable_resumes.

(** A command with a fatal send error ends the step: its output and errors are audited, nothing is
    generated. *)
Theorem C03_fatal_command_stops : forall cs s c g,
  action_unrec (snd (action cs s c)) <> [] ->
  process cs s (EvCommand c) g =
  (fst (action cs s c),
   mkAudit [OutCommanded (snd (action cs s c))] (action_unrec (snd (action cs s c)))).
Proof. exact fatal_command_stops. Qed.
Print Assumptions C03_fatal_command_stops.

(** Non-vacuity: three exchanges (open, closed, no transmitter) and a request to a fourth,
    unknown one; the strategy returns two cancels and four opens, the risk manager refuses one
    open. One market event while enabled: the open link gets its cancel then its open, the
    tracked order is CancelInFlight, the new one OpenInFlight, the three failed requests are
    audited as fatal errors, and neither they nor the refused one left any mark. *)
Definition c03_key (e i c : N) : key := mkKey e i 7 c.
Definition c03_order (e i c : N) (st : ostate) : order := mkOrder (c03_key e i c) Buy 100 2 Limit GTD st.
Definition c03_state : state :=
  mkState true [LOpen []; LClosed; LMissing]
    [ mkInst 0 0 1 [(1, c03_order 0 0 1 (OOpen (mkMeta 11 5 0)))] None (mkMD (mkL1 0 None None) None);
      mkInst 1 2 3 [(1, c03_order 1 1 1 OIF)] None (mkMD (mkL1 0 None None) None) ].
Definition c03_script : gscript :=
  mkGScript [mkCReq (c03_key 0 0 1) (Some 11); mkCReq (c03_key 1 1 1) None]
            [mkOReq (c03_key 0 0 2) (mkROpen Sell 101 1 Market IOC);
             mkOReq (c03_key 2 1 3) (mkROpen Sell 101 1 Market IOC);
             mkOReq (c03_key 9 1 4) (mkROpen Sell 101 1 Market IOC);
             mkOReq (c03_key 0 0 5) (mkROpen Sell 101 1 Market IOC)]
            [true; true] [true; true; true; false].
Example C03_nonvacuous :
  let '(s', a) := process (fun _ _ => ([], [])) c03_state (EvMarketTrade 1 3 50) c03_script in
  mbox (links s') 0 = [XCancel (mkCReq (c03_key 0 0 1) (Some 11));
                       XOpen (mkOReq (c03_key 0 0 2) (mkROpen Sell 101 1 Market IOC))] /\
  ord (insts s') 0 1 = Some (c03_order 0 0 1 (CIF (Some (mkMeta 11 5 0)))) /\
  option_map o_st (ord (insts s') 0 2) = Some OIF /\
  ord (insts s') 1 1 = Some (c03_order 1 1 1 OIF) /\ ord (insts s') 1 3 = None /\
  ord (insts s') 1 4 = None /\ ord (insts s') 0 5 = None /\
  au_errors a = [KIndex; KIndex; KTerminated] /\ au_outputs a = [].
Proof. vm_compute. repeat split; reflexivity. Qed.

(** Link between the proof side and the correspondence side: the oracle of Corr/C03.v is no
    stricter than the model.  For every well-formed case whose steps are in scope, if the model
    reproduces the observation ([corr_b]) then the oracle accepts it ([prop_b]).
    PARTIAL — what is missing: steps that are CancelOrders commands (process or direct action),
    strategy-hook steps [OpHook] (judged by the oracle like direct actions; proof not done) and the
    degenerate environment op [OpSetLink _ SNoIndex] are outside [case_in_scope].  For a
    CancelOrders command the code iterates a hash map, so [corr_b] compares report and mailboxes as
    multisets, while the oracle additionally demands that each mailbox holds the reported requests
    in the reported order: a relation between two observed values that multiset agreement with
    the model does not imply — there the oracle is deliberately stricter and the implication does
    not hold.  Every other step kind (all events, the other three commands incl. ClosePositions
    with default or scripted strategy, direct generate / action, link changes) is covered. *)
From BV Require Import Corr.C03 Proofs.OracleC03.
Theorem C03_oracle_sound_partial : forall c,
  valid_case c = true -> case_in_scope c = true -> corr_b c = true -> prop_b c = true.
Proof. exact oracle_sound_C03. Qed.
Print Assumptions C03_oracle_sound_partial.
