(** C04 — Engine indices and exchange names translate both ways without mix-ups.
    Property theorems only.  [x] is any IndexedInstruments whose keys are unique (in particular
    every result of IndexedInstruments::new, first theorem); [gen_map x e] is
    generate_execution_instrument_map for exchange [e]; [asset_owner x k] / [instrument_owner x k]
    read, from the global tables, the exchange an index belongs to and its exchange name. *)
From BV Require Import Base.Common Model.Index Model.ExecMap Proofs.Index Proofs.ExecMap.
From BV Require Import Corr.C04 Proofs.CorrC04.

(** every collection built by IndexedInstruments::new has unique keys *)
Theorem C04_built_tables_wf : forall l x, build l = Some x -> indexed_wf x.
Proof. exact build_indexed_wf. Qed.
Print Assumptions C04_built_tables_wf.

(** A map exists exactly for the indexed exchanges, it carries that exchange's own index, and
    translates the exchange index / id both ways and nothing else. *)
Theorem C04_exchange : forall x e, indexed_wf x ->
  (gen_map x e = None <-> ~ In e (map snd (x_exchanges x))) /\
  (forall m, gen_map x e = Some m ->
     exists ek, m_exchange m = (ek, e) /\ find_exchange (x_exchanges x) ek = Some e /\
       (forall k, find_exchange_id m k = Some e <-> k = ek) /\
       (forall k e', find_exchange_id m k = Some e' -> e' = e) /\
       (forall e' k, find_exchange_ix m e' = Some k <-> e' = e /\ k = ek)).
Proof. exact gen_map_exchange. Qed.
Print Assumptions C04_exchange.

(** Round trip, index -> name -> index: whatever index translates belongs to this exchange, the
    name is that index's own exchange name, and the name translates back to the same index. *)
Theorem C04_roundtrip_instrument : forall x e m k n, indexed_wf x -> gen_map x e = Some m ->
  find_instrument_name m k = Some n ->
  instrument_owner x k = Some (e, n) /\ find_instrument_ix m n = Some k.
Proof. exact instrument_roundtrip. Qed.
Print Assumptions C04_roundtrip_instrument.

Theorem C04_roundtrip_asset : forall x e m k n, indexed_wf x -> gen_map x e = Some m ->
  find_asset_name m k = Some n ->
  asset_owner x k = Some (e, n) /\ find_asset_ix m n = Some k.
Proof. exact asset_roundtrip. Qed.
Print Assumptions C04_roundtrip_asset.

(** Round trip, name -> index -> name. *)
Theorem C04_roundtrip_back_instrument : forall x e m k n, indexed_wf x -> gen_map x e = Some m ->
  find_instrument_ix m n = Some k ->
  instrument_owner x k = Some (e, n) /\ find_instrument_name m k = Some n.
Proof. exact instrument_roundtrip_back. Qed.
Print Assumptions C04_roundtrip_back_instrument.

Theorem C04_roundtrip_back_asset : forall x e m k n, indexed_wf x -> gen_map x e = Some m ->
  find_asset_ix m n = Some k ->
  asset_owner x k = Some (e, n) /\ find_asset_name m k = Some n.
Proof. exact asset_roundtrip_back. Qed.
Print Assumptions C04_roundtrip_back_asset.

(** Only indices belonging to the exchange translate: foreign and out-of-range indices do not. *)
Theorem C04_only_own_instrument : forall x e m k, indexed_wf x -> gen_map x e = Some m ->
  (forall n, instrument_owner x k <> Some (e, n)) -> find_instrument_name m k = None.
Proof. exact instrument_only_own. Qed.
Print Assumptions C04_only_own_instrument.

Theorem C04_only_own_asset : forall x e m k, indexed_wf x -> gen_map x e = Some m ->
  (forall n, asset_owner x k <> Some (e, n)) -> find_asset_name m k = None.
Proof. exact asset_only_own. Qed.
Print Assumptions C04_only_own_asset.

(** Every index of the exchange translates (to its own name, and back), provided exchange names
    are distinct within the exchange. *)
Theorem C04_total_on_own_instrument : forall x e m k n, indexed_wf x -> names_distinct x e ->
  gen_map x e = Some m -> instrument_owner x k = Some (e, n) ->
  find_instrument_name m k = Some n /\ find_instrument_ix m n = Some k.
Proof. exact instrument_total_on_own. Qed.
Print Assumptions C04_total_on_own_instrument.

Theorem C04_total_on_own_asset : forall x e m k n, indexed_wf x -> names_distinct x e ->
  gen_map x e = Some m -> asset_owner x k = Some (e, n) ->
  find_asset_name m k = Some n /\ find_asset_ix m n = Some k.
Proof. exact asset_total_on_own. Qed.
Print Assumptions C04_total_on_own_asset.

(** The name lists handed to the exchange client are exactly the exchange's own names. *)
Theorem C04_name_lists : forall x e m, indexed_wf x -> gen_map x e = Some m ->
  (forall n, In n (m_assets m) <-> exists k, asset_owner x k = Some (e, n)) /\
  (forall n, In n (m_instruments m) <-> exists k, instrument_owner x k = Some (e, n)).
Proof. exact exchange_name_lists. Qed.
Print Assumptions C04_name_lists.

(** Outbound: an order request that is translated reaches the client addressed to exactly that
    instrument's exchange name on this exchange, payload unchanged ... *)
Theorem C04_order_request_sound : forall x e m ek ik tag e' n tag', indexed_wf x -> gen_map x e = Some m ->
  order_request m (ek, ik, tag) = Ok (e', n, tag') ->
  e' = e /\ tag' = tag /\ find_exchange (x_exchanges x) ek = Some e /\ instrument_owner x ik = Some (e, n).
Proof. exact order_request_sound. Qed.
Print Assumptions C04_order_request_sound.

(** ... every request for one of the exchange's instruments is translated ... *)
Theorem C04_order_request_complete : forall x e m ek ik tag n, indexed_wf x -> names_distinct x e ->
  gen_map x e = Some m -> find_exchange (x_exchanges x) ek = Some e ->
  instrument_owner x ik = Some (e, n) -> order_request m (ek, ik, tag) = Ok (e, n, tag).
Proof. exact order_request_complete. Qed.
Print Assumptions C04_order_request_complete.

(** ... and a request for another exchange or a foreign / unknown instrument is refused. *)
Theorem C04_order_request_foreign : forall x e m ek ik tag, indexed_wf x -> gen_map x e = Some m ->
  (find_exchange (x_exchanges x) ek <> Some e \/ forall n, instrument_owner x ik <> Some (e, n)) ->
  exists err, order_request m (ek, ik, tag) = Err err.
Proof. exact order_request_foreign. Qed.
Print Assumptions C04_order_request_foreign.

(** Inbound: every account event (snapshot, balance, order, cancel response, trade; including
    the keys inside order errors) that the indexer accepts is applied to exactly the instruments
    and assets it names: reading every index of the result back through the global tables gives
    the original event, and every such index belongs to this exchange. *)
Theorem C04_account_event_sound : forall x e m ev ev', indexed_wf x -> gen_map x e = Some m ->
  account_event m ev = Ok ev' -> back_event x e ev' = Ok ev.
Proof. exact account_event_sound. Qed.
Print Assumptions C04_account_event_sound.

(** ... and every event that names only this exchange's assets and instruments is accepted. *)
Theorem C04_account_event_complete : forall x e m ev ev', indexed_wf x -> names_distinct x e ->
  gen_map x e = Some m -> back_event x e ev' = Ok ev -> account_event m ev = Ok ev'.
Proof. exact account_event_complete. Qed.
Print Assumptions C04_account_event_complete.

(** the executable hypothesis check used on correspondence cases implies the hypothesis *)
Theorem C04_hypothesis_check : forall x e, indexed_wf x -> names_distinct_b x e = true -> names_distinct x e.
Proof. exact names_distinct_b_sound. Qed.
Print Assumptions C04_hypothesis_check.

(** Link between the model theorems and the executable oracle of the correspondence check
    (Corr/C04.v): on every well-formed case (faithful definition key; in the end-to-end part
    every request but the last is sent on the link of the exchange owning the instrument, with
    distinct names there, so no manager has gone before the last request) on which the model
    reproduces everything observed, the oracle accepts the observation: all lookups of every
    exchange's map, request and event translations, name lists and the end-to-end run. *)
Theorem C04_oracle_sound : forall c, wf_case04 c = true -> corr_b c = true -> prop_b c = true.
Proof. exact oracle_sound04. Qed.
Print Assumptions C04_oracle_sound.

(** Non-vacuity: two exchanges; exchange 1 owns instruments 1 and 2 and assets 2..4, so global
    index and per-exchange position differ (the situation in which the lookups repaired by
    commit 8fd6a37 went wrong: the positional lookup sends instrument 1 to instrument 2's name and
    translates the foreign instrument 0). *)
Definition c04_example : list def :=
  [ mkDef 0 (mkInstr 0 10 20 (0, 0) (1, 1) KSpot None 0);
    mkDef 1 (mkInstr 1 11 21 (0, 5) (2, 2) KSpot None 0);
    mkDef 2 (mkInstr 1 12 22 (3, 3) (2, 2) KSpot None 0) ]%N.
Example C04_nonvacuous :
  exists x m, build c04_example = Some x /\ gen_map x 1%N = Some m /\ names_distinct_b x 1%N = true /\
    m_exchange m = (1, 1)%N /\
    map (find_instrument_name m) [0; 1; 2; 3]%N = [None; Some 21; Some 22; None]%N /\
    map (find_instrument_ix m) [20; 21; 22]%N = [None; Some 1; Some 2]%N /\
    map (find_asset_name m) [0; 1; 2; 3; 4; 5]%N = [None; None; Some 5; Some 2; Some 3; None]%N /\
    map (find_instrument_name_prefix m) [0; 1; 2]%N = [Some 21; Some 22; None]%N /\
    order_request m (1, 2, 7)%N = Ok (1, 22, 7)%N /\
    order_request m (0, 0, 7)%N = Err KExchangeId /\ order_request m (1, 0, 7)%N = Err KInstrumentKey /\
    account_event m (1, EKTrade (21, 9))%N = Ok (1, EKTrade (1, 9))%N /\
    account_event m (1, EKBalance (5, 9))%N = Ok (1, EKBalance (2, 9))%N /\
    account_event m (1, EKTrade (20, 9))%N = Err IInstrumentIndex.
Proof. eexists. eexists. vm_compute. repeat split; reflexivity. Qed.
