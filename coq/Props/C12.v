(** C12 — Reconnecting streams deliver every item once, in order, with one notice per drop.
    Property theorems only; each is closed by [exact <lemma>] and followed by
    [Print Assumptions].  All statements quantify over EVERY script of connection outcomes
    (init ok with any finite item/error sequence and any delays | init failure), every backoff
    policy, every origin, every starting backoff / time; merge over every pair of inputs.
    LABEL partial: futures/tokio polling is trusted, not modelled (Model/Reconnect.v header). *)
From Coq Require Import List NArith Bool Permutation.
From BV Require Import Model.Reconnect Proofs.Reconnect.
Import ListNotations.
Local Open Scope N_scope.

(** Items once, in order, up to the end / first terminal error; failed attempts deliver nothing.
    What leaves the stream is, connection by connection in script order, exactly
    [conn_spec]: nothing for a failed attempt; for a successfully initialised connection its
    items up to (excluding) its first terminal error, each once and in order, non-terminal
    errors included in place, followed by exactly one [Reconnecting(origin)] — and only then
    anything of the next connection. *)
Theorem C12_items_once_in_order : forall pol o s cur now,
  outputs (run pol o cur now s) = flat_map (conn_spec o) s /\
  outputs (stream_trace pol o s) = flat_map (conn_spec o) s.
Proof. intros. split; [exact (outputs_run pol o s cur now)|exact (outputs_stream_trace pol o s)]. Qed.
Print Assumptions C12_items_once_in_order.

(** Exactly one notice per connection, after its last delivered item and before anything of the
    next connection: cutting the output at the notices yields exactly the delivered items of the
    successfully initialised connections, in order, and nothing is left over. *)
Theorem C12_one_notice_per_connection : forall pol o s,
  split_notices (outputs (stream_trace pol o s)) = (map delivered (ok_conns s), []) /\
  (forall items o', ~ In (TNotice o') (delivered items)).
Proof.
  intros. split; [rewrite outputs_stream_trace; exact (split_notices_spec o s)|].
  intros items o'. exact (no_notice_delivered items o').
Qed.
Print Assumptions C12_one_notice_per_connection.

(** The first terminal error ends the connection (it is not delivered itself, nor anything
    after it); a non-terminal error is passed through in place and the connection goes on. *)
Theorem C12_terminal_ends_nonterminal_passes : forall pre d post e,
  Forall non_terminal pre ->
  delivered (pre ++ (d, IErrTerminal) :: post) = map ev_of_item (map snd pre) /\
  delivered (pre ++ (d, IErrOther e) :: post) =
    map ev_of_item (map snd pre) ++ TErr e :: delivered post /\
  delivered pre = map ev_of_item (map snd pre) /\
  ~ In TErrTerminal (delivered (pre ++ post)).
Proof.
  intros pre d post e H. split; [exact (delivered_terminal_cuts pre d post H)|].
  split; [exact (delivered_other_passes pre d e post H)|].
  split; [exact (delivered_all pre H)|exact (no_terminal_delivered (pre ++ post))].
Qed.
Print Assumptions C12_terminal_ends_nonterminal_passes.

(** with_error_handler: the errors are handed to the handler (all of them, in order) instead
    of leaving the stream; items and notices are untouched. *)
Theorem C12_error_handler : forall pol o s,
  outputs (handle_errors (stream_trace pol o s)) =
    filter (fun e => negb (is_err e)) (flat_map (conn_spec o) s) /\
  handled (handle_errors (stream_trace pol o s)) =
    map handle_ev (filter is_err (flat_map (conn_spec o) s)).
Proof. exact handler_spec. Qed.
Print Assumptions C12_error_handler.

(** Failed attempts deliver nothing (a run of failures shows nothing but init calls), and the
    init closure is called exactly once per scripted outcome. *)
Theorem C12_failed_attempts_deliver_nothing : forall pol o cur now,
  (forall lats, Forall (fun p => snd p = TAttempt) (run pol o cur now (map InitFail lats))) /\
  (forall s, length (attempt_times (run pol o cur now s)) = length s).
Proof.
  intros. split; [intros lats; exact (fails_only_attempts pol o lats cur now)|].
  intros s. exact (attempts_run_length pol o s cur now).
Qed.
Print Assumptions C12_failed_attempts_deliver_nothing.

(** Backoff. A run of consecutive failures entered with the initial backoff (at the start or
    after any success, see [C12_backoff_resets_on_success]) makes its i-th attempt after waits
    [wait pol 0, wait pol 1, ...]: the first wait is the configured initial backoff, and the
    wait after k consecutive failures is min(initial * multiplier^k, max). *)
Theorem C12_backoff_waits : forall pol o now lats rest,
  run pol o (p_initial pol) now (map InitFail lats ++ rest) =
  fail_attempts pol 0 now lats ++
  run pol o (wait pol (length lats)) (now + sumN lats + sum_waits pol (length lats)) rest.
Proof. exact backoff_closed_form. Qed.
Print Assumptions C12_backoff_waits.

Theorem C12_backoff_resets_on_success : forall pol o cur now lat items tail rest,
  run pol o cur now (InitOk lat items tail :: rest) =
  (now, TAttempt) :: conn_trace o (now + lat) items tail ++
  run pol o (p_initial pol) (conn_end (now + lat) items tail) rest.
Proof. reflexivity. Qed.
Print Assumptions C12_backoff_resets_on_success.

(** The closed form, its bounds, and the u64 side condition: with initial <= max the waits are
    initial, min(initial*m, max), min(initial*m^2, max), ... never above max, non-decreasing for
    a multiplier >= 1; they are what the state machine computes ([multiply_backoff] step by
    step); with max * multiplier < 2^64 no product it computes overflows. *)
Theorem C12_wait_closed_form : forall pol k,
  multiply_backoff pol (wait pol k) = wait pol (S k) /\
  wait pol 0 = p_initial pol /\
  (p_initial pol <= p_max pol ->
     wait pol k = N.min (p_initial pol * p_mult pol ^ N.of_nat k) (p_max pol) /\
     wait pol k <= p_max pol /\
     (1 <= p_mult pol -> wait pol k <= wait pol (S k)) /\
     (p_max pol * p_mult pol < 2 ^ 64 -> p_max pol < 2 ^ 64 ->
        wait pol k * p_mult pol < 2 ^ 64 /\ wait pol k < 2 ^ 64)).
Proof.
  intros pol k. split; [exact (multiply_wait pol k)|]. split; [reflexivity|]. intros H.
  split; [exact (wait_uniform pol k H)|]. split; [exact (wait_le_max pol k H)|].
  split; [exact (wait_mono pol k H)|exact (no_overflow pol k H)].
Qed.
Print Assumptions C12_wait_closed_form.

(** The stream never ends by itself: what has been observed on a script stays a prefix of what
    is observed on any extension of the script (after the last scripted outcome the stream is
    waiting for the next init call, it has not ended); the consumer of the composed stream is
    never told that it ended; time never runs backwards in the trace. *)
Theorem C12_never_ends_by_itself : forall pol o s1 s2,
  Prefix (stream_trace pol o s1) (stream_trace pol o (s1 ++ s2)) /\
  mono 0 (stream_trace pol o s1) /\
  (forall lat items tail h,
     exists tr, reconnecting pol o h FwdNone (InitOk lat items tail :: s1) = RStream tr None).
Proof.
  intros. split; [exact (stream_trace_prefix pol o s1 s2)|].
  split; [exact (mono_stream_trace pol o s1)|].
  intros. eexists. reflexivity.
Qed.
Print Assumptions C12_never_ends_by_itself.

(** forward_to: exactly the first k events are forwarded, in order, when the receiver goes away
    after k; what is observed is a prefix of the stream's trace; the future completes iff the
    stream produces a (k+1)-th event. *)
Theorem C12_forward_to : forall tr k,
  outputs (fst (forward_to k tr)) = firstn k (outputs tr) /\
  Prefix (fst (forward_to k tr)) tr /\
  (snd (forward_to k tr) = None <-> (length (outputs tr) <= k)%nat).
Proof.
  intros. split; [exact (forward_outputs tr k)|].
  split; [exact (forward_prefix tr k)|exact (forward_done tr k)].
Qed.
Print Assumptions C12_forward_to.

(** merge (any element type, any interleaving): every output is an interleaving of a prefix of
    the left input and a prefix of the right input — so each input's order is preserved and
    nothing is duplicated or invented — and at least one of the two inputs has been delivered
    completely (the merged stream ends only because an input ended); conversely every such
    interleaving is a possible output. *)
Theorem C12_merge_sound : forall A (l r o : list A),
  merge_rel l r o <->
  exists l1 l2 r1 r2, l = l1 ++ l2 /\ r = r1 ++ r2 /\ interleave l1 r1 o /\ (l2 = [] \/ r2 = []).
Proof.
  intros. split; [exact (merge_rel_sound A l r o)|].
  intros (l1 & l2 & r1 & r2 & -> & -> & H & Hd). exact (merge_rel_complete A l1 l2 r1 r2 o H Hd).
Qed.
Print Assumptions C12_merge_sound.

Theorem C12_interleave_preserves_order : forall A (l r o : list A),
  interleave l r o -> subseq l o /\ subseq r o /\ Permutation (l ++ r) o.
Proof.
  intros A l r o H. destruct (interleave_subseq A l r o H).
  repeat split; try assumption. exact (interleave_perm A l r o H).
Qed.
Print Assumptions C12_interleave_preserves_order.

(** merge under virtual time: every item up to the point either input ends. If the merged
    stream ends at t, one input was delivered completely and ended at t, and the first item
    still undelivered on the other input (if any) was not available before t; if it does not
    end, both inputs were delivered completely and neither ends. The checker used by the
    correspondence decides the relation. *)
Theorem C12_merge_timed : forall a b out e,
  tm_rel a b out e ->
  exists l2 r2,
    fst a = of_side SL out ++ l2 /\ fst b = of_side SR out ++ r2 /\
    interleave (of_side SL out) (of_side SR out) (untag out) /\
    match e with
    | None => l2 = [] /\ r2 = [] /\ snd a = None /\ snd b = None
    | Some t =>
        (l2 = [] /\ snd a = Some t /\ le_inf t (head_time (r2, snd b)) = true) \/
        (r2 = [] /\ snd b = Some t /\ le_inf t (head_time (l2, snd a)) = true)
    end.
Proof. exact tm_rel_sound. Qed.
Print Assumptions C12_merge_timed.

Theorem C12_merge_check_decides : forall l r el er out e,
  tm_check l r el er out e = true <-> tm_rel (l, el) (r, er) out e.
Proof.
  intros. split; [exact (tm_check_sound out l r el er e)|].
  intros H. exact (tm_check_complete (l, el) (r, er) out e H).
Qed.
Print Assumptions C12_merge_check_decides.

(** Non-vacuity: a concrete script (items, a non-terminal error, a terminal error followed by
    more items, three failures reaching the cap, a reset, an empty connection) with the
    production policy shape; the trace, the output and the notices are the expected ones. *)
Definition c12_policy : policy := mkPolicy 100 2 350.
Definition c12_script : list conn :=
  [ InitOk 5 [(1, IOk 1); (0, IErrOther 7); (2, IOk 2); (3, IErrTerminal); (0, IOk 3)] 9;
    InitFail 1; InitFail 0; InitFail 0;
    InitOk 0 [(4, IOk 4)] 6;
    InitFail 2;
    InitOk 0 [] 0 ].
Example C12_nonvacuous :
  p_initial c12_policy <= p_max c12_policy /\
  p_max c12_policy * p_mult c12_policy < 2 ^ 64 /\
  stream_trace c12_policy 9 c12_script =
    [ (0, TAttempt); (6, TItem 1); (6, TErr 7); (8, TItem 2); (11, TNotice 9);
      (11, TAttempt); (112, TAttempt); (312, TAttempt); (662, TAttempt);
      (666, TItem 4); (672, TNotice 9);
      (672, TAttempt); (774, TAttempt); (774, TNotice 9); (774, TAttempt) ] /\
  split_notices (outputs (stream_trace c12_policy 9 c12_script)) =
    ([[TItem 1; TErr 7; TItem 2]; [TItem 4]; []], []) /\
  reconnecting c12_policy 9 true (FwdClose 3) c12_script =
    RStream [ (0, TAttempt); (6, TItem 1); (6, THandled 7); (8, TItem 2); (11, TNotice 9);
              (11, TAttempt); (112, TAttempt); (312, TAttempt); (662, TAttempt) ] (Some 666) /\
  merge_rel [1; 2; 3] [10; 20] [1; 10; 2; 20] /\
  tm_rel ([(1, 1); (5, 2)], Some 9) ([(5, 10); (20, 20)], None)
         [(1, SL, 1); (5, SR, 10); (5, SL, 2)] (Some 9).
Proof.
  split; [vm_compute; discriminate|]. split; [reflexivity|].
  split; [vm_compute; reflexivity|]. split; [vm_compute; reflexivity|].
  split; [vm_compute; reflexivity|].
  split; [repeat constructor|].
  apply tm_check_sound. vm_compute. reflexivity.
Qed.

(** The correspondence oracle is no stricter than the model: whenever the observed behaviour of
    the implementation equals the model's (for merge: is in the model relation), the property
    oracle [prop_b] accepts it. So an oracle failure always exhibits a genuine difference between
    the implementation and the model these theorems are about. *)
From BV Require Import Corr.C12 Proofs.CorrC12.
Theorem C12_oracle_no_stricter_than_model : forall c, corr_b c = true -> prop_b c = true.
Proof. exact corr_implies_prop. Qed.
Print Assumptions C12_oracle_no_stricter_than_model.
