(** Statements of the C12 theorems spelled out again, so that a theorem cannot be silently
    weakened: this file stops compiling if a statement in Props/C12.v changes. *)
From Coq Require Import List NArith Bool Permutation.
From BV Require Import Model.Reconnect Proofs.Reconnect Corr.C12 Props.C12.
Import ListNotations.
Local Open Scope N_scope.

Check C12_items_once_in_order : forall pol o s cur now,
  outputs (run pol o cur now s) = flat_map (conn_spec o) s /\
  outputs (stream_trace pol o s) = flat_map (conn_spec o) s.
Check C12_one_notice_per_connection : forall pol o s,
  split_notices (outputs (stream_trace pol o s)) = (map delivered (ok_conns s), []) /\
  (forall items o', ~ In (TNotice o') (delivered items)).
Check C12_terminal_ends_nonterminal_passes : forall pre d post e,
  Forall non_terminal pre ->
  delivered (pre ++ (d, IErrTerminal) :: post) = map ev_of_item (map snd pre) /\
  delivered (pre ++ (d, IErrOther e) :: post) =
    map ev_of_item (map snd pre) ++ TErr e :: delivered post /\
  delivered pre = map ev_of_item (map snd pre) /\
  ~ In TErrTerminal (delivered (pre ++ post)).
Check C12_error_handler : forall pol o s,
  outputs (handle_errors (stream_trace pol o s)) =
    filter (fun e => negb (is_err e)) (flat_map (conn_spec o) s) /\
  handled (handle_errors (stream_trace pol o s)) =
    map handle_ev (filter is_err (flat_map (conn_spec o) s)).
Check C12_failed_attempts_deliver_nothing : forall pol o cur now,
  (forall lats, Forall (fun p => snd p = TAttempt) (run pol o cur now (map InitFail lats))) /\
  (forall s, length (attempt_times (run pol o cur now s)) = length s).
Check C12_backoff_waits : forall pol o now lats rest,
  run pol o (p_initial pol) now (map InitFail lats ++ rest) =
  fail_attempts pol 0 now lats ++
  run pol o (wait pol (length lats)) (now + sumN lats + sum_waits pol (length lats)) rest.
Check C12_backoff_resets_on_success : forall pol o cur now lat items tail rest,
  run pol o cur now (InitOk lat items tail :: rest) =
  (now, TAttempt) :: conn_trace o (now + lat) items tail ++
  run pol o (p_initial pol) (conn_end (now + lat) items tail) rest.
Check C12_wait_closed_form : forall pol k,
  multiply_backoff pol (wait pol k) = wait pol (S k) /\
  wait pol 0 = p_initial pol /\
  (p_initial pol <= p_max pol ->
     wait pol k = N.min (p_initial pol * p_mult pol ^ N.of_nat k) (p_max pol) /\
     wait pol k <= p_max pol /\
     (1 <= p_mult pol -> wait pol k <= wait pol (S k)) /\
     (p_max pol * p_mult pol < 2 ^ 64 -> p_max pol < 2 ^ 64 ->
        wait pol k * p_mult pol < 2 ^ 64 /\ wait pol k < 2 ^ 64)).
Check C12_never_ends_by_itself : forall pol o s1 s2,
  Prefix (stream_trace pol o s1) (stream_trace pol o (s1 ++ s2)) /\
  mono 0 (stream_trace pol o s1) /\
  (forall lat items tail h,
     exists tr, reconnecting pol o h FwdNone (InitOk lat items tail :: s1) = RStream tr None).
Check C12_forward_to : forall tr k,
  outputs (fst (forward_to k tr)) = firstn k (outputs tr) /\
  Prefix (fst (forward_to k tr)) tr /\
  (snd (forward_to k tr) = None <-> (length (outputs tr) <= k)%nat).
Check C12_merge_sound : forall A (l r o : list A),
  merge_rel l r o <->
  exists l1 l2 r1 r2, l = l1 ++ l2 /\ r = r1 ++ r2 /\ interleave l1 r1 o /\ (l2 = [] \/ r2 = []).
Check C12_interleave_preserves_order : forall A (l r o : list A),
  interleave l r o -> subseq l o /\ subseq r o /\ Permutation (l ++ r) o.
Check C12_merge_timed : forall a b out e,
  tm_rel a b out e ->
  exists l2 r2,
    fst a = of_side SL out ++ l2 /\ fst b = of_side SR out ++ r2 /\
    interleave (of_side SL out) (of_side SR out) (untag out) /\
    match e with
    | None => l2 = [] /\ r2 = [] /\ snd a = None /\ snd b = None
    | Some t =>
        (l2 = [] /\ snd a = Some t /\ le_inf t (head_time (r2, snd b)) = true) \/
        (r2 = [] /\ snd b = Some t /\ le_inf t (head_time (l2, snd a)) = true)
    end.
Check C12_merge_check_decides : forall l r el er out e,
  tm_check l r el er out e = true <-> tm_rel (l, el) (r, er) out e.
Check C12_oracle_no_stricter_than_model : forall c, corr_b c = true -> prop_b c = true.

(* the definitions the statements rest on, pinned by evaluation *)
Check eq_refl : conn_spec 4 (InitFail 3) = [].
Check eq_refl : conn_spec 4 (InitOk 1 [(0, IOk 1); (2, IErrOther 5); (0, IErrTerminal); (0, IOk 2)] 3)
                = [TItem 1; TErr 5; TNotice 4].
Check eq_refl : take_until_terminal [IOk 1; IErrOther 2; IErrTerminal; IOk 3] = [IOk 1; IErrOther 2].
Check eq_refl : multiply_backoff (mkPolicy 100 2 350) 200 = 350.
Check eq_refl : multiply_backoff (mkPolicy 100 2 350) 100 = 200.
Check eq_refl : reset_backoff (mkPolicy 100 2 350) 350 = 100.
Check eq_refl : map (wait (mkPolicy 100 2 350)) [0; 1; 2; 3]%nat = [100; 200; 350; 350].
Check eq_refl : map (wait (mkPolicy 500 2 100)) [0; 1; 2]%nat = [500; 100; 100].
Check eq_refl : map (wait (mkPolicy 100 0 350)) [0; 1; 2]%nat = [100; 0; 0].
Check eq_refl : sum_waits (mkPolicy 100 2 350) 3 = 650.
Check eq_refl : run (mkPolicy 10 3 50) 7 10 100 [InitFail 1; InitFail 2; InitOk 3 [(4, IOk 9)] 5]
                = [(100, TAttempt); (111, TAttempt); (143, TAttempt); (150, TItem 9); (155, TNotice 7)].
Check eq_refl : stream_trace (mkPolicy 10 3 50) 7 [InitOk 0 [] 2; InitFail 1]
                = [(0, TAttempt); (2, TNotice 7); (2, TAttempt); (13, TAttempt)].
Check eq_refl : reconnecting (mkPolicy 10 3 50) 7 false FwdNone [InitFail 6; InitOk 0 [] 0] = RInitErr 6.
Check eq_refl : split_notices [TItem 1; TNotice 0; TNotice 0; TItem 2] = ([[TItem 1]; []], [TItem 2]).
Check eq_refl : outputs [(0, TAttempt); (1, TItem 1); (1, THandled 3); (2, TErr 4); (3, TNotice 0)]
                = [TItem 1; TErr 4; TNotice 0].
Check eq_refl : handle_errors [(1, TErr 4); (2, TItem 1)] = [(1, THandled 4); (2, TItem 1)].
Check eq_refl : forward_to 1 [(0, TAttempt); (1, TItem 1); (2, THandled 3); (5, TNotice 0); (6, TItem 2)]
                = ([(0, TAttempt); (1, TItem 1); (2, THandled 3)], Some 5).
Check eq_refl : abs_items 0 [(1, 7); (0, 8); (4, 9)] = [(1, 7); (1, 8); (5, 9)].
Check eq_refl : abs_end (mkDStream [(1, 7); (4, 9)] (Some 2)) = Some 7.
Check eq_refl : tm_check [(1, 1)] [(1, 2)] (Some 1) None [(1, SR, 2); (1, SL, 1)] (Some 1) = true.
Check eq_refl : tm_check [(1, 1)] [(2, 2)] (Some 1) None [(1, SL, 1); (2, SR, 2)] (Some 1) = false.
Check eq_refl : tm_check [(1, 1)] [(2, 2)] (Some 3) None [(1, SL, 1)] (Some 3) = false.
