(** Statements of the C02 theorems spelled out again, so that a theorem cannot be silently
    weakened: this file stops compiling if a statement in Props/C02.v changes. *)
From Coq Require Import Qcanon Qcabs.
From BV Require Import Model.Position Proofs.Position Props.C02.
Open Scope Qc_scope.

Check C02_net_quantity : forall i fs, Forall (valid_fill i) fs ->
  match fst (prun fs) with
  | None => net fs = 0
  | Some p => 0 < p_qty p /\ p_qty p = Qcabs (net fs) /\
              (p_side p = Buy <-> 0 < net fs) /\ (p_side p = Sell <-> net fs < 0)
  end.
Check C02_exit_iff_cross : forall i fs f, Forall (valid_fill i) fs -> valid_fill i f ->
  (crosses (net fs) (sq_fill f) ->
     exists x, snd (prun (fs ++ [f])) = (snd (prun fs) ++ [x])%list) /\
  (~ crosses (net fs) (sq_fill f) -> snd (prun (fs ++ [f])) = snd (prun fs)) /\
  (crosses_strictly (net fs) (sq_fill f) ->
     fst (prun (fs ++ [f])) =
     Some (pos_of_fill (remainder_fill f (Qcabs (net fs + sq_fill f))))) /\
  (net fs = 0 -> fst (prun (fs ++ [f])) = Some (pos_of_fill f)).
Check C02_cash_conservation : forall i fs, Forall (valid_fill i) fs ->
  sum_x_pnl (snd (prun fs)) + pnlr_pm (fst (prun fs)) =
  proceeds fs - cost fs - total_fees fs + sq_pm (fst (prun fs)) * avg_pm (fst (prun fs)).
Check C02_fee_conservation : forall i fs, Forall (valid_fill i) fs ->
  sum_x_fees (snd (prun fs)) + fees_pm (fst (prun fs)) = total_fees fs.
Check C02_trade_ids : forall i fs, Forall (valid_fill i) fs ->
  (flat_map x_trades (snd (prun fs)) ++ trades_pm (fst (prun fs)))%list = expected_ids 0 fs.
Check C02_every_fill_recorded : forall i fs f, Forall (valid_fill i) fs -> In f fs ->
  In (f_id f) (flat_map x_trades (snd (prun fs)) ++ trades_pm (fst (prun fs)))%list.
Check C02_trade_ids_step : forall i fs f, Forall (valid_fill i) fs -> valid_fill i f ->
  let s := prun fs in let s' := prun (fs ++ [f]) in
  match fst s with
  | None => snd s' = snd s /\ trades_pm (fst s') = [f_id f]%list
  | Some p =>
      (exists x, snd s' = (snd s ++ [x])%list /\ x_trades x = (p_trades p ++ [f_id f])%list /\
                 (fst s' = None \/ trades_pm (fst s') = [f_id f]%list)) \/
      (snd s' = snd s /\ trades_pm (fst s') = (p_trades p ++ [f_id f])%list)
  end.

Check C02_oracle_sound : forall c,
  Corr.C02.wf_case c = true -> Corr.C02.corr_b c = true -> Corr.C02.prop_b c = true.

Check C02_restore_invariant : forall ops, prun_r ops = prun (fills_of_ops ops).
Check eq_refl : pstep_r = fun s o => match o with PFill f => pstep s f | PRestore => s end.

Check C02_rejected_fill_noop : forall p xs f, f_inst f <> p_inst p ->
  pm_update (Some p) f = (Some p, None) /\ pstep (Some p, xs) f = (Some p, xs).
Check C02_rejected_fill_noop_history : forall i fs g rest,
  Forall (valid_fill i) fs -> fst (prun fs) <> None -> f_inst g <> i ->
  prun (fs ++ g :: rest) = prun (fs ++ rest).

(* the definitions the statements rest on, pinned by evaluation *)
Check eq_refl : valid_fill = fun i f => f_inst f = i /\ 0 < f_qty f.
Check eq_refl : prun = fun fs => fold_left pstep fs (None, []%list).
Check eq_refl : crosses = fun n s => (0 < n /\ n + s <= 0) \/ (n < 0 /\ 0 <= n + s).
Check eq_refl : crosses_strictly = fun n s => (0 < n /\ n + s < 0) \/ (n < 0 /\ 0 < n + s).
Check eq_refl : sq_fill = fun f => match f_side f with Buy => f_qty f | Sell => - f_qty f end.
Check eq_refl : cashflow = fun f =>
  match f_side f with
  | Sell => f_price f * f_qty f - f_fee f
  | Buy => - (f_price f * f_qty f) - f_fee f
  end.
Check eq_refl : remainder_fill = fun f r =>
  mkFill (f_id f) (f_inst f) (f_time f) (f_side f) (f_price f) r (f_fee f * (r / f_qty f)).
Check eq_refl : map this
  [net c02_example; proceeds c02_example; cost c02_example; total_fees c02_example]
  = [(0 # 1)%Q; (960 # 1)%Q; (775 # 1)%Q; (11 # 1)%Q].
(* one flip, by evaluation: long 2 @ 100 (fee 1) then sell 5 @ 130 (fee 5): the long closes with
   2*(130-100) - 1 - 5*(2/5) = 57 and a short of 3 @ 130 opens with entry fee 5*(3/5) = 3 *)
Check eq_refl :
  (let s := prun [mkFill 1 0 1 Buy (qcz 100) (qcz 2) (qcz 1); mkFill 2 0 2 Sell (qcz 130) (qcz 5) (qcz 5)] in
   (option_map (fun p => (p_side p, map this [p_avg p; p_qty p; p_qmax p; p_pnl_u p; p_pnl_r p; p_fin p; p_fout p], p_trades p)) (fst s),
    map (fun x => (x_side x, map this [x_pnl_r x; x_fin x; x_fout x], x_trades x)) (snd s)))
  = (Some (Sell, [(130 # 1)%Q; (3 # 1)%Q; (3 # 1)%Q; (0 # 1)%Q; (-3 # 1)%Q; (3 # 1)%Q; (0 # 1)%Q], (2%N :: nil)%list),
     ((Buy, [(57 # 1)%Q; (1 # 1)%Q; (2 # 1)%Q], [1%N; 2%N]) :: nil)%list).

(* ---- the correspondence oracle, pinned on hand-written observations ---------------------------- *)
From BV Require Corr.C02.
Module PinCorr.
Import Corr.C02.
Local Close Scope Qc_scope.
Local Open Scope Q_scope.
Definition fills := [ mkOF 1 0 1000 Sell 100 4 1; mkOF 2 0 2000 Buy 85 4 0 ]%list.
Definition good_obs := [
  mkOS (Some (mkOP 0 Sell 100 4 4 0 (-1) 1 0 1000 1000 (1%N :: nil))) None;
  mkOS None (Some (mkOX 0 Sell 100 4 59 1 0 1000 2000 [1%N; 2%N])) ]%list.
(* short 4 @ 100 (fee 1) closed at 85: +60 - 1 *)
Check eq_refl : judge (CFills fills good_obs true (Some (1%N, 59)) (mkMeta 0 1 [] true [] true)) = 0%N.
(* same observations when the InstrumentState is a perpetual with contract size 0.001 *)
Check eq_refl : judge (CFills fills good_obs true (Some (1%N, 59)) (mkMeta 1 (1 # 1000) [1%N; 2%N] true (1%N :: nil) true)) = 0%N.
(* a persist / restore round trip that changed the state: rejected *)
Check eq_refl : judge (CFills fills good_obs true (Some (1%N, 59)) (mkMeta 0 1 (1%N :: nil) false [] true)) = 2%N.
(* a fill for another instrument that was not rejected cleanly (state changed): rejected *)
Check eq_refl : judge (CFills fills good_obs true (Some (1%N, 59)) (mkMeta 0 1 [] true (1%N :: nil) false)) = 2%N.
(* realised PnL with the sign of a long: rejected by the oracle *)
Check eq_refl : judge (CFills fills
  [ mkOS (Some (mkOP 0 Sell 100 4 4 0 (-1) 1 0 1000 1000 (1%N :: nil))) None;
    mkOS None (Some (mkOX 0 Sell 100 4 (-61) 1 0 1000 2000 [1%N; 2%N])) ]%list true (Some (1%N, -61)) (mkMeta 0 1 [] true [] true)) = 2%N.
(* no closed record although the net quantity reached zero: rejected *)
Check eq_refl : judge (CFills fills
  [ mkOS (Some (mkOP 0 Sell 100 4 4 0 (-1) 1 0 1000 1000 (1%N :: nil))) None;
    mkOS (Some (mkOP 0 Sell 100 0 4 0 59 1 0 1000 2000 [1%N; 2%N])) None ]%list true (Some (0%N, 0)) (mkMeta 0 1 [] true [] true)) = 2%N.
(* the closing fill's id missing from the closed record: rejected *)
Check eq_refl : judge (CFills fills
  [ mkOS (Some (mkOP 0 Sell 100 4 4 0 (-1) 1 0 1000 1000 (1%N :: nil))) None;
    mkOS None (Some (mkOX 0 Sell 100 4 59 1 0 1000 2000 (1%N :: nil))) ]%list true (Some (1%N, 59)) (mkMeta 0 1 [] true [] true)) = 2%N.
(* the tear sheet did not count the closed record: rejected *)
Check eq_refl : judge (CFills fills good_obs true (Some (0%N, 0)) (mkMeta 0 1 [] true [] true)) = 2%N.
(* model and oracle accept what the model produces on the non-vacuity history *)
Check eq_refl : oracle_accepts_model (CFills
  [ mkOF 1 0 1 Buy 100 2 1; mkOF 2 0 2 Sell 110 1 1; mkOF 3 0 3 Buy 120 1 1; mkOF 4 0 4 Sell 130 5 5;
    mkOF 5 0 5 Buy 90 4 2; mkOF 6 0 6 Buy 95 1 0; mkOF 7 0 7 Sell 100 2 1 ]%list [] true None (mkMeta 0 1 [] true [] true)) = true.
End PinCorr.
