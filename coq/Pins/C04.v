(** Statements of the C04 theorems spelled out again, so that a theorem cannot be silently
    weakened: this file stops compiling if a statement in Props/C04.v changes. *)
From BV Require Import Base.Common Model.Index Model.ExecMap Proofs.Index Proofs.ExecMap Corr.C04 Proofs.CorrC04 Props.C04.

Check C04_built_tables_wf : forall l x, build l = Some x -> indexed_wf x.
Check C04_exchange : forall x e, indexed_wf x ->
  (gen_map x e = None <-> ~ In e (map snd (x_exchanges x))) /\
  (forall m, gen_map x e = Some m ->
     exists ek, m_exchange m = (ek, e) /\ find_exchange (x_exchanges x) ek = Some e /\
       (forall k, find_exchange_id m k = Some e <-> k = ek) /\
       (forall k e', find_exchange_id m k = Some e' -> e' = e) /\
       (forall e' k, find_exchange_ix m e' = Some k <-> e' = e /\ k = ek)).
Check C04_roundtrip_instrument : forall x e m k n, indexed_wf x -> gen_map x e = Some m ->
  find_instrument_name m k = Some n ->
  instrument_owner x k = Some (e, n) /\ find_instrument_ix m n = Some k.
Check C04_roundtrip_asset : forall x e m k n, indexed_wf x -> gen_map x e = Some m ->
  find_asset_name m k = Some n ->
  asset_owner x k = Some (e, n) /\ find_asset_ix m n = Some k.
Check C04_roundtrip_back_instrument : forall x e m k n, indexed_wf x -> gen_map x e = Some m ->
  find_instrument_ix m n = Some k ->
  instrument_owner x k = Some (e, n) /\ find_instrument_name m k = Some n.
Check C04_roundtrip_back_asset : forall x e m k n, indexed_wf x -> gen_map x e = Some m ->
  find_asset_ix m n = Some k ->
  asset_owner x k = Some (e, n) /\ find_asset_name m k = Some n.
Check C04_only_own_instrument : forall x e m k, indexed_wf x -> gen_map x e = Some m ->
  (forall n, instrument_owner x k <> Some (e, n)) -> find_instrument_name m k = None.
Check C04_only_own_asset : forall x e m k, indexed_wf x -> gen_map x e = Some m ->
  (forall n, asset_owner x k <> Some (e, n)) -> find_asset_name m k = None.
Check C04_total_on_own_instrument : forall x e m k n, indexed_wf x -> names_distinct x e ->
  gen_map x e = Some m -> instrument_owner x k = Some (e, n) ->
  find_instrument_name m k = Some n /\ find_instrument_ix m n = Some k.
Check C04_total_on_own_asset : forall x e m k n, indexed_wf x -> names_distinct x e ->
  gen_map x e = Some m -> asset_owner x k = Some (e, n) ->
  find_asset_name m k = Some n /\ find_asset_ix m n = Some k.
Check C04_name_lists : forall x e m, indexed_wf x -> gen_map x e = Some m ->
  (forall n, In n (m_assets m) <-> exists k, asset_owner x k = Some (e, n)) /\
  (forall n, In n (m_instruments m) <-> exists k, instrument_owner x k = Some (e, n)).
Check C04_order_request_sound : forall x e m ek ik tag e' n tag', indexed_wf x -> gen_map x e = Some m ->
  order_request m (ek, ik, tag) = Ok (e', n, tag') ->
  e' = e /\ tag' = tag /\ find_exchange (x_exchanges x) ek = Some e /\ instrument_owner x ik = Some (e, n).
Check C04_order_request_complete : forall x e m ek ik tag n, indexed_wf x -> names_distinct x e ->
  gen_map x e = Some m -> find_exchange (x_exchanges x) ek = Some e ->
  instrument_owner x ik = Some (e, n) -> order_request m (ek, ik, tag) = Ok (e, n, tag).
Check C04_order_request_foreign : forall x e m ek ik tag, indexed_wf x -> gen_map x e = Some m ->
  (find_exchange (x_exchanges x) ek <> Some e \/ forall n, instrument_owner x ik <> Some (e, n)) ->
  exists err, order_request m (ek, ik, tag) = Err err.
Check C04_account_event_sound : forall x e m ev ev', indexed_wf x -> gen_map x e = Some m ->
  account_event m ev = Ok ev' -> back_event x e ev' = Ok ev.
Check C04_account_event_complete : forall x e m ev ev', indexed_wf x -> names_distinct x e ->
  gen_map x e = Some m -> back_event x e ev' = Ok ev -> account_event m ev = Ok ev'.
Check C04_hypothesis_check : forall x e, indexed_wf x -> names_distinct_b x e = true -> names_distinct x e.
Check C04_oracle_sound : forall c, wf_case04 c = true -> corr_b c = true -> prop_b c = true.
(* the definitions the statements rest on, pinned by evaluation *)
Definition pin_x : indexed := mkIndexed [(0, 5); (1, 7)]%N
  [(0, (5, (1, 11))); (1, (7, (1, 12))); (2, (7, (2, 13)))]%N
  [(0, mkInstr (0, 5) 20 30 0 0 KSpot None 0); (1, mkInstr (1, 7) 21 31 1 2 KSpot None 0)]%N.
Check eq_refl : gen_map pin_x 7%N = Some (mkEmap (1, 7) [12; 13] [31] [(12, 1); (13, 2)] [(31, 1)])%N.
Check eq_refl : gen_map pin_x 6%N = None.
Check eq_refl : instrument_owner pin_x 1%N = Some (7, 31)%N.
Check eq_refl : asset_owner pin_x 2%N = Some (7, 13)%N.
Check eq_refl : name_of_index [(12, 1); (13, 2)]%N 2%N = Some 13%N.
Check eq_refl : index_of_name [(12, 1); (13, 2)]%N 12%N = Some 1%N.
Check eq_refl : im_collect N.eqb (map swap_pair [(1, 12); (2, 12)])%N = [(12, 2)]%N.
Check eq_refl : is_collect [12; 13; 12]%N = [12; 13]%N.
Check eq_refl : back_event pin_x 7%N (1, EKTrade (1, 4))%N = Ok (7, EKTrade (31, 4))%N.
Check eq_refl : back_event pin_x 7%N (1, EKTrade (0, 4))%N = Err tt.
Check eq_refl : back_event pin_x 7%N (1, EKBalance (0, 4))%N = Err tt.
Check eq_refl : names_distinct_b pin_x 7%N = true.
Check eq_refl : wf_case04 (CMap [] (Some pin_x) [] []
  [((1, 1, 0), None, None); ((0, 0, 1), None, None); ((0, 1, 2), None, None)])%N = true.
Check eq_refl : wf_case04 (CMap [] (Some pin_x) [] []
  [((0, 1, 2), None, None); ((1, 1, 0), None, None)])%N = false.
