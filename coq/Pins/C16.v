(** Statements of the C16 theorems spelled out again, so that a theorem cannot be silently
    weakened: this file stops compiling if a statement in Props/C16.v changes. *)
From BV Require Import Model.Stats Proofs.Stats Model.TearSheet Proofs.TearSheet.
From BV Require Import Corr.C16 Proofs.CorrC16 Props.C16.
Open Scope Qc_scope.

Check C16_pnl_is_sum : forall ps t,
  sh_pnl (tsg_generate (tsg_run ps (tsg_init t))) = sumQc (map p_pnl ps).
Check C16_win_rate : forall ps t,
  sh_win_rate (tsg_generate (tsg_run ps (tsg_init t))) =
  match ps with
  | [] => None
  | _ => Some (nQc (List.length (filter (fun r => negb (Qcltb r 0)) (map pnl_return ps)))
               / nQc (List.length ps))
  end.
Check C16_profit_factor : forall ps t,
  sh_profit_factor (tsg_generate (tsg_run ps (tsg_init t))) =
  let wins := sumQc (filter (fun r => negb (Qcltb r 0)) (map pnl_return ps)) in
  let losses := sumQc (filter (fun r => Qcltb r 0) (map pnl_return ps)) in
  if Qceqb wins 0 && Qceqb losses 0 then None
  else if Qceqb losses 0 then Some PFMax
  else if Qceqb wins 0 then Some PFMin
  else Some (PFVal (wins / - losses)).
Check C16_profit_factor_sign : forall p l : Qc,
  profit_factor_calc p (- l) = profit_factor_calc p l /\
  profit_factor_calc (- p) l = profit_factor_calc p l /\
  (p <> 0 -> profit_factor_calc p (- p) = Some (PFVal 1)).
Check C16_return_datasets : forall ps t,
  pr_total (g_pr (tsg_run ps (tsg_init t))) = ds_run (map pnl_return ps) /\
  pr_losses (g_pr (tsg_run ps (tsg_init t))) =
    ds_run (filter (fun r => Qcltb r 0) (map pnl_return ps)).
Check C16_summary_per_key : forall ops s s',
  NoDup (map fst (sg_insts s)) -> NoDup (map fst (sg_assets s)) ->
  sgen_run ops s = Some s' ->
  sg_start s' = sg_start s /\
  (forall j, nth_error (sg_insts s') j =
     match nth_error (sg_insts s) j with
     | Some (k, g) => Some (k, fold_left tsg_update (ops_of j k ops) g) | None => None end) /\
  (forall j, nth_error (sg_assets s') j =
     match nth_error (sg_assets s) j with
     | Some (k, a) => Some (k, bal_of j k ops a) | None => None end) /\
  su_insts (sgen_generate s') = map (fun kg => (fst kg, tsg_generate (snd kg))) (sg_insts s') /\
  su_assets (sgen_generate s') = sg_assets s'.
Check C16_summary_frame : forall s i p s',
  sgen_step s (SPosIdx i p) = Some s' ->
  sg_assets s' = sg_assets s /\
  forall j, j <> i -> nth_error (sg_insts s') j = nth_error (sg_insts s) j.
Check C16_init_keeps_index_order : forall start now insts assets,
  NoDup (map fst insts) -> NoDup (map fst assets) ->
  sg_insts (sgen_init start now insts assets) = insts /\
  sg_assets (sgen_init start now insts assets) = assets.

Check C16_oracle_accepts_model : forall (scp : Q) (ps : list pos) (t : Z),
  sheet_ok scp ps (obs_of_sheet (tsg_generate (tsg_run ps (tsg_init t)))) = true.

Check C16_oracle_sound : forall c : case, wf_case c = true -> corr_b c = true -> prop_b c = true.

Check C16_persist_invariant : forall ops g ops' s,
  fold_left tsg_step ops g = tsg_run (some_of ops) g /\
  sgen_run_p ops' s = sgen_run (some_of ops') s.

(* the definitions the statements rest on, pinned by evaluation *)
Definition qq (n : Z) (d : positive) : Qc := Q2Qc (n # d).
Check eq_refl : this (pnl_return (mkPos (qq 50 1) (qq 100 1) (qq 5 1) 0)) = (1 # 10)%Q.
Check eq_refl : is_neg (qq 0 1) = false.
Check eq_refl : is_neg (qq (-1) 100) = true.
Check eq_refl : option_map this (win_rate_calc (qq 3 1) (qq 4 1)) = Some (3 # 4)%Q.
Check eq_refl : win_rate_calc (qq 0 1) (qq 0 1) = None.
Check eq_refl : profit_factor_calc (qq 0 1) (qq 0 1) = None.
Check eq_refl : profit_factor_calc (qq 1 1) (qq 0 1) = Some PFMax.
Check eq_refl : profit_factor_calc (qq 0 1) (qq (-1) 1) = Some PFMin.
Check eq_refl : pf_this (profit_factor_calc (qq 6 1) (qq (-4) 1)) = Some (Some (3 # 2)%Q).
Check eq_refl : ops_of 1 "b" [SPosIdx 0 (mkPos 0 0 0 1); SPosIdx 1 (mkPos 0 0 0 2);
                              SPosName "b" (mkPos 0 0 0 3); SPosName "a" (mkPos 0 0 0 4)]
                = [mkPos 0 0 0 2; mkPos 0 0 0 3].
Check eq_refl : bal_of 0 "x" [SBalIdx 0 (qq 1 1) (qq 1 1) 1; SBalKey "y" (qq 2 1) (qq 2 1) 2] None
                = Some (qq 1 1, qq 1 1).
