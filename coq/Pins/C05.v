(** Statements of the C05 theorems spelled out again, so that a theorem cannot be silently
    weakened: this file stops compiling if a statement in Props/C05.v changes. *)
From BV Require Import Base.Common Model.Book Proofs.Book Corr.C05 Props.C05.

Check C05_refines_map : forall evs b,
  forallb wf_event evs = true -> book_inv b ->
  book_inv (fold_left update evs b) /\
  sbook_eq (abs_book (fold_left update evs b)) (fold_left spec_update evs (abs_book b)).
Check C05_levels_are_the_map : forall s l1 l2,
  strict_sorted s l1 = true -> strict_sorted s l2 = true ->
  (forall p, lookup l1 p = lookup l2 p) -> l1 = l2.
Check C05_upsert_single : forall s l lv p,
  strict_sorted s l = true ->
  strict_sorted s (upsert_single s l lv) = true /\
  lookup (upsert_single s l lv) p = spec_upsert_single (lookup l) lv p.
Check C05_best_and_mid : forall b bp ba ap aa,
  book_inv b ->
  spec_best Bid (lookup (bids b)) bp ba -> spec_best Ask (lookup (asks b)) ap aa ->
  mid_price b = Some ((zq bp + zq ap) / 2)%Q /\
  vw_mid_price b = if Z.eqb (ba + aa) 0 then VwDivZero
                   else VwValue ((zq bp * zq aa + zq ap * zq ba) / zq (ba + aa))%Q.
Check C05_head_is_best : forall s p a tl,
  strict_sorted s ((p, a) :: tl) = true -> spec_best s (lookup ((p, a) :: tl)) p a.
Check C05_snapshot_depth : forall b d,
  book_inv b ->
  book_inv (snapshot b d) /\ bseq (snapshot b d) = bseq b /\ btime (snapshot b d) = btime b /\
  bids (snapshot b d) = firstn d (bids b) /\ asks (snapshot b d) = firstn d (asks b) /\
  (forall p, lookup (bids (snapshot b d)) p =
             if Nat.ltb (rank Bid (bids b) p) d then lookup (bids b) p else None) /\
  (forall p, lookup (asks (snapshot b d)) p =
             if Nat.ltb (rank Ask (asks b) p) d then lookup (asks b) p else None).
Check C05_sequence_is_last : forall evs e b,
  bseq (fold_left update (evs ++ [e]) b) = event_seq e.
Check C05_manager_routes : forall evs bs i d, (i < length bs)%nat ->
  nth i (fold_left mgr_step evs bs) d = fold_left update (route i evs) (nth i bs d).
Check C05_upsert_algebra : forall s l,
  strict_sorted s l = true ->
  (forall p a1 a2,
     upsert_single s (upsert_single s l (p, a1)) (p, a2) = upsert_single s l (p, a2)) /\
  (forall x y, fst x <> fst y ->
     upsert_single s (upsert_single s l x) y = upsert_single s (upsert_single s l y) x) /\
  (forall p, lookup l p = None -> upsert_single s l (p, 0%Z) = l) /\
  (forall p a, lookup l p = None -> upsert_single s (upsert_single s l (p, a)) (p, 0%Z) = l) /\
  (forall lvs1 lvs2,
     (forall p, spec_upsert (lookup l) lvs1 p = spec_upsert (lookup l) lvs2 p) ->
     upsert s l lvs1 = upsert s l lvs2).
Check C05_heartbeat_and_snapshot : forall b b' sq t bs as_,
  (bids (update b (Update sq t [] [])) = bids b /\ asks (update b (Update sq t [] [])) = asks b /\
   bseq (update b (Update sq t [] [])) = sq /\ btime (update b (Update sq t [] [])) = t) /\
  update b (Snapshot sq t bs as_) = update b' (Snapshot sq t bs as_).
Check C05_oracle_sound : forall c, wf_case c = true -> corr_b c = true -> prop_b c = true.
(* the definitions the statements rest on, pinned by evaluation *)
Check eq_refl : upsert_single Bid [(5, 1); (3, 1)]%Z (4, 2)%Z = [(5, 1); (4, 2); (3, 1)]%Z.
Check eq_refl : upsert_single Ask [(3, 1); (5, 1)]%Z (5, 0)%Z = [(3, 1)]%Z.
Check eq_refl : spec_upsert_single pempty (4, 0)%Z 4%Z = None.
Check eq_refl : spec_upsert_single pempty (4, 2)%Z 4%Z = Some 2%Z.
Check eq_refl : strict_sorted Bid [(5, 1); (5, 2)]%Z = false.
Check eq_refl : strict_sorted Ask [(3, 1); (5, 1)]%Z = true.
Check eq_refl : route 1 [(Some 0%nat, Update 1 None [] []); (None, Update 2 None [] []); (Some 1%nat, Update 3 None [] [])]
               = [Update 3 None [] []].
