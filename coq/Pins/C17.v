(** Statements of the C17 theorems spelled out again, so that a theorem cannot be silently
    weakened: this file stops compiling if a statement in Props/C17.v changes. *)
From Coq Require Import Permutation.
From BV Require Import Model.Stats Proofs.Stats Corr.C17 Proofs.CorrC17 Props.C17.
Open Scope Qc_scope.

Check C17_running_equals_batch : forall l,
  s_count (ds_run l) = nQc (length l) /\
  s_sum (ds_run l) = sumQc l /\
  s_mean (ds_run l) = sumQc l / nQc (length l) /\
  d_m (s_disp (ds_run l)) = sumQc (map (fun x => sq (x - sumQc l / nQc (length l))) l) /\
  d_var (s_disp (ds_run l)) =
    sumQc (map (fun x => sq (x - sumQc l / nQc (length l))) l) / nQc (length l).
Check C17_every_prefix : forall l1 l2,
  ds_run (l1 ++ l2) = fold_left ds_update l2 (ds_run l1).
Check C17_range_is_min_max : forall l, l <> [] ->
  r_act (d_range (s_disp (ds_run l))) = true /\
  (In (r_high (d_range (s_disp (ds_run l)))) l /\
   forall x, In x l -> x <= r_high (d_range (s_disp (ds_run l)))) /\
  (In (r_low (d_range (s_disp (ds_run l)))) l /\
   forall x, In x l -> r_low (d_range (s_disp (ds_run l))) <= x).
Check C17_variance_nonneg : forall l,
  0 <= d_var (s_disp (ds_run l)) /\ 0 <= d_m (s_disp (ds_run l)).
Check C17_mean_in_range : forall l, l <> [] ->
  r_low (d_range (s_disp (ds_run l))) <= s_mean (ds_run l) /\
  s_mean (ds_run l) <= r_high (d_range (s_disp (ds_run l))).
Check C17_value_at_mean : forall s : ds,
  s_mean (ds_update s (s_mean s)) = s_mean s /\
  d_m (s_disp (ds_update s (s_mean s))) = d_m (s_disp s) /\
  d_var (s_disp (ds_update s (s_mean s))) = calc_pop_var (d_m (s_disp s)) (s_count s + 1) /\
  s_count (ds_update s (s_mean s)) = s_count s + 1.
Check C17_order_independent : forall l l', Permutation l l' -> ds_run l = ds_run l'.
Check C17_std_dev_determined : forall v s1 s2 : Qc,
  0 <= s1 -> 0 <= s2 -> s1 * s1 = v -> s2 * s2 = v -> s1 = s2.

Check C17_oracle_accepts_model : forall (exact : bool) (sc1 sc2 : Q) (l : list Qc) (sd : Q),
  l <> [] -> (0 <= sd)%Q -> (sd * sd == this (d_var (s_disp (ds_run l))))%Q ->
  batch_ok_gen exact sc1 sc2 l (obs_of_ds (ds_run l) sd) = true.

Check C17_oracle_sound : forall c : case, corr_b c = true -> prop_b c = true.

Check C17_persist_invariant : forall ops s,
  fold_left ds_step ops s = fold_left ds_update (dvals ops) s.
Check eq_refl : dvals [DUpd 0%Qc; DPersist; DUpd 1%Qc] = [0%Qc; 1%Qc].

(* the definitions the statements rest on, pinned by evaluation *)
Definition q (n : Z) (d : positive) : Qc := Q2Qc (n # d).
Check eq_refl : this (calc_mean (q 1 1) (q 4 1) (q 3 1)) = (2 # 1)%Q.
Check eq_refl : this (calc_m (q 1 1) (q 1 1) (q 4 1) (q 2 1)) = (7 # 1)%Q.
Check eq_refl : this (calc_pop_var (q 7 1) (q 2 1)) = (7 # 2)%Q.
Check eq_refl : this (calc_pop_var (q 7 1) (q 1 2)) = (0 # 1)%Q.
Check eq_refl : this (calc_pop_var (q 7 1) (q 1 1)) = (7 # 1)%Q.
Check eq_refl : range_update range_default (q 3 1) = mkRange true (q 3 1) (q 3 1).
Check eq_refl : range_update (mkRange true (q 3 1) (q 1 1)) (q 5 1) = mkRange true (q 5 1) (q 1 1).
Check eq_refl : range_update (mkRange true (q 3 1) (q 1 1)) (q 0 1) = mkRange true (q 3 1) (q 0 1).
Check eq_refl : range_update (mkRange true (q 3 1) (q 1 1)) (q 2 1) = mkRange true (q 3 1) (q 1 1).
Check eq_refl : this (sumQc [q 1 2; q 1 3]) = (5 # 6)%Q.
Check eq_refl : this (nQc 3) = (3 # 1)%Q.
Check eq_refl : this (s_mean (ds_run [q 1 1; q 2 1; q 6 1])) = (3 # 1)%Q.
Check eq_refl : this (d_var (s_disp (ds_run [q 1 1; q 2 1; q 6 1]))) = (14 # 3)%Q.
