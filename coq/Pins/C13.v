(** Statements of the C13 theorems spelled out again, so that a theorem cannot be silently
    weakened: this file stops compiling if a statement in Props/C13.v changes. *)
From Coq Require Import String List ZArith NArith.
From BV Require Import Base.Common Model.SubId Proofs.SubId Corr.C13 Proofs.SubIdOracle Proofs.SubIdL2 Props.C13.
Import ListNotations.
Local Open Scope string_scope.

Check C13_attributed : forall e sk subs confs s m,
  In s subs -> strikes_plain subs -> distinct_venue_symbols e sk subs ->
  msg_about e sk (channel_of e sk (kind_of (snd s))) (venue_symbol e (snd s)) m ->
  exists c sy cid items evs,
    m = MData c sy cid items /\
    transform e sk (transformer_map e sk subs confs) m = OOut (map OEv evs) /\
    Forall2 (event_matches e sk (fst s)) items evs.
Check C13_rejected : forall e sk subs confs k sym m,
  strikes_plain subs ->
  msg_about e sk (channel_of e sk k) sym m ->
  (forall s, In s subs ->
     ~ (channel_of e sk (kind_of (snd s)) = channel_of e sk k /\ venue_symbol e (snd s) = sym)) ->
  transform e sk (transformer_map e sk subs confs) m = OOut [OUnident (sub_id (channel_of e sk k) sym)].
Check C13_never_another : forall e sk subs confs m l ev,
  transform e sk (transformer_map e sk subs confs) m = OOut l -> In (OEv ev) l ->
  e_exch ev = e /\
  exists s, In s subs /\ fst s = e_key ev /\ (e <> Bitfinex -> msg_id e sk m = IdSome (sid e sk s)).
Check C13_bitfinex_attributed : forall sk subs confs s c sy cid items,
  In s subs -> distinct_venue_symbols Bitfinex sk subs ->
  NoDup (map conf_cid confs) -> NoDup (map conf_sid confs) ->
  In ("trades", venue_symbol Bitfinex (snd s), cid) confs ->
  exists evs,
    transform Bitfinex sk (transformer_map Bitfinex sk subs confs) (MData c sy cid items) = OOut (map OEv evs) /\
    Forall2 (event_matches Bitfinex sk (fst s)) items evs.
Check C13_bitfinex_rejected : forall sk subs confs c sy cid items,
  ~ In cid (map conf_cid confs) ->
  transform Bitfinex sk (transformer_map Bitfinex sk subs confs) (MData c sy cid items)
  = OOut [OUnident (dec cid)].
Check C13_market_is_venue_symbol : forall e d,
  strike_plain (kind_of d) -> market_of e d = venue_symbol e d.
Check C13_channel_is_venue_channel : forall e sk k c,
  venue_channel e k = Some c -> channel_of e sk k = c.
Check C13_sub_id_injective : forall e sk k1 k2 m1 m2,
  sub_id (channel_of e sk k1) m1 = sub_id (channel_of e sk k2) m2 ->
  channel_of e sk k1 = channel_of e sk k2 /\ m1 = m2.
Check C13_case_maps : forall a b,
  upper (a ++ b) = upper a ++ upper b /\ lower (a ++ b) = lower a ++ lower b /\
  upper (upper a) = upper a /\ lower (lower a) = lower a /\ upper (lower a) = upper a.
Check C13_oracle_accepts_model : forall e sk subs confs m,
  e <> Bitfinex -> family_of e <> FNone ->
  strikes_plain subs -> msg_ok e sk m = true -> chan_plain m -> bybit_plain e m ->
  msg_prop e sk subs confs m (transform e sk (transformer_map e sk subs confs) m) = true.
Check C13_oracle_accepts_model_bitfinex : forall sk subs confs m,
  bfx_confs_ok confs ->
  msg_prop Bitfinex sk subs confs m (transform Bitfinex sk (transformer_map Bitfinex sk subs confs) m) = true.
Check C13_oracle_sound : forall c, in_domain c = true -> corr_b c = true -> prop_b c = true.
Check eq_refl : bfx_confs_ok = fun confs =>
  NoDup (map conf_cid confs) /\ NoDup (map conf_sid confs) /\ forall c, In c confs -> fst (fst c) = "trades".
Check eq_refl : in_domain = fun c =>
  (wf_case c &&
   forallb (fun s => strike_plain_b (kind_of (snd s))) (c_subs c) &&
   forallb (fun mo => msg_plain_b (c_exch c) (fst mo)) (c_msgs c) &&
   confs_ok_b (c_exch c) (c_subs c) (c_confs c))%bool.
Check C13_builder_accepts_exactly_supported : forall e k sk,
  supports_triple e k sk = (routed_pair e sk && venue_serves e k)%bool.
Check C13_typed_validation_accepts_served : forall e k,
  venue_serves e k = true -> supports_kind e k = true.
Check C13_support_oracle_sound :
  (forall t, triple_corr t = true -> triple_prop t = true) /\
  (forall b, batch_corr b = true -> batch_prop b = true).
Check eq_refl : routed_pair Okx SKPublicTrades = true.
Check eq_refl : routed_pair Okx SKOrderBooksL1 = false.
Check eq_refl : routed_pair BinanceFuturesUsd SKLiquidations = true.
Check eq_refl : routed_pair ExOther SKPublicTrades = false.
Check eq_refl : venue_serves GateioOptions KSpot = false.
Check eq_refl : supports_triple Kraken KSpot SKOrderBooksL1 = true.
Check C13_l2_attributed : forall e subs snaps t s l m,
  In s subs -> strikes_plain subs -> distinct_l2_symbols e subs ->
  l2_init e subs snaps = Some t ->
  snap_of snaps (fst s) = Some (fst s, l) ->
  l_sym m = venue_symbol e (snd s) ->
  first_update_valid e l m = true ->
  snd (l2_transform e t m) = L2Out [l2_event e (fst s) m].
Check C13_l2_rejected : forall e subs snaps t m,
  strikes_plain subs -> l2_init e subs snaps = Some t ->
  (forall s, In s subs -> venue_symbol e (snd s) <> l_sym m) ->
  l2_transform e t m = (t, L2Out [L2Unident (sub_id l2_channel (l_sym m))]).
Check C13_l2_never_another : forall e subs snaps t ms,
  l2_init e subs snaps = Some t ->
  Forall2 (fun m o => forall l k ex te sq ten bs as_, o = L2Out l -> In (L2Ev k ex te sq ten bs as_) l ->
             ex = e /\ exists s, In s subs /\ fst s = k /\ l2_sid e s = sub_id l2_channel (l_sym m))
          ms (l2_run e t ms).
Check eq_refl : l2_channel = "@depth@100ms".
Check eq_refl : first_update_valid BinanceSpot 100 (mkL2 "BTCUSDT" 99 101 0 0 0 [] []) = true.
Check eq_refl : first_update_valid BinanceSpot 100 (mkL2 "BTCUSDT" 99 100 0 0 0 [] []) = false.
Check eq_refl : first_update_valid BinanceFuturesUsd 100 (mkL2 "BTCUSDT" 99 100 0 0 0 [] []) = true.

(* the definitions the statements rest on, spelled out / pinned by evaluation *)
Check eq_refl : distinct_venue_symbols = fun e sk subs =>
  forall s1 s2, In s1 subs -> In s2 subs ->
    channel_of e sk (kind_of (snd s1)) = channel_of e sk (kind_of (snd s2)) ->
    venue_symbol e (snd s1) = venue_symbol e (snd s2) -> fst s1 = fst s2.
Check eq_refl : strike_plain = fun k => match k with KOption _ _ strike => upper strike = strike | _ => True end.
Check eq_refl : event_matches = fun e sk k it ev =>
  e_key ev = k /\ e_exch ev = e /\ e_time ev = i_time it /\
  match sk, e_body ev with
  | PublicTrades, BTrade id p a sd =>
      id = i_id it /\ p = i_price it /\ sd = i_side it /\
      (a = i_amount it \/ (sd = Sell /\ a = (- i_amount it)%Z))
  | OrderBooksL1, BL1 t bid ask =>
      t = i_time it /\ bid = level_of (i_price it) (i_amount it) /\ ask = level_of (i_price2 it) (i_amount2 it)
  | Liquidations, BLiq sd p q t =>
      sd = i_side it /\ p = i_price it /\ q = i_amount it /\ t = i_time it
  | _, _ => False
  end.
Check eq_refl : msg_about Okx PublicTrades "trades" "BTC-USDT" (MData "trades" "BTC-USDT" 0 []) = ("trades" = "trades" /\ "BTC-USDT" = "BTC-USDT").
Check eq_refl : msg_about Bitmex PublicTrades "trade" "XBTUSD" (MData "trade" "" 0 []) = ("trade" = "trade" /\ None = Some "XBTUSD").
Check eq_refl : msg_about Bitfinex PublicTrades "trades" "tBTCUSD" (MData "" "" 5 []) = False.
Check eq_refl : sub_id "trade" "XBT/USD" = "trade|XBT/USD".
Check eq_refl : upper "xbt/usd1" = "XBT/USD1".
Check eq_refl : lower "XbT-Usd" = "xbt-usd".
Check eq_refl : dec 420191 = "420191".
Check eq_refl : venue_symbol Kraken (IPair "xbt" "usd" KSpot) = "XBT/USD".
Check eq_refl : venue_symbol BinanceSpot (IPair "Btc" "usdt" KSpot) = "BTCUSDT".
Check eq_refl : venue_symbol Bitfinex (IPair "btc" "usd" KSpot) = "tBTCUSD".
Check eq_refl : venue_symbol Coinbase (IPair "btc" "usd" KSpot) = "BTC-USD".
Check eq_refl : venue_symbol GateioSpot (IPair "gt" "usdt" KSpot) = "GT_USDT".
Check eq_refl : venue_symbol GateioFuturesUsd (IPair "eth" "usdt" (KFuture 1608883200000)) = "ETH_USDT_QUARTERLY_20201225".
Check eq_refl : venue_symbol Okx (IPair "btc" "usd" (KOption Call 1703836800000 "35000")) = "BTC-USD-231229-35000-C".
Check eq_refl : venue_symbol Okx (IPair "btc" "usd" (KFuture 1735545600000)) = "BTC-USD-241230".
Check eq_refl : venue_symbol Okx (IPair "btc" "usdt" KPerp) = "BTC-USDT-SWAP".
Check eq_refl : venue_channel GateioPerpetualsUsd KPerp = Some "futures.trades".
Check eq_refl : venue_channel Kraken KSpot = None.
Check eq_refl : civil 19722 = (2023, 12, 31)%Z.
Check eq_refl : civil 19782 = (2024, 2, 29)%Z.
