(** Statements of the C08 theorems spelled out again, so that a theorem cannot be silently
    weakened: this file stops compiling if a statement in Props/C08.v changes. *)
From Coq Require Import Sorted.
From BV Require Import Base.Common Model.MockExchange Proofs.MockExchange Corr.C08 Props.C08.

Local Open Scope Qc_scope.

Check C08_accept_iff_funds : forall cfg st req, wf_state cfg st = true ->
  exists st' res n, open_order cfg st req = ODone st' res n /\
    (accepted res = true <->
       exists a b, spec_spent cfg req = Some a /\ lookup (s_bals st) a = Some b /\
                   spec_need (c_fee cfg) req <= b_free b).
Check C08_panics_exactly_outside_guard : forall cfg st req,
  (open_order cfg st req = OPanicNoBalance <->
     exists a, spec_spent cfg req = Some a /\ lookup (s_bals st) a = None) /\
  (open_order cfg st req = OPanicTotalFree <->
     exists a b, spec_spent cfg req = Some a /\ lookup (s_bals st) a = Some b /\ b_total b <> b_free b) /\
  (wf_state cfg st = true -> exists st' res n, open_order cfg st req = ODone st' res n).
Check C08_debit_exact : forall cfg st req st' id t filled n,
  open_order cfg st req = ODone st' (ROpen id t filled) n ->
  exists a b, spec_spent cfg req = Some a /\ lookup (s_bals st) a = Some b /\
    let nb := b_free b - spec_need (c_fee cfg) req in
    lookup (s_bals st') a = Some (mkBal nb nb (s_now st)) /\
    (forall x, x <> a -> lookup (s_bals st') x = lookup (s_bals st) x) /\
    map fst (s_bals st') = map fst (s_bals st) /\
    s_seq st' = N.succ (s_seq st) /\ s_now st' = s_now st /\ s_trades st' = s_trades st /\
    s_open st' = s_open st /\ s_canc st' = s_canc st.
Check C08_reject_frame : forall cfg st req st' e n,
  open_order cfg st req = ODone st' (RErr e) n ->
  st' = st /\ n = None /\
  ((e = EKind /\ r_kind req = Limit) \/
   (e = EInstr (r_instr req) /\ r_kind req = Market /\ lookup (c_instruments cfg) (r_instr req) = None) \/
   (exists a b, e = EFunds a /\ spec_spent cfg req = Some a /\ lookup (s_bals st) a = Some b /\
                b_free b < spec_need (c_fee cfg) req)).
Check C08_nonneg_inv : forall cfg,
  (forall ops st, Nonneg st -> Nonneg (fold_left (dstep cfg) ops st)) /\
  (forall reqs st, Nonneg st -> Nonneg (fold_left (step_open cfg) reqs st)) /\
  (forall rqs st st' out, Nonneg st -> run cfg (Some st) rqs = (Some st', out) -> Nonneg st').
Check C08_guard_invariant : forall cfg,
  (forall ops st, wf_state cfg st = true -> wf_state cfg (fold_left (dstep cfg) ops st) = true) /\
  (forall rqs st, wf_state cfg st = true ->
     exists st' out, run cfg (Some st) rqs = (Some st', out) /\ wf_state cfg st' = true).
Check C08_ids_fresh : forall cfg reqs st,
  let ids := accepted_ids (trace cfg st reqs) in
  ids = seqN (s_seq st) (length ids) /\ StronglySorted N.lt ids /\ NoDup ids /\
  Forall ids_agree (trace cfg st reqs) /\
  s_seq (fold_left (step_open cfg) reqs st) = (s_seq st + N.of_nat (length ids))%N.
Check C08_fees_formula : forall cfg st req st' res n,
  open_order cfg st req = ODone st' res (Some n) ->
  exists a b, spec_spent cfg req = Some a /\ lookup (s_bals st) a = Some b /\
    spec_need (c_fee cfg) req <= b_free b /\
    let nb := b_free b - spec_need (c_fee cfg) req in
    res = ROpen (s_seq st) (s_now st) (r_qty req) /\
    n = mkNotif a (mkBal nb nb (s_now st))
          (mkTrade (s_seq st) (s_seq st) (r_instr req) (r_strategy req) (s_now st) (r_side req)
                   (r_price req) (r_qty req) (c_fee cfg * r_price req * qabs (r_qty req))) /\
    st' = debited st a nb.
Check C08_notification_iff_accepted : forall cfg st req st' res n,
  open_order cfg st req = ODone st' res n -> (accepted res = true <-> n <> None).
Check C08_notifications : forall cfg rqs ost ost' out,
  run cfg ost rqs = (ost', out) ->
  length out = length rqs /\
  length (filter is_ev_balance (flat_map snd out)) = length (filter resp_accepted (map fst out)) /\
  length (filter is_ev_trade (flat_map snd out)) = length (filter resp_accepted (map fst out)) /\
  Forall (fun re => if resp_accepted (fst re)
                    then exists a b t, snd re = [EvBalance a b; EvTrade t]
                    else snd re = []) out /\
  (forall st st', ost = Some st -> ost' = Some st' ->
     s_trades st' = s_trades st ++ ev_trades (flat_map snd out)).
Check C08_notifications_independent_of_response_delivery : forall cfg brqs ost,
  fst (run_b cfg ost brqs) = fst (run cfg ost (map fst brqs)) /\
  map snd (snd (run_b cfg ost brqs)) = map snd (snd (run cfg ost (map fst brqs))) /\
  map fst (snd (run_b cfg ost brqs)) =
    map (fun x : (rrequest * bool) * (rresp * list event) => mask (snd (fst x)) (fst (snd x)))
        (combine brqs (snd (run cfg ost (map fst brqs)))).
Check C08_ledger_independent_of_subscribers : forall cfg srqs ost,
  fst (run_s cfg ost srqs) = fst (run cfg ost (map fst srqs)) /\
  map fst (snd (run_s cfg ost srqs)) = map fst (snd (run cfg ost (map fst srqs))) /\
  map snd (snd (run_s cfg ost srqs)) =
    map (fun x : (rrequest * bool) * (rresp * list event) =>
           if snd (fst x) then snd (snd x) else [])
        (combine srqs (snd (run cfg ost (map fst srqs)))).
Check C08_queries : forall cfg st t,
  let st1 := tick cfg st t in
  run_request cfg (Some st) (mkRq t KSnapshot) = (Some st1, PSnapshot (s_bals st1) (s_open st1) (s_canc st1), []) /\
  run_request cfg (Some st) (mkRq t KBalances) = (Some st1, PBalances (s_bals st1), []) /\
  (forall since, run_request cfg (Some st) (mkRq t (KTrades since)) =
     (Some st1, PTrades (filter (fun x => Z.leb since (t_time x)) (s_trades st)), [])) /\
  (forall a, option_map b_free (lookup (s_bals st1) a) = abs_ledger st a) /\
  (forall a, option_map b_total (lookup (s_bals st1) a) = option_map b_total (lookup (s_bals st) a)) /\
  map fst (s_bals st1) = map fst (s_bals st).
Check C08_refines_ledger : forall cfg,
  (forall reqs st, wf_state cfg st = true ->
     map (fun rn => accepted (fst rn)) (trace cfg st reqs) = spec_decisions cfg (abs_ledger st) reqs /\
     forall a, abs_ledger (fold_left (step_open cfg) reqs st) a =
               fold_left (spec_step cfg) reqs (abs_ledger st) a) /\
  (forall rqs st, wf_state cfg st = true ->
     exists st' out, run cfg (Some st) rqs = (Some st', out) /\
       map resp_accepted (filter (fun p => match p with POpen _ => true | _ => false end) (map fst out))
         = spec_decisions cfg (abs_ledger st) (opens_of rqs) /\
       forall a, abs_ledger st' a = fold_left (spec_step cfg) (opens_of rqs) (abs_ledger st) a).
Check C08_ledger_sum : forall cfg reqs led a,
  fold_left (spec_step cfg) reqs led a = option_map (fun v => v - spec_debits cfg led reqs a) (led a) /\
  (0 <= c_fee cfg -> Forall (fun r => 0 <= r_price r) reqs -> 0 <= spec_debits cfg led reqs a).
Check C08_instrument_kind_irrelevant : forall cfg ks,
  (forall st req, open_order (with_kinds cfg ks) st req = open_order cfg st req) /\
  (forall ost rq, run_request (with_kinds cfg ks) ost rq = run_request cfg ost rq) /\
  (forall rqs ost, run (with_kinds cfg ks) ost rqs = run cfg ost rqs) /\
  (forall req, spec_spent (with_kinds cfg ks) req = spec_spent cfg req) /\
  (forall led req, spec_accepts (with_kinds cfg ks) led req = spec_accepts cfg led req).
Check C08_abs_quantity : forall f req,
  required f req = spec_need f req /\ fees_quote f req = spec_fees f req /\
  (0 <= r_qty req -> qabs (r_qty req) = r_qty req).
Check C08_oracle_no_stricter_than_model : forall c,
  in_domain c = true -> corr_b c = true -> prop_b c = true.

(* the definitions the statements rest on, pinned by evaluation (amounts shown as reduced
   fractions) *)
Definition pin_req (s : side) : request := mkReq 0 0 1 s (qc 100 0) (qc (-25) 1) Market 0.
Check eq_refl : this (spec_need (qc 1 2) (pin_req Buy)) = 505 # 2.        (* 100 x 2.5 x 1.01 *)
Check eq_refl : this (spec_need (qc 1 2) (pin_req Sell)) = 101 # 40.      (* 2.5 x 1.01 *)
Check eq_refl : this (spec_fees (qc 1 2) (pin_req Sell)) = 5 # 2.         (* 1 % x 100 x 2.5 *)
Check eq_refl : this (required (qc 1 2) (pin_req Buy)) = 505 # 2.
Check eq_refl : this (fees_quote (qc 1 2) (pin_req Sell)) = 5 # 2.
Check eq_refl : spec_spent (mkCfg [(0, (3, 4))]%N (qc 0 0) 0 []) (pin_req Buy) = Some 4%N.    (* quote *)
Check eq_refl : spec_spent (mkCfg [(0, (3, 4))]%N (qc 0 0) 0 []) (pin_req Sell) = Some 3%N.   (* base *)
Check eq_refl : spec_spent (mkCfg [(5, (3, 4))]%N (qc 0 0) 0 []) (pin_req Sell) = None.
Check eq_refl : spec_spent (mkCfg [(0, (3, 4))]%N (qc 0 0) 0 [])
                  (mkReq 0 0 1 Buy (qc 1 0) (qc 1 0) Limit 0) = None.
Definition pin_st (total free : Qc) : state := mkState [(3%N, mkBal total free 0)] 0 0 [] [] [].
Check eq_refl : wf_state (mkCfg [(0, (3, 3))]%N (qc 0 0) 0 []) (pin_st (qc 1 0) (qc 1 0)) = true.
Check eq_refl : wf_state (mkCfg [(0, (3, 3))]%N (qc 0 0) 0 []) (pin_st (qc 2 0) (qc 1 0)) = false.
Check eq_refl : wf_state (mkCfg [(0, (3, 4))]%N (qc 0 0) 0 []) (pin_st (qc 1 0) (qc 1 0)) = false.
Check eq_refl : spec_accepts (mkCfg [(0, (3, 4))]%N (qc 1 2) 0 [])
                  (abs_ledger (pin_st (qc 2525 3) (qc 2525 3))) (pin_req Sell) = true.   (* need = balance *)
Check eq_refl : spec_accepts (mkCfg [(0, (3, 4))]%N (qc 1 2) 0 [])
                  (abs_ledger (pin_st (qc 2524 3) (qc 2524 3))) (pin_req Sell) = false.
Check eq_refl : awaited (mkCfg [] (qc 0 0) 10 []) (BGiveUp 9) = false.
Check eq_refl : awaited (mkCfg [] (qc 0 0) 10 []) (BGiveUp 10) = true.
Check eq_refl : awaited (mkCfg [] (qc 0 0) 10 []) BDrop = false.
Check eq_refl : mask false POffline = None.
Check eq_refl : seqN 7 3 = [7; 8; 9]%N.
Check eq_refl : accepted (ROpen 0 0 (qc 0 0)) = true.
Check eq_refl : accepted (RErr EKind) = false.
