(** Statements of the C19 theorems spelled out again, so that a theorem cannot be silently
    weakened: this file stops compiling if a statement in Props/C19.v changes. *)
From Coq Require Import List ZArith NArith Bool.
From BV Require Import Model.Engine Proofs.Engine Props.C19.
From BV Require Corr.EngineCase Corr.C19 Proofs.OracleC19.
Import ListNotations.
Local Open Scope N_scope.

Check C19_filter_scope : forall f is_ i x,
  (In (i, x) (filtered f is_) <->
   nthN is_ i = Some x /\
   match f with
   | FNone => True
   | FExchanges l => In (i_ex x) l
   | FInstruments l => In i l
   | FUnderlyings l => In (i_base x, i_quote x) l
   end) /\
  NoDup (map fst (filtered f is_)).

Check C19_cancel_scope : forall s f,
  state_wf s = true ->
  (forall r, In r (cancel_requests f (insts s)) <->
     exists i x c o, nthN (insts s) i = Some x /\ filter_match f i x = true /\
                     oget (i_orders x) c = Some o /\ not_cif o = true /\ r = cancel_of_order o) /\
  NoDup (cancel_requests f (insts s)).

Check C19_cancel_command : forall cs s f,
  let rq := cancel_requests f (insts s) in
  snd (action cs s (CCancelOrders f)) =
  AOCancel (mkSendOut (spec_sent cr_ex (links s) rq) (spec_errs cr_ex (links s) rq)).

Check C19_close_scope : forall strat gen s f,
  fst (default_close strat gen s f) = [] /\
  (forall r, In r (snd (default_close strat gen s f)) <->
     exists i x p pr, nthN (insts s) i = Some x /\ filter_match f i x = true /\
                      i_pos x = Some p /\ i_price x = Some pr /\
                      r = mkOReq (mkKey (i_ex x) (p_inst p) strat (gen i))
                                 (mkROpen (flip_side (p_side p)) pr (p_qty p) Market IOC)) /\
  length (snd (default_close strat gen s f)) =
  length (filter (fun p => closable (snd p)) (filtered f (insts s))).

Check C19_close_command : forall strat gen s f,
  let rq := snd (default_close strat gen s f) in
  snd (action (default_close strat gen) s (CClosePositions f)) =
  AOClose (mkSendOut [] []) (mkSendOut (spec_sent or_ex (links s) rq) (spec_errs or_ex (links s) rq)).

Check C19_cancel_outside_untouched : forall cs s f j x,
  state_wf s = true -> nthN (insts s) j = Some x -> filter_match f j x = false ->
  nthN (insts (fst (action cs s (CCancelOrders f)))) j = Some x.

Check C19_close_outside_untouched : forall strat gen s f j x,
  state_wf s = true -> nthN (insts s) j = Some x -> filter_match f j x = false ->
  nthN (insts (fst (action (default_close strat gen) s (CClosePositions f)))) j = Some x.

Check C19_positions_untouched : forall cs s c,
  map inst_rest (insts (fst (action cs s c))) = map inst_rest (insts s).

Check C19_cancel_repeat : forall cs s f r,
  state_wf s = true ->
  In r (cancel_requests f (insts (fst (action cs s (CCancelOrders f))))) ->
  In r (cancel_requests f (insts s)) /\ link_open (links s) (cr_ex r) = false.

Check C19_cancel_repeat_nothing : forall cs s f,
  state_wf s = true ->
  (forall r, In r (cancel_requests f (insts s)) -> link_open (links s) (cr_ex r) = true) ->
  cancel_requests f (insts (fst (action cs s (CCancelOrders f)))) = [].

Check C19_wf_invariant : forall cs s ev g,
  state_wf s = true -> state_wf (fst (process cs s ev g)) = true.

Check C19_oracle_sound : forall c : Corr.EngineCase.case,
  Corr.EngineCase.valid_case c = true -> Corr.EngineCase.corr_b c = true -> Corr.C19.prop_b c = true.

(* the definitions the statements rest on, pinned by evaluation *)
Check eq_refl : filter_match (FExchanges [1; 2]) 0 (mkInst 2 5 6 [] None (mkMD (mkL1 0 None None) None)) = true.
Check eq_refl : filter_match (FExchanges [1; 2]) 2 (mkInst 0 5 6 [] None (mkMD (mkL1 0 None None) None)) = false.
Check eq_refl : filter_match (FInstruments [3]) 3 (mkInst 0 5 6 [] None (mkMD (mkL1 0 None None) None)) = true.
Check eq_refl : filter_match (FInstruments [0]) 3 (mkInst 0 5 6 [] None (mkMD (mkL1 0 None None) None)) = false.
Check eq_refl : filter_match (FUnderlyings [(5, 6)]) 0 (mkInst 0 5 6 [] None (mkMD (mkL1 0 None None) None)) = true.
Check eq_refl : filter_match (FUnderlyings [(6, 5)]) 0 (mkInst 0 5 6 [] None (mkMD (mkL1 0 None None) None)) = false.
Check eq_refl : filter_match FNone 9 (mkInst 0 5 6 [] None (mkMD (mkL1 0 None None) None)) = true.
Check eq_refl : not_cif (mkOrder (mkKey 0 0 0 1) Buy 1 1 Limit GTD (CIF None)) = false.
Check eq_refl : not_cif (mkOrder (mkKey 0 0 0 1) Buy 1 1 Limit GTD OIF) = true.
Check eq_refl : cancel_of_order (mkOrder (mkKey 0 0 0 1) Buy 1 1 Limit GTD (OOpen (mkMeta 7 1 0))) = mkCReq (mkKey 0 0 0 1) (Some 7).
Check eq_refl : cancel_of_order (mkOrder (mkKey 0 0 0 1) Buy 1 1 Limit GTD OIF) = mkCReq (mkKey 0 0 0 1) None.
Check eq_refl : flip_side Buy = Sell.
Check eq_refl : flip_side Sell = Buy.
Check eq_refl : closable (mkInst 0 5 6 [] (Some (mkPos 0 Buy 1)) (mkMD (mkL1 0 (Some (1, 1)%Z) None) None)) = false.
Check eq_refl : closable (mkInst 0 5 6 [] (Some (mkPos 0 Buy 1)) (mkMD (mkL1 0 None None) (Some (1, 2)%Z))) = true.
Check eq_refl : md_price (mkMD (mkL1 0 (Some (48, 3)%Z) (Some (52, 1)%Z)) (Some (3, 99)%Z)) = Some 51%Z.
Check eq_refl : md_price (mkMD (mkL1 0 (Some (48, 3)%Z) None) (Some (3, 99)%Z)) = Some 99%Z.
Check eq_refl : data_l1 (mkMD (mkL1 5 None None) None) 5 (mkL1 9 (Some (1, 1)%Z) None) = mkMD (mkL1 5 None None) None.
Check eq_refl : sorted_keys [(1, mkOrder (mkKey 0 0 0 1) Buy 1 1 Limit GTD OIF); (1, mkOrder (mkKey 0 0 0 1) Buy 1 1 Limit GTD OIF)] = false.
