(** Statements of the C07 theorems spelled out again, so that a theorem cannot be silently
    weakened: this file stops compiling if a statement in Props/C07.v changes. *)
From BV Require Import Base.Common Model.ExecMgr Proofs.ExecMgr Props.C07.
From Coq Require Import Permutation.
Local Open Scope N_scope.

Check C07_events_are_spec : forall m stop script, sorted_by_arrival script = true ->
  Permutation (s_out (run_manager m stop script)) (spec_events m stop script) /\
  s_end (run_manager m stop script) = end_of m stop script.
Check C07_exactly_one : forall m script,
  sorted_by_arrival script = true -> forallb (accepted m) script = true ->
  forallb well_behaved script = true ->
  Permutation (map e_cid (s_out (run_manager m None script))) (map r_cid script).
Check C07_every_event_has_a_request : forall m stop script e,
  sorted_by_arrival script = true -> In e (s_out (run_manager m stop script)) ->
  exists r, In r (taken m stop script) /\ In e (spec_event m r).
Check C07_which_one : forall m r, well_behaved r = true ->
  exists e, spec_event m r = [e] /\
    match r_beh r with
    | Respond d rs =>
        (d < m_tau m -> e_out e = response_outcome (r_kind r) rs /\ e_time e = r_arrival r + d) /\
        (m_tau m <= d -> e_out e = timeout_outcome (r_kind r) /\ e_time e = r_arrival r + m_tau m)
    | _ => e_out e = timeout_outcome (r_kind r) /\ e_time e = r_arrival r + m_tau m
    end.
Check C07_attribution : forall m r e, In e (spec_event m r) ->
  e_exchange e = m_exchange m /\ e_instr e = r_instr r /\ e_cid e = r_cid r /\ ev_kind (e_out e) = r_kind r.
Check C07_independent_of_others : forall m script c,
  sorted_by_arrival script = true -> forallb (accepted m) script = true ->
  Permutation (filter (fun e => N.eqb (e_cid e) c) (s_out (run_manager m None script)))
              (flat_map (spec_event m) (filter (fun r => N.eqb (r_cid r) c) script)).
Check C07_order_independent : forall m s1 s2,
  Permutation s1 s2 -> sorted_by_arrival s1 = true -> sorted_by_arrival s2 = true ->
  forallb (accepted m) s1 = true ->
  Permutation (s_out (run_manager m None s1)) (s_out (run_manager m None s2)).

Check C07_answers_independent_of_account_stream : forall m stop script pol1 sched1 pol2 sched2,
  sorted_by_arrival script = true ->
  orders_of (merged m stop script pol1 sched1) = orders_of (merged m stop script pol2 sched2) /\
  Permutation (orders_of (merged m stop script pol1 sched1)) (spec_events m stop script).

(* the definitions the statements rest on, pinned by evaluation *)
Check eq_refl : acct_events (mkPolicy 5 2 40) [(100, 0); (200, 2); (300, 5)] =
  [MSnapshot 0; MReconnecting 100; MSnapshot 100; MReconnecting 200; MSnapshot 215;
   MReconnecting 300; MSnapshot 415].
Check eq_refl : orders_of [MSnapshot 0; MOrder (mkEv 1 2 7 OutActive 3); MReconnecting 9] = [mkEv 1 2 7 OutActive 3].
Check eq_refl : notices_of [MSnapshot 0; MOrder (mkEv 1 2 7 OutActive 3); MReconnecting 9] = [9].
Definition pin_m : mgr := mkMgr 1 [2; 3] 10.
Check eq_refl : spec_event pin_m (mkReq KOpen 1 2 7 100 (Respond 9 (ROk true))) = [mkEv 1 2 7 OutFullyFilled 109].
Check eq_refl : spec_event pin_m (mkReq KOpen 1 2 7 100 (Respond 9 (ROk false))) = [mkEv 1 2 7 OutActive 109].
Check eq_refl : spec_event pin_m (mkReq KOpen 1 2 7 100 (Respond 10 (ROk true))) = [mkEv 1 2 7 (OutOpenFailed ETimeout) 110].
Check eq_refl : spec_event pin_m (mkReq KCancel 1 3 7 100 (Respond 0 (RErr ERateLimit))) = [mkEv 1 3 7 (OutCancelFailed ERateLimit) 100].
Check eq_refl : spec_event pin_m (mkReq KCancel 1 3 7 100 (Respond 4 (ROk false))) = [mkEv 1 3 7 OutCancelled 104].
Check eq_refl : spec_event pin_m (mkReq KCancel 1 3 7 100 Never) = [mkEv 1 3 7 (OutCancelFailed ETimeout) 110].
Check eq_refl : spec_event pin_m (mkReq KCancel 1 3 7 100 (RespondBadKey 4)) = [].
Check eq_refl : accepted pin_m (mkReq KOpen 1 2 7 0 Never) = true.
Check eq_refl : accepted pin_m (mkReq KOpen 0 2 7 0 Never) = false.
Check eq_refl : accepted pin_m (mkReq KOpen 1 4 7 0 Never) = false.
Check eq_refl : sorted_by_arrival [mkReq KOpen 1 2 7 5 Never; mkReq KOpen 1 2 8 5 Never; mkReq KOpen 1 2 9 4 Never] = false.
Check eq_refl : well_behaved (mkReq KOpen 1 2 7 5 (RespondBadKey 1)) = false.
Check eq_refl : ev_kind (OutOpenFailed ETimeout) = KOpen.
Check eq_refl : ev_kind OutCancelled = KCancel.
(* shutdown at 12: the request resolving at 14 is outstanding at shutdown and gets nothing; a
   non-configured request at 5 makes the manager panic: only what resolved before 5 was sent *)
Check eq_refl : spec_events pin_m (Some 12)
  [mkReq KOpen 1 2 7 0 (Respond 3 (ROk false)); mkReq KOpen 1 2 8 4 Never; mkReq KOpen 1 2 9 20 Never]
  = [mkEv 1 2 7 OutActive 3].
Check eq_refl : spec_events pin_m None
  [mkReq KOpen 1 2 7 0 (Respond 3 (ROk false)); mkReq KOpen 1 2 8 4 Never; mkReq KOpen 0 2 9 5 Never; mkReq KOpen 1 2 10 6 Never]
  = [mkEv 1 2 7 OutActive 3].
Check eq_refl : end_of pin_m None [mkReq KOpen 0 2 9 5 Never] = Panicked.
