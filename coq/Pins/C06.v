(** Statements of the C06 theorems spelled out again, so that a theorem cannot be silently
    weakened: this file stops compiling if a statement in Props/C06.v changes. *)
From BV Require Import Base.Common Model.Book Proofs.Book Model.BinanceSeq Proofs.BinanceSeq Props.C06.
From BV Require Import Corr.C06.

Check C06_reapply_idempotent : forall l m p, spec_upsert (spec_upsert m l) l p = spec_upsert m l p.
Check C06_overlap : forall delta sd U k u p,
  (U <= k + 1)%N -> (k <= u)%N ->
  spec_upsert (B delta sd k) (payload delta sd U u) p = B delta sd u p.
Check C06_book_is_exchange_book : forall delta v l bs as_ ms,
  nodup_prices bs = true -> nodup_prices as_ = true ->
  (forall p, lookup bs p = B delta Bid l p) -> (forall p, lookup as_ p = B delta Ask l p) ->
  Forall (genuine delta v) ms ->
  forall k, let st := fst (run1 v (ist_init l bs as_) (firstn k ms)) in
            book_is delta (i_book st) (sq_last (i_seq st)).
Check C06_classified : forall v st m,
  match step1 v st m with
  | (st', VDrop) => st' = st
  | (st', VErr e) => st' = st /\ e = InvalidSequence (sq_last (i_seq st)) (m_U m) /\ is_terminal e = true
  | (st', VOk) => i_seq st' = advance v (i_seq st) m /\ i_book st' = update (i_book st) (event_of v m) /\
                  sq_last (i_seq st') = m_u m /\ bseq (i_book st') = m_u m /\
                  sq_ups (i_seq st') = (sq_ups (i_seq st) + 1)%N
  end.
Check C06_admitted_chain : forall v l bk ms,
  chain_ok v l (admitted ms (snd (run1 v (mkIst (seq_new l) bk) ms))).
Check C06_no_false_alarm : forall v l bk old suffix,
  Forall (older v l) old -> Forall (ids_wf v) suffix -> chain_ok v l suffix ->
  snd (run1 v (mkIst (seq_new l) bk) (old ++ suffix)) =
  repeat VDrop (length old) ++ repeat VOk (length suffix).
Check C06_sequence_error_terminal : forall v s m e,
  snd (validate_sequence v s m) = VErr e ->
  e = InvalidSequence (sq_last s) (m_U m) /\ is_terminal e = true /\ fst (validate_sequence v s m) = s.
Check C06_transform_error : forall v t sid m e,
  snd (transform v t sid m) = TErr e ->
  (tfind sid t = None /\ e = SocketUnidentifiable sid /\ is_terminal e = false /\ fst (transform v t sid m) = t) \/
  (exists mt, tfind sid t = Some mt /\ e = InvalidSequence (sq_last (mt_seq mt)) (m_U m) /\
              is_terminal e = true /\ forall sid', tfind sid' (fst (transform v t sid m)) = tfind sid' t).
Check C06_transform_event : forall v t sid m key te ev,
  snd (transform v t sid m) = TEvent key te ev ->
  exists mt, tfind sid t = Some mt /\ key = mt_key mt /\ te = m_E m /\ ev = event_of v m /\
             event_seq ev = m_u m /\ snd (validate_sequence v (mt_seq mt) m) = VOk.
Check C06_termination : forall os,
  exists k, with_termination os = firstn k os /\
            Forall (fun o => tout_terminal o = false) (firstn k os) /\
            ((k < length os)%nat -> exists o, nth_error os k = Some o /\ tout_terminal o = true) /\
            ((length os <= k)%nat -> k = length os).
Check C06_routing : forall v ds t bs sid mt b,
  keys_distinct t -> tfind sid t = Some mt -> bfind (mt_key mt) bs = Some b ->
  let st' := fst (trun v (t, bs) ds) in
  let st1 := fst (run1 v (mkIst (mt_seq mt) b) (map snd (filter (fun d => N.eqb (fst d) sid) ds))) in
  tfind sid (fst st') = Some (mkMeta (mt_key mt) (i_seq st1)) /\
  bfind (mt_key mt) (snd st') = Some (i_book st1).
Check C06_payload_forms : forall s l p,
  last_write (sort_levels s l) p = last_write l p /\ last_write (net l) p = last_write l p.
Check C06_connection : forall delta v ds t bs sid mt b,
  keys_distinct t -> tfind sid t = Some mt -> bfind (mt_key mt) bs = Some b ->
  book_is delta b (sq_last (mt_seq mt)) ->
  Forall (fun d => fst d = sid -> genuine delta v (snd d)) ds ->
  exists s' b', tfind sid (fst (fst (trun v (t, bs) ds))) = Some (mkMeta (mt_key mt) s') /\
                bfind (mt_key mt) (snd (fst (trun v (t, bs) ds))) = Some b' /\
                book_is delta b' (sq_last s').
Check C06_oracle_sound : forall c : case, in_domain c = true -> corr_b c = true -> prop_b c = true.

(* the definitions the statements rest on, pinned by evaluation *)
Definition pm (U u pu : N) : msg := mkMsg U u pu 0 0 [] [].
(* spot: drop iff u <= last; first: U <= last+1 <= u; next: U = last+1 *)
Check eq_refl : validate_sequence Spot (mkSeq 0 10 10) (pm 9 10 0) = (mkSeq 0 10 10, VDrop).
Check eq_refl : validate_sequence Spot (mkSeq 0 10 10) (pm 11 11 0) = (mkSeq 1 11 10, VOk).
Check eq_refl : validate_sequence Spot (mkSeq 0 10 10) (pm 9 11 0) = (mkSeq 1 11 10, VOk).
Check eq_refl : validate_sequence Spot (mkSeq 0 10 10) (pm 12 13 0) = (mkSeq 0 10 10, VErr (InvalidSequence 10 12)).
Check eq_refl : validate_sequence Spot (mkSeq 3 10 8) (pm 11 12 0) = (mkSeq 4 12 10, VOk).
Check eq_refl : validate_sequence Spot (mkSeq 3 10 8) (pm 10 12 0) = (mkSeq 3 10 8, VErr (InvalidSequence 10 10)).
Check eq_refl : validate_sequence Spot (mkSeq 3 10 8) (pm 12 12 0) = (mkSeq 3 10 8, VErr (InvalidSequence 10 12)).
(* futures: drop iff u < last; first: U <= last <= u; next: pu = last *)
Check eq_refl : validate_sequence Fut (mkSeq 0 10 10) (pm 8 9 7) = (mkSeq 0 10 10, VDrop).
Check eq_refl : validate_sequence Fut (mkSeq 0 10 10) (pm 9 10 8) = (mkSeq 1 10 10, VOk).
Check eq_refl : validate_sequence Fut (mkSeq 0 10 10) (pm 11 12 10) = (mkSeq 0 10 10, VErr (InvalidSequence 10 11)).
Check eq_refl : validate_sequence Fut (mkSeq 2 10 10) (pm 13 14 10) = (mkSeq 3 14 10, VOk).
Check eq_refl : validate_sequence Fut (mkSeq 2 10 10) (pm 11 12 9) = (mkSeq 2 10 10, VErr (InvalidSequence 10 11)).
Check eq_refl : validate_sequence Fut (mkSeq 2 10 10) (pm 9 10 8) = (mkSeq 2 10 10, VErr (InvalidSequence 10 9)).
Check eq_refl : is_terminal (InvalidSequence 1 2) = true.
Check eq_refl : is_terminal (SocketUnidentifiable 3) = false.
Check eq_refl : event_of Spot (mkMsg 4 6 3 11 12 [(1, 2)]%Z []) = Update 6 None [(1, 2)]%Z [].
Check eq_refl : event_of Fut (mkMsg 4 6 3 11 12 [(1, 2)]%Z []) = Update 6 (Some 12%Z) [(1, 2)]%Z [].
Check eq_refl : last_write [(5, 1); (5, 0); (6, 2)]%Z 5%Z = Some None.
Check eq_refl : net [(5, 1); (6, 2); (5, 3)]%Z = [(6, 2); (5, 3)]%Z.
Check eq_refl : with_termination [TNone; TErr (SocketUnidentifiable 1); TErr (InvalidSequence 1 3); TNone]
                = [TNone; TErr (SocketUnidentifiable 1)].
(* the exchange model of the non-vacuity example *)
Check eq_refl : payload c06_delta Bid 2 4 = [(99, 2); (100, 0); (98, 7)]%Z.
Check eq_refl : B c06_delta Ask 4 101%Z = None.
Check eq_refl : B c06_delta Ask 3 101%Z = Some 3%Z.
(* the judgement the link theorem is about *)
Check eq_refl : in_domain (CSeq Spot (mkSeq 0 10 10) 11 11 0 (ROk true) (mkSeq 1 11 10)) = true.
Check eq_refl : judge (CSeq Spot (mkSeq 0 10 10) 11 11 0 (ROk true) (mkSeq 1 11 10)) = 0%N.
Check eq_refl : judge (CSeq Spot (mkSeq 0 10 10) 11 11 0 RDrop (mkSeq 0 10 10)) = 2%N.
Check eq_refl : judge (CCrash 1) = 2%N.
Check eq_refl : in_domain (CStream Spot [mkI 0 10 0 0 None [] [] []; mkI 0 11 0 0 None [] [] []] [] [] []) = false.
