(** Statements of the C09 theorems spelled out again, so that a theorem cannot be silently
    weakened: this file stops compiling if a statement in Props/C09.v changes. *)
From BV Require Import Model.Timed Proofs.Orders Proofs.Timed Corr.C09 Props.C09.
From Coq Require Import Permutation.
Local Open Scope Z_scope.

Check C09_latest_wins_le : forall (V : Type) (ds : list (Z * V)) (r0 : reg V),
  seen r0 ds <> [] ->
  exists t v l1 l2,
    fold_left put_le ds r0 = Some (t, v) /\ seen r0 ds = l1 ++ (t, v) :: l2 /\
    Forall (fun d => fst d <= t) l1 /\ Forall (fun d => fst d < t) l2.
Check C09_latest_wins_lt : forall (V : Type) (ds : list (Z * V)) (r0 : reg V),
  seen r0 ds <> [] ->
  exists t v l1 l2,
    fold_left put_lt ds r0 = Some (t, v) /\ seen r0 ds = l1 ++ (t, v) :: l2 /\
    Forall (fun d => fst d < t) l1 /\ Forall (fun d => fst d <= t) l2.
Check C09_is_latest : forall (V : Type) (ds : list (Z * V)) (r0 : reg V),
  is_latest (seen r0 ds) (fold_left put_le ds r0) /\
  is_latest (seen r0 ds) (fold_left put_lt ds r0).
Check C09_never_older : forall (V : Type) (r : reg V) (d : Z * V) (t0 : Z) (v0 : V) (t : Z) (v : V),
  r = Some (t0, v0) ->
  (put_le r d = Some (t, v) -> t0 <= t) /\ (put_lt r d = Some (t, v) -> t0 <= t).
Check C09_order_independent : forall (V : Type) (l l' : list (Z * V)) (r r' : reg V),
  is_latest l r -> is_latest l' r' -> (forall d, In d l <-> In d l') ->
  option_map fst r = option_map fst r' /\
  ((forall t v v', In (t, v) l -> In (t, v') l -> v = v') -> r = r').
Check C09_permutation : forall (A : Type) (l l' : list A),
  Permutation l l' -> forall d, In d l <-> In d l'.
Check C09_balance : forall (xs : list ev) (e : engine) (a : Z),
  e_bal (erun9 xs e) a = fold_left put_le (bal_deliveries a xs) (e_bal e a).
Check C09_last_trade : forall (xs : list ev) (e : engine) (i : Z),
  md_last (e_md (erun9 xs e) i) = fold_left put_lt (trade_deliveries i xs) (md_last (e_md e i)).
Check C09_top_of_book : forall (xs : list ev) (e : engine) (i : Z),
  l1_wf xs ->
  l1reg (e_md (erun9 xs e) i) = fold_left put_lt (l1_deliveries i xs) (l1reg (e_md e i)).
Check C09_order_inputs : forall (xs : list ev) (e : engine) (i c : Z),
  e_ord (erun9 xs e) i c = run (ord_inputs i c xs) (e_ord e i) c.
Check C09_order_details : forall (xs : list ev) (e : engine) (i c : Z),
  Forall (fun o => open_report o <> None) (ord_inputs i c xs) ->
  oreg (e_ord (erun9 xs e) i c) =
  fold_left put_le (open_deliveries (ord_inputs i c xs)) (oreg (e_ord e i c)).
Check C09_orders_never_older : forall (ops1 ops2 : list op) (s0 : orders) (c t : Z),
  ts (run ops1 s0) c = Some t ->
  (forall k, (k <= length ops2)%nat -> ts (run (ops1 ++ firstn k ops2) s0) c <> None) ->
  exists t', ts (run (ops1 ++ ops2) s0) c = Some t' /\ t <= t'.
Check C09_details_persist : forall (s : orders) (o : op) (c t : Z),
  ts s c = Some t -> step s o c <> None ->
  (forall r, o = RecOpen r -> k_cid (o_key r) <> c) ->
  exists t', ts (step s o) c = Some t' /\ t <= t'.
Check C09_open_report_floor : forall (s : orders) (o : op) (T : Z) (m : meta),
  open_report o = Some (T, m) ->
  exists t', ts (step s o) (cid_of o) = Some t' /\ T <= t'.
Check C09_open_reports_floor_run : forall (ops : list op) (s : orders) (c T t0 : Z),
  ts s c = Some t0 -> T <= t0 ->
  Forall (fun o => cid_of o = c /\ open_report o <> None) ops ->
  exists t', ts (run ops s) c = Some t' /\ T <= t'.
Check C09_overfilled_no_rollback : forall (s : orders) (sn : osnap) (m : meta) (ops : list op),
  o_state sn = SA (Open m) -> rem (o_qty sn) m < 0 ->
  Forall (fun o => cid_of o = k_cid (o_key sn) /\ open_report o <> None) ops ->
  exists t', ts (run ops (step s (Snap sn))) (k_cid (o_key sn)) = Some t' /\ m_time m <= t'.
Check C09_persist_invariant : forall (xs : list xev) (e : engine),
  fold_left xstep9 xs e = erun9 (evs_of xs) e.
Check C09_oracle_sound : forall c : case, corr_b c = true -> prop_b c = true.

(* the definitions the statements rest on, pinned by evaluation *)
Check eq_refl : put_le (Some (2, 7)) (2, 8) = Some (2, 8).          (* tie overwrites *)
Check eq_refl : put_lt (Some (2, 7)) (2, 8) = Some (2, 7).          (* tie keeps *)
Check eq_refl : put_le (Some (2, 7)) (1, 8) = Some (2, 7).
Check eq_refl : put_lt (Some (2, 7)) (3, 8) = Some (3, 8).
Check eq_refl : @put_le Z None (1, 8) = Some (1, 8).
Check eq_refl : update_from_balance (Some (2, (1, 1))) (BM 0 2 (5, 4)) = Some (2, (5, 4)).
Check eq_refl : update_from_balance (Some (2, (1, 1))) (BM 0 1 (5, 4)) = Some (2, (1, 1)).
Check eq_refl : market_process (MD l1_default (Some (5, 100))) 5 (MTrade (Some 101))
                = MD l1_default (Some (5, 100)).
Check eq_refl : market_process (MD l1_default (Some (5, 100))) 6 (MTrade None)
                = MD l1_default (Some (5, 100)).
Check eq_refl : market_process (MD (L1 7 None None) None) 7 (ML1 (L1 7 (Some (1, 1)) None))
                = MD (L1 7 None None) None.
Check eq_refl : market_process (MD (L1 7 None None) None) 8 (ML1 (L1 8 (Some (1, 1)) None))
                = MD (L1 8 (Some (1, 1)) None) None.
Check eq_refl : bal_deliveries 1 [ABalance (BM 1 2 (3, 3)); ASnapshot [BM 0 5 (1, 1); BM 1 4 (2, 2)] []]
                = [(2, (3, 3)); (4, (2, 2))].
Check eq_refl : step (step (upd empty 1 (Some (mkO (mkK 0 0 7 1) Buy 100 10 Limit IOC (Open (mkM 5 20 4)))))
                           (RecCancel (mkK 0 0 7 1))) (RecCancel (mkK 0 0 7 1)) 1
                = Some (mkO (mkK 0 0 7 1) Buy 100 10 Limit IOC (CIF (Some (mkM 5 20 4)))).
(* an over-filled report (t=30, filled 150 of 100) keeps the order and its timestamp; the older
   report (t=20) delivered afterwards is refused *)
Check eq_refl : ts (run [Snap (mkO (mkK 0 0 7 1) Buy 100 100 Limit IOC (SA (Open (mkM 5 30 150))));
                         Snap (mkO (mkK 0 0 7 1) Buy 100 100 Limit IOC (SA (Open (mkM 5 20 40))))] empty) 1
                = Some 30.
Check eq_refl : open_report (Snap (mkO (mkK 0 0 7 1) Buy 100 100 Limit IOC (SA (Open (mkM 5 30 150)))))
                = Some (30, mkM 5 30 150).
Check eq_refl : open_report (Snap (mkO (mkK 0 0 7 1) Buy 100 100 Limit IOC (SA (Open (mkM 5 30 100))))) = None.
