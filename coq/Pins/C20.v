(** Statements of the C20 theorems spelled out again, so that a theorem cannot be silently
    weakened: this file stops compiling if a statement in Props/C20.v changes. *)
From Coq Require Import List Arith Bool.
Import ListNotations.
From BV Require Import Model.Backtest Proofs.Backtest Props.C20.

Check C20_consumes_all_in_order :
  forall (M A St : Type) (step : St -> ev M A -> St * bool) (ds : list M) (acs : list A)
         (feed : list (ev M A)) (s : St),
  admissible ds acs feed ->
  (outcome (run step s feed) = StopShutdown /\
   exists p', processed (run step s feed) = p' ++ [EShutdown] /\ markets p' = ds /\
              forallb (fun e => negb (is_shutdown e)) p' = true)
  \/
  (outcome (run step s feed) = StopFatal /\
   exists ds2, ds = markets (processed (run step s feed)) ++ ds2).

Check C20_nothing_skipped_unless_fatal :
  forall (M A St : Type) (step : St -> ev M A -> St * bool) (ds : list M) (acs : list A)
         (feed : list (ev M A)) (s : St),
  admissible ds acs feed -> outcome (run step s feed) <> StopFatal ->
  outcome (run step s feed) = StopShutdown /\ markets (processed (run step s feed)) = ds /\
  exists p', processed (run step s feed) = p' ++ [EShutdown] /\ markets p' = ds /\
             forallb (fun e => negb (is_shutdown e)) p' = true.

Check C20_processed_prefix_to_first_terminal :
  forall (M A St : Type) (step : St -> ev M A -> St * bool) (feed : list (ev M A)) (s : St),
  (exists rest, feed = processed (run step s feed) ++ rest) /\
  (forall p1 e p2, processed (run step s feed) = p1 ++ e :: p2 -> p2 <> [] ->
                   terminal step (state_after step s p1) e = false) /\
  (outcome (run step s feed) <> FeedEnded ->
     exists p1 e, processed (run step s feed) = p1 ++ [e] /\
                  terminal step (state_after step s p1) e = true /\
                  (outcome (run step s feed) = StopShutdown <-> e = EShutdown)) /\
  final (run step s feed) = state_after step s (processed (run step s feed)).

Check C20_summary_from_own_final_state :
  forall (M A St R : Type) (step : St -> ev M A -> St * bool) (summarise : St -> R)
         (s : St) (feed : list (ev M A)),
  backtest step summarise s feed =
    summarise (state_after step s (processed (run step s feed))) /\
  (outcome (run step s feed) <> FeedEnded ->
   forall rest', backtest step summarise s (processed (run step s feed) ++ rest') =
                 backtest step summarise s feed).

Check C20_schedule_independent :
  forall (M A St : Type) (step : St -> ev M A -> St * bool)
         (sched : list nat) (sys : list (eng M A St)) (i : nat),
  nth_error (run_schedule step sched sys) i =
    option_map (Nat.iter (ticks_of i sched) (tick step)) (nth_error sys i).

Check C20_concurrent_equals_alone :
  forall (M A St R : Type) (step : St -> ev M A -> St * bool) (summarise : St -> R)
         (sched : list nat) (sys : list (eng M A St)) (i : nat) (s : St) (feed : list (ev M A)),
  nth_error sys i = Some (start s feed) -> S (length feed) <= ticks_of i sched ->
  exists e, nth_error (run_schedule step sched sys) i = Some e /\
            e_state e = final (run step s feed) /\
            rev (e_done e) = processed (run step s feed) /\
            e_stop e = Some (outcome (run step s feed)) /\
            summarise (e_state e) = backtest step summarise s feed.

Check C20_batch_is_positional :
  forall (M A St R : Type) (step : St -> ev M A -> St * bool) (summarise : St -> R)
         (s0 : St) (feeds : list (list (ev M A))) (i : nat),
  length (run_backtests step summarise s0 feeds) = length feeds /\
  nth_error (run_backtests step summarise s0 feeds) i =
    option_map (fun feed => summarise (state_after step s0 (processed (run step s0 feed))))
               (nth_error feeds i).

Check C20_weave_admissible :
  forall (M A : Type) (ds : list M) (acs : list A) (choices : list bool) (feed : list (ev M A)),
  weave (map EMarket ds ++ [EShutdown]) (map EAccount acs) choices = Some feed ->
  admissible ds acs feed.

(* the definitions the statements rest on, pinned by evaluation *)
Definition pin_step (s : nat) (e : ev nat nat) : nat * bool :=
  match e with EMarket m => (s + m, Nat.eqb m 9) | EAccount _ => (s + 100, false) | EShutdown => (s, false) end.
Check eq_refl : run pin_step 0 [EMarket 1; EAccount 5; EMarket 2; EShutdown; EMarket 3]
                = (103, [EMarket 1; EAccount 5; EMarket 2; EShutdown], StopShutdown).
Check eq_refl : run pin_step 0 [EMarket 1; EMarket 9; EMarket 2; EShutdown]
                = (10, [EMarket 1; EMarket 9], StopFatal).
Check eq_refl : run pin_step 0 [EMarket 1; EAccount 5] = (101, [EMarket 1; EAccount 5], FeedEnded).
Check eq_refl : markets [EAccount 5; EMarket 1; EShutdown; EMarket 2] = [1; 2] :> list nat.
Check eq_refl : state_after pin_step 0 [EMarket 1; EShutdown; EAccount 5] = 101.
Check eq_refl : terminal pin_step 0 (@EShutdown nat nat) = true.
Check eq_refl : terminal pin_step 0 (@EMarket nat nat 9) = true.
Check eq_refl : terminal pin_step 0 (@EAccount nat nat 9) = false.
Check eq_refl : weave [EMarket 1; EMarket 2; EShutdown] [EAccount 5; EAccount 6] [false; true; true]
                = Some [EAccount 5; EMarket 1; EMarket 2; EShutdown; EAccount 6] :> option (list (ev nat nat)).
Check eq_refl : weave [@EShutdown nat nat] [] [true; true] = None.
Check eq_refl : ticks_of 1 [0; 1; 1; 2; 1] = 3.
Check eq_refl : map (@e_state nat nat nat)
                  (run_schedule pin_step [1; 0; 1] [start 0 [EMarket 1; EMarket 2]; start 0 [EMarket 5; EMarket 6; EMarket 7]])
                = [1; 11].
Check eq_refl : run_backtests pin_step (fun s => s) 0 [[EMarket 1; EShutdown]; [EMarket 5; EMarket 2]; []]
                = [1; 7; 0].
Check (@il_l : forall (X : Type) (x : X) l r o, interleave l r o -> interleave (x :: l) r (x :: o)).
Check (@il_r : forall (X : Type) (y : X) l r o, interleave l r o -> interleave l (y :: r) (y :: o)).
Check (eq_refl : admissible [1; 2] [7] [EMarket 1; EAccount 7; EMarket 2; EShutdown]
                 = interleave [EMarket 1; EMarket 2; EShutdown] [EAccount 7] [EMarket 1; EAccount 7; EMarket 2; EShutdown]).
