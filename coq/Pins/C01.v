(** Statements of the C01 theorems spelled out again, so that a theorem cannot be silently
    weakened: this file stops compiling if a statement in Props/C01.v changes. *)
From BV Require Import Model.Orders Proofs.Orders Corr.C01 Props.C01.
Local Open Scope Z_scope.

Check C01_lifecycle : forall (s : orders) (o : op),
  lifecycle (pst (s (cid_of o))) (abs_op o) (pst (step s o (cid_of o))).
Check C01_frame : forall (s : orders) (o : op) (c : Z),
  cid_of o <> c -> step s o c = s c.
Check C01_local : forall (s1 s2 : orders) (o : op),
  s1 (cid_of o) = s2 (cid_of o) -> step s1 o (cid_of o) = step s2 o (cid_of o).
Check C01_table_monotone : forall (s : pstate) (o : aop) (s' : pstate) (t t' : Z),
  lifecycle s o s' -> pts s = Some t -> pts s' = Some t' -> t <= t'.
Check C01_monotone : forall (s : orders) (o : op) (c t t' : Z),
  ts s c = Some t -> ts (step s o) c = Some t' -> t <= t'.
Check C01_history : forall (ops1 ops2 : list op) (s0 : orders) (c t : Z),
  ts (run ops1 s0) c = Some t ->
  (forall k, (k <= length ops2)%nat -> ts (run (ops1 ++ firstn k ops2) s0) c <> None) ->
  exists t', ts (run (ops1 ++ ops2) s0) c = Some t' /\ t <= t'.
Check C01_oracle_is_table : forall (s : pstate) (o : aop) (s' : pstate),
  lifecycle_b s o s' = true <-> lifecycle s o s'.
Check C01_static_data : forall (s : orders) (o : op) (c : Z) (x y : order),
  s c = Some x -> step s o c = Some y ->
  (forall r, o = RecOpen r -> k_cid (o_key r) <> c) ->
  static y = static x.
Check C01_routing : forall (e : estate) (o : op),
  estep e (EOrd o) (inst_of o) = step (e (inst_of o)) o /\
  (forall i, inst_of o <> i -> estep e (EOrd o) i = e i) /\
  (forall i c, cid_of o <> c -> estep e (EOrd o) i c = e i c).
Check C01_account_snapshot : forall (l : list isnap) (e : estate) (i c : Z),
  estep e (EAcctSnapshot l) i = fold_left snapshot_step (reports_for i l) (e i) /\
  (~ In i (map is_inst l) -> estep e (EAcctSnapshot l) i = e i) /\
  lifecycle_seq c (pst (e i c)) (reports_for i l) (pst (estep e (EAcctSnapshot l) i c)).
Check C01_open_report_keeps_tracked : forall (s : orders) (sn : osnap) (m : meta),
  o_state sn = SA (Open m) -> rem (o_qty sn) m <> 0 ->
  step s (Snap sn) (k_cid (o_key sn)) <> None.
Check C01_overfilled_stays_tracked : forall (s : orders) (sn : osnap) (m : meta),
  o_state sn = SA (Open m) -> m_filled m > o_qty sn ->
  step s (Snap sn) (k_cid (o_key sn)) <> None.
Check C01_persist_invariant : forall (xs : list xop) (s : orders),
  fold_left xstep xs s = run (ops_of xs) s.
Check C01_oracle_sound : forall c : case, corr_b c = true -> prop_b c = true.

(* the definitions the statements rest on, pinned by evaluation *)
Definition pin_k : key := mkK 0 0 7 1.
Definition pin_o (st : astate) : order := mkO pin_k Buy 100 10 Limit (GTC false) st.
Definition pin_snap (q : Z) (st : sstate) : op := Snap (mkO pin_k Sell 101 q Market IOC st).
Definition pin_s (st : astate) : orders := upd empty 1 (Some (pin_o st)).

(* a newer open report with something left refreshes the state only (price/quantity/side of the
   first tracking stay); remaining uses the REPORT's quantity *)
Check eq_refl : step (pin_s (Open (mkM 5 2 0))) (pin_snap 20 (SA (Open (mkM 6 3 10)))) 1
                = Some (pin_o (Open (mkM 6 3 10))).
Check eq_refl : step (pin_s (Open (mkM 5 2 0))) (pin_snap 10 (SA (Open (mkM 6 3 10)))) 1 = None.
Check eq_refl : step (pin_s (Open (mkM 5 2 0))) (pin_snap 10 (SA (Open (mkM 6 2 10)))) 1 = None.
Check eq_refl : step (pin_s (Open (mkM 5 2 0))) (pin_snap 10 (SA (Open (mkM 6 1 10)))) 1
                = Some (pin_o (Open (mkM 5 2 0))).
Check eq_refl : step (pin_s (CIF (Some (mkM 5 2 0)))) (pin_snap 10 (SA (Open (mkM 6 3 10)))) 1 = None.
Check eq_refl : step (pin_s (CIF (Some (mkM 5 2 0)))) (pin_snap 10 (SA (Open (mkM 6 3 4)))) 1
                = Some (pin_o (CIF (Some (mkM 6 3 4)))).
Check eq_refl : step (pin_s (CIF (Some (mkM 5 2 0)))) (CancelResp pin_k false) 1
                = Some (pin_o (Open (mkM 5 2 0))).
Check eq_refl : step (pin_s (CIF None)) (CancelResp pin_k false) 1 = None.
Check eq_refl : step (pin_s (Open (mkM 5 2 0))) (RecCancel pin_k) 1
                = Some (pin_o (CIF (Some (mkM 5 2 0)))).
Check eq_refl : step (pin_s OIF) (pin_snap 10 (SI Expired)) 1 = None.
Check eq_refl : step empty (pin_snap 10 (SA (Open (mkM 6 3 10)))) 1 = None.
Check eq_refl : allowed (Some (Open (mkM 5 2 0))) (ASnap 10 (SA (Open (mkM 6 2 4))))
                = [Some (Open (mkM 6 2 4)); Some (Open (mkM 5 2 0))].
Check eq_refl : allowed (Some (Open (mkM 5 2 0))) (ASnap 10 (SA (Open (mkM 6 2 10)))) = [None].
Check eq_refl : allowed (Some (Open (mkM 5 2 0))) (ASnap 10 (SA (Open (mkM 6 1 10))))
                = [Some (Open (mkM 5 2 0)); None].
Check eq_refl : allowed (Some (CIF (Some (mkM 5 2 0)))) (ACancelResp false) = [Some (Open (mkM 5 2 0))].
Check eq_refl : ts (pin_s (CIF (Some (mkM 5 2 0)))) 1 = Some 2.
(* over-filled: remaining = quantity - filled is negative, not zero: the order stays tracked *)
Check eq_refl : rem 10 (mkM 6 3 11) = -1.
Check eq_refl : step (pin_s (Open (mkM 5 2 0))) (pin_snap 10 (SA (Open (mkM 6 3 11)))) 1
                = Some (pin_o (Open (mkM 6 3 11))).
Check eq_refl : step empty (pin_snap 10 (SA (Open (mkM 6 3 1000)))) 1
                = Some (mkO pin_k Sell 101 10 Market IOC (Open (mkM 6 3 1000))).
Check eq_refl : allowed (Some (Open (mkM 5 2 0))) (ASnap 10 (SA (Open (mkM 6 3 11)))) = [Some (Open (mkM 6 3 11))].
