(** Statements of the C18 theorems spelled out again, so that a theorem cannot be silently
    weakened: this file stops compiling if a statement in Props/C18.v changes. *)
From Coq Require Import List ZArith QArith Qcanon.
From BV Require Import Base.Common Model.Drawdown Proofs.Drawdown Corr.C18 Props.C18.
Import ListNotations.
Local Open Scope Qc_scope.

Check C18_emitted_is_decomposition : forall x pts, 0 < snd x ->
  snd (gen_run (gen_init x) pts) = completed (x :: pts) /\
  gen_generate (fst (gen_run (gen_init x) pts)) = current (x :: pts) /\
  gen_run gen_default (x :: pts) = gen_run (gen_init x) pts.
Check C18_generator_state : forall x pts, 0 < snd x ->
  let g := fst (gen_run (gen_init x) pts) in
  exists p, last_opt (peaks (x :: pts)) = Some p /\
    g_peak g = Some (val (x :: pts) p) /\ g_tpeak g = Some (tim (x :: pts) p) /\
    g_ddmax g = depth (x :: pts) p (length (x :: pts)) /\
    g_now g = tim (x :: pts) (length pts).
Check C18_decomposition_meaning : forall pts,
  (forall i, (i < length pts)%nat ->
     (is_peak_b pts i = true <-> forall j, (j < i)%nat -> val pts j < val pts i)) /\
  (forall p q, 0 <= depth pts p q /\
     (forall j, (p < j < q)%nat -> decline pts p j <= depth pts p q) /\
     (depth pts p q = 0 \/ exists j, (p < j < q)%nat /\ depth pts p q = decline pts p j)).
Check C18_max_is_largest :
  max_run None [] = None /\
  (forall d0 ds, max_run None (d0 :: ds) = max_run (Some d0) ds) /\
  (forall d0 ds, exists d, max_run (Some d0) ds = Some d /\ first_max (d0 :: ds) d).
Check C18_mean_is_average :
  mean_run mean_default [] = mkMG 0 None /\
  (forall d0 ds, mean_run (mean_init d0) ds = mean_run mean_default (d0 :: ds)) /\
  (forall ds, ds <> [] ->
     exists m, mean_run mean_default ds = mkMG (len ds) (Some m) /\
       m_depth m * QcofZ (len ds) = sum_depth ds /\
       (2 * Z.abs (len ds * m_ms m - sum_ms ds) <= len ds * (len ds - 1))%Z).
Check C18_tearsheet_report : forall x pts, 0 < snd x ->
  let ts := fold_left ts_update pts (ts_init x) in
  let r := snd (ts_generate ts) in
  ts_mean ts = mean_run mean_default (completed (x :: pts)) /\
  ts_max ts = max_run None (completed (x :: pts)) /\
  r_cur r = current (x :: pts) /\
  r_mean r = mg_mean (mean_run mean_default (reported (x :: pts))) /\
  r_max r = max_run None (reported (x :: pts)) /\
  fst (ts_generate ts) = ts.
Check C18_tearsheet_report_meaning : forall x pts, 0 < snd x ->
  let r := snd (ts_generate (fold_left ts_update pts (ts_init x))) in
  let ds := reported (x :: pts) in
  r_cur r = current (x :: pts) /\
  (ds = [] -> r_mean r = None /\ r_max r = None) /\
  (ds <> [] -> exists m d, r_mean r = Some m /\ is_mean_of ds m /\ r_max r = Some d /\ first_max ds d).
Check C18_generate_idempotent : forall ts ops,
  fst (ts_run ts ops) = fold_left ts_update (updates_of ops) ts /\
  forall k, ts_run ts (ops ++ repeat TGen k) =
            (fst (ts_run ts ops),
             snd (ts_run ts ops) ++ repeat (snd (ts_generate (fst (ts_run ts ops)))) k).
Check C18_persist_restore_noop : forall ts ops1 ops2,
  ts_run ts (ops1 ++ TRt :: ops2) = ts_run ts (ops1 ++ ops2).
Check C18_wrappers :
  (forall a us, a_ts (asset_run a us) = fold_left ts_update (asset_pts us) (a_ts a)) /\
  (forall s us, i_ts (inst_run s us) = fold_left ts_update (cum_pts (i_pnl s) us) (i_ts s)) /\
  (forall x pts, fold_left ts_update (x :: pts) ts_default = fold_left ts_update pts (ts_init x)).
Check C18_nonpositive_peak_silent : forall g x p,
  g_peak g = Some p -> p <= 0 -> g_ddmax g = 0 -> snd x <= p ->
  g_ddmax (fst (gen_update g x)) = 0 /\ snd (gen_update g x) = None /\
  g_peak (fst (gen_update g x)) = Some p.
Check C18_first_max_computed : forall ds d d',
  first_max ds d -> first_max_f ds = Some d /\ (first_max ds d' -> d = d').
Check C18_oracle_sound : forall c, in_scope c = true -> corr_b c = true -> prop_b c = true.

(* the definitions the statements rest on, pinned by evaluation *)
Definition pq (n d : Z) : Qc := Q2Qc (Qmake n (Z.to_pos d)).
Definition pin_curve : list pt :=
  [(10, pq 4 1); (20, pq 2 1); (30, pq 4 1); (40, pq 3 1); (50, pq 5 1); (60, pq 6 1); (70, pq 3 1)]%Z.
Check eq_refl : peaks pin_curve = [0; 4; 5]%nat.
Check eq_refl : map dd_show (completed pin_curve) = [(1 # 2, 10, 50)]%Z.
Check eq_refl : option_map dd_show (current pin_curve) = Some (1 # 2, 60, 70)%Z.
Check eq_refl : option_map dd_show (current (firstn 3 pin_curve)) = Some (1 # 2, 10, 30)%Z.
Check eq_refl : this (depth pin_curve 0 4) = 1 # 2.
Check eq_refl : this (depth pin_curve 4 5) = 0.
Check eq_refl : is_peak_b pin_curve 2 = false.
Check eq_refl : option_map dd_show (first_max_f [mkDD (pq 1 5) 1 2; mkDD (pq (-1) 2) 3 4; mkDD (pq 1 2) 5 6]%Z)
                = Some (-1 # 2, 3, 4)%Z.
Check eq_refl : welford_z 10 (-5) 4 = 7%Z.
Check eq_refl : welford_z (-10) 5 4 = (-7)%Z.
Check eq_refl : dd_ms (mkDD (pq 1 5) 900000 1100000) = 0%Z.          (* 0.9 ms .. 1.1 ms: 0 whole ms *)
Check eq_refl : dd_ms (mkDD (pq 1 5) 1 2000000) = 1%Z.                (* 1.999999 ms *)
Check eq_refl : dd_ms (mkDD (pq 1 5) 2000000 1) = (-1)%Z.             (* truncation towards zero *)
Check eq_refl : mg_count (mean_run mean_default [mkDD (pq 1 5) 1 2; mkDD (pq 1 2) 3 7]%Z) = 2%Z.
Check eq_refl : option_map m_ms (mg_mean (mean_run mean_default
   [mkDD (pq 1 5) 1000000 2000000; mkDD (pq 1 2) 3000000 7000000]%Z)) = Some 2%Z.
(* the drift bound of the truncating integer mean is tight: durations 0,1,2,3,4,5 ms average
   2.5 ms but the recurrence never leaves 0 (each (d_k - 0) / k truncates to 0) *)
Check eq_refl : option_map m_ms (mg_mean (mean_run mean_default
   [mkDD (pq 1 5) 0 0; mkDD (pq 1 5) 0 1000000; mkDD (pq 1 5) 0 2000000; mkDD (pq 1 5) 0 3000000;
    mkDD (pq 1 5) 0 4000000; mkDD (pq 1 5) 0 5000000]%Z))
   = Some 0%Z.
