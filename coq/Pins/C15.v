(** Statements of the C15 theorems spelled out again, so that a theorem cannot be silently
    weakened: this file stops compiling if a statement in Props/C15.v changes. *)
From Coq Require Import Qcanon Qcabs.
From BV Require Import Model.Position Model.MarketData Proofs.Position Proofs.MarketData Props.C15.
Open Scope Qc_scope.

Check C15_tracks_latest_price : forall i h,
  Forall (valid_ievent i) h -> ~ fresh_open h -> tracks h.
Check C15_engine_tracks_latest_price : forall h i,
  Forall valid_eevent h -> ~ fresh_open (proj i h) ->
  match is_pos (erun h i), g_ref (grun (proj i h)) with
  | Some p, Some r => p_pnl_u p = estimate p r
  | _, _ => True
  end.
Check C15_instruments_independent : forall h i, erun h i = irun (proj i h).
Check C15_refreshed_by_market : forall i h m p pr,
  Forall (valid_ievent i) h ->
  is_pos (irun (h ++ [IMarket m])) = Some p ->
  md_price (is_md (irun (h ++ [IMarket m]))) = Some pr ->
  p_pnl_u p = estimate p pr.
Check C15_after_fill : forall i h f p,
  Forall (valid_ievent i) h -> valid_fill i f ->
  ~ fresh_open (h ++ [IFill f]) ->
  is_pos (irun (h ++ [IFill f])) = Some p ->
  p_pnl_u p = estimate p (f_price f).
Check C15_fresh_open_value : forall i h p,
  Forall (valid_ievent i) h -> fresh_open h -> is_pos (irun h) = Some p ->
  p_pnl_u p = 0 /\ g_ref (grun h) = Some (p_avg p) /\ estimate p (p_avg p) = - p_fin p.
Check C15_fresh_open_refuted :
  exists h, Forall (valid_ievent 0) h /\ fresh_open h /\ ~ tracks h.

Check C15_price_latest_wins : forall h, Forall mevent_wf h ->
  exists l last,
    is_latest ((0%Z, l1_default) :: l1_deliveries h) (l1_time l, l) /\
    match last with
    | None => trade_deliveries h = []%list
    | Some d => is_latest (trade_deliveries h) d
    end /\
    md_price (md_run h) = ref_price l last.
Check C15_market_data_of_history : forall h, is_md (irun h) = md_run (market_events h).
Check eq_refl : @is_latest = fun V ds d => In d ds /\ forall d', In d' ds -> (fst d' <= fst d)%Z.
Check eq_refl : ref_price = fun l last =>
  match l1_vw_mid l with Some p => Some p | None => option_map snd last end.
Check eq_refl : l1_vw_mid = fun l =>
  match l1_ask l, l1_bid l with
  | Some a, Some b => Some ((fst b * snd a + fst a * snd b) / (snd b + snd a))
  | _, _ => None
  end.
Check eq_refl : mevent_wf = fun e => match e with ML1 t l => l1_time l = t | _ => True end.

Check C15_oracle_sound : forall c,
  Corr.C15.wf_case c = true -> Corr.C15.corr_b c = true ->
  forallb (fun v => N.eqb v 0 || N.eqb v 1) (Corr.C15.verdicts c) = true /\
  (Corr.C15.prop_b c = true \/ Corr.C15.known_b c = 1%N) /\
  (Corr.C15.judge c = 0%N \/ Corr.C15.judge c = 101%N).

Check C15_received_time_irrelevant : forall h h',
  same_modulo_received h h' -> srun h = srun h'.
Check eq_refl : same_modulo_received = fun h h' => Forall2 (fun a b => unstamp a = unstamp b) h h'.
Check eq_refl : unstamp = fun e => match e with SMarket i _ m => EMarket i m | SFill f => EFill f end.
Check eq_refl : srun = fun h => erun (map unstamp h).

Check C15_restore_invariant : forall h, perun h = srun (drop_restores h).
Check eq_refl : pestep = fun s p => match p with PEv e => estep s (unstamp e) | PRestoreI _ => s end.

(* the definitions the statements rest on *)
Check eq_refl : tracks = fun h =>
  match is_pos (irun h), g_ref (grun h) with
  | Some p, Some r => p_pnl_u p = estimate p r
  | _, _ => True
  end.
Check eq_refl : fresh_open = fun h => g_fresh (grun h) = true.
Check eq_refl : estimate = fun p price =>
  calc_pnl_u (p_side p) (p_avg p) (p_qty p) (p_qmax p) (p_fin p) price.
Check eq_refl : calc_pnl_u = fun s avg q qmax fin price =>
  match s with
  | Buy => q * price - q * avg - (q / qmax) * fin
  | Sell => q * avg - q * price - (q / qmax) * fin
  end.
Check eq_refl : gstep = fun g e =>
  match e with
  | IMarket m =>
      let md := md_process (g_md g) m in
      match md_price md with
      | Some p => mkG md (Some p) false (g_net g)
      | None => mkG md (g_ref g) (g_fresh g) (g_net g)
      end
  | IFill f =>
      let n := g_net g in
      let s := sq_fill f in
      mkG (g_md g) (Some (f_price f)) (Qc_eqb n 0 || crosses_strictly_b n s) (n + s)
  end.
Check eq_refl : valid_ievent = fun i e => match e with IMarket _ => True | IFill f => valid_fill i f end.
Check eq_refl : valid_eevent = fun e => match e with EMarket _ _ => True | EFill f => 0 < f_qty f end.
(* price(): L1 micro-price when both sides are present, else the last trade price *)
Check eq_refl : option_map this (md_price (mkMD (mkL1 5 (Some (qcz 105, qcz 1)) (Some (qcz 107, qcz 3))) (Some (3%Z, qcz 90))))
  = Some (211 # 2)%Q.
Check eq_refl : option_map this (md_price (mkMD (mkL1 5 (Some (qcz 105, qcz 1)) None) (Some (3%Z, qcz 90))))
  = Some (90 # 1)%Q.
Check eq_refl : md_price md0 = None.
(* a stale trade is ignored, an equal-time L1 is ignored *)
Check eq_refl : md_last (md_process (mkMD (mkL1 0 None None) (Some (7%Z, qcz 90))) (MTrade 7 (Some (qcz 95))))
  = Some (7%Z, qcz 90).
Check eq_refl : l1_time (md_l1 (md_process (mkMD (mkL1 7 None None) None) (ML1 7 (mkL1 9 None None)))) = 7%Z.
Check eq_refl : g_fresh (grun c15_witness) = true.
Check eq_refl : g_fresh (grun c15_example) = false.

(* ---- the correspondence oracle, pinned on hand-written observations ---------------------------- *)
From BV Require Corr.C15.
Module PinCorr.
Import Corr.C15.
Local Close Scope Qc_scope.
Local Open Scope Q_scope.
Definition flat := mkOI None None 0 None None None.
Definition pos (fee pnl_u : Q) (upd : Z) :=
  Some (mkOP 0 Buy 100 2 2 pnl_u (- fee) fee 0 1000 upd (1%N :: nil)).
Definition evs (fee : Q) := [ OFill (mkOF 1 0 1000 Buy 100 2 fee); OMarket 0 9000 (OMTrade 2000 (Some 110)) ]%list.
Definition st (fee pnl_u : Q) (priced : bool) :=
  mkOI (pos fee pnl_u 1000) (if priced then Some 110 else None) 0 None None
       (if priced then Some (2000%Z, 110) else None).
(* the correspondence side erases the receive time exactly like [unstamp] *)
Check eq_refl : eevent_of (OMarket 3 777 (OMTrade 20 (Some 104))) = unstamp (SMarket 3 777 (mevent_of (OMTrade 20 (Some 104)))).
(* buy 2 @ 100 without fee, then a public trade at 110: the estimate is 2*110 - 2*100 = 20 *)
Check eq_refl : judge (CEngine (spots 2) (evs 0) [ (st 0 0 false, None); (st 0 20 true, None) ]%list
                               [ st 0 20 true; flat ]%list okf) = 0%N.
(* the market event did not refresh the estimate (pre-fix behaviour of d9de16e): rejected *)
Check eq_refl : judge (CEngine (spots 2) (evs 0) [ (st 0 0 false, None); (st 0 0 true, None) ]%list
                               [ st 0 0 true; flat ]%list okf) = 2%N.
(* opening fill with fee 1: the stored 0 right after the fill is the known class, the refreshed
   value 20 - 1 = 19 is fine *)
Check eq_refl : judge (CEngine (spots 2) (evs 1) [ (st 1 0 false, None); (st 1 19 true, None) ]%list
                               [ st 1 19 true; flat ]%list okf) = 101%N.
(* the same observations on a perpetual with contract size 0.001 settled in another asset: same
   verdict - kind and contract size are not read *)
Check eq_refl : judge (CEngine [mkInst 1 (1 # 1000) false 1; mkInst 0 1 true 0]%list (evs 0)
                               [ (st 0 0 false, None); (st 0 20 true, None) ]%list
                               [ st 0 20 true; flat ]%list okf) = 0%N.
(* a persist / restore round trip that changed an instrument state: rejected, also when the only
   other failures are in the known class *)
Check eq_refl : judge (CEngine (spots 2) (evs 1) [ (st 1 0 false, None); (st 1 19 true, None) ]%list
                               [ st 1 19 true; flat ]%list (mkFlags true (1%N :: nil) false)) = 2%N.
(* ... but a stale value after the market event is not excused by the known class *)
Check eq_refl : judge (CEngine (spots 2) (evs 1) [ (st 1 0 false, None); (st 1 0 true, None) ]%list
                               [ st 1 0 true; flat ]%list okf) = 2%N.
(* ... nor is a non-zero wrong value on the fresh position *)
Check eq_refl : judge (CEngine (spots 2) (evs 1) [ (st 1 5 false, None); (st 1 19 true, None) ]%list
                               [ st 1 19 true; flat ]%list okf) = 2%N.
End PinCorr.

(* the oracle accepts what the model itself produces on a history with two instruments, both price
   sources, a stale trade, an increase and a flip (only known-class verdicts: the two fee-carrying
   openings) *)
Module PinSelf.
Import Corr.C15.
Local Close Scope Qc_scope.
Local Open Scope Q_scope.
Definition evs := [ OFill (mkOF 1 0 10 Buy 100 2 1);
    OMarket 0 5000 (OMTrade 20 (Some 104));
    OMarket 0 30 (OML1 30 30 (Some (105, 1)) (Some (107, 3)));
    OMarket 0 1 (OMTrade 15 (Some 90));
    OFill (mkOF 2 0 40 Buy 106 1 1);
    OMarket 1 45 (OMTrade 45 (Some 55));
    OMarket 0 40 (OMOther 50);
    OFill (mkOF 3 0 60 Sell 108 5 2);
    OMarket 0 99 (OMOther 70) ]%list.
Check eq_refl : oracle_accepts_model (CEngine (spots 2) evs [] [] okf) = true.
Check eq_refl : verdicts (model_case (CEngine (spots 2) evs [] [] okf)) = [1; 0; 0; 0; 0; 0; 0; 1; 0]%N.
End PinSelf.
