(** Statements of the C14 theorems spelled out again, so that a theorem cannot be silently
    weakened: this file stops compiling if a statement in Props/C14.v changes. *)
From BV Require Import Base.Common Model.Connectivity Proofs.Connectivity Props.C14.

Check C14_global_iff_all : forall ids h, NoDup ids -> ids <> [] -> valid_history ids h ->
  let s := econn (run (init_engine ids) h) in
  global s = Healthy <->
  forall id, In id ids -> link s id KMarket = Some Healthy /\ link s id KAccount = Some Healthy.
Check C14_links_follow_last_event : forall ids h,
  NoDup ids -> ids <> [] -> forallb (valid_event ids) h = true ->
  let e := run (init_engine ids) h in
  keys (econn e) = ids /\
  (forall id k, In id ids -> link (econn e) id k = Some (spec_link ids h id k)) /\
  (global (econn e) = Healthy <->
     forall id, In id ids -> spec_link ids h id KMarket = Healthy /\ spec_link ids h id KAccount = Healthy) /\
  calls e = spec_calls h /\
  outputs (init_engine ids) h = map spec_output h.
Check C14_event_exact : forall ids h ev i k item,
  NoDup ids -> ids <> [] -> valid_history ids h -> link_of ids ev = Some (i, k, item) ->
  let before := run (init_engine ids) h in
  let after := run (init_engine ids) (h ++ [ev]) in
  link (econn after) i k = Some (if item then Healthy else Reconnecting) /\
  (forall i' k', (i', k') <> (i, k) -> link (econn after) i' k' = link (econn before) i' k') /\
  (item = false -> global (econn after) = Reconnecting) /\
  calls after = calls before ++ (if item then [] else [i]) /\
  snd (process before ev) = (if item then ONone else
                             match k with KMarket => OMarketDisconnect i | KAccount => OAccountDisconnect i end).
Check C14_down_until_next_event : forall ids h1 notice h2 item_ev i k,
  NoDup ids -> ids <> [] ->
  valid_history ids h1 -> valid_history ids h2 ->
  link_of ids notice = Some (i, k, false) -> link_of ids item_ev = Some (i, k, true) ->
  forallb (fun ev => negb (concerns ids i k ev)) h2 = true ->
  let down := econn (run (init_engine ids) (h1 ++ [notice] ++ h2)) in
  let up := econn (run (init_engine ids) ((h1 ++ [notice] ++ h2) ++ [item_ev])) in
  link down i k = Some Reconnecting /\ global down = Reconnecting /\ link up i k = Some Healthy.
Check C14_on_disconnect_once : forall ids h, NoDup ids -> ids <> [] -> valid_history ids h ->
  calls (run (init_engine ids) h) = spec_calls h /\
  outputs (init_engine ids) h = map spec_output h.

Check C14_persist_restore_invariant : forall l e, run_steps e l = run e (events_of l).
Check eq_refl : events_of [SPersist; SEvent (MarketItem 7); SPersist; SPersist; SEvent (AccountItem 0)]%N
              = [MarketItem 7; AccountItem 0]%N.
Check eq_refl : apply_hstep (init_engine [7]%N) SPersist = init_engine [7]%N.

(* the definitions the statements rest on, pinned by evaluation *)
Check eq_refl : valid_history [7; 3]%N [MarketItem 3; AccountItem 1; AccountReconnecting 7]%N = (true = true).
Check eq_refl : valid_event [7; 3]%N (AccountItem 2) = false.
Check eq_refl : valid_event [7; 3]%N (MarketReconnecting 5) = false.
Check eq_refl : link_of [7; 3]%N (AccountItem 1) = Some (3%N, KAccount, true).
Check eq_refl : link_of [7; 3]%N (MarketReconnecting 7) = Some (7%N, KMarket, false).
Check eq_refl : init_engine [7; 3]%N =
  mkEngine (mkConn Reconnecting [(7, mkCS Reconnecting Reconnecting); (3, mkCS Reconnecting Reconnecting)]%N) [].
Check eq_refl : link (mkConn Reconnecting [(7, mkCS Healthy Reconnecting)]%N) 7 KMarket = Some Healthy.
Check eq_refl : link (mkConn Reconnecting [(7, mkCS Healthy Reconnecting)]%N) 7 KAccount = Some Reconnecting.
Check eq_refl : link (mkConn Reconnecting [(7, mkCS Healthy Reconnecting)]%N) 8 KAccount = None.
Check eq_refl : spec_link [7; 3]%N [MarketItem 7; MarketReconnecting 7; AccountItem 0]%N 7 KMarket = Reconnecting.
Check eq_refl : spec_link [7; 3]%N [MarketItem 7; MarketReconnecting 7; AccountItem 0]%N 7 KAccount = Healthy.
Check eq_refl : spec_calls [MarketItem 7; MarketReconnecting 7; AccountReconnecting 3]%N = [7; 3]%N.
Check eq_refl : concerns [7; 3]%N 3 KAccount (AccountItem 1) = true.
Check eq_refl : concerns [7; 3]%N 3 KAccount (MarketItem 3) = false.
(* behaviour outside the hypotheses, as coded: an unknown exchange panics — except that an item
   for an unknown exchange is swallowed by the early return while global is Healthy; a notice
   for an unknown exchange has already set global := Reconnecting when it panics *)
Check eq_refl : process (mkEngine (mkConn Healthy [(7, mkCS Healthy Healthy)]%N) []) (MarketReconnecting 5)
              = (mkEngine (mkConn Reconnecting [(7, mkCS Healthy Healthy)]%N) [], OPanic).
Check eq_refl : process (mkEngine (mkConn Healthy [(7, mkCS Healthy Healthy)]%N) []) (MarketItem 5)
              = (mkEngine (mkConn Healthy [(7, mkCS Healthy Healthy)]%N) [], ONone).
Check eq_refl : process (mkEngine (mkConn Reconnecting [(7, mkCS Healthy Reconnecting)]%N) []) (AccountItem 1)
              = (mkEngine (mkConn Reconnecting [(7, mkCS Healthy Reconnecting)]%N) [], OPanic).
