(** Statements of the C11 theorems spelled out again, so that a theorem cannot be silently
    weakened: this file stops compiling if a statement in Props/C11.v changes. *)
From BV Require Import Base.Common Model.Index Model.ExecMap Proofs.Index Proofs.ExecMap Corr.C11 Proofs.CorrC11 Props.C11.
From Coq Require Import Permutation.

Check C11_build_total : forall l, exists x, build l = Some x.
Check C11_dense_unique : forall l x, build l = Some x ->
  (dense (x_exchanges x) /\ NoDup (map snd (x_exchanges x)) /\
     (forall e, In e (map snd (x_exchanges x)) <-> In e (collect_exchanges l))) /\
  (dense (x_assets x) /\ NoDup (map snd (x_assets x)) /\
     (forall a, In a (map snd (x_assets x)) <-> In a (collect_assets l))) /\
  (dense (x_instruments x) /\ length (x_instruments x) = length (sources l) /\
     NoDup (map d_rank (sources l)) /\
     (forall r, In r (map d_rank (sources l)) <-> In r (map d_rank l)) /\
     (forall d, In d (sources l) -> In d l) /\
     (forall i d, nth_error (sources l) i = Some d ->
        exists r, nth_error (x_instruments x) i = Some (N.of_nat i, r) /\
                  snd (i_ex r) = i_ex (d_ins d) /\ i_ni r = i_ni (d_ins d) /\
                  i_ne r = i_ne (d_ins d) /\ i_tail r = i_tail (d_ins d))).
Check C11_every_definition_indexed : forall l, faithful l -> forall d, In d (sources l) <-> In d l.
Check C11_find_inverse_exchange : forall l x k e, build l = Some x ->
  (find_exchange (x_exchanges x) k = Some e <-> find_exchange_index (x_exchanges x) e = Some k).
Check C11_find_inverse_asset : forall l x k e ni, build l = Some x -> assets_wf l ->
  (find_asset_index (x_assets x) e ni = Some k <->
   exists ne, find_asset (x_assets x) k = Some (e, (ni, ne))).
Check C11_find_inverse_instrument : forall l x k e ni, build l = Some x -> inames_ex_wf l ->
  (find_instrument_index (x_instruments x) e ni = Some k <->
   exists r, find_instrument (x_instruments x) k = Some r /\ snd (i_ex r) = e /\ i_ni r = ni).
Check C11_refs_resolve : forall l x i d, build l = Some x -> assets_wf l ->
  nth_error (sources l) i = Some d ->
  exists r, nth_error (x_instruments x) i = Some (N.of_nat i, r) /\ resolve x r = Some (d_ins d).
Check C11_refs_resolve_all : forall l x d, build l = Some x -> assets_wf l -> faithful l -> In d l ->
  exists i r, nth_error (x_instruments x) i = Some (N.of_nat i, r) /\ resolve x r = Some (d_ins d).
Check C11_order_independent : forall l l', faithful l -> Permutation l l' -> build l = build l'.
Check C11_tables_aligned : forall l x added, build l = Some x -> assets_wf l -> inames_wf l ->
  instrument_states x =
    map (fun kv : N * instr (N * N) N =>
           (i_ni (snd kv), (fst kv, map_exchange_key (fst (i_ex (snd kv))) (snd kv))))
        (x_instruments x) /\
  asset_states x =
    map (fun kv : N * akey => ((fst (snd kv), fst (snd (snd kv))), snd (snd kv))) (x_assets x) /\
  connectivity_states x = map (fun kv : N * N => (snd kv, tt)) (x_exchanges x) /\
  tx_map x added = map (fun kv : N * N => (snd kv, existsb (N.eqb (snd kv)) added)) (x_exchanges x).
Check C11_hypothesis_checks : forall l,
  (faithful_b l = true -> faithful l) /\ (assets_wf_b l = true -> assets_wf l) /\
  (inames_wf_b l = true -> inames_wf l) /\ (inames_wf l -> inames_ex_wf l).
Check C11_execution_map_aligned : forall l x e, build l = Some x ->
  (gen_map x e = None <-> ~ In e (map snd (x_exchanges x))) /\
  forall m, gen_map x e = Some m ->
    (forall k n, find_instrument_name m k = Some n ->
       instrument_owner x k = Some (e, n) /\ find_instrument_ix m n = Some k) /\
    (forall k n, find_instrument_ix m n = Some k ->
       instrument_owner x k = Some (e, n) /\ find_instrument_name m k = Some n) /\
    (forall k, (forall n, instrument_owner x k <> Some (e, n)) -> find_instrument_name m k = None) /\
    (names_distinct x e -> forall k n, instrument_owner x k = Some (e, n) ->
       find_instrument_name m k = Some n /\ find_instrument_ix m n = Some k) /\
    (forall k n, find_asset_name m k = Some n ->
       asset_owner x k = Some (e, n) /\ find_asset_ix m n = Some k) /\
    (forall k n, find_asset_ix m n = Some k ->
       asset_owner x k = Some (e, n) /\ find_asset_name m k = Some n) /\
    (forall k, (forall n, asset_owner x k <> Some (e, n)) -> find_asset_name m k = None) /\
    (names_distinct x e -> forall k n, asset_owner x k = Some (e, n) ->
       find_asset_name m k = Some n /\ find_asset_ix m n = Some k).
Check C11_oracle_sound : forall c, wf_case c = true -> corr_b c = true -> prop_b c = true.
Check eq_refl : wf_case (CPerm [] 1 [([], Some (mkIndexed [] [] []))])%N = true.
Check eq_refl : wf_case (CPerm [] 0 [([], Some (mkIndexed [] [] []))])%N = false.
(* the definitions the statements rest on, pinned by evaluation *)
Check eq_refl : sd_exchanges [3; 1; 3; 2; 1]%N = [1; 2; 3]%N.
Check eq_refl : sd_assets [(1, (2, 2)); (0, (5, 5)); (1, (2, 1)); (0, (5, 5))]%N = [(0, (5, 5)); (1, (2, 1)); (1, (2, 2))]%N.
Check eq_refl : enum_from 0 [7; 8]%N = [(0, 7); (1, 8)]%N.
Check eq_refl : find_exchange_index [(0, 4); (1, 6)]%N 6%N = Some 1%N.
Check eq_refl : find_exchange [(0, 4); (1, 6)]%N 2%N = None.
Check eq_refl : find_asset_index [(0, (4, (1, 9))); (1, (6, (1, 8)))]%N 6%N 1%N = Some 1%N.
Check eq_refl : find_asset_index [(0, (4, (1, 9))); (1, (6, (1, 8)))]%N 6%N 2%N = None.
Check eq_refl : im_collect N.eqb [(1, 10); (2, 20); (1, 30)]%N = [(1, 30); (2, 20)]%N.
Check eq_refl : assets_of (mkDef 0 (mkInstr 3 0 0 (1, 1) (2, 2) (KFuture (4, 4)) (Some (UAsset (5, 5))) 0))%N
                = [(3, (1, 1)); (3, (2, 2)); (3, (4, 4)); (3, (5, 5))]%N.
Check eq_refl : dedup (fun x : N => x) N.eqb [1; 1; 2; 1]%N = [1; 2; 1]%N.
Check eq_refl : sources [mkDef 1 (mkInstr 0 0 0 (0, 0) (1, 1) KSpot None 0);
                         mkDef 0 (mkInstr 0 1 1 (0, 0) (1, 1) KSpot None 0);
                         mkDef 1 (mkInstr 0 0 0 (0, 0) (1, 1) KSpot None 0)]%N
                = [mkDef 0 (mkInstr 0 1 1 (0, 0) (1, 1) KSpot None 0);
                   mkDef 1 (mkInstr 0 0 0 (0, 0) (1, 1) KSpot None 0)]%N.
Check eq_refl : wf_case (CXMap [] (Some (mkIndexed [] [] [])) [(0, None)])%N = true.
Check eq_refl : prop_b (CXMap [] (Some (mkIndexed [(0, 5)] [(0, (5, (1, 1)))] [])) [(5, Some (mkXMap [(0, None)] [] [] []))])%N = false.
Check eq_refl : prop_b (CXMap [] (Some (mkIndexed [(0, 5)] [(0, (5, (1, 1)))] [])) [(5, Some (mkXMap [(0, Some 1)] [(1, Some 0)] [] []))])%N = true.
