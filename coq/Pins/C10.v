(** Statements of the C10 theorems spelled out again, so that a theorem cannot be silently
    weakened: this file stops compiling if a statement in Props/C10.v changes. *)
From Coq Require Import List ZArith NArith Bool.
From BV Require Import Base.Common Model.Replica Proofs.Replica Corr.C10 Props.C10.
Import ListNotations.

Check C10_one_per_event_consecutive :
  forall (rest P : Type) (u1 u2 : rest -> Z -> rest) (u3 u4 : rest -> P -> rest)
         (e0 : engine rest) (f : list (event P * script)),
  let '(e1, snap) := audit_snapshot e0 in
  let '(e2, ticks) := run_loop rest P u1 u2 u3 u4 e1 f in
  fst snap = e_seq e0 /\
  map fst ticks = seqN (fst snap + 1) (length ticks) /\
  e_seq e2 = (fst snap + 1 + N.of_nat (length ticks))%N /\
  exists pre last,
    ticks = pre ++ [last] /\
    Forall (fun t => is_terminal (snd t) = false) pre /\
    is_terminal (snd last) = true /\
    map (fun t => carried (snd t)) pre = map Some (firstn (length pre) (map fst f)) /\
    ((snd last = AFeedEnded /\ length pre = length f) \/
     (exists ev, carried (snd last) = Some ev /\ nth_error (map fst f) (length pre) = Some ev)).

Check C10_manual_consecutive :
  forall (rest P : Type) (u1 u2 : rest -> Z -> rest) (u3 u4 : rest -> P -> rest)
         (e e' : engine rest) (f : list (event P * script)) ticks,
  run_manual rest P u1 u2 u3 u4 e f = (e', ticks) ->
  map fst ticks = seqN (e_seq e) (length f) /\ length ticks = length f /\
  map (fun t => carried (snd t)) ticks = map Some (map fst f) /\
  e_seq e' = (e_seq e + N.of_nat (length f))%N.

Check C10_replica_simulation :
  forall (rest P : Type) (u1 u2 : rest -> Z -> rest) (u3 u4 : rest -> P -> rest)
         (e0 : engine rest) (f : list (event P * script)),
  hyps rest P u1 u2 u3 u4 (e_state e0) (e_state e0) f = true ->
  let '(e1, snap) := audit_snapshot e0 in
  Rel e1 (replica_init snap) /\ lockstep rest P u1 u2 u3 u4 e1 (replica_init snap) f.

Check C10_orders_modulo_markers :
  forall (rest : Type) (e : engine rest) (r : replica rest),
  Rel e r -> marker_free (orders (r_state r)) ->
  trading (e_state e) = trading (r_state r) /\ srest (e_state e) = srest (r_state r) /\
  forall k, proj (ofind (orders (e_state e)) k) = ofind (orders (r_state r)) k.

Check C10_run_replicated :
  forall (rest P : Type) (u1 u2 : rest -> Z -> rest) (u3 u4 : rest -> P -> rest)
         (e0 : engine rest) (f : list (event P * script)),
  hyps rest P u1 u2 u3 u4 (e_state e0) (e_state e0) f = true ->
  let '(e1, snap) := audit_snapshot e0 in
  let '(e2, ticks) := run_loop rest P u1 u2 u3 u4 e1 f in
  exists r2, replica_run rest P u1 u2 u3 u4 (replica_init snap) ticks = (r2, true) /\
             Rst (e_state e2) (r_state r2).

Check C10_gap_rejected :
  forall (rest P : Type) (u1 u2 : rest -> Z -> rest) (u3 u4 : rest -> P -> rest),
  (forall (r : replica rest) (t : N * audit P) ts,
     carried (snd t) <> None -> (r_seq r + 1 < fst t)%N ->
     replica_step rest P u1 u2 u3 u4 r t = (r, RErr) /\
     replica_run rest P u1 u2 u3 u4 r (t :: ts) = (r, false)) /\
  (forall (pre : list (N * audit P)) (r : replica rest) u ts,
     valid_from (r_seq r + 1) pre -> carried (snd u) <> None ->
     (r_seq r + N.of_nat (length pre) + 1 < fst u)%N ->
     replica_run rest P u1 u2 u3 u4 r (pre ++ u :: ts) =
       (apply_ticks rest P u1 u2 u3 u4 r pre, false)).

Check C10_repeat_skipped :
  forall (rest P : Type) (u1 u2 : rest -> Z -> rest) (u3 u4 : rest -> P -> rest),
  (forall (r : replica rest) (t : N * audit P) ts,
     carried (snd t) <> None -> (fst t <= r_seq r)%N ->
     replica_step rest P u1 u2 u3 u4 r t = (r, RSkipped) /\
     replica_run rest P u1 u2 u3 u4 r (t :: ts) = replica_run rest P u1 u2 u3 u4 r ts) /\
  (forall (pre : list (N * audit P)) (r : replica rest) t ts,
     replica_run rest P u1 u2 u3 u4 r (pre ++ t :: t :: ts) =
     replica_run rest P u1 u2 u3 u4 r (pre ++ t :: ts)).

Check C10_oracle_sound : forall c : case, corr_b c = true -> prop_b c = true.
Check C10_oracle_sound_wf : forall c : case, wf_case c = true -> corr_b c = true -> prop_b c = true.

(* the definitions the statements rest on, pinned by evaluation *)
Check eq_refl : proj (Some (mkOrder 1 2 OIF)) = None.
Check eq_refl : proj (Some (mkOrder 1 2 (CIF None))) = None.
Check eq_refl : proj (Some (mkOrder 1 2 (CIF (Some (mkMeta 3 4 5))))) = Some (mkOrder 1 2 (Open (mkMeta 3 4 5))).
Check eq_refl : proj (Some (mkOrder 1 2 (Open (mkMeta 3 4 5)))) = Some (mkOrder 1 2 (Open (mkMeta 3 4 5))).
Check eq_refl : seqN 5 3 = [5; 6; 7]%N.
Check eq_refl : is_terminal (@AFeedEnded unit) = true.
Check eq_refl : is_terminal (AProcess (@EvShutdown unit) false no_outs) = true.
Check eq_refl : is_terminal (AProcess (@EvMarket unit tt) true no_outs) = true.
Check eq_refl : is_terminal (AProcess (@EvMarket unit tt) false no_outs) = false.
Check eq_refl : apply_snap [] (0, 1)%Z 7 10 (SOpen (mkMeta 1 1 10)) = [].
Check eq_refl : apply_snap [((0, 1)%Z, mkOrder 7 10 OIF)] (0, 1)%Z 7 10 (SOpen (mkMeta 1 1 3))
                = [((0, 1)%Z, mkOrder 7 10 (Open (mkMeta 1 1 3)))].
Check eq_refl : record_cancel [((0, 1)%Z, mkOrder 7 10 (Open (mkMeta 1 1 3)))] (0, 1)%Z
                = [((0, 1)%Z, mkOrder 7 10 (CIF (Some (mkMeta 1 1 3))))].
Check eq_refl :
  replica_step unit unit (fun r _ => r) (fun r _ => r) (fun r _ => r) (fun r _ => r)
    (mkReplica (mkState false tt []) 4) (6%N, AProcess (EvMarket tt) false no_outs)
  = (mkReplica (mkState false tt []) 4, RErr).
Check eq_refl :
  replica_step unit unit (fun r _ => r) (fun r _ => r) (fun r _ => r) (fun r _ => r)
    (mkReplica (mkState false tt []) 4) (4%N, AProcess (EvMarket tt) false no_outs)
  = (mkReplica (mkState false tt []) 4, RSkipped).
Check eq_refl :
  replica_step unit unit (fun r _ => r) (fun r _ => r) (fun r _ => r) (fun r _ => r)
    (mkReplica (mkState false tt []) 4) (5%N, AProcess (EvTrading true) false no_outs)
  = (mkReplica (mkState true tt []) 5, RApplied).
