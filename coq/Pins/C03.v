(** Statements of the C03 theorems spelled out again, so that a theorem cannot be silently
    weakened: this file stops compiling if a statement in Props/C03.v changes. *)
From Coq Require Import List ZArith NArith Bool.
From BV Require Import Model.Engine Proofs.Engine Props.C03.
From BV Require Corr.EngineCase Corr.C03 Proofs.OracleC03.
Import ListNotations.
Local Open Scope N_scope.


Check C03_send_partition : forall R (inj : R -> xreq) rs ls,
  let ex := fun r => xr_ex (inj r) in
  let ls' := fst (send_requests inj ls rs) in
  let out := snd (send_requests inj ls rs) in
  so_sent out = spec_sent ex ls rs /\
  so_errs out = spec_errs ex ls rs /\
  (forall e, lstat_of ls' e = lstat_of ls e) /\
  (forall e, mbox ls' e = mbox ls e ++ to_ex e (map inj (so_sent out))) /\
  length ls' = length ls.

Check C03_error_classes : forall ls e,
  (lstat_of ls e = SClosed -> err_of_stat (lstat_of ls e) = KTerminated) /\
  (lstat_of ls e = SMissing \/ lstat_of ls e = SNoIndex -> err_of_stat (lstat_of ls e) = KIndex) /\
  (lstat_of ls e = SUnhealthy -> err_of_stat (lstat_of ls e) = KUnhealthy) /\
  unrecoverable KTerminated = true /\ unrecoverable KIndex = true /\ unrecoverable KUnhealthy = false /\
  (link_open ls e = true <-> lstat_of ls e = SOpen).

Check C03_risk_partition : forall A (l : list A) m,
  (length (fst (split_mask m l)) + length (snd (split_mask m l)) = length l)%nat /\
  forall x, In x l <-> In x (fst (split_mask m l)) \/ In x (snd (split_mask m l)).

Check C03_generate : forall s g,
  let ac := fst (split_mask (gs_cmask g) (gs_cancels g)) in
  let rc := snd (split_mask (gs_cmask g) (gs_cancels g)) in
  let ao := fst (split_mask (gs_omask g) (gs_opens g)) in
  let ro := snd (split_mask (gs_omask g) (gs_opens g)) in
  let s' := fst (generate s g) in
  let a := snd (generate s g) in
  a = mkAlgo (mkSendOut (spec_sent cr_ex (links s) ac) (spec_errs cr_ex (links s) ac))
             (mkSendOut (spec_sent or_ex (links s) ao) (spec_errs or_ex (links s) ao)) rc ro /\
  trading s' = trading s /\
  (forall e, lstat_of (links s') e = lstat_of (links s) e) /\
  (forall e, mbox (links s') e = mbox (links s) e ++ to_ex e (algo_sent a)) /\
  map inst_rest (insts s') = map inst_rest (insts s) /\
  (forall i, has_inst (insts s') i = has_inst (insts s) i) /\
  (valid_opens (insts s) (so_sent (ao_opens a)) = true ->
   forall i c, ord (insts s') i c =
               marked (ord (insts s)) (so_sent (ao_cancels a)) (so_sent (ao_opens a)) i c).

Check C03_action : forall cs s c,
  let rq := command_requests cs s c in
  let s' := fst (action cs s c) in
  let a := snd (action cs s c) in
  action_cancels a = mkSendOut (spec_sent cr_ex (links s) (fst rq)) (spec_errs cr_ex (links s) (fst rq)) /\
  action_opens a = mkSendOut (spec_sent or_ex (links s) (snd rq)) (spec_errs or_ex (links s) (snd rq)) /\
  trading s' = trading s /\
  (forall e, lstat_of (links s') e = lstat_of (links s) e) /\
  (forall e, mbox (links s') e = mbox (links s) e ++ to_ex e (action_sent a)) /\
  map inst_rest (insts s') = map inst_rest (insts s) /\
  (forall i, has_inst (insts s') i = has_inst (insts s) i) /\
  (valid_opens (insts s) (so_sent (action_opens a)) = true ->
   forall i c, ord (insts s') i c =
               marked (ord (insts s)) (so_sent (action_cancels a)) (so_sent (action_opens a)) i c).

Check C03_sent_open_in_flight : forall base cs os r,
  In r os ->
  exists o, marked base cs os (k_inst (or_key r)) (k_cid (or_key r)) = Some o /\ o_st o = OIF /\
            exists r', In r' os /\ o = order_of_req r' /\
                       k_inst (or_key r') = k_inst (or_key r) /\ k_cid (or_key r') = k_cid (or_key r).

Check C03_sent_cancel_in_flight : forall base cs os r o,
  In r cs -> base (k_inst (cr_key r)) (k_cid (cr_key r)) = Some o ->
  (exists o', marked base cs os (k_inst (cr_key r)) (k_cid (cr_key r)) = Some o' /\ in_flight (o_st o') = true) /\
  (names_o (k_inst (cr_key r)) (k_cid (cr_key r)) os = false ->
   marked base cs os (k_inst (cr_key r)) (k_cid (cr_key r)) = Some (with_st o (CIF (open_meta (o_st o))))).

Check C03_unsent_untouched : forall base cs os i c,
  names_c i c cs = false -> names_o i c os = false -> marked base cs os i c = base i c.

Check C03_process_delivery : forall cs s ev g e,
  let s' := fst (process_trace cs s ev g) in
  let t := snd (process_trace cs s ev g) in
  lstat_of (links s') e = lstat_of (links s) e /\
  mbox (links s') e = mbox (links s) e ++ to_ex e (trace_sent t).

Check C03_process_orders : forall cs s ev g,
  let s' := fst (process_trace cs s ev g) in
  let t := snd (process_trace cs s ev g) in
  let su := fst (update_state s ev) in
  map inst_rest (insts s') = map inst_rest (insts su) /\
  (valid_opens (insts s) (tr_ao t) = true -> valid_opens (insts s) (tr_go t) = true ->
   forall i c, ord (insts s') i c =
               marked (marked (ord (insts su)) (tr_ac t) (tr_ao t)) (tr_gc t) (tr_go t) i c).

Check C03_audit : forall cs s ev g,
  let t := snd (process_trace cs s ev g) in
  let a := snd (process cs s ev g) in
  a = audit_of t /\
  (exists extra, trace_sent t = audit_sent a ++ extra /\ (au_errors a = [] -> extra = [])) /\
  (forall k, In k (au_errors a) <-> In k (trace_unrec t)).

Check C03_disabled_no_generation : forall cs s ev g,
  (forall c, ev <> EvCommand c) ->
  trading (fst (update_state s ev)) = false ->
  process cs s ev g = (fst (update_state s ev), mkAudit (snd (update_state s ev)) []).

Check C03_disabled_commands_actioned : forall cs s c g,
  trading s = false ->
  process cs s (EvCommand c) g =
  (fst (action cs s c),
   mkAudit [OutCommanded (snd (action cs s c))] (action_unrec (snd (action cs s c)))).

Check C03_enable_resumes : forall cs s g,
  process cs s (EvTradingState true) g =
  (fst (generate (set_trading s true) g),
   audit_of (mkTrace None [] (Some (snd (generate (set_trading s true) g))))).

Check C03_fatal_command_stops : forall cs s c g,
  action_unrec (snd (action cs s c)) <> [] ->
  process cs s (EvCommand c) g =
  (fst (action cs s c),
   mkAudit [OutCommanded (snd (action cs s c))] (action_unrec (snd (action cs s c)))).

Check C03_oracle_sound_partial : forall c : Corr.EngineCase.case,
  Corr.EngineCase.valid_case c = true -> Proofs.OracleC03.case_in_scope c = true ->
  Corr.EngineCase.corr_b c = true -> Corr.C03.prop_b c = true.
Check eq_refl : Proofs.OracleC03.op_in_scope (Corr.EngineCase.OpProcess (EvCommand (CCancelOrders FNone))) = false.
Check eq_refl : Proofs.OracleC03.op_in_scope (Corr.EngineCase.OpAction (CCancelOrders FNone)) = false.
Check eq_refl : Proofs.OracleC03.op_in_scope (Corr.EngineCase.OpProcess (EvCommand (CClosePositions FNone))) = true.
Check eq_refl : Proofs.OracleC03.op_in_scope (Corr.EngineCase.OpProcess (EvTradingState true)) = true.
Check eq_refl : Proofs.OracleC03.op_in_scope Corr.EngineCase.OpGenerate = true.
Check eq_refl : Proofs.OracleC03.op_in_scope (Corr.EngineCase.OpHook Corr.EngineCase.HTradingDisabled (CCancelOrders FNone)) = false.
Check eq_refl : Proofs.OracleC03.op_in_scope (Corr.EngineCase.OpSetLink 0 SClosed) = true.

(* the definitions the statements rest on, pinned by evaluation *)
Check eq_refl : lstat_of [LOpen []; LClosed; LUnhealthy; LMissing] 0 = SOpen.
Check eq_refl : map (lstat_of [LOpen []; LClosed; LUnhealthy; LMissing]) [1; 2; 3; 4] = [SClosed; SUnhealthy; SMissing; SNoIndex].
Check eq_refl : map err_of_stat [SClosed; SUnhealthy; SMissing; SNoIndex] = [KTerminated; KUnhealthy; KIndex; KIndex].
Check eq_refl : map unrecoverable [KIndex; KTerminated; KUnhealthy] = [true; true; false].
Check eq_refl : link_open [LOpen []; LClosed] 0 = true.
Check eq_refl : link_open [LOpen []; LClosed] 1 = false.
Check eq_refl : split_mask [true; false] [1; 2; 3] = ([1; 3], [2]).
Check eq_refl : in_flight OIF = true.
Check eq_refl : in_flight (CIF None) = true.
Check eq_refl : in_flight (OOpen (mkMeta 1 2 3)) = false.
Check eq_refl : open_meta (CIF (Some (mkMeta 1 2 3))) = Some (mkMeta 1 2 3).
Check eq_refl : mbox [LOpen [XCancel (mkCReq (mkKey 0 0 0 1) None)]; LClosed] 0 = [XCancel (mkCReq (mkKey 0 0 0 1) None)].
Check eq_refl : to_ex 1 [XCancel (mkCReq (mkKey 0 0 0 1) None); XCancel (mkCReq (mkKey 1 0 0 2) None)]
                = [XCancel (mkCReq (mkKey 1 0 0 2) None)].
Check eq_refl : trade_pos (Some (mkPos 0 Buy 5)) 0 Sell 7 = (Some (mkPos 0 Sell 2), true).
Check eq_refl : market_last (Some (5, 10)%Z) 5 11 = Some (5, 10)%Z.
Check eq_refl : snapshot_orders [] (mkOrder (mkKey 0 0 0 1) Buy 1 2 Limit GTD OIF) (SnCIF None)
                = [(1, mkOrder (mkKey 0 0 0 1) Buy 1 2 Limit GTD (CIF None))].
