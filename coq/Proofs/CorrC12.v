(** C12 — the oracle [prop_b] is no stricter than the model: whenever the implementation's
    observed behaviour equals the model's ([corr_b]), the oracle accepts it. Hence a failing
    oracle always means a real difference between implementation and proved model.
    (Reconnect cases; for merge cases see [merge_corr_order].) *)
From Coq Require Import List NArith PeanoNat Bool Lia.
From BV Require Import Base.Common Model.Reconnect Proofs.Reconnect Corr.C12.
Import ListNotations.
Local Open Scope N_scope.

(* ---- boolean equalities reflect ----------------------------------------------------------- *)

Lemma tev_eqb_refl : forall e, tev_eqb e e = true.
Proof. destruct e; cbn; try reflexivity; apply N.eqb_refl. Qed.

Lemma tev_eqb_eq : forall a b, tev_eqb a b = true -> a = b.
Proof.
  destruct a, b; cbn; intros H; try discriminate; try reflexivity;
  apply N.eqb_eq in H; now subst.
Qed.

Lemma ev_list_eqb_refl : forall l, ev_list_eqb l l = true.
Proof.
  induction l as [|x l IH]; [reflexivity|].
  unfold ev_list_eqb in *. cbn [list_eqb]. now rewrite tev_eqb_refl, IH.
Qed.

Lemma trace_eqb_eq : forall a b, trace_eqb a b = true -> a = b.
Proof.
  unfold trace_eqb. induction a as [|[t e] a IH]; intros [|[t' e'] b] H; cbn [list_eqb] in H;
  try discriminate; [reflexivity|].
  apply andb_true_iff in H. destruct H as [H1 H2]. unfold pair_eqb in H1. cbn [fst snd] in H1.
  apply andb_true_iff in H1. destruct H1 as [Ht He].
  apply N.eqb_eq in Ht. apply tev_eqb_eq in He. subst. f_equal. now apply IH.
Qed.

Lemma robs_eqb_eq : forall a b, robs_eqb a b = true -> a = b.
Proof.
  intros [t|tr d|tr] [t'|tr' d'|tr'] H; cbn [robs_eqb] in H; try discriminate.
  - apply N.eqb_eq in H. now subst.
  - apply andb_true_iff in H. destruct H as [H1 H2].
    apply trace_eqb_eq in H1. apply onat_eqb_eq in H2. now subst.
Qed.

Lemma prefix_b_app : forall p rest, prefix_b p (p ++ rest) = true.
Proof.
  induction p as [|x p IH]; intros rest; [reflexivity|].
  cbn [app prefix_b]. now rewrite tev_eqb_refl, IH.
Qed.

(* ---- the trace seen with / without handler --------------------------------------------------- *)

Definition Hh (h : bool) (tr : trace) : trace := if h then handle_errors tr else tr.

Lemma Hh_app : forall h a b, Hh h (a ++ b) = Hh h a ++ Hh h b.
Proof. intros [|] a b; cbn [Hh]; [apply handle_errors_app|reflexivity]. Qed.

Lemma Hh_attempt : forall h t tr, Hh h ((t, TAttempt) :: tr) = (t, TAttempt) :: Hh h tr.
Proof. intros [|] t tr; reflexivity. Qed.

Lemma walk_conn_ok : forall o h items now tail rest,
  walk_conn o h now items tail (Hh h (conn_trace o now items tail) ++ rest) =
  Some (conn_end now items tail, rest).
Proof.
  intros o h items. induction items as [|[d i] t IH]; intros now tail rest.
  - destruct h; cbn [conn_trace Hh handle_errors map fst snd handle_ev app walk_conn conn_end];
    now rewrite !N.eqb_refl.
  - destruct i as [v| |e]; cbn [conn_trace conn_end].
    + replace (Hh h ((now + d, TItem v) :: conn_trace o (now + d) t tail))
        with ((now + d, TItem v) :: Hh h (conn_trace o (now + d) t tail)) by (now destruct h).
      cbn [app walk_conn]. rewrite !N.eqb_refl. cbn [andb]. apply IH.
    + destruct h; cbn [Hh handle_errors map fst snd handle_ev app walk_conn];
      now rewrite !N.eqb_refl.
    + destruct h.
      * change (Hh true ((now + d, TErr e) :: conn_trace o (now + d) t tail))
          with ((now + d, THandled e) :: Hh true (conn_trace o (now + d) t tail)).
        cbn [app walk_conn]. rewrite !N.eqb_refl. cbn [andb]. apply IH.
      * change (Hh false ((now + d, TErr e) :: conn_trace o (now + d) t tail))
          with ((now + d, TErr e) :: Hh false (conn_trace o (now + d) t tail)).
        cbn [app walk_conn]. rewrite !N.eqb_refl. cbn [andb negb]. apply IH.
Qed.

(** the trace of a script followed by the pending attempt *)
Definition full (pol : policy) (o cur now : N) (s : list conn) : trace :=
  run pol o cur now s ++ [(end_now pol cur now s, TAttempt)].

Lemma full_head : forall pol o cur now s h,
  exists rest, Hh h (full pol o cur now s) = (now, TAttempt) :: rest.
Proof.
  intros. unfold full. destruct s as [|c s].
  - cbn [run app end_now]. rewrite Hh_attempt. eexists; reflexivity.
  - destruct (run_head pol o cur now c s) as [r E]. rewrite E. cbn [app].
    rewrite Hh_attempt. eexists; reflexivity.
Qed.

Lemma walk_ok : forall pol o h s k now,
  walk pol o h k s (Hh h (full pol o (wait pol k) now s)) = true.
Proof.
  intros pol o h s. induction s as [|c t IH]; intros k now.
  - unfold full. cbn [run app end_now]. rewrite Hh_attempt. destruct h; reflexivity.
  - destruct c as [lat|lat items tail]; unfold full; cbn [run end_now app walk].
    + rewrite Hh_attempt. rewrite multiply_wait.
      fold (full pol o (wait pol (S k)) (now + lat + wait pol k) t).
      destruct (full_head pol o (wait pol (S k)) (now + lat + wait pol k) t h) as [rest E].
      pose proof (IH (S k) (now + lat + wait pol k)) as W. rewrite E in *.
      now rewrite N.eqb_refl, W.
    + rewrite Hh_attempt. rewrite <- app_assoc, Hh_app.
      unfold reset_backoff. change (p_initial pol) with (wait pol 0).
      fold (full pol o (wait pol 0) (conn_end (now + lat) items tail) t).
      rewrite walk_conn_ok.
      destruct (full_head pol o (wait pol 0) (conn_end (now + lat) items tail) t h) as [rest E].
      pose proof (IH 0%nat (conn_end (now + lat) items tail)) as W. rewrite E in *.
      now rewrite N.eqb_refl, W.
Qed.

Lemma spec_outputs_ok : forall pol o h s,
  outputs (Hh h (stream_trace pol o s)) = spec_outputs o h s.
Proof.
  intros pol o [|] s; unfold spec_outputs, spec_ev; cbn [Hh].
  - now rewrite (proj1 (handler_spec pol o s)).
  - rewrite outputs_stream_trace. induction (flat_map (conn_spec o) s) as [|x l IH];
    [reflexivity|cbn [filter]; now rewrite <- IH].
Qed.

Lemma spec_handled_ok : forall pol o h s,
  handled (Hh h (stream_trace pol o s)) = spec_handled o h s.
Proof.
  intros pol o [|] s; unfold spec_handled; cbn [Hh].
  - exact (proj2 (handler_spec pol o s)).
  - apply handled_stream_trace.
Qed.

Lemma handled_prefix : forall p tr, Prefix p tr -> exists rest, handled tr = handled p ++ rest.
Proof. intros p tr [rest ->]. exists (handled rest). apply handled_app. Qed.

(** the oracle accepts the model's own output, for every script, policy, mode *)
Theorem prop_rec_model : forall pol o h f s,
  prop_rec pol o h f s (reconnecting pol o h f s) = true.
Proof.
  intros pol o h f s.
  assert (Hstream : forall s', (forall lat r, s' <> InitFail lat :: r) ->
            s' = s ->
            prop_rec pol o h f s
              (let tr := Hh h (stream_trace pol o s) in
               match f with
               | FwdNone | FwdOpen => RStream tr None
               | FwdClose k => RStream (fst (forward_to (N.to_nat k) tr)) (snd (forward_to (N.to_nat k) tr))
               | FwdTake n => RStream (consumer_take (N.to_nat n) tr) None
               end) = true).
  { intros s' Hnf ->. cbv zeta.
    assert (E : prop_rec pol o h f s =
      fun obs => match obs with
      | RStream tr done =>
        match f with
        | FwdNone | FwdOpen =>
            onat_eqb done None &&
            ev_list_eqb (outputs tr) (spec_outputs o h s) &&
            ev_list_eqb (handled tr) (spec_handled o h s) &&
            first_attempt_at_0 tr && walk pol o h 0 s tr
        | FwdClose k =>
            ev_list_eqb (outputs tr) (firstn (N.to_nat k) (spec_outputs o h s)) &&
            prefix_b (handled tr) (spec_handled o h s) &&
            (match done with
             | None => Nat.leb (length (spec_outputs o h s)) (N.to_nat k)
             | Some _ => Nat.ltb (N.to_nat k) (length (spec_outputs o h s))
             end)
        | FwdTake n =>
            onat_eqb done None &&
            ev_list_eqb (outputs tr) (firstn (N.to_nat n) (spec_outputs o h s)) &&
            prefix_b (handled tr) (spec_handled o h s)
        end
      | _ => false end).
    { unfold prop_rec. destruct s as [|[lat|lat items tail] r]; try reflexivity.
      exfalso. eapply Hnf. reflexivity. }
    assert (Hnone : onat_eqb None None = true) by reflexivity.
    assert (Hfull : ev_list_eqb (outputs (Hh h (stream_trace pol o s))) (spec_outputs o h s) &&
                    ev_list_eqb (handled (Hh h (stream_trace pol o s))) (spec_handled o h s) &&
                    first_attempt_at_0 (Hh h (stream_trace pol o s)) &&
                    walk pol o h 0 s (Hh h (stream_trace pol o s)) = true).
    { rewrite spec_outputs_ok, spec_handled_ok, !ev_list_eqb_refl. cbn [andb].
      unfold stream_trace. change (p_initial pol) with (wait pol 0).
      fold (full pol o (wait pol 0) 0 s).
      destruct (full_head pol o (wait pol 0) 0 s h) as [rest Eh].
      pose proof (walk_ok pol o h s 0%nat 0) as W. rewrite Eh in *.
      cbn [first_attempt_at_0 andb]. exact W. }
    rewrite E. destruct f as [| |k|n]; [| | |
      cbn [onat_eqb andb];
      destruct (handled_prefix _ _ (consumer_take_prefix (Hh h (stream_trace pol o s)) (N.to_nat n)))
        as [rest Hp];
      rewrite spec_handled_ok in Hp; rewrite Hp, prefix_b_app;
      unfold stream_trace; change (p_initial pol) with (wait pol 0);
      fold (full pol o (wait pol 0) 0 s);
      destruct (full_head pol o (wait pol 0) 0 s h) as [rest' Eh]; rewrite Eh;
      rewrite consumer_take_outputs, <- Eh;
      unfold full; change (wait pol 0) with (p_initial pol);
      fold (stream_trace pol o s); rewrite spec_outputs_ok, ev_list_eqb_refl; reflexivity].
    - cbn [onat_eqb andb]. exact Hfull.
    - cbn [onat_eqb andb]. exact Hfull.
    - rewrite forward_outputs, spec_outputs_ok, ev_list_eqb_refl. cbn [andb].
      destruct (handled_prefix _ _ (forward_prefix (Hh h (stream_trace pol o s)) (N.to_nat k)))
        as [rest Hp].
      rewrite spec_handled_ok in Hp. rewrite Hp, prefix_b_app. cbn [andb].
      pose proof (forward_done (Hh h (stream_trace pol o s)) (N.to_nat k)) as D.
      rewrite spec_outputs_ok in D.
      destruct (snd (forward_to (N.to_nat k) (Hh h (stream_trace pol o s)))) as [t|].
      + apply Nat.ltb_lt. destruct (Nat.le_gt_cases (length (spec_outputs o h s)) (N.to_nat k)) as [L|L];
        [|exact L]. apply D in L. discriminate.
      + apply Nat.leb_le. now apply D. }
  destruct s as [|[lat|lat items tail] r].
  - apply (Hstream []); [intros lat r; discriminate|reflexivity].
  - cbn [reconnecting prop_rec]. apply N.eqb_refl.
  - apply (Hstream (InitOk lat items tail :: r)); [intros lat' r'; discriminate|reflexivity].
Qed.

(** hence: agreement with the model implies the oracle holds (reconnect cases) *)
Theorem corr_implies_prop_rec : forall pol o h f s obs,
  corr_b (CRec pol o h f s obs) = true -> prop_b (CRec pol o h f s obs) = true.
Proof.
  intros pol o h f s obs H. cbn [corr_b prop_b] in *.
  apply robs_eqb_eq in H. subst obs. apply prop_rec_model.
Qed.

(* ---- merge cases: membership in the timed relation implies the oracle ------------------------- *)

Lemma le_inf_true : forall t o, le_inf t o = true <-> match o with None => True | Some u => t <= u end.
Proof. intros t [u|]; cbn; [apply N.leb_le|tauto]. Qed.

Lemma wf_abs_items : forall l now e,
  wf_astream now (abs_items now l) (option_map (fun x => now + sumN (map fst l) + x) e).
Proof.
  induction l as [|[d v] l IH]; intros now e.
  - cbn. destruct e; cbn; [lia|exact I].
  - cbn [abs_items wf_astream map fst]. split; [lia|].
    change (sumN (d :: map fst l)) with (d + sumN (map fst l)).
    specialize (IH (now + d) e). destruct e as [x|]; cbn [option_map] in *.
    + now rewrite N.add_assoc.
    + exact IH.
Qed.

Lemma wf_to_abs : forall s, wf_astream 0 (abs_items 0 (ds_items s)) (abs_end s).
Proof.
  intros s. pose proof (wf_abs_items (ds_items s) 0 (ds_end s)) as H. unfold abs_end.
  destruct (ds_end s); cbn [option_map] in *; [now rewrite N.add_0_l in H|exact H].
Qed.

Lemma wf_weaken : forall l e lo lo', lo' <= lo -> wf_astream lo l e -> wf_astream lo' l e.
Proof.
  intros [|[t v] l] e lo lo' H; cbn [wf_astream].
  - destruct e; [lia|trivial].
  - intros [H1 H2]. split; [lia|assumption].
Qed.

(** raising the lower bound to a time not after the head *)
Lemma wf_raise : forall l e lo t,
  wf_astream lo l e -> le_inf t (head_time (l, e)) = true -> wf_astream t l e.
Proof.
  intros [|[t' v] l] e lo t Hw Hle; cbn [wf_astream head_time fst snd] in *.
  - destruct e; [now apply N.leb_le in Hle|exact I].
  - apply N.leb_le in Hle. tauto.
Qed.

Lemma head_le_end : forall l lo u, wf_astream lo l (Some u) ->
  exists h, head_time (l, Some u) = Some h /\ lo <= h /\ h <= u.
Proof.
  induction l as [|[t v] l IH]; intros lo u H; cbn [wf_astream head_time fst snd] in *.
  - exists u. repeat split; [assumption|lia].
  - destruct H as [H1 H2]. destruct (IH t u H2) as (h & _ & Hh1 & Hh2).
    exists t. repeat split; [assumption|lia].
Qed.

Definition times (out : list (N * side * N)) : list N := map (fun x => fst (fst x)) out.

Lemma tm_rel_sorted : forall a b out e,
  tm_rel a b out e -> forall lo,
  wf_astream lo (fst a) (snd a) -> wf_astream lo (fst b) (snd b) ->
  nondecreasing lo (times out) = true /\
  e = min_end (snd a) (snd b) /\
  match e with Some t => lo <= t /\ Forall (fun x => x <= t) (times out) | None => True end.
Proof.
  intros a b out e H. induction H; intros lo Wa Wb; cbn [fst snd times map nondecreasing] in *.
  - repeat split.
  - destruct r as [r er]. cbn [fst snd] in *. split; [reflexivity|].
    split; [|split; [assumption|constructor]].
    destruct er as [u|]; [|reflexivity]. cbn [min_end]. f_equal.
    destruct (head_le_end r lo u Wb) as (h & Hh & _ & Hu). rewrite Hh in H.
    apply N.leb_le in H. lia.
  - destruct l as [l el]. cbn [fst snd] in *. split; [reflexivity|].
    split; [|split; [assumption|constructor]].
    destruct el as [u|]; [|reflexivity]. cbn [min_end]. f_equal.
    destruct (head_le_end l lo u Wa) as (h & Hh & _ & Hu). rewrite Hh in H.
    apply N.leb_le in H. lia.
  - destruct r as [r er]. cbn [fst snd wf_astream] in *. destruct Wa as [Wt Wl].
    destruct (IHtm_rel t Wl (wf_raise r er lo t Wb H)) as (S1 & S2 & S3).
    split; [apply andb_true_iff; split; [now apply N.leb_le|exact S1]|].
    split; [exact S2|]. destruct e as [te|]; [|exact I].
    destruct S3 as [S3 S4]. split; [lia|]. constructor; assumption.
  - destruct l as [l el]. cbn [fst snd wf_astream] in *. destruct Wb as [Wt Wr].
    destruct (IHtm_rel t (wf_raise l el lo t Wa H) Wr) as (S1 & S2 & S3).
    split; [apply andb_true_iff; split; [now apply N.leb_le|exact S1]|].
    split; [exact S2|]. destruct e as [te|]; [|exact I].
    destruct S3 as [S3 S4]. split; [lia|]. constructor; assumption.
Qed.

Lemma tv_prefix_b_app : forall p rest, tv_prefix_b p (p ++ rest) = true.
Proof.
  induction p as [|[t v] p IH]; intros rest; [reflexivity|].
  cbn [app tv_prefix_b]. unfold tv_eqb, pair_eqb. cbn [fst snd]. now rewrite !N.eqb_refl, IH.
Qed.

(** suffix of a well-formed stream whose head is not before t: nothing in it is before t *)
Lemma count_before_suffix : forall l e lo t,
  wf_astream lo l e -> le_inf t (head_time (l, e)) = true -> count_before t l = 0%nat.
Proof.
  induction l as [|[t' v] l IH]; intros e lo t Hw Hle; [reflexivity|].
  cbn [wf_astream head_time fst snd] in *. destruct Hw as [H1 H2]. apply N.leb_le in Hle.
  unfold count_before in *. cbn [filter fst].
  destruct (N.ltb_spec t' t) as [L|L]; [lia|].
  apply (IH e t' t H2). apply le_inf_true.
  destruct l as [|[t'' v''] l]; cbn [head_time fst snd wf_astream] in *.
  - destruct e; [lia|exact I].
  - lia.
Qed.

Lemma wf_suffix : forall p l2 e lo, wf_astream lo (p ++ l2) e -> exists lo', wf_astream lo' l2 e.
Proof.
  induction p as [|[t v] p IH]; intros l2 e lo H; [now exists lo|].
  cbn [app wf_astream] in H. destruct H as [_ H]. now apply (IH l2 e t).
Qed.

Lemma of_side_times : forall s out t,
  Forall (fun x => x <= t) (times out) -> Forall (fun x => fst x <= t) (of_side s out).
Proof.
  intros s out t. unfold of_side, times. induction out as [|[[t' s'] v] out IH]; intros H;
  cbn [map filter fst snd] in *; [constructor|]. inversion H; subst.
  destruct (side_eqb s' s); cbn [map fst snd]; [constructor; [assumption|now apply IH]|now apply IH].
Qed.

Lemma count_upto_all : forall l t, Forall (fun x => fst x <= t) l -> count_upto t l = length l.
Proof.
  induction l as [|x l IH]; intros t H; [reflexivity|]. inversion H; subst.
  unfold count_upto in *. cbn [filter]. destruct (N.leb_spec (fst x) t); [|lia].
  cbn [length]. f_equal. now apply IH.
Qed.

Lemma count_before_le : forall l t, (count_before t l <= length l)%nat.
Proof.
  induction l as [|x l IH]; intros t; [apply Nat.le_refl|].
  unfold count_before in *. cbn [filter]. specialize (IH t).
  destruct (fst x <? t); cbn [length]; lia.
Qed.

Lemma count_before_app : forall a b t, count_before t (a ++ b) = (count_before t a + count_before t b)%nat.
Proof. intros. unfold count_before. now rewrite filter_app, app_length. Qed.
Lemma count_upto_app : forall a b t, count_upto t (a ++ b) = (count_upto t a + count_upto t b)%nat.
Proof. intros. unfold count_upto. now rewrite filter_app, app_length. Qed.

Lemma side_counts : forall al ol l2 e_other t lo,
  al = ol ++ l2 -> wf_astream lo al e_other ->
  Forall (fun x => fst x <= t) ol ->
  (l2 = [] \/ le_inf t (head_time (l2, e_other)) = true) ->
  Nat.leb (count_before t al) (length ol) && Nat.leb (length ol) (count_upto t al) = true.
Proof.
  intros al ol l2 eo t lo -> Hw Hol Hl2.
  rewrite count_before_app, count_upto_app, (count_upto_all ol t Hol).
  assert (Z : count_before t l2 = 0%nat).
  { destruct Hl2 as [->|Hle]; [reflexivity|].
    destruct (wf_suffix ol l2 eo lo Hw) as [lo' Hw']. now apply (count_before_suffix l2 eo lo' t). }
  rewrite Z. pose proof (count_before_le ol t).
  apply andb_true_iff. split; apply Nat.leb_le; lia.
Qed.

Theorem corr_implies_prop_merge : forall l r out e post panic,
  corr_b (CMerge l r out e post panic) = true -> prop_b (CMerge l r out e post panic) = true.
Proof.
  intros l r out e post panic H. cbn [corr_b prop_b] in *. unfold prop_merge.
  apply andb_true_iff in H. destruct H as [H Hc]. rewrite H. cbn [andb].
  apply tm_check_sound in Hc.
  pose proof (wf_to_abs l) as Wl. pose proof (wf_to_abs r) as Wr.
  destruct (tm_rel_sorted _ _ _ _ Hc 0 Wl Wr) as (S1 & S2 & S3). cbn [fst snd] in *.
  destruct (tm_rel_sound _ _ _ _ Hc) as (l2 & r2 & E1 & E2 & _ & He). cbn [fst snd] in *.
  fold (times out). rewrite S1.
  rewrite E1 at 1. rewrite tv_prefix_b_app. rewrite E2 at 1. rewrite tv_prefix_b_app.
  rewrite <- S2. rewrite (proj2 (onat_eqb_eq e e) eq_refl). cbn [andb].
  destruct e as [t|].
  - destruct S3 as [_ S4].
    pose proof (of_side_times SL out t S4) as FL. pose proof (of_side_times SR out t S4) as FR.
    assert (CL : Nat.leb (count_before t (abs_items 0 (ds_items l))) (length (of_side SL out)) &&
                 Nat.leb (length (of_side SL out)) (count_upto t (abs_items 0 (ds_items l))) = true).
    { eapply side_counts; [exact E1|exact Wl|exact FL|]. destruct He as [(-> & _)|(_ & _ & Hle)]; [now left|now right]. }
    assert (CR : Nat.leb (count_before t (abs_items 0 (ds_items r))) (length (of_side SR out)) &&
                 Nat.leb (length (of_side SR out)) (count_upto t (abs_items 0 (ds_items r))) = true).
    { eapply side_counts; [exact E2|exact Wr|exact FR|]. destruct He as [(_ & _ & Hle)|(-> & _)]; [now right|now left]. }
    apply andb_true_iff in CL. destruct CL as [CL1 CL2].
    apply andb_true_iff in CR. destruct CR as [CR1 CR2].
    now rewrite CL1, CL2, CR1, CR2.
  - destruct He as (-> & -> & _ & _). rewrite app_nil_r in E1, E2.
    rewrite E1, E2. now rewrite !Nat.eqb_refl.
Qed.

(** the oracle is no stricter than the model, for every case *)
Theorem corr_implies_prop : forall c, corr_b c = true -> prop_b c = true.
Proof.
  intros [pol o h f s obs|l r out e post panic] H.
  - now apply corr_implies_prop_rec.
  - now apply corr_implies_prop_merge.
Qed.
Print Assumptions corr_implies_prop.
