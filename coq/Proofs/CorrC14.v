(** The C14 oracle is no stricter than the model: on every well-formed case on which the
    implementation's observations coincide with the model ([corr_b]), the property oracle
    ([prop_b]) accepts.  Hence a [prop_b] failure on a case always comes with a genuine
    difference between the observed behaviour and the proved model. *)
From BV Require Import Base.Common Model.Connectivity Proofs.Connectivity Corr.C14.

(* ---- boolean equalities decide Leibniz equality ------------------------------------------------ *)

Lemma health_eqb_eq : forall a b, health_eqb a b = true -> a = b.
Proof. intros [|] [|]; cbn; congruence. Qed.
Lemma health_eqb_refl : forall a, health_eqb a a = true.
Proof. intros [|]; reflexivity. Qed.

Lemma cstate_eqb_eq : forall a b, cstate_eqb a b = true -> a = b.
Proof.
  intros [m1 a1] [m2 a2] H. unfold cstate_eqb in H. cbn in H. apply andb_true_iff in H.
  destruct H as [H1 H2]. apply health_eqb_eq in H1, H2. now subst.
Qed.
Lemma cstate_eqb_refl : forall a, cstate_eqb a a = true.
Proof. intros [m a]. unfold cstate_eqb. cbn. now rewrite !health_eqb_refl. Qed.

Lemma list_eqb_eq : forall {A} (eqb : A -> A -> bool),
  (forall a b, eqb a b = true -> a = b) -> forall l1 l2, list_eqb eqb l1 l2 = true -> l1 = l2.
Proof.
  intros A eqb H. induction l1 as [|x t IH]; intros [|y u] E; cbn in E; try discriminate; [reflexivity|].
  apply andb_true_iff in E. destruct E as [E1 E2]. f_equal; [now apply H|now apply IH].
Qed.
Lemma list_eqb_refl : forall {A} (eqb : A -> A -> bool),
  (forall a, eqb a a = true) -> forall l, list_eqb eqb l l = true.
Proof. intros A eqb H. induction l; cbn; [reflexivity|]. now rewrite H, IHl. Qed.

Lemma entries_eqb_eq : forall l1 l2, entries_eqb l1 l2 = true -> l1 = l2.
Proof.
  apply list_eqb_eq. intros [k1 c1] [k2 c2] H. unfold pair_eqb in H. cbn in H.
  apply andb_true_iff in H. destruct H as [H1 H2]. apply N.eqb_eq in H1. apply cstate_eqb_eq in H2. now subst.
Qed.
Lemma entries_eqb_refl : forall l, entries_eqb l l = true.
Proof.
  apply list_eqb_refl. intros [k c]. unfold pair_eqb. cbn. now rewrite N.eqb_refl, cstate_eqb_refl.
Qed.

Lemma nodup_b_NoDup : forall l, nodup_b l = true -> NoDup l.
Proof.
  induction l as [|x t IH]; intros H; [constructor|].
  cbn in H. apply andb_true_iff in H. destruct H as [H1 H2]. constructor; [|now apply IH].
  intros Hin. apply negb_true_iff in H1. apply (proj2 (existsb_in x t)) in Hin. congruence.
Qed.

(* ---- the model's table updates are the specification's [spec_set] ---------------------------- *)

Lemma spec_set_cons : forall i k h a c t,
  spec_set i k h ((a, c) :: t) =
  (if N.eqb a i then (a, match k with KMarket => mkCS h (account c) | KAccount => mkCS (market_data c) h end)
   else (a, c)) :: spec_set i k h t.
Proof. reflexivity. Qed.

Lemma spec_set_notin : forall i k h l, ~ In i (map fst l) -> spec_set i k h l = l.
Proof.
  induction l as [|[a c] t IH]; intros H; [reflexivity|]. rewrite spec_set_cons. cbn [map fst In] in H.
  destruct (N.eqb_spec a i) as [E|E]; [exfalso; apply H; now left|].
  f_equal. apply IH. intros Hin. apply H. now right.
Qed.

Lemma upd_key_spec_set : forall l i k h, NoDup (map fst l) ->
  upd_key i (setter k h) l = spec_set i k h l.
Proof.
  induction l as [|[a c] t IH]; intros i k h Hnd; [reflexivity|]. rewrite spec_set_cons. cbn [upd_key].
  cbn [map fst] in Hnd. inversion Hnd; subst.
  destruct (N.eqb_spec a i) as [E|E].
  - subst. rewrite spec_set_notin by assumption. destruct k; reflexivity.
  - f_equal. now apply IH.
Qed.

Lemma spec_set_same : forall l i k c, NoDup (map fst l) -> get_key i l = Some c ->
  spec_set i k (getter k c) l = l.
Proof.
  induction l as [|[a c'] t IH]; intros i k c Hnd G; [discriminate|]. rewrite spec_set_cons.
  cbn [get_key] in G. cbn [map fst] in Hnd. inversion Hnd; subst.
  destruct (N.eqb_spec a i) as [E|E].
  - inversion G; subst. rewrite spec_set_notin by assumption. destruct k, c; reflexivity.
  - f_equal. now apply IH.
Qed.

Lemma gen_exchanges : forall s i k item, NoDup (keys s) -> In i (keys s) -> Inv s ->
  exchanges (gen s i k item) = spec_set i k (if item then Healthy else Reconnecting) (exchanges s).
Proof.
  intros s i k item Hnd Hin HI.
  pose proof (gen_link_same s i k item Hin HI) as L.
  destruct (get_key_in i (exchanges s) Hin) as [c Hc].
  destruct item; unfold gen in *.
  - destruct (is_healthy (global s)).
    + rewrite link_get, Hc in L. cbn in L. injection L as L. rewrite <- L. symmetry. now apply spec_set_same.
    + destruct (link s i k) as [[|]|] eqn:El.
      * rewrite link_get, Hc in El. cbn in El. injection El as El. rewrite <- El. symmetry. now apply spec_set_same.
      * cbn [exchanges]. now apply upd_key_spec_set.
      * cbn [exchanges]. now apply upd_key_spec_set.
  - cbn [exchanges]. now apply upd_key_spec_set.
Qed.

Lemma table_all_healthy_eq : forall l, table_all_healthy l = all_states_healthy l.
Proof. reflexivity. Qed.

Lemma Inv_eqb : forall s, Inv s -> Bool.eqb (is_healthy (global s)) (table_all_healthy (exchanges s)) = true.
Proof.
  intros s [H1 H2]. rewrite table_all_healthy_eq.
  destruct (global s); cbn.
  - now rewrite H1.
  - destruct (all_states_healthy (exchanges s)); [specialize (H2 eq_refl); discriminate|reflexivity].
Qed.

Lemma eqb_Inv : forall g l, Bool.eqb (is_healthy g) (table_all_healthy l) = true -> Inv (mkConn g l).
Proof.
  intros g l H. rewrite table_all_healthy_eq in H. unfold Inv. cbn [global exchanges].
  destruct g, (all_states_healthy l); cbn in H; split; intros E; try reflexivity; discriminate.
Qed.

Lemma get_key_of_in : forall l x, NoDup (map fst l) -> In x l -> get_key (fst x) l = Some (snd x).
Proof.
  induction l as [|[a c] t IH]; intros x Hnd Hin; [contradiction|]. cbn in *. inversion Hnd; subst.
  destruct Hin as [E|Hin].
  - subst. cbn. now rewrite N.eqb_refl.
  - destruct (N.eqb_spec a (fst x)) as [E|E]; [|now apply IH].
    exfalso. apply H1. subst. now apply in_map.
Qed.

(** the connectivity part of a step depends on the connectivity part of the engine only *)
Lemma step_conn_indep : forall e1 e2 ev, econn e1 = econn e2 -> econn (step e1 ev) = econn (step e2 ev).
Proof.
  intros [s1 c1] [s2 c2] ev H. cbn in H. subst. unfold step, process. cbn [econn calls].
  destruct ev as [id|idx|id|id].
  - destruct (update_from_market_event s2 id); reflexivity.
  - destruct (update_from_account_event s2 idx); reflexivity.
  - destruct (update_from_market_reconnecting s2 id); reflexivity.
  - destruct (update_from_account_reconnecting s2 id); reflexivity.
Qed.

Lemma skipn_app_length : forall {A} (l x : list A), skipn (length l) (l ++ x) = x.
Proof. induction l; cbn; auto. Qed.

Lemma list_eqb_N_eq : forall l1 l2, list_eqb N.eqb l1 l2 = true -> l1 = l2.
Proof. apply list_eqb_eq. intros a b H. now apply N.eqb_eq. Qed.
Lemma list_eqb_N_refl : forall l, list_eqb N.eqb l l = true.
Proof. apply list_eqb_refl. apply N.eqb_refl. Qed.

Lemma out_matches_expected : forall ids ev i k item o,
  link_of ids ev = Some (i, k, item) -> out_matches ev (spec_output ev) o = true ->
  out_obs_eqb (expected_out i k item) o || (item && is_account_item ev && out_obs_eqb OutPositionExit o) = true.
Proof.
  intros ids ev i k item o Hl H. destruct ev as [id|idx|id|id]; cbn in Hl.
  - destruct (existsb (N.eqb id) ids); [|discriminate]. inversion Hl; subst. destruct o; cbn in *; try discriminate; try reflexivity; try (rewrite H; reflexivity).
  - destruct (nth_error ids (N.to_nat idx)); [|discriminate]. inversion Hl; subst. destruct o; cbn in *; try discriminate; try reflexivity; try (rewrite H; reflexivity).
  - destruct (existsb (N.eqb id) ids); [|discriminate]. inversion Hl; subst. destruct o; cbn in *; try discriminate; try reflexivity; try (rewrite H; reflexivity).
  - destruct (existsb (N.eqb id) ids); [|discriminate]. inversion Hl; subst. destruct o; cbn in *; try discriminate; try reflexivity; try (rewrite H; reflexivity).
Qed.

Lemma spec_calls_single : forall ids ev i k item, link_of ids ev = Some (i, k, item) ->
  spec_calls [ev] = if item then [] else [i].
Proof.
  intros ids ev i k item Hl. destruct ev as [id|idx|id|id]; cbn in Hl.
  - destruct (existsb (N.eqb id) ids); [|discriminate]. now inversion Hl.
  - destruct (nth_error ids (N.to_nat idx)); [|discriminate]. now inversion Hl.
  - destruct (existsb (N.eqb id) ids); [|discriminate]. now inversion Hl.
  - destruct (existsb (N.eqb id) ids); [|discriminate]. now inversion Hl.
Qed.

(* ---- the run ---------------------------------------------------------------------------------------- *)

Lemma corr_run_prop_run : forall ids evs os e b hist,
  NoDup ids -> ids <> [] -> keys (econn e) = ids -> Inv (econn e) ->
  forallb (valid_event ids) evs = true ->
  (b = true -> valid_history ids hist /\ econn e = econn (run (init_engine ids) hist)) ->
  corr_run e evs os = true ->
  prop_run ids b hist (exchanges (econn e)) evs os = true.
Proof.
  intros ids evs. induction evs as [|ev evs' IH]; intros os e b hist Hnd Hne Hk HI Hv Hb Hc.
  - destruct os; [reflexivity|discriminate].
  - destruct os as [|o os']; [discriminate|].
    cbn [forallb] in Hv. apply andb_true_iff in Hv. destruct Hv as [Hv1 Hv2].
    destruct (valid_event_link ids ev Hv1) as [i [k [item Hl]]].
    cbn [corr_run] in Hc.
    rewrite (process_gen ids e ev i k item Hnd Hk Hl) in Hc. cbn [fst snd econn calls] in Hc.
    repeat (apply andb_true_iff in Hc; destruct Hc as [Hc ?]).
    rename H into Hrest, H0 into Hrt, H1 into Hcalls, H2 into Hout, H3 into Hlinks.
    apply health_eqb_eq in Hc. apply entries_eqb_eq in Hlinks.
    rewrite skipn_app_length in Hcalls. apply list_eqb_N_eq in Hcalls.
    assert (Hin : In i (keys (econn e))) by (rewrite Hk; eapply link_of_in; eauto).
    assert (Hnd' : NoDup (keys (econn e))) by (now rewrite Hk).
    set (s' := gen (econn e) i k item) in *.
    assert (K' : keys s' = ids) by (unfold s'; now rewrite gen_keys).
    assert (I' : Inv s') by (now apply gen_Inv).
    cbn [prop_run]. apply andb_true_iff. split; [apply andb_true_iff; split; [apply andb_true_iff; split|]|].
    + (* obs_ok *)
      unfold obs_ok. rewrite Hl. rewrite <- Hlinks, <- Hc, <- Hcalls.
      unfold s'. rewrite gen_exchanges by assumption. rewrite entries_eqb_refl. cbn [andb].
      fold s'. rewrite <- (gen_exchanges (econn e) i k item Hnd' Hin HI). fold s'.
      rewrite (Inv_eqb s' I'). cbn [andb].
      rewrite (spec_calls_single ids ev i k item Hl), list_eqb_N_refl. cbn [andb].
      eapply out_matches_expected; eauto.
    + (* links follow the last-event specification *)
      destruct b; [|reflexivity]. destruct (Hb eq_refl) as [Hvh He].
      assert (Hvh' : valid_history ids (hist ++ [ev])).
      { apply valid_history_app. split; [assumption|]. unfold valid_history. cbn. now rewrite Hv1. }
      assert (Es : s' = econn (run (init_engine ids) (hist ++ [ev]))).
      { rewrite run_snoc. rewrite <- (step_conn_indep e _ ev He). unfold step.
        rewrite (process_gen ids e ev i k item Hnd Hk Hl). reflexivity. }
      destruct (run_refines ids (hist ++ [ev]) Hnd Hne Hvh') as [_ [L [G _]]]. cbn zeta in L, G.
      rewrite <- Es in L, G.
      unfold links_follow_spec. rewrite <- Hlinks, <- Hc.
      apply andb_true_iff. split; [apply andb_true_iff; split|].
      * fold (keys s'). rewrite K'. apply list_eqb_N_refl.
      * apply forallb_forall. intros x Hx.
        assert (Hxin : In (fst x) ids) by (rewrite <- K'; unfold keys; now apply in_map).
        assert (Gx : get_key (fst x) (exchanges s') = Some (snd x)).
        { apply get_key_of_in; [|assumption]. fold (keys s'). now rewrite K'. }
        pose proof (L (fst x) KMarket Hxin) as L1. pose proof (L (fst x) KAccount Hxin) as L2.
        rewrite link_get, Gx in L1, L2. cbn in L1, L2. injection L1 as L1. injection L2 as L2.
        rewrite L1, L2. now rewrite !health_eqb_refl.
      * destruct (spec_global ids (hist ++ [ev])) eqn:Esg.
        -- pose proof (proj1 (spec_global_iff ids (hist ++ [ev])) Esg) as A.
           rewrite (proj2 G A). reflexivity.
        -- destruct (global s') eqn:Eg; [|reflexivity].
           pose proof (proj2 (spec_global_iff ids (hist ++ [ev])) (proj1 G eq_refl)) as A. congruence.
    + (* persist / restore *)
      rewrite <- Hlinks, <- Hc. exact Hrt.
    + (* the rest of the run *)
      rewrite <- Hlinks.
      apply (IH os' (mkEngine s' (calls e ++ spec_calls [ev])) b (hist ++ [ev])); try assumption.
      intros ->. destruct (Hb eq_refl) as [Hvh He]. split.
      * apply valid_history_app. split; [assumption|]. unfold valid_history. cbn. now rewrite Hv1.
      * cbn [econn]. rewrite run_snoc. rewrite <- (step_conn_indep e _ ev He). unfold step.
        rewrite (process_gen ids e ev i k item Hnd Hk Hl). reflexivity.
Qed.

(** [cut] keeps unjudgeable leftovers only when the two lists have different lengths, in which
    case [corr_run] is false anyway; so validity is derived under [corr_run = true]. *)
Lemma cut_corr_valid : forall ids evs os e,
  corr_run e (fst (cut ids evs os)) (snd (cut ids evs os)) = true ->
  forallb (valid_event ids) (fst (cut ids evs os)) = true.
Proof.
  induction evs as [|ev t IH]; intros os e H.
  - destruct os; reflexivity.
  - destruct os as [|o os].
    + cbn [cut fst snd] in H. cbn [corr_run] in H. discriminate.
    + cbn [cut] in *. destruct (valid_event ids ev) eqn:Ev; [|reflexivity].
      destruct (cut ids t os) as [a b] eqn:Ec. cbn [fst snd] in *. cbn [forallb]. rewrite Ev. cbn [andb].
      cbn [corr_run] in H. apply andb_true_iff in H. destruct H as [_ H].
      specialize (IH os (fst (process e ev))). rewrite Ec in IH. cbn [fst snd] in IH. now apply IH.
Qed.

Lemma combine_keys : forall (ids : list N) (ls : list cstate),
  length ls = length ids -> map fst (combine ids ls) = ids.
Proof.
  induction ids as [|a t IH]; intros [|c u] H; cbn in *; try discriminate; [reflexivity|].
  f_equal. apply IH. congruence.
Qed.

Theorem C14_oracle_no_stricter_than_model : forall c,
  wf_case c = true -> corr_b c = true -> prop_b c = true.
Proof.
  intros c Hwf Hc. unfold wf_case in Hwf. apply andb_true_iff in Hwf. destruct Hwf as [Hwf Hlen].
  apply andb_true_iff in Hwf. destruct Hwf as [Hnd Hne].
  apply nodup_b_NoDup in Hnd.
  assert (Hne' : c_ids c <> []).
  { intros E. rewrite E in Hne. discriminate. }
  unfold corr_b in Hc. unfold prop_b.
  destruct (cut (c_ids c) (c_events c) (c_obs c)) as [evs os] eqn:Ecut.
  assert (Hv : forallb (valid_event (c_ids c)) evs = true).
  { pose proof (cut_corr_valid (c_ids c) (c_events c) (c_obs c) (start_engine c)) as V.
    rewrite Ecut in V. now apply V. }
  unfold start_engine in Hc. destruct (c_start c) as [[g ls]|].
  - destruct (Bool.eqb (is_healthy g) (table_all_healthy (combine (c_ids c) ls))) eqn:Eg; [|reflexivity].
    apply Nat.eqb_eq in Hlen.
    apply (corr_run_prop_run (c_ids c) evs os (mkEngine (mkConn g (combine (c_ids c) ls)) []) false []);
      try assumption.
    + unfold keys. cbn. now apply combine_keys.
    + cbn [econn]. now apply eqb_Inv.
    + discriminate.
  - apply (corr_run_prop_run (c_ids c) evs os (init_engine (c_ids c)) true []); try assumption.
    + apply init_keys.
    + now apply init_Inv.
    + intros _. split; reflexivity.
Qed.
