(** C08 — the oracle is no stricter than the model: on every case inside the input requirement
    on which the model reproduces the observations ([corr_b]), the property oracle holds
    ([prop_b]).  Hence a case can only be reported as a property violation when the
    implementation's observed behaviour really differs from the model's. *)
From BV Require Import Base.Common Model.MockExchange Proofs.MockExchange Corr.C08.

Local Open Scope Qc_scope.

(* ---- boolean equalities decide Leibniz equality (Qc is canonical) --------------------------- *)

Ltac split_andb :=
  repeat match goal with
  | H : _ && _ = true |- _ => apply andb_true_iff in H; destruct H
  end.

Lemma side_eqb_eq : forall a b, side_eqb a b = true -> a = b.
Proof. destruct a, b; cbn; congruence. Qed.
Lemma okind_eqb_eq : forall a b, okind_eqb a b = true -> a = b.
Proof. destruct a, b; cbn; congruence. Qed.

Ltac eqb_to_eq :=
  split_andb;
  repeat match goal with
  | H : Qc_eqb _ _ = true |- _ => apply Qc_eqb_eq in H
  | H : N.eqb _ _ = true |- _ => apply N.eqb_eq in H
  | H : Z.eqb _ _ = true |- _ => apply Z.eqb_eq in H
  | H : side_eqb _ _ = true |- _ => apply side_eqb_eq in H
  | H : okind_eqb _ _ = true |- _ => apply okind_eqb_eq in H
  end; subst.

Lemma bal_eqb_eq : forall a b, bal_eqb a b = true -> a = b.
Proof. intros [] [] H. unfold bal_eqb in H. cbn in H. eqb_to_eq. reflexivity. Qed.
Lemma request_eqb_eq : forall a b, request_eqb a b = true -> a = b.
Proof. intros [] [] H. unfold request_eqb in H. cbn in H. eqb_to_eq. reflexivity. Qed.
Lemma trade_eqb_eq : forall a b, trade_eqb a b = true -> a = b.
Proof. intros [] [] H. unfold trade_eqb in H. cbn in H. eqb_to_eq. reflexivity. Qed.
Lemma order_eqb_eq : forall a b, order_eqb a b = true -> a = b.
Proof. intros [] [] H. unfold order_eqb in H. cbn in H. eqb_to_eq. reflexivity. Qed.

Lemma list_eqb_eq : forall (A : Type) (eqb : A -> A -> bool),
  (forall a b, eqb a b = true -> a = b) -> forall l1 l2, list_eqb eqb l1 l2 = true -> l1 = l2.
Proof.
  intros A eqb H. induction l1 as [|x t IH]; intros [|y u] E; cbn in E; try discriminate.
  - reflexivity.
  - apply andb_true_iff in E. destruct E as [E1 E2]. f_equal; [apply H; exact E1|apply IH; exact E2].
Qed.
Lemma option_eqb_eq : forall (A : Type) (eqb : A -> A -> bool),
  (forall a b, eqb a b = true -> a = b) -> forall x y, option_eqb eqb x y = true -> x = y.
Proof. intros A eqb H [x|] [y|] E; cbn in E; try discriminate; [f_equal; apply H; exact E|reflexivity]. Qed.
Lemma pair_eqb_eq : forall (A B : Type) (ea : A -> A -> bool) (eb : B -> B -> bool),
  (forall a b, ea a b = true -> a = b) -> (forall a b, eb a b = true -> a = b) ->
  forall x y, pair_eqb ea eb x y = true -> x = y.
Proof.
  intros A B ea eb Ha Hb [x1 x2] [y1 y2] E. unfold pair_eqb in E. cbn in E.
  apply andb_true_iff in E. destruct E as [E1 E2]. f_equal; [apply Ha|apply Hb]; assumption.
Qed.

Lemma N_eqb_eq' : forall a b : N, N.eqb a b = true -> a = b.
Proof. intros a b H. apply N.eqb_eq. exact H. Qed.

Lemma bals_eqb_eq : forall a b, bals_eqb a b = true -> a = b.
Proof. apply list_eqb_eq. apply pair_eqb_eq; [exact N_eqb_eq'|exact bal_eqb_eq]. Qed.
Lemma trades_eqb_eq : forall a b, trades_eqb a b = true -> a = b.
Proof. apply list_eqb_eq. exact trade_eqb_eq. Qed.
Lemma orders_eqb_eq : forall a b, orders_eqb a b = true -> a = b.
Proof. apply list_eqb_eq. exact order_eqb_eq. Qed.
Lemma oerror_eqb_eq : forall a b, oerror_eqb a b = true -> a = b.
Proof. intros [] [] H; cbn in H; try discriminate; eqb_to_eq; reflexivity. Qed.
Lemma result_eqb_eq : forall a b, result_eqb a b = true -> a = b.
Proof.
  intros [] [] H; cbn in H; try discriminate.
  - eqb_to_eq. reflexivity.
  - f_equal. apply oerror_eqb_eq. exact H.
Qed.
Lemma notif_eqb_eq : forall a b, notif_eqb a b = true -> a = b.
Proof.
  intros [a1 b1 t1] [a2 b2 t2] H. unfold notif_eqb in H. cbn in H. split_andb.
  apply N.eqb_eq in H. apply bal_eqb_eq in H1. apply trade_eqb_eq in H0. subst. reflexivity.
Qed.
Lemma event_eqb_eq : forall a b, event_eqb a b = true -> a = b.
Proof.
  intros [] [] H; cbn in H; try discriminate.
  - split_andb. apply N.eqb_eq in H. apply bal_eqb_eq in H0. subst. reflexivity.
  - f_equal. apply trade_eqb_eq. exact H.
Qed.
Lemma events_eqb_eq : forall a b, events_eqb a b = true -> a = b.
Proof. apply list_eqb_eq. exact event_eqb_eq. Qed.
Lemma rresp_eqb_eq : forall a b, rresp_eqb a b = true -> a = b.
Proof.
  intros [] [] H; cbn in H; try discriminate.
  - split_andb. apply bals_eqb_eq in H. apply orders_eqb_eq in H1. apply orders_eqb_eq in H0.
    subst. reflexivity.
  - f_equal. apply bals_eqb_eq. exact H.
  - f_equal. apply orders_eqb_eq. exact H.
  - f_equal. apply trades_eqb_eq. exact H.
  - f_equal. apply result_eqb_eq. exact H.
  - reflexivity.
Qed.

(** ... and they are reflexive *)
Lemma side_eqb_refl : forall a, side_eqb a a = true. Proof. destruct a; reflexivity. Qed.
Lemma trade_eqb_refl : forall a, trade_eqb a a = true.
Proof.
  intros []. unfold trade_eqb. cbn. rewrite !N.eqb_refl, Z.eqb_refl, side_eqb_refl, !Qc_eqb_refl.
  reflexivity.
Qed.
Lemma list_eqb_refl : forall (A : Type) (eqb : A -> A -> bool),
  (forall a, eqb a a = true) -> forall l, list_eqb eqb l l = true.
Proof. intros A eqb H. induction l as [|x t IH]; cbn; [reflexivity|]. rewrite H, IH. reflexivity. Qed.
Lemma trades_eqb_refl : forall l, trades_eqb l l = true.
Proof. apply list_eqb_refl. exact trade_eqb_refl. Qed.

(* ---- association lists without duplicate keys ----------------------------------------------------- *)

Lemma nodup_keys_In : forall (l : list (N * bal)) k b,
  nodup_keys (map fst l) = true -> In (k, b) l -> lookup l k = Some b.
Proof.
  induction l as [|[k' b'] t IH]; intros k b H Hin; cbn in *; [contradiction|].
  apply andb_true_iff in H. destruct H as [H1 H2].
  destruct Hin as [E|Hin].
  - inversion E; subst. rewrite N.eqb_refl. reflexivity.
  - destruct (N.eqb_spec k' k) as [->|Hk].
    + exfalso. apply negb_true_iff in H1.
      assert (X : existsb (N.eqb k) (map fst t) = true).
      { apply existsb_exists. exists k. split; [|apply N.eqb_refl].
        apply in_map_iff. exists (k, b). split; [reflexivity|exact Hin]. }
      congruence.
    + apply IH; assumption.
Qed.

(* ---- the relation between the model state and the oracle state ------------------------------------ *)

Record Rel (cfg : config) (st : state) (o : ostate) : Prop := mkRel {
  rel_led : forall a, os_led o a = abs_ledger st a;
  rel_keys : os_keys o = map fst (s_bals st);
  rel_nodup : nodup_keys (map fst (s_bals st)) = true;
  rel_ids : forall id, In id (os_ids o) -> (id < s_seq st)%N;
  rel_nonneg : os_nonneg o = true -> Nonneg st;
  rel_wf : wf_state cfg st = true }.

Lemma Rel_init : forall cfg init, wf_state cfg init = true ->
  nodup_keys (map fst (s_bals init)) = true -> Rel cfg init (ostate_init init).
Proof.
  intros cfg init W D. constructor; cbn; auto.
  - intros id [].
  - apply nonneg_state_Nonneg.
Qed.

Lemma list_eqb_N_refl : forall l : list N, list_eqb N.eqb l l = true.
Proof. apply list_eqb_refl. exact N.eqb_refl. Qed.

(** under [Rel] the balances of the model state pass the oracle's ledger test *)
Lemma Rel_ledger_is : forall cfg st o, Rel cfg st o -> ledger_is o (s_bals st) = true.
Proof.
  intros cfg st o R. destruct R as [Rl Rk Rd Ri Rn Rw]. unfold ledger_is.
  rewrite Rk, list_eqb_N_refl. cbn [andb].
  destruct (wf_state_spec _ _ Rw) as [_ TF].
  apply andb_true_iff. split.
  - apply forallb_forall. intros [k b] Hin. cbn. unfold amount_is. rewrite Rl. unfold abs_ledger.
    rewrite (nodup_keys_In _ _ _ Rd Hin). cbn. rewrite Qc_eqb_refl. cbn.
    apply Qc_eqb_eq. symmetry. apply (TF k). apply nodup_keys_In; assumption.
  - destruct (os_nonneg o) eqn:NN; [|reflexivity]. cbn.
    apply forallb_forall. intros [k b] Hin. cbn.
    destruct (Rn eq_refl k b (nodup_keys_In _ _ _ Rd Hin)) as [H1 H2].
    apply andb_true_iff. split; apply Qc_leb_le; assumption.
Qed.

Lemma Rel_same_ledger : forall cfg st st' o,
  Rel cfg st o -> (forall a, abs_ledger st' a = abs_ledger st a) ->
  map fst (s_bals st') = map fst (s_bals st) -> s_seq st' = s_seq st ->
  (Nonneg st -> Nonneg st') -> wf_state cfg st' = true -> Rel cfg st' o.
Proof.
  intros cfg st st' o [Rl Rk Rd Ri Rn Rw] L K S N W. constructor; auto.
  - intro a. rewrite Rl, L. reflexivity.
  - rewrite K. exact Rk.
  - rewrite K. exact Rd.
  - intros id H. rewrite S. apply Ri. exact H.
Qed.

(** the oracle accepts the model's own answer to an order, and stays related *)
Lemma oracle_open_model : forall cfg st o req st' res n,
  Rel cfg st o -> open_order cfg st req = ODone st' res n ->
  exists o',
    oracle_open cfg o req res
      (match n with Some x => [(n_asset x, n_bal x)] | None => [] end)
      (match n with Some x => [n_trade x] | None => [] end) = Some o' /\
    Rel cfg st' o' /\
    os_fills o' = os_fills o ++ (match n with Some x => [n_trade x] | None => [] end).
Proof.
  intros cfg st o req st' res n R E.
  pose proof R as [Rl Rk Rd Ri Rn Rw].
  assert (ACC : spec_accepts cfg (os_led o) req = spec_accepts cfg (abs_ledger st) req)
    by (apply spec_step_ext; exact Rl).
  assert (STEP : forall a, spec_step cfg (os_led o) req a = spec_step cfg (abs_ledger st) req a)
    by (apply spec_step_ext; exact Rl).
  destruct (step_refines cfg st req Rw) as [st2 [res2 [n2 [E2 [A S]]]]].
  rewrite E in E2. inversion E2; subst st2 res2 n2. clear E2.
  pose proof (step_open_wf cfg st req Rw) as W'. unfold step_open in W'. rewrite E in W'.
  pose proof (open_order_case cfg st req) as C. rewrite E in C.
  unfold oracle_open. rewrite ACC, <- A.
  inversion C; subst; cbn [accepted Bool.eqb negb].
  - (* kind *) exists o. split; [reflexivity|]. split; [exact R|]. rewrite app_nil_r. reflexivity.
  - (* instrument *) exists o. split; [reflexivity|]. split; [exact R|]. rewrite app_nil_r. reflexivity.
  - (* funds *) exists o. split; [reflexivity|]. split; [exact R|]. rewrite app_nil_r. reflexivity.
  - (* accepted *)
    match goal with H : spec_spent cfg req = Some _ |- _ => rewrite H end.
    cbn [n_asset n_bal n_trade].
    assert (FRESH : existsb (N.eqb (s_seq st)) (os_ids o) = false).
    { destruct (existsb (N.eqb (s_seq st)) (os_ids o)) eqn:X; [|reflexivity].
      apply existsb_exists in X. destruct X as [x [Hin Hx]]. apply N.eqb_eq in Hx. subst x.
      specialize (Ri _ Hin). lia. }
    rewrite FRESH, N.eqb_refl. cbn [negb andb].
    assert (AM : amount_is (spec_step cfg (os_led o) req) a (mkBal nb nb (s_now st)) = true).
    { unfold amount_is. rewrite STEP, <- S. unfold abs_ledger. cbn [s_bals debited].
      erewrite lookup_set_same by eassumption. cbn. rewrite Qc_eqb_refl. reflexivity. }
    rewrite AM.
    assert (FI : fill_is cfg req (s_seq st) (fill_of cfg st req) = true).
    { unfold fill_is, fill_of. cbn. rewrite !N.eqb_refl, side_eqb_refl, !Qc_eqb_refl. reflexivity. }
    rewrite FI, Qc_eqb_refl. cbn [andb].
    eexists. split; [reflexivity|]. split; [|reflexivity].
    constructor; cbn [os_led os_ids os_keys os_nonneg os_fills].
    + intro x. rewrite STEP, <- S. reflexivity.
    + cbn. rewrite set_bal_keys. exact Rk.
    + cbn. rewrite set_bal_keys. exact Rd.
    + intros id [<-|Hin]; cbn; [lia|]. specialize (Ri _ Hin). lia.
    + intro NN. pose proof (step_open_nonneg cfg st req (Rn NN)) as X.
      unfold step_open in X. rewrite E in X. exact X.
    + exact W'.
Qed.

(* ---- direct mode ------------------------------------------------------------------------------------ *)

Lemma corr_prop_direct : forall cfg ops os st o,
  Rel cfg st o -> corr_direct cfg st ops os = true -> prop_direct cfg o ops os = true.
Proof.
  intros cfg ops. induction ops as [|op t IH]; intros [|ob os'] st o R C; cbn in C; try discriminate.
  - reflexivity.
  - apply andb_true_iff in C. destruct C as [C C3]. apply andb_true_iff in C. destruct C as [C1 C2].
    unfold state_matches in C2. split_andb.
    match goal with H : bals_eqb _ _ = true |- _ => apply bals_eqb_eq in H; rename H into HB end.
    cbn [prop_direct].
    destruct op as [tm|tm|req].
    + (* DSetTime *)
      cbn in C1. destruct (do_out ob); try discriminate.
      assert (R' : Rel cfg (dstep cfg st (DSetTime tm)) o).
      { eapply Rel_same_ledger; try exact R; cbn; auto. exact (rel_wf _ _ _ R). }
      rewrite <- HB, (Rel_ledger_is _ _ _ R'). cbn [andb]. eapply IH; eassumption.
    + (* DAccTime *)
      cbn in C1. destruct (do_out ob); try discriminate.
      assert (R' : Rel cfg (dstep cfg st (DAccTime tm)) o).
      { eapply Rel_same_ledger; try exact R.
        - intro a. unfold abs_ledger. cbn [dstep]. rewrite account_set_time_lookup.
          destruct (lookup (s_bals st) a); reflexivity.
        - cbn. rewrite map_map. reflexivity.
        - reflexivity.
        - intro NN. exact (dstep_nonneg cfg st (DAccTime tm) NN).
        - apply dstep_wf. exact (rel_wf _ _ _ R). }
      rewrite <- HB, (Rel_ledger_is _ _ _ R'). cbn [andb]. eapply IH; eassumption.
    + (* DOpen *)
      destruct (no_panic cfg st req (rel_wf _ _ _ R)) as [st' [res [n E]]].
      cbn [model_dout] in C1. rewrite E in C1.
      destruct (do_out ob) as [| | | |echo res' n'] eqn:DO; try discriminate.
      cbn in C1. split_andb.
      match goal with H : result_eqb _ _ = true |- _ => apply result_eqb_eq in H; subst res' end.
      match goal with H : option_eqb _ _ _ = true |- _ =>
        apply (option_eqb_eq _ _ notif_eqb_eq) in H; subst n' end.
      destruct (oracle_open_model cfg st o req st' res n R E) as [o' [OO [R' _]]].
      rewrite OO.
      assert (ST : dstep cfg st (DOpen req) = st') by (cbn; unfold step_open; rewrite E; reflexivity).
      rewrite ST in *. rewrite <- HB, (Rel_ledger_is _ _ _ R'). cbn [andb]. eapply IH; eassumption.
Qed.

Lemma Rel_accepts : forall cfg st o req st' res n,
  Rel cfg st o -> open_order cfg st req = ODone st' res n ->
  spec_accepts cfg (os_led o) req = accepted res.
Proof.
  intros cfg st o req st' res n R E.
  assert (ACC : spec_accepts cfg (os_led o) req = spec_accepts cfg (abs_ledger st) req)
    by (apply spec_step_ext; exact (rel_led _ _ _ R)).
  destruct (step_refines cfg st req (rel_wf _ _ _ R)) as [st2 [res2 [n2 [E2 [A _]]]]].
  rewrite E in E2. inversion E2; subst. rewrite ACC. symmetry. exact A.
Qed.

(** the blind oracle (response not seen) accepts the model's notifications exactly like the
    sighted one *)
Lemma oracle_open_blind_model : forall cfg st o req st' res n,
  Rel cfg st o -> open_order cfg st req = ODone st' res n ->
  oracle_open_blind cfg o req
      (match n with Some x => [(n_asset x, n_bal x)] | None => [] end)
      (match n with Some x => [n_trade x] | None => [] end) =
  oracle_open cfg o req res
      (match n with Some x => [(n_asset x, n_bal x)] | None => [] end)
      (match n with Some x => [n_trade x] | None => [] end).
Proof.
  intros cfg st o req st' res n R E. unfold oracle_open_blind.
  rewrite (Rel_accepts _ _ _ _ _ _ _ R E).
  pose proof (notif_iff_accepted _ _ _ _ _ _ E) as NA.
  destruct n as [x|].
  - destruct (accepted_notif _ _ _ _ _ _ E) as [a [b [_ [_ [_ [Hres [Hn _]]]]]]].
    cbn in Hres. subst res x. cbn [accepted n_trade fill_of t_id]. reflexivity.
  - assert (A : accepted res = false).
    { destruct (accepted res); [|reflexivity]. exfalso. apply (proj1 NA); reflexivity. }
    rewrite A. destruct res as [? ? ?|e]; [discriminate|]. reflexivity.
Qed.

(* ---- run mode ------------------------------------------------------------------------------------------ *)

Definition RelRun (cfg : config) (st : state) (o : ostate) : Prop :=
  Rel cfg st o /\ os_fills o = s_trades st.

Lemma Rel_tick : forall cfg st o t, Rel cfg st o -> Rel cfg (tick cfg st t) o.
Proof.
  intros cfg st o t R. eapply Rel_same_ledger; try exact R.
  - intro a. unfold abs_ledger. rewrite tick_lookup. destruct (lookup (s_bals st) a); reflexivity.
  - cbn. rewrite map_map. reflexivity.
  - reflexivity.
  - apply tick_nonneg.
  - apply tick_wf. exact (rel_wf _ _ _ R).
Qed.

Lemma RelRun_tick : forall cfg st o t, RelRun cfg st o -> RelRun cfg (tick cfg st t) o.
Proof. intros cfg st o t [R F]. split; [apply Rel_tick; exact R|exact F]. Qed.

Lemma prop_batch_model : forall cfg brqs st o st' out rest,
  RelRun cfg st o -> run cfg (Some st) (map fst brqs) = (Some st', out) ->
  exists o',
    prop_batch cfg true o brqs (expected_resps brqs (map fst out)) (flat_map snd out ++ rest)
      = Some (o', rest) /\ RelRun cfg st' o'.
Proof.
  intros cfg brqs. induction brqs as [|[rq aw] t IH]; intros st o st' out rest RR E.
  - cbn in E. inversion E; subst. cbn. exists o. split; [reflexivity|exact RR].
  - cbn [map fst] in E. rewrite run_cons in E.
    pose proof RR as [R F].
    destruct (run_request_alive cfg st rq (rel_wf _ _ _ R)) as [st1 [resp [evs [E1 W1]]]].
    rewrite E1 in E. destruct (run cfg (Some st1) (map fst t)) as [ost2 out'] eqn:E2.
    inversion E; subst ost2 out. clear E.
    unfold expected_resps. cbn [map combine fst snd flat_map prop_batch].
    fold (expected_resps t (map fst out')).
    pose proof (RelRun_tick cfg st o (rq_time rq) RR) as [R1 F1].
    set (st0 := tick cfg st (rq_time rq)) in *.
    unfold run_request in E1. cbv zeta in E1. fold st0 in E1.
    destruct (rq_kind rq) as [| | |since| |req] eqn:K.
    + (* snapshot *)
      injection E1 as <- <- <-. cbn [app].
      destruct aw.
      * match goal with |- context [ledger_is o ?l] =>
          replace (ledger_is o l) with true by (symmetry; exact (Rel_ledger_is _ _ _ R1)) end.
        apply (IH st0 o st' out' rest); [split; assumption|exact E2].
      * apply (IH st0 o st' out' rest); [split; assumption|exact E2].
    + (* balances *)
      injection E1 as <- <- <-. cbn [app].
      destruct aw.
      * match goal with |- context [ledger_is o ?l] =>
          replace (ledger_is o l) with true by (symmetry; exact (Rel_ledger_is _ _ _ R1)) end.
        apply (IH st0 o st' out' rest); [split; assumption|exact E2].
      * apply (IH st0 o st' out' rest); [split; assumption|exact E2].
    + (* open orders *)
      injection E1 as <- <- <-. cbn [app].
      destruct aw; apply (IH st0 o st' out' rest); try (split; assumption); exact E2.
    + (* trades *)
      injection E1 as <- <- <-. cbn [app].
      destruct aw.
      * unfold trades_since. rewrite F1, trades_eqb_refl.
        apply (IH st0 o st' out' rest); [split; assumption|exact E2].
      * apply (IH st0 o st' out' rest); [split; assumption|exact E2].
    + (* cancel *)
      injection E1 as <- <- <-. cbn [app].
      destruct aw; apply (IH st0 o st' out' rest); try (split; assumption); exact E2.
    + (* open *)
      destruct (no_panic cfg st0 req (rel_wf _ _ _ R1)) as [st2 [res [n O]]].
      rewrite O in E1.
      destruct (oracle_open_model cfg st0 o req st2 res n R1 O) as [o' [OO [R2 FF]]].
      pose proof (oracle_open_blind_model cfg st0 o req st2 res n R1 O) as OB.
      pose proof (Rel_accepts cfg st0 o req st2 res n R1 O) as RA.
      pose proof (notif_iff_accepted _ _ _ _ _ _ O) as NA.
      destruct n as [x|].
      * injection E1 as <- <- <-.
        assert (A : accepted res = true) by (apply NA; discriminate).
        assert (NEXT : RelRun cfg (ack_trade st2 (n_trade x)) o').
        { destruct (accepted_notif _ _ _ _ _ _ O) as [a [b [_ [_ [_ [_ [_ Hst]]]]]]].
          split.
          - eapply Rel_same_ledger; try exact R2; try reflexivity; auto.
          - rewrite FF, F1. cbn [ack_trade s_trades]. rewrite Hst. reflexivity. }
        destruct aw.
        -- rewrite A. cbn [app firstn skipn ev_bals ev_trades flat_map]. cbn [app] in OO |- *.
           rewrite OO. apply (IH (ack_trade st2 (n_trade x)) o' st' out' rest); [exact NEXT|exact E2].
        -- rewrite RA, A. cbn [app firstn skipn ev_bals ev_trades flat_map].
           cbn [app] in OO, OB |- *. rewrite OB, OO.
           apply (IH (ack_trade st2 (n_trade x)) o' st' out' rest); [exact NEXT|exact E2].
      * injection E1 as <- <- <-.
        assert (A : accepted res = false).
        { destruct (accepted res); [|reflexivity]. exfalso. apply (proj1 NA); reflexivity. }
        assert (NEXT : RelRun cfg st2 o').
        { split; [exact R2|]. rewrite FF, app_nil_r, F1.
          destruct res as [? ? ?|e]; [discriminate|].
          destruct (reject_frame _ _ _ _ _ _ O) as [-> _]. reflexivity. }
        destruct aw.
        -- rewrite A. cbn [app firstn skipn ev_bals ev_trades flat_map]. rewrite OO.
           apply (IH st2 o' st' out' rest); [exact NEXT|exact E2].
        -- rewrite RA, A. cbn [app firstn skipn ev_bals ev_trades flat_map].
           cbn [app] in OB |- *. rewrite OB, OO.
           apply (IH st2 o' st' out' rest); [exact NEXT|exact E2].
Qed.

(** what the oracle reconstructs for an unheard order is what the model would have announced *)
Lemma synth_notifs_model : forall cfg st o req st' res n,
  Rel cfg st o -> open_order cfg st req = ODone st' res n ->
  synth_notifs cfg o req res =
    (match n with Some x => [(n_asset x, n_bal x)] | None => [] end,
     match n with Some x => [n_trade x] | None => [] end).
Proof.
  intros cfg st o req st' res n R E.
  pose proof (notif_iff_accepted _ _ _ _ _ _ E) as NA.
  destruct n as [x|].
  - destruct (accepted_notif _ _ _ _ _ _ E) as [a [b [S [B [_ [Hres [Hn Hst]]]]]]].
    cbn in Hres, Hn, Hst. subst res x st'. unfold synth_notifs. rewrite S.
    assert (STEP : spec_step cfg (os_led o) req a = spec_step cfg (abs_ledger st) req a)
      by (apply spec_step_ext; exact (rel_led _ _ _ R)).
    destruct (step_refines cfg st req (rel_wf _ _ _ R)) as [st2 [res2 [n2 [E2 [_ SS]]]]].
    rewrite E in E2. inversion E2; subst st2 res2 n2.
    rewrite STEP, <- SS. unfold abs_ledger. cbn [s_bals debited].
    erewrite lookup_set_same by eassumption. cbn. reflexivity.
  - assert (A : accepted res = false).
    { destruct (accepted res); [|reflexivity]. exfalso. apply (proj1 NA); reflexivity. }
    destruct res as [? ? ?|e]; [discriminate|]. reflexivity.
Qed.

Lemma prop_batch_model_nosub : forall cfg brqs st o st' out rest,
  batch_ok (false, brqs) = true ->
  RelRun cfg st o -> run cfg (Some st) (map fst brqs) = (Some st', out) ->
  exists o',
    prop_batch cfg false o brqs (expected_resps brqs (map fst out)) rest = Some (o', rest)
    /\ RelRun cfg st' o'.
Proof.
  intros cfg brqs. induction brqs as [|[rq aw] t IH]; intros st o st' out rest OK RR E.
  - cbn in E. inversion E; subst. cbn. exists o. split; [reflexivity|exact RR].
  - cbn [map fst] in E. rewrite run_cons in E.
    pose proof RR as [R F].
    unfold batch_ok in OK. cbn [fst snd orb forallb] in OK.
    apply andb_true_iff in OK. destruct OK as [OK1 OK2].
    assert (OKt : batch_ok (false, t) = true) by exact OK2.
    destruct (run_request_alive cfg st rq (rel_wf _ _ _ R)) as [st1 [resp [evs [E1 W1]]]].
    rewrite E1 in E. destruct (run cfg (Some st1) (map fst t)) as [ost2 out'] eqn:E2.
    inversion E; subst ost2 out. clear E.
    unfold expected_resps. cbn [map combine fst snd prop_batch].
    fold (expected_resps t (map fst out')).
    pose proof (RelRun_tick cfg st o (rq_time rq) RR) as [R1 F1].
    set (st0 := tick cfg st (rq_time rq)) in *.
    unfold run_request in E1. cbv zeta in E1. fold st0 in E1.
    destruct (rq_kind rq) as [| | |since| |req] eqn:K.
    + injection E1 as <- <- <-. destruct aw.
      * match goal with |- context [ledger_is o ?l] =>
          replace (ledger_is o l) with true by (symmetry; exact (Rel_ledger_is _ _ _ R1)) end.
        apply (IH st0 o st' out' rest); [exact OKt|split; assumption|exact E2].
      * apply (IH st0 o st' out' rest); [exact OKt|split; assumption|exact E2].
    + injection E1 as <- <- <-. destruct aw.
      * match goal with |- context [ledger_is o ?l] =>
          replace (ledger_is o l) with true by (symmetry; exact (Rel_ledger_is _ _ _ R1)) end.
        apply (IH st0 o st' out' rest); [exact OKt|split; assumption|exact E2].
      * apply (IH st0 o st' out' rest); [exact OKt|split; assumption|exact E2].
    + injection E1 as <- <- <-.
      destruct aw; apply (IH st0 o st' out' rest); try exact OKt; try (split; assumption); exact E2.
    + injection E1 as <- <- <-. destruct aw.
      * unfold trades_since. rewrite F1, trades_eqb_refl.
        apply (IH st0 o st' out' rest); [exact OKt|split; assumption|exact E2].
      * apply (IH st0 o st' out' rest); [exact OKt|split; assumption|exact E2].
    + injection E1 as <- <- <-.
      destruct aw; apply (IH st0 o st' out' rest); try exact OKt; try (split; assumption); exact E2.
    + (* open: awaited, by [batch_ok] *)
      cbn [fst snd] in OK1. rewrite orb_false_r in OK1. subst aw.
      destruct (no_panic cfg st0 req (rel_wf _ _ _ R1)) as [st2 [res [n O]]].
      rewrite O in E1.
      destruct (oracle_open_model cfg st0 o req st2 res n R1 O) as [o' [OO [R2 FF]]].
      pose proof (synth_notifs_model cfg st0 o req st2 res n R1 O) as SY.
      assert (ON : oracle_open_nosub cfg o req res = Some o').
      { unfold oracle_open_nosub. rewrite SY. cbn [fst snd]. exact OO. }
      destruct n as [x|].
      * injection E1 as <- <- <-. rewrite ON.
        apply (IH (ack_trade st2 (n_trade x)) o' st' out' rest); [exact OKt| |exact E2].
        destruct (accepted_notif _ _ _ _ _ _ O) as [a [b [_ [_ [_ [_ [_ Hst]]]]]]].
        split.
        -- eapply Rel_same_ledger; try exact R2; try reflexivity; auto.
        -- rewrite FF, F1. cbn [ack_trade s_trades]. rewrite Hst. reflexivity.
      * injection E1 as <- <- <-. rewrite ON.
        apply (IH st2 o' st' out' rest); [exact OKt| |exact E2].
        split; [exact R2|]. rewrite FF, app_nil_r, F1.
        pose proof (notif_iff_accepted _ _ _ _ _ _ O) as NA.
        destruct res as [? ? ?|e]; [exfalso; apply (proj1 NA); reflexivity|].
        destruct (reject_frame _ _ _ _ _ _ O) as [-> _]. reflexivity.
Qed.

Lemma resps_eqb_eq : forall a b,
  list_eqb (pair_eqb (option_eqb request_eqb) rresp_eqb) a b = true -> a = b.
Proof.
  apply list_eqb_eq. apply pair_eqb_eq; [apply option_eqb_eq; exact request_eqb_eq|exact rresp_eqb_eq].
Qed.

Lemma corr_prop_run : forall cfg bs os st o,
  forallb batch_ok bs = true ->
  RelRun cfg st o -> corr_run cfg (Some st) bs os = true -> prop_run cfg o bs os = true.
Proof.
  intros cfg bs. induction bs as [|[sub brqs] bs' IH]; intros [|ob os'] st o OK RR C;
    cbn [corr_run] in C; try discriminate.
  - reflexivity.
  - pose proof RR as [R F].
    cbn [forallb] in OK. apply andb_true_iff in OK. destruct OK as [OKb OKs].
    destruct (run_alive cfg (map fst brqs) st (rel_wf _ _ _ R)) as [st1 [out [E W1]]].
    cbv zeta in C. rewrite E in C. cbn [option_map] in C.
    split_andb.
    match goal with H : list_eqb _ _ (ro_resps ob) = true |- _ => apply resps_eqb_eq in H; rename H into HR end.
    match goal with H : events_eqb _ _ = true |- _ => apply events_eqb_eq in H; rename H into HE end.
    assert (PBX : exists o', prop_batch cfg sub o brqs (expected_resps brqs (map fst out))
                                 (if sub then flat_map snd out else []) = Some (o', [])
                             /\ RelRun cfg st1 o').
    { destruct sub.
      - destruct (prop_batch_model cfg brqs st o st1 out [] RR E) as [o' [PB RR']].
        rewrite app_nil_r in PB. eauto.
      - exact (prop_batch_model_nosub cfg brqs st o st1 out [] OKb RR E). }
    destruct PBX as [o' [PB RR']].
    cbn [prop_run]. rewrite <- HR, <- HE, PB.
    match goal with H : snap_matches _ _ _ = true |- _ => rename H into HS end.
    unfold snap_matches in HS.
    destruct (ro_snap ob) as [[[b oo] oc]|]; [|discriminate].
    destruct (ro_trades ob) as [ts|]; [|discriminate].
    split_andb.
    match goal with H : bals_eqb _ b = true |- _ => apply bals_eqb_eq in H; subst b end.
    match goal with H : trades_eqb _ ts = true |- _ => apply trades_eqb_eq in H; subst ts end.
    pose proof (RelRun_tick cfg st1 o' (last_time (map fst brqs) 0%Z) RR') as [R2 F2].
    rewrite (Rel_ledger_is _ _ _ R2). cbn [andb].
    rewrite F2, trades_eqb_refl. cbn [andb].
    eapply IH; [exact OKs|split; eassumption|eassumption].
Qed.

(** The oracle is no stricter than the model. *)
Theorem corr_implies_prop : forall c, in_domain c = true -> corr_b c = true -> prop_b c = true.
Proof.
  intros [cfg init ops os|cfg init bs os] D C; cbn in D, C |- *; split_andb.
  - eapply corr_prop_direct; [|exact C]. apply Rel_init; assumption.
  - eapply corr_prop_run; [eassumption| |exact C]. split; [apply Rel_init; assumption|reflexivity].
Qed.
Print Assumptions corr_implies_prop.

(** consequently a case is never judged a violation while the model reproduces it *)
Corollary judge_violation_needs_disagreement : forall c,
  corr_b c = true -> judge c = 0%N.
Proof.
  intros c C. unfold judge. destruct (in_domain c) eqn:D.
  - rewrite C, (corr_implies_prop c D C). reflexivity.
  - rewrite C. reflexivity.
Qed.
