(** Lemmas about Model/Orders.v (property C01, reused by C09). *)
From BV Require Import Model.Orders.
From Coq Require Import Lia ZifyBool.
Local Open Scope Z_scope.

(* ---- the map ------------------------------------------------------------------------------ *)

Lemma upd_same : forall (s : orders) c v, upd s c v c = v.
Proof. intros. unfold upd. rewrite Z.eqb_refl. reflexivity. Qed.

Lemma upd_other : forall (s : orders) c v c', c' <> c -> upd s c v c' = s c'.
Proof. intros s c v c' H. unfold upd. destruct (Z.eqb_spec c' c); [contradiction|reflexivity]. Qed.

Lemma eupd_same : forall (e : estate) i s, eupd e i s i = s.
Proof. intros. unfold eupd. rewrite Z.eqb_refl. reflexivity. Qed.

Lemma eupd_other : forall (e : estate) i s i', i' <> i -> eupd e i s i' = e i'.
Proof. intros e i s i' H. unfold eupd. destruct (Z.eqb_spec i' i); [contradiction|reflexivity]. Qed.

(* ---- decidable equalities ------------------------------------------------------------------ *)

Lemma side_eqb_eq a b : side_eqb a b = true <-> a = b.
Proof. destruct a, b; simpl; split; congruence. Qed.
Lemma okind_eqb_eq a b : okind_eqb a b = true <-> a = b.
Proof. destruct a, b; simpl; split; congruence. Qed.
Lemma tif_eqb_eq a b : tif_eqb a b = true <-> a = b.
Proof.
  destruct a as [x| | |], b as [y| | |]; simpl; split; try congruence.
  - intros H. apply Bool.eqb_prop in H. congruence.
  - intros H. injection H as ->. apply Bool.eqb_reflx.
Qed.
Lemma key_eqb_eq a b : key_eqb a b = true <-> a = b.
Proof.
  destruct a, b; unfold key_eqb; simpl. rewrite !andb_true_iff, !Z.eqb_eq. split.
  - intros [[[? ?] ?] ?]. congruence.
  - intros H. injection H as -> -> -> ->. auto.
Qed.
Lemma meta_eqb_eq a b : meta_eqb a b = true <-> a = b.
Proof.
  destruct a, b; unfold meta_eqb; simpl. rewrite !andb_true_iff, !Z.eqb_eq. split.
  - intros [[? ?] ?]. congruence.
  - intros H. injection H as -> -> ->. auto.
Qed.
Lemma ometa_eqb_eq a b : ometa_eqb a b = true <-> a = b.
Proof.
  destruct a as [x|], b as [y|]; simpl; try (split; congruence).
  rewrite meta_eqb_eq. split; congruence.
Qed.
Lemma astate_eqb_eq a b : astate_eqb a b = true <-> a = b.
Proof.
  destruct a as [|x|x], b as [|y|y]; simpl; try (split; congruence).
  - rewrite meta_eqb_eq. split; congruence.
  - rewrite ometa_eqb_eq. split; congruence.
Qed.
Lemma pstate_eqb_eq a b : pstate_eqb a b = true <-> a = b.
Proof.
  destruct a as [x|], b as [y|]; simpl; try (split; congruence).
  rewrite astate_eqb_eq. split; congruence.
Qed.
Lemma order_eqb_eq (a b : order) : order_eqb a b = true <-> a = b.
Proof.
  destruct a, b; unfold order_eqb, ord_eqb; simpl.
  rewrite !andb_true_iff, key_eqb_eq, side_eqb_eq, !Z.eqb_eq, okind_eqb_eq, tif_eqb_eq,
    astate_eqb_eq. split.
  - intros [[[[[[? ?] ?] ?] ?] ?] ?]. congruence.
  - intros H. injection H as -> -> -> -> -> -> ->. repeat split.
Qed.
Lemma oorder_eqb_eq a b : oorder_eqb a b = true <-> a = b.
Proof.
  destruct a as [x|], b as [y|]; simpl; try (split; congruence).
  rewrite order_eqb_eq. split; congruence.
Qed.

(* ---- frame: an input about one client order id never changes another ----------------------- *)

Ltac break_match :=
  match goal with |- context [match ?x with _ => _ end] => destruct x eqn:? end.

Lemma snapshot_step_frame : forall s sn c, k_cid (o_key sn) <> c -> snapshot_step s sn c = s c.
Proof.
  intros s sn c H. unfold snapshot_step.
  repeat break_match; try reflexivity; apply upd_other; auto.
Qed.

Lemma step_frame : forall s o c, cid_of o <> c -> step s o c = s c.
Proof.
  intros s o c H. destruct o as [r|k|sn|k ok]; unfold cid_of in H; simpl in H; simpl.
  - unfold record_open_step. apply upd_other; auto.
  - unfold record_cancel_step. repeat break_match; try reflexivity; apply upd_other; auto.
  - apply snapshot_step_frame; auto.
  - unfold cancel_response_step. repeat break_match; try reflexivity; apply upd_other; auto.
Qed.

(** the new state of an id depends only on its own old state and the input *)
Lemma step_local : forall s1 s2 o,
  s1 (cid_of o) = s2 (cid_of o) -> step s1 o (cid_of o) = step s2 o (cid_of o).
Proof.
  intros s1 s2 o H. destruct o as [r|k|sn|k ok]; unfold cid_of in *; simpl in *.
  - unfold record_open_step. rewrite !upd_same. reflexivity.
  - unfold record_cancel_step. rewrite <- H.
    destruct (s1 (k_cid k)) eqn:E; rewrite ?upd_same; auto; congruence.
  - unfold snapshot_step. rewrite <- H.
    destruct (s1 (k_cid (o_key sn))) eqn:E; repeat break_match; rewrite ?upd_same; auto;
      congruence.
  - unfold cancel_response_step. rewrite <- H.
    destruct (s1 (k_cid k)) eqn:E; repeat break_match; rewrite ?upd_same; auto; congruence.
Qed.

(* ---- the step refines the lifecycle table -------------------------------------------------- *)

Ltac side_conds :=
  unfold fresh, stale, tie, newest, not_cif, rem in *; simpl in *;
  try tauto; try lia; auto.

Ltac by_table := solve [ econstructor; side_conds ].

Lemma snapshot_step_refines : forall s sn,
  lifecycle (pst (s (k_cid (o_key sn)))) (ASnap (o_qty sn) (o_state sn))
            (pst (snapshot_step s sn (k_cid (o_key sn)))).
Proof.
  intros s sn. unfold snapshot_step, to_active.
  destruct (s (k_cid (o_key sn))) as [cur|] eqn:E;
  destruct (o_state sn) as [a|i] eqn:Es; simpl.
  - (* tracked, active report *)
    destruct cur as [ck cs cp cq ckd ct cst]; simpl.
    destruct cst as [|cm|[xm|]]; destruct a as [|m|y]; simpl;
      repeat break_match; rewrite ?upd_same, ?E; simpl; try by_table.
    + (* Open, CIF (Some um) with um newer *)
      apply L_mark_cif_open. side_conds. left. split; [lia|reflexivity].
    + apply L_mark_cif_open. side_conds. right. split; [lia|reflexivity].
  - rewrite upd_same. simpl. by_table.
  - destruct a as [|m|y]; simpl; repeat break_match; rewrite ?upd_same, ?E; simpl; by_table.
  - rewrite E. simpl. by_table.
Qed.

Lemma step_refines_lifecycle : forall s o,
  lifecycle (pst (s (cid_of o))) (abs_op o) (pst (step s o (cid_of o))).
Proof.
  intros s o. destruct o as [r|k|sn|k ok]; unfold cid_of; simpl.
  - unfold record_open_step. rewrite upd_same. simpl. by_table.
  - unfold record_cancel_step. destruct (s (k_cid k)) as [cur|] eqn:E.
    + rewrite upd_same. simpl. by_table.
    + rewrite E. simpl. by_table.
  - apply snapshot_step_refines.
  - unfold cancel_response_step. destruct (s (k_cid k)) as [cur|] eqn:E.
    + destruct cur as [ck cs cp cq ckd ct cst]; simpl.
      destruct cst as [|cm|[m|]]; destruct ok; simpl; rewrite ?upd_same, ?E; simpl; by_table.
    + rewrite E. simpl. destruct ok; by_table.
Qed.

(* ---- the table and its executable form agree ------------------------------------------------ *)

Ltac split_tests :=
  repeat match goal with
  | H : _ /\ _ |- _ => destruct H
  | H : _ \/ _ |- _ => destruct H
  | H : False |- _ => destruct H
  | H : In _ (_ ++ _) |- _ => apply in_app_or in H
  | H : context [Z.eqb ?a ?b] |- _ => destruct (Z.eqb_spec a b); simpl in H
  | H : context [Z.ltb ?a ?b] |- _ => destruct (Z.ltb_spec a b); simpl in H
  | H : context [Z.leb ?a ?b] |- _ => destruct (Z.leb_spec a b); simpl in H
  | |- context [Z.eqb ?a ?b] => destruct (Z.eqb_spec a b); simpl
  | |- context [Z.ltb ?a ?b] => destruct (Z.ltb_spec a b); simpl
  | |- context [Z.leb ?a ?b] => destruct (Z.leb_spec a b); simpl
  end.

Lemma lifecycle_allowed : forall s o s', lifecycle s o s' -> In s' (allowed s o).
Proof.
  intros s o s' H. destruct H; simpl;
    repeat match goal with
    | a : astate |- _ => destruct a as [|?cm|[?xm|]]
    | s : pstate |- _ => destruct s as [[|?cm|[?xm|]]|]
    | x : option meta |- _ => destruct x as [?um|]
    end;
    unfold fresh, stale, tie, newest, not_cif, rem in *; simpl in *; split_tests; subst;
    simpl; try contradiction; try lia; auto.
Qed.

Ltac by_table' :=
  first [ by_table
        | solve [ apply L_mark_cif_open; simpl;
                  first [ reflexivity
                        | left; split; [lia|reflexivity]
                        | right; split; [lia|reflexivity] ] ] ].

Lemma allowed_lifecycle : forall s o s', In s' (allowed s o) -> lifecycle s o s'.
Proof.
  intros s o s' H.
  destruct o as [| |q [[|m|[um|]]|i]|[|]]; destruct s as [[|cm|[y|]]|];
    unfold rem in *; simpl in H; split_tests; subst; by_table'.
Qed.

Lemma lifecycle_b_spec : forall s o s', lifecycle_b s o s' = true <-> lifecycle s o s'.
Proof.
  intros s o s'. unfold lifecycle_b. rewrite existsb_exists. split.
  - intros [x [Hin Heq]]. apply pstate_eqb_eq in Heq. subst. apply allowed_lifecycle; auto.
  - intros H. exists s'. split; [apply lifecycle_allowed; auto|apply pstate_eqb_eq; auto].
Qed.

(** an "open" report with a non-zero remaining quantity -- in particular an OVER-FILLED one, whose
    remaining quantity is negative -- never untracks: by the table ... *)
Lemma lifecycle_open_left_tracked : forall s q m s',
  lifecycle s (ASnap q (SA (Open m))) s' -> rem q m <> 0 -> s' <> None.
Proof. intros s q m s' H Hr. inversion H; subst; congruence. Qed.

(** ... hence by the code *)
Lemma open_report_keeps_tracked : forall (s : orders) sn m,
  o_state sn = SA (Open m) -> rem (o_qty sn) m <> 0 ->
  step s (Snap sn) (k_cid (o_key sn)) <> None.
Proof.
  intros s sn m Hs Hr Hn.
  pose proof (step_refines_lifecycle s (Snap sn)) as H.
  unfold cid_of in H. simpl in H. simpl in Hn. rewrite Hs, Hn in H. simpl in H.
  exact (lifecycle_open_left_tracked _ _ _ _ H Hr eq_refl).
Qed.

(* ---- the lifecycle itself never lets the held exchange timestamp go back --------------------- *)

Lemma lifecycle_monotone : forall s o s' t t',
  lifecycle s o s' -> pts s = Some t -> pts s' = Some t' -> t <= t'.
Proof.
  intros s o s' t t' H. destruct H;
    repeat match goal with
    | a : astate |- _ => destruct a as [|?cm|[?xm|]]
    | s : pstate |- _ => destruct s as [[|?cm|[?xm|]]|]
    | x : option meta |- _ => destruct x as [?um|]
    end;
    unfold fresh, stale, tie, newest, pts in *; simpl in *; intros H1 H2; split_tests; subst;
    try discriminate; try contradiction;
    repeat match goal with H : Some _ = Some _ |- _ => injection H as H; subst end; lia.
Qed.

Lemma pts_pst : forall (s : orders) c, pts (pst (s c)) = ts s c.
Proof. intros s c. unfold ts, pts, pst. destruct (s c); reflexivity. Qed.

Lemma step_ts_monotone : forall s o c t t',
  ts s c = Some t -> ts (step s o) c = Some t' -> t <= t'.
Proof.
  intros s o c t t' H1 H2. destruct (Z.eq_dec (cid_of o) c) as [E|E].
  - subst c. rewrite <- pts_pst in H1, H2.
    exact (lifecycle_monotone _ _ _ _ _ (step_refines_lifecycle s o) H1 H2).
  - unfold ts in *. rewrite (step_frame s o c E) in H2. rewrite H1 in H2. injection H2 as <-. lia.
Qed.

(** lifted to whole histories: as long as the id keeps holding exchange data (one tracking
    episode), the held timestamp at any later point is >= the held timestamp at any earlier one *)
Lemma history_monotone_from : forall ops s c t,
  ts s c = Some t ->
  (forall k, (k <= length ops)%nat -> ts (run (firstn k ops) s) c <> None) ->
  exists t', ts (run ops s) c = Some t' /\ t <= t'.
Proof.
  induction ops as [|o ops IH]; intros s c t Ht Hall.
  - exists t. split; [exact Ht|lia].
  - assert (H1 := Hall 1%nat ltac:(simpl; lia)). simpl in H1.
    destruct (ts (step s o) c) as [t1|] eqn:E1; [|congruence].
    assert (t <= t1) by (eapply step_ts_monotone; eauto).
    destruct (IH (step s o) c t1 E1) as [t' [Ht' Hle]].
    + intros k Hk. apply (Hall (S k)). simpl. lia.
    + exists t'. split; [exact Ht'|lia].
Qed.

Lemma run_app : forall ops1 ops2 s, run (ops1 ++ ops2) s = run ops2 (run ops1 s).
Proof. intros. unfold run. apply fold_left_app. Qed.

Lemma history_monotone : forall ops1 ops2 s0 c t,
  ts (run ops1 s0) c = Some t ->
  (forall k, (k <= length ops2)%nat -> ts (run (ops1 ++ firstn k ops2) s0) c <> None) ->
  exists t', ts (run (ops1 ++ ops2) s0) c = Some t' /\ t <= t'.
Proof.
  intros ops1 ops2 s0 c t Ht Hall. rewrite run_app.
  apply history_monotone_from; auto.
  intros k Hk. rewrite <- run_app. apply Hall; auto.
Qed.

(* ---- data fixed at the start of tracking stays ------------------------------------------------ *)

Lemma static_with_state : forall S T (o : ord S) (t : T), static (with_state o t) = static o.
Proof. intros. reflexivity. Qed.

Ltac break_match_in H :=
  match type of H with context [match ?x with _ => _ end] => destruct x eqn:? end.

Lemma step_static : forall s o c x y,
  s c = Some x -> step s o c = Some y ->
  (forall r, o = RecOpen r -> k_cid (o_key r) <> c) ->
  static y = static x.
Proof.
  intros s o c x y Hx Hy Hno. destruct (Z.eq_dec (cid_of o) c) as [E|E].
  2:{ rewrite (step_frame s o c E) in Hy. congruence. }
  subst c. destruct o as [r|k|sn|k ok]; unfold cid_of in *; simpl in *.
  - exfalso. apply (Hno r eq_refl). reflexivity.
  - unfold record_cancel_step in Hy. rewrite Hx, upd_same in Hy. injection Hy as <-. reflexivity.
  - unfold snapshot_step in Hy. rewrite Hx in Hy.
    repeat break_match_in Hy; rewrite ?upd_same in Hy; try congruence;
      injection Hy as <-; reflexivity.
  - unfold cancel_response_step in Hy. rewrite Hx in Hy.
    repeat break_match_in Hy; rewrite ?upd_same in Hy; try congruence;
      injection Hy as <-; reflexivity.
Qed.

(** tracking that starts from an exchange report takes the report's data; from a request, the
    request's *)
Lemma step_static_new : forall s o c y,
  s c = None -> step s o c = Some y ->
  match o with
  | RecOpen r => static y = static r
  | Snap sn => static y = static sn
  | _ => False
  end.
Proof.
  intros s o c y Hx Hy. destruct (Z.eq_dec (cid_of o) c) as [E|E].
  2:{ rewrite (step_frame s o c E) in Hy. congruence. }
  subst c. destruct o as [r|k|sn|k ok]; unfold cid_of in *; simpl in *.
  - unfold record_open_step in Hy. rewrite upd_same in Hy. injection Hy as <-. reflexivity.
  - unfold record_cancel_step in Hy. rewrite Hx in Hy. congruence.
  - unfold snapshot_step, to_active in Hy. rewrite Hx in Hy.
    repeat break_match_in Hy; rewrite ?upd_same in Hy; try congruence;
      injection Hy as <-; try reflexivity;
      match goal with
      | H : match o_state ?sn with _ => _ end = Some _ |- _ =>
          destruct (o_state sn); [injection H as <-; reflexivity|discriminate]
      end.
  - unfold cancel_response_step in Hy. rewrite Hx in Hy. congruence.
Qed.

(** the map key is the order's own client order id *)
Definition keys_ok (s : orders) : Prop := forall c o, s c = Some o -> k_cid (o_key o) = c.

Lemma keys_ok_empty : keys_ok empty.
Proof. intros c o H. discriminate. Qed.

Lemma keys_ok_step : forall s o, keys_ok s -> keys_ok (step s o).
Proof.
  intros s o Hk c y Hy. destruct (s c) as [x|] eqn:Hx.
  - destruct (Z.eq_dec (cid_of o) c) as [E|E].
    2:{ rewrite (step_frame s o c E) in Hy. apply Hk. congruence. }
    destruct o as [r|k|sn|k ok].
    + unfold cid_of in E. simpl in *. unfold record_open_step in Hy. subst c.
      rewrite upd_same in Hy. injection Hy as <-. reflexivity.
    + assert (static y = static x) as Hs by (eapply step_static; eauto; congruence).
      apply (f_equal o_key) in Hs. simpl in Hs. rewrite Hs. apply Hk. auto.
    + assert (static y = static x) as Hs by (eapply step_static; eauto; congruence).
      apply (f_equal o_key) in Hs. simpl in Hs. rewrite Hs. apply Hk. auto.
    + assert (static y = static x) as Hs by (eapply step_static; eauto; congruence).
      apply (f_equal o_key) in Hs. simpl in Hs. rewrite Hs. apply Hk. auto.
  - destruct (Z.eq_dec (cid_of o) c) as [E|E].
    2:{ rewrite (step_frame s o c E) in Hy. congruence. }
    pose proof (step_static_new s o c y Hx Hy) as Hn.
    destruct o as [r|k|sn|k ok]; try contradiction; unfold cid_of in E; simpl in E;
      apply (f_equal o_key) in Hn; simpl in Hn; rewrite Hn; exact E.
Qed.

Lemma keys_ok_run : forall ops s, keys_ok s -> keys_ok (run ops s).
Proof.
  induction ops as [|o ops IH]; intros s H; simpl; auto. apply IH. apply keys_ok_step. auto.
Qed.

(* ---- engine level: routing by instrument ---------------------------------------------------- *)

Lemma estep_target : forall e o, estep e (EOrd o) (inst_of o) = step (e (inst_of o)) o.
Proof. intros. simpl. apply eupd_same. Qed.

Lemma estep_frame_inst : forall e o i, inst_of o <> i -> estep e (EOrd o) i = e i.
Proof. intros. simpl. apply eupd_other. auto. Qed.

Lemma estep_frame_cid : forall e o i c, cid_of o <> c -> estep e (EOrd o) i c = e i c.
Proof.
  intros e o i c H. simpl. unfold eupd. destruct (Z.eqb_spec i (inst_of o)) as [E|E].
  - subst. apply step_frame. auto.
  - reflexivity.
Qed.

(** a full account snapshot acts on each instrument as the sequence of that instrument's order
    reports, in the order listed, and touches no other instrument *)
Definition reports_for (i : Z) (l : list isnap) : list osnap :=
  flat_map is_orders (filter (fun x => Z.eqb (is_inst x) i) l).

Lemma account_snapshot_per_instrument : forall l e i,
  estep e (EAcctSnapshot l) i = fold_left snapshot_step (reports_for i l) (e i).
Proof.
  unfold reports_for. simpl. induction l as [|x l IH]; intros e i; simpl; [reflexivity|].
  rewrite IH. unfold isnap_step at 1. unfold eupd.
  rewrite (Z.eqb_sym i (is_inst x)).
  destruct (Z.eqb_spec (is_inst x) i) as [E|E]; simpl.
  - subst. rewrite fold_left_app. reflexivity.
  - reflexivity.
Qed.

Lemma account_snapshot_frame_inst : forall l e i,
  ~ In i (map is_inst l) -> estep e (EAcctSnapshot l) i = e i.
Proof.
  intros l e i H. rewrite account_snapshot_per_instrument.
  assert (reports_for i l = []) as ->; [|reflexivity].
  unfold reports_for. induction l as [|x l IH]; simpl in *; [reflexivity|].
  destruct (Z.eqb_spec (is_inst x) i); [exfalso; apply H; left; auto|].
  apply IH. intros Hin. apply H. right. auto.
Qed.

Lemma snapshots_frame_cid : forall sns s c,
  ~ In c (map (fun sn => k_cid (o_key sn)) sns) -> fold_left snapshot_step sns s c = s c.
Proof.
  induction sns as [|sn sns IH]; intros s c H; simpl in *; [reflexivity|].
  rewrite IH by (intros Hin; apply H; right; auto).
  apply snapshot_step_frame. intros E. apply H. left. auto.
Qed.

(** a list of order reports (one instrument's part of an account snapshot) moves every id
    through the chain of lifecycle steps of the reports that concern it, in list order *)
Lemma snapshots_refine : forall sns s c,
  lifecycle_seq c (pst (s c)) sns (pst (fold_left snapshot_step sns s c)).
Proof.
  induction sns as [|sn sns IH]; intros s c; simpl.
  - constructor.
  - destruct (Z.eq_dec (k_cid (o_key sn)) c) as [E|E].
    + eapply LS_hit; [exact E| |apply IH]. subst c. apply snapshot_step_refines.
    + apply LS_miss; [exact E|]. rewrite <- (snapshot_step_frame s sn c E). apply IH.
Qed.

Lemma reach_spec : forall sns c s s',
  In s' (reach c sns s) <-> lifecycle_seq c s sns s'.
Proof.
  induction sns as [|sn sns IH]; intros c s s'; cbn [reach].
  - simpl. split.
    + intros [<-|[]]. constructor.
    + intros H. inversion H. subst. left. reflexivity.
  - destruct (Z.eqb_spec (k_cid (o_key sn)) c) as [E|E].
    + rewrite in_flat_map. split.
      * intros [s1 [H1 H2]]. eapply LS_hit; [exact E|apply allowed_lifecycle; exact H1|].
        apply IH. exact H2.
      * intros H. inversion H; subst; [|contradiction].
        exists s1. split; [apply lifecycle_allowed; auto|apply IH; auto].
    + rewrite IH. split.
      * intros H. apply LS_miss; auto.
      * intros H. inversion H; subst; [contradiction|auto].
Qed.
