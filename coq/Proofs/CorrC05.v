(** The C05 oracle is no stricter than the model: whatever output the model produces on a
    well-formed input is accepted by [prop_b]. Hence wherever the implementation agrees with
    the model ([corr_b]), the observed behaviour satisfies the property oracle. *)
From BV Require Import Base.Common Model.Book Proofs.Book Corr.C05.
From Coq Require Import Sorting.Sorted ZifyBool.

Lemma list_eqb_eq {A} (eqb : A -> A -> bool) :
  (forall x y, eqb x y = true -> x = y) -> forall l1 l2, list_eqb eqb l1 l2 = true -> l1 = l2.
Proof.
  intros H. induction l1 as [|x t IH]; intros [|y t2] E; cbn [list_eqb] in E; try discriminate; [reflexivity|].
  apply andb_true_iff in E as [E1 E2]. f_equal; [apply H; exact E1|apply IH; exact E2].
Qed.

Lemma level_eqb_eq x y : level_eqb x y = true -> x = y.
Proof.
  destruct x as [a b], y as [c d]. unfold level_eqb, pair_eqb. cbn [fst snd]. intros E.
  apply andb_true_iff in E as [E1 E2]. apply Z.eqb_eq in E1, E2. congruence.
Qed.

Lemma levels_eqb_eq l1 l2 : levels_eqb l1 l2 = true -> l1 = l2.
Proof. apply list_eqb_eq. exact level_eqb_eq. Qed.

Lemma levels_eqb_refl l : levels_eqb l l = true.
Proof.
  induction l as [|[a b] t IH]; [reflexivity|]. unfold levels_eqb in *. cbn [list_eqb].
  unfold level_eqb at 1, pair_eqb. cbn [fst snd]. rewrite !Z.eqb_refl, IH. reflexivity.
Qed.

Lemma option_Z_eqb_refl (x : option Z) : option_eqb Z.eqb x x = true.
Proof. destruct x; cbn; [apply Z.eqb_refl|reflexivity]. Qed.

Lemma SS_in_lookup s l p a : SS s l -> In (p, a) l -> lookup l p = Some a.
Proof.
  unfold SS. induction l as [|[q b] t IH]; intros H Hin; [contradiction|].
  apply StronglySorted_inv in H as [Ht Hall]. cbn [lookup]. destruct Hin as [E|Hin].
  - inversion E; subst. rewrite Z.eqb_refl. reflexivity.
  - destruct (Z.eqb_spec p q) as [E|_]; [subst q|apply IH; assumption].
    exfalso. rewrite Forall_forall in Hall. specialize (Hall _ Hin). unfold R in Hall; cbn [fst] in Hall.
    rewrite before_irrefl in Hall. discriminate.
Qed.

Lemma side_is_map_sound s mentioned m l :
  strict_sorted s l = true -> (forall p, lookup l p = m p) -> side_is_map s mentioned m l = true.
Proof.
  intros Hs Hm. unfold side_is_map. rewrite Hs. cbn [andb]. apply andb_true_iff. split.
  - apply forallb_forall. intros [p a] Hin. cbn [fst snd]. rewrite <- Hm.
    rewrite (SS_in_lookup s l p a); [cbn; apply Z.eqb_refl| |exact Hin].
    apply strict_sorted_SS; exact Hs.
  - apply forallb_forall. intros p _. rewrite Hm. apply option_Z_eqb_refl.
Qed.

Lemma andb_true_l a b : a && b = true -> a = true. Proof. destruct a; [reflexivity|discriminate]. Qed.
Lemma andb_true_r a b : a && b = true -> b = true. Proof. destruct a; [exact (fun H => H)|discriminate]. Qed.

Lemma obs_sound d mentioned b sb o :
  book_inv b -> sbook_eq (abs_book b) sb -> obs_matches d b o = true -> obs_ok d mentioned sb o = true.
Proof.
  intros [Hb Ha] (E1 & E2 & E3 & E4) H. unfold obs_matches in H.
  repeat match type of H with (_ && _ = true) => let H2 := fresh "M" in
     pose proof (andb_true_r _ _ H) as H2; apply andb_true_l in H end.
  (* H : seq ; M4.. *)
  apply levels_eqb_eq in M, M0, M3, M4.
  cbn [abs_book sseq stime sbids sasks] in E1, E2, E3, E4.
  unfold obs_ok.
  assert (S1 : (sseq sb =? o_seq o)%N = true) by (rewrite <- E1; exact H).
  assert (S2 : option_eqb Z.eqb (stime sb) (o_time o) = true) by (rewrite <- E2; exact M5).
  rewrite S1, S2. cbn [andb].
  rewrite <- M4, <- M3.
  rewrite (side_is_map_sound Bid mentioned (sbids sb) (bids b) Hb E3).
  rewrite (side_is_map_sound Ask mentioned (sasks sb) (asks b) Ha E4). cbn [andb].
  assert (Hmid : oQclose tol18 (mid_of_obs o) (o_mid o) = true).
  { unfold mid_of_obs. rewrite <- M4, <- M3. unfold mid_price in M2.
    destruct (bids b) as [|[bp ba] ?], (asks b) as [|[ap aa] ?]; exact M2. }
  assert (Hvw : vw_ok o = true).
  { unfold vw_ok. rewrite <- M4, <- M3. unfold vw_mid_price, vw_close in M1.
    destruct (bids b) as [|[bp ba] ?], (asks b) as [|[ap aa] ?].
    - destruct (o_vw o); try discriminate; reflexivity.
    - destruct (o_vw o); try discriminate; exact M1.
    - destruct (o_vw o); try discriminate; exact M1.
    - destruct (Z.eqb (ba + aa) 0) eqn:Ez; destruct (o_vw o); try discriminate; cbn [negb andb]; try reflexivity; exact M1. }
  rewrite Hmid, Hvw. cbn [andb].
  assert (Hsb : bids (snapshot b d) = firstn d (bids b) /\ asks (snapshot b d) = firstn d (asks b)).
  { destruct (snapshot_spec b d (conj Hb Ha)) as (_ & _ & _ & X & Y & _). split; assumption. }
  destruct Hsb as [X Y]. rewrite <- M0, <- M, X, Y, !levels_eqb_refl. reflexivity.
Qed.

Lemma run_sound d mentioned : forall evs b sb os,
  forallb wf_event evs = true -> book_inv b -> sbook_eq (abs_book b) sb ->
  corr_run d b evs os = true -> prop_run d mentioned sb evs os = true.
Proof.
  induction evs as [|e evs IH]; intros b sb os Hwf Hinv Heq H; destruct os as [|o os]; cbn [corr_run prop_run] in *;
    try discriminate; [reflexivity|].
  cbn [forallb] in Hwf. apply andb_true_iff in Hwf as [Hwe Hwf]. apply andb_true_iff in H as [H1 H2].
  pose proof (update_inv b e Hwe Hinv) as Hinv'.
  assert (Heq' : sbook_eq (abs_book (update b e)) (spec_update sb e)).
  { destruct (update_abs b e Hinv) as (A1 & A2 & A3 & A4).
    destruct (spec_update_ext _ _ e Heq) as (F1 & F2 & F3 & F4).
    unfold sbook_eq. split; [congruence|]. split; [congruence|].
    split; intros p; [rewrite A3; apply F3|rewrite A4; apply F4]. }
  rewrite (obs_sound d mentioned _ _ o Hinv' Heq' H1). cbn [andb].
  apply (IH _ _ _ Hwf Hinv' Heq' H2).
Qed.

Lemma route_wf i : forall evs,
  forallb (fun me => wf_event (snd me)) evs = true -> forallb wf_event (route i evs) = true.
Proof.
  induction evs as [|[k e] evs IH]; intros H; [reflexivity|].
  cbn [forallb snd] in H. apply andb_true_iff in H as [He H].
  rewrite route_cons, forallb_app, (IH H), Bool.andb_true_r.
  destruct k as [k|]; [|reflexivity]. destruct (Nat.eqb k i); [cbn; rewrite He|]; reflexivity.
Qed.

Lemma mgr_events_wf mevs :
  forallb (fun me => wf_event (snd me)) mevs = true ->
  forallb (fun me => wf_event (snd me)) (mgr_events mevs) = true.
Proof.
  unfold mgr_events. induction mevs as [|[k e] t IH]; intros H; [reflexivity|].
  cbn [forallb snd map] in *. apply andb_true_iff in H as [He H]. rewrite He, (IH H). reflexivity.
Qed.

Lemma length_fold_mgr evs : forall bs, length (fold_left mgr_step evs bs) = length bs.
Proof. induction evs as [|e t IH]; intros bs; [reflexivity|]. cbn [fold_left]. rewrite IH. apply length_mgr_step. Qed.

Lemma all2_length {A B} (p : A -> B -> bool) : forall l1 l2, all2 p l1 l2 = true -> length l1 = length l2.
Proof. induction l1 as [|x t IH]; intros [|y t2] H; cbn [all2] in H; try discriminate; [reflexivity|].
  apply andb_true_iff in H as [_ H]. cbn [length]. f_equal. apply IH; exact H. Qed.

Lemma final_sound evs mentioned i b f :
  forallb (fun me => wf_event (snd me)) evs = true ->
  b = fold_left update (route i evs) empty_book ->
  book_matches b f = true -> final_ok evs mentioned i f = true.
Proof.
  intros Hwf Hb Hm. destruct f as [[[sq t] bs] as_]. unfold book_matches in Hm. unfold final_ok.
  apply andb_true_iff in Hm as [Hm M4]. apply andb_true_iff in Hm as [Hm M3]. apply andb_true_iff in Hm as [M1 M2].
  apply levels_eqb_eq in M3, M4.
  destruct (run_refines (route i evs) empty_book (abs_book empty_book) (route_wf i evs Hwf) empty_book_inv (sbook_eq_refl _))
    as [[Hib Hia] (E1 & E2 & E3 & E4)].
  rewrite <- Hb in *. cbn [abs_book sseq stime sbids sasks] in E1, E2, E3, E4.
  rewrite <- E1, <- E2, M1, M2. cbn [andb]. subst bs as_.
  rewrite (side_is_map_sound Bid mentioned _ (bids b) Hib E3).
  rewrite (side_is_map_sound Ask mentioned _ (asks b) Hia E4). reflexivity.
Qed.

Lemma mgr_sound evs mentioned (all : list book) :
  forallb (fun me => wf_event (snd me)) evs = true ->
  (forall i, (i < length all)%nat -> nth i all empty_book = fold_left update (route i evs) empty_book) ->
  forall suffix finals i,
  (i + length suffix = length all)%nat ->
  (forall j, (j < length suffix)%nat -> nth j suffix empty_book = nth (i + j) all empty_book) ->
  all2 book_matches suffix finals = true -> mgr_ok evs mentioned i finals = true.
Proof.
  intros Hwf Hall. induction suffix as [|b t IH]; intros [|f fs] i Hlen Hnth H; cbn [all2] in H; try discriminate; [reflexivity|].
  apply andb_true_iff in H as [Hb H]. cbn [mgr_ok]. cbn [length] in Hlen.
  rewrite (final_sound evs mentioned i b f Hwf); [cbn [andb]|..].
  - apply (IH fs (S i)); [lia| |exact H].
    intros j Hj. specialize (Hnth (S j)). cbn [nth length] in Hnth. rewrite Hnth by lia. f_equal. lia.
  - specialize (Hnth 0%nat). cbn [nth length] in Hnth. rewrite Hnth by lia. rewrite Nat.add_0_r. apply Hall. lia.
  - exact Hb.
Qed.

Theorem corr_implies_prop c : wf_case c = true -> corr_b c = true -> prop_b c = true.
Proof.
  destruct c as [evs d os|s init ups res|n mevs finals|evs d|s init ups]; cbn [wf_case corr_b prop_b]; intros Hwf H; try discriminate.
  - apply (run_sound (N.to_nat d) _ evs empty_book _ os Hwf empty_book_inv (sbook_eq_refl _) H).
  - apply levels_eqb_eq in H. subst res.
    assert (Hss : SS s (sort_levels s init)) by (apply sort_levels_SS; exact Hwf).
    apply side_is_map_sound.
    + apply strict_sorted_SS. apply upsert_SS. exact Hss.
    + intros p. rewrite lookup_upsert by exact Hss. apply spec_upsert_ext. intros q. apply lookup_sort_levels.
  - pose proof (mgr_events_wf mevs Hwf) as Hwf'.
    set (all := fold_left mgr_step (mgr_events mevs) (repeat empty_book (N.to_nat n))) in *.
    assert (Hlen : length all = N.to_nat n) by (unfold all; rewrite length_fold_mgr, repeat_length; reflexivity).
    pose proof (all2_length _ _ _ H) as Hl2.
    apply andb_true_iff. split; [apply Nat.eqb_eq; lia|].
    apply (mgr_sound (mgr_events mevs) _ all Hwf') with (suffix := all); [|lia| |exact H].
    + intros i Hi. unfold all. rewrite mgr_routes by (rewrite repeat_length; lia).
      f_equal. apply nth_repeat.
    + intros j _. reflexivity.
Qed.
