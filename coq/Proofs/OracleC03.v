(** C03 link theorem: the oracle [Corr.C03.prop_b] is no stricter than the model — wherever the
    model reproduces the observation exactly ([corr_b]), the oracle accepts it.
    Scope ([case_in_scope]): every step kind except CancelOrders commands and the degenerate
    environment op [OpSetLink _ SNoIndex].  For a CancelOrders command the code iterates a hash
    map: [corr_b] compares the report and the mailboxes as multisets, whereas the oracle
    additionally requires each mailbox to hold the reported requests in the reported order — a
    relation between two observed values that multiset agreement with the model cannot imply, so
    the implication is genuinely false there (the oracle is deliberately stricter). *)
From Coq Require Import List ZArith NArith Bool Lia Permutation.
From BV Require Import Base.Common Model.Engine Proofs.Engine Corr.EngineCase Corr.C03 Proofs.CorrEngine Proofs.OracleCommon.
Import ListNotations.
Local Open Scope N_scope.

Lemma stat_link_eq : forall ls, map stat_of_link ls = map lstat_link ls.
Proof. intros. apply map_ext. intros [| | |]; reflexivity. Qed.

Definition view_of (s : state) : oview := mkOView (trading s) (map stat_of_link (links s)) (insts s).

Lemma obs_to_insts_id : forall l0 l1,
  map inst_static l1 = map inst_static l0 ->
  obs_to_insts l0 (map (fun i => (i_orders i, i_pos i, i_data i)) l1) = l1.
Proof.
  intros l0 l1. revert l0. induction l1 as [|x t IH]; intros [|y u] H; cbn in *; try discriminate; [reflexivity|].
  inversion H. unfold obs_to_insts in *. cbn. rewrite IH by assumption. f_equal.
  destruct x; cbn in *. congruence.
Qed.

Lemma rest_eqb : forall l1 l2, map inst_rest l1 = map inst_rest l2 ->
  list_eqb (fun a b => option_eqb pos_eqb (i_pos a) (i_pos b) &&
                       mdata_eqb (i_data a) (i_data b)) l1 l2 = true.
Proof.
  induction l1 as [|x t IH]; intros [|y u] H; cbn in *; try discriminate; [reflexivity|].
  assert (i_pos x = i_pos y /\ i_data x = i_data y /\ map inst_rest t = map inst_rest u) as (E1 & E2 & E3)
    by (unfold inst_rest in H; inversion H; auto).
  rewrite E1, E2, (option_eqb_refl _ _ pos_eqb_refl), mdata_eqb_refl. cbn. apply IH. exact E3.
Qed.

(** everything the oracle checks after the two phases, given the facts the model theorems provide *)
Section Tail.
  Variables (s0 s1 su : state) (cmd_sent algo_x : list xreq).
  Hypothesis Hclr : forall e, mbox (links s0) e = [].
  Hypothesis Hst : forall e, lstat_of (links s1) e = lstat_of (links s0) e.
  Hypothesis Hmb : forall e, mbox (links s1) e = mbox (links s0) e ++ to_ex e (cmd_sent ++ algo_x).
  Hypothesis Hopen : forall x, In x (cmd_sent ++ algo_x) -> link_open (links s0) (xr_ex x) = true.
  Hypothesis Hrest : map inst_rest (insts s1) = map inst_rest (insts su).
  Hypothesis Hrest0 : map inst_static (insts su) = map inst_static (insts s0).
  Hypothesis Hord : forall i c, ord (insts s1) i c =
     marked (marked (ord (insts su)) (cancels_of cmd_sent) (opens_of cmd_sent)) (cancels_of algo_x) (opens_of algo_x) i c.

  Let ls := map stat_of_link (links s0).
  Let after := obs_to_insts (insts s0) (iobs_of s1).

  Lemma tail_after : after = insts s1.
  Proof.
    subst after. unfold iobs_of. apply obs_to_insts_id.
    rewrite (rest_static _ _ Hrest). exact Hrest0.
  Qed.

  Lemma tail_deliv :
    Nat.eqb (length (deliv_of s1)) (length ls) &&
    forallb (fun p => list_eqb xreq_eqb (snd p) (to_ex (fst p) (cmd_sent ++ algo_x))) (indexed (deliv_of s1)) &&
    forallb (fun x => open_at ls (xr_ex x)) (cmd_sent ++ algo_x) = true.
  Proof.
    subst ls. rewrite length_deliv, map_length, (stats_length _ _ Hst), Nat.eqb_refl. cbn [andb].
    rewrite indexed_deliv, forallb_map. cbn [fst snd].
    rewrite forallb_true.
    - cbn [andb]. apply forallb_forall. intros x Hx. rewrite open_at_links. apply Hopen. exact Hx.
    - intros k. rewrite Hmb, Hclr. cbn [app]. apply list_eqb_refl, xreq_eqb_refl.
  Qed.

  Lemma tail_orders :
    Nat.eqb (length (iobs_of s1)) (length (insts s0)) &&
    forallb (fun i =>
      forallb (fun c => option_order_eqb (ord after i c)
                 (marked (marked (ord (insts su)) (cancels_of cmd_sent) (opens_of cmd_sent)) (cancels_of algo_x) (opens_of algo_x) i c))
              (cids_of i (insts su) after (cmd_sent ++ algo_x)))
      (nat_seqN (length (insts s0))) = true.
  Proof.
    rewrite tail_after, length_iobs.
    assert (length (insts s1) = length (insts s0)) as Hl.
    { rewrite <- (map_length inst_static (insts s1)), (rest_static _ _ Hrest), Hrest0, map_length. reflexivity. }
    rewrite Hl, Nat.eqb_refl. cbn [andb]. apply forallb_true. intros i. apply forallb_true. intros c.
    rewrite Hord. unfold option_order_eqb. apply option_eqb_refl, order_eqb_refl.
  Qed.

  Lemma tail_rest :
    list_eqb (fun a b => option_eqb pos_eqb (i_pos a) (i_pos b) &&
                         mdata_eqb (i_data a) (i_data b)) after (insts su) = true.
  Proof. rewrite tail_after. apply rest_eqb. exact Hrest. Qed.
End Tail.

Lemma view_clear : forall s1 s0,
  (forall e, lstat_of (links s1) e = lstat_of (links s0) e) ->
  mkOView (trading s1) (map stat_of_link (links s0)) (insts s1) = view_of (clear_state s1).
Proof.
  intros. unfold view_of, clear_state. cbn. f_equal.
  rewrite !stat_link_eq, stat_clear. symmetry. apply stats_ext. exact H.
Qed.

Lemma sound_generate : forall s0 g cl,
  (forall e, mbox (links s0) e = []) ->
  valid_opens (insts s0) (so_sent (ao_opens (snd (generate s0 g)))) = true ->
  oracle_step (view_of s0) (mkStep OpGenerate g cl (obs_of (fst (generate s0 g)) (MAlgo (snd (generate s0 g)))))
  = (true, view_of (clear_state (fst (generate s0 g)))).
Proof.
  intros s0 g cl Hclr Hv.
  pose proof (generate_spec s0 g) as Hg. cbn zeta in Hg.
  destruct (generate s0 g) as [s1 a]. cbn [fst snd] in *.
  destruct Hg as (Ha & Htr & Hst & Hmb & Hrest & Hhas & Hmk). specialize (Hmk Hv).
  assert (Hopen : forall x, In x ([] ++ algo_sent a) -> link_open (links s0) (xr_ex x) = true).
  { intros x Hx. cbn [app] in Hx. unfold algo_sent in Hx. rewrite Ha in Hx. cbn [ao_cancels ao_opens so_sent] in Hx.
    apply in_app_iff in Hx. destruct Hx as [Hx|Hx]; apply in_map_iff in Hx; destruct Hx as [r [<- Hr]];
      apply spec_sent_in in Hr; apply Hr. }
  set (su := {| trading := trading s0; links := []; insts := insts s0 |}).
  assert (Hord : forall i c, ord (insts s1) i c =
     marked (marked (ord (insts su)) (cancels_of []) (opens_of [])) (cancels_of (algo_sent a)) (opens_of (algo_sent a)) i c).
  { intros i c. unfold algo_sent, cancels_of, opens_of. rewrite cancels_of_app, opens_of_app. rewrite Hmk.
    apply marked_ext. intros i' c'. reflexivity. }
  pose proof (tail_after s0 s1 su Hrest eq_refl) as Hafter.
  pose proof (tail_deliv s0 s1 [] (algo_sent a) Hclr Hst Hmb Hopen) as Hd.
  pose proof (tail_orders s0 s1 su [] (algo_sent a) Hrest eq_refl Hord) as Ho.
  pose proof (tail_rest s0 s1 su Hrest eq_refl) as Hr.
  unfold oracle_step. cbn [st_op st_obs st_g st_close obs_of ob_res ob_trading ob_deliv ob_insts res_of view_of ov_stats ov_insts ov_trading].
  rewrite (surjective_pairing (split_mask (gs_cmask g) (gs_cancels g))).
  rewrite (surjective_pairing (split_mask (gs_omask g) (gs_opens g))).
  rewrite !o_sent_spec, !o_errs_spec. rewrite <- Ha. fold su.
  rewrite algo_eqb_refl, Hd, Ho, Hr, Hafter, Htr, Bool.eqb_reflx. cbn [andb].
  f_equal. rewrite <- Htr. apply view_clear. exact Hst.
Qed.

(* ---- the audit, as the oracle reads it ---- *)
Definition is_report (o : output) : bool := match o with OutCommanded _ | OutAlgo _ => true | _ => false end.
Definition no_reports (outs : list output) : Prop := forall o, In o outs -> is_report o = false.

Definition act_out (act : option action_out) : list output :=
  match act with Some a => [OutCommanded a] | None => [] end.
Definition act_unrec (act : option action_out) : list errk :=
  match act with Some a => action_unrec a | None => [] end.
Definition algo_shown (algo : option algo_out) : option algo_out :=
  match algo with
  | Some a => if algo_empty a then None else match algo_unrec a with [] => Some a | _ => None end
  | None => None
  end.
Definition algo_errs (algo : option algo_out) : list errk :=
  match algo with Some a => if algo_empty a then [] else algo_unrec a | None => [] end.

Lemma audit_of_parts : forall act outs algo,
  au_outputs (audit_of (mkTrace act outs algo)) =
    (act_out act ++ outs) ++ match algo_shown algo with Some a => [OutAlgo a] | None => [] end /\
  au_errors (audit_of (mkTrace act outs algo)) =
    match algo_errs algo with [] => act_unrec act | errs => nom_extend (act_unrec act) errs end.
Proof.
  intros act outs algo. unfold audit_of, algo_shown, algo_errs, act_out, act_unrec. cbn [tr_action tr_update tr_algo].
  destruct algo as [a|]; [|cbn; rewrite app_nil_r; auto].
  destruct (algo_empty a); [cbn; rewrite app_nil_r; auto|].
  destruct (algo_unrec a) as [|k ks]; cbn; [auto|rewrite app_nil_r; auto].
Qed.

Lemma find_commanded_parts : forall act outs tail_,
  no_reports outs -> (forall o, In o tail_ -> exists a, o = OutAlgo a) ->
  find_commanded ((act_out act ++ outs) ++ tail_) = act.
Proof.
  intros [a|] outs tl Hn Ht; cbn; [reflexivity|].
  destruct outs as [|o outs']; cbn.
  - destruct tl as [|o tl']; [reflexivity|]. destruct (Ht o (or_introl eq_refl)) as [a ->]. reflexivity.
  - specialize (Hn o (or_introl eq_refl)). destruct o; cbn in Hn; try discriminate; reflexivity.
Qed.

Lemma find_algo_app : forall l1 l2, find_algo (l1 ++ l2) =
  match find_algo l2 with Some a => Some a | None => find_algo l1 end.
Proof.
  intros l1 l2. unfold find_algo. rewrite fold_left_app.
  generalize (fold_left (fun acc o => match o with OutAlgo a => Some a | _ => acc end) l1 None) as acc0.
  induction l2 as [|o t IH]; intros acc0; cbn.
  - destruct acc0; reflexivity.
  - rewrite IH. clear IH.
    assert (forall acc, fold_left (fun acc o => match o with OutAlgo a => Some a | _ => acc end) t acc =
                        match fold_left (fun acc o => match o with OutAlgo a => Some a | _ => acc end) t None with
                        | Some a => Some a | None => acc end) as G.
    { induction t as [|o' t' IH']; intros acc; cbn; [destruct acc; reflexivity|].
      rewrite IH'. rewrite (IH' (match o' with OutAlgo a => Some a | _ => None end)).
      destruct (fold_left _ t' None); [reflexivity|]. destruct o'; reflexivity. }
    rewrite (G (match o with OutAlgo a => Some a | _ => None end)).
    destruct (fold_left _ t None); [reflexivity|]. destruct o; try reflexivity.
Qed.

Lemma find_algo_none : forall l, (forall o, In o l -> forall a, o <> OutAlgo a) -> find_algo l = None.
Proof.
  intros l H. unfold find_algo.
  assert (forall acc, fold_left (fun acc o => match o with OutAlgo a => Some a | _ => acc end) l acc = acc) as G.
  { induction l as [|o t IH]; intros acc; [reflexivity|]. cbn. rewrite IH.
    - destruct o; try reflexivity. exfalso. eapply (H (OutAlgo a)); [left; reflexivity|reflexivity].
    - intros o' Ho'. apply H. right. exact Ho'. }
  apply G.
Qed.

Lemma no_reports_no_algo : forall outs, no_reports outs -> forall o, In o outs -> forall a, o <> OutAlgo a.
Proof. intros outs H o Ho a ->. specialize (H _ Ho). discriminate. Qed.

Lemma find_algo_parts : forall act outs algo,
  no_reports outs ->
  find_algo ((act_out act ++ outs) ++ match algo_shown algo with Some a => [OutAlgo a] | None => [] end) = algo_shown algo.
Proof.
  intros act outs algo Hn. rewrite find_algo_app.
  assert (find_algo (act_out act ++ outs) = None) as E.
  { apply find_algo_none. intros o Ho a ->. apply in_app_iff in Ho. destruct Ho as [Ho|Ho].
    - destruct act; cbn in Ho; [destruct Ho as [Ho|[]]; discriminate|destruct Ho].
    - specialize (Hn _ Ho). discriminate. }
  rewrite E. destruct (algo_shown algo); reflexivity.
Qed.

Lemma filter_all_false : forall A (p : A -> bool) l, (forall x, In x l -> p x = false) -> filter p l = [].
Proof.
  induction l as [|x t IH]; intros H; [reflexivity|]. cbn. rewrite (H x (or_introl eq_refl)).
  apply IH. intros y Hy. apply H. right. exact Hy.
Qed.
Lemma filter_all_true : forall A (p : A -> bool) l, (forall x, In x l -> p x = true) -> filter p l = l.
Proof.
  induction l as [|x t IH]; intros H; [reflexivity|]. cbn. rewrite (H x (or_introl eq_refl)). f_equal.
  apply IH. intros y Hy. apply H. right. exact Hy.
Qed.

Lemma other_outputs_parts : forall act outs algo,
  no_reports outs ->
  other_outputs ((act_out act ++ outs) ++ match algo_shown algo with Some a => [OutAlgo a] | None => [] end) = outs.
Proof.
  intros act outs algo Hn. unfold other_outputs. rewrite !filter_app.
  assert (filter (fun o => match o with OutCommanded _ | OutAlgo _ => false | _ => true end) (act_out act) = []) as E1
    by (destruct act; reflexivity).
  assert (filter (fun o => match o with OutCommanded _ | OutAlgo _ => false | _ => true end)
                 (match algo_shown algo with Some a => [OutAlgo a] | None => [] end) = []) as E2
    by (destruct (algo_shown algo); reflexivity).
  rewrite E1, E2, app_nil_r. cbn [app]. apply filter_all_true. intros o Ho. specialize (Hn _ Ho).
  destruct o; cbn in *; congruence.
Qed.

Lemma count_reports_parts : forall act outs algo,
  no_reports outs ->
  count_reports ((act_out act ++ outs) ++ match algo_shown algo with Some a => [OutAlgo a] | None => [] end) =
  ((match act with Some _ => 1 | None => 0 end) + (match algo_shown algo with Some _ => 1 | None => 0 end))%nat.
Proof.
  intros act outs algo Hn. unfold count_reports. rewrite !filter_app, !app_length.
  assert (filter (fun o => match o with OutCommanded _ | OutAlgo _ => true | _ => false end) outs = []) as E.
  { apply filter_all_false. intros o Ho. specialize (Hn _ Ho). destruct o; cbn in *; congruence. }
  rewrite E. destruct act, (algo_shown algo); reflexivity.
Qed.

Lemma update_state_no_reports' : forall s ev, no_reports (snd (update_state s ev)).
Proof.
  intros s ev o. destruct ev; cbn; try tauto.
  - destruct (trading s && negb enabled); cbn; [intros [<-|[]]; reflexivity|tauto].
  - destruct (nthN (insts s) i) as [x|]; [|cbn; tauto].
    destruct (trade_pos (i_pos x) i sd q) as [p [|]]; cbn; [intros [<-|[]]; reflexivity|tauto].
  - intros [<-|[]]; reflexivity.
  - intros [<-|[]]; reflexivity.
Qed.

(** update_state does not look at the links *)
Lemma update_state_nolinks : forall s ev l,
  let r := update_state (mkState (trading s) l (insts s)) ev in
  insts (fst r) = insts (fst (update_state s ev)) /\ trading (fst r) = trading (fst (update_state s ev)) /\
  snd r = snd (update_state s ev).
Proof.
  intros s ev l. destruct ev; cbn; auto.
  destruct (nthN (insts s) i) as [x|]; cbn; auto.
  destruct (trade_pos (i_pos x) i sd q). cbn. auto.
Qed.

Lemma perm_eqb_refl : forall A (eqb : A -> A -> bool) l, perm_eqb eqb l l = true.
Proof.
  intros. unfold perm_eqb. rewrite Nat.eqb_refl. cbn. apply forallb_true. intros x. apply Nat.eqb_refl.
Qed.

Definition plain_event (ev : event) : bool :=
  match ev with EvShutdown | EvCommand _ => false | _ => true end.

Lemma process_event_form : forall cs s0 ev g,
  plain_event ev = true ->
  let su0 := fst (update_state s0 ev) in
  let outs := snd (update_state s0 ev) in
  let algo := if trading su0 then Some (snd (generate su0 g)) else None in
  process cs s0 ev g = ((if trading su0 then fst (generate su0 g) else su0), audit_of (mkTrace None outs algo)).
Proof.
  intros cs s0 ev g Hp. cbn zeta. unfold process.
  pose proof (process_trace_shape cs s0 ev g) as Hsh.
  destruct ev; try discriminate; cbn [pre_step generation_runs] in Hsh; rewrite Hsh;
    match goal with |- context [trading ?X] => destruct (trading X) end; reflexivity.
Qed.

(** the strategy phase of the oracle, decided: with [a] the model's generation output *)
Lemma gen_checks : forall (a : algo_out) (act : option action_out) (outs : list output),
  no_reports outs -> act_unrec act = [] ->
  let algo := Some a in
  let au := audit_of (mkTrace act outs algo) in
  match find_algo (au_outputs au) with
  | Some a' => algo_eqb a' a
  | None => true && (algo_empty a || match algo_unrec a with [] => false | _ => true end)
  end = true /\
  perm_eqb errk_eqb (au_errors au) (act_unrec act ++ (if negb (algo_empty a) then algo_unrec a else [])) = true /\
  list_eqb (output_eqb false) (other_outputs (au_outputs au)) outs = true /\
  Nat.eqb (count_reports (au_outputs au))
          ((match find_commanded (au_outputs au) with Some _ => 1 | None => 0 end) +
           (match find_algo (au_outputs au) with Some _ => 1 | None => 0 end))%nat = true /\
  find_commanded (au_outputs au) = act.
Proof.
  intros a act outs Hn Hu algo au. subst au algo.
  destruct (audit_of_parts act outs (Some a)) as [Eo Ee]. rewrite Eo, Ee.
  rewrite find_algo_parts, other_outputs_parts, count_reports_parts by exact Hn.
  rewrite find_commanded_parts; [|exact Hn|].
  2:{ intros o Ho. destruct (algo_shown (Some a)) as [a'|]; [destruct Ho as [<-|[]]; eauto|destruct Ho]. }
  rewrite Hu. unfold algo_shown, algo_errs. cbn [app].
  rewrite (list_eqb_refl _ _ output_eqb_refl).
  destruct (algo_empty a); cbn [negb orb andb].
  - repeat split; try reflexivity. destruct act; reflexivity.
  - destruct (algo_unrec a) as [|k ks] eqn:E.
    + rewrite algo_eqb_refl. repeat split; try reflexivity. destruct act; reflexivity.
    + repeat split; try reflexivity; [apply perm_eqb_refl|destruct act; reflexivity].
Qed.

Lemma nogen_checks : forall (act : option action_out) (outs : list output),
  no_reports outs ->
  let au := audit_of (mkTrace act outs None) in
  find_algo (au_outputs au) = None /\
  perm_eqb errk_eqb (au_errors au) (act_unrec act ++ []) = true /\
  list_eqb (output_eqb false) (other_outputs (au_outputs au)) outs = true /\
  Nat.eqb (count_reports (au_outputs au))
          ((match find_commanded (au_outputs au) with Some _ => 1 | None => 0 end) + 0)%nat = true /\
  find_commanded (au_outputs au) = act.
Proof.
  intros act outs Hn au. subst au.
  destruct (audit_of_parts act outs None) as [Eo Ee]. rewrite Eo, Ee.
  rewrite find_algo_parts, other_outputs_parts, count_reports_parts by exact Hn.
  rewrite find_commanded_parts; [|exact Hn|intros o []].
  cbn. rewrite app_nil_r, perm_eqb_refl, (list_eqb_refl _ _ output_eqb_refl). repeat split; try reflexivity.
  destruct act; reflexivity.
Qed.

Lemma algo_sent_open : forall ls ac ao rc ro x,
  In x (algo_sent (mkAlgo (mkSendOut (spec_sent cr_ex ls ac) (spec_errs cr_ex ls ac))
                          (mkSendOut (spec_sent or_ex ls ao) (spec_errs or_ex ls ao)) rc ro)) ->
  link_open ls (xr_ex x) = true.
Proof.
  intros ls ac ao rc ro x Hx. unfold algo_sent in Hx. cbn [ao_cancels ao_opens so_sent] in Hx.
  apply in_app_iff in Hx. destruct Hx as [Hx|Hx]; apply in_map_iff in Hx; destruct Hx as [r [<- Hr]];
    apply spec_sent_in in Hr; apply Hr.
Qed.


Ltac event_script Hclr Hv :=
  match goal with |- context [process ?CS ?S0 ?EV ?G] =>
    let s0 := S0 in let ev := EV in let g := G in
    rewrite (process_event_form CS s0 ev g eq_refl); cbn zeta; cbn [fst snd];
    pose proof (update_state_links s0 ev) as Hlk;
    pose proof (update_state_has_inst s0 ev) as Hhs;
    pose proof (update_state_no_reports' s0 ev) as Hnr;
    destruct (update_state_nolinks s0 ev []) as (Hni & Hnt & Hno);
    pose proof (generate_spec (fst (update_state s0 ev)) g) as Hg; cbn zeta in Hg;
    set (su0 := fst (update_state s0 ev)) in *;
    set (outs := snd (update_state s0 ev)) in *
  end.

Lemma sound_ev_ts : forall s0 enabled g cl,
  (forall e, mbox (links s0) e = []) ->
  (valid_opens (insts s0) (so_sent (ao_opens (snd (generate (fst (update_state s0 (EvTradingState enabled))) g)))) = true) ->
  oracle_step (view_of s0) (mkStep (OpProcess (EvTradingState enabled)) g cl
     (obs_of (fst (process (cs_of cl) s0 (EvTradingState enabled) g)) (MAudit (snd (process (cs_of cl) s0 (EvTradingState enabled) g)))))
  = (true, view_of (clear_state (fst (process (cs_of cl) s0 (EvTradingState enabled) g)))).
Proof.
  intros s0 enabled g cl Hclr Hv.
  event_script Hclr Hv.
  unfold oracle_step. cbn [st_op st_obs st_g st_close obs_of ob_res ob_trading ob_deliv ob_insts res_of view_of ov_stats ov_insts ov_trading].
  destruct (update_state {| trading := trading s0; links := []; insts := insts s0 |} _) as [su' outs'].
  cbn [fst snd] in Hni, Hnt, Hno. subst outs'.
  rewrite (surjective_pairing (split_mask (gs_cmask g) (gs_cancels g))).
  rewrite (surjective_pairing (split_mask (gs_omask g) (gs_opens g))).
  rewrite !o_sent_spec, !o_errs_spec. rewrite Hnt.
  destruct Hg as (Ha & Htr & Hst & Hmb & Hrest & Hhas & Hmk). rewrite Hlk in Ha.
  fold su0 in Hv.
  destruct (trading su0) eqn:Htsu; cbn [fst snd].
  - set (a := snd (generate su0 g)) in *. set (s1 := fst (generate su0 g)) in *.
    rewrite <- Ha.
    destruct (gen_checks a None outs Hnr eq_refl) as (G1 & G2 & G3 & G4 & G5). cbn zeta in G1, G2, G3, G4, G5.
    rewrite G5. cbn [andb act_unrec app] in *. rewrite G1, G2, G3.
    rewrite G5 in G4. rewrite G4.
    assert (Hst' : forall e, lstat_of (links s1) e = lstat_of (links s0) e) by (intros e; rewrite Hst, Hlk; reflexivity).
    assert (Hmb' : forall e, mbox (links s1) e = mbox (links s0) e ++ to_ex e ([] ++ algo_sent a))
      by (intros e; rewrite Hmb, Hlk; reflexivity).
    assert (Hopen : forall x, In x ([] ++ algo_sent a) -> link_open (links s0) (xr_ex x) = true)
      by (intros x Hx; cbn [app] in Hx; rewrite Ha in Hx; eapply algo_sent_open; exact Hx).
    assert (Hrest' : map inst_rest (insts s1) = map inst_rest (insts su')) by (rewrite Hni; exact Hrest).
    assert (Hrest0 : map inst_static (insts su') = map inst_static (insts s0))
      by (rewrite Hni; apply update_state_static).
    assert (Hord : forall i c, ord (insts s1) i c =
       marked (marked (ord (insts su')) (cancels_of []) (opens_of [])) (cancels_of (algo_sent a)) (opens_of (algo_sent a)) i c).
    { intros i' c'. unfold algo_sent, cancels_of, opens_of. rewrite cancels_of_app, opens_of_app, Hni. rewrite Hmk.
      - apply marked_ext. intros i'' c''. reflexivity.
      - rewrite (valid_opens_ext _ (insts s0)); [exact Hv|exact Hhs]. }
    pose proof (tail_after s0 s1 su' Hrest' Hrest0) as Hafter.
    pose proof (tail_deliv s0 s1 [] (algo_sent a) Hclr Hst' Hmb' Hopen) as Hd.
    pose proof (tail_orders s0 s1 su' [] (algo_sent a) Hrest' Hrest0 Hord) as Ho.
    pose proof (tail_rest s0 s1 su' Hrest' Hrest0) as Hr.
    cbn [app] in Hd, Ho.
    rewrite Hd, Ho, Hr, Hafter, Htr, Bool.eqb_reflx. cbn [andb].
    f_equal. rewrite <- Htr. apply view_clear. exact Hst'.
  - destruct (nogen_checks None outs Hnr) as (G1 & G2 & G3 & G4 & G5). cbn zeta in G1, G2, G3, G4, G5.
    rewrite G5. cbn [andb act_unrec app] in *. rewrite G1, G2, G3.
    rewrite G5 in G4. rewrite G4.
    assert (Hst' : forall e, lstat_of (links su0) e = lstat_of (links s0) e) by (intros e; rewrite Hlk; reflexivity).
    assert (Hmb' : forall e, mbox (links su0) e = mbox (links s0) e ++ to_ex e ([] ++ []))
      by (intros e; rewrite Hlk; cbn; rewrite app_nil_r; reflexivity).
    assert (Hopen : forall x, In x (@nil xreq ++ []) -> link_open (links s0) (xr_ex x) = true) by (intros x []).
    assert (Hrest' : map inst_rest (insts su0) = map inst_rest (insts su')) by (rewrite Hni; reflexivity).
    assert (Hrest0 : map inst_static (insts su') = map inst_static (insts s0))
      by (rewrite Hni; apply update_state_static).
    assert (Hord : forall i c, ord (insts su0) i c =
       marked (marked (ord (insts su')) (cancels_of []) (opens_of [])) (cancels_of []) (opens_of []) i c)
      by (intros i' c'; rewrite Hni; reflexivity).
    pose proof (tail_after s0 su0 su' Hrest' Hrest0) as Hafter.
    pose proof (tail_deliv s0 su0 [] [] Hclr Hst' Hmb' Hopen) as Hd.
    pose proof (tail_orders s0 su0 su' [] [] Hrest' Hrest0 Hord) as Ho.
    pose proof (tail_rest s0 su0 su' Hrest' Hrest0) as Hr.
    cbn [app] in Hd, Ho.
    rewrite Hd, Ho, Hr, Hafter, Htsu, Bool.eqb_reflx. cbn [andb].
    f_equal. rewrite <- Htsu. apply view_clear. exact Hst'.
Qed.

Lemma sound_ev_os : forall s0 o sn g cl,
  (forall e, mbox (links s0) e = []) ->
  (valid_opens (insts s0) (so_sent (ao_opens (snd (generate (fst (update_state s0 (EvOrderSnapshot o sn))) g)))) = true) ->
  oracle_step (view_of s0) (mkStep (OpProcess (EvOrderSnapshot o sn)) g cl
     (obs_of (fst (process (cs_of cl) s0 (EvOrderSnapshot o sn) g)) (MAudit (snd (process (cs_of cl) s0 (EvOrderSnapshot o sn) g)))))
  = (true, view_of (clear_state (fst (process (cs_of cl) s0 (EvOrderSnapshot o sn) g)))).
Proof.
  intros s0 o sn g cl Hclr Hv.
  event_script Hclr Hv.
  unfold oracle_step. cbn [st_op st_obs st_g st_close obs_of ob_res ob_trading ob_deliv ob_insts res_of view_of ov_stats ov_insts ov_trading].
  destruct (update_state {| trading := trading s0; links := []; insts := insts s0 |} _) as [su' outs'].
  cbn [fst snd] in Hni, Hnt, Hno. subst outs'.
  rewrite (surjective_pairing (split_mask (gs_cmask g) (gs_cancels g))).
  rewrite (surjective_pairing (split_mask (gs_omask g) (gs_opens g))).
  rewrite !o_sent_spec, !o_errs_spec. rewrite Hnt.
  destruct Hg as (Ha & Htr & Hst & Hmb & Hrest & Hhas & Hmk). rewrite Hlk in Ha.
  fold su0 in Hv.
  destruct (trading su0) eqn:Htsu; cbn [fst snd].
  - set (a := snd (generate su0 g)) in *. set (s1 := fst (generate su0 g)) in *.
    rewrite <- Ha.
    destruct (gen_checks a None outs Hnr eq_refl) as (G1 & G2 & G3 & G4 & G5). cbn zeta in G1, G2, G3, G4, G5.
    rewrite G5. cbn [andb act_unrec app] in *. rewrite G1, G2, G3.
    rewrite G5 in G4. rewrite G4.
    assert (Hst' : forall e, lstat_of (links s1) e = lstat_of (links s0) e) by (intros e; rewrite Hst, Hlk; reflexivity).
    assert (Hmb' : forall e, mbox (links s1) e = mbox (links s0) e ++ to_ex e ([] ++ algo_sent a))
      by (intros e; rewrite Hmb, Hlk; reflexivity).
    assert (Hopen : forall x, In x ([] ++ algo_sent a) -> link_open (links s0) (xr_ex x) = true)
      by (intros x Hx; cbn [app] in Hx; rewrite Ha in Hx; eapply algo_sent_open; exact Hx).
    assert (Hrest' : map inst_rest (insts s1) = map inst_rest (insts su')) by (rewrite Hni; exact Hrest).
    assert (Hrest0 : map inst_static (insts su') = map inst_static (insts s0))
      by (rewrite Hni; apply update_state_static).
    assert (Hord : forall i c, ord (insts s1) i c =
       marked (marked (ord (insts su')) (cancels_of []) (opens_of [])) (cancels_of (algo_sent a)) (opens_of (algo_sent a)) i c).
    { intros i' c'. unfold algo_sent, cancels_of, opens_of. rewrite cancels_of_app, opens_of_app, Hni. rewrite Hmk.
      - apply marked_ext. intros i'' c''. reflexivity.
      - rewrite (valid_opens_ext _ (insts s0)); [exact Hv|exact Hhs]. }
    pose proof (tail_after s0 s1 su' Hrest' Hrest0) as Hafter.
    pose proof (tail_deliv s0 s1 [] (algo_sent a) Hclr Hst' Hmb' Hopen) as Hd.
    pose proof (tail_orders s0 s1 su' [] (algo_sent a) Hrest' Hrest0 Hord) as Ho.
    pose proof (tail_rest s0 s1 su' Hrest' Hrest0) as Hr.
    cbn [app] in Hd, Ho.
    rewrite Hd, Ho, Hr, Hafter, Htr, Bool.eqb_reflx. cbn [andb].
    f_equal. rewrite <- Htr. apply view_clear. exact Hst'.
  - destruct (nogen_checks None outs Hnr) as (G1 & G2 & G3 & G4 & G5). cbn zeta in G1, G2, G3, G4, G5.
    rewrite G5. cbn [andb act_unrec app] in *. rewrite G1, G2, G3.
    rewrite G5 in G4. rewrite G4.
    assert (Hst' : forall e, lstat_of (links su0) e = lstat_of (links s0) e) by (intros e; rewrite Hlk; reflexivity).
    assert (Hmb' : forall e, mbox (links su0) e = mbox (links s0) e ++ to_ex e ([] ++ []))
      by (intros e; rewrite Hlk; cbn; rewrite app_nil_r; reflexivity).
    assert (Hopen : forall x, In x (@nil xreq ++ []) -> link_open (links s0) (xr_ex x) = true) by (intros x []).
    assert (Hrest' : map inst_rest (insts su0) = map inst_rest (insts su')) by (rewrite Hni; reflexivity).
    assert (Hrest0 : map inst_static (insts su') = map inst_static (insts s0))
      by (rewrite Hni; apply update_state_static).
    assert (Hord : forall i c, ord (insts su0) i c =
       marked (marked (ord (insts su')) (cancels_of []) (opens_of [])) (cancels_of []) (opens_of []) i c)
      by (intros i' c'; rewrite Hni; reflexivity).
    pose proof (tail_after s0 su0 su' Hrest' Hrest0) as Hafter.
    pose proof (tail_deliv s0 su0 [] [] Hclr Hst' Hmb' Hopen) as Hd.
    pose proof (tail_orders s0 su0 su' [] [] Hrest' Hrest0 Hord) as Ho.
    pose proof (tail_rest s0 su0 su' Hrest' Hrest0) as Hr.
    cbn [app] in Hd, Ho.
    rewrite Hd, Ho, Hr, Hafter, Htsu, Bool.eqb_reflx. cbn [andb].
    f_equal. rewrite <- Htsu. apply view_clear. exact Hst'.
Qed.

Lemma sound_ev_cr : forall s0 k ok g cl,
  (forall e, mbox (links s0) e = []) ->
  (valid_opens (insts s0) (so_sent (ao_opens (snd (generate (fst (update_state s0 (EvCancelResponse k ok))) g)))) = true) ->
  oracle_step (view_of s0) (mkStep (OpProcess (EvCancelResponse k ok)) g cl
     (obs_of (fst (process (cs_of cl) s0 (EvCancelResponse k ok) g)) (MAudit (snd (process (cs_of cl) s0 (EvCancelResponse k ok) g)))))
  = (true, view_of (clear_state (fst (process (cs_of cl) s0 (EvCancelResponse k ok) g)))).
Proof.
  intros s0 k ok g cl Hclr Hv.
  event_script Hclr Hv.
  unfold oracle_step. cbn [st_op st_obs st_g st_close obs_of ob_res ob_trading ob_deliv ob_insts res_of view_of ov_stats ov_insts ov_trading].
  destruct (update_state {| trading := trading s0; links := []; insts := insts s0 |} _) as [su' outs'].
  cbn [fst snd] in Hni, Hnt, Hno. subst outs'.
  rewrite (surjective_pairing (split_mask (gs_cmask g) (gs_cancels g))).
  rewrite (surjective_pairing (split_mask (gs_omask g) (gs_opens g))).
  rewrite !o_sent_spec, !o_errs_spec. rewrite Hnt.
  destruct Hg as (Ha & Htr & Hst & Hmb & Hrest & Hhas & Hmk). rewrite Hlk in Ha.
  fold su0 in Hv.
  destruct (trading su0) eqn:Htsu; cbn [fst snd].
  - set (a := snd (generate su0 g)) in *. set (s1 := fst (generate su0 g)) in *.
    rewrite <- Ha.
    destruct (gen_checks a None outs Hnr eq_refl) as (G1 & G2 & G3 & G4 & G5). cbn zeta in G1, G2, G3, G4, G5.
    rewrite G5. cbn [andb act_unrec app] in *. rewrite G1, G2, G3.
    rewrite G5 in G4. rewrite G4.
    assert (Hst' : forall e, lstat_of (links s1) e = lstat_of (links s0) e) by (intros e; rewrite Hst, Hlk; reflexivity).
    assert (Hmb' : forall e, mbox (links s1) e = mbox (links s0) e ++ to_ex e ([] ++ algo_sent a))
      by (intros e; rewrite Hmb, Hlk; reflexivity).
    assert (Hopen : forall x, In x ([] ++ algo_sent a) -> link_open (links s0) (xr_ex x) = true)
      by (intros x Hx; cbn [app] in Hx; rewrite Ha in Hx; eapply algo_sent_open; exact Hx).
    assert (Hrest' : map inst_rest (insts s1) = map inst_rest (insts su')) by (rewrite Hni; exact Hrest).
    assert (Hrest0 : map inst_static (insts su') = map inst_static (insts s0))
      by (rewrite Hni; apply update_state_static).
    assert (Hord : forall i c, ord (insts s1) i c =
       marked (marked (ord (insts su')) (cancels_of []) (opens_of [])) (cancels_of (algo_sent a)) (opens_of (algo_sent a)) i c).
    { intros i' c'. unfold algo_sent, cancels_of, opens_of. rewrite cancels_of_app, opens_of_app, Hni. rewrite Hmk.
      - apply marked_ext. intros i'' c''. reflexivity.
      - rewrite (valid_opens_ext _ (insts s0)); [exact Hv|exact Hhs]. }
    pose proof (tail_after s0 s1 su' Hrest' Hrest0) as Hafter.
    pose proof (tail_deliv s0 s1 [] (algo_sent a) Hclr Hst' Hmb' Hopen) as Hd.
    pose proof (tail_orders s0 s1 su' [] (algo_sent a) Hrest' Hrest0 Hord) as Ho.
    pose proof (tail_rest s0 s1 su' Hrest' Hrest0) as Hr.
    cbn [app] in Hd, Ho.
    rewrite Hd, Ho, Hr, Hafter, Htr, Bool.eqb_reflx. cbn [andb].
    f_equal. rewrite <- Htr. apply view_clear. exact Hst'.
  - destruct (nogen_checks None outs Hnr) as (G1 & G2 & G3 & G4 & G5). cbn zeta in G1, G2, G3, G4, G5.
    rewrite G5. cbn [andb act_unrec app] in *. rewrite G1, G2, G3.
    rewrite G5 in G4. rewrite G4.
    assert (Hst' : forall e, lstat_of (links su0) e = lstat_of (links s0) e) by (intros e; rewrite Hlk; reflexivity).
    assert (Hmb' : forall e, mbox (links su0) e = mbox (links s0) e ++ to_ex e ([] ++ []))
      by (intros e; rewrite Hlk; cbn; rewrite app_nil_r; reflexivity).
    assert (Hopen : forall x, In x (@nil xreq ++ []) -> link_open (links s0) (xr_ex x) = true) by (intros x []).
    assert (Hrest' : map inst_rest (insts su0) = map inst_rest (insts su')) by (rewrite Hni; reflexivity).
    assert (Hrest0 : map inst_static (insts su') = map inst_static (insts s0))
      by (rewrite Hni; apply update_state_static).
    assert (Hord : forall i c, ord (insts su0) i c =
       marked (marked (ord (insts su')) (cancels_of []) (opens_of [])) (cancels_of []) (opens_of []) i c)
      by (intros i' c'; rewrite Hni; reflexivity).
    pose proof (tail_after s0 su0 su' Hrest' Hrest0) as Hafter.
    pose proof (tail_deliv s0 su0 [] [] Hclr Hst' Hmb' Hopen) as Hd.
    pose proof (tail_orders s0 su0 su' [] [] Hrest' Hrest0 Hord) as Ho.
    pose proof (tail_rest s0 su0 su' Hrest' Hrest0) as Hr.
    cbn [app] in Hd, Ho.
    rewrite Hd, Ho, Hr, Hafter, Htsu, Bool.eqb_reflx. cbn [andb].
    f_equal. rewrite <- Htsu. apply view_clear. exact Hst'.
Qed.

Lemma sound_ev_tr : forall s0 i sd q g cl,
  (forall e, mbox (links s0) e = []) ->
  (valid_opens (insts s0) (so_sent (ao_opens (snd (generate (fst (update_state s0 (EvTrade i sd q))) g)))) = true) ->
  oracle_step (view_of s0) (mkStep (OpProcess (EvTrade i sd q)) g cl
     (obs_of (fst (process (cs_of cl) s0 (EvTrade i sd q) g)) (MAudit (snd (process (cs_of cl) s0 (EvTrade i sd q) g)))))
  = (true, view_of (clear_state (fst (process (cs_of cl) s0 (EvTrade i sd q) g)))).
Proof.
  intros s0 i sd q g cl Hclr Hv.
  event_script Hclr Hv.
  unfold oracle_step. cbn [st_op st_obs st_g st_close obs_of ob_res ob_trading ob_deliv ob_insts res_of view_of ov_stats ov_insts ov_trading].
  destruct (update_state {| trading := trading s0; links := []; insts := insts s0 |} _) as [su' outs'].
  cbn [fst snd] in Hni, Hnt, Hno. subst outs'.
  rewrite (surjective_pairing (split_mask (gs_cmask g) (gs_cancels g))).
  rewrite (surjective_pairing (split_mask (gs_omask g) (gs_opens g))).
  rewrite !o_sent_spec, !o_errs_spec. rewrite Hnt.
  destruct Hg as (Ha & Htr & Hst & Hmb & Hrest & Hhas & Hmk). rewrite Hlk in Ha.
  fold su0 in Hv.
  destruct (trading su0) eqn:Htsu; cbn [fst snd].
  - set (a := snd (generate su0 g)) in *. set (s1 := fst (generate su0 g)) in *.
    rewrite <- Ha.
    destruct (gen_checks a None outs Hnr eq_refl) as (G1 & G2 & G3 & G4 & G5). cbn zeta in G1, G2, G3, G4, G5.
    rewrite G5. cbn [andb act_unrec app] in *. rewrite G1, G2, G3.
    rewrite G5 in G4. rewrite G4.
    assert (Hst' : forall e, lstat_of (links s1) e = lstat_of (links s0) e) by (intros e; rewrite Hst, Hlk; reflexivity).
    assert (Hmb' : forall e, mbox (links s1) e = mbox (links s0) e ++ to_ex e ([] ++ algo_sent a))
      by (intros e; rewrite Hmb, Hlk; reflexivity).
    assert (Hopen : forall x, In x ([] ++ algo_sent a) -> link_open (links s0) (xr_ex x) = true)
      by (intros x Hx; cbn [app] in Hx; rewrite Ha in Hx; eapply algo_sent_open; exact Hx).
    assert (Hrest' : map inst_rest (insts s1) = map inst_rest (insts su')) by (rewrite Hni; exact Hrest).
    assert (Hrest0 : map inst_static (insts su') = map inst_static (insts s0))
      by (rewrite Hni; apply update_state_static).
    assert (Hord : forall i c, ord (insts s1) i c =
       marked (marked (ord (insts su')) (cancels_of []) (opens_of [])) (cancels_of (algo_sent a)) (opens_of (algo_sent a)) i c).
    { intros i' c'. unfold algo_sent, cancels_of, opens_of. rewrite cancels_of_app, opens_of_app, Hni. rewrite Hmk.
      - apply marked_ext. intros i'' c''. reflexivity.
      - rewrite (valid_opens_ext _ (insts s0)); [exact Hv|exact Hhs]. }
    pose proof (tail_after s0 s1 su' Hrest' Hrest0) as Hafter.
    pose proof (tail_deliv s0 s1 [] (algo_sent a) Hclr Hst' Hmb' Hopen) as Hd.
    pose proof (tail_orders s0 s1 su' [] (algo_sent a) Hrest' Hrest0 Hord) as Ho.
    pose proof (tail_rest s0 s1 su' Hrest' Hrest0) as Hr.
    cbn [app] in Hd, Ho.
    rewrite Hd, Ho, Hr, Hafter, Htr, Bool.eqb_reflx. cbn [andb].
    f_equal. rewrite <- Htr. apply view_clear. exact Hst'.
  - destruct (nogen_checks None outs Hnr) as (G1 & G2 & G3 & G4 & G5). cbn zeta in G1, G2, G3, G4, G5.
    rewrite G5. cbn [andb act_unrec app] in *. rewrite G1, G2, G3.
    rewrite G5 in G4. rewrite G4.
    assert (Hst' : forall e, lstat_of (links su0) e = lstat_of (links s0) e) by (intros e; rewrite Hlk; reflexivity).
    assert (Hmb' : forall e, mbox (links su0) e = mbox (links s0) e ++ to_ex e ([] ++ []))
      by (intros e; rewrite Hlk; cbn; rewrite app_nil_r; reflexivity).
    assert (Hopen : forall x, In x (@nil xreq ++ []) -> link_open (links s0) (xr_ex x) = true) by (intros x []).
    assert (Hrest' : map inst_rest (insts su0) = map inst_rest (insts su')) by (rewrite Hni; reflexivity).
    assert (Hrest0 : map inst_static (insts su') = map inst_static (insts s0))
      by (rewrite Hni; apply update_state_static).
    assert (Hord : forall i c, ord (insts su0) i c =
       marked (marked (ord (insts su')) (cancels_of []) (opens_of [])) (cancels_of []) (opens_of []) i c)
      by (intros i' c'; rewrite Hni; reflexivity).
    pose proof (tail_after s0 su0 su' Hrest' Hrest0) as Hafter.
    pose proof (tail_deliv s0 su0 [] [] Hclr Hst' Hmb' Hopen) as Hd.
    pose proof (tail_orders s0 su0 su' [] [] Hrest' Hrest0 Hord) as Ho.
    pose proof (tail_rest s0 su0 su' Hrest' Hrest0) as Hr.
    cbn [app] in Hd, Ho.
    rewrite Hd, Ho, Hr, Hafter, Htsu, Bool.eqb_reflx. cbn [andb].
    f_equal. rewrite <- Htsu. apply view_clear. exact Hst'.
Qed.

Lemma sound_ev_ar : forall s0  g cl,
  (forall e, mbox (links s0) e = []) ->
  (valid_opens (insts s0) (so_sent (ao_opens (snd (generate (fst (update_state s0 EvAccountReconnecting)) g)))) = true) ->
  oracle_step (view_of s0) (mkStep (OpProcess EvAccountReconnecting) g cl
     (obs_of (fst (process (cs_of cl) s0 EvAccountReconnecting g)) (MAudit (snd (process (cs_of cl) s0 EvAccountReconnecting g)))))
  = (true, view_of (clear_state (fst (process (cs_of cl) s0 EvAccountReconnecting g)))).
Proof.
  intros s0  g cl Hclr Hv.
  event_script Hclr Hv.
  unfold oracle_step. cbn [st_op st_obs st_g st_close obs_of ob_res ob_trading ob_deliv ob_insts res_of view_of ov_stats ov_insts ov_trading].
  destruct (update_state {| trading := trading s0; links := []; insts := insts s0 |} _) as [su' outs'].
  cbn [fst snd] in Hni, Hnt, Hno. subst outs'.
  rewrite (surjective_pairing (split_mask (gs_cmask g) (gs_cancels g))).
  rewrite (surjective_pairing (split_mask (gs_omask g) (gs_opens g))).
  rewrite !o_sent_spec, !o_errs_spec. rewrite Hnt.
  destruct Hg as (Ha & Htr & Hst & Hmb & Hrest & Hhas & Hmk). rewrite Hlk in Ha.
  fold su0 in Hv.
  destruct (trading su0) eqn:Htsu; cbn [fst snd].
  - set (a := snd (generate su0 g)) in *. set (s1 := fst (generate su0 g)) in *.
    rewrite <- Ha.
    destruct (gen_checks a None outs Hnr eq_refl) as (G1 & G2 & G3 & G4 & G5). cbn zeta in G1, G2, G3, G4, G5.
    rewrite G5. cbn [andb act_unrec app] in *. rewrite G1, G2, G3.
    rewrite G5 in G4. rewrite G4.
    assert (Hst' : forall e, lstat_of (links s1) e = lstat_of (links s0) e) by (intros e; rewrite Hst, Hlk; reflexivity).
    assert (Hmb' : forall e, mbox (links s1) e = mbox (links s0) e ++ to_ex e ([] ++ algo_sent a))
      by (intros e; rewrite Hmb, Hlk; reflexivity).
    assert (Hopen : forall x, In x ([] ++ algo_sent a) -> link_open (links s0) (xr_ex x) = true)
      by (intros x Hx; cbn [app] in Hx; rewrite Ha in Hx; eapply algo_sent_open; exact Hx).
    assert (Hrest' : map inst_rest (insts s1) = map inst_rest (insts su')) by (rewrite Hni; exact Hrest).
    assert (Hrest0 : map inst_static (insts su') = map inst_static (insts s0))
      by (rewrite Hni; apply update_state_static).
    assert (Hord : forall i c, ord (insts s1) i c =
       marked (marked (ord (insts su')) (cancels_of []) (opens_of [])) (cancels_of (algo_sent a)) (opens_of (algo_sent a)) i c).
    { intros i' c'. unfold algo_sent, cancels_of, opens_of. rewrite cancels_of_app, opens_of_app, Hni. rewrite Hmk.
      - apply marked_ext. intros i'' c''. reflexivity.
      - rewrite (valid_opens_ext _ (insts s0)); [exact Hv|exact Hhs]. }
    pose proof (tail_after s0 s1 su' Hrest' Hrest0) as Hafter.
    pose proof (tail_deliv s0 s1 [] (algo_sent a) Hclr Hst' Hmb' Hopen) as Hd.
    pose proof (tail_orders s0 s1 su' [] (algo_sent a) Hrest' Hrest0 Hord) as Ho.
    pose proof (tail_rest s0 s1 su' Hrest' Hrest0) as Hr.
    cbn [app] in Hd, Ho.
    rewrite Hd, Ho, Hr, Hafter, Htr, Bool.eqb_reflx. cbn [andb].
    f_equal. rewrite <- Htr. apply view_clear. exact Hst'.
  - destruct (nogen_checks None outs Hnr) as (G1 & G2 & G3 & G4 & G5). cbn zeta in G1, G2, G3, G4, G5.
    rewrite G5. cbn [andb act_unrec app] in *. rewrite G1, G2, G3.
    rewrite G5 in G4. rewrite G4.
    assert (Hst' : forall e, lstat_of (links su0) e = lstat_of (links s0) e) by (intros e; rewrite Hlk; reflexivity).
    assert (Hmb' : forall e, mbox (links su0) e = mbox (links s0) e ++ to_ex e ([] ++ []))
      by (intros e; rewrite Hlk; cbn; rewrite app_nil_r; reflexivity).
    assert (Hopen : forall x, In x (@nil xreq ++ []) -> link_open (links s0) (xr_ex x) = true) by (intros x []).
    assert (Hrest' : map inst_rest (insts su0) = map inst_rest (insts su')) by (rewrite Hni; reflexivity).
    assert (Hrest0 : map inst_static (insts su') = map inst_static (insts s0))
      by (rewrite Hni; apply update_state_static).
    assert (Hord : forall i c, ord (insts su0) i c =
       marked (marked (ord (insts su')) (cancels_of []) (opens_of [])) (cancels_of []) (opens_of []) i c)
      by (intros i' c'; rewrite Hni; reflexivity).
    pose proof (tail_after s0 su0 su' Hrest' Hrest0) as Hafter.
    pose proof (tail_deliv s0 su0 [] [] Hclr Hst' Hmb' Hopen) as Hd.
    pose proof (tail_orders s0 su0 su' [] [] Hrest' Hrest0 Hord) as Ho.
    pose proof (tail_rest s0 su0 su' Hrest' Hrest0) as Hr.
    cbn [app] in Hd, Ho.
    rewrite Hd, Ho, Hr, Hafter, Htsu, Bool.eqb_reflx. cbn [andb].
    f_equal. rewrite <- Htsu. apply view_clear. exact Hst'.
Qed.

Lemma sound_ev_mt : forall s0 i t p g cl,
  (forall e, mbox (links s0) e = []) ->
  (valid_opens (insts s0) (so_sent (ao_opens (snd (generate (fst (update_state s0 (EvMarketTrade i t p))) g)))) = true) ->
  oracle_step (view_of s0) (mkStep (OpProcess (EvMarketTrade i t p)) g cl
     (obs_of (fst (process (cs_of cl) s0 (EvMarketTrade i t p) g)) (MAudit (snd (process (cs_of cl) s0 (EvMarketTrade i t p) g)))))
  = (true, view_of (clear_state (fst (process (cs_of cl) s0 (EvMarketTrade i t p) g)))).
Proof.
  intros s0 i t p g cl Hclr Hv.
  event_script Hclr Hv.
  unfold oracle_step. cbn [st_op st_obs st_g st_close obs_of ob_res ob_trading ob_deliv ob_insts res_of view_of ov_stats ov_insts ov_trading].
  destruct (update_state {| trading := trading s0; links := []; insts := insts s0 |} _) as [su' outs'].
  cbn [fst snd] in Hni, Hnt, Hno. subst outs'.
  rewrite (surjective_pairing (split_mask (gs_cmask g) (gs_cancels g))).
  rewrite (surjective_pairing (split_mask (gs_omask g) (gs_opens g))).
  rewrite !o_sent_spec, !o_errs_spec. rewrite Hnt.
  destruct Hg as (Ha & Htr & Hst & Hmb & Hrest & Hhas & Hmk). rewrite Hlk in Ha.
  fold su0 in Hv.
  destruct (trading su0) eqn:Htsu; cbn [fst snd].
  - set (a := snd (generate su0 g)) in *. set (s1 := fst (generate su0 g)) in *.
    rewrite <- Ha.
    destruct (gen_checks a None outs Hnr eq_refl) as (G1 & G2 & G3 & G4 & G5). cbn zeta in G1, G2, G3, G4, G5.
    rewrite G5. cbn [andb act_unrec app] in *. rewrite G1, G2, G3.
    rewrite G5 in G4. rewrite G4.
    assert (Hst' : forall e, lstat_of (links s1) e = lstat_of (links s0) e) by (intros e; rewrite Hst, Hlk; reflexivity).
    assert (Hmb' : forall e, mbox (links s1) e = mbox (links s0) e ++ to_ex e ([] ++ algo_sent a))
      by (intros e; rewrite Hmb, Hlk; reflexivity).
    assert (Hopen : forall x, In x ([] ++ algo_sent a) -> link_open (links s0) (xr_ex x) = true)
      by (intros x Hx; cbn [app] in Hx; rewrite Ha in Hx; eapply algo_sent_open; exact Hx).
    assert (Hrest' : map inst_rest (insts s1) = map inst_rest (insts su')) by (rewrite Hni; exact Hrest).
    assert (Hrest0 : map inst_static (insts su') = map inst_static (insts s0))
      by (rewrite Hni; apply update_state_static).
    assert (Hord : forall i c, ord (insts s1) i c =
       marked (marked (ord (insts su')) (cancels_of []) (opens_of [])) (cancels_of (algo_sent a)) (opens_of (algo_sent a)) i c).
    { intros i' c'. unfold algo_sent, cancels_of, opens_of. rewrite cancels_of_app, opens_of_app, Hni. rewrite Hmk.
      - apply marked_ext. intros i'' c''. reflexivity.
      - rewrite (valid_opens_ext _ (insts s0)); [exact Hv|exact Hhs]. }
    pose proof (tail_after s0 s1 su' Hrest' Hrest0) as Hafter.
    pose proof (tail_deliv s0 s1 [] (algo_sent a) Hclr Hst' Hmb' Hopen) as Hd.
    pose proof (tail_orders s0 s1 su' [] (algo_sent a) Hrest' Hrest0 Hord) as Ho.
    pose proof (tail_rest s0 s1 su' Hrest' Hrest0) as Hr.
    cbn [app] in Hd, Ho.
    rewrite Hd, Ho, Hr, Hafter, Htr, Bool.eqb_reflx. cbn [andb].
    f_equal. rewrite <- Htr. apply view_clear. exact Hst'.
  - destruct (nogen_checks None outs Hnr) as (G1 & G2 & G3 & G4 & G5). cbn zeta in G1, G2, G3, G4, G5.
    rewrite G5. cbn [andb act_unrec app] in *. rewrite G1, G2, G3.
    rewrite G5 in G4. rewrite G4.
    assert (Hst' : forall e, lstat_of (links su0) e = lstat_of (links s0) e) by (intros e; rewrite Hlk; reflexivity).
    assert (Hmb' : forall e, mbox (links su0) e = mbox (links s0) e ++ to_ex e ([] ++ []))
      by (intros e; rewrite Hlk; cbn; rewrite app_nil_r; reflexivity).
    assert (Hopen : forall x, In x (@nil xreq ++ []) -> link_open (links s0) (xr_ex x) = true) by (intros x []).
    assert (Hrest' : map inst_rest (insts su0) = map inst_rest (insts su')) by (rewrite Hni; reflexivity).
    assert (Hrest0 : map inst_static (insts su') = map inst_static (insts s0))
      by (rewrite Hni; apply update_state_static).
    assert (Hord : forall i c, ord (insts su0) i c =
       marked (marked (ord (insts su')) (cancels_of []) (opens_of [])) (cancels_of []) (opens_of []) i c)
      by (intros i' c'; rewrite Hni; reflexivity).
    pose proof (tail_after s0 su0 su' Hrest' Hrest0) as Hafter.
    pose proof (tail_deliv s0 su0 [] [] Hclr Hst' Hmb' Hopen) as Hd.
    pose proof (tail_orders s0 su0 su' [] [] Hrest' Hrest0 Hord) as Ho.
    pose proof (tail_rest s0 su0 su' Hrest' Hrest0) as Hr.
    cbn [app] in Hd, Ho.
    rewrite Hd, Ho, Hr, Hafter, Htsu, Bool.eqb_reflx. cbn [andb].
    f_equal. rewrite <- Htsu. apply view_clear. exact Hst'.
Qed.

Lemma sound_ev_as : forall s0 l g cl,
  (forall e, mbox (links s0) e = []) ->
  (valid_opens (insts s0) (so_sent (ao_opens (snd (generate (fst (update_state s0 (EvAccountSnapshot l))) g)))) = true) ->
  oracle_step (view_of s0) (mkStep (OpProcess (EvAccountSnapshot l)) g cl
     (obs_of (fst (process (cs_of cl) s0 (EvAccountSnapshot l) g)) (MAudit (snd (process (cs_of cl) s0 (EvAccountSnapshot l) g)))))
  = (true, view_of (clear_state (fst (process (cs_of cl) s0 (EvAccountSnapshot l) g)))).
Proof.
  intros s0 l g cl Hclr Hv.
  event_script Hclr Hv.
  unfold oracle_step. cbn [st_op st_obs st_g st_close obs_of ob_res ob_trading ob_deliv ob_insts res_of view_of ov_stats ov_insts ov_trading].
  destruct (update_state {| trading := trading s0; links := []; insts := insts s0 |} _) as [su' outs'].
  cbn [fst snd] in Hni, Hnt, Hno. subst outs'.
  rewrite (surjective_pairing (split_mask (gs_cmask g) (gs_cancels g))).
  rewrite (surjective_pairing (split_mask (gs_omask g) (gs_opens g))).
  rewrite !o_sent_spec, !o_errs_spec. rewrite Hnt.
  destruct Hg as (Ha & Htr & Hst & Hmb & Hrest & Hhas & Hmk). rewrite Hlk in Ha.
  fold su0 in Hv.
  destruct (trading su0) eqn:Htsu; cbn [fst snd].
  - set (a := snd (generate su0 g)) in *. set (s1 := fst (generate su0 g)) in *.
    rewrite <- Ha.
    destruct (gen_checks a None outs Hnr eq_refl) as (G1 & G2 & G3 & G4 & G5). cbn zeta in G1, G2, G3, G4, G5.
    rewrite G5. cbn [andb act_unrec app] in *. rewrite G1, G2, G3.
    rewrite G5 in G4. rewrite G4.
    assert (Hst' : forall e, lstat_of (links s1) e = lstat_of (links s0) e) by (intros e; rewrite Hst, Hlk; reflexivity).
    assert (Hmb' : forall e, mbox (links s1) e = mbox (links s0) e ++ to_ex e ([] ++ algo_sent a))
      by (intros e; rewrite Hmb, Hlk; reflexivity).
    assert (Hopen : forall x, In x ([] ++ algo_sent a) -> link_open (links s0) (xr_ex x) = true)
      by (intros x Hx; cbn [app] in Hx; rewrite Ha in Hx; eapply algo_sent_open; exact Hx).
    assert (Hrest' : map inst_rest (insts s1) = map inst_rest (insts su')) by (rewrite Hni; exact Hrest).
    assert (Hrest0 : map inst_static (insts su') = map inst_static (insts s0))
      by (rewrite Hni; apply update_state_static).
    assert (Hord : forall i c, ord (insts s1) i c =
       marked (marked (ord (insts su')) (cancels_of []) (opens_of [])) (cancels_of (algo_sent a)) (opens_of (algo_sent a)) i c).
    { intros i' c'. unfold algo_sent, cancels_of, opens_of. rewrite cancels_of_app, opens_of_app, Hni. rewrite Hmk.
      - apply marked_ext. intros i'' c''. reflexivity.
      - rewrite (valid_opens_ext _ (insts s0)); [exact Hv|exact Hhs]. }
    pose proof (tail_after s0 s1 su' Hrest' Hrest0) as Hafter.
    pose proof (tail_deliv s0 s1 [] (algo_sent a) Hclr Hst' Hmb' Hopen) as Hd.
    pose proof (tail_orders s0 s1 su' [] (algo_sent a) Hrest' Hrest0 Hord) as Ho.
    pose proof (tail_rest s0 s1 su' Hrest' Hrest0) as Hr.
    cbn [app] in Hd, Ho.
    rewrite Hd, Ho, Hr, Hafter, Htr, Bool.eqb_reflx. cbn [andb].
    f_equal. rewrite <- Htr. apply view_clear. exact Hst'.
  - destruct (nogen_checks None outs Hnr) as (G1 & G2 & G3 & G4 & G5). cbn zeta in G1, G2, G3, G4, G5.
    rewrite G5. cbn [andb act_unrec app] in *. rewrite G1, G2, G3.
    rewrite G5 in G4. rewrite G4.
    assert (Hst' : forall e, lstat_of (links su0) e = lstat_of (links s0) e) by (intros e; rewrite Hlk; reflexivity).
    assert (Hmb' : forall e, mbox (links su0) e = mbox (links s0) e ++ to_ex e ([] ++ []))
      by (intros e; rewrite Hlk; cbn; rewrite app_nil_r; reflexivity).
    assert (Hopen : forall x, In x (@nil xreq ++ []) -> link_open (links s0) (xr_ex x) = true) by (intros x []).
    assert (Hrest' : map inst_rest (insts su0) = map inst_rest (insts su')) by (rewrite Hni; reflexivity).
    assert (Hrest0 : map inst_static (insts su') = map inst_static (insts s0))
      by (rewrite Hni; apply update_state_static).
    assert (Hord : forall i c, ord (insts su0) i c =
       marked (marked (ord (insts su')) (cancels_of []) (opens_of [])) (cancels_of []) (opens_of []) i c)
      by (intros i' c'; rewrite Hni; reflexivity).
    pose proof (tail_after s0 su0 su' Hrest' Hrest0) as Hafter.
    pose proof (tail_deliv s0 su0 [] [] Hclr Hst' Hmb' Hopen) as Hd.
    pose proof (tail_orders s0 su0 su' [] [] Hrest' Hrest0 Hord) as Ho.
    pose proof (tail_rest s0 su0 su' Hrest' Hrest0) as Hr.
    cbn [app] in Hd, Ho.
    rewrite Hd, Ho, Hr, Hafter, Htsu, Bool.eqb_reflx. cbn [andb].
    f_equal. rewrite <- Htsu. apply view_clear. exact Hst'.
Qed.

Lemma sound_ev_ml : forall s0 i t b g cl,
  (forall e, mbox (links s0) e = []) ->
  (valid_opens (insts s0) (so_sent (ao_opens (snd (generate (fst (update_state s0 (EvMarketL1 i t b))) g)))) = true) ->
  oracle_step (view_of s0) (mkStep (OpProcess (EvMarketL1 i t b)) g cl
     (obs_of (fst (process (cs_of cl) s0 (EvMarketL1 i t b) g)) (MAudit (snd (process (cs_of cl) s0 (EvMarketL1 i t b) g)))))
  = (true, view_of (clear_state (fst (process (cs_of cl) s0 (EvMarketL1 i t b) g)))).
Proof.
  intros s0 i t b g cl Hclr Hv.
  event_script Hclr Hv.
  unfold oracle_step. cbn [st_op st_obs st_g st_close obs_of ob_res ob_trading ob_deliv ob_insts res_of view_of ov_stats ov_insts ov_trading].
  destruct (update_state {| trading := trading s0; links := []; insts := insts s0 |} _) as [su' outs'].
  cbn [fst snd] in Hni, Hnt, Hno. subst outs'.
  rewrite (surjective_pairing (split_mask (gs_cmask g) (gs_cancels g))).
  rewrite (surjective_pairing (split_mask (gs_omask g) (gs_opens g))).
  rewrite !o_sent_spec, !o_errs_spec. rewrite Hnt.
  destruct Hg as (Ha & Htr & Hst & Hmb & Hrest & Hhas & Hmk). rewrite Hlk in Ha.
  fold su0 in Hv.
  destruct (trading su0) eqn:Htsu; cbn [fst snd].
  - set (a := snd (generate su0 g)) in *. set (s1 := fst (generate su0 g)) in *.
    rewrite <- Ha.
    destruct (gen_checks a None outs Hnr eq_refl) as (G1 & G2 & G3 & G4 & G5). cbn zeta in G1, G2, G3, G4, G5.
    rewrite G5. cbn [andb act_unrec app] in *. rewrite G1, G2, G3.
    rewrite G5 in G4. rewrite G4.
    assert (Hst' : forall e, lstat_of (links s1) e = lstat_of (links s0) e) by (intros e; rewrite Hst, Hlk; reflexivity).
    assert (Hmb' : forall e, mbox (links s1) e = mbox (links s0) e ++ to_ex e ([] ++ algo_sent a))
      by (intros e; rewrite Hmb, Hlk; reflexivity).
    assert (Hopen : forall x, In x ([] ++ algo_sent a) -> link_open (links s0) (xr_ex x) = true)
      by (intros x Hx; cbn [app] in Hx; rewrite Ha in Hx; eapply algo_sent_open; exact Hx).
    assert (Hrest' : map inst_rest (insts s1) = map inst_rest (insts su')) by (rewrite Hni; exact Hrest).
    assert (Hrest0 : map inst_static (insts su') = map inst_static (insts s0))
      by (rewrite Hni; apply update_state_static).
    assert (Hord : forall i c, ord (insts s1) i c =
       marked (marked (ord (insts su')) (cancels_of []) (opens_of [])) (cancels_of (algo_sent a)) (opens_of (algo_sent a)) i c).
    { intros i' c'. unfold algo_sent, cancels_of, opens_of. rewrite cancels_of_app, opens_of_app, Hni. rewrite Hmk.
      - apply marked_ext. intros i'' c''. reflexivity.
      - rewrite (valid_opens_ext _ (insts s0)); [exact Hv|exact Hhs]. }
    pose proof (tail_after s0 s1 su' Hrest' Hrest0) as Hafter.
    pose proof (tail_deliv s0 s1 [] (algo_sent a) Hclr Hst' Hmb' Hopen) as Hd.
    pose proof (tail_orders s0 s1 su' [] (algo_sent a) Hrest' Hrest0 Hord) as Ho.
    pose proof (tail_rest s0 s1 su' Hrest' Hrest0) as Hr.
    cbn [app] in Hd, Ho.
    rewrite Hd, Ho, Hr, Hafter, Htr, Bool.eqb_reflx. cbn [andb].
    f_equal. rewrite <- Htr. apply view_clear. exact Hst'.
  - destruct (nogen_checks None outs Hnr) as (G1 & G2 & G3 & G4 & G5). cbn zeta in G1, G2, G3, G4, G5.
    rewrite G5. cbn [andb act_unrec app] in *. rewrite G1, G2, G3.
    rewrite G5 in G4. rewrite G4.
    assert (Hst' : forall e, lstat_of (links su0) e = lstat_of (links s0) e) by (intros e; rewrite Hlk; reflexivity).
    assert (Hmb' : forall e, mbox (links su0) e = mbox (links s0) e ++ to_ex e ([] ++ []))
      by (intros e; rewrite Hlk; cbn; rewrite app_nil_r; reflexivity).
    assert (Hopen : forall x, In x (@nil xreq ++ []) -> link_open (links s0) (xr_ex x) = true) by (intros x []).
    assert (Hrest' : map inst_rest (insts su0) = map inst_rest (insts su')) by (rewrite Hni; reflexivity).
    assert (Hrest0 : map inst_static (insts su') = map inst_static (insts s0))
      by (rewrite Hni; apply update_state_static).
    assert (Hord : forall i c, ord (insts su0) i c =
       marked (marked (ord (insts su')) (cancels_of []) (opens_of [])) (cancels_of []) (opens_of []) i c)
      by (intros i' c'; rewrite Hni; reflexivity).
    pose proof (tail_after s0 su0 su' Hrest' Hrest0) as Hafter.
    pose proof (tail_deliv s0 su0 [] [] Hclr Hst' Hmb' Hopen) as Hd.
    pose proof (tail_orders s0 su0 su' [] [] Hrest' Hrest0 Hord) as Ho.
    pose proof (tail_rest s0 su0 su' Hrest' Hrest0) as Hr.
    cbn [app] in Hd, Ho.
    rewrite Hd, Ho, Hr, Hafter, Htsu, Bool.eqb_reflx. cbn [andb].
    f_equal. rewrite <- Htsu. apply view_clear. exact Hst'.
Qed.

Lemma sound_ev_ot : forall s0  g cl,
  (forall e, mbox (links s0) e = []) ->
  (valid_opens (insts s0) (so_sent (ao_opens (snd (generate (fst (update_state s0 EvOther)) g)))) = true) ->
  oracle_step (view_of s0) (mkStep (OpProcess EvOther) g cl
     (obs_of (fst (process (cs_of cl) s0 EvOther g)) (MAudit (snd (process (cs_of cl) s0 EvOther g)))))
  = (true, view_of (clear_state (fst (process (cs_of cl) s0 EvOther g)))).
Proof.
  intros s0  g cl Hclr Hv.
  event_script Hclr Hv.
  unfold oracle_step. cbn [st_op st_obs st_g st_close obs_of ob_res ob_trading ob_deliv ob_insts res_of view_of ov_stats ov_insts ov_trading].
  destruct (update_state {| trading := trading s0; links := []; insts := insts s0 |} _) as [su' outs'].
  cbn [fst snd] in Hni, Hnt, Hno. subst outs'.
  rewrite (surjective_pairing (split_mask (gs_cmask g) (gs_cancels g))).
  rewrite (surjective_pairing (split_mask (gs_omask g) (gs_opens g))).
  rewrite !o_sent_spec, !o_errs_spec. rewrite Hnt.
  destruct Hg as (Ha & Htr & Hst & Hmb & Hrest & Hhas & Hmk). rewrite Hlk in Ha.
  fold su0 in Hv.
  destruct (trading su0) eqn:Htsu; cbn [fst snd].
  - set (a := snd (generate su0 g)) in *. set (s1 := fst (generate su0 g)) in *.
    rewrite <- Ha.
    destruct (gen_checks a None outs Hnr eq_refl) as (G1 & G2 & G3 & G4 & G5). cbn zeta in G1, G2, G3, G4, G5.
    rewrite G5. cbn [andb act_unrec app] in *. rewrite G1, G2, G3.
    rewrite G5 in G4. rewrite G4.
    assert (Hst' : forall e, lstat_of (links s1) e = lstat_of (links s0) e) by (intros e; rewrite Hst, Hlk; reflexivity).
    assert (Hmb' : forall e, mbox (links s1) e = mbox (links s0) e ++ to_ex e ([] ++ algo_sent a))
      by (intros e; rewrite Hmb, Hlk; reflexivity).
    assert (Hopen : forall x, In x ([] ++ algo_sent a) -> link_open (links s0) (xr_ex x) = true)
      by (intros x Hx; cbn [app] in Hx; rewrite Ha in Hx; eapply algo_sent_open; exact Hx).
    assert (Hrest' : map inst_rest (insts s1) = map inst_rest (insts su')) by (rewrite Hni; exact Hrest).
    assert (Hrest0 : map inst_static (insts su') = map inst_static (insts s0))
      by (rewrite Hni; apply update_state_static).
    assert (Hord : forall i c, ord (insts s1) i c =
       marked (marked (ord (insts su')) (cancels_of []) (opens_of [])) (cancels_of (algo_sent a)) (opens_of (algo_sent a)) i c).
    { intros i' c'. unfold algo_sent, cancels_of, opens_of. rewrite cancels_of_app, opens_of_app, Hni. rewrite Hmk.
      - apply marked_ext. intros i'' c''. reflexivity.
      - rewrite (valid_opens_ext _ (insts s0)); [exact Hv|exact Hhs]. }
    pose proof (tail_after s0 s1 su' Hrest' Hrest0) as Hafter.
    pose proof (tail_deliv s0 s1 [] (algo_sent a) Hclr Hst' Hmb' Hopen) as Hd.
    pose proof (tail_orders s0 s1 su' [] (algo_sent a) Hrest' Hrest0 Hord) as Ho.
    pose proof (tail_rest s0 s1 su' Hrest' Hrest0) as Hr.
    cbn [app] in Hd, Ho.
    rewrite Hd, Ho, Hr, Hafter, Htr, Bool.eqb_reflx. cbn [andb].
    f_equal. rewrite <- Htr. apply view_clear. exact Hst'.
  - destruct (nogen_checks None outs Hnr) as (G1 & G2 & G3 & G4 & G5). cbn zeta in G1, G2, G3, G4, G5.
    rewrite G5. cbn [andb act_unrec app] in *. rewrite G1, G2, G3.
    rewrite G5 in G4. rewrite G4.
    assert (Hst' : forall e, lstat_of (links su0) e = lstat_of (links s0) e) by (intros e; rewrite Hlk; reflexivity).
    assert (Hmb' : forall e, mbox (links su0) e = mbox (links s0) e ++ to_ex e ([] ++ []))
      by (intros e; rewrite Hlk; cbn; rewrite app_nil_r; reflexivity).
    assert (Hopen : forall x, In x (@nil xreq ++ []) -> link_open (links s0) (xr_ex x) = true) by (intros x []).
    assert (Hrest' : map inst_rest (insts su0) = map inst_rest (insts su')) by (rewrite Hni; reflexivity).
    assert (Hrest0 : map inst_static (insts su') = map inst_static (insts s0))
      by (rewrite Hni; apply update_state_static).
    assert (Hord : forall i c, ord (insts su0) i c =
       marked (marked (ord (insts su')) (cancels_of []) (opens_of [])) (cancels_of []) (opens_of []) i c)
      by (intros i' c'; rewrite Hni; reflexivity).
    pose proof (tail_after s0 su0 su' Hrest' Hrest0) as Hafter.
    pose proof (tail_deliv s0 su0 [] [] Hclr Hst' Hmb' Hopen) as Hd.
    pose proof (tail_orders s0 su0 su' [] [] Hrest' Hrest0 Hord) as Ho.
    pose proof (tail_rest s0 su0 su' Hrest' Hrest0) as Hr.
    cbn [app] in Hd, Ho.
    rewrite Hd, Ho, Hr, Hafter, Htsu, Bool.eqb_reflx. cbn [andb].
    f_equal. rewrite <- Htsu. apply view_clear. exact Hst'.
Qed.

Lemma sound_ev_mr : forall s0  g cl,
  (forall e, mbox (links s0) e = []) ->
  (valid_opens (insts s0) (so_sent (ao_opens (snd (generate (fst (update_state s0 EvMarketReconnecting)) g)))) = true) ->
  oracle_step (view_of s0) (mkStep (OpProcess EvMarketReconnecting) g cl
     (obs_of (fst (process (cs_of cl) s0 EvMarketReconnecting g)) (MAudit (snd (process (cs_of cl) s0 EvMarketReconnecting g)))))
  = (true, view_of (clear_state (fst (process (cs_of cl) s0 EvMarketReconnecting g)))).
Proof.
  intros s0  g cl Hclr Hv.
  event_script Hclr Hv.
  unfold oracle_step. cbn [st_op st_obs st_g st_close obs_of ob_res ob_trading ob_deliv ob_insts res_of view_of ov_stats ov_insts ov_trading].
  destruct (update_state {| trading := trading s0; links := []; insts := insts s0 |} _) as [su' outs'].
  cbn [fst snd] in Hni, Hnt, Hno. subst outs'.
  rewrite (surjective_pairing (split_mask (gs_cmask g) (gs_cancels g))).
  rewrite (surjective_pairing (split_mask (gs_omask g) (gs_opens g))).
  rewrite !o_sent_spec, !o_errs_spec. rewrite Hnt.
  destruct Hg as (Ha & Htr & Hst & Hmb & Hrest & Hhas & Hmk). rewrite Hlk in Ha.
  fold su0 in Hv.
  destruct (trading su0) eqn:Htsu; cbn [fst snd].
  - set (a := snd (generate su0 g)) in *. set (s1 := fst (generate su0 g)) in *.
    rewrite <- Ha.
    destruct (gen_checks a None outs Hnr eq_refl) as (G1 & G2 & G3 & G4 & G5). cbn zeta in G1, G2, G3, G4, G5.
    rewrite G5. cbn [andb act_unrec app] in *. rewrite G1, G2, G3.
    rewrite G5 in G4. rewrite G4.
    assert (Hst' : forall e, lstat_of (links s1) e = lstat_of (links s0) e) by (intros e; rewrite Hst, Hlk; reflexivity).
    assert (Hmb' : forall e, mbox (links s1) e = mbox (links s0) e ++ to_ex e ([] ++ algo_sent a))
      by (intros e; rewrite Hmb, Hlk; reflexivity).
    assert (Hopen : forall x, In x ([] ++ algo_sent a) -> link_open (links s0) (xr_ex x) = true)
      by (intros x Hx; cbn [app] in Hx; rewrite Ha in Hx; eapply algo_sent_open; exact Hx).
    assert (Hrest' : map inst_rest (insts s1) = map inst_rest (insts su')) by (rewrite Hni; exact Hrest).
    assert (Hrest0 : map inst_static (insts su') = map inst_static (insts s0))
      by (rewrite Hni; apply update_state_static).
    assert (Hord : forall i c, ord (insts s1) i c =
       marked (marked (ord (insts su')) (cancels_of []) (opens_of [])) (cancels_of (algo_sent a)) (opens_of (algo_sent a)) i c).
    { intros i' c'. unfold algo_sent, cancels_of, opens_of. rewrite cancels_of_app, opens_of_app, Hni. rewrite Hmk.
      - apply marked_ext. intros i'' c''. reflexivity.
      - rewrite (valid_opens_ext _ (insts s0)); [exact Hv|exact Hhs]. }
    pose proof (tail_after s0 s1 su' Hrest' Hrest0) as Hafter.
    pose proof (tail_deliv s0 s1 [] (algo_sent a) Hclr Hst' Hmb' Hopen) as Hd.
    pose proof (tail_orders s0 s1 su' [] (algo_sent a) Hrest' Hrest0 Hord) as Ho.
    pose proof (tail_rest s0 s1 su' Hrest' Hrest0) as Hr.
    cbn [app] in Hd, Ho.
    rewrite Hd, Ho, Hr, Hafter, Htr, Bool.eqb_reflx. cbn [andb].
    f_equal. rewrite <- Htr. apply view_clear. exact Hst'.
  - destruct (nogen_checks None outs Hnr) as (G1 & G2 & G3 & G4 & G5). cbn zeta in G1, G2, G3, G4, G5.
    rewrite G5. cbn [andb act_unrec app] in *. rewrite G1, G2, G3.
    rewrite G5 in G4. rewrite G4.
    assert (Hst' : forall e, lstat_of (links su0) e = lstat_of (links s0) e) by (intros e; rewrite Hlk; reflexivity).
    assert (Hmb' : forall e, mbox (links su0) e = mbox (links s0) e ++ to_ex e ([] ++ []))
      by (intros e; rewrite Hlk; cbn; rewrite app_nil_r; reflexivity).
    assert (Hopen : forall x, In x (@nil xreq ++ []) -> link_open (links s0) (xr_ex x) = true) by (intros x []).
    assert (Hrest' : map inst_rest (insts su0) = map inst_rest (insts su')) by (rewrite Hni; reflexivity).
    assert (Hrest0 : map inst_static (insts su') = map inst_static (insts s0))
      by (rewrite Hni; apply update_state_static).
    assert (Hord : forall i c, ord (insts su0) i c =
       marked (marked (ord (insts su')) (cancels_of []) (opens_of [])) (cancels_of []) (opens_of []) i c)
      by (intros i' c'; rewrite Hni; reflexivity).
    pose proof (tail_after s0 su0 su' Hrest' Hrest0) as Hafter.
    pose proof (tail_deliv s0 su0 [] [] Hclr Hst' Hmb' Hopen) as Hd.
    pose proof (tail_orders s0 su0 su' [] [] Hrest' Hrest0 Hord) as Ho.
    pose proof (tail_rest s0 su0 su' Hrest' Hrest0) as Hr.
    cbn [app] in Hd, Ho.
    rewrite Hd, Ho, Hr, Hafter, Htsu, Bool.eqb_reflx. cbn [andb].
    f_equal. rewrite <- Htsu. apply view_clear. exact Hst'.
Qed.

Lemma sound_process_event : forall s0 ev g cl,
  plain_event ev = true ->
  (forall e, mbox (links s0) e = []) ->
  (valid_opens (insts s0) (so_sent (ao_opens (snd (generate (fst (update_state s0 ev)) g)))) = true) ->
  oracle_step (view_of s0) (mkStep (OpProcess ev) g cl
     (obs_of (fst (process (cs_of cl) s0 ev g)) (MAudit (snd (process (cs_of cl) s0 ev g)))))
  = (true, view_of (clear_state (fst (process (cs_of cl) s0 ev g)))).
Proof.
  intros s0 ev g cl Hp Hclr Hv. destruct ev; try discriminate Hp.
  - apply sound_ev_ts; assumption.
  - apply sound_ev_os; assumption.
  - apply sound_ev_as; assumption.
  - apply sound_ev_cr; assumption.
  - apply sound_ev_tr; assumption.
  - apply sound_ev_ar; assumption.
  - apply sound_ev_mt; assumption.
  - apply sound_ev_ml; assumption.
  - apply sound_ev_ot; assumption.
  - apply sound_ev_mr; assumption.
Qed.

Definition not_cancel_orders (c : command) : bool := match c with CCancelOrders _ => false | _ => true end.

Lemma spec_is_spec : forall R (eqb : R -> R -> bool) (ex : R -> N) ls rs,
  (forall a, eqb a a = true) ->
  batch_is_spec eqb ex (map stat_of_link ls) rs (mkSendOut (spec_sent ex ls rs) (spec_errs ex ls rs)) = true.
Proof.
  intros. unfold batch_is_spec. cbn [so_sent so_errs]. rewrite o_sent_spec, o_errs_spec.
  rewrite (list_eqb_refl _ _ H), (list_eqb_refl _ _ (pair_eqb_refl _ _ _ _ H errk_eqb_refl)). reflexivity.
Qed.

Lemma spec_consistent : forall R (ex : R -> N) ls rs,
  batch_consistent ex (map stat_of_link ls) (mkSendOut (spec_sent ex ls rs) (spec_errs ex ls rs)) = true.
Proof.
  intros. unfold batch_consistent. cbn [so_sent so_errs]. apply andb_true_iff. split.
  - apply forallb_forall. intros r Hr. rewrite open_at_links. apply spec_sent_in in Hr. apply Hr.
  - apply forallb_forall. intros [r k] Hr. unfold spec_errs in Hr. apply in_map_iff in Hr.
    destruct Hr as [r' [E Hr']]. inversion E; subst. apply filter_In in Hr'. destruct Hr' as [_ Hn]. cbn [fst snd].
    rewrite open_at_links, Hn, stat_at_links, errk_eqb_refl. reflexivity.
Qed.

Lemma cancels_of_action : forall a, cancels_of (action_sent a) = so_sent (action_cancels a).
Proof.
  intros [o|o|c o]; unfold cancels_of; cbn [action_sent action_cancels so_sent].
  - rewrite <- (app_nil_r (map XCancel (so_sent o))). apply (cancels_of_app (so_sent o) []).
  - apply (cancels_of_app [] (so_sent o)).
  - apply cancels_of_app.
Qed.
Lemma opens_of_action : forall a, opens_of (action_sent a) = so_sent (action_opens a).
Proof.
  intros [o|o|c o]; unfold opens_of; cbn [action_sent action_opens so_sent].
  - rewrite <- (app_nil_r (map XCancel (so_sent o))). apply (opens_of_app (so_sent o) []).
  - apply (opens_of_app [] (so_sent o)).
  - apply opens_of_app.
Qed.

Lemma action_facts : forall s0 c cl,
  not_cancel_orders c = true ->
  valid_opens (insts s0) (so_sent (action_opens (snd (action (cs_of cl) s0 c)))) = true ->
  let sa := fst (action (cs_of cl) s0 c) in
  let a := snd (action (cs_of cl) s0 c) in
  action_ok (map stat_of_link (links s0)) c cl a = true /\
  trading sa = trading s0 /\
  (forall e, lstat_of (links sa) e = lstat_of (links s0) e) /\
  (forall e, mbox (links sa) e = mbox (links s0) e ++ to_ex e (action_sent a)) /\
  (forall x, In x (action_sent a) -> link_open (links s0) (xr_ex x) = true) /\
  map inst_rest (insts sa) = map inst_rest (insts s0) /\
  (forall i, has_inst (insts sa) i = has_inst (insts s0) i) /\
  (forall i c', ord (insts sa) i c' =
                marked (ord (insts s0)) (cancels_of (action_sent a)) (opens_of (action_sent a)) i c').
Proof.
  intros s0 c cl Hnc Hv sa a.
  pose proof (action_spec (cs_of cl) s0 c) as H. cbn zeta in H. fold sa a in H.
  destruct H as (Hc & Ho & Htr & Hst & Hmb & Hrest & Hhas & Hmk).
  split.
  { (* action_ok *)
    pose proof (action_submit (cs_of cl) s0 c) as Hs. cbn zeta in Hs.
    assert (a = wrap_action c (action_cancels a) (action_opens a)) as Ea.
    { subst a. rewrite Hs. cbn [snd].
      destruct c; cbn [wrap_action action_cancels action_opens]; reflexivity. }
    rewrite Ea, Hc, Ho. clear Ea.
    destruct c as [rs|rs|f|f]; cbn [wrap_action action_ok command_requests fst snd]; try discriminate Hnc.
    - apply spec_is_spec, creq_eqb_refl.
    - apply spec_is_spec, oreq_eqb_refl.
    - destruct cl as [st b|cs os]; cbn [cs_of fst snd].
      + rewrite !spec_consistent. reflexivity.
      + rewrite (spec_is_spec _ _ _ _ _ creq_eqb_refl), (spec_is_spec _ _ _ _ _ oreq_eqb_refl). reflexivity. }
  split; [exact Htr|]. split; [exact Hst|]. split; [exact Hmb|].
  split.
  { intros x Hx.
    assert (In x (map XCancel (so_sent (action_cancels a)) ++ map XOpen (so_sent (action_opens a)))) as Hx'.
    { destruct a as [o|o|co oo]; cbn [action_sent action_cancels action_opens so_sent map app] in *;
        [rewrite app_nil_r; exact Hx|exact Hx|exact Hx]. }
    rewrite Hc, Ho in Hx'. cbn [so_sent] in Hx'. apply in_app_iff in Hx'.
    destruct Hx' as [Hx'|Hx']; apply in_map_iff in Hx'; destruct Hx' as [r [<- Hr]]; apply spec_sent_in in Hr; apply Hr. }
  split; [exact Hrest|]. split; [exact Hhas|].
  intros i c'. rewrite cancels_of_action, opens_of_action. apply Hmk. exact Hv.
Qed.

Lemma sound_action : forall s0 c g cl,
  not_cancel_orders c = true ->
  (forall e, mbox (links s0) e = []) ->
  valid_opens (insts s0) (so_sent (action_opens (snd (action (cs_of cl) s0 c)))) = true ->
  oracle_step (view_of s0) (mkStep (OpAction c) g cl
     (obs_of (fst (action (cs_of cl) s0 c)) (MAction (snd (action (cs_of cl) s0 c)))))
  = (true, view_of (clear_state (fst (action (cs_of cl) s0 c)))).
Proof.
  intros s0 c g cl Hnc Hclr Hv.
  destruct (action_facts s0 c cl Hnc Hv) as (Hok & Htr & Hst & Hmb & Hopen & Hrest & Hhas & Hmk).
  set (sa := fst (action (cs_of cl) s0 c)) in *. set (a := snd (action (cs_of cl) s0 c)) in *.
  unfold oracle_step. cbn [st_op st_obs st_g st_close obs_of ob_res ob_trading ob_deliv ob_insts res_of view_of ov_stats ov_insts ov_trading].
  rewrite (surjective_pairing (split_mask (gs_cmask g) (gs_cancels g))).
  rewrite (surjective_pairing (split_mask (gs_omask g) (gs_opens g))).
  rewrite Hok. cbn [andb].
  set (su := {| trading := trading s0; links := []; insts := insts s0 |}).
  assert (Hmb' : forall e, mbox (links sa) e = mbox (links s0) e ++ to_ex e (action_sent a ++ []))
    by (intros e; rewrite app_nil_r; apply Hmb).
  assert (Hopen' : forall x, In x (action_sent a ++ []) -> link_open (links s0) (xr_ex x) = true)
    by (intros x Hx; rewrite app_nil_r in Hx; apply Hopen; exact Hx).
  assert (Hord : forall i c', ord (insts sa) i c' =
     marked (marked (ord (insts su)) (cancels_of (action_sent a)) (opens_of (action_sent a))) (cancels_of []) (opens_of []) i c')
    by (intros i c'; rewrite Hmk; reflexivity).
  pose proof (tail_after s0 sa su Hrest eq_refl) as Hafter.
  pose proof (tail_deliv s0 sa (action_sent a) [] Hclr Hst Hmb' Hopen') as Hd.
  pose proof (tail_orders s0 sa su (action_sent a) [] Hrest eq_refl Hord) as Ho.
  pose proof (tail_rest s0 sa su Hrest eq_refl) as Hr.
  fold su. rewrite Hd, Ho, Hr, Hafter, Htr, Bool.eqb_reflx. cbn [andb].
  f_equal. rewrite <- Htr. apply view_clear. exact Hst.
Qed.

Lemma process_command_form : forall cs s0 c g,
  let sa := fst (action cs s0 c) in
  let a := snd (action cs s0 c) in
  process cs s0 (EvCommand c) g =
  if match action_unrec a with [] => trading s0 | _ => false end
  then (fst (generate sa g), audit_of (mkTrace (Some a) [] (Some (snd (generate sa g)))))
  else (sa, audit_of (mkTrace (Some a) [] None)).
Proof.
  intros cs s0 c g. cbn zeta. unfold process.
  pose proof (process_trace_shape cs s0 (EvCommand c) g) as Hsh. cbn [pre_step generation_runs] in Hsh.
  rewrite Hsh. destruct (match action_unrec (snd (action cs s0 c)) with [] => trading s0 | _ => false end); reflexivity.
Qed.

Lemma no_reports_nil : no_reports []. Proof. intros o []. Qed.

Lemma sound_command : forall s0 c g cl,
  not_cancel_orders c = true ->
  (forall e, mbox (links s0) e = []) ->
  valid_opens (insts s0) (so_sent (action_opens (snd (action (cs_of cl) s0 c)))) = true ->
  (forall ss, valid_opens (insts s0) (so_sent (ao_opens (snd (generate ss g)))) = true) ->
  oracle_step (view_of s0) (mkStep (OpProcess (EvCommand c)) g cl
     (obs_of (fst (process (cs_of cl) s0 (EvCommand c) g)) (MAudit (snd (process (cs_of cl) s0 (EvCommand c) g)))))
  = (true, view_of (clear_state (fst (process (cs_of cl) s0 (EvCommand c) g)))).
Proof.
  intros s0 c g cl Hnc Hclr Hv Hvg.
  destruct (action_facts s0 c cl Hnc Hv) as (Hok & Htr & Hst & Hmb & Hopen & Hrest & Hhas & Hmk).
  rewrite (process_command_form (cs_of cl) s0 c g). cbn zeta.
  set (sa := fst (action (cs_of cl) s0 c)) in *. set (a := snd (action (cs_of cl) s0 c)) in *.
  pose proof (generate_spec sa g) as Hg. cbn zeta in Hg.
  specialize (Hvg sa).
  unfold oracle_step. cbn [st_op st_obs st_g st_close obs_of ob_res ob_trading ob_deliv ob_insts res_of view_of ov_stats ov_insts ov_trading update_state fst snd].
  rewrite (surjective_pairing (split_mask (gs_cmask g) (gs_cancels g))).
  rewrite (surjective_pairing (split_mask (gs_omask g) (gs_opens g))).
  rewrite !o_sent_spec, !o_errs_spec.
  set (su := {| trading := trading s0; links := []; insts := insts s0 |}).
  change (trading su) with (trading s0).
  destruct Hg as (Ha & Htr2 & Hst2 & Hmb2 & Hrest2 & Hhas2 & Hmk2).
  rewrite (spec_sent_ext _ cr_ex (links s0) (links sa)), (spec_errs_ext _ cr_ex (links s0) (links sa)),
          (spec_sent_ext _ or_ex (links s0) (links sa)), (spec_errs_ext _ or_ex (links s0) (links sa)) in Ha by exact Hst.
  destruct (action_unrec a) as [|k ks] eqn:Eu; [destruct (trading s0) eqn:Et|]; cbn [fst snd].
  - (* command not fatal, trading enabled: generation runs *)
    set (ga := snd (generate sa g)) in *. set (s1 := fst (generate sa g)) in *.
    rewrite <- Ha.
    destruct (gen_checks ga (Some a) [] no_reports_nil Eu) as (G1 & G2 & G3 & G4 & G5). cbn zeta in G1, G2, G3, G4, G5.
    rewrite G5. cbn [act_unrec] in *. rewrite Eu in *. cbn [andb app] in *. rewrite Hok, G1, G2, G3.
    rewrite G5 in G4. rewrite G4.
    assert (Hst' : forall e, lstat_of (links s1) e = lstat_of (links s0) e) by (intros e; rewrite Hst2, Hst; reflexivity).
    assert (Hmb' : forall e, mbox (links s1) e = mbox (links s0) e ++ to_ex e (action_sent a ++ algo_sent ga))
      by (intros e; rewrite Hmb2, Hmb, to_ex_app, app_assoc; reflexivity).
    assert (Hopen' : forall x, In x (action_sent a ++ algo_sent ga) -> link_open (links s0) (xr_ex x) = true).
    { intros x Hx. apply in_app_iff in Hx. destruct Hx as [Hx|Hx]; [apply Hopen; exact Hx|].
      rewrite Ha in Hx. eapply algo_sent_open. exact Hx. }
    assert (Hrest' : map inst_rest (insts s1) = map inst_rest (insts su)) by (rewrite Hrest2; exact Hrest).
    assert (Hord : forall i c', ord (insts s1) i c' =
       marked (marked (ord (insts su)) (cancels_of (action_sent a)) (opens_of (action_sent a)))
              (cancels_of (algo_sent ga)) (opens_of (algo_sent ga)) i c').
    { intros i c'. unfold algo_sent at 1 2. unfold cancels_of at 2. unfold opens_of at 2.
      rewrite cancels_of_app, opens_of_app. rewrite Hmk2.
      - apply marked_ext. intros i' c''. apply Hmk.
      - rewrite (valid_opens_ext _ (insts s0)); [exact Hvg|exact Hhas]. }
    pose proof (tail_after s0 s1 su Hrest' eq_refl) as Hafter.
    pose proof (tail_deliv s0 s1 (action_sent a) (algo_sent ga) Hclr Hst' Hmb' Hopen') as Hd.
    pose proof (tail_orders s0 s1 su (action_sent a) (algo_sent ga) Hrest' eq_refl Hord) as Ho.
    pose proof (tail_rest s0 s1 su Hrest' eq_refl) as Hr.
    fold su. rewrite Hd, Ho, Hr, Hafter.
    f_equal; [rewrite Htr2, Htr; reflexivity|apply view_clear; exact Hst'].
  - (* command not fatal, trading disabled *)
    destruct (nogen_checks (Some a) [] no_reports_nil) as (G1 & G2 & G3 & G4 & G5). cbn zeta in G1, G2, G3, G4, G5.
    rewrite G5. cbn [act_unrec] in *. rewrite Eu in *. cbn [andb app] in *. rewrite Hok, G1, G2, G3.
    rewrite G5 in G4. rewrite G4. cbn [andb].
    assert (Hmb' : forall e, mbox (links sa) e = mbox (links s0) e ++ to_ex e (action_sent a ++ []))
      by (intros e; rewrite app_nil_r; apply Hmb).
    assert (Hopen' : forall x, In x (action_sent a ++ []) -> link_open (links s0) (xr_ex x) = true)
      by (intros x Hx; rewrite app_nil_r in Hx; apply Hopen; exact Hx).
    assert (Hrest' : map inst_rest (insts sa) = map inst_rest (insts su)) by exact Hrest.
    assert (Hord : forall i c', ord (insts sa) i c' =
       marked (marked (ord (insts su)) (cancels_of (action_sent a)) (opens_of (action_sent a))) (cancels_of []) (opens_of []) i c')
      by (intros i c'; rewrite Hmk; reflexivity).
    pose proof (tail_after s0 sa su Hrest' eq_refl) as Hafter.
    pose proof (tail_deliv s0 sa (action_sent a) [] Hclr Hst Hmb' Hopen') as Hd.
    pose proof (tail_orders s0 sa su (action_sent a) [] Hrest' eq_refl Hord) as Ho.
    pose proof (tail_rest s0 sa su Hrest' eq_refl) as Hr.
    fold su. rewrite Hd, Ho, Hr, Hafter.
    f_equal; [rewrite Htr, ?Bool.eqb_reflx; reflexivity|apply view_clear; exact Hst].
  - (* fatal command *)
    destruct (nogen_checks (Some a) [] no_reports_nil) as (G1 & G2 & G3 & G4 & G5). cbn zeta in G1, G2, G3, G4, G5.
    rewrite G5. cbn [act_unrec] in *. rewrite Eu in *. rewrite !andb_false_r. cbn [andb app] in *. rewrite Hok, G1, G2, G3.
    rewrite G5 in G4. rewrite G4. cbn [andb].
    assert (Hmb' : forall e, mbox (links sa) e = mbox (links s0) e ++ to_ex e (action_sent a ++ []))
      by (intros e; rewrite app_nil_r; apply Hmb).
    assert (Hopen' : forall x, In x (action_sent a ++ []) -> link_open (links s0) (xr_ex x) = true)
      by (intros x Hx; rewrite app_nil_r in Hx; apply Hopen; exact Hx).
    assert (Hrest' : map inst_rest (insts sa) = map inst_rest (insts su)) by exact Hrest.
    assert (Hord : forall i c', ord (insts sa) i c' =
       marked (marked (ord (insts su)) (cancels_of (action_sent a)) (opens_of (action_sent a))) (cancels_of []) (opens_of []) i c')
      by (intros i c'; rewrite Hmk; reflexivity).
    pose proof (tail_after s0 sa su Hrest' eq_refl) as Hafter.
    pose proof (tail_deliv s0 sa (action_sent a) [] Hclr Hst Hmb' Hopen') as Hd.
    pose proof (tail_orders s0 sa su (action_sent a) [] Hrest' eq_refl Hord) as Ho.
    pose proof (tail_rest s0 sa su Hrest' eq_refl) as Hr.
    fold su. rewrite Hd, Ho, Hr, Hafter.
    f_equal; [rewrite Htr, ?Bool.eqb_reflx; reflexivity|apply view_clear; exact Hst].
Qed.

Lemma sound_shutdown : forall s0 g cl,
  (forall e, mbox (links s0) e = []) ->
  oracle_step (view_of s0) (mkStep (OpProcess EvShutdown) g cl
     (obs_of (fst (process (cs_of cl) s0 EvShutdown g)) (MAudit (snd (process (cs_of cl) s0 EvShutdown g)))))
  = (true, view_of (clear_state (fst (process (cs_of cl) s0 EvShutdown g)))).
Proof.
  intros s0 g cl Hclr.
  change (process (cs_of cl) s0 EvShutdown g) with (s0, mkAudit [] []). cbn [fst snd].
  unfold oracle_step. cbn [st_op st_obs st_g st_close obs_of ob_res ob_trading ob_deliv ob_insts res_of view_of ov_stats ov_insts ov_trading update_state fst snd].
  rewrite (surjective_pairing (split_mask (gs_cmask g) (gs_cancels g))).
  rewrite (surjective_pairing (split_mask (gs_omask g) (gs_opens g))).
  cbn [au_outputs au_errors find_commanded find_algo fold_left other_outputs count_reports filter length andb app].
  set (su := {| trading := trading s0; links := []; insts := insts s0 |}).
  assert (Hst : forall e, lstat_of (links s0) e = lstat_of (links s0) e) by reflexivity.
  assert (Hmb' : forall e, mbox (links s0) e = mbox (links s0) e ++ to_ex e (@nil xreq ++ []))
    by (intros e; cbn; rewrite app_nil_r; reflexivity).
  assert (Hopen' : forall x, In x (@nil xreq ++ []) -> link_open (links s0) (xr_ex x) = true) by (intros x []).
  assert (Hrest' : map inst_rest (insts s0) = map inst_rest (insts su)) by reflexivity.
  assert (Hord : forall i c', ord (insts s0) i c' =
     marked (marked (ord (insts su)) (cancels_of []) (opens_of [])) (cancels_of []) (opens_of []) i c') by reflexivity.
  pose proof (tail_after s0 s0 su Hrest' eq_refl) as Hafter.
  pose proof (tail_deliv s0 s0 [] [] Hclr Hst Hmb' Hopen') as Hd.
  pose proof (tail_orders s0 s0 su [] [] Hrest' eq_refl Hord) as Ho.
  pose proof (tail_rest s0 s0 su Hrest' eq_refl) as Hr.
  cbn [app] in Hd, Ho.
  rewrite Hd, Ho, Hr, Hafter, perm_eqb_refl.
  f_equal; [change (trading su) with (trading s0); rewrite Bool.eqb_reflx; reflexivity|apply view_clear; exact Hst].
Qed.

Lemma stat_link_of_stat : forall stt, stt <> SNoIndex -> stat_of_link (link_of_stat stt) = stt.
Proof. intros [] H; try reflexivity. congruence. Qed.

Lemma map_updN : forall A B (f : A -> B) (l : list A) n g h,
  (forall x, f (g x) = h (f x)) -> map f (updN l n g) = updN (map f l) n h.
Proof.
  intros A B f l n g h H. unfold updN. generalize (N.to_nat n). clear n.
  induction l as [|x t IH]; intros [|k]; cbn; try reflexivity; [rewrite H; reflexivity|rewrite IH; reflexivity].
Qed.

Lemma mbox_setlink : forall ls e stt k, (forall e', mbox ls e' = []) -> mbox (updN ls e (fun _ => link_of_stat stt)) k = [].
Proof.
  intros ls e stt k H. unfold mbox. rewrite nthN_updN. destruct (N.eqb e k).
  - destruct (nthN ls e); cbn; [destruct stt; reflexivity|reflexivity].
  - apply H.
Qed.

Lemma sound_setlink : forall s0 e stt g cl,
  stt <> SNoIndex ->
  (forall e', mbox (links s0) e' = []) ->
  let s1 := mkState (trading s0) (updN (links s0) e (fun _ => link_of_stat stt)) (insts s0) in
  oracle_step (view_of s0) (mkStep (OpSetLink e stt) g cl (obs_of s1 MNone)) = (true, view_of (clear_state s1)).
Proof.
  intros s0 e stt g cl Hs Hclr s1.
  unfold oracle_step. cbn [st_op st_obs obs_of ob_res ob_trading ob_deliv ob_insts res_of view_of ov_stats ov_insts ov_trading].
  f_equal.
  - subst s1. cbn [trading insts]. rewrite Bool.eqb_reflx. cbn [andb].
    unfold iobs_of. cbn [insts]. rewrite (list_eqb_refl _ _ iobs_eqb_refl). cbn [andb].
    unfold deliv_of. cbn [links]. rewrite forallb_map, !andb_true_r. apply forallb_true.
    intros k. rewrite mbox_setlink by exact Hclr. reflexivity.
  - subst s1. unfold view_of, clear_state. cbn [trading links insts]. f_equal.
    transitivity (map stat_of_link (updN (links s0) e (fun _ => link_of_stat stt))).
    + symmetry. apply map_updN. intros x. apply stat_link_of_stat. exact Hs.
    + symmetry. rewrite stat_link_eq, stat_clear. symmetry. apply stat_link_eq.
Qed.

(** steps the link theorem covers: everything except CancelOrders commands (there the code
    iterates a hash map, [corr_b] compares multisets while the oracle additionally checks that the
    mailbox order equals the reported order), strategy-hook steps [OpHook] (judged by the oracle like
    direct actions; not covered by this theorem) and the degenerate environment op [OpSetLink _ SNoIndex] *)
Definition op_in_scope (o : op) : bool :=
  negb (hash_ordered o) && match o with OpSetLink _ SNoIndex | OpHook _ _ => false | _ => true end.
Definition case_in_scope (c : case) : bool := forallb (fun st => op_in_scope (st_op st)) (c_steps c).

Lemma has_inst_lt : forall (l : list inst) i, N.ltb i (N.of_nat (length l)) = true -> has_inst l i = true.
Proof.
  intros l i H. apply N.ltb_lt in H. unfold has_inst, nthN.
  destruct (nth_error l (N.to_nat i)) eqn:E; [reflexivity|]. apply nth_error_None in E. lia.
Qed.

Lemma valid_opens_sub : forall (l : list inst) (os all : list oreq),
  (forall r, In r os -> In r all) ->
  forallb (fun i => N.ltb i (N.of_nat (length l))) (map (fun r => k_inst (or_key r)) all) = true ->
  valid_opens l os = true.
Proof.
  intros l os all Hsub Hall. unfold valid_opens. apply forallb_forall. intros r Hr.
  apply has_inst_lt. rewrite forallb_forall in Hall. apply Hall.
  apply (in_map (fun r => k_inst (or_key r))). apply Hsub. exact Hr.
Qed.

Lemma generate_opens_sub : forall ss g r,
  In r (so_sent (ao_opens (snd (generate ss g)))) -> In r (gs_opens g).
Proof.
  intros ss g r H. pose proof (generate_spec ss g) as Hg. cbn zeta in Hg. destruct Hg as (Ha & _).
  rewrite Ha in H. cbn [ao_opens so_sent] in H. apply spec_sent_in in H. destruct H as [H _].
  apply (proj2 (split_mask_partition _ (gs_opens g) (gs_omask g))). left. exact H.
Qed.

Lemma forallb_app_l : forall A (p : A -> bool) l1 l2, forallb p (l1 ++ l2) = true -> forallb p l1 = true.
Proof. intros. rewrite forallb_app in H. apply andb_true_iff in H. tauto. Qed.
Lemma forallb_app_r : forall A (p : A -> bool) l1 l2, forallb p (l1 ++ l2) = true -> forallb p l2 = true.
Proof. intros. rewrite forallb_app in H. apply andb_true_iff in H. tauto. Qed.

Lemma step_valid_gen : forall n op g cl o ss (l : list inst),
  N.of_nat (length l) = n ->
  step_valid n (mkStep op g cl o) = true ->
  valid_opens l (so_sent (ao_opens (snd (generate ss g)))) = true.
Proof.
  intros n op g cl o ss l Hl H. unfold step_valid in H. apply andb_true_iff in H. destruct H as [H _].
  apply andb_true_iff in H. destruct H as [H _]. unfold step_insts in H. cbn [st_op st_g st_close] in H.
  apply forallb_app_r in H. apply forallb_app_r in H. apply forallb_app_l in H.
  eapply valid_opens_sub; [intros r Hr; eapply generate_opens_sub; exact Hr|]. rewrite Hl. exact H.
Qed.

Lemma action_opens_sub : forall cs s c r,
  In r (so_sent (action_opens (snd (action cs s c)))) -> In r (snd (command_requests cs s c)).
Proof.
  intros cs s c r H. pose proof (action_spec cs s c) as Ha. cbn zeta in Ha. destruct Ha as (_ & Ho & _).
  rewrite Ho in H. cbn [so_sent] in H. apply spec_sent_in in H. apply H.
Qed.

Lemma default_close_valid : forall strat gen s f,
  state_wf s = true -> valid_opens (insts s) (snd (default_close strat gen s f)) = true.
Proof.
  intros strat gen s f Hwf. unfold valid_opens. apply forallb_forall. intros r Hr.
  destruct (default_close_spec strat gen s f) as (_ & Hin & _). apply Hin in Hr.
  destruct Hr as (i & x & p & pr & Hn & _ & Hp & _ & ->). cbn [or_key k_inst].
  pose proof (state_wf_inst s i x Hwf Hn) as Hi. apply inst_wf_parts in Hi. destruct Hi as (_ & _ & Hpi).
  rewrite Hp in Hpi. apply N.eqb_eq in Hpi. rewrite Hpi. unfold has_inst. rewrite Hn. reflexivity.
Qed.

Lemma valid_opens_incl : forall l os os', (forall r, In r os -> In r os') -> valid_opens l os' = true -> valid_opens l os = true.
Proof.
  intros l os os' H Hv. unfold valid_opens in *. rewrite forallb_forall in *. intros r Hr. apply Hv, H, Hr.
Qed.

Lemma step_valid_action : forall n c g cl o s (isproc : bool),
  state_wf s = true -> N.of_nat (length (insts s)) = n ->
  step_valid n (mkStep (if isproc then OpProcess (EvCommand c) else OpAction c) g cl o) = true ->
  valid_opens (insts s) (so_sent (action_opens (snd (action (cs_of cl) s c)))) = true.
Proof.
  intros n c g cl o s isproc Hwf Hl H.
  eapply valid_opens_incl; [intros r Hr; eapply action_opens_sub; exact Hr|].
  unfold step_valid in H. apply andb_true_iff in H. destruct H as [H _].
  apply andb_true_iff in H. destruct H as [H _]. unfold step_insts in H. cbn [st_op st_g st_close] in H.
  assert (forallb (fun i => N.ltb i n) (cmd_insts c) = true) as Hc.
  { destruct isproc; cbn [event_insts] in H; apply forallb_app_l in H; exact H. }
  assert (forallb (fun i => N.ltb i n)
            (match cl with CloseScripted cs os => map (fun r => k_inst (cr_key r)) cs ++ map (fun r => k_inst (or_key r)) os | _ => [] end) = true) as Hcl.
  { apply forallb_app_r in H. apply forallb_app_r in H. apply forallb_app_r in H. exact H. }
  destruct c as [rs|rs|f|f]; cbn [command_requests snd].
  - reflexivity.
  - cbn [cmd_insts] in Hc. eapply valid_opens_sub; [intros r Hr; exact Hr|]. rewrite Hl. exact Hc.
  - destruct cl as [st b|cs os]; cbn [cs_of].
    + apply default_close_valid. exact Hwf.
    + cbn [snd]. apply forallb_app_r in Hcl. eapply valid_opens_sub; [intros r Hr; exact Hr|]. rewrite Hl. exact Hcl.
  - reflexivity.
Qed.

Lemma view_of_clear : forall s, view_of (clear_state s) = view_of s.
Proof.
  intros s. unfold view_of, clear_state. cbn. f_equal. rewrite !stat_link_eq. apply stat_clear.
Qed.






Lemma sound_step : forall s st,
  state_wf s = true ->
  step_valid (N.of_nat (length (insts s))) st = true ->
  op_in_scope (st_op st) = true ->
  let s0 := clear_state s in
  obs_matches false (fst (model_step s0 st)) (snd (model_step s0 st)) (st_obs st) = true ->
  oracle_step (view_of s) st = (true, view_of (fst (model_step s0 st))).
Proof.
  intros s [o g cl ob] Hwf Hv Hsc s0 Hm. cbn [st_op st_obs] in *.
  unfold model_step in Hm. cbn [st_op st_g st_close] in Hm.
  apply obs_matches_exact in Hm.
  rewrite <- (view_of_clear s). fold s0.
  assert (Hclr : forall e, mbox (links s0) e = []) by (apply mbox_clear_state).
  assert (Hwf0 : state_wf s0 = true) by exact Hwf.
  assert (Hl0 : N.of_nat (length (insts s0)) = N.of_nat (length (insts s))) by reflexivity.
  unfold model_step. cbn [st_op st_g st_close].
  destruct o as [ev| |c|e stt|h c]; subst ob.
  - (* process *)
    rewrite (surjective_pairing (process (cs_of cl) s0 ev g)). cbn [fst snd].
    rewrite <- (view_of_clear (fst (process (cs_of cl) s0 ev g))).
    destruct ev as [|c| | | | | | | | | |];
      try (apply sound_process_event; [reflexivity|exact Hclr|eapply step_valid_gen; [exact Hl0|exact Hv]]).
    + apply sound_shutdown. exact Hclr.
    + assert (not_cancel_orders c = true) as Hnc by (destruct c; try reflexivity; discriminate Hsc).
      apply sound_command; [exact Hnc|exact Hclr| |].
      * eapply (step_valid_action _ c g cl _ s0 true); [exact Hwf0|exact Hl0|exact Hv].
      * intros ss. eapply step_valid_gen; [exact Hl0|exact Hv].
  - (* direct generate *)
    rewrite (surjective_pairing (generate s0 g)). cbn [fst snd].
    rewrite <- (view_of_clear (fst (generate s0 g))).
    apply sound_generate; [exact Hclr|]. eapply step_valid_gen; [exact Hl0|exact Hv].
  - (* direct action *)
    rewrite (surjective_pairing (action (cs_of cl) s0 c)). cbn [fst snd].
    rewrite <- (view_of_clear (fst (action (cs_of cl) s0 c))).
    assert (not_cancel_orders c = true) as Hnc by (destruct c; try reflexivity; discriminate Hsc).
    apply sound_action; [exact Hnc|exact Hclr|].
    eapply (step_valid_action _ c g cl _ s0 false); [exact Hwf0|exact Hl0|exact Hv].
  - (* environment *)
    cbn [fst snd].
    rewrite <- (view_of_clear (mkState (trading s0) (updN (links s0) e (fun _ => link_of_stat stt)) (insts s0))).
    apply sound_setlink; [|exact Hclr]. intros ->. discriminate Hsc.
  - (* strategy hook: outside the scope of this theorem *)
    destruct h, c; discriminate Hsc.
Qed.

Lemma sound_run : forall steps s,
  state_wf s = true ->
  forallb (step_valid (N.of_nat (length (insts s)))) steps = true ->
  forallb (fun st => op_in_scope (st_op st)) steps = true ->
  corr_run s steps = true -> oracle_run (view_of s) steps = true.
Proof.
  induction steps as [|st rest IH]; intros s Hwf Hv Hsc Hc; [reflexivity|].
  cbn [forallb] in Hv, Hsc. apply andb_true_iff in Hv. destruct Hv as [Hv1 Hv2].
  apply andb_true_iff in Hsc. destruct Hsc as [Hs1 Hs2].
  cbn [corr_run] in Hc. fold (clear_state s) in Hc.
  pose proof (model_step_inv (clear_state s) st Hwf) as [Hwf1 Hlen].
  pose proof (sound_step s st Hwf Hv1 Hs1) as Hstep. cbn zeta in Hstep.
  destruct (model_step (clear_state s) st) as [s1 m]. cbn [fst snd] in *.
  apply andb_true_iff in Hc. destruct Hc as [Hm Hc].
  assert (hash_ordered (st_op st) = false) as Hh.
  { unfold op_in_scope in Hs1. apply andb_true_iff in Hs1. destruct Hs1 as [H _]. apply negb_true_iff in H. exact H. }
  rewrite Hh in Hm. specialize (Hstep Hm).
  cbn [oracle_run]. rewrite Hstep. cbn [andb].
  apply IH; [exact Hwf1| |exact Hs2|exact Hc].
  rewrite Hlen. exact Hv2.
Qed.

(** Oracle no stricter than the model, on the steps in scope *)
Theorem oracle_sound_C03 : forall c,
  valid_case c = true -> case_in_scope c = true -> corr_b c = true -> prop_b c = true.
Proof.
  intros c Hv Hs Hc. unfold valid_case in Hv. apply andb_true_iff in Hv. destruct Hv as [Hwf Hv].
  apply andb_true_iff in Hwf. destruct Hwf as [Hwf _].
  unfold prop_b. apply (sound_run (c_steps c) (c_init c) Hwf Hv Hs Hc).
Qed.
