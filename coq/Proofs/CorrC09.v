(** The C09 run-time oracle is no stricter than the model: whenever the model reproduces the
    observed engine states ([corr_b]), the observed states satisfy the "latest timestamp wins"
    oracle ([prop_b]) after every event. *)
From BV Require Import Base.Common Model.Timed Proofs.Orders Proofs.Timed Corr.C09.
From Coq Require Import Lia ZifyBool.
Local Open Scope Z_scope.

(* ---- decidable equalities ------------------------------------------------------------------- *)

Lemma zz_eqb_eq : forall a b, zz_eqb a b = true <-> a = b.
Proof.
  intros [a1 a2] [b1 b2]. unfold zz_eqb. simpl. rewrite andb_true_iff, !Z.eqb_eq. split.
  - intros [-> ->]. reflexivity.
  - intros H. injection H as -> ->. auto.
Qed.
Lemma ozz_eqb_eq : forall a b, ozz_eqb a b = true <-> a = b.
Proof.
  intros [a|] [b|]; simpl; try (split; congruence). rewrite zz_eqb_eq. split; congruence.
Qed.
Lemma regb_eqb_eq : forall a b, regb_eqb a b = true <-> a = b.
Proof.
  intros [[t v]|] [[t' v']|]; simpl; try (split; congruence).
  rewrite andb_true_iff, Z.eqb_eq, zz_eqb_eq. split.
  - intros [-> ->]. reflexivity.
  - intros H. injection H as -> ->. auto.
Qed.
Lemma l1_eqb_eq : forall a b, l1_eqb a b = true <-> a = b.
Proof.
  intros [t b1 a1] [t' b2 a2]. unfold l1_eqb. simpl.
  rewrite !andb_true_iff, Z.eqb_eq, !ozz_eqb_eq. split.
  - intros [[-> ->] ->]. reflexivity.
  - intros H. injection H as -> -> ->. auto.
Qed.
Lemma mdata_eqb_eq : forall a b, mdata_eqb a b = true <-> a = b.
Proof.
  intros [l r] [l' r']. unfold mdata_eqb. simpl. rewrite andb_true_iff, l1_eqb_eq, ozz_eqb_eq.
  split.
  - intros [-> ->]. reflexivity.
  - intros H. injection H as -> ->. auto.
Qed.

(* ---- the boolean "latest" test accepts every [is_latest] register ---------------------------------- *)

Lemma latest_b_complete : forall V (eqv : V -> V -> bool) (ds : list (Z * V)) (r : reg V),
  (forall v, eqv v v = true) -> is_latest ds r -> latest_b eqv ds r = true.
Proof.
  intros V eqv ds r Hrefl H. unfold latest_b. destruct r as [[t v]|]; simpl in H.
  - destruct H as [Hin Hall]. apply andb_true_intro. split.
    + apply existsb_exists. exists (t, v). split; [auto|]. simpl. rewrite Z.eqb_refl, Hrefl. reflexivity.
    + apply forallb_forall. intros d Hd. rewrite Forall_forall in Hall. apply Z.leb_le. apply Hall. auto.
  - subst. reflexivity.
Qed.

Lemma zz_eqb_refl : forall v, zz_eqb v v = true.
Proof. intros. apply zz_eqb_eq. reflexivity. Qed.
Lemma l1_eqb_refl : forall v, l1_eqb v v = true.
Proof. intros. apply l1_eqb_eq. reflexivity. Qed.
Lemma meta_eqb_refl : forall v, meta_eqb v v = true.
Proof. intros. apply meta_eqb_eq. reflexivity. Qed.

(* ---- the model's state after a prefix satisfies the oracle -------------------------------------------- *)

Lemma l1_wf_b_spec : forall xs, l1_wf_b xs = true -> l1_wf xs.
Proof.
  intros xs H j t b Hin. unfold l1_wf_b in H. rewrite forallb_forall in H.
  specialize (H _ Hin). simpl in H. apply Z.eqb_eq. exact H.
Qed.

Lemma open_only_spec : forall ops,
  open_only ops = true -> Forall (fun o => open_report o <> None) ops.
Proof.
  intros ops H. apply Forall_forall. intros o Ho. unfold open_only in H.
  rewrite forallb_forall in H. specialize (H o Ho). destruct (open_report o); congruence.
Qed.

Lemma bals_ok_model : forall pre l a,
  bals_eq (erun9 pre engine0) a l = true -> bals_ok pre a l = true.
Proof.
  intros pre. induction l as [|x l IH]; intros a H; simpl in *; [reflexivity|].
  apply andb_prop in H. destruct H as [H1 H2]. rewrite (IH _ H2), andb_true_r.
  apply regb_eqb_eq in H1. rewrite <- H1, balance_projection. simpl.
  apply latest_b_complete; [exact zz_eqb_refl|].
  exact (latest_le (bal_deliveries a pre) None).
Qed.

Lemma oview_lookup : forall U s l c,
  oview_eq U s l = true -> In c U -> olookup l c = s c.
Proof.
  intros U s l c H Hin. unfold oview_eq in H. apply andb_prop in H. destruct H as [_ H].
  rewrite forallb_forall in H. specialize (H c Hin). apply oorder_eqb_eq in H. auto.
Qed.

Lemma inst_ok_model : forall U pre i x,
  mdata_eqb (e_md (erun9 pre engine0) i) (mdata_of x) = true ->
  oview_eq U (e_ord (erun9 pre engine0) i) (io_orders x) = true ->
  inst_ok U pre i x = true.
Proof.
  intros U pre i x Hm Ho. unfold inst_ok. apply mdata_eqb_eq in Hm. rewrite <- Hm.
  apply andb_true_intro. split; [apply andb_true_intro; split|].
  - rewrite trade_projection. simpl.
    apply latest_b_complete; [exact Z.eqb_refl|].
    exact (latest_lt (trade_deliveries i pre) None).
  - destruct (l1_wf_b pre) eqn:Ewf; [|reflexivity].
    pose proof (l1_projection pre engine0 i (l1_wf_b_spec _ Ewf)) as Hp.
    unfold l1reg in Hp at 1. rewrite Hp.
    apply latest_b_complete; [exact l1_eqb_refl|].
    exact (latest_lt (l1_deliveries i pre) (Some (0, l1_default))).
  - apply forallb_forall. intros c Hc.
    destruct (open_only (ord_inputs i c pre)) eqn:Eo; [|reflexivity].
    rewrite (oview_lookup U _ _ c Ho Hc).
    rewrite (order_details_projection pre engine0 i c (open_only_spec _ Eo)). simpl.
    apply latest_b_complete; [exact meta_eqb_refl|].
    exact (latest_le (open_deliveries (ord_inputs i c pre)) None).
Qed.

Lemma insts_ok_model : forall U pre l i,
  insts_eq U (erun9 pre engine0) i l = true -> insts_ok U pre i l = true.
Proof.
  intros U pre. induction l as [|x l IH]; intros i H; simpl in *; [reflexivity|].
  apply andb_prop in H. destruct H as [H H3]. apply andb_prop in H. destruct H as [H1 H2].
  rewrite (IH _ H3), andb_true_r. apply inst_ok_model; auto.
Qed.

Lemma corr_run_prop_run : forall U nb ni xs done os,
  corr_run U nb ni (erun9 (rev done) engine0) xs os = true ->
  prop_run U done xs os = true.
Proof.
  intros U nb ni. induction xs as [|x xs IH]; intros done os H; destruct os as [|o os];
    simpl in *; try discriminate; auto.
  apply andb_prop in H. destruct H as [H Hr]. apply andb_prop in H. destruct H as [_ Hobs].
  assert (estep9 (erun9 (rev done) engine0) x = erun9 (rev done ++ [x]) engine0) as Hstep.
  { unfold erun9. rewrite fold_left_app. reflexivity. }
  rewrite Hstep in Hobs, Hr.
  unfold obs_eq in Hobs. apply andb_prop in Hobs. destruct Hobs as [Hb Hi].
  apply andb_true_intro. split; [apply andb_true_intro; split|].
  - apply bals_ok_model. exact Hb.
  - apply insts_ok_model. exact Hi.
  - apply IH. simpl. exact Hr.
Qed.

(* ---- episodes: the model's order states pass [ord_hist_ok] ------------------------------------------- *)

Lemma ht_ts : forall (s : orders) c, ht (s c) = ts s c.
Proof. intros. unfold ht. rewrite ts_oreg. reflexivity. Qed.

Lemma ge_opt_refl : forall h, ge_opt h h = true.
Proof. intros [t|]; simpl; [apply Z.leb_refl|reflexivity]. Qed.

Lemma ge_opt_some : forall T h, ge_opt (Some T) h = true -> exists t, h = Some t /\ T <= t.
Proof. intros T [t|] H; simpl in H; [|discriminate]. exists t. split; [reflexivity|lia]. Qed.

(** an input that is no new open request keeps every floor, as long as the id stays tracked *)
Lemma floor_kept : forall s o c lo,
  (forall r, o = RecOpen r -> k_cid (o_key r) <> c) ->
  step s o c <> None ->
  ge_opt lo (ts s c) = true -> ge_opt lo (ts (step s o) c) = true.
Proof.
  intros s o c [T|] Hno Hn H; [|reflexivity].
  destruct (ge_opt_some _ _ H) as [t [Ht Hle]].
  destruct (details_persist s o c t Ht Hn Hno) as [t' [Ht' Hle']].
  rewrite Ht'. simpl. apply Z.leb_le. lia.
Qed.

(** an open report with something left raises the floor to its own timestamp *)
Lemma floor_raised : forall s o T m lo,
  open_report o = Some (T, m) ->
  ge_opt lo (ts s (cid_of o)) = true ->
  ge_opt (max_opt lo [T]) (ts (step s o) (cid_of o)) = true.
Proof.
  intros s o T m lo H Hlo.
  destruct (open_report_floor s o T m H) as [t' [Ht' Hle]].
  pose proof (floor_kept s o (cid_of o) lo (open_report_not_recopen o _ _ H)
                (open_report_tracked s o _ H) Hlo) as Hk.
  rewrite Ht' in *. destruct lo as [T0|]; simpl in *; apply Z.leb_le; apply Z.leb_le in Hk || idtac; lia.
Qed.

Lemma max_opt_cons : forall a t l, max_opt a (t :: l) = max_opt (max_opt a [t]) l.
Proof. reflexivity. Qed.

(** a run of open reports for one id *)
Lemma floors_open_reports : forall ops s c need hi,
  Forall (fun o => cid_of o = c /\ open_report o <> None) ops ->
  ge_opt need (ts s c) = true -> ge_opt hi (ts s c) = true ->
  ge_opt (max_opt need (map fst (open_deliveries ops))) (ts (run ops s) c) = true /\
  ge_opt hi (ts (run ops s) c) = true.
Proof.
  induction ops as [|o ops IH]; intros s c need hi Hall Hn Hh; [split; assumption|].
  inversion Hall as [|? ? [Hc Ho] Hrest]; subst.
  destruct (open_report o) as [[T m]|] eqn:E; [|congruence].
  assert (open_deliveries (o :: ops) = (T, m) :: open_deliveries ops) as ->.
  { unfold open_deliveries. simpl. rewrite E. reflexivity. }
  change (map fst ((T, m) :: open_deliveries ops)) with (T :: map fst (open_deliveries ops)).
  change (run (o :: ops) s) with (run ops (step s o)).
  rewrite max_opt_cons. apply IH; auto.
  - apply (floor_raised s o T m need E Hn).
  - apply floor_kept; auto.
    + apply (open_report_not_recopen o _ _ E).
    + apply (open_report_tracked s o _ E).
Qed.

Lemma ord_inputs_cid : forall i c xs o, In o (ord_inputs i c xs) -> cid_of o = c.
Proof.
  intros i c xs o H. unfold ord_inputs in H. apply filter_In in H. destruct H as [_ H].
  apply Z.eqb_eq. exact H.
Qed.

Lemma single_projection : forall x e i c,
  e_ord (estep9 e x) i c = run (ord_inputs i c [x]) (e_ord e i) c.
Proof. intros. exact (order_projection [x] e i c). Qed.

(** one event, one (instrument, id): the oracle's check passes on the model's new state and the
    floors it carries forward hold there *)
Lemma ord_track_model : forall i c st x e,
  ge_opt (fst st) (ts (e_ord e i) c) = true ->
  ge_opt (snd st) (ts (e_ord e i) c) = true ->
  let r := ord_track i c st x (e_ord (estep9 e x) i c) in
  fst r = true /\
  ge_opt (fst (snd r)) (ts (e_ord (estep9 e x) i) c) = true /\
  ge_opt (snd (snd r)) (ts (e_ord (estep9 e x) i) c) = true.
Proof.
  intros i c [need hi] x e Hn Hh. simpl in Hn, Hh. unfold ord_track.
  destruct (e_ord (estep9 e x) i c) as [y|] eqn:Ey.
  2:{ simpl. repeat split; try reflexivity.
      destruct (resets i c x) eqn:Er; [reflexivity|]. simpl.
      destruct (open_deliveries (ord_inputs i c [x])) as [|d ds] eqn:Ed; [reflexivity|].
      exfalso. revert Ey. rewrite single_projection.
      destruct x as [m|bals insts|o|j t k]; try discriminate.
      - simpl in Er. apply negb_false_iff in Er. apply open_reports_tracked.
        + intros E0. rewrite E0 in Ed. discriminate.
        + apply Forall_forall. intros o Ho. split; [eapply ord_inputs_cid; eauto|].
          pose proof (open_only_spec _ Er) as Hall. rewrite Forall_forall in Hall. apply Hall. exact Ho.
      - unfold ord_inputs, inst_inputs in *. simpl in *.
        destruct (Z.eqb (inst_of o) i); simpl in *; [|discriminate].
        destruct (Z.eqb_spec (cid_of o) c) as [Ec|Ec]; simpl in *; [|discriminate].
        unfold open_deliveries in Ed. simpl in Ed.
        destruct (open_report o) as [d0|] eqn:Eo; [|discriminate].
        subst c. apply (open_report_tracked _ o d0 Eo). }
  assert (ht (Some y) = ts (e_ord (estep9 e x) i) c) as Hht.
  { rewrite <- Ey. apply ht_ts. }
  destruct (resets i c x) eqn:Er.
  - simpl. rewrite Hht. repeat split; auto. apply ge_opt_refl.
  - simpl fst. simpl snd.
    assert (ge_opt (max_opt need (map fst (open_deliveries (ord_inputs i c [x]))))
                   (ts (e_ord (estep9 e x) i) c) = true /\
            ge_opt hi (ts (e_ord (estep9 e x) i) c) = true) as [H1 H2].
    { unfold ts. rewrite single_projection. fold (ts (run (ord_inputs i c [x]) (e_ord e i)) c).
      assert (run (ord_inputs i c [x]) (e_ord e i) c <> None) as Htr.
      { rewrite <- single_projection. congruence. }
      destruct x as [m|bals insts|o|j t k].
      - split; assumption.
      - (* full account snapshot: all reports for the id are open reports *)
        simpl in Er. apply negb_false_iff in Er.
        apply floors_open_reports; auto.
        apply Forall_forall. intros o Ho. split; [eapply ord_inputs_cid; eauto|].
        pose proof (open_only_spec _ Er) as Hall. rewrite Forall_forall in Hall. apply Hall. exact Ho.
      - (* one order input *)
        unfold ord_inputs, inst_inputs in *. simpl in *.
        destruct (Z.eqb_spec (inst_of o) i) as [Ei|Ei]; simpl in *; [|split; assumption].
        destruct (Z.eqb_spec (cid_of o) c) as [Ec|Ec]; simpl in *; [|split; assumption].
        assert (forall r, o = RecOpen r -> k_cid (o_key r) <> c) as Hno.
        { intros r ->. unfold inst_of, cid_of in *. simpl in *.
          rewrite <- Ei, <- Ec, !Z.eqb_refl in Er. discriminate. }
        destruct (open_report o) as [[T m0]|] eqn:Eo.
        + subst c. split.
          * exact (floor_raised (e_ord e i) o T m0 need Eo Hn).
          * apply floor_kept; auto.
        + split; apply floor_kept; auto.
      - split; assumption. }
    rewrite Hht, H1, H2. simpl. repeat split; auto.
    destruct (ts (e_ord (estep9 e x) i) c) as [t|] eqn:Et; [|exact H2].
    simpl. apply Z.leb_refl.
Qed.

Lemma insts_eq_nth : forall U e l i0 k,
  insts_eq U e i0 l = true -> (k < length l)%nat ->
  oview_eq U (e_ord e (i0 + Z.of_nat k)) (io_orders (nth k l iobs0)) = true.
Proof.
  intros U e. induction l as [|x l IH]; intros i0 k H Hk; simpl in *; [lia|].
  apply andb_prop in H. destruct H as [H H3]. apply andb_prop in H. destruct H as [_ H2].
  destruct k as [|k].
  - simpl. rewrite Z.add_0_r. exact H2.
  - replace (i0 + Z.of_nat (S k)) with ((i0 + 1) + Z.of_nat k) by lia. apply IH; [exact H3|lia].
Qed.

Lemma corr_run_ord_hist : forall U nb ni k c xs e st os,
  (k < ni)%nat -> In c U ->
  ge_opt (fst st) (ts (e_ord e (Z.of_nat k)) c) = true ->
  ge_opt (snd st) (ts (e_ord e (Z.of_nat k)) c) = true ->
  corr_run U nb ni e xs os = true ->
  ord_hist_ok (Z.of_nat k) c st xs os = true.
Proof.
  intros U nb ni k c. induction xs as [|x xs IH]; intros e st os Hk Hc Hn Hh H;
    destruct os as [|o os]; simpl in *; try discriminate; auto.
  apply andb_prop in H. destruct H as [H Hr]. apply andb_prop in H. destruct H as [Hlen Hobs].
  apply andb_prop in Hlen. destruct Hlen as [_ Hni]. apply Nat.eqb_eq in Hni.
  unfold obs_eq in Hobs. apply andb_prop in Hobs. destruct Hobs as [_ Hi].
  assert (obs_order (Z.of_nat k) c o = e_ord (estep9 e x) (Z.of_nat k) c) as Hcur.
  { unfold obs_order. rewrite Nat2Z.id.
    pose proof (insts_eq_nth U (estep9 e x) (ob_inst o) 0 k Hi ltac:(lia)) as Hv.
    rewrite Z.add_0_l in Hv. apply (oview_lookup U _ _ c Hv Hc). }
  rewrite Hcur.
  destruct (ord_track_model (Z.of_nat k) c st x e Hn Hh) as [H1 [H2 H3]].
  rewrite H1. simpl. apply (IH (estep9 e x)); auto.
Qed.

Lemma episodes_ok_model : forall xs os,
  corr_core xs os = true -> episodes_ok (cids_of xs) xs os = true.
Proof.
  intros xs os H. unfold corr_core in H. unfold episodes_ok. destruct os as [|o os]; [reflexivity|].
  apply forallb_forall. intros k Hk. apply in_seq in Hk.
  apply forallb_forall. intros c Hc.
  apply (corr_run_ord_hist (cids_of xs) (length (ob_bal o)) (length (ob_inst o)) k c xs engine0);
    auto; try lia.
Qed.

Lemma core_sound : forall xs os, corr_core xs os = true -> prop_core xs os = true.
Proof.
  intros xs os H. unfold prop_core. apply andb_true_intro. split.
  - unfold corr_core in H. destruct os as [|o os].
    + destruct xs; [reflexivity|discriminate].
    + apply (corr_run_prop_run _ (length (ob_bal o)) (length (ob_inst o)) xs [] (o :: os)). exact H.
  - apply episodes_ok_model. exact H.
Qed.

Theorem oracle_no_stricter_than_model : forall c, corr_b c = true -> prop_b c = true.
Proof.
  intros [xs os|] H; [|discriminate]. simpl in *.
  destruct (strip9 None xs os) as [[evs l]|]; [|discriminate]. apply core_sound. exact H.
Qed.

(* ---- persist / restore steps ---------------------------------------------------------------------- *)

(** runs are invariant under inserting persist / restore steps anywhere *)
Theorem persist_invariant : forall xs e, fold_left xstep9 xs e = erun9 (evs_of xs) e.
Proof.
  induction xs as [|[x|b] xs IH]; intros e; simpl; auto.
Qed.

(** what the judge runs the model on is the case's step list without its persist steps *)
Lemma strip9_evs : forall xs prev os evs l,
  strip9 prev xs os = Some (evs, l) -> evs = evs_of xs.
Proof.
  induction xs as [|[x|b] xs IH]; intros prev os evs l H; destruct os as [|cur os];
    simpl in H; try discriminate.
  - injection H as <- <-. reflexivity.
  - destruct (strip9 (Some cur) xs os) as [[evs' l']|] eqn:E; [|discriminate].
    injection H as <- <-. simpl. f_equal. eapply IH; eauto.
  - destruct (b && match prev with Some p => obs_eqb p cur | None => true end); [|discriminate].
    simpl. eapply IH; eauto.
Qed.
