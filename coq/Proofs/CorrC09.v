(** The C09 run-time oracle is no stricter than the model: whenever the model reproduces the
    observed engine states ([corr_b]), the observed states satisfy the "latest timestamp wins"
    oracle ([prop_b]) after every event. *)
From BV Require Import Base.Common Model.Timed Proofs.Orders Proofs.Timed Corr.C09.
From Coq Require Import Lia ZifyBool.
Local Open Scope Z_scope.

(* ---- decidable equalities ------------------------------------------------------------------- *)

Lemma zz_eqb_eq : forall a b, zz_eqb a b = true <-> a = b.
Proof.
  intros [a1 a2] [b1 b2]. unfold zz_eqb. simpl. rewrite andb_true_iff, !Z.eqb_eq. split.
  - intros [-> ->]. reflexivity.
  - intros H. injection H as -> ->. auto.
Qed.
Lemma ozz_eqb_eq : forall a b, ozz_eqb a b = true <-> a = b.
Proof.
  intros [a|] [b|]; simpl; try (split; congruence). rewrite zz_eqb_eq. split; congruence.
Qed.
Lemma regb_eqb_eq : forall a b, regb_eqb a b = true <-> a = b.
Proof.
  intros [[t v]|] [[t' v']|]; simpl; try (split; congruence).
  rewrite andb_true_iff, Z.eqb_eq, zz_eqb_eq. split.
  - intros [-> ->]. reflexivity.
  - intros H. injection H as -> ->. auto.
Qed.
Lemma l1_eqb_eq : forall a b, l1_eqb a b = true <-> a = b.
Proof.
  intros [t b1 a1] [t' b2 a2]. unfold l1_eqb. simpl.
  rewrite !andb_true_iff, Z.eqb_eq, !ozz_eqb_eq. split.
  - intros [[-> ->] ->]. reflexivity.
  - intros H. injection H as -> -> ->. auto.
Qed.
Lemma mdata_eqb_eq : forall a b, mdata_eqb a b = true <-> a = b.
Proof.
  intros [l r] [l' r']. unfold mdata_eqb. simpl. rewrite andb_true_iff, l1_eqb_eq, ozz_eqb_eq.
  split.
  - intros [-> ->]. reflexivity.
  - intros H. injection H as -> ->. auto.
Qed.

(* ---- the boolean "latest" test accepts every [is_latest] register ---------------------------------- *)

Lemma latest_b_complete : forall V (eqv : V -> V -> bool) (ds : list (Z * V)) (r : reg V),
  (forall v, eqv v v = true) -> is_latest ds r -> latest_b eqv ds r = true.
Proof.
  intros V eqv ds r Hrefl H. unfold latest_b. destruct r as [[t v]|]; simpl in H.
  - destruct H as [Hin Hall]. apply andb_true_intro. split.
    + apply existsb_exists. exists (t, v). split; [auto|]. simpl. rewrite Z.eqb_refl, Hrefl. reflexivity.
    + apply forallb_forall. intros d Hd. rewrite Forall_forall in Hall. apply Z.leb_le. apply Hall. auto.
  - subst. reflexivity.
Qed.

Lemma zz_eqb_refl : forall v, zz_eqb v v = true.
Proof. intros. apply zz_eqb_eq. reflexivity. Qed.
Lemma l1_eqb_refl : forall v, l1_eqb v v = true.
Proof. intros. apply l1_eqb_eq. reflexivity. Qed.
Lemma meta_eqb_refl : forall v, meta_eqb v v = true.
Proof. intros. apply meta_eqb_eq. reflexivity. Qed.

(* ---- the model's state after a prefix satisfies the oracle -------------------------------------------- *)

Lemma l1_wf_b_spec : forall xs, l1_wf_b xs = true -> l1_wf xs.
Proof.
  intros xs H j t b Hin. unfold l1_wf_b in H. rewrite forallb_forall in H.
  specialize (H _ Hin). simpl in H. apply Z.eqb_eq. exact H.
Qed.

Lemma open_only_spec : forall ops,
  open_only ops = true -> Forall (fun o => open_report o <> None) ops.
Proof.
  intros ops H. apply Forall_forall. intros o Ho. unfold open_only in H.
  rewrite forallb_forall in H. specialize (H o Ho). destruct (open_report o); congruence.
Qed.

Lemma bals_ok_model : forall pre l a,
  bals_eq (erun9 pre engine0) a l = true -> bals_ok pre a l = true.
Proof.
  intros pre. induction l as [|x l IH]; intros a H; simpl in *; [reflexivity|].
  apply andb_prop in H. destruct H as [H1 H2]. rewrite (IH _ H2), andb_true_r.
  apply regb_eqb_eq in H1. rewrite <- H1, balance_projection. simpl.
  apply latest_b_complete; [exact zz_eqb_refl|].
  exact (latest_le (bal_deliveries a pre) None).
Qed.

Lemma oview_lookup : forall U s l c,
  oview_eq U s l = true -> In c U -> olookup l c = s c.
Proof.
  intros U s l c H Hin. unfold oview_eq in H. apply andb_prop in H. destruct H as [_ H].
  rewrite forallb_forall in H. specialize (H c Hin). apply oorder_eqb_eq in H. auto.
Qed.

Lemma inst_ok_model : forall U pre i x,
  mdata_eqb (e_md (erun9 pre engine0) i) (mdata_of x) = true ->
  oview_eq U (e_ord (erun9 pre engine0) i) (io_orders x) = true ->
  inst_ok U pre i x = true.
Proof.
  intros U pre i x Hm Ho. unfold inst_ok. apply mdata_eqb_eq in Hm. rewrite <- Hm.
  apply andb_true_intro. split; [apply andb_true_intro; split|].
  - rewrite trade_projection. simpl.
    apply latest_b_complete; [exact Z.eqb_refl|].
    exact (latest_lt (trade_deliveries i pre) None).
  - destruct (l1_wf_b pre) eqn:Ewf; [|reflexivity].
    pose proof (l1_projection pre engine0 i (l1_wf_b_spec _ Ewf)) as Hp.
    unfold l1reg in Hp at 1. rewrite Hp.
    apply latest_b_complete; [exact l1_eqb_refl|].
    exact (latest_lt (l1_deliveries i pre) (Some (0, l1_default))).
  - apply forallb_forall. intros c Hc.
    destruct (open_only (ord_inputs i c pre)) eqn:Eo; [|reflexivity].
    rewrite (oview_lookup U _ _ c Ho Hc).
    rewrite (order_details_projection pre engine0 i c (open_only_spec _ Eo)). simpl.
    apply latest_b_complete; [exact meta_eqb_refl|].
    exact (latest_le (open_deliveries (ord_inputs i c pre)) None).
Qed.

Lemma insts_ok_model : forall U pre l i,
  insts_eq U (erun9 pre engine0) i l = true -> insts_ok U pre i l = true.
Proof.
  intros U pre. induction l as [|x l IH]; intros i H; simpl in *; [reflexivity|].
  apply andb_prop in H. destruct H as [H H3]. apply andb_prop in H. destruct H as [H1 H2].
  rewrite (IH _ H3), andb_true_r. apply inst_ok_model; auto.
Qed.

Lemma corr_run_prop_run : forall U nb ni xs done os,
  corr_run U nb ni (erun9 (rev done) engine0) xs os = true ->
  prop_run U done xs os = true.
Proof.
  intros U nb ni. induction xs as [|x xs IH]; intros done os H; destruct os as [|o os];
    simpl in *; try discriminate; auto.
  apply andb_prop in H. destruct H as [H Hr]. apply andb_prop in H. destruct H as [_ Hobs].
  assert (estep9 (erun9 (rev done) engine0) x = erun9 (rev done ++ [x]) engine0) as Hstep.
  { unfold erun9. rewrite fold_left_app. reflexivity. }
  rewrite Hstep in Hobs, Hr.
  unfold obs_eq in Hobs. apply andb_prop in Hobs. destruct Hobs as [Hb Hi].
  apply andb_true_intro. split; [apply andb_true_intro; split|].
  - apply bals_ok_model. exact Hb.
  - apply insts_ok_model. exact Hi.
  - apply IH. simpl. exact Hr.
Qed.

Theorem oracle_no_stricter_than_model : forall c, corr_b c = true -> prop_b c = true.
Proof.
  intros [xs os|] H; simpl in *; [|discriminate].
  destruct os as [|o os].
  - destruct xs; [reflexivity|discriminate].
  - apply (corr_run_prop_run _ (length (ob_bal o)) (length (ob_inst o)) xs [] (o :: os)). exact H.
Qed.
