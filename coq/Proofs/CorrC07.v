(** The C07 oracle is no stricter than the model: on every well-formed case on which the events
    observed on the implementation coincide (as a multiset, ties aside) with the operational
    model's ([corr_b]), the property oracle ([prop_b]) accepts.  The bridge is the refinement
    theorem [run_refines_spec]: the operational model's output is a permutation of the
    per-request specification. *)
From BV Require Import Base.Common Model.ExecMgr Proofs.ExecMgr Corr.C07.
From Coq Require Import Permutation ZifyBool.
Local Open Scope N_scope.

(* ---- event_eqb decides equality --------------------------------------------------------------- *)

Lemma err_eqb_eq : forall a b, err_eqb a b = true -> a = b.
Proof. intros [] []; cbn; congruence. Qed.
Lemma err_eqb_refl : forall a, err_eqb a a = true.
Proof. intros []; reflexivity. Qed.

Lemma outcome_eqb_eq : forall a b, outcome_eqb a b = true -> a = b.
Proof.
  intros [| |x| |x] [| |y| |y]; cbn; try congruence; intros H; apply err_eqb_eq in H; now subst.
Qed.
Lemma outcome_eqb_refl : forall a, outcome_eqb a a = true.
Proof. intros [| |x| |x]; cbn; try reflexivity; apply err_eqb_refl. Qed.

Lemma event_eqb_eq : forall a b, event_eqb a b = true -> a = b.
Proof.
  intros [x1 i1 c1 o1 t1] [x2 i2 c2 o2 t2] H. unfold event_eqb in H. cbn in H.
  apply andb_true_iff in H; destruct H as [H Ht].
  apply andb_true_iff in H; destruct H as [H Ho].
  apply andb_true_iff in H; destruct H as [H Hc].
  apply andb_true_iff in H; destruct H as [Hx Hi].
  apply N.eqb_eq in Hx, Hi, Hc, Ht. apply outcome_eqb_eq in Ho. now subst.
Qed.
Lemma event_eqb_refl : forall a, event_eqb a a = true.
Proof.
  intros [x i c o t]. unfold event_eqb. cbn. now rewrite !N.eqb_refl, outcome_eqb_refl.
Qed.

(* ---- mset_eqb is multiset equality --------------------------------------------------------------- *)

Lemma Permutation_filter'' : forall {A} (f : A -> bool) l1 l2,
  Permutation l1 l2 -> Permutation (filter f l1) (filter f l2).
Proof. intros. now apply Permutation_filter'. Qed.

Lemma count_perm : forall e l1 l2, Permutation l1 l2 -> count_ev e l1 = count_ev e l2.
Proof.
  intros e l1 l2 P. unfold count_ev. apply Permutation_length. now apply Permutation_filter'.
Qed.

Lemma perm_mset : forall l1 l2, Permutation l1 l2 -> mset_eqb l1 l2 = true.
Proof.
  intros l1 l2 P. unfold mset_eqb. apply andb_true_iff. split.
  - apply Nat.eqb_eq. now apply Permutation_length.
  - apply forallb_forall. intros e _. apply Nat.eqb_eq. now apply count_perm.
Qed.

Lemma count_pos_in : forall e l, (0 < count_ev e l)%nat -> In e l.
Proof.
  intros e l. unfold count_ev. induction l as [|x t IH]; cbn; [lia|].
  destruct (event_eqb e x) eqn:E; cbn; intros H.
  - left. symmetry. now apply event_eqb_eq.
  - right. now apply IH.
Qed.

Lemma count_cons : forall e x l,
  count_ev e (x :: l) = ((if event_eqb e x then 1 else 0) + count_ev e l)%nat.
Proof. intros. unfold count_ev. cbn. destruct (event_eqb e x); reflexivity. Qed.

Lemma mset_perm : forall l1 l2, mset_eqb l1 l2 = true -> Permutation l1 l2.
Proof.
  induction l1 as [|x t IH]; intros l2 H; unfold mset_eqb in H; apply andb_true_iff in H; destruct H as [Hl Hc].
  - apply Nat.eqb_eq in Hl. destruct l2; [constructor|discriminate].
  - apply Nat.eqb_eq in Hl. rewrite forallb_forall in Hc.
    assert (Hx : In x l2).
    { apply count_pos_in. pose proof (Hc x (or_introl eq_refl)) as E. apply Nat.eqb_eq in E.
      rewrite <- E, count_cons, event_eqb_refl. lia. }
    destruct (in_split x l2 Hx) as [a [b Hab]]. subst l2.
    assert (P : Permutation (x :: a ++ b) (a ++ x :: b)) by apply Permutation_middle.
    eapply Permutation_trans; [|exact P]. constructor. apply IH.
    unfold mset_eqb. apply andb_true_iff. split.
    + apply Nat.eqb_eq. rewrite app_length in *. cbn in Hl. lia.
    + apply forallb_forall. intros e He. apply Nat.eqb_eq.
      pose proof (Hc e (or_intror He)) as E. apply Nat.eqb_eq in E.
      rewrite <- (count_perm e _ _ P) in E. rewrite !count_cons in E. lia.
Qed.

(* ---- stripping ------------------------------------------------------------------------------------ *)

Lemma mem_N_app : forall x a b, mem_N x (a ++ b) = mem_N x a || mem_N x b.
Proof. intros. unfold mem_N. apply existsb_app. Qed.

Lemma strip_app : forall a b l, strip (a ++ b) l = strip b (strip a l).
Proof.
  intros a b l. unfold strip. induction l as [|e t IH]; [reflexivity|].
  cbn [filter]. rewrite mem_N_app.
  destruct (mem_N (e_cid e) a) eqn:Ea; cbn [orb negb].
  - exact IH.
  - cbn [filter]. destruct (mem_N (e_cid e) b) eqn:Eb; cbn [negb]; [exact IH|now rewrite IH].
Qed.

Lemma strip_perm : forall c l1 l2, Permutation l1 l2 -> Permutation (strip c l1) (strip c l2).
Proof. intros. unfold strip. now apply Permutation_filter'. Qed.

Lemma forallb_filter_sub : forall {A} (p f : A -> bool) l, forallb p l = true -> forallb p (filter f l) = true.
Proof.
  intros A p f l H. rewrite forallb_forall in *. intros x Hx. apply filter_In in Hx. apply H. tauto.
Qed.

Theorem C07_oracle_no_stricter_than_model : forall c,
  wf_case c = true -> corr_b c = true -> prop_b c = true.
Proof.
  intros c Hs Hc. unfold wf_case in Hs.
  unfold corr_b in Hc. unfold prop_b.
  set (m := c_mgr c) in *. set (stop := c_stop c) in *. set (script := c_script c) in *.
  destruct (run_refines_spec m stop script Hs) as [P E].
  apply andb_true_iff in Hc; destruct Hc as [Hc Hend].
  apply andb_true_iff in Hc; destruct Hc as [Hc Hties].
  apply andb_true_iff in Hc; destruct Hc as [Hc Hm].
  set (eff := eff_stop m stop script) in *.
  set (ties := filter (is_tie m eff) (taken m stop script)) in *.
  set (bad := map r_cid (filter (fun r => negb (well_behaved r)) script)).
  apply andb_true_iff. split; [apply andb_true_iff; split; [apply andb_true_iff; split|]|].
  - exact Hc.
  - apply perm_mset. rewrite !strip_app. apply strip_perm.
    apply mset_perm in Hm.
    eapply Permutation_trans; [|exact Hm]. apply strip_perm. now apply Permutation_sym.
  - now apply forallb_filter_sub.
  - rewrite E in Hend. destruct (c_end c), (end_of m stop script); cbn in Hend; congruence.
Qed.

(* ---- the account-stream case kind --------------------------------------------------------------- *)

Lemma aobs_eqb_eq : forall a b, aobs_eqb a b = true -> a = b.
Proof.
  intros [x|x ox] [y|y oy]; cbn; try discriminate; intros H.
  - apply N.eqb_eq in H. now subst.
  - apply andb_true_iff in H. destruct H as [H1 H2]. apply N.eqb_eq in H1. apply Bool.eqb_prop in H2. now subst.
Qed.

Lemma list_eqb_eq' : forall {A} (eqb : A -> A -> bool),
  (forall a b, eqb a b = true -> a = b) -> forall l1 l2, list_eqb eqb l1 l2 = true -> l1 = l2.
Proof.
  intros A eqb H. induction l1 as [|x t IH]; intros [|y u] E; cbn in E; try discriminate; [reflexivity|].
  apply andb_true_iff in E. destruct E as [E1 E2]. f_equal; [now apply H|now apply IH].
Qed.

Lemma list_eqb_N_refl' : forall l, list_eqb N.eqb l l = true.
Proof. induction l; cbn; [reflexivity|]. now rewrite N.eqb_refl. Qed.

Lemma notices_obs_model : forall l, notices_obs (aobs_of_model l) = notices_of l.
Proof.
  induction l as [|x t IH]; [reflexivity|]. unfold notices_obs, aobs_of_model, notices_of in *.
  destruct x; cbn [flat_map app]; rewrite ?flat_map_app; cbn [flat_map app]; now rewrite IH.
Qed.

Lemma origins_model : forall l,
  forallb (fun x => match x with ARec _ ok => ok | ASnap _ => true end) (aobs_of_model l) = true.
Proof.
  induction l as [|x t IH]; [reflexivity|]. unfold aobs_of_model in *.
  destruct x; cbn [flat_map app forallb]; try exact IH; rewrite IH; reflexivity.
Qed.

Theorem C07_acct_oracle_no_stricter_than_model : forall c pol sched ao early,
  wf_case c = true -> corr_acct c pol sched ao early = true -> prop_acct c sched ao early = true.
Proof.
  intros c pol sched ao early Hwf H. unfold corr_acct in H. unfold prop_acct.
  apply andb_true_iff in H. destruct H as [H Hl]. apply andb_true_iff in H. destruct H as [Hc He].
  apply (list_eqb_eq' aobs_eqb aobs_eqb_eq) in Hl. subst ao.
  rewrite (C07_oracle_no_stricter_than_model c Hwf Hc), He. cbn [andb].
  rewrite notices_obs_model, notices_of_merged, list_eqb_N_refl'. cbn [andb].
  apply origins_model.
Qed.
