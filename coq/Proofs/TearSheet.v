(** Lemmas about Model/TearSheet.v: what the tear sheet reports is what the closed positions say,
    and the trading summary keeps one independent history per instrument / asset. *)
From Coq Require Import Lia Permutation.
From BV Require Import Model.Stats Proofs.Stats Model.TearSheet.
Open Scope Qc_scope.

(* ---- small facts ------------------------------------------------------------------------------ *)

Lemma Qceqb_true : forall a b : Qc, Qceqb a b = true <-> a = b.
Proof.
  intros a b. unfold Qceqb. rewrite Qeq_bool_iff. split.
  - apply Qc_is_canon.
  - intros ->. reflexivity.
Qed.

Lemma Qceqb_false : forall a b : Qc, Qceqb a b = false <-> a <> b.
Proof.
  intros a b. split.
  - intros H E. apply Qceqb_true in E. congruence.
  - intro H. destruct (Qceqb a b) eqn:E; [|reflexivity]. apply Qceqb_true in E. contradiction.
Qed.

Lemma nQc_nonneg : forall n, 0 <= nQc n.
Proof.
  intro n. destruct n; [rewrite nQc_0; apply Qcle_refl|]. apply Qclt_le_weak, nQc_pos.
Qed.

Lemma nQc_add : forall a b, nQc (a + b) = nQc a + nQc b.
Proof.
  induction a as [|a IH]; intro b.
  - rewrite nQc_0. cbn [Nat.add]. ring.
  - cbn [Nat.add]. rewrite !nQc_S, IH. ring.
Qed.

Lemma qabs_nonneg : forall x, 0 <= x -> qabs x = x.
Proof.
  intros x H. unfold qabs. destruct (Qcltb x 0) eqn:E; [|reflexivity].
  apply Qcltb_true in E. exfalso. unfold Qclt, Qcle in *. exact (Qlt_not_le _ _ E H).
Qed.

Lemma qabs_nonpos : forall x, x <= 0 -> qabs x = - x.
Proof.
  intros x H. unfold qabs. destruct (Qcltb x 0) eqn:E; [reflexivity|].
  apply Qcltb_false in E. assert (x = 0) by (apply Qcle_antisym; assumption). subst x. ring.
Qed.

Lemma filter_split_length : forall {A} (f : A -> bool) l,
  (List.length (filter f l) + List.length (filter (fun x => negb (f x)) l) = List.length l)%nat.
Proof.
  intros A f l. induction l as [|a l IH]; [reflexivity|].
  cbn [filter]. destruct (f a); cbn [negb List.length]; lia.
Qed.

Lemma filter_split_sum : forall (f : Qc -> bool) l,
  sumQc (filter f l) + sumQc (filter (fun x => negb (f x)) l) = sumQc l.
Proof.
  intros f l. induction l as [|a l IH]; [cbn; ring|].
  cbn [filter]. destruct (f a); cbn [negb sumQc]; rewrite <- IH; ring.
Qed.

Lemma sum_nonneg_filter : forall l, 0 <= sumQc (filter nonneg l).
Proof.
  intro l. apply sumQc_nonneg. intros x Hx. apply filter_In in Hx. destruct Hx as [_ H].
  unfold nonneg, is_neg in H. apply negb_true_iff in H. apply Qcltb_false in H. exact H.
Qed.

Lemma sum_nonpos_filter : forall l, sumQc (filter is_neg l) <= 0.
Proof.
  induction l as [|a l IH]; [apply Qcle_refl|].
  cbn [filter]. destruct (is_neg a) eqn:E; [|exact IH].
  cbn [sumQc]. replace 0 with (0 + 0) by ring. apply Qcplus_le_compat; [|exact IH].
  unfold is_neg in E. apply Qcltb_true in E. apply Qclt_le_weak. exact E.
Qed.

(* ---- PnLReturns over a whole history ------------------------------------------------------------------ *)

Lemma pr_fold : forall ps s,
  pr_raw (fold_left pr_update ps s) = pr_raw s + sumQc (map p_pnl ps) /\
  pr_total (fold_left pr_update ps s) = fold_left ds_update (returns ps) (pr_total s) /\
  pr_losses (fold_left pr_update ps s) =
    fold_left ds_update (filter is_neg (returns ps)) (pr_losses s).
Proof.
  induction ps as [|p ps IH]; intro s.
  - cbn. repeat split. ring.
  - cbn [fold_left]. destruct (IH (pr_update s p)) as (H1 & H2 & H3).
    rewrite H1, H2, H3. unfold returns. cbn [map sumQc filter].
    unfold pr_update, pr_update_r. cbn [pr_raw pr_total pr_losses].
    repeat split; [ring|].
    destruct (is_neg (pnl_return p)); reflexivity.
Qed.

Lemma tsg_fold : forall ps g,
  g_start (tsg_run ps g) = g_start g /\
  g_pr (tsg_run ps g) = fold_left pr_update ps (g_pr g).
Proof.
  unfold tsg_run. induction ps as [|p ps IH]; intro g.
  - cbn. auto.
  - cbn [fold_left]. destruct (IH (tsg_update g p)) as (H1 & H2).
    rewrite H1, H2. cbn [tsg_update g_start g_pr]. split; reflexivity.
Qed.

(** the return datasets of the generator are the running summaries of all returns and of the
    negative returns (so, by C17, their whole-dataset statistics) *)
Theorem datasets_of_history : forall ps t,
  pr_total (g_pr (tsg_run ps (tsg_init t))) = ds_run (returns ps) /\
  pr_losses (g_pr (tsg_run ps (tsg_init t))) = ds_run (filter is_neg (returns ps)).
Proof.
  intros ps t. destruct (tsg_fold ps (tsg_init t)) as (_ & ->).
  destruct (pr_fold ps (g_pr (tsg_init t))) as (_ & -> & ->). split; reflexivity.
Qed.

Theorem sheet_pnl : forall ps t,
  sh_pnl (tsg_generate (tsg_run ps (tsg_init t))) = spec_pnl ps.
Proof.
  intros ps t. unfold tsg_generate. cbn [sh_pnl].
  destruct (tsg_fold ps (tsg_init t)) as (_ & ->).
  destruct (pr_fold ps (g_pr (tsg_init t))) as (-> & _). cbn. unfold spec_pnl. ring.
Qed.

Lemma returns_length : forall ps, List.length (returns ps) = List.length ps.
Proof. intro. unfold returns. apply map_length. Qed.

Theorem sheet_win_rate : forall ps t,
  sh_win_rate (tsg_generate (tsg_run ps (tsg_init t))) = spec_win_rate ps.
Proof.
  intros ps t. unfold tsg_generate. cbn [sh_win_rate].
  destruct (datasets_of_history ps t) as (-> & ->).
  destruct (run_closed (returns ps)) as (-> & _).
  destruct (run_closed (filter is_neg (returns ps))) as (-> & _).
  rewrite returns_length.
  pose proof (filter_split_length is_neg (returns ps)) as HL. rewrite returns_length in HL.
  fold nonneg in HL.
  assert (HW : nQc (List.length ps) - nQc (List.length (filter is_neg (returns ps)))
               = nQc (List.length (filter nonneg (returns ps)))).
  { rewrite <- HL at 1. rewrite nQc_add. unfold nonneg. ring. }
  rewrite HW. unfold win_rate_calc, spec_win_rate.
  destruct ps as [|p ps].
  - cbn [List.length]. rewrite nQc_0. reflexivity.
  - cbn [List.length].
    destruct (Qceqb (nQc (S (List.length ps))) 0) eqn:E.
    + apply Qceqb_true in E. exfalso. exact (nQc_nonzero _ E).
    + rewrite !qabs_nonneg by apply nQc_nonneg. reflexivity.
Qed.

Theorem sheet_profit_factor : forall ps t,
  sh_profit_factor (tsg_generate (tsg_run ps (tsg_init t))) = spec_profit_factor ps.
Proof.
  intros ps t. unfold tsg_generate. cbn [sh_profit_factor].
  destruct (datasets_of_history ps t) as (-> & ->).
  destruct (run_closed (returns ps)) as (_ & -> & _).
  destruct (run_closed (filter is_neg (returns ps))) as (_ & -> & _).
  pose proof (filter_split_sum is_neg (returns ps)) as HS. fold nonneg in HS.
  assert (HW : sumQc (returns ps) - sumQc (filter is_neg (returns ps))
               = sumQc (filter nonneg (returns ps))) by (rewrite <- HS; ring).
  rewrite HW. unfold profit_factor_calc, spec_profit_factor.
  set (W := sumQc (filter nonneg (returns ps))).
  set (L := sumQc (filter is_neg (returns ps))).
  destruct (Qceqb W 0) eqn:EW; destruct (Qceqb L 0) eqn:EL; cbn [andb]; try reflexivity.
  rewrite (qabs_nonneg W) by apply sum_nonneg_filter.
  rewrite (qabs_nonpos L) by apply sum_nonpos_filter. reflexivity.
Qed.

(* ---- index maps ------------------------------------------------------------------------------------------ *)

Lemma upd_idx_spec : forall {V} (m : imap V) i f m',
  imap_update_idx m i f = Some m' ->
  forall j, nth_error m' j =
    match nth_error m j with
    | Some (k, v) => Some (k, if Nat.eqb i j then f v else v)
    | None => None
    end.
Proof.
  intros V m. induction m as [|[k v] m IH]; intros i f m' H j.
  - destruct i; discriminate.
  - destruct i as [|i].
    + cbn in H. injection H as <-. destruct j as [|j]; cbn; [reflexivity|].
      destruct (nth_error m j) as [[k' v']|]; reflexivity.
    + cbn [imap_update_idx] in H.
      destruct (imap_update_idx m i f) as [m1|] eqn:E; [|discriminate].
      cbn in H. injection H as <-. destruct j as [|j]; cbn [nth_error Nat.eqb]; [reflexivity|].
      apply (IH _ _ _ E).
Qed.

Lemma upd_key_spec : forall {V} (m : imap V) key f m',
  NoDup (map fst m) -> imap_update_key m key f = Some m' ->
  forall j, nth_error m' j =
    match nth_error m j with
    | Some (k, v) => Some (k, if String.eqb key k then f v else v)
    | None => None
    end.
Proof.
  intros V m. induction m as [|[k v] m IH]; intros key f m' ND H j.
  - discriminate.
  - cbn [map fst] in ND. inversion ND as [|? ? Hnotin ND']; subst.
    cbn [imap_update_key] in H. destruct (String.eqb k key) eqn:E.
    + injection H as <-. apply String.eqb_eq in E. subst key.
      destruct j as [|j]; cbn [nth_error]; [rewrite String.eqb_refl; reflexivity|].
      destruct (nth_error m j) as [[k' v']|] eqn:Ej; [|reflexivity].
      destruct (String.eqb k k') eqn:E'; [|reflexivity].
      apply String.eqb_eq in E'. subst k'. exfalso. apply Hnotin.
      apply nth_error_In in Ej. apply (in_map fst) in Ej. exact Ej.
    + destruct (imap_update_key m key f) as [m1|] eqn:E1; [|discriminate].
      cbn in H. injection H as <-. destruct j as [|j]; cbn [nth_error].
      * rewrite String.eqb_sym, E. reflexivity.
      * apply (IH _ _ _ ND' E1).
Qed.

Lemma keys_of_nth : forall {V} (m m' : imap V),
  (forall j, nth_error m' j = match nth_error m j with Some (k, v) => Some (k, v) | None => None end
             \/ exists k v v', nth_error m j = Some (k, v) /\ nth_error m' j = Some (k, v')) ->
  map fst m' = map fst m.
Proof.
  intros V m. induction m as [|[k v] m IH]; intros m' H.
  - destruct m' as [|x m']; [reflexivity|].
    destruct (H 0%nat) as [H0|(k & v & v' & H0 & _)]; discriminate.
  - destruct m' as [|[k' v'] m'].
    + destruct (H 0%nat) as [H0|(k0 & v0 & v0' & _ & H0)]; discriminate.
    + cbn [map fst]. f_equal.
      * destruct (H 0%nat) as [H0|(k0 & v0 & v0' & H0 & H1)]; cbn in *; congruence.
      * apply IH. intro j. exact (H (S j)).
Qed.

Lemma nth_spec_keys : forall {V} (m m' : imap V) (g : nat -> string -> V -> V),
  (forall j, nth_error m' j =
     match nth_error m j with Some (k, v) => Some (k, g j k v) | None => None end) ->
  map fst m' = map fst m.
Proof.
  intros V m m' g H. apply keys_of_nth. intro j. rewrite H.
  destruct (nth_error m j) as [[k v]|]; [right; eauto|left; reflexivity].
Qed.

(* ---- the trading summary generator ------------------------------------------------------------------------ *)

(** what one update does to the generator stored at position [i] under name [k] *)
Definition step_inst (o : sop) (i : nat) (k : string) (g : tsg) : tsg :=
  match o with
  | SPosIdx j p => if Nat.eqb j i then tsg_update g p else g
  | SPosName key p => if String.eqb key k then tsg_update g p else g
  | _ => g
  end.

Definition step_asset (o : sop) (i : nat) (k : string) (a : agen) : agen :=
  match o with
  | SBalIdx j total free _ => if Nat.eqb j i then Some (total, free) else a
  | SBalKey key total free _ => if String.eqb key k then Some (total, free) else a
  | _ => a
  end.

Lemma same_nth : forall {V} (m : imap V) j,
  nth_error m j = match nth_error m j with Some (k, v) => Some (k, v) | None => None end.
Proof. intros. destruct (nth_error m j) as [[k v]|]; reflexivity. Qed.

Lemma sgen_step_spec : forall s o s',
  NoDup (map fst (sg_insts s)) -> NoDup (map fst (sg_assets s)) ->
  sgen_step s o = Some s' ->
  sg_start s' = sg_start s /\
  (forall j, nth_error (sg_insts s') j =
     match nth_error (sg_insts s) j with
     | Some (k, g) => Some (k, step_inst o j k g) | None => None end) /\
  (forall j, nth_error (sg_assets s') j =
     match nth_error (sg_assets s) j with
     | Some (k, a) => Some (k, step_asset o j k a) | None => None end).
Proof.
  intros s o s' NDi NDa H. destruct o as [i p|key p|i tot fr t|key tot fr t|t]; cbn [sgen_step] in H.
  - destruct (imap_update_idx (sg_insts s) i _) as [m|] eqn:E; [|discriminate].
    cbn in H. injection H as <-. cbn [sg_start sg_insts sg_assets step_inst step_asset].
    repeat split; [|intro j; apply same_nth].
    intro j. apply (upd_idx_spec _ _ _ _ E).
  - destruct (imap_update_key (sg_insts s) key _) as [m|] eqn:E; [|discriminate].
    cbn in H. injection H as <-. cbn [sg_start sg_insts sg_assets step_inst step_asset].
    repeat split; [|intro j; apply same_nth].
    intro j. apply (upd_key_spec _ _ _ _ NDi E).
  - destruct (imap_update_idx (sg_assets s) i _) as [m|] eqn:E; [|discriminate].
    cbn in H. injection H as <-. cbn [sg_start sg_insts sg_assets step_inst step_asset].
    repeat split; [intro j; apply same_nth|].
    intro j. apply (upd_idx_spec _ _ _ _ E).
  - destruct (imap_update_key (sg_assets s) key _) as [m|] eqn:E; [|discriminate].
    cbn in H. injection H as <-. cbn [sg_start sg_insts sg_assets step_inst step_asset].
    repeat split; [intro j; apply same_nth|].
    intro j. apply (upd_key_spec _ _ _ _ NDa E).
  - injection H as <-. cbn [sg_start sg_insts sg_assets step_inst step_asset].
    repeat split; intro j; apply same_nth.
Qed.

(** balance an asset ends with: the last one addressed to it, else what it had *)
Definition bal_of (i : nat) (k : string) (ops : list sop) (a : agen) : agen :=
  fold_left (fun a o => step_asset o i k a) ops a.

Lemma tsg_run_ops_of : forall ops i k g,
  tsg_run (ops_of i k ops) g = fold_left (fun g o => step_inst o i k g) ops g.
Proof.
  unfold tsg_run. induction ops as [|o ops IH]; intros i k g; [reflexivity|].
  destruct o as [j p|key p|j tot fr t|key tot fr t|t]; cbn [ops_of fold_left step_inst]; try apply IH.
  - destruct (Nat.eqb j i); cbn [fold_left]; apply IH.
  - destruct (String.eqb key k); cbn [fold_left]; apply IH.
Qed.

Theorem summary_histories : forall ops s s',
  NoDup (map fst (sg_insts s)) -> NoDup (map fst (sg_assets s)) ->
  sgen_run ops s = Some s' ->
  sg_start s' = sg_start s /\
  (forall j, nth_error (sg_insts s') j =
     match nth_error (sg_insts s) j with
     | Some (k, g) => Some (k, tsg_run (ops_of j k ops) g) | None => None end) /\
  (forall j, nth_error (sg_assets s') j =
     match nth_error (sg_assets s) j with
     | Some (k, a) => Some (k, bal_of j k ops a) | None => None end).
Proof.
  induction ops as [|o ops IH]; intros s s' NDi NDa H.
  - cbn in H. injection H as <-. repeat split; intro j; apply same_nth.
  - cbn [sgen_run] in H. destruct (sgen_step s o) as [s1|] eqn:E; [|discriminate].
    destruct (sgen_step_spec _ _ _ NDi NDa E) as (Hs & Hi & Ha).
    assert (NDi1 : NoDup (map fst (sg_insts s1))).
    { rewrite (nth_spec_keys _ _ (fun j k g => step_inst o j k g) Hi). exact NDi. }
    assert (NDa1 : NoDup (map fst (sg_assets s1))).
    { rewrite (nth_spec_keys _ _ (fun j k a => step_asset o j k a) Ha). exact NDa. }
    destruct (IH _ _ NDi1 NDa1 H) as (Hs' & Hi' & Ha').
    split; [congruence|]. split; intro j.
    + rewrite Hi', Hi. destruct (nth_error (sg_insts s) j) as [[k g]|]; [|reflexivity].
      rewrite !tsg_run_ops_of. reflexivity.
    + rewrite Ha', Ha. destruct (nth_error (sg_assets s) j) as [[k a]|]; reflexivity.
Qed.

(** frame: an update addressed to instrument [i] leaves every other generator, every asset
    and the key order untouched *)
Theorem summary_frame : forall s i p s',
  sgen_step s (SPosIdx i p) = Some s' ->
  sg_assets s' = sg_assets s /\
  forall j, j <> i -> nth_error (sg_insts s') j = nth_error (sg_insts s) j.
Proof.
  intros s i p s' H. cbn [sgen_step] in H.
  destruct (imap_update_idx (sg_insts s) i _) as [m|] eqn:E; [|discriminate].
  cbn in H. injection H as <-. cbn [sg_assets sg_insts]. split; [reflexivity|].
  intros j Hne. rewrite (upd_idx_spec _ _ _ _ E j).
  destruct (nth_error (sg_insts s) j) as [[k v]|]; [|reflexivity].
  destruct (Nat.eqb_spec i j); [congruence|reflexivity].
Qed.

(* ---- init ---------------------------------------------------------------------------------------------------- *)

Lemma imap_insert_fresh : forall {V} (m : imap V) k v,
  ~ In k (map fst m) -> imap_insert m k v = m ++ [(k, v)].
Proof.
  intros V m k v. induction m as [|[k' v'] m IH]; intro H; [reflexivity|].
  cbn [imap_insert]. cbn [map fst In] in H.
  destruct (String.eqb k' k) eqn:E.
  - apply String.eqb_eq in E. exfalso. apply H. left. exact E.
  - cbn [app]. f_equal. apply IH. intro Hin. apply H. right. exact Hin.
Qed.

Lemma imap_collect_acc : forall {V} (l acc : imap V),
  NoDup (map fst (acc ++ l)) ->
  fold_left (fun m kv => imap_insert m (fst kv) (snd kv)) l acc = acc ++ l.
Proof.
  intros V l. induction l as [|[k v] l IH]; intros acc ND.
  - rewrite app_nil_r. reflexivity.
  - cbn [fold_left fst snd]. rewrite imap_insert_fresh.
    + rewrite IH; rewrite <- app_assoc; [reflexivity|exact ND].
    + rewrite map_app in ND. cbn [map fst] in ND. apply NoDup_remove_2 in ND.
      intro Hin. apply ND. apply in_or_app. left. exact Hin.
Qed.

(** with distinct instrument names the generator's map lists the engine's instruments in
    index order, so position [i] of the summary is instrument [i] *)
Theorem imap_collect_nodup : forall {V} (l : imap V), NoDup (map fst l) -> imap_collect l = l.
Proof. intros V l ND. unfold imap_collect. apply (imap_collect_acc l []). exact ND. Qed.

(* ---- persist/restore steps --------------------------------------------------------------------------------- *)

Theorem tsg_persist_invariant : forall ops g, fold_left tsg_step ops g = tsg_run (some_of ops) g.
Proof.
  unfold tsg_run. induction ops as [|[p|] ops IH]; intro g; [reflexivity| |];
    unfold some_of in *; cbn [flat_map fold_left tsg_step app]; apply IH.
Qed.

Theorem sgen_persist_invariant : forall ops s, sgen_run_p ops s = sgen_run (some_of ops) s.
Proof.
  induction ops as [|[o|] ops IH]; intro s; [reflexivity| |]; unfold some_of in *;
    cbn [flat_map sgen_run_p sgen_run app].
  - destruct (sgen_step s o); [apply IH|reflexivity].
  - apply IH.
Qed.

(* ------------------------------------------------------------------------------------------ *)
(** [ProfitFactor::calculate] reads both arguments through [abs]: the sign in which the caller
    passes the gross losses is irrelevant, and the no-data guard looks at each argument alone -
    wins and (signed) losses that cancel exactly give 1, not "no data". *)
Lemma qabs_opp : forall x, qabs (- x) = qabs x.
Proof.
  intros x. destruct (Qclt_le_dec x 0) as [H|H].
  - rewrite (qabs_nonpos x) by (apply Qclt_le_weak; exact H).
    apply qabs_nonneg. apply Qclt_le_weak in H. apply Qcopp_le_compat in H.
    replace (- 0) with 0 in H by ring. exact H.
  - rewrite (qabs_nonneg x) by exact H.
    rewrite qabs_nonpos; [ring|]. apply Qcopp_le_compat in H.
    replace (- 0) with 0 in H by ring. exact H.
Qed.

Lemma Qceqb_opp0 : forall x, Qceqb (- x) 0 = Qceqb x 0.
Proof.
  intros x. destruct (Qceqb x 0) eqn:E.
  - apply Qceqb_true in E. subst x. apply Qceqb_true. ring.
  - apply Qceqb_false in E. apply Qceqb_false. intros H. apply E.
    replace x with (- - x) by ring. rewrite H. ring.
Qed.

Lemma profit_factor_calc_sign : forall p l,
  profit_factor_calc p (- l) = profit_factor_calc p l /\
  profit_factor_calc (- p) l = profit_factor_calc p l.
Proof.
  intros p l. unfold profit_factor_calc. rewrite !Qceqb_opp0, !qabs_opp. split; reflexivity.
Qed.

Lemma profit_factor_calc_cancel : forall p, p <> 0 ->
  profit_factor_calc p (- p) = Some (PFVal 1).
Proof.
  intros p Hp. destruct (profit_factor_calc_sign p p) as [E _]. rewrite E.
  unfold profit_factor_calc. apply Qceqb_false in Hp. rewrite Hp. cbn [andb].
  f_equal. f_equal. field. intros H.
  assert (Hq : qabs p = 0) by exact H.
  unfold qabs in Hq. apply Qceqb_false in Hp. destruct (Qcltb p 0); apply Hp;
    [replace p with (- - p) by ring; rewrite Hq; ring|exact Hq].
Qed.
