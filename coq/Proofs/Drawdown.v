(** Lemmas about Model/Drawdown.v (property C18). *)
From Coq Require Import List ZArith QArith Qcanon Bool Lia Lqa.
From BV Require Import Model.Drawdown.
Import ListNotations.
Local Open Scope Qc_scope.

(* ------------------------------------------------------------------------------------------ *)
(** * Comparisons                                                                               *)

Lemma Qceqb_true x y : Qceqb x y = true <-> x = y.
Proof.
  unfold Qceqb. rewrite Qeq_bool_iff. split; [apply Qc_is_canon|intros ->; reflexivity].
Qed.
Lemma Qceqb_false x y : Qceqb x y = false <-> x <> y.
Proof.
  split.
  - intros H E. apply Qceqb_true in E. congruence.
  - intros H. destruct (Qceqb x y) eqn:E; [|reflexivity]. apply Qceqb_true in E. contradiction.
Qed.
Lemma Qcltb_true x y : Qcltb x y = true <-> x < y.
Proof.
  unfold Qcltb, Qclt. rewrite negb_true_iff. split.
  - intros H. apply Qnot_le_lt. intros Hle. apply Qle_bool_iff in Hle. congruence.
  - intros H. destruct (Qle_bool (this y) (this x)) eqn:E; [|reflexivity].
    apply Qle_bool_iff in E. exfalso. eapply Qlt_not_le; eassumption.
Qed.
Lemma Qcltb_false x y : Qcltb x y = false <-> y <= x.
Proof.
  unfold Qcltb, Qcle. rewrite negb_false_iff. apply Qle_bool_iff.
Qed.

Ltac qord := unfold Qclt, Qcle in *; lra.

Lemma qmax_ge_l x y : x <= qmax x y.
Proof.
  unfold qmax. destruct (Qcltb x y) eqn:E; [apply Qcltb_true in E; qord|apply Qcle_refl].
Qed.
Lemma qmax_ge_r x y : y <= qmax x y.
Proof.
  unfold qmax. destruct (Qcltb x y) eqn:E; [apply Qcle_refl|apply Qcltb_false in E; exact E].
Qed.
Lemma qmax_cases x y : qmax x y = x \/ qmax x y = y.
Proof. unfold qmax. destruct (Qcltb x y); auto. Qed.

(* ------------------------------------------------------------------------------------------ *)
(** * The decomposition under extension of the curve by one point                               *)

Lemma val_app_l pts x i : (i < length pts)%nat -> val (pts ++ [x]) i = val pts i.
Proof. intros H. unfold val. rewrite map_app. apply app_nth1. rewrite map_length. exact H. Qed.
Lemma tim_app_l pts x i : (i < length pts)%nat -> tim (pts ++ [x]) i = tim pts i.
Proof. intros H. unfold tim. rewrite map_app. apply app_nth1. rewrite map_length. exact H. Qed.
Lemma val_app_last pts x : val (pts ++ [x]) (length pts) = snd x.
Proof.
  unfold val. rewrite map_app, app_nth2 by (rewrite map_length; lia).
  rewrite map_length, Nat.sub_diag. reflexivity.
Qed.
Lemma tim_app_last pts x : tim (pts ++ [x]) (length pts) = fst x.
Proof.
  unfold tim. rewrite map_app, app_nth2 by (rewrite map_length; lia).
  rewrite map_length, Nat.sub_diag. reflexivity.
Qed.

Lemma is_peak_app_l pts x i : (i < length pts)%nat -> is_peak_b (pts ++ [x]) i = is_peak_b pts i.
Proof.
  intros H. unfold is_peak_b. rewrite val_app_l by exact H.
  rewrite map_app, firstn_app, map_length.
  replace (i - length pts)%nat with 0%nat by lia. cbn [firstn]. rewrite app_nil_r. reflexivity.
Qed.
Lemma is_peak_app_last pts x :
  is_peak_b (pts ++ [x]) (length pts) = forallb (fun y => Qcltb y (snd x)) (map snd pts).
Proof.
  unfold is_peak_b. rewrite val_app_last, map_app, firstn_app, map_length, Nat.sub_diag.
  cbn [firstn]. rewrite app_nil_r. rewrite <- (map_length snd pts) at 1. rewrite firstn_all.
  reflexivity.
Qed.

Lemma peaks_lt pts i : In i (peaks pts) -> (i < length pts)%nat.
Proof. unfold peaks. intros H. apply filter_In in H as [H _]. apply in_seq in H. lia. Qed.

Lemma peaks_app pts x :
  peaks (pts ++ [x]) =
  peaks pts ++ (if forallb (fun y => Qcltb y (snd x)) (map snd pts) then [length pts] else []).
Proof.
  unfold peaks. rewrite app_length. cbn [length]. rewrite Nat.add_1_r, seq_S, filter_app.
  f_equal.
  - apply filter_ext_in. intros i Hi. apply in_seq in Hi. apply is_peak_app_l. lia.
  - cbn [filter Nat.add]. rewrite is_peak_app_last. reflexivity.
Qed.

Lemma decline_app_l pts x p j :
  (p < length pts)%nat -> (j < length pts)%nat -> decline (pts ++ [x]) p j = decline pts p j.
Proof. intros Hp Hj. unfold decline. rewrite !val_app_l by assumption. reflexivity. Qed.

Lemma depth_app_l pts x p q : (q <= length pts)%nat -> depth (pts ++ [x]) p q = depth pts p q.
Proof.
  intros Hq. unfold depth. f_equal. apply map_ext_in. intros j Hj. apply in_seq in Hj.
  apply decline_app_l; lia.
Qed.

Lemma depth_app_last pts x p : (p < length pts)%nat ->
  depth (pts ++ [x]) p (S (length pts)) =
  qmax (depth pts p (length pts)) ((val pts p - snd x) / val pts p).
Proof.
  intros Hp. unfold depth.
  replace (S (length pts) - S p)%nat with (S (length pts - S p)) by lia.
  rewrite seq_S, map_app, fold_left_app. cbn [map fold_left].
  replace (S p + (length pts - S p))%nat with (length pts) by lia.
  f_equal.
  - f_equal. apply map_ext_in. intros j Hj. apply in_seq in Hj. apply decline_app_l; lia.
  - unfold decline. rewrite val_app_l by exact Hp. rewrite val_app_last. reflexivity.
Qed.

Lemma last_opt_snoc {A} (l : list A) a : last_opt (l ++ [a]) = Some a.
Proof.
  induction l as [|b l IH]; [reflexivity|].
  cbn [app]. destruct (l ++ [a]) eqn:E.
  - destruct l; discriminate.
  - cbn [last_opt]. exact IH.
Qed.

Lemma pairs_adj_snoc l q :
  pairs_adj (l ++ [q]) =
  pairs_adj l ++ match last_opt l with Some p => [(p, q)] | None => [] end.
Proof.
  induction l as [|a l IH]; [reflexivity|].
  destruct l as [|b l].
  - reflexivity.
  - cbn [app] in *.
    change (pairs_adj (a :: b :: l ++ [q])) with ((a, b) :: pairs_adj (b :: l ++ [q])).
    rewrite IH.
    change (last_opt (a :: b :: l)) with (last_opt (b :: l)).
    change (pairs_adj (a :: b :: l)) with ((a, b) :: pairs_adj (b :: l)).
    reflexivity.
Qed.

Lemma pairs_adj_in l a b : In (a, b) (pairs_adj l) -> In a l /\ In b l.
Proof.
  induction l as [|x l IH]; [intros []|].
  destruct l as [|y l]; [intros []|].
  cbn [pairs_adj]. intros [H|H].
  - inversion H; subst. split; [left; reflexivity|right; left; reflexivity].
  - apply IH in H as [Ha Hb]. split; right; assumption.
Qed.

Lemma completed_app pts x :
  completed (pts ++ [x]) =
  completed pts ++
  (if forallb (fun y => Qcltb y (snd x)) (map snd pts) then
     match last_opt (peaks pts) with
     | Some p => filter nonzero [seg_dd pts p (length pts) (fst x)]
     | None => []
     end
   else []).
Proof.
  unfold completed. rewrite peaks_app.
  assert (Hstable : forall l, (forall a b, In (a, b) l -> (a < length pts)%nat /\ (b < length pts)%nat) ->
     map (fun pq => seg_dd (pts ++ [x]) (fst pq) (snd pq) (tim (pts ++ [x]) (snd pq))) l =
     map (fun pq => seg_dd pts (fst pq) (snd pq) (tim pts (snd pq))) l).
  { intros l Hl. apply map_ext_in. intros [a b] Hab. apply Hl in Hab as [Ha Hb]. cbn [fst snd].
    unfold seg_dd. rewrite depth_app_l by lia. rewrite !tim_app_l by assumption. reflexivity. }
  assert (Hpk : forall a b, In (a, b) (pairs_adj (peaks pts)) ->
                            (a < length pts)%nat /\ (b < length pts)%nat).
  { intros a b H. apply pairs_adj_in in H as [Ha Hb]. split; apply peaks_lt; assumption. }
  destruct (forallb (fun y => Qcltb y (snd x)) (map snd pts)).
  - rewrite pairs_adj_snoc, map_app, filter_app. rewrite Hstable by exact Hpk. f_equal.
    destruct (last_opt (peaks pts)) as [p|] eqn:Hl; [|reflexivity].
    assert (Hp : (p < length pts)%nat).
    { apply peaks_lt. clear - Hl. induction (peaks pts) as [|a l IH]; [discriminate|].
      destruct l; [inversion Hl; left; reflexivity|right; apply IH; exact Hl]. }
    cbn [map fst snd]. unfold seg_dd. rewrite depth_app_l by lia.
    rewrite tim_app_l by exact Hp. rewrite tim_app_last. reflexivity.
  - rewrite !app_nil_r. rewrite Hstable by exact Hpk. reflexivity.
Qed.

(* ------------------------------------------------------------------------------------------ *)
(** * DrawdownGenerator refines the decomposition                                               *)

Lemma last_opt_in {A} (l : list A) a : last_opt l = Some a -> In a l.
Proof.
  induction l as [|b l IH]; [discriminate|].
  destruct l; [intros H; inversion H; left; reflexivity|intros H; right; apply IH; exact H].
Qed.

(** what the generator state means after consuming the (non-empty) curve [pts] *)
Definition Inv (pts : list pt) (g : ddgen) : Prop :=
  exists p, last_opt (peaks pts) = Some p /\ (p < length pts)%nat /\
    g_peak g = Some (val pts p) /\ g_tpeak g = Some (tim pts p) /\
    g_ddmax g = depth pts p (length pts) /\ g_now g = tim pts (length pts - 1) /\
    (forall y, In y (map snd pts) -> y <= val pts p) /\ 0 < val pts p.

Lemma Inv_init x : 0 < snd x -> Inv [x] (gen_init x).
Proof.
  intros Hx. exists 0%nat. destruct x as [t v]. cbn [snd] in Hx.
  repeat split; try reflexivity.
  - cbn; lia.
  - intros y [<-|[]]. apply Qcle_refl.
  - exact Hx.
Qed.

Lemma Inv_generate pts g : Inv pts g -> gen_generate g = current pts.
Proof.
  intros (p & Hl & Hp & Hpk & Htp & Hdd & Hnow & _).
  unfold gen_generate, current. rewrite Htp, Hl. unfold nonzero, seg_dd. cbn [dd_value].
  rewrite Hdd, Hnow. destruct (Qceqb (depth pts p (length pts)) 0); reflexivity.
Qed.

Lemma Inv_step pts g x : Inv pts g ->
  Inv (pts ++ [x]) (fst (gen_update g x)) /\
  completed (pts ++ [x]) = completed pts ++ opt_list (snd (gen_update g x)).
Proof.
  intros (p & Hl & Hp & Hpk & Htp & Hdd & Hnow & Hall & Hpos).
  assert (Hin : In (val pts p) (map snd pts)).
  { unfold val. apply nth_In. rewrite map_length. exact Hp. }
  assert (Hlen : length (pts ++ [x]) = S (length pts)) by (rewrite app_length; cbn; lia).
  rewrite completed_app. unfold gen_update. rewrite Hpk.
  destruct (Qcltb (val pts p) (snd x)) eqn:Hnew.
  - (* new peak *)
    apply Qcltb_true in Hnew.
    assert (Hfa : forallb (fun y => Qcltb y (snd x)) (map snd pts) = true).
    { apply forallb_forall. intros y Hy. apply Qcltb_true. apply Hall in Hy. qord. }
    rewrite Hfa, Hl. cbn [fst snd]. split.
    + exists (length pts). rewrite peaks_app, Hfa, last_opt_snoc, Hlen.
      cbn [g_peak g_tpeak g_ddmax g_now].
      rewrite val_app_last, tim_app_last.
      replace (S (length pts) - 1)%nat with (length pts) by lia. rewrite tim_app_last.
      repeat split; try reflexivity.
      * lia.
      * unfold depth. rewrite Nat.sub_diag. reflexivity.
      * intros y Hy. rewrite map_app in Hy. apply in_app_or in Hy as [Hy|[<-|[]]].
        -- apply Hall in Hy. qord.
        -- apply Qcle_refl.
      * qord.
    + f_equal. unfold gen_generate. cbn [g_tpeak g_ddmax g_now]. rewrite Htp.
      cbn [filter]. unfold nonzero, seg_dd. cbn [dd_value]. rewrite Hdd.
      destruct (Qceqb (depth pts p (length pts)) 0); reflexivity.
  - (* not above the peak *)
    assert (Hfa : forallb (fun y => Qcltb y (snd x)) (map snd pts) = false).
    { destruct (forallb (fun y => Qcltb y (snd x)) (map snd pts)) eqn:E; [|reflexivity].
      rewrite forallb_forall in E. specialize (E _ Hin). congruence. }
    rewrite Hfa. unfold checked_div.
    assert (Hnz : Qceqb (val pts p) 0 = false).
    { apply Qceqb_false. intros E. rewrite E in Hpos. exact (Qlt_irrefl _ Hpos). }
    rewrite Hnz. cbn [fst snd opt_list]. rewrite app_nil_r. split; [|reflexivity].
    exists p. rewrite peaks_app, Hfa, app_nil_r, Hlen. cbn [g_peak g_tpeak g_ddmax g_now].
    rewrite val_app_l, tim_app_l by exact Hp.
    replace (S (length pts) - 1)%nat with (length pts) by lia. rewrite tim_app_last.
    rewrite depth_app_last by exact Hp. rewrite Hdd.
    apply Qcltb_false in Hnew.
    repeat split; try reflexivity; try assumption.
    + lia.
    + intros y Hy. rewrite map_app in Hy. apply in_app_or in Hy as [Hy|[<-|[]]].
      * apply Hall. exact Hy.
      * exact Hnew.
Qed.

Lemma gen_run_snoc g pts x : gen_run g (pts ++ [x]) = gen_step (gen_run g pts) x.
Proof. unfold gen_run. rewrite fold_left_app. reflexivity. Qed.

Lemma gen_run_refines x pts : 0 < snd x ->
  Inv (x :: pts) (fst (gen_run (gen_init x) pts)) /\
  snd (gen_run (gen_init x) pts) = completed (x :: pts).
Proof.
  intros Hx. induction pts as [|y pts IH] using rev_ind.
  - split; [apply Inv_init; exact Hx|reflexivity].
  - destruct IH as [HI He]. rewrite gen_run_snoc. unfold gen_step.
    destruct (Inv_step _ _ y HI) as [HI' Hc].
    destruct (gen_update (fst (gen_run (gen_init x) pts)) y) as [g' o] eqn:Hu.
    cbn [fst snd] in *. rewrite app_comm_cons. split; [exact HI'|].
    rewrite Hc, He. reflexivity.
Qed.

(** a generator created by [default()] behaves, from its first point on, like [init(point)] *)
Lemma gen_run_default x pts : gen_run gen_default (x :: pts) = gen_run (gen_init x) pts.
Proof. destruct x as [t v]. reflexivity. Qed.

Theorem generator_is_decomposition x pts : 0 < snd x ->
  let r := gen_run (gen_init x) pts in
  snd r = completed (x :: pts) /\ gen_generate (fst r) = current (x :: pts).
Proof.
  intros Hx. destruct (gen_run_refines x pts Hx) as [HI He]. split; [exact He|].
  apply Inv_generate. exact HI.
Qed.

(** [generate] does not change the state of a [DrawdownGenerator] (by definition: a function of
    the state), and reading the full state: *)
Theorem generator_state x pts : 0 < snd x ->
  let g := fst (gen_run (gen_init x) pts) in
  exists p, last_opt (peaks (x :: pts)) = Some p /\
    g_peak g = Some (val (x :: pts) p) /\ g_tpeak g = Some (tim (x :: pts) p) /\
    g_ddmax g = depth (x :: pts) p (length (x :: pts)) /\
    g_now g = tim (x :: pts) (length pts).
Proof.
  intros Hx. destruct (gen_run_refines x pts Hx) as [(p & Hl & Hp & Hpk & Htp & Hdd & Hnow & _) _].
  exists p. cbn [length] in Hnow. rewrite Nat.sub_1_r in Hnow. cbn [Nat.pred] in Hnow.
  repeat split; assumption.
Qed.

(** What the code does when the running maximum is NOT positive (excluded by the property):
    with peak = 0, [checked_div] returns None; with peak < 0 the quotient (peak - v)/peak is
    <= 0. Either way [drawdown_max] stays 0 and nothing is ever reported until a positive peak
    is reached. *)
Lemma nonpositive_peak_silent g x p :
  g_peak g = Some p -> p <= 0 -> g_ddmax g = 0 -> snd x <= p ->
  g_ddmax (fst (gen_update g x)) = 0 /\ snd (gen_update g x) = None /\
  g_peak (fst (gen_update g x)) = Some p.
Proof.
  intros Hp Hle Hdd Hx. unfold gen_update. rewrite Hp.
  assert (Hnew : Qcltb p (snd x) = false) by (apply Qcltb_false; exact Hx).
  rewrite Hnew. unfold checked_div. destruct (Qceqb p 0) eqn:Hz.
  - cbn [fst snd g_ddmax g_peak]. auto.
  - cbn [fst snd g_ddmax g_peak]. rewrite Hdd.
    assert (Hq : Qcltb 0 ((p - snd x) / p) = false).
    { apply Qcltb_false. apply Qceqb_false in Hz.
      assert (Hlt : p < 0).
      { apply Qcle_lt_or_eq in Hle as [H|H]; [exact H|contradiction]. }
      assert (Hnn : 0 <= p - snd x) by (apply Qcle_minus_iff in Hx; exact Hx).
      destruct (Qclt_le_dec 0 ((p - snd x) / p)) as [H|H]; [exfalso|exact H].
      assert (Hm : (p - snd x) / p * p = p - snd x) by (field; exact Hz).
      assert (Hn : p * ((p - snd x) / p) < 0 * ((p - snd x) / p)).
      { apply Qcmult_lt_compat_r; assumption. }
      rewrite Qcmult_0_l, Qcmult_comm, Hm in Hn. qord. }
    rewrite Hq. auto.
Qed.

(* ------------------------------------------------------------------------------------------ *)
(** * What the decomposition means (sanity of the specification)                                *)

Lemma nth_firstn_lt {A} (l : list A) i j d : (j < i)%nat -> (i <= length l)%nat ->
  nth j (firstn i l) d = nth j l d.
Proof.
  intros Hj Hi. rewrite <- (firstn_skipn i l) at 2. symmetry. apply app_nth1.
  rewrite firstn_length_le by exact Hi. exact Hj.
Qed.

(** index [i] is a peak iff its value strictly exceeds every earlier value *)
Lemma is_peak_spec pts i : (i < length pts)%nat ->
  (is_peak_b pts i = true <-> forall j, (j < i)%nat -> val pts j < val pts i).
Proof.
  intros Hi. unfold is_peak_b. rewrite forallb_forall.
  assert (Hl : (i <= length (map snd pts))%nat) by (rewrite map_length; lia).
  split.
  - intros H j Hj. apply Qcltb_true. apply H. unfold val at 1.
    rewrite <- (nth_firstn_lt _ i j) by assumption. apply nth_In.
    rewrite firstn_length_le by exact Hl. exact Hj.
  - intros H y Hy. apply (In_nth _ _ 0) in Hy as (j & Hj & <-).
    rewrite firstn_length_le in Hj by exact Hl. rewrite nth_firstn_lt by assumption.
    apply Qcltb_true. apply H. exact Hj.
Qed.

Lemma fold_qmax_spec l a :
  a <= fold_left qmax l a /\ (forall y, In y l -> y <= fold_left qmax l a) /\
  (fold_left qmax l a = a \/ In (fold_left qmax l a) l).
Proof.
  revert a. induction l as [|x l IH]; intros a.
  - cbn. split; [apply Qcle_refl|]. split; [intros y []|left; reflexivity].
  - cbn [fold_left]. destruct (IH (qmax a x)) as (H1 & H2 & H3). split; [|split].
    + eapply Qcle_trans; [apply qmax_ge_l|exact H1].
    + intros y [<-|Hy]; [eapply Qcle_trans; [apply qmax_ge_r|exact H1]|apply H2; exact Hy].
    + destruct H3 as [H3|H3]; [|right; right; exact H3].
      rewrite H3. destruct (qmax_cases a x) as [E|E]; rewrite E; [left; reflexivity|right; left; reflexivity].
Qed.

(** the depth of a segment is the largest relative decline inside it (0 if there is none) *)
Lemma depth_spec pts p q :
  0 <= depth pts p q /\
  (forall j, (p < j < q)%nat -> decline pts p j <= depth pts p q) /\
  (depth pts p q = 0 \/ exists j, (p < j < q)%nat /\ depth pts p q = decline pts p j).
Proof.
  unfold depth. destruct (fold_qmax_spec (map (decline pts p) (seq (S p) (q - S p))) 0) as (H1 & H2 & H3).
  split; [exact H1|]. split.
  - intros j Hj. apply H2. apply in_map. apply in_seq. lia.
  - destruct H3 as [H3|H3]; [left; exact H3|right].
    apply in_map_iff in H3 as (j & Hj & Hin). apply in_seq in Hin. exists j. split; [lia|].
    symmetry. exact Hj.
Qed.

(* ------------------------------------------------------------------------------------------ *)
(** * MaxDrawdownGenerator                                                                      *)

Lemma max_run_snoc m ds d : max_run m (ds ++ [d]) = max_update (max_run m ds) d.
Proof. unfold max_run. rewrite fold_left_app. reflexivity. Qed.

Lemma first_max_step hist c d :
  first_max hist c ->
  first_max (hist ++ [d]) (if Qcltb (Qcabs (dd_value c)) (Qcabs (dd_value d)) then d else c).
Proof.
  intros (l1 & l2 & -> & H1 & H2).
  destruct (Qcltb (Qcabs (dd_value c)) (Qcabs (dd_value d))) eqn:E.
  - apply Qcltb_true in E. exists (l1 ++ c :: l2), []. split; [reflexivity|]. split; [|intros e []].
    intros e He. apply in_app_or in He as [He|[<-|He]].
    + apply H1 in He. qord.
    + exact E.
    + apply H2 in He. qord.
  - apply Qcltb_false in E. exists l1, (l2 ++ [d]). split; [rewrite <- app_assoc; reflexivity|].
    split; [exact H1|]. intros e He. apply in_app_or in He as [He|[<-|[]]]; [apply H2; exact He|exact E].
Qed.

Lemma max_run_first_max d0 ds : exists d, max_run (Some d0) ds = Some d /\ first_max (d0 :: ds) d.
Proof.
  induction ds as [|e ds IH] using rev_ind.
  - exists d0. split; [reflexivity|]. exists [], []. split; [reflexivity|]. split; intros e [].
  - destruct IH as (c & Hc & Hf). rewrite max_run_snoc, Hc. eexists. split; [reflexivity|].
    rewrite app_comm_cons. apply first_max_step. exact Hf.
Qed.

Theorem max_is_first_largest :
  max_run None [] = None /\
  (forall d0 ds, max_run None (d0 :: ds) = max_run (Some d0) ds) /\
  (forall d0 ds, exists d, max_run (Some d0) ds = Some d /\ first_max (d0 :: ds) d).
Proof. split; [reflexivity|]. split; [reflexivity|]. exact max_run_first_max. Qed.

(** [first_max] determines its element, and the executable [first_max_f] computes it *)
Lemma first_max_unique ds d d' : first_max ds d -> first_max ds d' -> d = d'.
Proof.
  intros (l1 & l2 & E & H1 & H2) (l1' & l2' & E' & H1' & H2'). subst ds.
  revert l1' E' H1'. induction l1 as [|a l1 IH]; intros l1' E' H1'.
  - destruct l1' as [|a' l1'].
    + inversion E'; reflexivity.
    + cbn in E'. inversion E'; subst a'. exfalso.
      assert (Ha : Qcabs (dd_value d) < Qcabs (dd_value d')) by (apply H1'; left; reflexivity).
      assert (Hb : Qcabs (dd_value d') <= Qcabs (dd_value d)).
      { apply H2. rewrite H3. apply in_or_app. right. left. reflexivity. }
      qord.
  - destruct l1' as [|a' l1'].
    + cbn in E'. inversion E'; subst a. exfalso.
      assert (Ha : Qcabs (dd_value d') < Qcabs (dd_value d)) by (apply H1; left; reflexivity).
      assert (Hb : Qcabs (dd_value d) <= Qcabs (dd_value d')).
      { apply H2'. rewrite <- H3. apply in_or_app. right. left. reflexivity. }
      qord.
    + cbn in E'. inversion E'; subst a'. apply (IH (fun e He => H1 e (or_intror He)) l1' H3).
      intros e He. apply H1'. right. exact He.
Qed.

Lemma largest_abs_spec ds :
  (forall e, In e ds -> Qcabs (dd_value e) <= largest_abs ds) /\
  (largest_abs ds = 0 \/ exists e, In e ds /\ largest_abs ds = Qcabs (dd_value e)).
Proof.
  unfold largest_abs.
  destruct (fold_qmax_spec (map (fun d => Qcabs (dd_value d)) ds) 0) as (_ & H2 & H3). split.
  - intros e He. apply H2. apply (in_map (fun d => Qcabs (dd_value d))). exact He.
  - destruct H3 as [H3|H3]; [left; exact H3|right]. apply in_map_iff in H3 as (e & He & Hin).
    exists e. split; [exact Hin|symmetry; exact He].
Qed.

Lemma Qcabs_nonneg x : 0 <= Qcabs x.
Proof.
  unfold Qcabs. destruct (Qcltb x 0) eqn:E.
  - apply Qcltb_true in E. change 0 with (- 0). apply Qcopp_le_compat. qord.
  - apply Qcltb_false in E. exact E.
Qed.

Lemma first_max_f_complete ds d : first_max ds d -> first_max_f ds = Some d.
Proof.
  intros (l1 & l2 & E & H1 & H2).
  assert (HL : largest_abs ds = Qcabs (dd_value d)).
  { destruct (largest_abs_spec ds) as [Hub Hatt].
    assert (Hd : Qcabs (dd_value d) <= largest_abs ds).
    { apply Hub. rewrite E. apply in_or_app. right. left. reflexivity. }
    apply Qcle_antisym; [|exact Hd].
    destruct Hatt as [Hz|(e & He & Hz)].
    - rewrite Hz. rewrite Hz in Hd. pose proof (Qcabs_nonneg (dd_value d)). qord.
    - rewrite Hz. rewrite E in He. apply in_app_or in He as [He|[<-|He]].
      + apply H1 in He. qord.
      + apply Qcle_refl.
      + apply H2. exact He. }
  unfold first_max_f. rewrite HL. rewrite E. clear E HL H2.
  induction l1 as [|a l1 IH].
  - cbn [app find]. replace (Qceqb (Qcabs (dd_value d)) (Qcabs (dd_value d))) with true; [reflexivity|].
    symmetry. apply Qceqb_true. reflexivity.
  - cbn [app find].
    replace (Qceqb (Qcabs (dd_value a)) (Qcabs (dd_value d))) with false.
    + apply IH. intros e He. apply H1. right. exact He.
    + symmetry. apply Qceqb_false. intros Ea.
      assert (Hlt : Qcabs (dd_value a) < Qcabs (dd_value d)) by (apply H1; left; reflexivity).
      rewrite Ea in Hlt. exact (Qlt_irrefl _ Hlt).
Qed.

(* ------------------------------------------------------------------------------------------ *)
(** * MeanDrawdownGenerator                                                                     *)

Lemma QcofZ_plus a b : QcofZ (a + b) = QcofZ a + QcofZ b.
Proof.
  apply Qc_is_canon. unfold QcofZ, Qcplus. cbn [this Q2Qc]. rewrite !Qred_correct.
  rewrite inject_Z_plus. reflexivity.
Qed.
Lemma QcofZ_1 : QcofZ 1 = 1.
Proof. reflexivity. Qed.
Lemma QcofZ_nonzero c : c <> 0%Z -> QcofZ c <> 0.
Proof.
  intros Hc E. unfold QcofZ in E. apply Q2Qc_eq_iff in E. unfold Qeq, inject_Z in E.
  cbn [Qnum Qden] in E. lia.
Qed.

Lemma sum_depth_snoc ds d : sum_depth (ds ++ [d]) = sum_depth ds + dd_value d.
Proof.
  induction ds as [|e ds IH]; cbn [app sum_depth fold_right].
  - ring.
  - fold (sum_depth (ds ++ [d])). fold (sum_depth ds). rewrite IH. ring.
Qed.
Lemma sum_ms_snoc ds d : sum_ms (ds ++ [d]) = (sum_ms ds + dd_ms d)%Z.
Proof.
  induction ds as [|e ds IH]; cbn [app sum_ms fold_right].
  - lia.
  - fold (sum_ms (ds ++ [d])). fold (sum_ms ds). rewrite IH. lia.
Qed.
Lemma len_snoc ds d : len (ds ++ [d]) = (len ds + 1)%Z.
Proof. unfold len. rewrite app_length. cbn [length]. lia. Qed.

Lemma mean_run_snoc g ds d : mean_run g (ds ++ [d]) = mean_update (mean_run g ds) d.
Proof. unfold mean_run. rewrite fold_left_app. reflexivity. Qed.

(** one truncating integer-mean step: the scaled error moves by one remainder *)
Lemma welford_z_error k m s x : (1 <= k)%Z ->
  (2 * Z.abs (k * m - s) <= k * (k - 1))%Z ->
  (2 * Z.abs ((k + 1) * welford_z m x (k + 1) - (s + x)) <= (k + 1) * (k + 1 - 1))%Z.
Proof.
  intros Hk He. unfold welford_z.
  pose proof (Z.quot_rem' (x - m) (k + 1)) as Hqr.
  assert (Hr : (Z.abs (Z.rem (x - m) (k + 1)) < Z.abs (k + 1))%Z) by (apply Z.rem_bound_abs; lia).
  set (qq := Z.quot (x - m) (k + 1)) in *. set (r := Z.rem (x - m) (k + 1)) in *.
  replace ((k + 1) * (m + qq) - (s + x))%Z with ((k * m - s) - r)%Z by lia.
  nia.
Qed.

Lemma mean_run_default ds : ds <> [] ->
  exists m, mean_run mean_default ds = mkMG (len ds) (Some m) /\ is_mean_of ds m.
Proof.
  induction ds as [|d ds IH] using rev_ind; [congruence|]. intros _.
  destruct ds as [|d0 ds'].
  - exists (mkMean (dd_value d) (dd_ms d)). split; [reflexivity|]. unfold is_mean_of.
    cbn [app len length sum_depth sum_ms fold_right m_depth m_ms Z.of_nat Pos.of_succ_nat].
    split; [rewrite QcofZ_1; ring|lia].
  - destruct IH as (m & Hm & Hd & Hz); [discriminate|].
    set (ds := d0 :: ds') in *.
    assert (Hlen : (1 <= len ds)%Z) by (unfold len, ds; cbn [length]; lia).
    rewrite mean_run_snoc, Hm. unfold mean_update. cbn [mg_count mg_mean].
    eexists. split; [rewrite len_snoc; reflexivity|].
    unfold is_mean_of. cbn [m_depth m_ms]. rewrite len_snoc, sum_depth_snoc, sum_ms_snoc. split.
    + unfold welford_q. rewrite <- Hd. rewrite QcofZ_plus, QcofZ_1.
      assert (Hnz : QcofZ (len ds) + 1 <> 0).
      { rewrite <- QcofZ_1, <- QcofZ_plus. apply QcofZ_nonzero. lia. }
      field. exact Hnz.
    + apply welford_z_error; assumption.
Qed.

Theorem mean_is_average :
  mean_run mean_default [] = mkMG 0 None /\
  (forall d0 ds, mean_run (mean_init d0) ds = mean_run mean_default (d0 :: ds)) /\
  (forall ds, ds <> [] ->
     exists m, mean_run mean_default ds = mkMG (len ds) (Some m) /\ is_mean_of ds m).
Proof. split; [reflexivity|]. split; [reflexivity|]. exact mean_run_default. Qed.

(** [is_mean_of] read as quotients: depth = sum / n exactly; |ms - sum/n| <= (n-1)/2 *)
Lemma is_mean_of_depth ds m : ds <> [] -> is_mean_of ds m ->
  m_depth m = sum_depth ds / QcofZ (len ds).
Proof.
  intros Hne [Hd _]. rewrite <- Hd. field. apply QcofZ_nonzero.
  unfold len. destruct ds; [congruence|cbn [length]; lia].
Qed.

(* ------------------------------------------------------------------------------------------ *)
(** * Tear-sheet glue                                                                           *)

Lemma ts_fold_snoc ts pts x : fold_left ts_update (pts ++ [x]) ts = ts_update (fold_left ts_update pts ts) x.
Proof. rewrite fold_left_app. reflexivity. Qed.

(** the three generators of a tear sheet after any updates: the drawdown generator has consumed
    the curve, the mean / max generators have been fed exactly the drawdowns it returned *)
Lemma ts_fold ts pts :
  fold_left ts_update pts ts =
  mkTS (fst (gen_run (ts_dd ts) pts))
       (mean_run (ts_mean ts) (snd (gen_run (ts_dd ts) pts)))
       (max_run (ts_max ts) (snd (gen_run (ts_dd ts) pts))).
Proof.
  induction pts as [|x pts IH] using rev_ind.
  - destruct ts; reflexivity.
  - rewrite ts_fold_snoc, IH, gen_run_snoc. unfold ts_update, gen_step. cbn [ts_dd ts_mean ts_max].
    destruct (gen_update (fst (gen_run (ts_dd ts) pts)) x) as [g' [d|]]; cbn [fst snd opt_list].
    + rewrite mean_run_snoc, max_run_snoc. reflexivity.
    + rewrite app_nil_r. reflexivity.
Qed.

Definition ts_init (x : pt) : tearsheet := mkTS (gen_init x) mean_default None.
Definition ts_default : tearsheet := mkTS gen_default mean_default None.

Lemma ts_default_first x pts : fold_left ts_update (x :: pts) ts_default = fold_left ts_update pts (ts_init x).
Proof. destruct x as [t v]. reflexivity. Qed.

Lemma ts_generate_state ts : fst (ts_generate ts) = ts.
Proof. reflexivity. Qed.

Lemma mean_run_reported m em cur :
  mg_mean (match cur with Some d => mean_update (mean_run m em) d | None => mean_run m em end) =
  mg_mean (mean_run m (em ++ opt_list cur)).
Proof. destruct cur; cbn [opt_list]; [rewrite mean_run_snoc|rewrite app_nil_r]; reflexivity. Qed.
Lemma max_run_reported m em cur :
  match cur with Some d => max_update (max_run m em) d | None => max_run m em end =
  max_run m (em ++ opt_list cur).
Proof. destruct cur; cbn [opt_list]; [rewrite max_run_snoc|rewrite app_nil_r]; reflexivity. Qed.

(** after any updates, [generate] reports the current drawdown and mean / max over the completed
    drawdowns plus the current one, and leaves the state unchanged *)
Theorem tearsheet_report x pts : 0 < snd x ->
  let ts := fold_left ts_update pts (ts_init x) in
  let r := snd (ts_generate ts) in
  ts_mean ts = mean_run mean_default (completed (x :: pts)) /\
  ts_max ts = max_run None (completed (x :: pts)) /\
  r_cur r = current (x :: pts) /\
  r_mean r = mg_mean (mean_run mean_default (reported (x :: pts))) /\
  r_max r = max_run None (reported (x :: pts)) /\
  fst (ts_generate ts) = ts.
Proof.
  intros Hx. cbv zeta. rewrite ts_fold. cbn [ts_init ts_dd ts_mean ts_max].
  destruct (generator_is_decomposition x pts Hx) as [He Hc]. rewrite He.
  unfold ts_generate. cbn [fst snd ts_dd ts_mean ts_max r_cur r_mean r_max]. rewrite Hc.
  unfold reported. rewrite mean_run_reported, max_run_reported. repeat split; reflexivity.
Qed.

(** the same, read through the mean / max theorems *)
Theorem tearsheet_report_meaning x pts : 0 < snd x ->
  let r := snd (ts_generate (fold_left ts_update pts (ts_init x))) in
  let ds := reported (x :: pts) in
  r_cur r = current (x :: pts) /\
  (ds = [] -> r_mean r = None /\ r_max r = None) /\
  (ds <> [] -> exists m d, r_mean r = Some m /\ is_mean_of ds m /\ r_max r = Some d /\ first_max ds d).
Proof.
  intros Hx. cbv zeta. destruct (tearsheet_report x pts Hx) as (_ & _ & Hc & Hm & Hmx & _).
  split; [exact Hc|]. rewrite Hm, Hmx. split.
  - intros ->. split; reflexivity.
  - intros Hne. destruct (mean_run_default _ Hne) as (m & Hrun & Hmean).
    destruct (reported (x :: pts)) as [|d0 ds'] eqn:E; [congruence|].
    destruct (max_run_first_max d0 ds') as (d & Hd & Hf).
    exists m, d. rewrite Hrun. cbn [mg_mean].
    split; [reflexivity|]. split; [exact Hmean|]. split; [exact Hd|exact Hf].
Qed.

(** [generate] calls leave no trace: interleaving any number of them between updates yields the
    same state as the updates alone, and k consecutive calls return the same report k times *)
Lemma ts_run_state_acc ops ts acc :
  fst (fold_left ts_step ops (ts, acc)) = fold_left ts_update (updates_of ops) ts.
Proof.
  revert ts acc. induction ops as [|op ops IH]; intros ts acc; [reflexivity|].
  destruct op as [x| |]; cbn [fold_left ts_step updates_of flat_map app fst snd].
  - rewrite IH. reflexivity.
  - unfold ts_generate. rewrite IH. reflexivity.
  - apply IH.
Qed.

(** a persist / restore step anywhere in a history changes neither the states nor the reports *)
Theorem persist_restore_noop ts ops1 ops2 :
  ts_run ts (ops1 ++ TRt :: ops2) = ts_run ts (ops1 ++ ops2).
Proof. unfold ts_run. rewrite !fold_left_app. reflexivity. Qed.

Lemma ts_run_snoc ts ops op : ts_run ts (ops ++ [op]) = ts_step (ts_run ts ops) op.
Proof. unfold ts_run. rewrite fold_left_app. reflexivity. Qed.

Lemma repeat_snoc {A} (a : A) k : repeat a (S k) = repeat a k ++ [a].
Proof. induction k as [|k IH]; [reflexivity|]. cbn [repeat app] in *. rewrite <- IH. reflexivity. Qed.

Theorem generate_idempotent ts ops :
  fst (ts_run ts ops) = fold_left ts_update (updates_of ops) ts /\
  forall k, ts_run ts (ops ++ repeat TGen k) =
            (fst (ts_run ts ops), snd (ts_run ts ops) ++ repeat (snd (ts_generate (fst (ts_run ts ops)))) k).
Proof.
  split; [apply ts_run_state_acc|].
  intros k. induction k as [|k IH].
  - cbn [repeat]. rewrite !app_nil_r. destruct (ts_run ts ops); reflexivity.
  - rewrite (repeat_snoc TGen), app_assoc, ts_run_snoc, IH.
    rewrite (repeat_snoc (snd (ts_generate (fst (ts_run ts ops))))), app_assoc. reflexivity.
Qed.

(** the asset / instrument wrappers only choose the curve *)
Definition asset_pts (us : list (Z * balance)) : list pt := map (fun u => (fst u, fst (snd u))) us.
Definition asset_run (a : asset_ts) (us : list (Z * balance)) : asset_ts :=
  fold_left (fun a u => asset_update a (fst u) (snd u)) us a.
Lemma asset_run_ts a us : a_ts (asset_run a us) = fold_left ts_update (asset_pts us) (a_ts a).
Proof.
  revert a. induction us as [|u us IH]; intros a; [reflexivity|].
  cbn [asset_run fold_left asset_pts map]. fold (asset_run (asset_update a (fst u) (snd u)) us).
  rewrite IH. reflexivity.
Qed.

Fixpoint cum_pts (acc : Qc) (us : list (Z * Qc)) : list pt :=
  match us with
  | [] => []
  | u :: r => (fst u, acc + snd u) :: cum_pts (acc + snd u) r
  end.
Definition inst_run (s : inst_ts) (us : list (Z * Qc)) : inst_ts :=
  fold_left (fun s u => inst_update s (fst u) (snd u)) us s.
Lemma inst_run_ts s us : i_ts (inst_run s us) = fold_left ts_update (cum_pts (i_pnl s) us) (i_ts s).
Proof.
  revert s. induction us as [|u us IH]; intros s; [reflexivity|].
  cbn [inst_run fold_left cum_pts]. fold (inst_run (inst_update s (fst u) (snd u)) us).
  rewrite IH. reflexivity.
Qed.
