(** The executable oracle of Corr/C13.v is no stricter than the model: on every message the
    model's own outcome satisfies [msg_prop].  (Together with [corr_b] - implementation = model -
    a [prop_b] failure is therefore always a deviation of the implementation, and wherever the
    implementation agrees with the model the oracle holds.)  All connectors but Bitfinex, whose
    channel-id indirection is covered by [C13_bitfinex_*] and the correspondence runs. *)
From Coq Require Import String Ascii List ZArith NArith Bool Lia.
From BV Require Import Base.Common Model.SubId Proofs.SubId Corr.C13.
Import ListNotations.
Local Open Scope string_scope.

Lemma side_eqb_refl : forall s, side_eqb s s = true. Proof. destruct s; reflexivity. Qed.
Lemma optZ_eqb_refl : forall t, optZ_eqb t t = true.
Proof. destruct t; cbn; [apply Z.eqb_refl|reflexivity]. Qed.
Lemma exch_eqb_refl : forall e, exch_eqb e e = true. Proof. destruct e; reflexivity. Qed.

Lemma level_ok_level_of : forall p a, level_ok p a (level_of p a) = true.
Proof.
  intros p a. unfold level_of. destruct (Z.eqb p 0) eqn:E; cbn; [exact E|]. now rewrite !Z.eqb_refl.
Qed.

Lemma body_ok_model : forall e sk k it, body_ok sk it (e_body (event_of_item e sk k it)) = true.
Proof.
  intros e sk k it. destruct sk; cbn.
  - rewrite String.eqb_refl, Z.eqb_refl, side_eqb_refl. cbn. rewrite andb_true_r.
    unfold amount_ok, trade_amount.
    destruct e; try (now rewrite Z.eqb_refl); destruct (i_side it); cbn; rewrite ?Z.eqb_refl; try reflexivity;
    now rewrite orb_true_r.
  - now rewrite optZ_eqb_refl, !level_ok_level_of.
  - now rewrite side_eqb_refl, !Z.eqb_refl, optZ_eqb_refl.
Qed.

Lemma events_ok_model : forall e sk ss k items key,
  key_in k ss = true -> (key = None \/ key = Some k) ->
  events_ok e sk ss key items (map OEv (map (event_of_item e sk k) items)) = true.
Proof.
  intros e sk ss k items. induction items as [|it items IH]; intros key Hk Hkey; cbn [map events_ok]; [reflexivity|].
  change (e_key (event_of_item e sk k it)) with k.
  change (e_exch (event_of_item e sk k it)) with e.
  change (e_time (event_of_item e sk k it)) with (i_time it).
  rewrite Hk, exch_eqb_refl, optZ_eqb_refl, body_ok_model. cbn [andb].
  rewrite IH by (assumption || now right).
  destruct Hkey as [->| ->]; cbn; [reflexivity|now rewrite N.eqb_refl].
Qed.

(** ** the model's lookup in terms of subscriptions *)

Lemma lookup_hit : forall e sk subs c x k,
  has_bar c = false -> map_subs e sk subs (sub_id c x) = Some k ->
  exists s, In s subs /\ fst s = k /\ channel_of e sk (kind_of (snd s)) = c /\ market_of e (snd s) = x.
Proof.
  intros e sk subs c x k Hc H. apply map_subs_sound in H as (s & Hin & Hs & Hk).
  unfold sid in Hs. apply sub_id_inj in Hs as [H1 H2]; [|apply channel_no_bar|assumption].
  now exists s.
Qed.

Lemma lookup_some : forall e sk subs s,
  In s subs -> exists k, map_subs e sk subs (sid e sk s) = Some k.
Proof.
  intros e sk subs s Hin. rewrite map_subs_spec.
  destruct (find _ (rev subs)) as [s'|] eqn:F; [now exists (fst s')|].
  apply in_rev in Hin. apply (find_none _ _ F s) in Hin. rewrite String.eqb_refl in Hin. discriminate.
Qed.

Lemma lookup_miss : forall e sk subs c x,
  map_subs e sk subs (sub_id c x) = None ->
  forall s, In s subs -> ~ (channel_of e sk (kind_of (snd s)) = c /\ market_of e (snd s) = x).
Proof.
  intros e sk subs c x H s Hin [H1 H2]. destruct (lookup_some e sk subs s Hin) as [k Hk].
  unfold sid in Hk. rewrite H1, H2, H in Hk. discriminate.
Qed.

(** ** what the id of a message is made of *)

Definition chan_plain (m : msg) : Prop :=
  match m with MData chan _ _ _ => has_bar chan = false | MControl _ => True end.
Definition bybit_plain (e : exch) (m : msg) : Prop :=
  match m with
  | MData _ sym _ _ => family_of e = FBybit -> has_char "."%char sym = false
  | MControl _ => True
  end.

Lemma target_head : forall e sym items t,
  target e sym items = Some t -> exists rest, mentioned e sym items = t :: rest.
Proof.
  intros e sym items t H. unfold target in H. destruct (mentioned e sym items) as [|a rest]; [discriminate|].
  destruct (forallb _ rest); [|discriminate]. injection H as <-. now exists rest.
Qed.

Lemma first_sym_in : forall items x, first_sym items = Some x -> exists rest, map i_sym items = x :: rest.
Proof. intros [|it items] x H; [discriminate|]. injection H as <-. now exists (map i_sym items). Qed.

Lemma id_parts : forall e sk chan sym cid items id,
  e <> Bitfinex -> has_bar chan = false ->
  msg_id e sk (MData chan sym cid items) = IdSome id ->
  exists c x rest,
    id = sub_id c x /\ has_bar c = false /\ mentioned e sym items = x :: rest /\
    (forall k, chan_matches e k chan = true <-> channel_of e sk k = c).
Proof.
  intros e sk chan sym cid items id Hne Hbar H. unfold msg_id in H.
  unfold chan_matches, venue_channel, channel_of, mentioned, has_envelope_sym, has_item_syms.
  destruct (family_of e) eqn:F.
  - (* Binance *)
    destruct (first_sym items) as [x|] eqn:Hf; [|discriminate]. injection H as <-.
    destruct (first_sym_in _ _ Hf) as [rest Hr]. exists (binance_channel sk), x, rest.
    repeat split; try (now destruct sk); try assumption; try (cbn; exact Hr).
  - destruct e; try discriminate. now elim Hne.
  - (* Bitmex *)
    destruct (first_sym items) as [x|] eqn:Hf; [|discriminate]. injection H as <-.
    destruct (first_sym_in _ _ Hf) as [rest Hr]. exists chan, x, rest.
    repeat split; try assumption.
    + intros E. apply String.eqb_eq in E. now subst.
    + intros E. apply String.eqb_eq. now subst.
  - (* Bybit *)
    destruct (String.eqb chan "publicTrade" && negb (has_char "."%char sym))%bool eqn:E; [|discriminate].
    injection H as <-. apply andb_true_iff in E as [E _]. apply String.eqb_eq in E. subst chan.
    exists "publicTrade", sym, (map i_sym items). repeat split; reflexivity.
  - (* Coinbase *)
    destruct (first_sym items) as [x|] eqn:Hf; [|discriminate]. injection H as <-.
    destruct (first_sym_in _ _ Hf) as [rest Hr]. exists "matches", x, rest.
    repeat split; try reflexivity; try (cbn; exact Hr).
  - (* Gateio *)
    assert (Hid : match first_sym items with Some s => IdSome (sub_id chan s) | None => IdNone end = IdSome id
                  \/ match first_sym items with Some s => IdSome (sub_id chan s) | None => IdDeser end = IdSome id)
      by (destruct e; try discriminate; auto).
    destruct (first_sym items) as [x|] eqn:Hf; [|destruct Hid; discriminate].
    assert (id = sub_id chan x) by (destruct Hid as [Hid|Hid]; now injection Hid). subst id.
    destruct (first_sym_in _ _ Hf) as [rest Hr]. exists chan, x, rest.
    repeat split; try assumption.
    + intros E. apply String.eqb_eq in E. subst chan. now destruct k.
    + intros E. apply String.eqb_eq. subst chan. now destruct k.
  - (* Kraken *)
    injection H as <-. exists (kraken_channel sk), sym, []. repeat split; try (now destruct sk).
  - (* Okx *)
    injection H as <-. exists chan, sym, (map i_sym items). repeat split; try assumption.
    + intros E. apply String.eqb_eq in E. now subst.
    + intros E. apply String.eqb_eq. now subst.
  - discriminate.
Qed.

(** ** main theorem *)

Theorem oracle_accepts_model : forall e sk subs confs m,
  e <> Bitfinex -> family_of e <> FNone ->
  strikes_plain subs -> msg_ok e sk m = true -> chan_plain m -> bybit_plain e m ->
  msg_prop e sk subs confs m (transform e sk (transformer_map e sk subs confs) m) = true.
Proof.
  intros e sk subs confs m Hne Hfam Hp Hok Hcp Hbp.
  rewrite transformer_map_other by assumption.
  destruct m as [chan sym cid items|v]; [|reflexivity].
  cbn in Hcp, Hbp. unfold msg_prop, transform.
  assert (Htgt : (match e with Bitfinex => Some EmptyString | _ => target e sym items end) = target e sym items)
    by (destruct e; try reflexivity; now elim Hne).
  rewrite Htgt. clear Htgt.
  assert (Hsf : forall s0, subs_for e subs confs chan s0 cid =
           filter (fun s => chan_matches e (kind_of (snd s)) chan && String.eqb (venue_symbol e (snd s)) s0) subs)
    by (intros; destruct e; try reflexivity; now elim Hne).
  destruct (msg_id e sk (MData chan sym cid items)) as [| |id] eqn:Hid.
  - (* no id: no output *)
    cbn. destruct (target e sym items) as [t|] eqn:Ht; [|reflexivity].
    exfalso. unfold msg_id in Hid. apply target_head in Ht as [rest Hr].
    unfold mentioned, has_envelope_sym, has_item_syms in Hr.
    assert (Hbatch : match first_sym items with Some s => IdSome (sub_id chan s) | None => IdNone end = IdNone ->
                     (map i_sym items = t :: rest) -> False).
    { intros H1 H2. destruct items; [discriminate H2|discriminate H1]. }
    destruct (family_of e) eqn:F.
    + destruct (first_sym items); discriminate Hid.
    + destruct e; try discriminate F. now elim Hne.
    + exact (Hbatch Hid Hr).
    + destruct (String.eqb chan "publicTrade" && _)%bool; discriminate Hid.
    + destruct (first_sym items); discriminate Hid.
    + destruct e; try discriminate F; try exact (Hbatch Hid Hr).
      destruct (first_sym items); discriminate Hid.
    + discriminate Hid.
    + discriminate Hid.
    + now elim Hfam.
  - (* not deserialisable *)
    cbn. destruct (target e sym items) as [t|] eqn:Ht; [|reflexivity].
    unfold msg_id in Hid. unfold msg_ok, single_item in Hok. apply andb_true_iff in Hok as [_ Hok].
    assert (Hsingle : forall c0, (if true then Nat.eqb (List.length items) 1 else true) = true ->
              match first_sym items with Some s => IdSome (sub_id c0 s) | None => IdDeser end = IdDeser -> False).
    { intros c0 H1 H2. destruct items; [discriminate H1|discriminate H2]. }
    assert (Hbatch : match first_sym items with Some s => IdSome (sub_id chan s) | None => IdNone end = IdDeser -> False).
    { intros H1. destruct (first_sym items); discriminate H1. }
    destruct (family_of e) eqn:F.
    + exfalso. exact (Hsingle _ Hok Hid).
    + destruct e; try discriminate F. now elim Hne.
    + exfalso. exact (Hbatch Hid).
    + (* Bybit: foreign topic *)
      destruct (String.eqb chan "publicTrade") eqn:Ec.
      * rewrite (Hbp eq_refl) in Hid. discriminate Hid.
      * assert (Hcm : forall k, chan_matches e k chan = false).
        { intros k. unfold chan_matches, venue_channel. rewrite F. now rewrite String.eqb_sym. }
        rewrite Hsf.
        assert (Hnil : filter (fun s => chan_matches e (kind_of (snd s)) chan && String.eqb (venue_symbol e (snd s)) t) subs = []).
        { clear -Hcm. induction subs as [|s subs IH]; cbn; [reflexivity|]. now rewrite Hcm. }
        rewrite Hnil. apply negb_true_iff.
        clear -Hcm. induction subs as [|s subs IH]; cbn; [reflexivity|]. now rewrite Hcm.
    + exfalso. exact (Hsingle _ Hok Hid).
    + exfalso. destruct e; try discriminate F; try exact (Hbatch Hid). exact (Hsingle _ Hok Hid).
    + discriminate Hid.
    + discriminate Hid.
    + discriminate Hid.
  - (* an id: lookup *)
    destruct (id_parts _ _ _ _ _ _ _ Hne Hcp Hid) as (c & x & rest & -> & Hbar & Hment & Hcm).
    destruct (map_subs e sk subs (sub_id c x)) as [k|] eqn:Hk.
    + destruct (lookup_hit _ _ _ _ _ _ Hbar Hk) as (s & Hin & Hkey & Hch & Hmk).
      rewrite market_is_venue_symbol in Hmk by (now apply Hp).
      assert (Hnamed : only_named e subs confs sym cid items (OOut (map OEv (events e sk k (MData chan sym cid items)))) = true).
      { unfold only_named. apply forallb_forall. intros o Ho. apply in_map_iff in Ho as (ev & <- & Hev).
        apply events_exch in Hev as [_ Hevk]. apply existsb_exists. exists s. split; [assumption|].
        rewrite Hkey, Hevk, N.eqb_refl. cbn.
        assert (existsb (String.eqb (venue_symbol e (snd s))) (mentioned e sym items) = true).
        { rewrite Hment, Hmk. cbn. now rewrite String.eqb_refl. }
        destruct e; try assumption. now elim Hne. }
      rewrite Hnamed. cbn [andb].
      destruct (target e sym items) as [t|] eqn:Ht; [|reflexivity].
      apply target_head in Ht as [rest' Hr]. rewrite Hment in Hr. injection Hr as <- _.
      rewrite Hsf.
      assert (HinS : In s (filter (fun s0 => chan_matches e (kind_of (snd s0)) chan && String.eqb (venue_symbol e (snd s0)) x) subs)).
      { apply filter_In. split; [assumption|]. apply andb_true_iff. split; [now apply Hcm|]. now apply String.eqb_eq. }
      destruct (filter _ subs) as [|s0 ss] eqn:Hfl; [contradiction|].
      cbn [events]. apply events_ok_model; [|now left].
      unfold key_in, keys_of. apply existsb_exists. exists (fst s). split; [now apply in_map|].
      rewrite Hkey. apply N.eqb_refl.
    + assert (Hnamed : only_named e subs confs sym cid items (OOut [OUnident (sub_id c x)]) = true) by reflexivity.
      rewrite Hnamed. cbn [andb].
      destruct (target e sym items) as [t|] eqn:Ht; [|reflexivity].
      apply target_head in Ht as [rest' Hr]. rewrite Hment in Hr. injection Hr as <- _.
      rewrite Hsf.
      assert (Hnil : filter (fun s0 => chan_matches e (kind_of (snd s0)) chan && String.eqb (venue_symbol e (snd s0)) x) subs = []).
      { pose proof (lookup_miss _ _ _ _ _ Hk) as Hmiss.
        assert (Hall : forall s, In s subs -> (chan_matches e (kind_of (snd s)) chan && String.eqb (venue_symbol e (snd s)) x) = false).
        { intros s Hin. destruct (chan_matches e (kind_of (snd s)) chan) eqn:E1; [|reflexivity].
          destruct (String.eqb (venue_symbol e (snd s)) x) eqn:E2; [|reflexivity].
          exfalso. apply (Hmiss s Hin). split; [now apply Hcm|].
          rewrite market_is_venue_symbol by (now apply Hp). now apply String.eqb_eq. }
        clear -Hall. induction subs as [|s subs IH]; cbn; [reflexivity|].
        rewrite (Hall s (or_introl eq_refl)). apply IH. intros; apply Hall; now right. }
      now rewrite Hnil.
Qed.

(* ------------------------------------------------------------------------------------------ *)
(** * Bitfinex: messages are identified by the channel id of the confirmation *)

Lemma nodup_map_inj : forall (A B : Type) (f : A -> B) (l : list A) x y,
  NoDup (map f l) -> In x l -> In y l -> f x = f y -> x = y.
Proof.
  intros A B f l. induction l as [|a l IH]; intros x y Hn Hx Hy E; [contradiction|].
  cbn in Hn. inversion Hn as [|? ? Hna Hn']; subst.
  destruct Hx as [->|Hx], Hy as [->|Hy].
  - reflexivity.
  - exfalso. apply Hna. rewrite E. now apply in_map.
  - exfalso. apply Hna. rewrite <- E. now apply in_map.
  - now apply IH.
Qed.

Definition bfx_confs_ok (confs : list conf) : Prop :=
  NoDup (map conf_cid confs) /\ NoDup (map conf_sid confs) /\
  forall c, In c confs -> fst (fst c) = "trades".

Lemma bitfinex_market_venue : forall d, market_of Bitfinex d = venue_symbol Bitfinex d.
Proof. intros [b q k|n k]; [|reflexivity]. cbn. now rewrite !upper_lower. Qed.

Lemma map_subs_no_dec : forall e sk subs n, map_subs e sk subs (dec n) = None.
Proof.
  intros e sk subs n. destruct (map_subs e sk subs (dec n)) as [k|] eqn:E; [|reflexivity].
  apply map_subs_domain_bar in E. rewrite dec_no_bar in E. discriminate.
Qed.

Theorem oracle_accepts_model_bitfinex : forall sk subs confs m,
  bfx_confs_ok confs ->
  msg_prop Bitfinex sk subs confs m (transform Bitfinex sk (transformer_map Bitfinex sk subs confs) m) = true.
Proof.
  intros sk subs confs m (Hc & Hs & Htr).
  destruct m as [chan sym cid items|v]; [|reflexivity].
  unfold msg_prop, transform, transformer_map. cbn [msg_id family_of subs_for].
  set (m0 := map_subs Bitfinex sk subs).
  destruct (in_dec N.eq_dec cid (map conf_cid confs)) as [Hin|Hnin].
  - (* the channel id was handed out: by exactly one confirmation *)
    apply in_map_iff in Hin as (cf & Hcid & Hcf).
    assert (Hval : bfx_validate m0 confs (dec cid) = m0 (conf_sid cf)).
    { rewrite <- Hcid. apply bfx_validate_confirmed; try assumption. intros; apply map_subs_no_dec. }
    rewrite Hval. destruct cf as [[ch sy] cid']. unfold conf_cid in Hcid. cbn [snd] in Hcid. subst cid'.
    pose proof (Htr _ Hcf) as Hch. cbn [fst] in Hch. subst ch. unfold conf_sid. cbn [fst snd].
    assert (Huniq : forall d, bfx_confirmed confs cid d = true -> venue_symbol Bitfinex d = sy).
    { intros d H. unfold bfx_confirmed in H. apply existsb_exists in H as ([[ch' sy'] c'] & Hin' & H).
      apply andb_true_iff in H as [H H3]. apply andb_true_iff in H as [H1 H2].
      apply N.eqb_eq in H1. apply String.eqb_eq in H3. subst c'.
      assert (E : (ch', sy', cid) = ("trades", sy, cid)) by (apply (nodup_map_inj _ _ conf_cid confs); auto).
      injection E as _ ->. now symmetry. }
    destruct (m0 (sub_id "trades" sy)) as [k|] eqn:Hk.
    + destruct (lookup_hit Bitfinex sk subs "trades" sy k eq_refl Hk) as (s & Hins & Hkey & _ & Hmk).
      rewrite bitfinex_market_venue in Hmk.
      assert (Hconf : bfx_confirmed confs cid (snd s) = true).
      { unfold bfx_confirmed. apply existsb_exists. exists ("trades", sy, cid). split; [assumption|].
        now rewrite N.eqb_refl, Hmk, !String.eqb_refl. }
      assert (Hnamed : only_named Bitfinex subs confs sym cid items
                (OOut (map OEv (events Bitfinex sk k (MData chan sym cid items)))) = true).
      { unfold only_named. apply forallb_forall. intros o Ho. apply in_map_iff in Ho as (ev & <- & Hev).
        apply events_exch in Hev as [_ Hevk]. apply existsb_exists. exists s. split; [assumption|].
        now rewrite Hkey, Hevk, N.eqb_refl, Hconf. }
      rewrite Hnamed. cbn [andb].
      assert (HinS : In s (filter (fun s0 => bfx_confirmed confs cid (snd s0)) subs)) by (apply filter_In; now split).
      destruct (filter _ subs) as [|s0 ss] eqn:Hfl; [contradiction|].
      cbn [events]. apply events_ok_model; [|now left].
      unfold key_in, keys_of. apply existsb_exists. exists (fst s). split; [now apply in_map|].
      rewrite Hkey. apply N.eqb_refl.
    + assert (Hnil : filter (fun s0 => bfx_confirmed confs cid (snd s0)) subs = []).
      { pose proof (lookup_miss _ _ _ _ _ Hk) as Hmiss.
        assert (Hall : forall s, In s subs -> bfx_confirmed confs cid (snd s) = false).
        { intros s Hins. destruct (bfx_confirmed confs cid (snd s)) eqn:E; [|reflexivity].
          exfalso. apply (Hmiss s Hins). split; [reflexivity|]. rewrite bitfinex_market_venue. now apply Huniq. }
        clear -Hall. induction subs as [|s subs IH]; cbn; [reflexivity|].
        rewrite (Hall s (or_introl eq_refl)). apply IH. intros; apply Hall; now right. }
      rewrite Hnil. reflexivity.
  - (* a channel id nobody handed out *)
    rewrite bfx_validate_unassigned by assumption. unfold m0. rewrite map_subs_no_dec.
    assert (Hnil : filter (fun s0 => bfx_confirmed confs cid (snd s0)) subs = []).
    { assert (Hall : forall d, bfx_confirmed confs cid d = false).
      { intros d. destruct (bfx_confirmed confs cid d) eqn:E; [|reflexivity]. exfalso.
        unfold bfx_confirmed in E. apply existsb_exists in E as ([[ch' sy'] c'] & Hin' & H).
        apply andb_true_iff in H as [H _]. apply andb_true_iff in H as [H1 _]. apply N.eqb_eq in H1. subst c'.
        apply Hnin. change cid with (conf_cid (ch', sy', cid)). now apply in_map. }
      clear -Hall. induction subs as [|s subs IH]; cbn; [reflexivity|]. now rewrite Hall. }
    rewrite Hnil. reflexivity.
Qed.

(* ------------------------------------------------------------------------------------------ *)
(** * Case level: implementation = model implies the oracle holds *)

Lemma list_eqb_eq : forall (A : Type) (eqb : A -> A -> bool),
  (forall a b, eqb a b = true -> a = b) -> forall l1 l2, list_eqb eqb l1 l2 = true -> l1 = l2.
Proof.
  intros A eqb H. induction l1 as [|a l1 IH]; intros [|b l2] E; cbn in E; try discriminate; [reflexivity|].
  apply andb_true_iff in E as [E1 E2]. f_equal; [now apply H|now apply IH].
Qed.
Lemma option_eqb_eq : forall (A : Type) (eqb : A -> A -> bool),
  (forall a b, eqb a b = true -> a = b) -> forall x y, option_eqb eqb x y = true -> x = y.
Proof. intros A eqb H [a|] [b|] E; cbn in E; try discriminate; [f_equal; now apply H|reflexivity]. Qed.
Lemma side_eqb_eq : forall a b, side_eqb a b = true -> a = b.
Proof. intros [] [] E; try discriminate; reflexivity. Qed.
Lemma exch_eqb_eq : forall a b, exch_eqb a b = true -> a = b.
Proof. intros [] [] E; try discriminate; reflexivity. Qed.
Lemma optZ_eqb_eq : forall a b, optZ_eqb a b = true -> a = b.
Proof. apply option_eqb_eq. intros a b. apply Z.eqb_eq. Qed.
Lemma level_eqb_eq : forall a b, level_eqb a b = true -> a = b.
Proof.
  apply option_eqb_eq. intros [p a] [q b] E. unfold pair_eqb in E. cbn in E.
  apply andb_true_iff in E as [E1 E2]. apply Z.eqb_eq in E1, E2. now subst.
Qed.
Lemma body_eqb_eq : forall a b, body_eqb a b = true -> a = b.
Proof.
  intros [i p q s|t b1 a1|s p q t] [i' p' q' s'|t' b2 a2|s' p' q' t'] E; cbn in E; try discriminate.
  - repeat (apply andb_true_iff in E as [E ?]). apply String.eqb_eq in E.
    repeat match goal with H : Z.eqb _ _ = true |- _ => apply Z.eqb_eq in H end.
    match goal with H : side_eqb _ _ = true |- _ => apply side_eqb_eq in H end. now subst.
  - repeat (apply andb_true_iff in E as [E ?]). apply optZ_eqb_eq in E.
    repeat match goal with H : level_eqb _ _ = true |- _ => apply level_eqb_eq in H end. now subst.
  - repeat (apply andb_true_iff in E as [E ?]). apply side_eqb_eq in E.
    repeat match goal with H : Z.eqb _ _ = true |- _ => apply Z.eqb_eq in H end.
    match goal with H : optZ_eqb _ _ = true |- _ => apply optZ_eqb_eq in H end. now subst.
Qed.
Lemma event_eqb_eq : forall a b, event_eqb a b = true -> a = b.
Proof.
  intros [k e t b] [k' e' t' b'] E. unfold event_eqb in E. cbn in E.
  repeat (apply andb_true_iff in E as [E ?]). apply N.eqb_eq in E.
  match goal with H : exch_eqb _ _ = true |- _ => apply exch_eqb_eq in H end.
  match goal with H : optZ_eqb _ _ = true |- _ => apply optZ_eqb_eq in H end.
  match goal with H : body_eqb _ _ = true |- _ => apply body_eqb_eq in H end. now subst.
Qed.
Lemma oitem_eqb_eq : forall a b, oitem_eqb a b = true -> a = b.
Proof.
  intros [x|x|x] [y|y|y] E; cbn in E; try discriminate;
  [apply event_eqb_eq in E|apply String.eqb_eq in E|apply String.eqb_eq in E]; now subst.
Qed.
Lemma outcome_eqb_eq : forall a b, outcome_eqb a b = true -> a = b.
Proof.
  intros [|x|] [|y|] E; cbn in E; try discriminate; try reflexivity.
  f_equal. now apply (list_eqb_eq _ _ oitem_eqb_eq).
Qed.

Lemma nodup_b_NoDup : forall (A : Type) (eqb : A -> A -> bool),
  (forall a b, a = b -> eqb a b = true) -> forall l, nodup_b eqb l = true -> NoDup l.
Proof.
  intros A eqb H. induction l as [|x l IH]; intros E; [constructor|].
  cbn in E. apply andb_true_iff in E as [E1 E2]. constructor; [|now apply IH].
  intros Hin. apply negb_true_iff in E1. assert (existsb (eqb x) l = true); [|congruence].
  apply existsb_exists. exists x. split; [assumption|now apply H].
Qed.

Theorem oracle_sound : forall c, in_domain c = true -> corr_b c = true -> prop_b c = true.
Proof.
  intros [e sk subs confs omap msgs] Hd Hc. unfold in_domain in Hd. cbn [c_exch c_sk c_subs c_confs c_msgs] in Hd.
  apply andb_true_iff in Hd as [Hd Hconfs]. apply andb_true_iff in Hd as [Hd Hplain].
  apply andb_true_iff in Hd as [Hwf Hstr].
  unfold wf_case in Hwf. cbn [c_exch c_sk c_subs c_msgs] in Hwf.
  apply andb_true_iff in Hwf as [Hwf Hmok]. apply andb_true_iff in Hwf as [Hsup _].
  unfold corr_b in Hc. cbn [c_exch c_sk c_subs c_confs c_msgs c_map] in Hc. apply andb_true_iff in Hc as [_ Hc].
  assert (Hp : strikes_plain subs).
  { intros s Hin. rewrite forallb_forall in Hstr. specialize (Hstr s Hin).
    unfold strike_plain. unfold strike_plain_b in Hstr. destruct (kind_of (snd s)); try exact I.
    now apply String.eqb_eq in Hstr. }
  assert (Hfam : family_of e <> FNone) by (destruct e; try discriminate; destruct sk; discriminate Hsup).
  unfold prop_b. cbn [c_exch c_sk c_subs c_confs c_msgs]. apply andb_true_iff. split.
  - destruct e; try reflexivity. unfold confs_ok_b in Hconfs. now apply andb_true_iff in Hconfs as [_ Hr].
  - apply forallb_forall. intros [m o] Hin.
    rewrite forallb_forall in Hc. specialize (Hc _ Hin). cbn [fst snd] in Hc |- *.
    apply outcome_eqb_eq in Hc. subst o.
    rewrite forallb_forall in Hmok. specialize (Hmok _ Hin). cbn [fst] in Hmok.
    rewrite forallb_forall in Hplain. specialize (Hplain _ Hin). cbn [fst] in Hplain.
    destruct (exch_eqb e Bitfinex) eqn:Eb.
    + apply exch_eqb_eq in Eb. subst e. apply oracle_accepts_model_bitfinex.
      unfold confs_ok_b in Hconfs.
      apply andb_true_iff in Hconfs as [Hconfs _]. apply andb_true_iff in Hconfs as [Hconfs Htr].
      apply andb_true_iff in Hconfs as [Hn1 Hn2].
      split; [|split].
      * apply (nodup_b_NoDup _ N.eqb); [intros a b ->; apply N.eqb_refl|exact Hn1].
      * apply (nodup_b_NoDup _ String.eqb); [intros a b ->; apply String.eqb_refl|exact Hn2].
      * intros cf Hcf. rewrite forallb_forall in Htr. now apply String.eqb_eq, Htr.
    + assert (Hne : e <> Bitfinex) by (intros ->; discriminate Eb).
      apply oracle_accepts_model; try assumption.
      * destruct m as [chan sym cid items|v]; [|exact I]. cbn in Hplain |- *.
        apply andb_true_iff in Hplain as [Hb _]. now apply negb_true_iff in Hb.
      * destruct m as [chan sym cid items|v]; [|exact I]. cbn in Hplain |- *. intros F.
        apply andb_true_iff in Hplain as [_ Hb]. rewrite F in Hb. now apply negb_true_iff in Hb.
Qed.

(* ------------------------------------------------------------------------------------------ *)
(** * The dynamic builder's validation *)

Lemma supports_triple_spec : forall e k sk,
  supports_triple e k sk = (routed_pair e sk && venue_serves e k)%bool.
Proof. intros e k sk. destruct e, k, sk; reflexivity. Qed.

Lemma venue_serves_supports_kind : forall e k, venue_serves e k = true -> supports_kind e k = true.
Proof. intros e k. destruct e, k; cbn; intros H; try reflexivity; discriminate H. Qed.

Lemma dedup_ids_in : forall l x, In x (dedup_ids l) <-> In x l.
Proof.
  induction l as [|a l IH]; intros x; cbn; [tauto|]. rewrite filter_In, IH. split.
  - intros [->|[H _]]; auto.
  - intros [->|H]; [now left|]. destruct (N.eqb a x) eqn:E; [apply N.eqb_eq in E; now left|right; split; [assumption|reflexivity]].
Qed.
Lemma dedup_ids_nodup : forall l, NoDup (dedup_ids l).
Proof.
  induction l as [|a l IH]; cbn; constructor.
  - intros H. apply filter_In in H as [_ H]. now rewrite N.eqb_refl in H.
  - now apply NoDup_filter.
Qed.

Lemma NoDup_nodup_b : forall l : list N, NoDup l -> nodup_b N.eqb l = true.
Proof.
  induction l as [|x l IH]; intros H; [reflexivity|]. inversion H as [|? ? Hx Hl]; subst. cbn.
  rewrite IH by assumption. rewrite andb_true_r. apply negb_true_iff.
  destruct (existsb (N.eqb x) l) eqn:E; [|reflexivity]. exfalso. apply Hx.
  apply existsb_exists in E as (y & Hy & Exy). apply N.eqb_eq in Exy. now subst.
Qed.

Lemma forallb_existsb_incl : forall a b : list N,
  forallb (fun x => existsb (N.eqb x) b) a = true -> incl a b.
Proof.
  intros a b H x Hx. rewrite forallb_forall in H. specialize (H x Hx).
  apply existsb_exists in H as (y & Hy & E). apply N.eqb_eq in E. now subst.
Qed.
Lemma incl_forallb_existsb : forall a b : list N,
  incl a b -> forallb (fun x => existsb (N.eqb x) b) a = true.
Proof.
  intros a b H. apply forallb_forall. intros x Hx. apply existsb_exists. exists x. split; [now apply H|apply N.eqb_refl].
Qed.

Theorem support_oracle_sound :
  (forall t, triple_corr t = true -> triple_prop t = true) /\
  (forall b, batch_corr b = true -> batch_prop b = true).
Proof.
  split.
  - intros [[[[e k] sk] o3] o2] H. unfold triple_corr in H. unfold triple_prop.
    apply andb_true_iff in H as [H3 H2]. rewrite <- supports_triple_spec, H3. cbn [andb].
    destruct o2; try reflexivity.
    + destruct (venue_serves e k) eqn:V; [|reflexivity].
      rewrite (venue_serves_supports_kind _ _ V) in H2. discriminate H2.
    + destruct (supports_kind e k); discriminate H2.
  - intros [l r] H. unfold batch_corr in H. unfold batch_prop. cbn [fst snd] in *.
    unfold validate_batch in H.
    assert (Hok : forallb (fun s : dsub => let '(_, e, k, sk) := s in (routed_pair e sk && venue_serves e k)%bool) l
                  = forallb (fun s : dsub => let '(_, e, k, sk) := s in supports_triple e k sk) l).
    { clear. induction l as [|[[[i e] k] sk] l IH]; cbn; [reflexivity|]. now rewrite IH, supports_triple_spec. }
    rewrite Hok. destruct (forallb _ l); destruct r as [obs sorted| |]; try discriminate H; try reflexivity.
    apply andb_true_iff in H as [Hs ->]. unfold same_ids in Hs.
    apply andb_true_iff in Hs as [Hs H2]. apply andb_true_iff in Hs as [Hlen H1].
    apply Nat.eqb_eq in Hlen.
    set (ids := map (fun s : dsub => fst (fst (fst s))) l) in *.
    pose proof (forallb_existsb_incl _ _ H1) as I1. pose proof (forallb_existsb_incl _ _ H2) as I2.
    assert (Hnd : NoDup obs).
    { apply (NoDup_incl_NoDup (dedup_ids_nodup ids)); [rewrite Hlen; apply le_n|exact I1]. }
    cbn [andb]. rewrite (NoDup_nodup_b _ Hnd). cbn [andb]. apply andb_true_iff. split.
    + apply incl_forallb_existsb. intros x Hx. apply dedup_ids_in. now apply I2.
    + apply incl_forallb_existsb. intros x Hx. apply I1. now apply dedup_ids_in.
Qed.
