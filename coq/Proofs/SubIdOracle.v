(** The executable oracle of Corr/C13.v is no stricter than the model: on every message the
    model's own outcome satisfies [msg_prop].  (Together with [corr_b] - implementation = model -
    a [prop_b] failure is therefore always a deviation of the implementation, and wherever the
    implementation agrees with the model the oracle holds.)  All connectors but Bitfinex, whose
    channel-id indirection is covered by [C13_bitfinex_*] and the correspondence runs. *)
From Coq Require Import String Ascii List ZArith NArith Bool Lia.
From BV Require Import Base.Common Model.SubId Proofs.SubId Corr.C13.
Import ListNotations.
Local Open Scope string_scope.

Lemma side_eqb_refl : forall s, side_eqb s s = true. Proof. destruct s; reflexivity. Qed.
Lemma optZ_eqb_refl : forall t, optZ_eqb t t = true.
Proof. destruct t; cbn; [apply Z.eqb_refl|reflexivity]. Qed.
Lemma exch_eqb_refl : forall e, exch_eqb e e = true. Proof. destruct e; reflexivity. Qed.

Lemma level_ok_level_of : forall p a, level_ok p a (level_of p a) = true.
Proof.
  intros p a. unfold level_of. destruct (Z.eqb p 0) eqn:E; cbn; [exact E|]. now rewrite !Z.eqb_refl.
Qed.

Lemma body_ok_model : forall e sk k it, body_ok sk it (e_body (event_of_item e sk k it)) = true.
Proof.
  intros e sk k it. destruct sk; cbn.
  - rewrite String.eqb_refl, Z.eqb_refl, side_eqb_refl. cbn. rewrite andb_true_r.
    unfold amount_ok, trade_amount.
    destruct e; try (now rewrite Z.eqb_refl); destruct (i_side it); cbn; rewrite ?Z.eqb_refl; try reflexivity;
    now rewrite orb_true_r.
  - now rewrite optZ_eqb_refl, !level_ok_level_of.
  - now rewrite side_eqb_refl, !Z.eqb_refl, optZ_eqb_refl.
Qed.

Lemma events_ok_model : forall e sk ss k items key,
  key_in k ss = true -> (key = None \/ key = Some k) ->
  events_ok e sk ss key items (map OEv (map (event_of_item e sk k) items)) = true.
Proof.
  intros e sk ss k items. induction items as [|it items IH]; intros key Hk Hkey; cbn [map events_ok]; [reflexivity|].
  change (e_key (event_of_item e sk k it)) with k.
  change (e_exch (event_of_item e sk k it)) with e.
  change (e_time (event_of_item e sk k it)) with (i_time it).
  rewrite Hk, exch_eqb_refl, optZ_eqb_refl, body_ok_model. cbn [andb].
  rewrite IH by (assumption || now right).
  destruct Hkey as [->| ->]; cbn; [reflexivity|now rewrite N.eqb_refl].
Qed.

(** ** the model's lookup in terms of subscriptions *)

Lemma lookup_hit : forall e sk subs c x k,
  has_bar c = false -> map_subs e sk subs (sub_id c x) = Some k ->
  exists s, In s subs /\ fst s = k /\ channel_of e sk (kind_of (snd s)) = c /\ market_of e (snd s) = x.
Proof.
  intros e sk subs c x k Hc H. apply map_subs_sound in H as (s & Hin & Hs & Hk).
  unfold sid in Hs. apply sub_id_inj in Hs as [H1 H2]; [|apply channel_no_bar|assumption].
  now exists s.
Qed.

Lemma lookup_some : forall e sk subs s,
  In s subs -> exists k, map_subs e sk subs (sid e sk s) = Some k.
Proof.
  intros e sk subs s Hin. rewrite map_subs_spec.
  destruct (find _ (rev subs)) as [s'|] eqn:F; [now exists (fst s')|].
  apply in_rev in Hin. apply (find_none _ _ F s) in Hin. rewrite String.eqb_refl in Hin. discriminate.
Qed.

Lemma lookup_miss : forall e sk subs c x,
  map_subs e sk subs (sub_id c x) = None ->
  forall s, In s subs -> ~ (channel_of e sk (kind_of (snd s)) = c /\ market_of e (snd s) = x).
Proof.
  intros e sk subs c x H s Hin [H1 H2]. destruct (lookup_some e sk subs s Hin) as [k Hk].
  unfold sid in Hk. rewrite H1, H2, H in Hk. discriminate.
Qed.

(** ** what the id of a message is made of *)

Definition chan_plain (m : msg) : Prop :=
  match m with MData chan _ _ _ => has_bar chan = false | MControl _ => True end.
Definition bybit_plain (e : exch) (m : msg) : Prop :=
  match m with
  | MData _ sym _ _ => family_of e = FBybit -> has_char "."%char sym = false
  | MControl _ => True
  end.

Lemma target_head : forall e sym items t,
  target e sym items = Some t -> exists rest, mentioned e sym items = t :: rest.
Proof.
  intros e sym items t H. unfold target in H. destruct (mentioned e sym items) as [|a rest]; [discriminate|].
  destruct (forallb _ rest); [|discriminate]. injection H as <-. now exists rest.
Qed.

Lemma first_sym_in : forall items x, first_sym items = Some x -> exists rest, map i_sym items = x :: rest.
Proof. intros [|it items] x H; [discriminate|]. injection H as <-. now exists (map i_sym items). Qed.

Lemma id_parts : forall e sk chan sym cid items id,
  e <> Bitfinex -> has_bar chan = false ->
  msg_id e sk (MData chan sym cid items) = IdSome id ->
  exists c x rest,
    id = sub_id c x /\ has_bar c = false /\ mentioned e sym items = x :: rest /\
    (forall k, chan_matches e k chan = true <-> channel_of e sk k = c).
Proof.
  intros e sk chan sym cid items id Hne Hbar H. unfold msg_id in H.
  unfold chan_matches, venue_channel, channel_of, mentioned, has_envelope_sym, has_item_syms.
  destruct (family_of e) eqn:F.
  - (* Binance *)
    destruct (first_sym items) as [x|] eqn:Hf; [|discriminate]. injection H as <-.
    destruct (first_sym_in _ _ Hf) as [rest Hr]. exists (binance_channel sk), x, rest.
    repeat split; try (now destruct sk); try assumption; try (cbn; exact Hr).
  - destruct e; try discriminate. now elim Hne.
  - (* Bitmex *)
    destruct (first_sym items) as [x|] eqn:Hf; [|discriminate]. injection H as <-.
    destruct (first_sym_in _ _ Hf) as [rest Hr]. exists chan, x, rest.
    repeat split; try assumption.
    + intros E. apply String.eqb_eq in E. now subst.
    + intros E. apply String.eqb_eq. now subst.
  - (* Bybit *)
    destruct (String.eqb chan "publicTrade" && negb (has_char "."%char sym))%bool eqn:E; [|discriminate].
    injection H as <-. apply andb_true_iff in E as [E _]. apply String.eqb_eq in E. subst chan.
    exists "publicTrade", sym, (map i_sym items). repeat split; reflexivity.
  - (* Coinbase *)
    destruct (first_sym items) as [x|] eqn:Hf; [|discriminate]. injection H as <-.
    destruct (first_sym_in _ _ Hf) as [rest Hr]. exists "matches", x, rest.
    repeat split; try reflexivity; try (cbn; exact Hr).
  - (* Gateio *)
    assert (Hid : match first_sym items with Some s => IdSome (sub_id chan s) | None => IdNone end = IdSome id
                  \/ match first_sym items with Some s => IdSome (sub_id chan s) | None => IdDeser end = IdSome id)
      by (destruct e; try discriminate; auto).
    destruct (first_sym items) as [x|] eqn:Hf; [|destruct Hid; discriminate].
    assert (id = sub_id chan x) by (destruct Hid as [Hid|Hid]; now injection Hid). subst id.
    destruct (first_sym_in _ _ Hf) as [rest Hr]. exists chan, x, rest.
    repeat split; try assumption.
    + intros E. apply String.eqb_eq in E. subst chan. now destruct k.
    + intros E. apply String.eqb_eq. subst chan. now destruct k.
  - (* Kraken *)
    injection H as <-. exists (kraken_channel sk), sym, []. repeat split; try (now destruct sk).
  - (* Okx *)
    injection H as <-. exists chan, sym, (map i_sym items). repeat split; try assumption.
    + intros E. apply String.eqb_eq in E. now subst.
    + intros E. apply String.eqb_eq. now subst.
  - discriminate.
Qed.

(** ** main theorem *)

Theorem oracle_accepts_model : forall e sk subs confs m,
  e <> Bitfinex -> family_of e <> FNone ->
  strikes_plain subs -> msg_ok e sk m = true -> chan_plain m -> bybit_plain e m ->
  msg_prop e sk subs confs m (transform e sk (transformer_map e sk subs confs) m) = true.
Proof.
  intros e sk subs confs m Hne Hfam Hp Hok Hcp Hbp.
  rewrite transformer_map_other by assumption.
  destruct m as [chan sym cid items|v]; [|reflexivity].
  cbn in Hcp, Hbp. unfold msg_prop, transform.
  assert (Htgt : (match e with Bitfinex => Some EmptyString | _ => target e sym items end) = target e sym items)
    by (destruct e; try reflexivity; now elim Hne).
  rewrite Htgt. clear Htgt.
  assert (Hsf : forall s0, subs_for e subs confs chan s0 cid =
           filter (fun s => chan_matches e (kind_of (snd s)) chan && String.eqb (venue_symbol e (snd s)) s0) subs)
    by (intros; destruct e; try reflexivity; now elim Hne).
  destruct (msg_id e sk (MData chan sym cid items)) as [| |id] eqn:Hid.
  - (* no id: no output *)
    cbn. destruct (target e sym items) as [t|] eqn:Ht; [|reflexivity].
    exfalso. unfold msg_id in Hid. apply target_head in Ht as [rest Hr].
    unfold mentioned, has_envelope_sym, has_item_syms in Hr.
    assert (Hbatch : match first_sym items with Some s => IdSome (sub_id chan s) | None => IdNone end = IdNone ->
                     (map i_sym items = t :: rest) -> False).
    { intros H1 H2. destruct items; [discriminate H2|discriminate H1]. }
    destruct (family_of e) eqn:F.
    + destruct (first_sym items); discriminate Hid.
    + destruct e; try discriminate F. now elim Hne.
    + exact (Hbatch Hid Hr).
    + destruct (String.eqb chan "publicTrade" && _)%bool; discriminate Hid.
    + destruct (first_sym items); discriminate Hid.
    + destruct e; try discriminate F; try exact (Hbatch Hid Hr).
      destruct (first_sym items); discriminate Hid.
    + discriminate Hid.
    + discriminate Hid.
    + now elim Hfam.
  - (* not deserialisable *)
    cbn. destruct (target e sym items) as [t|] eqn:Ht; [|reflexivity].
    unfold msg_id in Hid. unfold msg_ok, single_item in Hok. apply andb_true_iff in Hok as [_ Hok].
    assert (Hsingle : forall c0, (if true then Nat.eqb (List.length items) 1 else true) = true ->
              match first_sym items with Some s => IdSome (sub_id c0 s) | None => IdDeser end = IdDeser -> False).
    { intros c0 H1 H2. destruct items; [discriminate H1|discriminate H2]. }
    assert (Hbatch : match first_sym items with Some s => IdSome (sub_id chan s) | None => IdNone end = IdDeser -> False).
    { intros H1. destruct (first_sym items); discriminate H1. }
    destruct (family_of e) eqn:F.
    + exfalso. exact (Hsingle _ Hok Hid).
    + destruct e; try discriminate F. now elim Hne.
    + exfalso. exact (Hbatch Hid).
    + (* Bybit: foreign topic *)
      destruct (String.eqb chan "publicTrade") eqn:Ec.
      * rewrite (Hbp eq_refl) in Hid. discriminate Hid.
      * assert (Hcm : forall k, chan_matches e k chan = false).
        { intros k. unfold chan_matches, venue_channel. rewrite F. now rewrite String.eqb_sym. }
        rewrite Hsf.
        assert (Hnil : filter (fun s => chan_matches e (kind_of (snd s)) chan && String.eqb (venue_symbol e (snd s)) t) subs = []).
        { clear -Hcm. induction subs as [|s subs IH]; cbn; [reflexivity|]. now rewrite Hcm. }
        rewrite Hnil. apply negb_true_iff.
        clear -Hcm. induction subs as [|s subs IH]; cbn; [reflexivity|]. now rewrite Hcm.
    + exfalso. exact (Hsingle _ Hok Hid).
    + exfalso. destruct e; try discriminate F; try exact (Hbatch Hid). exact (Hsingle _ Hok Hid).
    + discriminate Hid.
    + discriminate Hid.
    + discriminate Hid.
  - (* an id: lookup *)
    destruct (id_parts _ _ _ _ _ _ _ Hne Hcp Hid) as (c & x & rest & -> & Hbar & Hment & Hcm).
    destruct (map_subs e sk subs (sub_id c x)) as [k|] eqn:Hk.
    + destruct (lookup_hit _ _ _ _ _ _ Hbar Hk) as (s & Hin & Hkey & Hch & Hmk).
      rewrite market_is_venue_symbol in Hmk by (now apply Hp).
      assert (Hnamed : only_named e subs confs sym cid items (OOut (map OEv (events e sk k (MData chan sym cid items)))) = true).
      { unfold only_named. apply forallb_forall. intros o Ho. apply in_map_iff in Ho as (ev & <- & Hev).
        apply events_exch in Hev as [_ Hevk]. apply existsb_exists. exists s. split; [assumption|].
        rewrite Hkey, Hevk, N.eqb_refl. cbn.
        assert (existsb (String.eqb (venue_symbol e (snd s))) (mentioned e sym items) = true).
        { rewrite Hment, Hmk. cbn. now rewrite String.eqb_refl. }
        destruct e; try assumption. now elim Hne. }
      rewrite Hnamed. cbn [andb].
      destruct (target e sym items) as [t|] eqn:Ht; [|reflexivity].
      apply target_head in Ht as [rest' Hr]. rewrite Hment in Hr. injection Hr as <- _.
      rewrite Hsf.
      assert (HinS : In s (filter (fun s0 => chan_matches e (kind_of (snd s0)) chan && String.eqb (venue_symbol e (snd s0)) x) subs)).
      { apply filter_In. split; [assumption|]. apply andb_true_iff. split; [now apply Hcm|]. now apply String.eqb_eq. }
      destruct (filter _ subs) as [|s0 ss] eqn:Hfl; [contradiction|].
      cbn [events]. apply events_ok_model; [|now left].
      unfold key_in, keys_of. apply existsb_exists. exists (fst s). split; [now apply in_map|].
      rewrite Hkey. apply N.eqb_refl.
    + assert (Hnamed : only_named e subs confs sym cid items (OOut [OUnident (sub_id c x)]) = true) by reflexivity.
      rewrite Hnamed. cbn [andb].
      destruct (target e sym items) as [t|] eqn:Ht; [|reflexivity].
      apply target_head in Ht as [rest' Hr]. rewrite Hment in Hr. injection Hr as <- _.
      rewrite Hsf.
      assert (Hnil : filter (fun s0 => chan_matches e (kind_of (snd s0)) chan && String.eqb (venue_symbol e (snd s0)) x) subs = []).
      { pose proof (lookup_miss _ _ _ _ _ Hk) as Hmiss.
        assert (Hall : forall s, In s subs -> (chan_matches e (kind_of (snd s)) chan && String.eqb (venue_symbol e (snd s)) x) = false).
        { intros s Hin. destruct (chan_matches e (kind_of (snd s)) chan) eqn:E1; [|reflexivity].
          destruct (String.eqb (venue_symbol e (snd s)) x) eqn:E2; [|reflexivity].
          exfalso. apply (Hmiss s Hin). split; [now apply Hcm|].
          rewrite market_is_venue_symbol by (now apply Hp). now apply String.eqb_eq. }
        clear -Hall. induction subs as [|s subs IH]; cbn; [reflexivity|].
        rewrite (Hall s (or_introl eq_refl)). apply IH. intros; apply Hall; now right. }
      now rewrite Hnil.
Qed.
