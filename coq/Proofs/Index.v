(** Lemmas about Model/Index.v : sort + dedup yields the strictly sorted enumeration of the key
    set, index = position, lookups are inverse, references resolve, order independence, derived
    tables are aligned. *)
From BV Require Import Base.Common Model.Index.
From Coq Require Import Permutation.

(* ------------------------------------------------------------------------------------------ *)
(** * generic facts: sort, dedup *)

Section SortDedupFacts.
  Context {A K : Type}.
  Variable key : A -> K.
  Variable kltb keqb : K -> K -> bool.
  Hypothesis lt_irrefl : forall a, kltb a a = false.
  Hypothesis lt_trans : forall a b c, kltb a b = true -> kltb b c = true -> kltb a c = true.
  Hypothesis lt_total : forall a b, kltb a b = false -> kltb b a = false -> a = b.
  Hypothesis keqb_spec : forall a b, keqb a b = true <-> a = b.

  Lemma lt_asym : forall a b, kltb a b = true -> kltb b a = false.
  Proof.
    intros a b H. destruct (kltb b a) eqn:E; [|reflexivity].
    pose proof (lt_trans _ _ _ H E) as T. rewrite lt_irrefl in T. discriminate.
  Qed.

  Lemma lt_tri : forall a b, kltb a b = true \/ a = b \/ kltb b a = true.
  Proof.
    intros a b. destruct (kltb a b) eqn:E1; [now left|]. destruct (kltb b a) eqn:E2; [now right; right|].
    right; left. now apply lt_total.
  Qed.

  (** weakly sorted / strictly sorted by key *)
  Fixpoint wsorted (l : list A) : Prop :=
    match l with [] => True | x :: t => (forall y, In y t -> kltb (key y) (key x) = false) /\ wsorted t end.
  Fixpoint ssorted (l : list A) : Prop :=
    match l with [] => True | x :: t => (forall y, In y t -> kltb (key x) (key y) = true) /\ ssorted t end.

  Lemma in_insert : forall x l y, In y (insert key kltb x l) <-> y = x \/ In y l.
  Proof.
    intros x l y. induction l as [|a t IH]; cbn [insert].
    - cbn. intuition congruence.
    - destruct (kltb (key a) (key x)); cbn [In]; [rewrite IH|]; intuition congruence.
  Qed.

  Lemma in_sort : forall l y, In y (sort key kltb l) <-> In y l.
  Proof.
    induction l as [|a t IH]; intros y; cbn [sort fold_right]; [tauto|].
    fold (sort key kltb t). rewrite in_insert, IH. cbn. intuition congruence.
  Qed.

  Lemma insert_wsorted : forall x l, wsorted l -> wsorted (insert key kltb x l).
  Proof.
    intros x l. induction l as [|a t IH]; intros H; cbn [insert].
    - cbn. split; [intros y []|exact I].
    - destruct H as [Ha Ht]. destruct (kltb (key a) (key x)) eqn:E.
      + cbn [wsorted]. split; [|now apply IH].
        intros y Hy. apply in_insert in Hy. destruct Hy as [->|Hy]; [now apply lt_asym|now apply Ha].
      + cbn [wsorted]. split; [|split; assumption].
        intros y [<-|Hy]; [exact E|].
        specialize (Ha y Hy). destruct (kltb (key y) (key x)) eqn:E2; [|reflexivity].
        destruct (lt_tri (key x) (key a)) as [H1|[H1|H1]].
        * now rewrite (lt_trans _ _ _ E2 H1) in Ha.
        * rewrite <- H1 in Ha. now rewrite E2 in Ha.
        * now rewrite H1 in E.
  Qed.

  Lemma sort_wsorted : forall l, wsorted (sort key kltb l).
  Proof. induction l as [|a t IH]; cbn; [exact I|]. now apply insert_wsorted. Qed.

  Lemma dedup_from_in : forall l p y, In y (dedup_from key keqb p l) -> In y l.
  Proof.
    induction l as [|a t IH]; intros p y; cbn [dedup_from]; [tauto|].
    destruct (keqb (key p) (key a)); cbn [In]; intros H.
    - right. eauto.
    - destruct H as [H|H]; [now left|right; eauto].
  Qed.

  Lemma dedup_from_keys : forall l p y, In y l ->
    key y = key p \/ exists z, In z (dedup_from key keqb p l) /\ key z = key y.
  Proof.
    induction l as [|a t IH]; intros p y; cbn [dedup_from In]; [tauto|].
    intros [<-|Hy].
    - destruct (keqb (key p) (key a)) eqn:E.
      + apply keqb_spec in E. now left.
      + right. exists a. cbn. auto.
    - destruct (keqb (key p) (key a)) eqn:E.
      + now apply IH.
      + destruct (IH a y Hy) as [H|[z [Hz Hk]]].
        * right. exists a. cbn. auto.
        * right. exists z. cbn. auto.
  Qed.

  Lemma dedup_from_ssorted : forall l p, wsorted l ->
    (forall y, In y l -> kltb (key y) (key p) = false) ->
    ssorted (dedup_from key keqb p l) /\
    (forall z, In z (dedup_from key keqb p l) -> kltb (key p) (key z) = true).
  Proof.
    induction l as [|a t IH]; intros p Hs Hp; cbn [dedup_from].
    - split; [exact I|intros z []].
    - destruct Hs as [Ha Ht]. destruct (keqb (key p) (key a)) eqn:E.
      + apply keqb_spec in E. apply IH; [assumption|].
        intros y Hy. rewrite E. now apply Ha.
      + assert (Hpa : kltb (key p) (key a) = true).
        { destruct (lt_tri (key p) (key a)) as [H|[H|H]]; [assumption| |].
          - apply keqb_spec in H. now rewrite H in E.
          - rewrite (Hp a (or_introl eq_refl)) in H. discriminate. }
        destruct (IH a Ht Ha) as [IH1 IH2].
        split.
        * cbn [ssorted]. split; assumption.
        * intros z [<-|Hz]; [assumption|]. eapply lt_trans; [exact Hpa|now apply IH2].
  Qed.

  Lemma sort_dedup_ssorted : forall l, ssorted (sort_dedup key kltb keqb l).
  Proof.
    intros l. unfold sort_dedup, dedup. pose proof (sort_wsorted l) as H.
    destruct (sort key kltb l) as [|x t]; [exact I|]. destruct H as [Hx Ht].
    destruct (dedup_from_ssorted t x Ht Hx). cbn [ssorted]. split; assumption.
  Qed.

  Lemma sort_dedup_in : forall l y, In y (sort_dedup key kltb keqb l) -> In y l.
  Proof.
    intros l y. unfold sort_dedup, dedup. intros H. apply in_sort.
    destruct (sort key kltb l) as [|x t]; [assumption|].
    destruct H as [H|H]; [now left|right; eapply dedup_from_in; eassumption].
  Qed.

  Lemma sort_dedup_keys : forall l y, In y l ->
    exists z, In z (sort_dedup key kltb keqb l) /\ key z = key y.
  Proof.
    intros l y Hy. apply in_sort in Hy. unfold sort_dedup, dedup.
    destruct (sort key kltb l) as [|x t]; [destruct Hy|].
    destruct Hy as [<-|Hy]; [exists x; cbn; auto|].
    destruct (dedup_from_keys t x y Hy) as [H|[z [Hz Hk]]].
    - exists x. cbn. auto.
    - exists z. cbn. auto.
  Qed.

  Lemma sort_dedup_keyset : forall l k,
    In k (map key (sort_dedup key kltb keqb l)) <-> In k (map key l).
  Proof.
    intros l k. rewrite !in_map_iff. split.
    - intros [z [Hk Hz]]. exists z. split; [assumption|now apply sort_dedup_in].
    - intros [y [Hk Hy]]. destruct (sort_dedup_keys l y Hy) as [z [Hz Hkz]].
      exists z. split; [congruence|assumption].
  Qed.

  Lemma ssorted_NoDup : forall l, ssorted l -> NoDup (map key l).
  Proof.
    induction l as [|x t IH]; intros H; cbn; [constructor|].
    destruct H as [Hx Ht]. constructor; [|now apply IH].
    intros Hin. apply in_map_iff in Hin. destruct Hin as [y [Hk Hy]].
    specialize (Hx y Hy). rewrite Hk in Hx. now rewrite lt_irrefl in Hx.
  Qed.

  (** a strictly sorted list is determined by its key set *)
  Lemma ssorted_ext : forall l1 l2, ssorted l1 -> ssorted l2 ->
    (forall k, In k (map key l1) <-> In k (map key l2)) -> map key l1 = map key l2.
  Proof.
    induction l1 as [|x t1 IH]; intros l2 H1 H2 Hk.
    - destruct l2 as [|y t2]; [reflexivity|]. exfalso. apply (Hk (key y)). cbn. auto.
    - destruct l2 as [|y t2]; [exfalso; apply (Hk (key x)); cbn; auto|].
      destruct H1 as [Hx Ht1]. destruct H2 as [Hy Ht2].
      assert (E : key x = key y).
      { destruct (proj1 (Hk (key x)) (or_introl eq_refl)) as [E|Hin]; [now symmetry|].
        destruct (proj2 (Hk (key y)) (or_introl eq_refl)) as [E|Hin2]; [assumption|].
        apply in_map_iff in Hin. destruct Hin as [b [Hb1 Hb2]].
        apply in_map_iff in Hin2. destruct Hin2 as [a [Ha1 Ha2]].
        pose proof (Hy b Hb2) as L1. pose proof (Hx a Ha2) as L2.
        rewrite Hb1 in L1. rewrite Ha1 in L2. apply lt_asym in L1. congruence. }
      cbn [map]. f_equal; [assumption|]. apply IH; [assumption..|].
      intros k. split; intros Hin.
      + destruct (proj1 (Hk k) (or_intror Hin)) as [E2|H]; [|assumption]. exfalso.
        apply in_map_iff in Hin. destruct Hin as [a [Ha1 Ha2]]. pose proof (Hx a Ha2) as L.
        rewrite Ha1, <- E2, E in L. now rewrite lt_irrefl in L.
      + destruct (proj2 (Hk k) (or_intror Hin)) as [E2|H]; [|assumption]. exfalso.
        apply in_map_iff in Hin. destruct Hin as [a [Ha1 Ha2]]. pose proof (Hy a Ha2) as L.
        rewrite Ha1, <- E2, E in L. now rewrite lt_irrefl in L.
  Qed.

  Lemma map_key_inj : forall (P : A -> Prop) l1 l2,
    (forall a b, P a -> P b -> key a = key b -> a = b) ->
    (forall a, In a l1 -> P a) -> (forall a, In a l2 -> P a) ->
    map key l1 = map key l2 -> l1 = l2.
  Proof.
    intros P. induction l1 as [|x t IH]; intros [|y t2] Hf H1 H2 E; try discriminate; [reflexivity|].
    cbn in E. injection E as E1 E2. f_equal.
    - apply Hf; [apply H1|apply H2|assumption]; cbn; auto.
    - apply IH; auto; intros a Ha; [apply H1|apply H2]; cbn; auto.
  Qed.

  (** order independence at key level, and at element level when keys are faithful *)
  Lemma sort_dedup_perm_keys : forall l l', (forall k, In k (map key l) <-> In k (map key l')) ->
    map key (sort_dedup key kltb keqb l) = map key (sort_dedup key kltb keqb l').
  Proof.
    intros l l' H. apply ssorted_ext; try apply sort_dedup_ssorted.
    intros k. rewrite !sort_dedup_keyset. apply H.
  Qed.

  Lemma sort_dedup_perm : forall l l',
    (forall a b, In a l -> In b l -> key a = key b -> a = b) ->
    (forall a, In a l <-> In a l') ->
    sort_dedup key kltb keqb l = sort_dedup key kltb keqb l'.
  Proof.
    intros l l' Hf Hin. apply (map_key_inj (fun a => In a l)); [exact Hf|..].
    - intros a. apply sort_dedup_in.
    - intros a Ha. apply Hin. now apply sort_dedup_in in Ha.
    - apply sort_dedup_perm_keys. intros k. rewrite !in_map_iff.
      split; intros [a [Hk Ha]]; exists a; (split; [assumption|now apply Hin]).
  Qed.
End SortDedupFacts.

(* ------------------------------------------------------------------------------------------ *)
(** * the concrete orders are strict total orders *)

Lemma Nlt_irrefl : forall a, N.ltb a a = false.
Proof. intros. apply N.ltb_irrefl. Qed.
Lemma Nlt_trans : forall a b c, N.ltb a b = true -> N.ltb b c = true -> N.ltb a c = true.
Proof. intros a b c. rewrite !N.ltb_lt. lia. Qed.
Lemma Nlt_total : forall a b, N.ltb a b = false -> N.ltb b a = false -> a = b.
Proof. intros a b. rewrite !N.ltb_ge. lia. Qed.
Lemma Neqb_spec : forall a b, N.eqb a b = true <-> a = b.
Proof. intros. apply N.eqb_eq. Qed.

Section PairOrder.
  Context {A B : Type}.
  Variable lta eqa : A -> A -> bool.
  Variable ltb : B -> B -> bool.
  Hypothesis a_irrefl : forall a, lta a a = false.
  Hypothesis a_trans : forall a b c, lta a b = true -> lta b c = true -> lta a c = true.
  Hypothesis a_total : forall a b, lta a b = false -> lta b a = false -> a = b.
  Hypothesis a_eqb : forall a b, eqa a b = true <-> a = b.
  Hypothesis b_irrefl : forall a, ltb a a = false.
  Hypothesis b_trans : forall a b c, ltb a b = true -> ltb b c = true -> ltb a c = true.
  Hypothesis b_total : forall a b, ltb a b = false -> ltb b a = false -> a = b.

  Lemma a_eqb_refl : forall a, eqa a a = true.
  Proof. intros. now apply a_eqb. Qed.

  Lemma pair_irrefl : forall x, pair_ltb lta eqa ltb x x = false.
  Proof. intros [a b]. unfold pair_ltb. cbn. now rewrite a_irrefl, b_irrefl, andb_false_r. Qed.

  Lemma pair_trans : forall x y z, pair_ltb lta eqa ltb x y = true -> pair_ltb lta eqa ltb y z = true ->
    pair_ltb lta eqa ltb x z = true.
  Proof.
    intros [a1 b1] [a2 b2] [a3 b3]. unfold pair_ltb. cbn.
    rewrite !orb_true_iff, !andb_true_iff, !a_eqb.
    intros [H1|[-> H1]] [H2|[-> H2]].
    - left. eauto.
    - now left.
    - now left.
    - right. split; [reflexivity|eauto].
  Qed.

  Lemma pair_total : forall x y, pair_ltb lta eqa ltb x y = false -> pair_ltb lta eqa ltb y x = false -> x = y.
  Proof.
    intros [a1 b1] [a2 b2]. unfold pair_ltb. cbn.
    rewrite !orb_false_iff, !andb_false_iff.
    intros [H1 H1'] [H2 H2']. assert (a1 = a2) by now apply a_total. subst a2.
    rewrite a_eqb_refl in *. f_equal. apply b_total.
    - destruct H1' as [H|H]; [discriminate|assumption].
    - destruct H2' as [H|H]; [discriminate|assumption].
  Qed.
End PairOrder.

Lemma pair_eqb_spec {A B} (ea : A -> A -> bool) (eb : B -> B -> bool) :
  (forall a b, ea a b = true <-> a = b) -> (forall a b, eb a b = true <-> a = b) ->
  forall x y, pair_eqb ea eb x y = true <-> x = y.
Proof.
  intros Ha Hb [a1 b1] [a2 b2]. unfold pair_eqb. cbn. rewrite andb_true_iff, Ha, Hb.
  split; [intros [-> ->]; reflexivity|intros E; injection E; auto].
Qed.

Lemma asset_irrefl : forall a, asset_ltb a a = false.
Proof. apply pair_irrefl; apply Nlt_irrefl. Qed.
Lemma asset_trans : forall a b c, asset_ltb a b = true -> asset_ltb b c = true -> asset_ltb a c = true.
Proof. apply pair_trans; [exact Nlt_trans|exact Neqb_spec|exact Nlt_trans]. Qed.
Lemma asset_total : forall a b, asset_ltb a b = false -> asset_ltb b a = false -> a = b.
Proof. apply pair_total; [exact Nlt_total|exact Neqb_spec|exact Nlt_total]. Qed.
Lemma asset_eqb_spec : forall a b, asset_eqb a b = true <-> a = b.
Proof. apply pair_eqb_spec; apply Neqb_spec. Qed.
Lemma akey_irrefl : forall a, akey_ltb a a = false.
Proof. apply pair_irrefl; [apply Nlt_irrefl|apply asset_irrefl]. Qed.
Lemma akey_trans : forall a b c, akey_ltb a b = true -> akey_ltb b c = true -> akey_ltb a c = true.
Proof. apply pair_trans; [exact Nlt_trans|exact Neqb_spec|exact asset_trans]. Qed.
Lemma akey_total : forall a b, akey_ltb a b = false -> akey_ltb b a = false -> a = b.
Proof. apply pair_total; [exact Nlt_total|exact Neqb_spec|exact asset_total]. Qed.
Lemma akey_eqb_spec : forall a b, akey_eqb a b = true <-> a = b.
Proof. apply pair_eqb_spec; [apply Neqb_spec|apply asset_eqb_spec]. Qed.

(* ------------------------------------------------------------------------------------------ *)
(** * enumerate, find, map_opt, IndexMap collect *)

Lemma nth_enum_from {A} : forall (l : list A) n i,
  nth_error (enum_from n l) i = option_map (fun x => ((n + N.of_nat i)%N, x)) (nth_error l i).
Proof.
  induction l as [|a t IH]; intros n [|i]; cbn [enum_from nth_error option_map]; try reflexivity.
  - do 2 f_equal. lia.
  - rewrite IH. destruct (nth_error t i); cbn [option_map]; [|reflexivity]. do 2 f_equal. lia.
Qed.

Lemma dense_enum {A} (l : list A) : dense (enum_from 0 l).
Proof.
  intros i kv H. rewrite nth_enum_from in H. destruct (nth_error l i); cbn in H; [|discriminate].
  injection H as <-. cbn. lia.
Qed.

Lemma map_snd_enum {A} : forall (l : list A) n, map snd (enum_from n l) = l.
Proof. induction l; intros; cbn; [reflexivity|now rewrite IHl]. Qed.

Lemma length_enum {A} : forall (l : list A) n, length (enum_from n l) = length l.
Proof. induction l; intros; cbn; [reflexivity|now rewrite IHl]. Qed.

Lemma map_enum {A B} (f : A -> B) : forall l n,
  map (fun kv => (fst kv, f (snd kv))) (enum_from n l) = enum_from n (map f l).
Proof. induction l; intros; cbn; [reflexivity|now rewrite IHl]. Qed.

Lemma find_value_enum {V} : forall (l : list V) n i,
  find_value (n + N.of_nat i) (enum_from n l) = nth_error l i.
Proof.
  unfold find_value. induction l as [|a t IH]; intros n i; cbn [enum_from find].
  - destruct i; reflexivity.
  - cbn [fst]. destruct i as [|i].
    + replace (n + N.of_nat 0)%N with n by lia. rewrite N.eqb_refl. reflexivity.
    + destruct (N.eqb_spec n (n + N.of_nat (S i))) as [E|E]; [lia|].
      replace (n + N.of_nat (S i))%N with (N.succ n + N.of_nat i)%N by lia. apply IH.
Qed.

Lemma find_value_enum_some {V} : forall (l : list V) n k v,
  find_value k (enum_from n l) = Some v -> exists i, k = (n + N.of_nat i)%N /\ nth_error l i = Some v.
Proof.
  unfold find_value. induction l as [|a t IH]; intros n k v; cbn [enum_from find]; [discriminate|].
  cbn [fst]. destruct (N.eqb_spec n k) as [E|E].
  - cbn. intros H. injection H as <-. exists 0%nat. split; [lia|reflexivity].
  - intros H. destruct (IH _ _ _ H) as [i [Hk Hi]]. exists (S i). split; [lia|exact Hi].
Qed.

Lemma find_value0 {V} : forall (l : list V) k, find_value k (enum_from 0 l) = nth_error l (N.to_nat k).
Proof.
  intros l k. replace k with (0 + N.of_nat (N.to_nat k))%N at 1 by lia. apply find_value_enum.
Qed.

Lemma find_key_enum_some {V} (p : V -> bool) : forall (l : list V) n k,
  find_key p (enum_from n l) = Some k ->
  exists i x, k = (n + N.of_nat i)%N /\ nth_error l i = Some x /\ p x = true /\
              (forall j y, (j < i)%nat -> nth_error l j = Some y -> p y = false).
Proof.
  unfold find_key. induction l as [|a t IH]; intros n k; cbn [enum_from find]; [discriminate|].
  cbn [snd]. destruct (p a) eqn:E.
  - cbn. intros H. injection H as <-. exists 0%nat, a. repeat split; [lia|assumption|]. intros j y Hj. lia.
  - intros H. destruct (IH _ _ H) as [i [x [Hk [Hi [Hp Hfirst]]]]].
    exists (S i), x. repeat split; [lia|assumption..|].
    intros [|j] y Hj; cbn; [intros E2; injection E2 as <-; assumption|]. apply Hfirst. lia.
Qed.

Lemma find_key_enum_first {V} (p : V -> bool) : forall (l : list V) n i x,
  nth_error l i = Some x -> p x = true ->
  (forall j y, (j < i)%nat -> nth_error l j = Some y -> p y = false) ->
  find_key p (enum_from n l) = Some (n + N.of_nat i)%N.
Proof.
  unfold find_key. induction l as [|a t IH]; intros n i x; [destruct i; discriminate|].
  cbn [enum_from find snd]. destruct i as [|i]; cbn [nth_error].
  - intros H Hp _. injection H as ->. rewrite Hp. cbn. f_equal. lia.
  - intros H Hp Hfirst. rewrite (Hfirst 0%nat a (Nat.lt_0_succ i) eq_refl).
    rewrite (IH (N.succ n) i x H Hp); [f_equal; lia|].
    intros j y Hj Hy. apply (Hfirst (S j) y); [lia|exact Hy].
Qed.

Lemma find_key_enum_unique {V} (p : V -> bool) : forall (l : list V) n i x,
  nth_error l i = Some x -> p x = true ->
  (forall j y, nth_error l j = Some y -> p y = true -> j = i) ->
  find_key p (enum_from n l) = Some (n + N.of_nat i)%N.
Proof.
  intros l n i x H Hp Hu. eapply find_key_enum_first; eauto.
  intros j y Hj Hy. destruct (p y) eqn:E; [|reflexivity]. specialize (Hu j y Hy E). lia.
Qed.

Lemma find_key_enum_none {V} (p : V -> bool) : forall (l : list V) n,
  find_key p (enum_from n l) = None -> forall x, In x l -> p x = false.
Proof.
  unfold find_key. induction l as [|a t IH]; intros n H x []; cbn [enum_from find snd] in H.
  - subst. destruct (p x); [discriminate|reflexivity].
  - destruct (p a); [discriminate|]. eauto.
Qed.

Lemma NoDup_nth_inj {A} : forall (l : list A) i j x, NoDup l ->
  nth_error l i = Some x -> nth_error l j = Some x -> i = j.
Proof.
  intros l i j x Hn Hi Hj. apply NoDup_nth_error with (l := l); try assumption.
  - apply nth_error_Some. congruence.
  - congruence.
Qed.

Lemma map_opt_enum {A B} (g : A -> option B) : forall (l : list A) n ins,
  map_opt (fun kd : N * A => option_map (fun i => (fst kd, i)) (g (snd kd))) (enum_from n l) = Some ins ->
  exists rs, ins = enum_from n rs /\ Forall2 (fun d r => g d = Some r) l rs.
Proof.
  induction l as [|a t IH]; intros n ins; cbn [enum_from map_opt].
  - intros H. injection H as <-. exists []. split; [reflexivity|constructor].
  - cbn [fst snd]. destruct (g a) as [r|] eqn:E; cbn [option_map]; [|discriminate].
    destruct (map_opt _ (enum_from (N.succ n) t)) as [ys|] eqn:E2; [|discriminate].
    intros H. injection H as <-. destruct (IH _ _ E2) as [rs [-> HF]].
    exists (r :: rs). split; [reflexivity|]. constructor; assumption.
Qed.

Lemma map_opt_enum_total {A B} (g : A -> option B) : forall (l : list A) n,
  (forall a, In a l -> g a <> None) ->
  exists ins, map_opt (fun kd : N * A => option_map (fun i => (fst kd, i)) (g (snd kd))) (enum_from n l) = Some ins.
Proof.
  induction l as [|a t IH]; intros n H; cbn [enum_from map_opt]; [eexists; reflexivity|].
  cbn [fst snd]. destruct (g a) as [r|] eqn:E; [|exfalso; apply (H a); cbn; auto].
  cbn [option_map]. destruct (IH (N.succ n)) as [ys ->]; [intros; apply H; cbn; auto|].
  eexists; reflexivity.
Qed.

Lemma im_insert_fresh {K V} (eqb : K -> K -> bool) :
  (forall a b, eqb a b = true -> a = b) ->
  forall (m : list (K * V)) k v, ~ In k (map fst m) -> im_insert eqb k v m = m ++ [(k, v)].
Proof.
  intros Heq. induction m as [|[k' v'] t IH]; intros k v Hn; cbn [im_insert app]; [reflexivity|].
  destruct (eqb k' k) eqn:E.
  - exfalso. apply Hn. cbn. left. now apply Heq.
  - rewrite IH; [reflexivity|]. intros Hin. apply Hn. cbn. now right.
Qed.

Lemma im_collect_nodup {K V} (eqb : K -> K -> bool) :
  (forall a b, eqb a b = true -> a = b) ->
  forall (l : list (K * V)), NoDup (map fst l) -> im_collect eqb l = l.
Proof.
  intros Heq l. unfold im_collect.
  assert (G : forall (l acc : list (K * V)), NoDup (map fst (acc ++ l)) ->
              fold_left (fun m kv => im_insert eqb (fst kv) (snd kv) m) l acc = acc ++ l).
  { clear l. induction l as [|[k v] t IH]; intros acc Hn; cbn [fold_left]; [now rewrite app_nil_r|].
    cbn [fst snd]. rewrite im_insert_fresh; [|assumption|].
    - rewrite IH; rewrite <- app_assoc; [reflexivity|exact Hn].
    - rewrite map_app in Hn. cbn in Hn. apply NoDup_remove_2 in Hn.
      intros Hin. apply Hn. apply in_or_app. now left. }
  intros Hn. now rewrite G.
Qed.

Lemma NoDup_map_transfer {A B C} (f : A -> B) (g : A -> C) : forall l,
  NoDup (map g l) -> (forall a b, In a l -> In b l -> f a = f b -> g a = g b) -> NoDup (map f l).
Proof.
  induction l as [|x t IH]; intros Hn Hfg; cbn; [constructor|].
  cbn in Hn. inversion Hn as [|? ? Hx Ht]; subst. constructor.
  - intros Hin. apply in_map_iff in Hin. destruct Hin as [y [Hy1 Hy2]].
    apply Hx. apply in_map_iff. exists y. split; [|assumption].
    apply Hfg; cbn; auto.
  - apply IH; [assumption|]. intros; apply Hfg; cbn; auto.
Qed.

(* ------------------------------------------------------------------------------------------ *)
(** * the builder *)

Definition EXS (l : list def) : list N := sd_exchanges (collect_exchanges l).
Definition ASS (l : list def) : list akey := sd_assets (collect_assets l).

Lemma builder_fold : forall l b,
  fold_left add_instrument l b =
  mkBuilder (b_exchanges b ++ collect_exchanges l) (b_instruments b ++ l) (b_assets b ++ collect_assets l).
Proof.
  induction l as [|d t IH]; intros [e i a]; cbn [fold_left].
  - cbn. now rewrite !app_nil_r.
  - rewrite IH. unfold add_instrument, collect_exchanges, collect_assets.
    cbn [b_exchanges b_instruments b_assets map flat_map]. rewrite <- !app_assoc. reflexivity.
Qed.

Definition remap_entry (l : list def) (kd : N * def) : option (N * instr (N * N) N) :=
  option_map (fun i => (fst kd, i))
             (remap (enum_from 0 (EXS l)) (enum_from 0 (ASS l)) (d_ins (snd kd))).

Lemma build_unfold : forall l,
  build l = match map_opt (remap_entry l) (enum_from 0 (sources l)) with
            | Some ins => Some (mkIndexed (enum_from 0 (EXS l)) (enum_from 0 (ASS l)) ins)
            | None => None
            end.
Proof. intros l. unfold build. rewrite builder_fold. reflexivity. Qed.

Lemma EXS_in : forall l e, In e (EXS l) <-> In e (collect_exchanges l).
Proof.
  intros l e.
  pose proof (@sort_dedup_keyset _ _ (fun x : N => x) N.ltb N.eqb Nlt_irrefl Nlt_total Neqb_spec
                (collect_exchanges l) e) as H.
  rewrite !map_id in H. exact H.
Qed.
Lemma EXS_ssorted : forall l, ssorted (fun x : N => x) N.ltb (EXS l).
Proof. intros. apply sort_dedup_ssorted; [exact Nlt_irrefl|exact Nlt_trans|exact Nlt_total|exact Neqb_spec]. Qed.
Lemma EXS_nodup : forall l, NoDup (EXS l).
Proof.
  intros l. pose proof (@ssorted_NoDup _ _ (fun x : N => x) N.ltb Nlt_irrefl _ (EXS_ssorted l)) as H.
  now rewrite map_id in H.
Qed.

Lemma ASS_in : forall l a, In a (ASS l) <-> In a (collect_assets l).
Proof.
  intros l a.
  pose proof (@sort_dedup_keyset _ _ (fun x : akey => x) akey_ltb akey_eqb akey_irrefl akey_total
                akey_eqb_spec (collect_assets l) a) as H.
  rewrite !map_id in H. exact H.
Qed.
Lemma ASS_ssorted : forall l, ssorted (fun x : akey => x) akey_ltb (ASS l).
Proof. intros. apply sort_dedup_ssorted; [exact akey_irrefl|exact akey_trans|exact akey_total|exact akey_eqb_spec]. Qed.
Lemma ASS_nodup : forall l, NoDup (ASS l).
Proof.
  intros l. pose proof (@ssorted_NoDup _ _ (fun x : akey => x) akey_ltb akey_irrefl _ (ASS_ssorted l)) as H.
  now rewrite map_id in H.
Qed.

Lemma sources_in : forall l d, In d (sources l) -> In d l.
Proof. intros l d. apply sort_dedup_in. Qed.
Lemma sources_ssorted : forall l, ssorted d_rank N.ltb (sources l).
Proof. intros. apply sort_dedup_ssorted; [exact Nlt_irrefl|exact Nlt_trans|exact Nlt_total|exact Neqb_spec]. Qed.
Lemma sources_nodup : forall l, NoDup (map d_rank (sources l)).
Proof. intros l. exact (@ssorted_NoDup _ _ d_rank N.ltb Nlt_irrefl _ (sources_ssorted l)). Qed.
Lemma sources_ranks : forall l r, In r (map d_rank (sources l)) <-> In r (map d_rank l).
Proof. intros l r. exact (@sort_dedup_keyset _ _ d_rank N.ltb N.eqb Nlt_irrefl Nlt_total Neqb_spec l r). Qed.
Lemma sources_complete : forall l d, faithful l -> In d l -> In d (sources l).
Proof.
  intros l d Hf Hd.
  destruct (@sort_dedup_keys _ _ d_rank N.ltb N.eqb Nlt_irrefl Nlt_total Neqb_spec l d Hd) as [z [Hz Hk]].
  fold (sd_instruments l) in Hz. fold (sources l) in Hz.
  rewrite <- (Hf z d (sources_in _ _ Hz) Hd Hk). exact Hz.
Qed.

(** keys carried by an instrument *)
Definition instr_assets {EK AK} (i : instr EK AK) : list AK :=
  [i_base i; i_quote i]
  ++ (match settlement_asset (i_kind i) with Some s => [s] | None => [] end)
  ++ (match i_spec i with Some (UAsset a) => [a] | _ => [] end).

Lemma assets_of_map : forall d, assets_of d = map (pair (i_ex (d_ins d))) (instr_assets (d_ins d)).
Proof.
  intros [r [e ni ne b q k s tl]]. unfold assets_of, instr_assets. cbn.
  destruct k; destruct s as [[a| |]|]; reflexivity.
Qed.

Lemma in_collect_assets : forall l d a, In d l -> In a (instr_assets (d_ins d)) ->
  In (i_ex (d_ins d), a) (collect_assets l).
Proof.
  intros l d a Hd Ha. unfold collect_assets. apply in_flat_map. exists d. split; [assumption|].
  rewrite assets_of_map. now apply in_map.
Qed.

Lemma map_kind_rt {AK BK} (f : AK -> option BK) (g : BK -> option AK) (k : kind AK) :
  (forall a, In a (match settlement_asset k with Some s => [s] | None => [] end) ->
             exists b, f a = Some b /\ g b = Some a) ->
  exists k', map_kind f k = Some k' /\ map_kind g k' = Some k.
Proof.
  destruct k as [|s|s|s]; cbn; intros H.
  - exists KSpot. auto.
  - destruct (H s (or_introl eq_refl)) as [b [H1 H2]]. exists (KPerpetual b). cbn. now rewrite H1, H2.
  - destruct (H s (or_introl eq_refl)) as [b [H1 H2]]. exists (KFuture b). cbn. now rewrite H1, H2.
  - destruct (H s (or_introl eq_refl)) as [b [H1 H2]]. exists (KOption b). cbn. now rewrite H1, H2.
Qed.

Lemma map_spec_rt {AK BK} (f : AK -> option BK) (g : BK -> option AK) (s : option (qunit AK)) :
  (forall a, In a (match s with Some (UAsset a) => [a] | _ => [] end) ->
             exists b, f a = Some b /\ g b = Some a) ->
  exists s', map_spec f s = Some s' /\ map_spec g s' = Some s.
Proof.
  destruct s as [[a| |]|]; cbn; intros H.
  - destruct (H a (or_introl eq_refl)) as [b [H1 H2]]. exists (Some (UAsset b)). cbn. now rewrite H1, H2.
  - exists (Some UContract). auto.
  - exists (Some UQuote). auto.
  - exists None. auto.
Qed.

Lemma map_asset_key_rt {EK AK BK} (f : AK -> option BK) (g : BK -> option AK) (i : instr EK AK) :
  (forall a, In a (instr_assets i) -> exists b, f a = Some b /\ g b = Some a) ->
  exists r, map_asset_key f i = Some r /\ map_asset_key g r = Some i.
Proof.
  destruct i as [e ni ne b q k s tl]. unfold instr_assets. cbn [i_base i_quote i_kind i_spec].
  intros H. unfold map_asset_key. cbn [i_ex i_ni i_ne i_base i_quote i_kind i_spec i_tail].
  destruct (H b) as [b' [Hb1 Hb2]]; [cbn; auto|].
  destruct (H q) as [q' [Hq1 Hq2]]; [cbn; auto|].
  destruct (map_kind_rt f g k) as [k' [Hk1 Hk2]].
  { intros a Ha. apply H. cbn [app In]. right; right. apply in_or_app. now left. }
  destruct (map_spec_rt f g s) as [s' [Hs1 Hs2]].
  { intros a Ha. apply H. cbn [app In]. right; right. apply in_or_app. now right. }
  rewrite Hb1, Hq1, Hk1, Hs1. eexists. split; [reflexivity|].
  cbn [i_ex i_ni i_ne i_base i_quote i_kind i_spec i_tail]. now rewrite Hb2, Hq2, Hk2, Hs2.
Qed.

Lemma map_asset_key_total {EK AK BK} (f : AK -> option BK) (i : instr EK AK) :
  (forall a, In a (instr_assets i) -> exists b, f a = Some b) ->
  exists r, map_asset_key f i = Some r.
Proof.
  destruct i as [e ni ne b q k s tl]. unfold instr_assets. cbn [i_base i_quote i_kind i_spec].
  intros H. unfold map_asset_key. cbn [i_ex i_ni i_ne i_base i_quote i_kind i_spec i_tail].
  destruct (H b) as [b' Hb1]; [cbn; auto|].
  destruct (H q) as [q' Hq1]; [cbn; auto|].
  assert (Hk : exists k', map_kind f k = Some k').
  { destruct k as [|x|x|x]; cbn; [eexists; reflexivity|..];
      (destruct (H x) as [y Hy];
        [apply in_or_app; right; apply in_or_app; left; cbn; auto
        |rewrite Hy; eexists; reflexivity]). }
  assert (Hs : exists s', map_spec f s = Some s').
  { destruct s as [[x| |]|]; cbn; try (eexists; reflexivity).
    destruct (H x) as [y Hy];
      [apply in_or_app; right; apply in_or_app; right; cbn; auto|rewrite Hy; eexists; reflexivity]. }
  destruct Hk as [k' Hk]. destruct Hs as [s' Hs]. rewrite Hb1, Hq1, Hk, Hs. eexists; reflexivity.
Qed.

Lemma map_asset_key_fields {EK AK BK} (f : AK -> option BK) (i : instr EK AK) r :
  map_asset_key f i = Some r ->
  i_ex r = i_ex i /\ i_ni r = i_ni i /\ i_ne r = i_ne i /\ i_tail r = i_tail i.
Proof.
  unfold map_asset_key. destruct (f (i_base i)); [|discriminate]. destruct (f (i_quote i)); [|discriminate].
  destruct (map_kind f (i_kind i)); [|discriminate]. destruct (map_spec f (i_spec i)); [|discriminate].
  intros H. injection H as <-. cbn. auto.
Qed.

Lemma map_asset_key_exchange {EK EK' AK BK} (f : AK -> option BK) (e : EK') (i : instr EK AK) :
  map_asset_key f (map_exchange_key e i) = option_map (map_exchange_key e) (map_asset_key f i).
Proof.
  unfold map_asset_key, map_exchange_key. cbn [i_ex i_ni i_ne i_base i_quote i_kind i_spec i_tail].
  destruct (f (i_base i)); [|reflexivity]. destruct (f (i_quote i)); [|reflexivity].
  destruct (map_kind f (i_kind i)); [|reflexivity]. destruct (map_spec f (i_spec i)); reflexivity.
Qed.

Lemma map_exchange_key_id {EK AK} (i : instr EK AK) : map_exchange_key (i_ex i) i = i.
Proof. now destruct i. Qed.
Lemma map_exchange_key_twice {EK E1 E2 AK} (e1 : E1) (e2 : E2) (i : instr EK AK) :
  map_exchange_key e2 (map_exchange_key e1 i) = map_exchange_key e2 i.
Proof. reflexivity. Qed.

Lemma Forall2_nth_l {A B} (R : A -> B -> Prop) : forall l1 l2 i a,
  Forall2 R l1 l2 -> nth_error l1 i = Some a -> exists b, nth_error l2 i = Some b /\ R a b.
Proof.
  intros l1 l2 i a H. revert i. induction H as [|x y t1 t2 Hxy Ht IH]; intros [|i] Hi; try discriminate.
  - injection Hi as <-. exists y. auto.
  - apply IH. exact Hi.
Qed.
Lemma Forall2_nth_r {A B} (R : A -> B -> Prop) : forall l1 l2 i b,
  Forall2 R l1 l2 -> nth_error l2 i = Some b -> exists a, nth_error l1 i = Some a /\ R a b.
Proof.
  intros l1 l2 i b H. revert i. induction H as [|x y t1 t2 Hxy Ht IH]; intros [|i] Hi; try discriminate.
  - injection Hi as <-. exists x. auto.
  - apply IH. exact Hi.
Qed.

Lemma Forall2_len {A B} (R : A -> B -> Prop) : forall l1 l2, Forall2 R l1 l2 -> length l1 = length l2.
Proof. intros l1 l2 H. induction H; cbn; [reflexivity|now f_equal]. Qed.

Lemma in_collect_exchanges : forall l d, In d l -> In (i_ex (d_ins d)) (collect_exchanges l).
Proof. intros l d H. unfold collect_exchanges. now apply (in_map (fun d => i_ex (d_ins d))). Qed.

Lemma find_exchange_index_ok : forall l e, In e (collect_exchanges l) ->
  exists k, nth_error (EXS l) k = Some e /\
            find_exchange_index (enum_from 0 (EXS l)) e = Some (N.of_nat k).
Proof.
  intros l e H. apply EXS_in in H. destruct (In_nth_error _ _ H) as [k Hk]. exists k. split; [assumption|].
  unfold find_exchange_index. replace (N.of_nat k) with (0 + N.of_nat k)%N by lia.
  eapply find_key_enum_unique; [exact Hk|apply N.eqb_refl|].
  intros j y Hj Hy. apply N.eqb_eq in Hy. subst y.
  eapply NoDup_nth_inj; [apply EXS_nodup|eassumption|eassumption].
Qed.

Lemma find_asset_index_ok : forall l e ni ne, In (e, (ni, ne)) (collect_assets l) ->
  exists k ne', nth_error (ASS l) k = Some (e, (ni, ne')) /\
                find_asset_index (enum_from 0 (ASS l)) e ni = Some (N.of_nat k).
Proof.
  intros l e ni ne H. apply ASS_in in H.
  destruct (find_asset_index (enum_from 0 (ASS l)) e ni) as [k|] eqn:E; unfold find_asset_index in E.
  - apply find_key_enum_some in E. destruct E as [i [x [Hk [Hi [Hp _]]]]].
    destruct x as [e' [ni' ne']]. cbn in Hp. apply andb_true_iff in Hp. destruct Hp as [H1 H2].
    apply N.eqb_eq in H1, H2. subst e' ni'. exists i, ne'. split; [assumption|]. f_equal. lia.
  - exfalso. pose proof (find_key_enum_none _ _ _ E _ H) as F. cbn in F.
    rewrite !N.eqb_refl in F. discriminate.
Qed.

Lemma find_asset_index_wf : forall l e ni ne, assets_wf l -> In (e, (ni, ne)) (collect_assets l) ->
  exists k, nth_error (ASS l) k = Some (e, (ni, ne)) /\
            find_asset_index (enum_from 0 (ASS l)) e ni = Some (N.of_nat k).
Proof.
  intros l e ni ne Hwf H. destruct (find_asset_index_ok l e ni ne H) as [k [ne' [Hk Hf]]].
  exists k. split; [|assumption].
  assert (Hin : In (e, (ni, ne')) (collect_assets l)) by (apply ASS_in; eapply nth_error_In; eassumption).
  rewrite (Hwf _ _ H Hin eq_refl eq_refl). exact Hk.
Qed.

Definition asset_lookup (l : list def) (e : N) (a : asset) : option N :=
  find_asset_index (enum_from 0 (ASS l)) e (fst a).
Definition deref (l : list def) (e : N) (k : N) : option asset :=
  match find_asset (enum_from 0 (ASS l)) k with
  | Some (e', a) => if N.eqb e' e then Some a else None
  | None => None
  end.

Lemma remap_total : forall l d, In d l ->
  exists r, remap (enum_from 0 (EXS l)) (enum_from 0 (ASS l)) (d_ins d) = Some r.
Proof.
  intros l d Hd. unfold remap.
  destruct (find_exchange_index_ok l _ (in_collect_exchanges l d Hd)) as [k [Hk ->]].
  rewrite map_asset_key_exchange.
  destruct (map_asset_key_total (fun a : asset => find_asset_index (enum_from 0 (ASS l)) (i_ex (d_ins d)) (fst a))
                                (d_ins d)) as [r ->].
  - intros [ni ne] Ha. cbv beta. cbn [fst].
    destruct (find_asset_index_ok l _ ni ne (in_collect_assets l d _ Hd Ha)) as [k' [ne' [_ ->]]].
    eexists; reflexivity.
  - eexists; reflexivity.
Qed.

Lemma remap_resolve : forall l d, assets_wf l -> In d l ->
  exists k r0, nth_error (EXS l) k = Some (i_ex (d_ins d)) /\
    remap (enum_from 0 (EXS l)) (enum_from 0 (ASS l)) (d_ins d)
      = Some (map_exchange_key (N.of_nat k, i_ex (d_ins d)) r0) /\
    map_asset_key (deref l (i_ex (d_ins d))) r0 = Some (d_ins d).
Proof.
  intros l d Hwf Hd. unfold remap.
  destruct (find_exchange_index_ok l _ (in_collect_exchanges l d Hd)) as [k [Hk ->]].
  rewrite map_asset_key_exchange.
  destruct (map_asset_key_rt (fun a : asset => find_asset_index (enum_from 0 (ASS l)) (i_ex (d_ins d)) (fst a))
                             (deref l (i_ex (d_ins d))) (d_ins d)) as [r0 [H1 H2]].
  - intros [ni ne] Ha.
    destruct (find_asset_index_wf l _ ni ne Hwf (in_collect_assets l d _ Hd Ha)) as [k' [Hk' Hf]].
    exists (N.of_nat k'). cbv beta. cbn [fst]. split; [exact Hf|].
    unfold deref, find_asset. rewrite find_value0, Nat2N.id, Hk', N.eqb_refl. reflexivity.
  - exists k, r0. rewrite H1. cbn [option_map]. auto.
Qed.

Lemma build_inv : forall l x, build l = Some x ->
  x_exchanges x = enum_from 0 (EXS l) /\ x_assets x = enum_from 0 (ASS l) /\
  exists rs, x_instruments x = enum_from 0 rs /\
    Forall2 (fun d r => remap (enum_from 0 (EXS l)) (enum_from 0 (ASS l)) (d_ins d) = Some r)
            (sources l) rs.
Proof.
  intros l x. rewrite build_unfold.
  destruct (map_opt (remap_entry l) (enum_from 0 (sources l))) as [ins|] eqn:E; [|discriminate].
  intros H. injection H as <-. cbn. split; [reflexivity|]. split; [reflexivity|].
  unfold remap_entry in E.
  exact (map_opt_enum (fun d => remap (enum_from 0 (EXS l)) (enum_from 0 (ASS l)) (d_ins d)) _ _ _ E).
Qed.

Theorem build_total : forall l, exists x, build l = Some x.
Proof.
  intros l. rewrite build_unfold. unfold remap_entry.
  destruct (map_opt_enum_total (fun d => remap (enum_from 0 (EXS l)) (enum_from 0 (ASS l)) (d_ins d))
                               (sources l) 0) as [ins ->].
  - intros d Hd. destruct (remap_total l d (sources_in _ _ Hd)) as [r ->]. discriminate.
  - eexists; reflexivity.
Qed.

Lemma remap_fields : forall exs ass i r, remap exs ass i = Some r ->
  snd (i_ex r) = i_ex i /\ i_ni r = i_ni i /\ i_ne r = i_ne i /\ i_tail r = i_tail i.
Proof.
  intros exs ass i r. unfold remap. destruct (find_exchange_index exs (i_ex i)); [|discriminate].
  intros H. apply map_asset_key_fields in H. cbn in H. destruct H as [H1 [H2 [H3 H4]]].
  rewrite H1. cbn. auto.
Qed.

(** instrument [i] of the result is definition [i] of [sources] *)
Lemma build_instrument_nth : forall l x i d, build l = Some x -> nth_error (sources l) i = Some d ->
  exists r, nth_error (x_instruments x) i = Some (N.of_nat i, r) /\
            remap (x_exchanges x) (x_assets x) (d_ins d) = Some r.
Proof.
  intros l x i d Hb Hd. destruct (build_inv l x Hb) as [-> [-> [rs [-> HF]]]].
  destruct (Forall2_nth_l _ _ _ _ _ HF Hd) as [r [Hr HR]]. exists r. split; [|exact HR].
  rewrite nth_enum_from, Hr. reflexivity.
Qed.
Lemma build_instrument_nth_r : forall l x i kv, build l = Some x -> nth_error (x_instruments x) i = Some kv ->
  exists d, nth_error (sources l) i = Some d /\ fst kv = N.of_nat i /\
            remap (x_exchanges x) (x_assets x) (d_ins d) = Some (snd kv).
Proof.
  intros l x i kv Hb Hi. destruct (build_inv l x Hb) as [-> [-> [rs [Hrs HF]]]]. rewrite Hrs in Hi.
  rewrite nth_enum_from in Hi. destruct (nth_error rs i) as [r|] eqn:Hr; [|discriminate].
  cbn in Hi. injection Hi as <-. destruct (Forall2_nth_r _ _ _ _ _ HF Hr) as [d [Hd HR]].
  exists d. cbn. split; [assumption|]. split; [lia|assumption].
Qed.

(* ------------------------------------------------------------------------------------------ *)
(** * the property *)

Theorem dense_unique : forall l x, build l = Some x ->
  (dense (x_exchanges x) /\ NoDup (map snd (x_exchanges x)) /\
     (forall e, In e (map snd (x_exchanges x)) <-> In e (collect_exchanges l))) /\
  (dense (x_assets x) /\ NoDup (map snd (x_assets x)) /\
     (forall a, In a (map snd (x_assets x)) <-> In a (collect_assets l))) /\
  (dense (x_instruments x) /\ length (x_instruments x) = length (sources l) /\
     NoDup (map d_rank (sources l)) /\
     (forall r, In r (map d_rank (sources l)) <-> In r (map d_rank l)) /\
     (forall d, In d (sources l) -> In d l) /\
     (forall i d, nth_error (sources l) i = Some d ->
        exists r, nth_error (x_instruments x) i = Some (N.of_nat i, r) /\
                  snd (i_ex r) = i_ex (d_ins d) /\ i_ni r = i_ni (d_ins d) /\
                  i_ne r = i_ne (d_ins d) /\ i_tail r = i_tail (d_ins d))).
Proof.
  intros l x Hb. pose proof (build_inv l x Hb) as [He [Ha [rs [Hi HF]]]].
  split; [|split].
  - rewrite He, map_snd_enum. split; [apply dense_enum|]. split; [apply EXS_nodup|apply EXS_in].
  - rewrite Ha, map_snd_enum. split; [apply dense_enum|]. split; [apply ASS_nodup|apply ASS_in].
  - split; [rewrite Hi; apply dense_enum|].
    split; [rewrite Hi, length_enum; symmetry; eapply Forall2_len; eassumption|].
    split; [apply sources_nodup|]. split; [apply sources_ranks|]. split; [apply sources_in|].
    intros i d Hd. destruct (build_instrument_nth l x i d Hb Hd) as [r [Hr HR]].
    exists r. split; [assumption|]. now apply remap_fields in HR.
Qed.

Theorem sources_faithful : forall l, faithful l -> forall d, In d (sources l) <-> In d l.
Proof. intros l Hf d. split; [apply sources_in|now apply sources_complete]. Qed.

Theorem find_inverse_exchange : forall l x k e, build l = Some x ->
  (find_exchange (x_exchanges x) k = Some e <-> find_exchange_index (x_exchanges x) e = Some k).
Proof.
  intros l x k e Hb. destruct (build_inv l x Hb) as [-> _]. unfold find_exchange, find_exchange_index.
  split; intros H.
  - apply find_value_enum_some in H. destruct H as [i [-> Hi]].
    eapply find_key_enum_unique; [exact Hi|apply N.eqb_refl|].
    intros j y Hj Hy. apply N.eqb_eq in Hy. subst y.
    eapply NoDup_nth_inj; [apply EXS_nodup|eassumption|eassumption].
  - apply find_key_enum_some in H. destruct H as [i [y [-> [Hi [Hp _]]]]].
    apply N.eqb_eq in Hp. subst y. now rewrite find_value_enum.
Qed.

Theorem find_inverse_asset : forall l x k e ni, build l = Some x -> assets_wf l ->
  (find_asset_index (x_assets x) e ni = Some k <->
   exists ne, find_asset (x_assets x) k = Some (e, (ni, ne))).
Proof.
  intros l x k e ni Hb Hwf. destruct (build_inv l x Hb) as [_ [-> _]].
  unfold find_asset, find_asset_index. split.
  - intros H. apply find_key_enum_some in H. destruct H as [i [[e' [ni' ne']] [-> [Hi [Hp _]]]]].
    cbn in Hp. apply andb_true_iff in Hp. destruct Hp as [H1 H2]. apply N.eqb_eq in H1, H2. subst.
    exists ne'. now rewrite find_value_enum.
  - intros [ne H]. apply find_value_enum_some in H. destruct H as [i [-> Hi]].
    eapply find_key_enum_unique; [exact Hi|cbn; now rewrite !N.eqb_refl|].
    intros j [e' [ni' ne']] Hj Hp. cbn in Hp. apply andb_true_iff in Hp. destruct Hp as [H1 H2].
    apply N.eqb_eq in H1, H2. subst.
    assert (E : (e, (ni, ne')) = (e, (ni, ne))).
    { apply Hwf; try reflexivity; apply ASS_in; eapply nth_error_In; eassumption. }
    rewrite E in Hj. eapply NoDup_nth_inj; [apply ASS_nodup|eassumption|eassumption].
Qed.

Lemma sources_same_rank_pos : forall l i j d d',
  nth_error (sources l) i = Some d -> nth_error (sources l) j = Some d' ->
  d_rank d = d_rank d' -> i = j.
Proof.
  intros l i j d d' Hi Hj E.
  apply (NoDup_nth_inj (map d_rank (sources l)) i j (d_rank d)); [apply sources_nodup| |].
  - apply map_nth_error. exact Hi.
  - rewrite E. apply map_nth_error. exact Hj.
Qed.

Theorem find_inverse_instrument : forall l x k e ni, build l = Some x -> inames_ex_wf l ->
  (find_instrument_index (x_instruments x) e ni = Some k <->
   exists r, find_instrument (x_instruments x) k = Some r /\ snd (i_ex r) = e /\ i_ni r = ni).
Proof.
  intros l x k e ni Hb Hwf. destruct (build_inv l x Hb) as [He [Ha [rs [Hi HF]]]].
  rewrite Hi. unfold find_instrument, find_instrument_index. split.
  - intros H. apply find_key_enum_some in H. destruct H as [i [r [-> [Hr [Hp _]]]]].
    apply andb_true_iff in Hp. destruct Hp as [H1 H2]. apply N.eqb_eq in H1, H2.
    exists r. now rewrite find_value_enum.
  - intros [r [H [H1 H2]]]. apply find_value_enum_some in H. destruct H as [i [-> Hr]].
    eapply find_key_enum_unique; [exact Hr|now rewrite H1, H2, !N.eqb_refl|].
    intros j y Hj Hp. apply andb_true_iff in Hp. destruct Hp as [P1 P2]. apply N.eqb_eq in P1, P2.
    destruct (Forall2_nth_r _ _ _ _ _ HF Hr) as [d [Hd HR]].
    destruct (Forall2_nth_r _ _ _ _ _ HF Hj) as [d' [Hd' HR']].
    apply remap_fields in HR, HR'. destruct HR as [F1 [F2 _]]. destruct HR' as [G1 [G2 _]].
    eapply sources_same_rank_pos; [exact Hd'|exact Hd|].
    apply Hwf; [eapply sources_in, nth_error_In; eassumption..| |]; congruence.
Qed.

Theorem refs_resolve : forall l x i d, build l = Some x -> assets_wf l ->
  nth_error (sources l) i = Some d ->
  exists r, nth_error (x_instruments x) i = Some (N.of_nat i, r) /\ resolve x r = Some (d_ins d).
Proof.
  intros l x i d Hb Hwf Hd. destruct (build_instrument_nth l x i d Hb Hd) as [r [Hr HR]].
  exists r. split; [assumption|].
  destruct (build_inv l x Hb) as [He [Ha _]]. rewrite He, Ha in HR.
  assert (Hin : In d l) by (eapply sources_in, nth_error_In; eassumption).
  destruct (remap_resolve l d Hwf Hin) as [k [r0 [Hk [HR2 Hrt]]]].
  rewrite HR2 in HR. injection HR as <-.
  unfold resolve. rewrite He, Ha. cbn [i_ex map_exchange_key fst snd].
  unfold find_exchange. rewrite find_value0, Nat2N.id, Hk, N.eqb_refl. cbn [negb].
  change (map_asset_key (deref l (i_ex (d_ins d)))
            (map_exchange_key (i_ex (d_ins d)) r0) = Some (d_ins d)).
  rewrite map_asset_key_exchange, Hrt. cbn [option_map]. now rewrite map_exchange_key_id.
Qed.

Theorem refs_resolve_all : forall l x d, build l = Some x -> assets_wf l -> faithful l -> In d l ->
  exists i r, nth_error (x_instruments x) i = Some (N.of_nat i, r) /\ resolve x r = Some (d_ins d).
Proof.
  intros l x d Hb Hwf Hf Hd. apply (sources_complete l d Hf) in Hd.
  destruct (In_nth_error _ _ Hd) as [i Hi]. exists i. now apply refs_resolve with (l := l).
Qed.

Lemma perm_in_iff {A} : forall (l l' : list A), Permutation l l' -> forall a, In a l <-> In a l'.
Proof.
  intros l l' H a. split; intros Ha; [eapply Permutation_in; eassumption|].
  eapply Permutation_in; [apply Permutation_sym; eassumption|assumption].
Qed.

Theorem order_independent : forall l l', faithful l -> Permutation l l' -> build l = build l'.
Proof.
  intros l l' Hf Hp. pose proof (perm_in_iff _ _ Hp) as Hin.
  assert (E1 : EXS l = EXS l').
  { apply sort_dedup_perm; [exact Nlt_irrefl|exact Nlt_trans|exact Nlt_total|exact Neqb_spec| |].
    - intros a b _ _ H. exact H.
    - intros e. unfold collect_exchanges. rewrite !in_map_iff.
      split; intros [d [H1 H2]]; exists d; (split; [assumption|now apply Hin]). }
  assert (E2 : ASS l = ASS l').
  { apply sort_dedup_perm; [exact akey_irrefl|exact akey_trans|exact akey_total|exact akey_eqb_spec| |].
    - intros a b _ _ H. exact H.
    - intros a. unfold collect_assets. rewrite !in_flat_map.
      split; intros [d [H1 H2]]; exists d; (split; [now apply Hin|assumption]). }
  assert (E3 : sources l = sources l').
  { apply sort_dedup_perm; [exact Nlt_irrefl|exact Nlt_trans|exact Nlt_total|exact Neqb_spec| |].
    - exact Hf.
    - exact Hin. }
  rewrite !build_unfold. unfold remap_entry. now rewrite E1, E2, E3.
Qed.

Lemma Forall2_map_eq {A B C} (R : A -> B -> Prop) (f : A -> C) (g : B -> C) : forall l1 l2,
  Forall2 R l1 l2 -> (forall a b, R a b -> f a = g b) -> map f l1 = map g l2.
Proof. intros l1 l2 H Hfg. induction H; cbn; [reflexivity|]. f_equal; auto. Qed.

Lemma map_snd_enum_f {A B} (h : A -> B) : forall (l : list A) n,
  map (fun kv : N * A => h (snd kv)) (enum_from n l) = map h l.
Proof. induction l; intros; cbn; [reflexivity|now rewrite IHl]. Qed.

Lemma in_enum_snd {A} : forall (l : list A) n kv, In kv (enum_from n l) -> In (snd kv) l.
Proof. intros l n kv H. rewrite <- (map_snd_enum l n). now apply in_map. Qed.

Theorem tables_aligned : forall l x added, build l = Some x -> assets_wf l -> inames_wf l ->
  instrument_states x =
    map (fun kv : N * instr (N * N) N =>
           (i_ni (snd kv), (fst kv, map_exchange_key (fst (i_ex (snd kv))) (snd kv))))
        (x_instruments x) /\
  asset_states x =
    map (fun kv : N * akey => ((fst (snd kv), fst (snd (snd kv))), snd (snd kv))) (x_assets x) /\
  connectivity_states x = map (fun kv : N * N => (snd kv, tt)) (x_exchanges x) /\
  tx_map x added = map (fun kv : N * N => (snd kv, existsb (N.eqb (snd kv)) added)) (x_exchanges x).
Proof.
  intros l x added Hb Hwa Hwi. destruct (build_inv l x Hb) as [He [Ha [rs [Hi HF]]]].
  assert (Neq : forall a b, N.eqb a b = true -> a = b) by (intros a b; apply N.eqb_eq).
  repeat split.
  - unfold instrument_states. apply im_collect_nodup; [exact Neq|].
    rewrite map_map. cbn [fst]. rewrite Hi.
    rewrite (map_snd_enum_f (fun r : instr (N * N) N => i_ni r)).
    rewrite <- (Forall2_map_eq _ (fun d => i_ni (d_ins d)) (fun r : instr (N * N) N => i_ni r) _ _ HF).
    + apply (NoDup_map_transfer _ d_rank); [apply sources_nodup|].
      intros a b Ha' Hb' E. apply Hwi; [now apply sources_in..|assumption].
    + intros d r HR. apply remap_fields in HR. symmetry. apply HR.
  - unfold asset_states. apply im_collect_nodup.
    + intros a b H. apply (pair_eqb_spec N.eqb N.eqb Neqb_spec Neqb_spec). exact H.
    + rewrite map_map. cbn [fst]. rewrite Ha.
      rewrite (map_snd_enum_f (fun v : akey => (fst v, fst (snd v)))).
      apply (NoDup_map_transfer _ (fun v : akey => v)); [rewrite map_id; apply ASS_nodup|].
      intros a b Ha' Hb' E. injection E as E1 E2.
      apply Hwa; [now apply ASS_in..|assumption|assumption].
  - unfold connectivity_states. apply im_collect_nodup; [exact Neq|].
    rewrite map_map. cbn [fst]. rewrite He, map_snd_enum. apply EXS_nodup.
  - unfold tx_map. apply im_collect_nodup; [exact Neq|].
    rewrite map_map. cbn [fst]. rewrite He, map_snd_enum. apply EXS_nodup.
Qed.

(* ------------------------------------------------------------------------------------------ *)
(** * the boolean hypothesis checks used by Corr/C11.v imply the hypotheses *)

Lemma forall2b_spec {A} (p : A -> A -> bool) : forall l,
  forall2b p l = true -> forall a b, In a l -> In b l -> p a b = true.
Proof.
  intros l H a b Ha Hb. unfold forall2b in H. rewrite forallb_forall in H.
  specialize (H a Ha). rewrite forallb_forall in H. now apply H.
Qed.

Lemma kind_eqb_asset : forall a b : kind asset, kind_eqb asset_eqb a b = true -> a = b.
Proof.
  intros [|s|s|s] [|t|t|t]; cbn; try discriminate; try reflexivity;
    intros H; apply asset_eqb_spec in H; now subst.
Qed.
Lemma qunit_eqb_asset : forall a b : qunit asset, qunit_eqb asset_eqb a b = true -> a = b.
Proof.
  intros [s| |] [t| |]; cbn; try discriminate; try reflexivity.
  intros H; apply asset_eqb_spec in H; now subst.
Qed.
Lemma def_eqb_sound : forall a b, def_eqb a b = true -> a = b.
Proof.
  intros [ra [e1 ni1 ne1 b1 q1 k1 s1 t1]] [rb [e2 ni2 ne2 b2 q2 k2 s2 t2]]. unfold def_eqb, instr_eqb. cbn.
  rewrite !andb_true_iff. intros [Hr [[[[[[[H1 H2] H3] H4] H5] H6] H7] H8]].
  apply N.eqb_eq in Hr, H1, H2, H3, H8. apply asset_eqb_spec in H4, H5.
  apply kind_eqb_asset in H6. subst.
  assert (s1 = s2).
  { destruct s1 as [u1|], s2 as [u2|]; cbn in H7; try discriminate; [|reflexivity].
    apply qunit_eqb_asset in H7. now subst. }
  now subst.
Qed.

Lemma faithful_b_sound : forall l, faithful_b l = true -> faithful l.
Proof.
  intros l H d d' Hd Hd' E. pose proof (forall2b_spec _ _ H d d' Hd Hd') as P. cbn beta in P.
  rewrite E, N.eqb_refl in P. cbn in P. now apply def_eqb_sound.
Qed.
Lemma assets_wf_b_sound : forall l, assets_wf_b l = true -> assets_wf l.
Proof.
  intros l H a a' Ha Ha' E1 E2. pose proof (forall2b_spec _ _ H a a' Ha Ha') as P. cbn beta in P.
  rewrite E1, E2, !N.eqb_refl in P. cbn in P. now apply akey_eqb_spec.
Qed.
Lemma inames_wf_b_sound : forall l, inames_wf_b l = true -> inames_wf l.
Proof.
  intros l H d d' Hd Hd' E. pose proof (forall2b_spec _ _ H d d' Hd Hd') as P. cbn beta in P.
  rewrite E, N.eqb_refl in P. cbn in P. now apply N.eqb_eq.
Qed.
Lemma inames_ex_wf_b_sound : forall l, inames_ex_wf_b l = true -> inames_ex_wf l.
Proof.
  intros l H d d' Hd Hd' E1 E2. pose proof (forall2b_spec _ _ H d d' Hd Hd') as P. cbn beta in P.
  rewrite E1, E2, !N.eqb_refl in P. cbn in P. now apply N.eqb_eq.
Qed.
Lemma inames_wf_ex : forall l, inames_wf l -> inames_ex_wf l.
Proof. intros l H d d' Hd Hd' _ E. now apply H. Qed.
