(** Links between the executable oracle of Corr/C06.v and the Prop-level statements of
    Props/C06.v: the boolean venue rules reflect the Prop rules, and the single-call oracle
    [prop_seq] accepts exactly what the model's [validate_sequence] does (so the oracle is no
    stricter than the model, and no laxer on classification and the two compared fields). *)
From BV Require Import Base.Common Model.Book Model.BinanceSeq Proofs.BinanceSeq Corr.C06.
From Coq Require Import ZifyBool.

Definition msg_ids (d : dmsg) : msg := mkMsg (d_U d) (d_u d) (d_pu d) (d_E d) (d_T d) [] [].

Lemma older_b_spec v l d : older_b v l (d_u d) = true <-> older v l (msg_ids d).
Proof. destruct v; cbn [older_b older msg_ids m_u]; lia. Qed.

Lemma first_rule_b_spec v l d :
  first_rule_b v l (d_U d) (d_u d) = true <-> first_rule v l (msg_ids d).
Proof. destruct v; cbn [first_rule_b first_rule msg_ids m_U m_u]; lia. Qed.

Lemma next_rule_b_spec v prev d :
  next_rule_b v prev (d_U d) (d_pu d) = true <-> next_rule v prev (msg_ids d).
Proof. destruct v; cbn [next_rule_b next_rule msg_ids m_U m_pu]; lia. Qed.

Lemma ids_wf_b_spec v d : ids_wf_b v d = true <-> ids_wf v (msg_ids d).
Proof. destruct v; unfold ids_wf_b, ids_wf; cbn [msg_ids m_U m_u m_pu]; lia. Qed.

Lemma chain_from_b_spec v : forall ds prev,
  chain_from_b v prev ds = true <-> chain_from v prev (map msg_ids ds).
Proof.
  induction ds as [|d ds IH]; intros prev; cbn [chain_from_b chain_from map]; [tauto|].
  rewrite andb_true_iff, next_rule_b_spec, IH. reflexivity.
Qed.

Lemma chain_ok_b_spec v l ds : chain_ok_b v l ds = true <-> chain_ok v l (map msg_ids ds).
Proof.
  destruct ds as [|d ds]; cbn [chain_ok_b chain_ok map]; [tauto|].
  rewrite andb_true_iff, first_rule_b_spec, chain_from_b_spec. reflexivity.
Qed.

(** what the harness would observe if the implementation were the model *)
Definition sres_of (r : vres) : sres :=
  match r with
  | VDrop => RDrop
  | VOk => ROk true
  | VErr (InvalidSequence a b) => RErrSeq a b (is_terminal (InvalidSequence a b))
  | VErr (SocketUnidentifiable _) => RErrOther
  end.

(** the single-call oracle accepts the model on every input *)
Lemma prop_seq_accepts_model v s U u pu :
  let m := mkMsg U u pu 0 0 [] [] in
  prop_seq v s U u pu (sres_of (snd (validate_sequence v s m))) (fst (validate_sequence v s m)) = true.
Proof.
  cbv zeta. set (m := mkMsg U u pu 0 0 [] []).
  destruct (validate_cases v s m) as [[H1 H2]|[[H1 [H2 H3]]|[H1 [H2 H3]]]]; rewrite H2; cbn [fst snd sres_of seq_error];
    unfold prop_seq, is_first_update in *;
    destruct v; cbn [is_stale first_ok next_ok older_b first_rule_b next_rule_b advance sq_ups sq_last sq_prev m_U m_u m_pu m is_terminal] in *;
    repeat match goal with
           | |- context [if ?b then _ else _] => destruct b eqn:?
           | H : context [if ?b then _ else _] |- _ => destruct b eqn:?
           end; lia.
Qed.

(** ... and nothing else as far as classification, updates_processed and last_update_id go *)
Lemma prop_seq_only_model v s U u pu r s' :
  prop_seq v s U u pu r s' = true ->
  let m := mkMsg U u pu 0 0 [] [] in
  sq_ups s' = sq_ups (fst (validate_sequence v s m)) /\
  sq_last s' = sq_last (fst (validate_sequence v s m)) /\
  match snd (validate_sequence v s m), r with
  | VDrop, RDrop => True
  | VOk, ROk same => same = true
  | VErr _, RErrSeq _ _ t => t = true
  | _, _ => False
  end.
Proof.
  cbv zeta. set (m := mkMsg U u pu 0 0 [] []). intros H.
  destruct (validate_cases v s m) as [[H1 H2]|[[H1 [H2 H3]]|[H1 [H2 H3]]]]; rewrite H2; cbn [fst snd];
    unfold prop_seq, is_first_update in *;
    destruct v; cbn [is_stale first_ok next_ok older_b first_rule_b next_rule_b advance sq_ups sq_last sq_prev m_U m_u m_pu m] in *;
    destruct (N.eqb (sq_ups s) 0); destruct r; try lia;
    repeat match goal with
           | H : context [if ?b then _ else _] |- _ => destruct b eqn:?
           end; try lia; try discriminate.
Qed.

(* ========================================================================================== *)
(** * Whole stream cases: the oracle accepts whatever the model produces *)
From BV Require Import Proofs.Book.
From Coq Require Import Sorting.Sorted.

(** ** boolean equalities are equalities *)
Lemma option_eqb_Z_eq (x y : option Z) : option_eqb Z.eqb x y = true -> x = y.
Proof. destruct x, y; cbn; intros H; try discriminate; [apply Z.eqb_eq in H; congruence|reflexivity]. Qed.
Lemma option_eqb_Z_refl (x : option Z) : option_eqb Z.eqb x x = true.
Proof. destruct x; cbn; [apply Z.eqb_refl|reflexivity]. Qed.

Lemma levels_eqb_eq : forall l1 l2, levels_eqb l1 l2 = true -> l1 = l2.
Proof.
  induction l1 as [|[p a] l1 IH]; intros [|[q c] l2] H; cbn in H; try discriminate; [reflexivity|].
  unfold level_eqb, pair_eqb in H. cbn [fst snd] in H.
  apply andb_true_iff in H as [H1 H2]. apply andb_true_iff in H1 as [Hp Ha].
  apply Z.eqb_eq in Hp, Ha. subst. f_equal. apply IH. exact H2.
Qed.

Lemma book_eqb_eq a b : book_eqb a b = true -> a = b.
Proof.
  unfold book_eqb. intros H.
  apply andb_true_iff in H as [H Ha]. apply andb_true_iff in H as [H Hb]. apply andb_true_iff in H as [Hs Ht].
  apply N.eqb_eq in Hs. apply option_eqb_Z_eq in Ht. apply levels_eqb_eq in Ha, Hb.
  destruct a, b; cbn in *; congruence.
Qed.

Lemma books_eqb_eq : forall l1 l2, list_eqb book_eqb l1 l2 = true -> l1 = l2.
Proof.
  induction l1 as [|a l1 IH]; intros [|b l2] H; cbn in H; try discriminate; [reflexivity|].
  apply andb_true_iff in H as [H1 H2]. apply book_eqb_eq in H1. subst. f_equal. apply IH. exact H2.
Qed.

(** ** the observation is determined by the model's output *)
Definition oclass_of (v : venue) (o : tout) : oclass :=
  match o with
  | TNone => ONone
  | TErr (InvalidSequence a b) => OErrSeq a b true
  | TErr (SocketUnidentifiable _) => OErrSocket false
  | TEvent key te ev => OEvent key (exch_code v) true te (event_seq ev)
                               (match ev with Snapshot _ t _ _ | Update _ t _ _ => t end)
  end.

Lemma out_matches_eq v o c : out_matches v o c = true -> c = oclass_of v o.
Proof.
  destruct o as [|[a b|s]|key te [sq tm bs as_|sq tm bs as_]]; destruct c; cbn; intros H; try discriminate.
  - reflexivity.
  - apply andb_true_iff in H as [H Ht]. apply andb_true_iff in H as [Ha Hb].
    apply N.eqb_eq in Ha, Hb. apply Bool.eqb_prop in Ht. subst. reflexivity.
  - apply Bool.eqb_prop in H. subst. reflexivity.
  - repeat (apply andb_true_iff in H as [H ?]).
    repeat match goal with
           | H : N.eqb _ _ = true |- _ => apply N.eqb_eq in H
           | H : Z.eqb _ _ = true |- _ => apply Z.eqb_eq in H
           | H : option_eqb Z.eqb _ _ = true |- _ => apply option_eqb_Z_eq in H
           end. subst. reflexivity.
Qed.

Lemma obs_matches_spec v t bs o ob :
  obs_matches v t bs o ob = true ->
  o_out ob = oclass_of v o /\
  match o with
  | TEvent key _ _ => exists b, bfind key bs = Some b /\ o_book ob = Some b
  | _ => o_book ob = None
  end.
Proof.
  unfold obs_matches. intros H. apply andb_true_iff in H as [H Hb]. apply andb_true_iff in H as [Ho _].
  split; [apply out_matches_eq; exact Ho|].
  destruct o as [|e|key te ev].
  - destruct (o_book ob); [discriminate|reflexivity].
  - destruct (o_book ob); [discriminate|reflexivity].
  - destruct (bfind key bs) as [b|]; [|discriminate]. destruct (o_book ob) as [b'|]; [|discriminate].
    apply book_eqb_eq in Hb. subst. exists b'. split; reflexivity.
Qed.

(** ** [obs_book_is] decides "is the exchange's book as of its own sequence" *)
Lemma SS_in_lookup s : forall l p a, SS s l -> In (p, a) l -> lookup l p = Some a.
Proof.
  unfold SS. induction l as [|[q c] tl IH]; intros p a H Hin; [destruct Hin|].
  apply StronglySorted_inv in H as [Htl Hall]. cbn [lookup]. destruct Hin as [E|Hin].
  - injection E as -> ->. rewrite Z.eqb_refl. reflexivity.
  - destruct (Z.eqb_spec p q) as [E|_]; [|apply IH; assumption].
    subst q. specialize (IH p a Htl Hin).
    rewrite (lookup_none_after s p tl) in IH; [discriminate|exact Hall].
Qed.

Lemma side_is_map_complete s g (m : pmap) l :
  strict_sorted s l = true -> (forall p, lookup l p = m p) -> side_is_map s g m l = true.
Proof.
  intros Hs Hm. unfold side_is_map. rewrite Hs. cbn [andb].
  apply andb_true_iff. split; apply forallb_forall.
  - intros [p a] Hin. cbn [fst snd]. rewrite <- Hm.
    rewrite (SS_in_lookup s l p a); [apply option_eqb_Z_refl| |exact Hin].
    apply strict_sorted_SS. exact Hs.
  - intros p _. rewrite Hm. apply option_eqb_Z_refl.
Qed.

(** [Bcap] is [B]: nothing changes below the first id of the simulated exchange nor above its
    last one *)
Lemma payload_skip delta sd base n :
  (forall k, (k < base)%N -> delta k = ([], [])) -> payload delta sd 0 n = payload delta sd base n.
Proof.
  intros H. destruct (N.eq_dec base 0) as [->|Hb]; [reflexivity|].
  destruct (N.le_gt_cases base (n + 1)) as [Hle|Hgt].
  - rewrite (payload_split delta sd 0 (base - 1) n) by lia.
    replace (base - 1 + 1)%N with base by lia.
    unfold payload at 1. rewrite cat_nil; [reflexivity|]. intros k _ Hk. apply H. lia.
  - unfold payload. replace (N.to_nat (n + 1 - base)) with 0%nat by lia. cbn [cat].
    apply cat_nil. intros k _ Hk. apply H. lia.
Qed.

Lemma delta_of_below base dl k : (k < base)%N -> delta_of base dl k = ([], []).
Proof. intros H. unfold delta_of. destruct (N.ltb_spec k base); [reflexivity|lia]. Qed.

Lemma delta_of_above base dl k : (base + N.of_nat (length dl) <= k)%N -> delta_of base dl k = ([], []).
Proof.
  intros H. unfold delta_of. destruct (N.ltb_spec k base); [reflexivity|]. apply nth_overflow. lia.
Qed.

Lemma Bcap_B i sd n : Bcap i sd n = B (delta_i i) sd n.
Proof.
  unfold Bcap, B. rewrite <- (payload_skip (delta_i i) sd (c_base i)) by (intros k Hk; apply delta_of_below; exact Hk).
  fold (B (delta_i i) sd (N.min n (c_base i + N.of_nat (length (c_deltas i))))). fold (B (delta_i i) sd n).
  destruct (N.le_gt_cases n (c_base i + N.of_nat (length (c_deltas i)))) as [Hle|Hgt].
  - rewrite N.min_l by exact Hle. reflexivity.
  - rewrite N.min_r by lia. symmetry. apply B_const; [lia|].
    intros k Hk _. apply delta_of_above. lia.
Qed.

Lemma book_is_obs i b n :
  book_is (delta_i i) b n -> obs_book_is i b = true.
Proof.
  intros (Hs & [Hb Ha] & Lb & La). unfold obs_book_is. rewrite Hs, !Bcap_B.
  apply andb_true_iff. split; apply side_is_map_complete; assumption.
Qed.

(** ** ... and conversely on the REST snapshot (whose prices are all on the grid) *)
Lemma lookup_not_in l p : ~ In p (map fst l) -> lookup l p = None.
Proof.
  induction l as [|[q a] tl IH]; intros H; [reflexivity|]. cbn [lookup map fst In] in *.
  destruct (Z.eqb_spec p q) as [E|_]; [exfalso; apply H; left; congruence|apply IH; tauto].
Qed.

Lemma last_write_not_in l p : ~ In p (map fst l) -> last_write l p = None.
Proof.
  induction l as [|[q a] tl IH]; intros H; [reflexivity|]. cbn [last_write map fst In] in *.
  rewrite IH by tauto. destruct (Z.eqb_spec p q) as [E|_]; [exfalso; apply H; left; congruence|reflexivity].
Qed.

Lemma dedup_in x : forall l, In x l -> In x (dedup l).
Proof.
  induction l as [|y tl IH]; intros H; [destruct H|]. cbn [dedup].
  destruct (existsb (Z.eqb y) tl) eqn:E.
  - destruct H as [->|H]; [|apply IH; exact H].
    apply existsb_exists in E as (z & Hz & Ez). apply Z.eqb_eq in Ez. subst z. apply IH. exact Hz.
  - destruct H as [->|H]; [left; reflexivity|right; apply IH; exact H].
Qed.

Lemma cat_in delta sd x : forall len lo, In x (cat delta sd lo len) -> exists n, In x (dside delta sd n).
Proof.
  induction len as [|len IH]; intros lo H; [destruct H|].
  cbn [cat] in H. apply in_app_or in H as [H|H]; [exists lo; exact H|eapply IH; exact H].
Qed.

Definition delta_prices (dl : list (list (Z * Z) * list (Z * Z))) : list Z :=
  flat_map (fun d => map fst (fst d) ++ map fst (snd d)) dl.

Lemma dside_delta_of_in base dl sd n x :
  In x (dside (delta_of base dl) sd n) -> In (fst x) (delta_prices dl).
Proof.
  unfold dside, delta_of, delta_prices. intros H.
  destruct (N.ltb n base); [destruct sd; destruct H|].
  destruct (Nat.lt_ge_cases (N.to_nat (n - base)) (length dl)) as [Hlt|Hge].
  - apply in_flat_map. exists (nth (N.to_nat (n - base)) dl ([], [])). split; [apply nth_In; exact Hlt|].
    apply in_or_app. destruct sd; [left|right]; apply in_map; exact H.
  - rewrite nth_overflow in H by exact Hge. destruct sd; destruct H.
Qed.

Lemma B_off_grid base dl sd n p : ~ In p (delta_prices dl) -> B (delta_of base dl) sd n p = None.
Proof.
  intros H. unfold B. rewrite spec_upsert_last_write, last_write_not_in; [reflexivity|].
  intros Hin. apply H. apply in_map_iff in Hin as (x & Ex & Hx). subst p.
  unfold payload in Hx. apply cat_in in Hx as (k & Hk). eapply dside_delta_of_in; exact Hk.
Qed.

Lemma side_is_map_sound s g (m : pmap) l :
  side_is_map s g m l = true ->
  (forall p, ~ In p g -> lookup l p = None /\ m p = None) ->
  strict_sorted s l = true /\ forall p, lookup l p = m p.
Proof.
  unfold side_is_map. intros H Hoff.
  apply andb_true_iff in H as [H Hg]. apply andb_true_iff in H as [Hs _]. split; [exact Hs|].
  intros p. destruct (in_dec Z.eq_dec p g) as [Hin|Hout].
  - rewrite forallb_forall in Hg. symmetry. apply option_eqb_Z_eq. apply Hg. exact Hin.
  - destruct (Hoff p Hout) as [-> ->]. reflexivity.
Qed.

Lemma snapshot_book_is i :
  nodup_prices (c_sbids i) = true -> nodup_prices (c_sasks i) = true ->
  obs_book_is i (update empty_book (snapshot_event i)) = true ->
  book_is (delta_i i) (update empty_book (snapshot_event i)) (c_L i).
Proof.
  intros Nb Na H. unfold obs_book_is, snapshot_event in H. cbn [update bseq bids asks] in H.
  rewrite !Bcap_B in H. apply andb_true_iff in H as [Hb Ha].
  assert (G : forall p, ~ In p (grid_of i) ->
                        ~ In p (map fst (c_sbids i)) /\ ~ In p (map fst (c_sasks i)) /\
                        ~ In p (delta_prices (c_deltas i))).
  { intros p Hp. unfold grid_of in Hp.
    repeat split; intros Hin; apply Hp; apply dedup_in; fold (delta_prices (c_deltas i));
      rewrite !in_app_iff; tauto. }
  apply side_is_map_sound in Hb as [Sb Lb].
  2:{ intros p Hp. destruct (G p Hp) as (G1 & _ & G3). split; [|apply (B_off_grid (c_base i)); exact G3].
      rewrite lookup_sort_levels. apply lookup_not_in. exact G1. }
  apply side_is_map_sound in Ha as [Sa La].
  2:{ intros p Hp. destruct (G p Hp) as (_ & G2 & G3). split; [|apply (B_off_grid (c_base i)); exact G3].
      rewrite lookup_sort_levels. apply lookup_not_in. exact G2. }
  unfold book_is, snapshot_event. cbn [update bseq bids asks]. split; [reflexivity|].
  split; [split; assumption|]. split; assumption.
Qed.

(** ** delivered messages *)
Lemma msg_of_ids insts d :
  m_U (msg_of insts d) = d_U d /\ m_u (msg_of insts d) = d_u d /\ m_pu (msg_of insts d) = d_pu d.
Proof. unfold msg_of. destruct (find_inst (d_sid d) insts); repeat split. Qed.

Lemma genuine_b_sound v insts i d :
  find_inst (d_sid d) insts = Some i -> genuine_b v i d = true ->
  genuine (delta_i i) v (msg_of insts d).
Proof.
  intros Hf H. unfold genuine_b in H. apply andb_true_iff in H as [HUu Hv].
  unfold genuine, msg_of. rewrite Hf. cbn [m_U m_u m_pu m_bids m_asks].
  split; [lia|]. split; [|split].
  - intros p. destruct (d_net d); [apply last_write_net|reflexivity].
  - intros p. destruct (d_net d); [apply last_write_net|reflexivity].
  - destruct v; [exact I|]. apply andb_true_iff in Hv as [Hpu Hgap]. split; [lia|].
    intros n H1 H2. rewrite forallb_forall in Hgap.
    specialize (Hgap (N.to_nat (n - d_pu d - 1))).
    replace (d_pu d + 1 + N.of_nat (N.to_nat (n - d_pu d - 1)))%N with n in Hgap by lia.
    assert (Hin : In (N.to_nat (n - d_pu d - 1)) (List.seq 0%nat (N.to_nat (d_U d - d_pu d - 1)))).
    { apply in_seq. lia. }
    specialize (Hgap Hin). destruct (delta_i i n) as [[|? ?] [|? ?]]; try discriminate. reflexivity.
Qed.

(** ** looking instruments up by subscription id / by key *)
Fixpoint find_by (k : icfg -> N) (n : N) (l : list icfg) : option icfg :=
  match l with
  | [] => None
  | i :: tl => if N.eqb n (k i) then Some i else find_by k n tl
  end.

Lemma find_inst_by sid l : find_inst sid l = find_by c_sid sid l.
Proof. induction l as [|i tl IH]; [reflexivity|]. cbn. rewrite IH. reflexivity. Qed.

Lemma find_by_some k n : forall l i, find_by k n l = Some i -> In i l /\ k i = n.
Proof.
  induction l as [|j tl IH]; intros i H; [discriminate|]. cbn in H.
  destruct (N.eqb_spec n (k j)) as [E|_].
  - injection H as <-. split; [left; reflexivity|congruence].
  - destruct (IH i H). split; [right; assumption|assumption].
Qed.

Lemma find_by_in k : forall l i, In i l -> nodupN (map k l) = true -> find_by k (k i) l = Some i.
Proof.
  induction l as [|j tl IH]; intros i Hin Hn; [destruct Hin|].
  cbn [map nodupN] in Hn. apply andb_true_iff in Hn as [Hj Hn]. cbn [find_by].
  destruct Hin as [->|Hin]; [rewrite N.eqb_refl; reflexivity|].
  destruct (N.eqb_spec (k i) (k j)) as [E|_]; [|apply IH; assumption].
  exfalso. apply negb_true_iff in Hj. unfold memN in Hj.
  assert (existsb (N.eqb (k j)) (map k tl) = true); [|congruence].
  apply existsb_exists. exists (k i). split; [apply in_map; exact Hin|apply N.eqb_eq; congruence].
Qed.

Lemma find_by_inj (k : icfg -> N) (l : list icfg) i j :
  nodupN (map k l) = true -> In i l -> In j l -> k i = k j -> i = j.
Proof.
  intros Hn Hi Hj E. pose proof (find_by_in k l i Hi Hn) as F1. pose proof (find_by_in k l j Hj Hn) as F2.
  rewrite E in F1. congruence.
Qed.

(** ** the connection's state: shape invariants *)
Section Stream.
  Variable v : venue.
  Variable insts : list icfg.
  Hypothesis Nsid : nodupN (map c_sid insts) = true.
  Hypothesis Nkey : nodupN (map c_key insts) = true.

  Definition dm (d : dmsg) : N * msg := (d_sid d, msg_of insts d).

  (** exactly the instruments are subscribed, each under its id with its key *)
  Definition TInv (t : list (N * meta)) : Prop :=
    forall sid, match find_inst sid insts, tfind sid t with
                | None, None => True
                | Some j, Some mt => mt_key mt = c_key j
                | _, _ => False
                end.
  (** one book per instrument, in instrument order *)
  Definition BInv (bs : list (N * book)) : Prop := map fst bs = map c_key insts.

  Lemma TInv_some t i : TInv t -> In i insts -> exists s, tfind (c_sid i) t = Some (mkMeta (c_key i) s).
  Proof.
    intros HT Hin. specialize (HT (c_sid i)).
    rewrite find_inst_by, (find_by_in c_sid insts i Hin Nsid) in HT.
    destruct (tfind (c_sid i) t) as [[k s]|]; [|destruct HT]. cbn in HT. subst k. exists s. reflexivity.
  Qed.

  Lemma find_inst_some sid i : find_inst sid insts = Some i -> In i insts /\ c_sid i = sid.
  Proof. rewrite find_inst_by. apply find_by_some. Qed.

  Lemma bfind_map_fst : forall (bs : list (N * book)) (ks : list N) k,
    map fst bs = ks -> In k ks -> exists b, bfind k bs = Some b.
  Proof.
    induction bs as [|[k0 b0] tl IH]; intros ks k E Hin; subst ks; [destruct Hin|].
    cbn [map fst In bfind] in *. destruct (N.eqb_spec k k0) as [_|Hne]; [eexists; reflexivity|].
    destruct Hin as [->|Hin]; [congruence|]. eapply IH; [reflexivity|exact Hin].
  Qed.

  Lemma BInv_some bs i : BInv bs -> In i insts -> exists b, bfind (c_key i) bs = Some b.
  Proof. intros HB Hin. eapply bfind_map_fst; [exact HB|apply in_map; exact Hin]. Qed.

  Lemma bapply_fst key e : forall bs, map fst (bapply key e bs) = map fst bs.
  Proof.
    induction bs as [|[k b] tl IH]; [reflexivity|]. cbn [bapply]. destruct (N.eqb key k); cbn [map fst]; [reflexivity|].
    rewrite IH. reflexivity.
  Qed.

  (** what a step does when the id is subscribed / is not *)
  Definition tout_of (key : N) (m : msg) (r : vres) : tout :=
    match r with
    | VDrop => TNone
    | VErr e => TErr e
    | VOk => TEvent key (m_E m) (event_of v m)
    end.

  Lemma tstep_none t bs sid m :
    tfind sid t = None -> tstep v (t, bs) (sid, m) = ((t, bs), TErr (SocketUnidentifiable sid)).
  Proof. intros H. unfold tstep, transform. cbn [fst snd]. rewrite H. reflexivity. Qed.

  Lemma tstep_some t bs sid m key s b :
    tfind sid t = Some (mkMeta key s) -> bfind key bs = Some b ->
    let st1 := fst (step1 v (mkIst s b) m) in
    let r := snd (step1 v (mkIst s b) m) in
    exists t' bs',
      tstep v (t, bs) (sid, m) = ((t', bs'), tout_of key m r) /\
      (forall sid', tfind sid' t' = if N.eqb sid' sid then Some (mkMeta key (i_seq st1)) else tfind sid' t) /\
      (forall k, bfind k bs' = if N.eqb k key then Some (i_book st1) else bfind k bs) /\
      map fst bs' = map fst bs.
  Proof.
    intros Hf Hb. unfold tstep, transform, step1. cbn [fst snd i_seq i_book]. rewrite Hf. cbn [mt_key mt_seq].
    destruct (validate_sequence v s m) as [s' r]. cbn [fst snd i_seq i_book].
    assert (HT : forall sid', tfind sid' (tset sid (mkMeta key s') t) =
                              if N.eqb sid' sid then Some (mkMeta key s') else tfind sid' t).
    { intros sid'. rewrite tfind_tset, Hf. reflexivity. }
    destruct r; cbn [fst snd consume tout_of]; eexists; eexists; (split; [reflexivity|]); (split; [exact HT|]).
    - split; [|reflexivity]. intros k. destruct (N.eqb_spec k key) as [->|_]; [exact Hb|reflexivity].
    - split; [|apply bapply_fst]. intros k. rewrite bfind_bapply, Hb. reflexivity.
    - split; [|reflexivity]. intros k. destruct (N.eqb_spec k key) as [->|_]; [exact Hb|reflexivity].
  Qed.

  Lemma TInv_step t t' sid key s1 :
    TInv t -> (exists s, tfind sid t = Some (mkMeta key s)) ->
    (forall sid', tfind sid' t' = if N.eqb sid' sid then Some (mkMeta key s1) else tfind sid' t) ->
    TInv t'.
  Proof.
    intros HT [s Hf] Ht' sid'. rewrite Ht'. specialize (HT sid').
    destruct (N.eqb_spec sid' sid) as [->|_]; [|exact HT].
    rewrite Hf in HT. destruct (find_inst sid insts); exact HT.
  Qed.
End Stream.

(** ** walking the delivery: [prop_steps] succeeds on whatever the model produced *)
Section Steps.
  Variable v : venue.
  Variable insts : list icfg.
  Hypothesis Nsid : nodupN (map c_sid insts) = true.
  Hypothesis Nkey : nodupN (map c_key insts) = true.

  (** every instrument still judged holds the exchange's book as of its sequencer's id *)
  Definition Sem (stopped : list N) (t : list (N * meta)) (bs : list (N * book)) : Prop :=
    forall i, In i insts -> memN (c_sid i) stopped = false ->
      exists s b, tfind (c_sid i) t = Some (mkMeta (c_key i) s) /\ bfind (c_key i) bs = Some b /\
                  book_is (delta_i i) b (sq_last s).

  Lemma memN_cons x y l : memN x (y :: l) = false -> x <> y /\ memN x l = false.
  Proof.
    unfold memN. cbn [existsb]. intros H. apply orb_false_iff in H as [H1 H2].
    split; [apply N.eqb_neq; exact H1|exact H2].
  Qed.

  Lemma steps_ok : forall ds os t bs stopped bsf,
    TInv insts t -> BInv insts bs -> Sem stopped t bs ->
    corr_stream v insts (t, bs) ds os = Some bsf ->
    exists stopped' tf, prop_steps v insts stopped ds os = Some stopped' /\
                        TInv insts tf /\ BInv insts bsf /\ Sem stopped' tf bsf.
  Proof.
    induction ds as [|d ds IH]; intros [|o os] t bs stopped bsf HT HB HS Hc; cbn [corr_stream] in Hc; try discriminate.
    { injection Hc as <-. exists stopped, t. repeat split; assumption. }
    cbn [prop_steps]. destruct (find_inst (d_sid d) insts) as [i|] eqn:Hfi.
    - (* a subscribed id *)
      destruct (find_inst_some insts _ _ Hfi) as [Hin Esid].
      destruct (TInv_some insts Nsid t i HT Hin) as [s Hf].
      destruct (BInv_some insts bs i HB Hin) as [b Hb].
      rewrite Esid in Hf.
      destruct (tstep_some v t bs (d_sid d) (msg_of insts d) (c_key i) s b Hf Hb) as (t' & bs' & Hstep & Ht' & Hbs' & Hfst).
      cbv zeta in Hstep, Ht', Hbs'.
      set (st1 := fst (step1 v (mkIst s b) (msg_of insts d))) in *.
      set (r := snd (step1 v (mkIst s b) (msg_of insts d))) in *.
      rewrite Hstep in Hc. cbn [fst snd] in Hc.
      destruct (obs_matches v t' bs' (tout_of v (c_key i) (msg_of insts d) r) o) eqn:Hobs; [|discriminate].
      apply obs_matches_spec in Hobs as [Hout Hbook].
      assert (HT' : TInv insts t').
      { eapply TInv_step; [exact HT|exists s; exact Hf|exact Ht']. }
      assert (HB' : BInv insts bs') by (unfold BInv in *; congruence).
      assert (Frame : forall j, In j insts -> c_sid j <> c_sid i ->
                        tfind (c_sid j) t' = tfind (c_sid j) t /\ bfind (c_key j) bs' = bfind (c_key j) bs).
      { intros j Hj Hne. rewrite Ht', Hbs'. rewrite <- Esid.
        destruct (N.eqb_spec (c_sid j) (c_sid i)); [contradiction|].
        destruct (N.eqb_spec (c_key j) (c_key i)) as [E|_]; [|split; reflexivity].
        exfalso. apply Hne. f_equal. exact (find_by_inj c_key insts j i Nkey Hj Hin E). }
      assert (SemStop : Sem (d_sid d :: stopped) t' bs').
      { intros j Hj Hm. apply memN_cons in Hm as [Hne Hm]. rewrite <- Esid in Hne.
        destruct (Frame j Hj Hne) as [F1 F2]. rewrite F1, F2. apply HS; assumption. }
      assert (SemKeep : (memN (d_sid d) stopped = false ->
                         book_is (delta_i i) (i_book st1) (sq_last (i_seq st1))) ->
                        Sem stopped t' bs').
      { intros Hi j Hj Hm. destruct (N.eq_dec (c_sid j) (c_sid i)) as [E|Hne].
        - assert (j = i) by exact (find_by_inj c_sid insts j i Nsid Hj Hin E). subst j.
          exists (i_seq st1), (i_book st1). rewrite Ht', Hbs', Esid, !N.eqb_refl.
          split; [reflexivity|]. split; [reflexivity|]. apply Hi. rewrite <- Esid. exact Hm.
        - destruct (Frame j Hj Hne) as [F1 F2]. rewrite F1, F2. apply HS; assumption. }
      destruct (memN (d_sid d) stopped) eqn:Hstopped.
      { apply (IH os t' bs' stopped bsf HT' HB'); [|exact Hc]. apply SemKeep. discriminate. }
      destruct (genuine_b v i d) eqn:Hgen; cbn [negb].
      2:{ apply (IH os t' bs' (d_sid d :: stopped) bsf HT' HB' SemStop Hc). }
      (* a genuine message for an instrument still judged *)
      pose proof (genuine_b_sound v insts i d Hfi Hgen) as Hg.
      assert (Hinv : book_is (delta_i i) (i_book st1) (sq_last (i_seq st1))).
      { rewrite <- Esid in Hstopped. destruct (HS i Hin Hstopped) as (s0 & b0 & F1 & F2 & F3).
        rewrite Esid, Hf in F1. injection F1 as <-. rewrite Hb in F2. injection F2 as <-.
        exact (step1_inv (delta_i i) v (mkIst s b) (msg_of insts d) Hg F3). }
      rewrite Hout. destruct r as [| |e]; cbn [tout_of oclass_of].
      + apply (IH os t' bs' stopped bsf HT' HB'); [|exact Hc]. apply SemKeep. intros _. exact Hinv.
      + cbn [tout_of] in Hbook. destruct Hbook as (b'' & Hb'' & Hob). rewrite Hob, N.eqb_refl. cbn [andb].
        rewrite Hbs', N.eqb_refl in Hb''. injection Hb'' as <-.
        rewrite (book_is_obs i _ _ Hinv).
        apply (IH os t' bs' stopped bsf HT' HB'); [|exact Hc]. apply SemKeep. intros _. exact Hinv.
      + destruct e as [a c|x].
        * apply (IH os t' bs' (d_sid d :: stopped) bsf HT' HB' SemStop Hc).
        * apply (IH os t' bs' stopped bsf HT' HB'); [|exact Hc]. apply SemKeep. intros _. exact Hinv.
    - (* nobody is subscribed under this id *)
      assert (Hf : tfind (d_sid d) t = None).
      { specialize (HT (d_sid d)). rewrite Hfi in HT. destruct (tfind (d_sid d) t); [destruct HT|reflexivity]. }
      rewrite (tstep_none v t bs _ _ Hf) in Hc. cbn [fst snd] in Hc.
      destruct (obs_matches v t bs (TErr (SocketUnidentifiable (d_sid d))) o) eqn:Hobs; [|discriminate].
      apply obs_matches_spec in Hobs as [Hout _]. rewrite Hout. cbn [oclass_of].
      exact (IH os t bs stopped bsf HT HB HS Hc).
  Qed.
End Steps.

(** ** the boolean venue rules against any message function that keeps the ids *)
Section RulesGen.
  Variable g : dmsg -> msg.
  Hypothesis Hg : forall d, m_U (g d) = d_U d /\ m_u (g d) = d_u d /\ m_pu (g d) = d_pu d.

  Lemma older_g v l d : older_b v l (d_u d) = true <-> older v l (g d).
  Proof. destruct (Hg d) as (E1 & E2 & E3). destruct v; cbn [older_b older]; rewrite E2; lia. Qed.
  Lemma first_g v l d : first_rule_b v l (d_U d) (d_u d) = true <-> first_rule v l (g d).
  Proof. destruct (Hg d) as (E1 & E2 & E3). destruct v; cbn [first_rule_b first_rule]; rewrite E1, E2; lia. Qed.
  Lemma next_g v prev d : next_rule_b v prev (d_U d) (d_pu d) = true <-> next_rule v prev (g d).
  Proof. destruct (Hg d) as (E1 & E2 & E3). destruct v; cbn [next_rule_b next_rule]; rewrite ?E1, ?E3; lia. Qed.
  Lemma wf_g v d : ids_wf_b v d = true <-> ids_wf v (g d).
  Proof. destruct (Hg d) as (E1 & E2 & E3). destruct v; unfold ids_wf_b, ids_wf; rewrite E1, E2, ?E3; lia. Qed.

  Lemma chain_from_g v : forall ds prev, chain_from_b v prev ds = true <-> chain_from v prev (map g ds).
  Proof.
    induction ds as [|d ds IH]; intros prev; cbn [chain_from_b chain_from map]; [tauto|].
    destruct (Hg d) as (_ & E2 & _). rewrite andb_true_iff, next_g, IH, E2. reflexivity.
  Qed.
  Lemma chain_ok_g v l ds : chain_ok_b v l ds = true <-> chain_ok v l (map g ds).
  Proof.
    destruct ds as [|d ds]; cbn [chain_ok_b chain_ok map]; [tauto|].
    destruct (Hg d) as (_ & E2 & _). rewrite andb_true_iff, first_g, chain_from_g, E2. reflexivity.
  Qed.
End RulesGen.

(** ** small list facts *)
Lemma take_drop_while {A} (f : A -> bool) : forall l, l = take_while f l ++ drop_while f l.
Proof. induction l as [|x tl IH]; [reflexivity|]. cbn. destruct (f x); [cbn; f_equal; exact IH|reflexivity]. Qed.

Lemma take_while_all {A} (f : A -> bool) : forall l, Forall (fun x => f x = true) (take_while f l).
Proof.
  induction l as [|x tl IH]; [constructor|]. cbn. destruct (f x) eqn:E; [constructor; assumption|constructor].
Qed.

Lemma app_eq_length {A} : forall (a c b d : list A),
  length a = length c -> a ++ b = c ++ d -> a = c /\ b = d.
Proof.
  induction a as [|x a IH]; intros [|y c] b d Hl E; cbn in *; try discriminate; [split; [reflexivity|exact E]|].
  injection E as -> E. injection Hl as Hl. destruct (IH c b d Hl E) as [-> ->]. split; reflexivity.
Qed.

Lemma Forall2_repeat_r {A B} (R : A -> B -> Prop) y : forall l n,
  Forall2 R l (repeat y n) -> Forall (fun x => R x y) l.
Proof.
  induction l as [|x l IH]; intros n H; [constructor|].
  destruct n as [|n]; cbn in H; inversion H; subst. constructor; [assumption|eapply IH; eassumption].
Qed.

Lemma Forall2_len {A B} (R : A -> B -> Prop) l l' : Forall2 R l l' -> length l = length l'.
Proof. induction 1; cbn; congruence. Qed.

Lemma run1_length v : forall ms st, length (snd (run1 v st ms)) = length ms.
Proof.
  induction ms as [|m ms IH]; intros st; [reflexivity|]. rewrite run1_cons. cbn [snd length]. rewrite IH. reflexivity.
Qed.

(** ** one instrument's part of the delivery is a run of that instrument alone *)
Section Trace.
  Variable v : venue.
  Variable insts : list icfg.
  Hypothesis Nsid : nodupN (map c_sid insts) = true.
  Hypothesis Nkey : nodupN (map c_key insts) = true.

  Definition kind_ok (r : vres) (c : oclass) : Prop :=
    match r with
    | VDrop => c = ONone
    | VOk => is_event c = true
    | VErr _ => is_none c = false /\ is_event c = false
    end.

  Notation pm := (fun p : dmsg * oclass => msg_of insts (fst p)).

  Lemma kind_ok_of key m r : kind_ok r (oclass_of v (tout_of v key m r)).
  Proof. destruct r as [| |[a b|x]]; cbn; try reflexivity; split; reflexivity. Qed.

  Lemma trace_ok : forall ds os t bs bsf i s b,
    In i insts -> TInv insts t -> BInv insts bs ->
    tfind (c_sid i) t = Some (mkMeta (c_key i) s) -> bfind (c_key i) bs = Some b ->
    corr_stream v insts (t, bs) ds os = Some bsf ->
    Forall2 (fun p r => kind_ok r (snd p)) (of_sid (c_sid i) ds os)
            (snd (run1 v (mkIst s b) (map pm (of_sid (c_sid i) ds os)))).
  Proof.
    induction ds as [|d ds IH]; intros [|o os] t bs bsf i s b Hin HT HB Hf Hb Hc; cbn [corr_stream] in Hc;
      try discriminate; cbn [of_sid map run1 snd]; try constructor.
    destruct (N.eqb_spec (d_sid d) (c_sid i)) as [E|Hne].
    - (* this instrument's message *)
      rewrite <- E in Hf.
      destruct (tstep_some v t bs (d_sid d) (msg_of insts d) (c_key i) s b Hf Hb) as (t' & bs' & Hstep & Ht' & Hbs' & Hfst).
      cbv zeta in Hstep, Ht', Hbs'. rewrite Hstep in Hc. cbn [fst snd] in Hc.
      match type of Hc with (if ?c then _ else _) = _ => destruct c eqn:Hobs; [|discriminate] end.
      apply obs_matches_spec in Hobs as [Hout _].
      cbn [map fst]. rewrite run1_cons. cbn [snd]. constructor.
      + cbn [snd]. rewrite Hout. apply kind_ok_of.
      + assert (HT' : TInv insts t') by (eapply TInv_step; [exact HT|exists s; exact Hf|exact Ht']).
        assert (HB' : BInv insts bs') by (unfold BInv in *; congruence).
        destruct (fst (step1 v (mkIst s b) (msg_of insts d))) as [s1 b1] eqn:Est. cbn [i_seq i_book] in *.
        apply (IH os t' bs' bsf i s1 b1 Hin HT' HB'); [| |exact Hc].
        * rewrite Ht', <- E, N.eqb_refl. reflexivity.
        * rewrite Hbs', N.eqb_refl. reflexivity.
    - (* somebody else's *)
      destruct (tfind (d_sid d) t) as [[kj sj]|] eqn:Hfj.
      + pose proof (HT (d_sid d)) as Hj. rewrite Hfj in Hj.
        destruct (find_inst (d_sid d) insts) as [j|] eqn:Hfi; [|destruct Hj]. cbn in Hj. subst kj.
        destruct (find_inst_some insts _ _ Hfi) as [Hjin Ej].
        destruct (BInv_some insts bs j HB Hjin) as [bj Hbj].
        destruct (tstep_some v t bs (d_sid d) (msg_of insts d) (c_key j) sj bj Hfj Hbj) as (t' & bs' & Hstep & Ht' & Hbs' & Hfst).
        cbv zeta in Hstep, Ht', Hbs'. rewrite Hstep in Hc. cbn [fst snd] in Hc.
        match type of Hc with (if ?c then _ else _) = _ => destruct c eqn:Hobs; [|discriminate] end.
        assert (HT' : TInv insts t') by (eapply TInv_step; [exact HT|exists sj; exact Hfj|exact Ht']).
        assert (HB' : BInv insts bs') by (unfold BInv in *; congruence).
        apply (IH os t' bs' bsf i s b Hin HT' HB'); [| |exact Hc].
        * rewrite Ht'. destruct (N.eqb_spec (c_sid i) (d_sid d)); [congruence|exact Hf].
        * rewrite Hbs'. destruct (N.eqb_spec (c_key i) (c_key j)) as [Ek|_]; [|exact Hb].
          exfalso. apply Hne. rewrite <- Ej. f_equal. symmetry. exact (find_by_inj c_key insts i j Nkey Hin Hjin Ek).
      + rewrite (tstep_none v t bs _ _ Hfj) in Hc. cbn [fst snd] in Hc.
        match type of Hc with (if ?c then _ else _) = _ => destruct c eqn:Hobs; [|discriminate] end.
        exact (IH os t bs bsf i s b Hin HT HB Hf Hb Hc).
  Qed.

  Lemma msg_of_ids_all : forall d, m_U (msg_of insts d) = d_U d /\ m_u (msg_of insts d) = d_u d /\ m_pu (msg_of insts d) = d_pu d.
  Proof. intros d. apply msg_of_ids. Qed.

  Lemma map_pm l : map pm l = map (msg_of insts) (map fst l).
  Proof. rewrite map_map. reflexivity. Qed.

  (** no false alarm *)
  Lemma nfa_ok i ps bk :
    Forall2 (fun p r => kind_ok r (snd p)) ps (snd (run1 v (mkIst (seq_new (c_L i)) bk) (map pm ps))) ->
    no_false_alarm_b v i ps = true.
  Proof.
    intros H. unfold no_false_alarm_b.
    set (isold := fun p : dmsg * oclass => older_b v (c_L i) (d_u (fst p))).
    pose proof (take_drop_while isold ps) as Eps. pose proof (take_while_all isold ps) as Hold.
    set (old := take_while isold ps) in *. set (suf := drop_while isold ps) in *.
    destruct (forallb (fun p => ids_wf_b v (fst p)) suf && chain_ok_b v (c_L i) (map fst suf)) eqn:Hshape; [|reflexivity].
    apply andb_true_iff in Hshape as [Hwf Hch].
    rewrite Eps, map_app in H.
    assert (Ho : Forall (older v (c_L i)) (map pm old)).
    { apply Forall_map. eapply Forall_impl; [|exact Hold]. intros p Hp. cbv beta in Hp |- *.
      apply (older_g (msg_of insts) msg_of_ids_all). exact Hp. }
    assert (Hw : Forall (ids_wf v) (map pm suf)).
    { apply Forall_map. rewrite forallb_forall in Hwf. apply Forall_forall. intros p Hp. cbv beta.
      apply (wf_g (msg_of insts) msg_of_ids_all). apply Hwf. exact Hp. }
    assert (Hc : chain_ok v (c_L i) (map pm suf)).
    { rewrite map_pm. apply (chain_ok_g (msg_of insts) msg_of_ids_all). exact Hch. }
    rewrite (no_false_alarm_lemma v (c_L i) bk _ _ Ho Hw Hc) in H.
    apply Forall2_app_inv_l in H as (r1 & r2 & H1 & H2 & E).
    apply app_eq_length in E as [<- <-].
    2:{ rewrite repeat_length, map_length. eapply Forall2_len. exact H1. }
    apply Forall2_repeat_r in H1. apply Forall2_repeat_r in H2.
    apply andb_true_iff. split; apply forallb_forall; intros p Hp.
    - rewrite Forall_forall in H1. specialize (H1 p Hp). cbn in H1. rewrite H1. reflexivity.
    - rewrite Forall_forall in H2. exact (H2 p Hp).
  Qed.

  (** the admitted messages form a chain *)
  Lemma admitted_filter : forall (l : list (dmsg * oclass)) rs,
    Forall (fun p => is_none (snd p) || is_event (snd p) = true) l ->
    Forall2 (fun p r => kind_ok r (snd p)) l rs ->
    admitted (map pm l) rs = map pm (filter (fun p => is_event (snd p)) l).
  Proof.
    induction l as [|p l IH]; intros rs Hall H2; inversion H2 as [|? r ? rs' Hk H2']; subst; [reflexivity|].
    inversion Hall as [|? ? Hp Hall']; subst. cbn [map filter admitted].
    destruct r as [| |e]; cbn [kind_ok] in Hk.
    - rewrite Hk. cbn [is_event]. apply IH; assumption.
    - rewrite Hk. cbn [map]. f_equal. apply IH; assumption.
    - destruct Hk as [K1 K2]. rewrite K1, K2 in Hp. discriminate.
  Qed.

  Lemma adm_ok i ps bk :
    Forall2 (fun p r => kind_ok r (snd p)) ps (snd (run1 v (mkIst (seq_new (c_L i)) bk) (map pm ps))) ->
    admitted_chain_b v i ps = true.
  Proof.
    intros H. unfold admitted_chain_b.
    set (g := fun p : dmsg * oclass => is_none (snd p) || is_event (snd p)).
    pose proof (take_drop_while g ps) as Eps. pose proof (take_while_all g ps) as Hall.
    set (upto := take_while g ps) in *. set (rest := drop_while g ps) in *.
    rewrite Eps, map_app, run1_app in H. cbn [snd] in H.
    apply Forall2_app_inv_l in H as (r1 & r2 & H1 & H2 & E).
    apply app_eq_length in E as [E1 _].
    2:{ rewrite run1_length, map_length. eapply Forall2_len. exact H1. }
    subst r1.
    pose proof (admitted_chain_first v (map pm upto) (mkIst (seq_new (c_L i)) bk) eq_refl) as Hch.
    cbn [i_seq seq_new sq_last] in Hch.
    rewrite (admitted_filter upto _ Hall H1), map_pm in Hch.
    apply (chain_ok_g (msg_of insts) msg_of_ids_all). exact Hch.
  Qed.
End Trace.

(** ** the connection right after [init] and the REST snapshots *)
Section Initial.
  Variable insts : list icfg.

  Definition t0 : list (N * meta) := map (fun i => (c_sid i, mkMeta (c_key i) (seq_new (c_L i)))) insts.
  Definition bs0 : list (N * book) := map (fun i => (c_key i, update empty_book (snapshot_event i))) insts.

  Lemma tfind_map sid : forall l,
    tfind sid (map (fun i => (c_sid i, mkMeta (c_key i) (seq_new (c_L i)))) l) =
    option_map (fun i => mkMeta (c_key i) (seq_new (c_L i))) (find_by c_sid sid l).
  Proof. induction l as [|i tl IH]; [reflexivity|]. cbn. destruct (N.eqb sid (c_sid i)); [reflexivity|exact IH]. Qed.

  Lemma bfind_map key : forall l,
    bfind key (map (fun i => (c_key i, update empty_book (snapshot_event i))) l) =
    option_map (fun i => update empty_book (snapshot_event i)) (find_by c_key key l).
  Proof. induction l as [|i tl IH]; [reflexivity|]. cbn. destruct (N.eqb key (c_key i)); [reflexivity|exact IH]. Qed.

  Lemma find_snapshot_map key : forall l,
    find_snapshot key (map (fun i => (c_key i, snapshot_event i)) l) =
    option_map snapshot_event (find_by c_key key l).
  Proof.
    induction l as [|i tl IH]; [reflexivity|]. cbn. rewrite (N.eqb_sym (c_key i) key).
    destruct (N.eqb key (c_key i)); [reflexivity|exact IH].
  Qed.

  Lemma init_map snaps : forall l,
    (forall i, In i l -> find_snapshot (c_key i) snaps = Some (snapshot_event i)) ->
    init (map (fun i => (c_sid i, c_key i)) l) snaps =
    InitOk (map (fun i => (c_sid i, mkMeta (c_key i) (seq_new (c_L i)))) l).
  Proof.
    induction l as [|i tl IH]; intros H; [reflexivity|]. cbn [map init].
    rewrite (H i (or_introl eq_refl)). unfold snapshot_event at 1.
    rewrite IH by (intros j Hj; apply H; right; exact Hj). reflexivity.
  Qed.

  Hypothesis Nsid : nodupN (map c_sid insts) = true.
  Hypothesis Nkey : nodupN (map c_key insts) = true.

  Lemma init_t0 :
    init (map (fun i => (c_sid i, c_key i)) insts) (map (fun i => (c_key i, snapshot_event i)) insts) = InitOk t0.
  Proof.
    apply init_map. intros i Hi. rewrite find_snapshot_map, (find_by_in c_key insts i Hi Nkey). reflexivity.
  Qed.

  Lemma TInv_t0 : TInv insts t0.
  Proof.
    intros sid. unfold t0. rewrite tfind_map, find_inst_by. destruct (find_by c_sid sid insts); cbn; [reflexivity|exact I].
  Qed.

  Lemma BInv_bs0 : BInv insts bs0.
  Proof. unfold BInv, bs0. rewrite map_map. reflexivity. Qed.

  Lemma tfind_t0 i : In i insts -> tfind (c_sid i) t0 = Some (mkMeta (c_key i) (seq_new (c_L i))).
  Proof. intros Hi. unfold t0. rewrite tfind_map, (find_by_in c_sid insts i Hi Nsid). reflexivity. Qed.

  Lemma bfind_bs0 i : In i insts -> bfind (c_key i) bs0 = Some (update empty_book (snapshot_event i)).
  Proof. intros Hi. unfold bs0. rewrite bfind_map, (find_by_in c_key insts i Hi Nkey). reflexivity. Qed.
End Initial.

(** ** the final books, instrument by instrument *)
Lemma zip_final_ok : forall insts (bsf : list (N * book)),
  map fst bsf = map c_key insts ->
  exists fin, zip_final insts (map snd bsf) = Some fin /\
              (nodupN (map c_key insts) = true ->
               forall i b, In (i, b) fin -> In i insts /\ bfind (c_key i) bsf = Some b).
Proof.
  induction insts as [|i it IH]; intros [|[k b] bt] E; cbn in E; try discriminate.
  - exists []. split; [reflexivity|]. intros _ j c [].
  - injection E as -> E. destruct (IH bt E) as (fin & Hz & Hfin).
    exists ((i, b) :: fin). cbn [map snd zip_final]. rewrite Hz. split; [reflexivity|].
    intros Hn j c Hin. cbn [map nodupN] in Hn. apply andb_true_iff in Hn as [Hi Hn].
    destruct Hin as [Ej|Hin].
    + injection Ej as <- <-. split; [left; reflexivity|]. cbn [bfind]. rewrite N.eqb_refl. reflexivity.
    + destruct (Hfin Hn j c Hin) as [Hj Hb]. split; [right; exact Hj|].
      cbn [bfind]. destruct (N.eqb_spec (c_key j) (c_key i)) as [Ek|_]; [|exact Hb].
      exfalso. apply negb_true_iff in Hi. unfold memN in Hi.
      assert (existsb (N.eqb (c_key i)) (map c_key it) = true); [|congruence].
      apply existsb_exists. exists (c_key j). split; [apply in_map; exact Hj|apply N.eqb_eq; congruence].
Qed.

(** ** single calls *)
Lemma seq_case_sound v s U u pu r s' :
  corr_b (CSeq v s U u pu r s') = true -> prop_b (CSeq v s U u pu r s') = true.
Proof.
  cbn [corr_b prop_b]. pose proof (prop_seq_accepts_model v s U u pu) as HP. cbv zeta in HP.
  destruct (validate_sequence v s (mkMsg U u pu 0 0 [] [])) as [s1 r1]. cbn [fst snd] in HP.
  intros H. apply andb_true_iff in H as [Hr Hs].
  assert (Er : r = sres_of r1).
  { destruct r1 as [| |[a b|x]]; destruct r; cbn in Hr; try discriminate; cbn [sres_of is_terminal].
    - reflexivity.
    - subst. reflexivity.
    - apply andb_true_iff in Hr as [Hr ->]. apply andb_true_iff in Hr as [Ha Hb].
      apply N.eqb_eq in Ha, Hb. subst. reflexivity. }
  subst r. unfold seq_eqb in Hs. apply andb_true_iff in Hs as [Hs _]. apply andb_true_iff in Hs as [H1 H2].
  apply N.eqb_eq in H1, H2. unfold prop_seq in *. rewrite <- H1, <- H2. exact HP.
Qed.

(** ** the link theorem: on every case that meets the input requirements, whatever the model
    reproduces exactly ([corr_b]) is accepted by the oracle ([prop_b]): the oracle is no stricter
    than the model, so a [prop_b] failure on the implementation is never an artefact of the
    oracle demanding more than the proved model delivers *)
Theorem oracle_sound c : in_domain c = true -> corr_b c = true -> prop_b c = true.
Proof.
  destruct c as [v s U u pu r s'|v insts ds os final|v imap snaps r seqs|w]; intros Hd Hc.
  - apply seq_case_sound. exact Hc.
  - cbn [in_domain] in Hd. unfold wf_stream in Hd.
    apply andb_true_iff in Hd as [Hd Hsnap]. apply andb_true_iff in Hd as [Nsid Nkey].
    rewrite forallb_forall in Hsnap.
    cbn [corr_b] in Hc. rewrite (init_t0 insts Nkey) in Hc. fold (bs0 insts) in Hc.
    destruct (corr_stream v insts (t0 insts, bs0 insts) ds os) as [bsf|] eqn:Hcs; [|discriminate].
    apply books_eqb_eq in Hc. subst final.
    assert (HS0 : Sem insts [] (t0 insts) (bs0 insts)).
    { intros i Hi _. exists (seq_new (c_L i)), (update empty_book (snapshot_event i)).
      split; [apply tfind_t0; assumption|]. split; [apply bfind_bs0; assumption|].
      specialize (Hsnap i Hi). apply andb_true_iff in Hsnap as [Hn Hob]. apply andb_true_iff in Hn as [Nb Na].
      exact (snapshot_book_is i Nb Na Hob). }
    destruct (steps_ok v insts Nsid Nkey ds os _ _ [] bsf (TInv_t0 insts) (BInv_bs0 insts) HS0 Hcs)
      as (stopped & tf & Hps & HTf & HBf & HSf).
    destruct (zip_final_ok insts bsf HBf) as (fin & Hz & Hfin).
    cbn [prop_b]. rewrite Hps, Hz. apply andb_true_iff. split; apply forallb_forall.
    + intros [i b] Hib. cbn [fst snd]. destruct (Hfin Nkey i b Hib) as [Hi Hb].
      destruct (memN (c_sid i) stopped) eqn:Hm; [reflexivity|]. cbn [orb].
      destruct (HSf i Hi Hm) as (s1 & b1 & _ & F2 & F3). rewrite Hb in F2. injection F2 as <-.
      exact (book_is_obs i _ _ F3).
    + intros i Hi.
      pose proof (trace_ok v insts Nkey ds os _ _ bsf i _ _ Hi (TInv_t0 insts) (BInv_bs0 insts)
                           (tfind_t0 insts Nsid i Hi) (bfind_bs0 insts Nkey i Hi) Hcs) as Htr.
      rewrite (nfa_ok v insts i _ _ Htr), (adm_ok v insts i _ _ Htr). reflexivity.
  - reflexivity.
  - discriminate.
Qed.
