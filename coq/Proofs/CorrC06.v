(** Links between the executable oracle of Corr/C06.v and the Prop-level statements of
    Props/C06.v: the boolean venue rules reflect the Prop rules, and the single-call oracle
    [prop_seq] accepts exactly what the model's [validate_sequence] does (so the oracle is no
    stricter than the model, and no laxer on classification and the two compared fields). *)
From BV Require Import Base.Common Model.Book Model.BinanceSeq Proofs.BinanceSeq Corr.C06.
From Coq Require Import ZifyBool.

Definition msg_ids (d : dmsg) : msg := mkMsg (d_U d) (d_u d) (d_pu d) (d_E d) (d_T d) [] [].

Lemma older_b_spec v l d : older_b v l (d_u d) = true <-> older v l (msg_ids d).
Proof. destruct v; cbn [older_b older msg_ids m_u]; lia. Qed.

Lemma first_rule_b_spec v l d :
  first_rule_b v l (d_U d) (d_u d) = true <-> first_rule v l (msg_ids d).
Proof. destruct v; cbn [first_rule_b first_rule msg_ids m_U m_u]; lia. Qed.

Lemma next_rule_b_spec v prev d :
  next_rule_b v prev (d_U d) (d_pu d) = true <-> next_rule v prev (msg_ids d).
Proof. destruct v; cbn [next_rule_b next_rule msg_ids m_U m_pu]; lia. Qed.

Lemma ids_wf_b_spec v d : ids_wf_b v d = true <-> ids_wf v (msg_ids d).
Proof. destruct v; unfold ids_wf_b, ids_wf; cbn [msg_ids m_U m_u m_pu]; lia. Qed.

Lemma chain_from_b_spec v : forall ds prev,
  chain_from_b v prev ds = true <-> chain_from v prev (map msg_ids ds).
Proof.
  induction ds as [|d ds IH]; intros prev; cbn [chain_from_b chain_from map]; [tauto|].
  rewrite andb_true_iff, next_rule_b_spec, IH. reflexivity.
Qed.

Lemma chain_ok_b_spec v l ds : chain_ok_b v l ds = true <-> chain_ok v l (map msg_ids ds).
Proof.
  destruct ds as [|d ds]; cbn [chain_ok_b chain_ok map]; [tauto|].
  rewrite andb_true_iff, first_rule_b_spec, chain_from_b_spec. reflexivity.
Qed.

(** what the harness would observe if the implementation were the model *)
Definition sres_of (r : vres) : sres :=
  match r with
  | VDrop => RDrop
  | VOk => ROk true
  | VErr (InvalidSequence a b) => RErrSeq a b (is_terminal (InvalidSequence a b))
  | VErr (SocketUnidentifiable _) => RErrOther
  end.

(** the single-call oracle accepts the model on every input *)
Lemma prop_seq_accepts_model v s U u pu :
  let m := mkMsg U u pu 0 0 [] [] in
  prop_seq v s U u pu (sres_of (snd (validate_sequence v s m))) (fst (validate_sequence v s m)) = true.
Proof.
  cbv zeta. set (m := mkMsg U u pu 0 0 [] []).
  destruct (validate_cases v s m) as [[H1 H2]|[[H1 [H2 H3]]|[H1 [H2 H3]]]]; rewrite H2; cbn [fst snd sres_of seq_error];
    unfold prop_seq, is_first_update in *;
    destruct v; cbn [is_stale first_ok next_ok older_b first_rule_b next_rule_b advance sq_ups sq_last sq_prev m_U m_u m_pu m is_terminal] in *;
    repeat match goal with
           | |- context [if ?b then _ else _] => destruct b eqn:?
           | H : context [if ?b then _ else _] |- _ => destruct b eqn:?
           end; lia.
Qed.

(** ... and nothing else as far as classification, updates_processed and last_update_id go *)
Lemma prop_seq_only_model v s U u pu r s' :
  prop_seq v s U u pu r s' = true ->
  let m := mkMsg U u pu 0 0 [] [] in
  sq_ups s' = sq_ups (fst (validate_sequence v s m)) /\
  sq_last s' = sq_last (fst (validate_sequence v s m)) /\
  match snd (validate_sequence v s m), r with
  | VDrop, RDrop => True
  | VOk, ROk same => same = true
  | VErr _, RErrSeq _ _ t => t = true
  | _, _ => False
  end.
Proof.
  cbv zeta. set (m := mkMsg U u pu 0 0 [] []). intros H.
  destruct (validate_cases v s m) as [[H1 H2]|[[H1 [H2 H3]]|[H1 [H2 H3]]]]; rewrite H2; cbn [fst snd];
    unfold prop_seq, is_first_update in *;
    destruct v; cbn [is_stale first_ok next_ok older_b first_rule_b next_rule_b advance sq_ups sq_last sq_prev m_U m_u m_pu m] in *;
    destruct (N.eqb (sq_ups s) 0); destruct r; try lia;
    repeat match goal with
           | H : context [if ?b then _ else _] |- _ => destruct b eqn:?
           end; try lia; try discriminate.
Qed.
