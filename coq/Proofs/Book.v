(** Lemmas about Model/Book.v : the sorted level list refines a price -> amount map. *)
From BV Require Import Base.Common Model.Book.
From Coq Require Import Sorting.Sorted ZifyBool.

Definition R (s : side) (x y : level) : Prop := before s (fst x) (fst y) = true.
Definition SS (s : side) (l : list level) : Prop := StronglySorted (R s) l.

Lemma before_trans s p q r : before s p q = true -> before s q r = true -> before s p r = true.
Proof. destruct s; unfold before; lia. Qed.
Lemma before_irrefl s p : before s p p = false.
Proof. destruct s; unfold before; lia. Qed.
Lemma before_asym s p q : before s p q = true -> before s q p = false.
Proof. destruct s; unfold before; lia. Qed.
Lemma before_total s p q : p <> q -> before s p q = false -> before s q p = true.
Proof. destruct s; unfold before; lia. Qed.

Lemma strict_sorted_SS s l : strict_sorted s l = true <-> SS s l.
Proof.
  unfold SS. split.
  - induction l as [|x tl IH]; intros H; [constructor|].
    destruct tl as [|y tl'].
    + constructor; constructor.
    + cbn [strict_sorted] in H. apply andb_true_iff in H as [Hxy Htl].
      specialize (IH Htl). constructor; [exact IH|].
      constructor; [exact Hxy|].
      apply StronglySorted_inv in IH as [_ Hall].
      eapply Forall_impl; [|exact Hall]. intros z Hz. unfold R in *.
      eapply before_trans; eassumption.
  - induction l as [|x tl IH]; intros H; [reflexivity|].
    apply StronglySorted_inv in H as [Htl Hall].
    destruct tl as [|y tl']; [reflexivity|].
    cbn [strict_sorted]. apply andb_true_iff. split.
    + inversion Hall; subst; assumption.
    + apply IH; exact Htl.
Qed.

Lemma lookup_none_after s p l :
  Forall (fun x => before s p (fst x) = true) l -> lookup l p = None.
Proof.
  induction 1 as [|[q a] tl Hq _ IH]; [reflexivity|].
  cbn [lookup fst] in *. destruct (Z.eqb_spec p q) as [->|_].
  - rewrite before_irrefl in Hq; discriminate.
  - exact IH.
Qed.

Lemma Forall_after_trans s p q l :
  before s p q = true -> Forall (R s (q, 0%Z)) l -> Forall (fun x => before s p (fst x) = true) l.
Proof.
  intros Hpq H. eapply Forall_impl; [|exact H]. intros x Hx. unfold R in Hx; cbn [fst] in Hx.
  eapply before_trans; eassumption.
Qed.

Lemma R_fst s p a b x : R s (p, a) x <-> R s (p, b) x.
Proof. unfold R; cbn [fst]; tauto. Qed.

Lemma Forall_R_fst s p a b l : Forall (R s (p, a)) l -> Forall (R s (p, b)) l.
Proof. apply Forall_impl. intros x. apply R_fst. Qed.

(** one upsert keeps the side strictly sorted *)
Lemma upsert_single_SS s l lv : SS s l -> SS s (upsert_single s l lv).
Proof.
  unfold SS. destruct lv as [p0 a0]. induction l as [|[p a] tl IH]; intros H; cbn [upsert_single fst snd].
  - destruct (Z.eqb a0 0); repeat constructor.
  - apply StronglySorted_inv in H as [Htl Hall].
    destruct (Z.eqb_spec p0 p) as [->|Hne].
    + destruct (Z.eqb a0 0); [exact Htl|].
      constructor; [exact Htl|]. eapply Forall_R_fst; exact Hall.
    + destruct (before s p0 p) eqn:Hb.
      * destruct (Z.eqb a0 0); [constructor; assumption|].
        constructor; [constructor; assumption|].
        constructor; [exact Hb|].
        eapply Forall_impl; [|exact Hall]. intros x Hx. unfold R in *; cbn [fst] in *.
        eapply before_trans; eassumption.
      * constructor; [apply IH; exact Htl|].
        (* every element of the upserted tail is after p *)
        clear IH. assert (Hp : before s p p0 = true) by (apply before_total; [congruence|exact Hb]).
        clear Hb Hne. revert Hall. clear Htl.
        induction tl as [|[q b] tl IHtl]; intros Hall; cbn [upsert_single fst snd].
        -- destruct (Z.eqb a0 0); repeat constructor. exact Hp.
        -- inversion Hall as [|? ? Hq Hall']; subst.
           destruct (Z.eqb p0 q).
           ++ destruct (Z.eqb a0 0); [exact Hall'|]. constructor; [exact Hq|exact Hall'].
           ++ destruct (before s p0 q).
              ** destruct (Z.eqb a0 0); [exact Hall|]. constructor; [exact Hp|exact Hall].
              ** constructor; [exact Hq|]. apply IHtl; exact Hall'.
Qed.

(** ... and acts on the abstract map exactly like [spec_upsert_single] *)
Lemma lookup_upsert_single s l lv p :
  SS s l -> lookup (upsert_single s l lv) p = spec_upsert_single (lookup l) lv p.
Proof.
  unfold SS, spec_upsert_single. destruct lv as [p0 a0]. cbn [fst snd].
  induction l as [|[q a] tl IH]; intros H; cbn [upsert_single fst snd lookup].
  - destruct (Z.eqb_spec a0 0); cbn [lookup]; destruct (Z.eqb p p0); reflexivity.
  - apply StronglySorted_inv in H as [Htl Hall].
    destruct (Z.eqb_spec p0 q) as [->|Hne].
    + destruct (Z.eqb_spec a0 0).
      * destruct (Z.eqb_spec p q) as [E|_]; [subst p|reflexivity].
        apply (lookup_none_after s). eapply Forall_impl; [|exact Hall]. intros x Hx; exact Hx.
      * cbn [lookup]. destruct (Z.eqb p q); reflexivity.
    + destruct (before s p0 q) eqn:Hb.
      * assert (Hnone : lookup ((q, a) :: tl) p0 = None).
        { apply (lookup_none_after s). constructor; [exact Hb|].
          eapply Forall_after_trans; [exact Hb|]. eapply Forall_R_fst; exact Hall. }
        destruct (Z.eqb_spec a0 0).
        -- cbn [lookup]. destruct (Z.eqb_spec p p0) as [E|_]; [subst p|reflexivity].
           cbn [lookup] in Hnone. exact Hnone.
        -- cbn [lookup]. destruct (Z.eqb_spec p p0) as [E|_]; reflexivity.
      * cbn [lookup]. rewrite (IH Htl).
        destruct (Z.eqb_spec p q) as [E|_]; [subst p|reflexivity].
        destruct (Z.eqb_spec q p0); [congruence|reflexivity].
Qed.

Lemma upsert_SS s lvs : forall l, SS s l -> SS s (upsert s l lvs).
Proof.
  unfold upsert. induction lvs as [|lv lvs IH]; intros l H; cbn [fold_left]; [exact H|].
  apply IH. apply upsert_single_SS; exact H.
Qed.

Lemma spec_upsert_single_ext m m' lv :
  (forall p, m p = m' p) -> forall p, spec_upsert_single m lv p = spec_upsert_single m' lv p.
Proof. intros H p. unfold spec_upsert_single. rewrite H. reflexivity. Qed.

Lemma spec_upsert_ext lvs : forall m m',
  (forall p, m p = m' p) -> forall p, spec_upsert m lvs p = spec_upsert m' lvs p.
Proof.
  unfold spec_upsert. induction lvs as [|lv lvs IH]; intros m m' H p; cbn [fold_left]; [apply H|].
  apply IH. apply spec_upsert_single_ext; exact H.
Qed.

Lemma lookup_upsert s lvs : forall l p,
  SS s l -> lookup (upsert s l lvs) p = spec_upsert (lookup l) lvs p.
Proof.
  induction lvs as [|lv lvs IH]; intros l p H; [reflexivity|].
  unfold upsert, spec_upsert in *. cbn [fold_left]. rewrite IH by (apply upsert_single_SS; exact H).
  apply (spec_upsert_ext lvs). intros q. apply lookup_upsert_single; exact H.
Qed.

(** a strictly sorted level list is determined by the map it represents: it is *the* sorted
    enumeration of that map *)
Lemma SS_lookup_ext s : forall l1 l2,
  SS s l1 -> SS s l2 -> (forall p, lookup l1 p = lookup l2 p) -> l1 = l2.
Proof.
  unfold SS. induction l1 as [|[p1 a1] t1 IH]; intros l2 H1 H2 Hext.
  - destruct l2 as [|[p2 a2] t2]; [reflexivity|].
    specialize (Hext p2). cbn [lookup] in Hext. rewrite Z.eqb_refl in Hext. discriminate.
  - destruct l2 as [|[p2 a2] t2].
    + specialize (Hext p1). cbn [lookup] in Hext. rewrite Z.eqb_refl in Hext. discriminate.
    + apply StronglySorted_inv in H1 as [Ht1 Hall1]. apply StronglySorted_inv in H2 as [Ht2 Hall2].
      assert (Hn1 : lookup t1 p1 = None) by (apply (lookup_none_after s); exact Hall1).
      assert (Hn2 : lookup t2 p2 = None) by (apply (lookup_none_after s); exact Hall2).
      assert (Hp : p1 = p2).
      { destruct (Z.eq_dec p1 p2) as [|Hne]; [assumption|exfalso].
        pose proof (Hext p1) as E1. pose proof (Hext p2) as E2. cbn [lookup] in E1, E2.
        rewrite Z.eqb_refl in E1, E2.
        destruct (Z.eqb_spec p1 p2); [contradiction|].
        destruct (Z.eqb_spec p2 p1); [congruence|].
        (* p1 occurs in t2 hence is after p2; p2 occurs in t1 hence after p1 *)
        assert (B21 : before s p2 p1 = true).
        { clear -E1 Hall2. induction Hall2 as [|[q b] t Hq _ IHt]; cbn [lookup] in E1; [discriminate|].
          destruct (Z.eqb_spec p1 q) as [->|_]; [exact Hq|apply IHt; exact E1]. }
        assert (B12 : before s p1 p2 = true).
        { clear -E2 Hall1. induction Hall1 as [|[q b] t Hq _ IHt]; cbn [lookup] in E2; [discriminate|].
          destruct (Z.eqb_spec p2 q) as [->|_]; [exact Hq|apply IHt; exact E2]. }
        rewrite (before_asym _ _ _ B12) in B21. discriminate. }
      subst p2.
      assert (Ha : a1 = a2).
      { specialize (Hext p1). cbn [lookup] in Hext. rewrite Z.eqb_refl in Hext. congruence. }
      subst a2. f_equal. apply IH; try assumption.
      intros p. specialize (Hext p). cbn [lookup] in Hext.
      destruct (Z.eqb_spec p p1) as [E|_]; [subst p; congruence|exact Hext].
Qed.

(** snapshots: sorting *)
Lemma lookup_insert_sorted s lv l p :
  lookup (insert_sorted s lv l) p = if Z.eqb p (fst lv) then Some (snd lv) else lookup l p.
Proof.
  destruct lv as [p0 a0]. cbn [fst snd].
  induction l as [|[q a] tl IH]; cbn [insert_sorted fst lookup]; [reflexivity|].
  destruct (before s q p0) eqn:Hb; cbn [lookup].
  - rewrite IH. destruct (Z.eqb_spec p q) as [E|_]; [subst p|reflexivity].
    destruct (Z.eqb_spec q p0) as [E|_]; [subst q|reflexivity].
    rewrite before_irrefl in Hb; discriminate.
  - reflexivity.
Qed.

Lemma lookup_sort_levels s l p : lookup (sort_levels s l) p = lookup l p.
Proof.
  induction l as [|[q a] tl IH]; [reflexivity|].
  cbn [sort_levels fold_right]. fold (sort_levels s tl).
  rewrite lookup_insert_sorted. cbn [fst snd lookup]. rewrite IH. reflexivity.
Qed.

Lemma insert_sorted_SS s lv l :
  SS s l -> lookup l (fst lv) = None -> SS s (insert_sorted s lv l).
Proof.
  unfold SS. destruct lv as [p0 a0]. cbn [fst].
  induction l as [|[q a] tl IH]; intros H Hn; cbn [insert_sorted fst].
  - repeat constructor.
  - apply StronglySorted_inv in H as [Htl Hall]. cbn [lookup] in Hn.
    destruct (Z.eqb_spec p0 q) as [|Hne]; [discriminate|].
    destruct (before s q p0) eqn:Hb.
    + constructor; [apply IH; assumption|].
      clear IH Htl. revert Hall Hn. induction tl as [|[r c] tl IHtl]; intros Hall Hn; cbn [insert_sorted fst].
      * repeat constructor. exact Hb.
      * inversion Hall as [|? ? Hr Hall']; subst. cbn [lookup] in Hn.
        destruct (Z.eqb_spec p0 r); [discriminate|].
        destruct (before s r p0).
        -- constructor; [exact Hr|apply IHtl; assumption].
        -- constructor; [exact Hb|exact Hall].
    + assert (Hp : before s p0 q = true) by (apply before_total; [congruence|exact Hb]).
      constructor; [constructor; assumption|].
      constructor; [exact Hp|].
      eapply Forall_impl; [|exact Hall]. intros x Hx. unfold R in *; cbn [fst] in *.
      eapply before_trans; eassumption.
Qed.

Lemma sort_levels_SS s l : nodup_prices l = true -> SS s (sort_levels s l).
Proof.
  induction l as [|[q a] tl IH]; intros H; [constructor|].
  cbn [nodup_prices] in H. destruct (lookup tl q) eqn:Hl; [discriminate|].
  cbn [sort_levels fold_right]. fold (sort_levels s tl).
  apply insert_sorted_SS; [apply IH; exact H|]. cbn [fst]. rewrite lookup_sort_levels. exact Hl.
Qed.

Lemma SS_nodup s l : SS s l -> nodup_prices l = true.
Proof.
  unfold SS. induction l as [|[q a] tl IH]; intros H; [reflexivity|].
  apply StronglySorted_inv in H as [Htl Hall]. cbn [nodup_prices].
  rewrite (lookup_none_after s) by exact Hall. apply IH; exact Htl.
Qed.

(** sorting an already sorted side is the identity (used for [snapshot depth]) *)
Lemma sort_levels_id s l : SS s l -> sort_levels s l = l.
Proof.
  intros H. apply (SS_lookup_ext s).
  - apply sort_levels_SS. eapply SS_nodup; exact H.
  - exact H.
  - intros p. apply lookup_sort_levels.
Qed.

Lemma firstn_SS s d : forall l, SS s l -> SS s (firstn d l).
Proof.
  unfold SS. induction d as [|d IH]; intros l H; [constructor|].
  destruct l as [|x tl]; [constructor|]. cbn [firstn].
  apply StronglySorted_inv in H as [Htl Hall]. constructor; [apply IH; exact Htl|].
  clear -Hall. revert d. induction Hall as [|y t Hy _ IHt]; intros d; destruct d; cbn [firstn]; constructor; auto.
Qed.

(* ------------------------------------------------------------------------------------------ *)
(** the book *)

Definition sbook_eq (a b : sbook) : Prop :=
  sseq a = sseq b /\ stime a = stime b /\
  (forall p, sbids a p = sbids b p) /\ (forall p, sasks a p = sasks b p).

Lemma sbook_eq_refl a : sbook_eq a a.
Proof. repeat split. Qed.

Lemma spec_update_ext a b e : sbook_eq a b -> sbook_eq (spec_update a e) (spec_update b e).
Proof.
  intros (Hs & Ht & Hb & Ha). destruct e as [sq t bs as_|sq t bs as_]; cbn [spec_update].
  - repeat split.
  - repeat split; cbn [sbids sasks]; intros p; apply spec_upsert_ext; assumption.
Qed.

Lemma book_inv_SS b : book_inv b <-> SS Bid (bids b) /\ SS Ask (asks b).
Proof. unfold book_inv. rewrite !strict_sorted_SS. tauto. Qed.

Lemma update_inv b e : wf_event e = true -> book_inv b -> book_inv (update b e).
Proof.
  rewrite !book_inv_SS. intros Hwf [Hb Ha]. destruct e as [sq t bs as_|sq t bs as_]; cbn [update bids asks].
  - cbn [wf_event] in Hwf. apply andb_true_iff in Hwf as [H1 H2].
    split; apply sort_levels_SS; assumption.
  - split; apply upsert_SS; assumption.
Qed.

Lemma update_abs b e : book_inv b -> sbook_eq (abs_book (update b e)) (spec_update (abs_book b) e).
Proof.
  rewrite book_inv_SS. intros [Hb Ha]. destruct e as [sq t bs as_|sq t bs as_];
    cbn [update abs_book spec_update bids asks bseq btime sbids sasks].
  - repeat split; cbn [sbids sasks]; intros p; apply lookup_sort_levels.
  - repeat split; cbn [sbids sasks]; intros p; apply lookup_upsert; assumption.
Qed.

Lemma run_refines evs : forall b sb,
  forallb wf_event evs = true -> book_inv b -> sbook_eq (abs_book b) sb ->
  book_inv (fold_left update evs b) /\
  sbook_eq (abs_book (fold_left update evs b)) (fold_left spec_update evs sb).
Proof.
  induction evs as [|e evs IH]; intros b sb Hwf Hinv Heq; cbn [fold_left]; [split; assumption|].
  cbn [forallb] in Hwf. apply andb_true_iff in Hwf as [Hwe Hwf].
  apply IH; [exact Hwf|apply update_inv; assumption|].
  destruct (update_abs b e Hinv) as (E1 & E2 & E3 & E4).
  destruct (spec_update_ext _ _ e Heq) as (F1 & F2 & F3 & F4).
  unfold sbook_eq. split; [congruence|]. split; [congruence|].
  split; intros p; [rewrite E3; apply F3|rewrite E4; apply F4].
Qed.

Lemma empty_book_inv : book_inv empty_book.
Proof. split; reflexivity. Qed.

(** the list *is* the sorted enumeration of the map *)
Lemma levels_determined s l1 l2 :
  strict_sorted s l1 = true -> strict_sorted s l2 = true ->
  (forall p, lookup l1 p = lookup l2 p) -> l1 = l2.
Proof. rewrite !strict_sorted_SS. apply SS_lookup_ext. Qed.

(** best level *)
Lemma lookup_in_after s p a l x :
  Forall (R s (p, a)) l -> lookup l x <> None -> before s p x = true.
Proof.
  induction 1 as [|[q b] t Hq _ IHt]; cbn [lookup]; [congruence|].
  destruct (Z.eqb_spec x q) as [->|_]; [intros _; exact Hq|exact IHt].
Qed.

Lemma head_is_best s p a tl :
  strict_sorted s ((p, a) :: tl) = true -> spec_best s (lookup ((p, a) :: tl)) p a.
Proof.
  rewrite strict_sorted_SS. unfold SS. intros H. apply StronglySorted_inv in H as [_ Hall].
  split.
  - cbn [lookup]. rewrite Z.eqb_refl. reflexivity.
  - intros q Hq. cbn [lookup] in Hq. destruct (Z.eqb_spec q p) as [E|_]; [left; exact E|right].
    eapply lookup_in_after; eassumption.
Qed.

Lemma empty_no_levels (m : pmap) : (forall p, lookup [] p = m p) -> forall p, m p = None.
Proof. intros H p. rewrite <- H. reflexivity. Qed.

(** depth-limited snapshot = the [d] best levels of the map *)
Lemma rank_head s p a tl :
  Forall (R s (p, a)) tl -> rank s ((p, a) :: tl) p = 0%nat.
Proof.
  intros Hall. unfold rank. cbn [filter fst]. rewrite before_irrefl.
  induction Hall as [|[q b] t Hq _ IHt]; [reflexivity|].
  cbn [filter fst]. unfold R in Hq; cbn [fst] in Hq. rewrite (before_asym _ _ _ Hq). exact IHt.
Qed.

Lemma lookup_firstn s d : forall l p,
  SS s l -> lookup (firstn d l) p =
            if Nat.ltb (rank s l p) d then lookup l p else None.
Proof.
  unfold SS. induction d as [|d IH]; intros l p H.
  - cbn [firstn lookup]. reflexivity.
  - destruct l as [|[q a] tl]; [reflexivity|].
    apply StronglySorted_inv in H as [Htl Hall]. cbn [firstn lookup].
    destruct (Z.eqb_spec p q) as [E|Hne].
    + subst p. rewrite (rank_head s q a tl Hall). reflexivity.
    + rewrite (IH tl p Htl). unfold rank. cbn [filter fst].
      destruct (before s q p) eqn:Hb; cbn [length].
      * reflexivity.
      * (* p sorts before the head, so it is not in the list at all *)
        assert (Hp : before s p q = true) by (apply before_total; [congruence|exact Hb]).
        assert (Hn : lookup tl p = None).
        { apply (lookup_none_after s). eapply Forall_after_trans; [exact Hp|].
          eapply Forall_R_fst; exact Hall. }
        rewrite Hn. destruct (Nat.ltb _ d), (Nat.ltb _ (S d)); reflexivity.
Qed.

Lemma snapshot_spec b d :
  book_inv b ->
  book_inv (snapshot b d) /\ bseq (snapshot b d) = bseq b /\ btime (snapshot b d) = btime b /\
  bids (snapshot b d) = firstn d (bids b) /\ asks (snapshot b d) = firstn d (asks b) /\
  (forall p, lookup (bids (snapshot b d)) p =
             if Nat.ltb (rank Bid (bids b) p) d then lookup (bids b) p else None) /\
  (forall p, lookup (asks (snapshot b d)) p =
             if Nat.ltb (rank Ask (asks b) p) d then lookup (asks b) p else None).
Proof.
  rewrite !book_inv_SS. intros [Hb Ha]. unfold snapshot; cbn [bids asks bseq btime].
  rewrite !sort_levels_id by (apply firstn_SS; assumption).
  repeat split; try (apply firstn_SS; assumption); intros p; apply lookup_firstn; assumption.
Qed.

Lemma last_seq evs e b : bseq (fold_left update (evs ++ [e]) b) = event_seq e.
Proof. rewrite fold_left_app. cbn [fold_left]. destruct e; reflexivity. Qed.

(** the best level of the map is the head of the list *)
Lemma best_is_head s l p a :
  strict_sorted s l = true -> spec_best s (lookup l) p a -> exists tl, l = (p, a) :: tl.
Proof.
  intros Hs [Hl Hbest]. destruct l as [|[q c] tl]; [discriminate|].
  destruct (head_is_best s q c tl Hs) as [Hq Hqbest].
  assert (p = q).
  { destruct (Hbest q) as [E|B1]; [rewrite Hq; discriminate|congruence|].
    destruct (Hqbest p) as [E|B2]; [rewrite Hl; discriminate|exact E|].
    rewrite (before_asym _ _ _ B1) in B2. discriminate. }
  subst q. exists tl. f_equal. f_equal. congruence.
Qed.

Lemma mid_price_spec b bp ba ap aa :
  book_inv b ->
  spec_best Bid (lookup (bids b)) bp ba -> spec_best Ask (lookup (asks b)) ap aa ->
  mid_price b = Some ((zq bp + zq ap) / 2)%Q /\
  vw_mid_price b = if Z.eqb (ba + aa) 0 then VwDivZero
                   else VwValue ((zq bp * zq aa + zq ap * zq ba) / zq (ba + aa))%Q.
Proof.
  intros [Hb Ha] H1 H2.
  destruct (best_is_head _ _ _ _ Hb H1) as [tb Eb]. destruct (best_is_head _ _ _ _ Ha H2) as [ta Ea].
  unfold mid_price, vw_mid_price. rewrite Eb, Ea. split; reflexivity.
Qed.

Lemma mid_price_one_sided b :
  (bids b = [] -> mid_price b = match asks b with [] => None | (ap, _) :: _ => Some (zq ap) end) /\
  (asks b = [] -> mid_price b = match bids b with [] => None | (bp, _) :: _ => Some (zq bp) end).
Proof.
  unfold mid_price. split; intros E; rewrite E.
  - destruct (asks b) as [|[? ?] ?]; reflexivity.
  - destruct (bids b) as [|[? ?] ?]; reflexivity.
Qed.

(** the L2 manager routes: book [i] ends as if it had received exactly its own events *)
Lemma nth_upd_nth k f : forall bs i d, (i < length bs)%nat ->
  nth i (upd_nth k f bs) d = if Nat.eqb k i then f (nth i bs d) else nth i bs d.
Proof.
  induction k as [|k IH]; intros [|b t] i d Hi; cbn [length] in Hi; try lia.
  - destruct i; reflexivity.
  - destruct i as [|i]; cbn [upd_nth nth Nat.eqb]; [reflexivity|]. apply IH. lia.
Qed.

Lemma length_upd_nth k f : forall bs, length (upd_nth k f bs) = length bs.
Proof. induction k as [|k IH]; intros [|b t]; cbn [upd_nth length]; try reflexivity. rewrite IH. reflexivity. Qed.

Lemma length_mgr_step bs me : length (mgr_step bs me) = length bs.
Proof. unfold mgr_step. destruct (fst me); [apply length_upd_nth|reflexivity]. Qed.

Lemma route_cons i k e evs :
  route i ((k, e) :: evs) =
  (match k with Some k' => if Nat.eqb k' i then [e] else [] | None => [] end) ++ route i evs.
Proof. reflexivity. Qed.

Lemma mgr_routes evs : forall bs i d, (i < length bs)%nat ->
  nth i (fold_left mgr_step evs bs) d = fold_left update (route i evs) (nth i bs d).
Proof.
  induction evs as [|[k e] evs IH]; intros bs i d Hi; [reflexivity|].
  cbn [fold_left]. rewrite IH by (rewrite length_mgr_step; exact Hi).
  rewrite route_cons, fold_left_app. f_equal.
  unfold mgr_step. cbn [fst snd]. destruct k as [k|]; [|reflexivity].
  rewrite nth_upd_nth by exact Hi. destruct (Nat.eqb k i); reflexivity.
Qed.

(* ------------------------------------------------------------------------------------------ *)
(** Algebra of upserts on a strictly sorted side, by extensionality of sorted level lists:
    the resulting *list* (not only the map it represents) is independent of how it was reached. *)

(** last write wins: two upserts at one price act as the second alone *)
Lemma upsert_single_overwrite s l p a1 a2 : SS s l ->
  upsert_single s (upsert_single s l (p, a1)) (p, a2) = upsert_single s l (p, a2).
Proof.
  intros H. pose proof (upsert_single_SS s l (p, a1) H) as H1.
  apply (SS_lookup_ext s);
    [apply upsert_single_SS; exact H1|apply upsert_single_SS; exact H|].
  intros q. rewrite (lookup_upsert_single s _ (p, a2) q H1). unfold spec_upsert_single at 1.
  rewrite (lookup_upsert_single s l (p, a1) q H), (lookup_upsert_single s l (p, a2) q H).
  unfold spec_upsert_single. cbn [fst snd]. destruct (Z.eqb q p); reflexivity.
Qed.

Lemma upsert_single_idem s l lv : SS s l ->
  upsert_single s (upsert_single s l lv) lv = upsert_single s l lv.
Proof. destruct lv as [p a]. apply upsert_single_overwrite. Qed.

(** upserts at distinct prices commute *)
Lemma upsert_single_comm s l x y : SS s l -> fst x <> fst y ->
  upsert_single s (upsert_single s l x) y = upsert_single s (upsert_single s l y) x.
Proof.
  intros H Hne. pose proof (upsert_single_SS s l x H) as Hx.
  pose proof (upsert_single_SS s l y H) as Hy.
  apply (SS_lookup_ext s); [apply upsert_single_SS; exact Hx|apply upsert_single_SS; exact Hy|].
  intros q. rewrite (lookup_upsert_single s _ y q Hx), (lookup_upsert_single s _ x q Hy).
  unfold spec_upsert_single.
  rewrite (lookup_upsert_single s l x q H), (lookup_upsert_single s l y q H).
  unfold spec_upsert_single.
  destruct (Z.eqb_spec q (fst y)) as [E1|N1], (Z.eqb_spec q (fst x)) as [E2|N2];
    try reflexivity. congruence.
Qed.

(** deleting an absent level is a no-op on the list; inserting a level at an absent price and
    deleting it again restores the very list *)
Lemma upsert_single_delete_absent s l p : SS s l -> lookup l p = None ->
  upsert_single s l (p, 0%Z) = l.
Proof.
  intros H Hn. apply (SS_lookup_ext s); [apply upsert_single_SS; exact H|exact H|].
  intros q. rewrite (lookup_upsert_single s l (p, 0%Z) q H). unfold spec_upsert_single.
  cbn [fst snd]. destruct (Z.eqb_spec q p) as [E|N]; [subst q; symmetry; exact Hn|reflexivity].
Qed.

Lemma upsert_single_insert_delete s l p a : SS s l -> lookup l p = None ->
  upsert_single s (upsert_single s l (p, a)) (p, 0%Z) = l.
Proof.
  intros H Hn. rewrite upsert_single_overwrite by exact H.
  apply upsert_single_delete_absent; assumption.
Qed.

(** the result of a batch upsert depends only on the batch's action on maps *)
Lemma upsert_batch_ext s lvs1 lvs2 l :
  SS s l -> (forall p, spec_upsert (lookup l) lvs1 p = spec_upsert (lookup l) lvs2 p) ->
  upsert s l lvs1 = upsert s l lvs2.
Proof.
  intros H Hext. apply (SS_lookup_ext s); [apply upsert_SS; exact H|apply upsert_SS; exact H|].
  intros p. rewrite !lookup_upsert by exact H. apply Hext.
Qed.

(** a heartbeat update (no levels) changes nothing but sequence and time;
    a snapshot erases all history *)
Lemma update_empty b sq t :
  bids (update b (Update sq t [] [])) = bids b /\ asks (update b (Update sq t [] [])) = asks b /\
  bseq (update b (Update sq t [] [])) = sq /\ btime (update b (Update sq t [] [])) = t.
Proof. repeat split; reflexivity. Qed.

Lemma snapshot_erases_history b b' sq t bs as_ :
  update b (Snapshot sq t bs as_) = update b' (Snapshot sq t bs as_).
Proof. reflexivity. Qed.

Lemma upsert_algebra s l :
  strict_sorted s l = true ->
  (forall p a1 a2,
     upsert_single s (upsert_single s l (p, a1)) (p, a2) = upsert_single s l (p, a2)) /\
  (forall x y, fst x <> fst y ->
     upsert_single s (upsert_single s l x) y = upsert_single s (upsert_single s l y) x) /\
  (forall p, lookup l p = None -> upsert_single s l (p, 0%Z) = l) /\
  (forall p a, lookup l p = None -> upsert_single s (upsert_single s l (p, a)) (p, 0%Z) = l) /\
  (forall lvs1 lvs2,
     (forall p, spec_upsert (lookup l) lvs1 p = spec_upsert (lookup l) lvs2 p) ->
     upsert s l lvs1 = upsert s l lvs2).
Proof.
  rewrite strict_sorted_SS. intros H. repeat split.
  - intros p a1 a2. apply upsert_single_overwrite; exact H.
  - intros x y Hne. apply upsert_single_comm; assumption.
  - intros p Hn. apply upsert_single_delete_absent; assumption.
  - intros p a Hn. apply upsert_single_insert_delete; assumption.
  - intros lvs1 lvs2 Hext. apply upsert_batch_ext; assumption.
Qed.

Lemma heartbeat_and_snapshot b b' sq t bs as_ :
  (bids (update b (Update sq t [] [])) = bids b /\ asks (update b (Update sq t [] [])) = asks b /\
   bseq (update b (Update sq t [] [])) = sq /\ btime (update b (Update sq t [] [])) = t) /\
  update b (Snapshot sq t bs as_) = update b' (Snapshot sq t bs as_).
Proof. split; [apply update_empty|apply snapshot_erases_history]. Qed.
