(** The C16 oracle is no stricter than the model: the tear sheet the model generates for ANY
    history of closed positions is accepted by the oracle [sheet_ok] of Corr/C16.v (PnL = sum,
    win rate = share of non-negative returns, profit factor with its conventions), at every
    tolerance scale. *)
From BV Require Import Base.Common Model.Stats Proofs.Stats Model.TearSheet Proofs.TearSheet.
From BV Require Import Proofs.CorrC17 Corr.C16.

Definition obs_of_sheet (sh : sheet) : sheet_obs :=
  mkSheetObs (uq (sh_pnl sh)) (option_map uq (sh_win_rate sh)) (pf_of_obs (sh_profit_factor sh)).

Lemma wr_close_refl : forall w, wr_close w (option_map uq w) = true.
Proof. intros [w|]; cbn; [apply near_eq; reflexivity|reflexivity]. Qed.

Lemma pf_close_refl : forall v, pf_close v (pf_of_obs v) = true.
Proof. intros [[| |x]|]; cbn; try reflexivity. apply near_eq. reflexivity. Qed.

Theorem sheet_oracle_accepts_model : forall (scp : Q) (ps : list pos) (t : Z),
  sheet_ok scp ps (obs_of_sheet (tsg_generate (tsg_run ps (tsg_init t)))) = true.
Proof.
  intros scp ps t. unfold sheet_ok, obs_of_sheet. cbn [so_pnl so_wr so_pf].
  rewrite sheet_pnl, sheet_win_rate, sheet_profit_factor.
  rewrite wr_close_refl, pf_close_refl. rewrite !andb_true_r. apply near_eq. reflexivity.
Qed.
