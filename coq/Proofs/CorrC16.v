(** The C16 oracle is no stricter than the model: the tear sheet the model generates for ANY
    history of closed positions is accepted by the oracle [sheet_ok] of Corr/C16.v (PnL = sum,
    win rate = share of non-negative returns, profit factor with its conventions), at every
    tolerance scale. *)
From BV Require Import Base.Common Model.Stats Proofs.Stats Model.TearSheet Proofs.TearSheet.
From BV Require Import Proofs.CorrC17 Corr.C16.

Definition obs_of_sheet (sh : sheet) : sheet_obs :=
  mkSheetObs (uq (sh_pnl sh)) (option_map uq (sh_win_rate sh)) (pf_of_obs (sh_profit_factor sh)).

Lemma wr_close_refl : forall w, wr_close w (option_map uq w) = true.
Proof. intros [w|]; cbn; [apply near_eq; reflexivity|reflexivity]. Qed.

Lemma pf_close_refl : forall v, pf_close v (pf_of_obs v) = true.
Proof. intros [[| |x]|]; cbn; try reflexivity. apply near_eq. reflexivity. Qed.

Theorem sheet_oracle_accepts_model : forall (scp : Q) (ps : list pos) (t : Z),
  sheet_ok scp ps (obs_of_sheet (tsg_generate (tsg_run ps (tsg_init t)))) = true.
Proof.
  intros scp ps t. unfold sheet_ok, obs_of_sheet. cbn [so_pnl so_wr so_pf].
  rewrite sheet_pnl, sheet_win_rate, sheet_profit_factor.
  rewrite wr_close_refl, pf_close_refl. rewrite !andb_true_r. apply near_eq. reflexivity.
Qed.

(* =================================================================================================== *)
(** * The general link: whatever [corr_b] accepts on a case inside the input requirements,
      [prop_b] accepts                                                                                 *)
(* =================================================================================================== *)
From Coq Require Import Lia Qabs Permutation.
From BV Require Corr.C17.
Local Open Scope Q_scope.

Lemma near_scale_morph : forall sc sc' a b, sc == sc' -> C17.near sc a b = true -> C17.near sc' a b = true.
Proof.
  intros sc sc' a b E. rewrite !near_iff. unfold tolq. rewrite !Qabs'_Qabs, E. exact (fun H => H).
Qed.

(** the model's sheet of a history IS the specification's sheet *)
Lemma sheet_sound : forall scp ps t o,
  sheet_matches scp (tsg_generate (tsg_run ps (tsg_init t))) o = sheet_ok scp ps o.
Proof.
  intros. unfold sheet_matches, sheet_ok. rewrite sheet_pnl, sheet_win_rate, sheet_profit_factor.
  reflexivity.
Qed.

Lemma tsg_run_snoc : forall l x g, tsg_run (l ++ [x]) g = tsg_update (tsg_run l g) x.
Proof. intros. unfold tsg_run. rewrite fold_left_app. reflexivity. Qed.

Lemma is_neg_qc : forall r, is_neg (C17.qc r) = is_neg_q r.
Proof. intro r. unfold is_neg, is_neg_q. change 0%Qc with (C17.qc 0). apply Qcltb_qc. Qed.

Lemma dataset_sound : forall sc1 sc2 rs o,
  C17.obs_matches_gen false sc1 sc2 (ds_run (map C17.qc rs)) o = true -> C17.obs_inv o = true ->
  dataset_ok sc1 sc2 rs o = true.
Proof.
  intros sc1 sc2 rs o H Hi. unfold dataset_ok. destruct rs as [|r rs].
  - cbn [map] in H. change (ds_run []) with ds_default in H. exact (default_sound_gen _ _ _ _ H).
  - unfold qc. apply obs_sound; [discriminate|exact H|exact Hi].
Qed.

Lemma obs_rets_snoc : forall seen p r, pi_ret p = Some r -> obs_rets (seen ++ [p]) = obs_rets seen ++ [r].
Proof.
  intros seen p r E. unfold obs_rets. rewrite flat_map_app. cbn [flat_map]. rewrite E, app_nil_r. reflexivity.
Qed.

(** what the observation-fed generator holds after the positions [seen] *)
Definition sheet_inv (t0 : Z) (seen : list pos_in) (g : tsg) : Prop :=
  g_start g = t0 /\
  pr_raw (g_pr g) = spec_pnl (map pos_of seen) /\
  pr_total (g_pr g) = ds_run (map C17.qc (obs_rets seen)) /\
  pr_losses (g_pr g) = ds_run (map C17.qc (filter is_neg_q (obs_rets seen))).

Lemma spec_pnl_snoc : forall l p, spec_pnl (l ++ [p]) = (spec_pnl l + p_pnl p)%Qc.
Proof. intros. unfold spec_pnl. rewrite map_app. cbn [map]. apply sumQc_snoc. Qed.

Lemma sheet_inv_step : forall t0 seen g p r, sheet_inv t0 seen g -> pi_ret p = Some r ->
  sheet_inv t0 (seen ++ [p]) (tsg_update_obs g p r).
Proof.
  intros t0 seen g p r (I1 & I2 & I3 & I4) E. unfold sheet_inv, tsg_update_obs, pr_update_r.
  cbn [g_start g_pr pr_raw pr_total pr_losses]. rewrite (obs_rets_snoc _ _ _ E).
  repeat split.
  - exact I1.
  - rewrite map_app. cbn [map]. rewrite spec_pnl_snoc, I2. reflexivity.
  - rewrite I3, map_app. cbn [map]. symmetry. apply ds_run_snoc.
  - rewrite filter_app. cbn [filter]. unfold qc. rewrite is_neg_qc. destruct (is_neg_q r).
    + rewrite I4, map_app. cbn [map]. symmetry. apply ds_run_snoc.
    + rewrite app_nil_r. exact I4.
Qed.

Lemma sheet_run_sound : forall t0 sc1 sc2 rest seen gx g steps,
  forallb pos_in_ok rest = true ->
  gx = tsg_run (map pos_of seen) (tsg_init t0) -> sheet_inv t0 seen g ->
  corr_sheet sc1 sc2 gx g rest steps = true -> prop_sheet t0 sc1 sc2 seen rest steps = true.
Proof.
  intros t0 sc1 sc2. induction rest as [|p rest IH]; intros seen gx g steps Hok Hgx Hinv H.
  - destruct steps; [reflexivity|discriminate H].
  - cbn [forallb] in Hok. apply andb_true_iff in Hok. destruct Hok as [Hp Hok].
    destruct steps as [|[[sh go]|] steps']; cbn [corr_sheet] in H; [discriminate H| |].
    2:{ destruct steps'; [rewrite Hp in H|]; discriminate H. }
    destruct (pi_ret p) as [r|] eqn:Er; [|discriminate H].
    apply andb_true_iff in H. destruct H as [H Hrest].
    apply andb_true_iff in H. destruct H as [H Hgen].
    apply andb_true_iff in H. destruct H as [Hret Hsheet].
    pose proof (sheet_inv_step _ _ _ _ _ Hinv Er) as Hinv'.
    assert (Hgx' : tsg_update gx (pos_of p) = tsg_run (map pos_of (seen ++ [p])) (tsg_init t0)).
    { rewrite Hgx, map_app. cbn [map]. symmetry. apply tsg_run_snoc. }
    cbn [prop_sheet]. rewrite (IH _ _ _ _ Hok Hgx' Hinv' Hrest), Hret.
    rewrite Hgx', sheet_sound in Hsheet. rewrite Hsheet.
    destruct Hinv' as (J1 & J2 & J3 & J4).
    unfold gen_matches in Hgen. rewrite J1, J2, J3, J4 in Hgen.
    cbn [tsg_update_obs g_now] in Hgen.
    apply andb_true_iff in Hgen. destruct Hgen as [Hgen G7].
    apply andb_true_iff in Hgen. destruct Hgen as [Hgen G6].
    apply andb_true_iff in Hgen. destruct Hgen as [Hgen G5].
    apply andb_true_iff in Hgen. destruct Hgen as [Hgen G4].
    apply andb_true_iff in Hgen. destruct Hgen as [Hgen G3].
    apply andb_true_iff in Hgen. destruct Hgen as [G1 G2].
    rewrite Z.eqb_sym in G1, G2. rewrite G1, G2.
    rewrite (Qeq_bool_sym' _ _ G3).
    rewrite (dataset_sound _ _ _ _ G4 G6), (dataset_sound _ _ _ _ G5 G7). reflexivity.
Qed.

(* ---- the single-function cases -------------------------------------------------------------------------- *)

Lemma Qceqb_qc0 : forall x, Qceqb (C17.qc x) 0 = Qeq_bool x 0.
Proof.
  intro x. unfold Qceqb. change (this 0%Qc) with 0. unfold C17.qc. cbn [this Q2Qc].
  rewrite Qred_correct. reflexivity.
Qed.

Lemma uq_qabs_nonneg : forall x, Qle_bool 0 x = true -> C17.uq (qabs (C17.qc x)) == x.
Proof.
  intros x H. unfold qabs. change 0%Qc with (C17.qc 0). rewrite Qcltb_qc, H. cbn [negb]. apply uq_qc.
Qed.

Lemma uq_qabs_neg : forall x, Qle_bool 0 x = false -> C17.uq (qabs (C17.qc x)) == - x.
Proof.
  intros x H. unfold qabs. change 0%Qc with (C17.qc 0). rewrite Qcltb_qc, H. cbn [negb].
  unfold C17.uq, Qcopp. cbn [this Q2Qc]. rewrite Qred_correct.
  change (this (C17.qc x)) with (C17.uq (C17.qc x)). rewrite uq_qc. reflexivity.
Qed.

Lemma win_rate_sound : forall wins total r,
  wr_close (win_rate_calc (qc wins) (qc total)) r = true ->
  (if Qle_bool 0 wins && Qle_bool wins total then
     if Qeq_bool total 0 then match r with None => true | _ => false end
     else match r with Some v => near 1 (wins / total) v | None => false end
   else true) = true.
Proof.
  intros wins total r H. destruct (Qle_bool 0 wins && Qle_bool wins total) eqn:D; [|reflexivity].
  apply andb_true_iff in D. destruct D as [D1 D2].
  unfold win_rate_calc, qc in H. rewrite Qceqb_qc0 in H.
  destruct (Qeq_bool total 0) eqn:E.
  - destruct r; [discriminate H|reflexivity].
  - destruct r as [v|]; [|discriminate H]. cbn [wr_close] in H. unfold near, uq in *.
    refine (near_morph _ _ _ _ _ _ (Qeq_refl v) H).
    assert (T : Qle_bool 0 total = true).
    { apply Qle_bool_iff. apply Qle_bool_iff in D1, D2. eapply Qle_trans; eassumption. }
    rewrite uq_div, (uq_qabs_nonneg _ D1), (uq_qabs_nonneg _ T). reflexivity.
Qed.

Lemma profit_factor_sound : forall profits losses r,
  match profit_factor_calc (qc profits) (qc losses), r with
  | Some (PFVal a), Some (OPFVal b) => near (uq a) (uq a) b
  | m, o => pf_close m o
  end = true ->
  (if Qle_bool 0 profits && Qle_bool losses 0 then
     match r with
     | None => Qeq_bool profits 0 && Qeq_bool losses 0
     | Some OPFMax => Qeq_bool losses 0 && negb (Qeq_bool profits 0)
     | Some OPFMin => Qeq_bool profits 0 && negb (Qeq_bool losses 0)
     | Some (OPFVal v) => negb (Qeq_bool profits 0) && negb (Qeq_bool losses 0) &&
                          near (profits / - losses) (profits / - losses) v
     end
   else true) = true.
Proof.
  intros profits losses r H.
  destruct (Qle_bool 0 profits && Qle_bool losses 0) eqn:D; [|reflexivity].
  apply andb_true_iff in D. destruct D as [D1 D2].
  unfold profit_factor_calc, qc in H. rewrite !Qceqb_qc0 in H.
  destruct (Qeq_bool profits 0) eqn:EP; destruct (Qeq_bool losses 0) eqn:EL; cbn [andb negb] in *.
  - destruct r as [[| |v]|]; try discriminate H; reflexivity.
  - destruct r as [[| |v]|]; try discriminate H; reflexivity.
  - destruct r as [[| |v]|]; try discriminate H; reflexivity.
  - destruct r as [[| |v]|]; try discriminate H. unfold near, uq in *.
    assert (NL : Qle_bool 0 losses = false).
    { destruct (Qle_bool 0 losses) eqn:Z; [|reflexivity]. exfalso.
      apply Qle_bool_iff in Z, D2. assert (losses == 0) by (apply Qle_antisym; assumption).
      apply Qeq_bool_iff in H0. congruence. }
    assert (E : C17.uq (qabs (C17.qc profits) / qabs (C17.qc losses))%Qc == profits / - losses).
    { rewrite uq_div, (uq_qabs_nonneg _ D1), (uq_qabs_neg _ NL). reflexivity. }
    apply (near_scale_morph _ _ _ _ E). refine (near_morph _ _ _ _ _ E (Qeq_refl v) H).
Qed.

(* ---- the trading summary ----------------------------------------------------------------------------------- *)

Lemma nodup_str_NoDup : forall l, nodup_str l = true -> NoDup l.
Proof.
  induction l as [|x t IH]; intro H; [constructor|].
  cbn [nodup_str] in H. apply andb_true_iff in H. destruct H as [H1 H2]. constructor.
  - intro Hin. apply negb_true_iff in H1.
    assert (E : existsb (String.eqb x) t = true).
    { apply existsb_exists. exists x. split; [exact Hin|apply String.eqb_refl]. }
    congruence.
  - apply IH. exact H2.
Qed.

Lemma upd_idx_some : forall {V} (m : imap V) i f,
  (i < List.length m)%nat -> exists m', imap_update_idx m i f = Some m'.
Proof.
  intros V m. induction m as [|[k v] m IH]; intros i f H; cbn [List.length] in H; [lia|].
  destruct i as [|i]; cbn [imap_update_idx]; [eauto|].
  destruct (IH i f) as [m' E]; [lia|]. rewrite E. cbn. eauto.
Qed.

Lemma upd_key_some : forall {V} (m : imap V) k f,
  In k (map fst m) -> exists m', imap_update_key m k f = Some m'.
Proof.
  intros V m. induction m as [|[k' v] m IH]; intros k f H; [destruct H|].
  cbn [imap_update_key]. destruct (String.eqb k' k) eqn:E; [eauto|].
  cbn [map fst In] in H. destruct H as [H|H].
  - subst k'. rewrite String.eqb_refl in E. discriminate E.
  - destruct (IH k f H) as [m' E']. rewrite E'. cbn. eauto.
Qed.

Lemma sgen_run_snoc : forall l o s0,
  sgen_run (l ++ [o]) s0 = match sgen_run l s0 with Some s => sgen_step s o | None => None end.
Proof.
  induction l as [|x l IH]; intros o s0; cbn [app sgen_run].
  - destruct (sgen_step s0 o); reflexivity.
  - destruct (sgen_step s0 x); [apply IH|reflexivity].
Qed.

Lemma ops_of_addressed : forall j k ops, ops_of j k (map sop_of ops) = addressed j k ops.
Proof.
  intros j k. induction ops as [|o ops IH]; [reflexivity|].
  unfold addressed in *. cbn [map flat_map].
  destruct o as [i p|key p|i tot fr t|key tot fr t|t]; cbn [sop_of ops_of]; try exact IH.
  - destruct (Nat.eqb (N.to_nat i) j); cbn [app]; rewrite IH; reflexivity.
  - destruct (String.eqb key k); cbn [app]; rewrite IH; reflexivity.
Qed.

Definition conv (a : option (Q * Q)) : option (Qc * Qc) :=
  option_map (fun b => (qc (fst b), qc (snd b))) a.

Lemma bal_conv : forall j k ops a,
  bal_of j k (map sop_of ops) (conv a) = conv (last_balance j k a ops).
Proof.
  intros j k. unfold bal_of, last_balance. induction ops as [|o ops IH]; intro a; [reflexivity|].
  cbn [map fold_left].
  destruct o as [i p|key p|i tot fr t|key tot fr t|t]; cbn [sop_of step_asset]; try apply IH.
  - destruct (Nat.eqb (N.to_nat i) j); [apply (IH (Some (tot, fr)))|apply IH].
  - destruct (String.eqb key k); [apply (IH (Some (tot, fr)))|apply IH].
Qed.

Lemma bal_eqb_conv : forall x o, bal_eqb (conv x) o = true -> obal_eqb x o = true.
Proof.
  intros [[a b]|] [[c d]|] H; unfold conv in H; cbn [option_map fst snd bal_eqb] in H;
    cbn [obal_eqb]; try discriminate H; try reflexivity.
  apply andb_true_iff in H. destruct H as [H1 H2]. unfold uq, qc in *.
  apply Qeq_bool_iff in H1, H2. rewrite uq_qc in H1, H2.
  apply andb_true_intro. split; apply Qeq_bool_iff; assumption.
Qed.

Lemma nth_with_index : forall {A} (l : list A) n j,
  nth_error (with_index n l) j = option_map (fun x => ((n + j)%nat, x)) (nth_error l j).
Proof.
  intros A l. induction l as [|x l IH]; intros n j; [destruct j; reflexivity|].
  destruct j as [|j]; cbn [with_index nth_error option_map].
  - rewrite Nat.add_0_r. reflexivity.
  - rewrite IH. replace (S n + j)%nat with (n + S j)%nat by lia. reflexivity.
Qed.

Lemma with_index_length : forall {A} (l : list A) n, List.length (with_index n l) = List.length l.
Proof. intros A l. induction l; intro n; cbn; [reflexivity|rewrite IHl; reflexivity]. Qed.

(** transfer a pointwise comparison from one left-hand list to another of the same length *)
Lemma list_match_transfer : forall {A A' B} (f : A -> B -> bool) (g : A' -> B -> bool) l l' obs,
  List.length l = List.length l' ->
  (forall j a a' b, nth_error l j = Some a -> nth_error l' j = Some a' ->
                    nth_error obs j = Some b -> f a b = true -> g a' b = true) ->
  list_match f l obs = true -> list_match g l' obs = true.
Proof.
  intros A A' B f g l. induction l as [|a l IH]; intros l' obs HL HP H.
  - destruct l'; [|discriminate HL]. destruct obs; [reflexivity|discriminate H].
  - destruct l' as [|a' l']; [discriminate HL|]. destruct obs as [|b obs]; [discriminate H|].
    cbn [list_match] in *. apply andb_true_iff in H. destruct H as [H1 H2].
    apply andb_true_intro. split.
    + apply (HP 0%nat a a' b); try reflexivity. exact H1.
    + apply IH; [cbn in HL; lia| |exact H2].
      intros j x x' y E1 E2 E3. apply (HP (S j)); assumption.
Qed.

Section Summary.
  Variables (t0 : Z) (insts : list string) (assets : list (string * option (Q * Q))).
  Hypothesis NDi : nodup_str insts = true.
  Hypothesis NDa : nodup_str (map fst assets) = true.

  Let I0 : imap tsg := map (fun k => (k, tsg_init t0)) insts.
  Let A0 : imap agen := map (fun ka => (fst ka, conv (snd ka))) assets.
  Let s_init : sgen := init_sgen t0 insts assets.

  Lemma keys_I0 : map fst I0 = insts.
  Proof. unfold I0. rewrite map_map. cbn [fst]. apply map_id. Qed.
  Lemma keys_A0 : map fst A0 = map fst assets.
  Proof. unfold A0. rewrite map_map. cbn [fst]. reflexivity. Qed.

  Lemma init_insts : sg_insts s_init = I0.
  Proof.
    unfold s_init, init_sgen, sgen_init. cbn [sg_insts]. apply imap_collect_nodup.
    fold I0. rewrite keys_I0. apply nodup_str_NoDup. exact NDi.
  Qed.
  Lemma init_assets : sg_assets s_init = A0.
  Proof.
    unfold s_init, init_sgen, sgen_init. cbn [sg_assets]. apply imap_collect_nodup.
    fold conv. fold A0. rewrite keys_A0. apply nodup_str_NoDup. exact NDa.
  Qed.

  (** the model state reached after the updates [done] *)
  Lemma reached : forall done s, sgen_run (map sop_of done) s_init = Some s ->
    (forall j, nth_error (sg_insts s) j =
       option_map (fun k => (k, tsg_run (addressed j k done) (tsg_init t0))) (nth_error insts j)) /\
    (forall j, nth_error (sg_assets s) j =
       option_map (fun ka => (fst ka, conv (last_balance j (fst ka) (snd ka) done))) (nth_error assets j)).
  Proof.
    intros done s H.
    assert (N1 : NoDup (map fst (sg_insts s_init))).
    { rewrite init_insts, keys_I0. apply nodup_str_NoDup. exact NDi. }
    assert (N2 : NoDup (map fst (sg_assets s_init))).
    { rewrite init_assets, keys_A0. apply nodup_str_NoDup. exact NDa. }
    destruct (summary_histories _ _ _ N1 N2 H) as (_ & Hi & Ha). split; intro j.
    - rewrite Hi, init_insts. unfold I0. rewrite nth_error_map.
      destruct (nth_error insts j) as [k|]; cbn [option_map]; [|reflexivity].
      rewrite ops_of_addressed. reflexivity.
    - rewrite Ha, init_assets. unfold A0. rewrite nth_error_map.
      destruct (nth_error assets j) as [[k a]|]; cbn [option_map fst snd]; [|reflexivity].
      rewrite bal_conv. reflexivity.
  Qed.

  Lemma nth_length_eq : forall {A B} (l : list A) (l' : list B),
    (forall j, nth_error l j = None <-> nth_error l' j = None) -> List.length l = List.length l'.
  Proof.
    intros A B l. induction l as [|a l IH]; intros l' H.
    - destruct l' as [|b l']; [reflexivity|]. specialize (H 0%nat). cbn in H.
      destruct H as [H _]. specialize (H eq_refl). discriminate H.
    - destruct l' as [|b l'].
      + specialize (H 0%nat). cbn in H. destruct H as [_ H]. specialize (H eq_refl). discriminate H.
      + cbn [List.length]. f_equal. apply IH. intro j. exact (H (S j)).
  Qed.

  Lemma step_sound : forall scp times done s so,
    sgen_run (map sop_of done) s_init = Some s ->
    summary_matches scp times (sgen_generate s) so = true ->
    summary_ok scp insts assets done so = true.
  Proof.
    intros scp times done s so Hrun H. destruct (reached _ _ Hrun) as [Hi Ha].
    unfold summary_matches in H. apply andb_true_iff in H. destruct H as [H HA].
    apply andb_true_iff in H. destruct H as [_ HI].
    unfold summary_ok. apply andb_true_intro. split.
    - refine (list_match_transfer _ _ _ _ _ _ _ HI).
      + unfold sgen_generate. cbn [su_insts]. rewrite map_length, with_index_length.
        apply nth_length_eq. intro j. rewrite Hi. destruct (nth_error insts j); cbn; split; congruence.
      + intros j a a' b E1 E2 _ F. unfold sgen_generate in E1. cbn [su_insts] in E1.
        rewrite nth_error_map, Hi in E1. rewrite nth_with_index in E2. cbn [Nat.add] in E2.
        destruct (nth_error insts j) as [k|]; cbn [option_map] in E1, E2; [|discriminate E1].
        injection E1 as <-. injection E2 as <-. cbn [fst snd] in *.
        rewrite sheet_sound in F. exact F.
    - refine (list_match_transfer _ _ _ _ _ _ _ HA).
      + unfold sgen_generate. cbn [su_assets]. rewrite with_index_length.
        apply nth_length_eq. intro j. rewrite Ha. destruct (nth_error assets j); cbn; split; congruence.
      + intros j a a' b E1 E2 _ F. unfold sgen_generate in E1. cbn [su_assets] in E1.
        rewrite Ha in E1. rewrite nth_with_index in E2. cbn [Nat.add] in E2.
        destruct (nth_error assets j) as [[k a0]|]; cbn [option_map] in E1, E2; [|discriminate E1].
        injection E1 as <-. injection E2 as <-. cbn [fst snd] in *.
        apply andb_true_iff in F. destruct F as [F1 F2]. rewrite F1. cbn [andb].
        apply bal_eqb_conv. exact F2.
  Qed.

  Lemma keys_reached : forall done s, sgen_run (map sop_of done) s_init = Some s ->
    List.length (sg_insts s) = List.length insts /\ map fst (sg_insts s) = insts /\
    List.length (sg_assets s) = List.length assets /\ map fst (sg_assets s) = map fst assets.
  Proof.
    intros done s H. destruct (reached _ _ H) as [Hi Ha].
    assert (K1 : map fst (sg_insts s) = insts).
    { rewrite <- keys_I0. unfold I0.
      apply (nth_spec_keys _ _ (fun j k _ => tsg_run (addressed j k done) (tsg_init t0))).
      intro j. rewrite Hi, nth_error_map. destruct (nth_error insts j); reflexivity. }
    assert (K2 : map fst (sg_assets s) = map fst assets).
    { rewrite <- keys_A0.
      apply keys_of_nth. intro j. rewrite Ha. unfold A0. rewrite nth_error_map.
      destruct (nth_error assets j) as [[k a]|]; cbn [option_map fst snd]; [right; eauto|left; reflexivity]. }
    repeat split; try assumption.
    - rewrite <- K1, map_length. reflexivity.
    - rewrite <- (map_length fst assets), <- K2, map_length. reflexivity.
  Qed.

  Lemma step_defined : forall done s o,
    sgen_run (map sop_of done) s_init = Some s ->
    addr_ok (List.length insts) (List.length assets) insts (map fst assets) o = true ->
    sgen_step s (sop_of o) <> None.
  Proof.
    intros done s o Hrun Hok. destruct (keys_reached _ _ Hrun) as (L1 & K1 & L2 & K2).
    destruct o as [i p|key p|i tot fr t|key tot fr t|t]; cbn [sop_of sgen_step addr_ok] in *.
    - apply Nat.ltb_lt in Hok. rewrite <- L1 in Hok.
      destruct (upd_idx_some (sg_insts s) (N.to_nat i) (fun g => tsg_update g (pos_of p)) Hok) as [m E].
      rewrite E. discriminate.
    - apply existsb_exists in Hok. destruct Hok as [x [Hin E]]. apply String.eqb_eq in E. subst x.
      rewrite <- K1 in Hin.
      destruct (upd_key_some (sg_insts s) key (fun g => tsg_update g (pos_of p)) Hin) as [m E].
      rewrite E. discriminate.
    - apply Nat.ltb_lt in Hok. rewrite <- L2 in Hok.
      destruct (upd_idx_some (sg_assets s) (N.to_nat i) (fun _ => Some (qc tot, qc fr)) Hok) as [m E].
      rewrite E. discriminate.
    - apply existsb_exists in Hok. destruct Hok as [x [Hin E]]. apply String.eqb_eq in E. subst x.
      rewrite <- K2 in Hin.
      destruct (upd_key_some (sg_assets s) key (fun _ => Some (qc tot, qc fr)) Hin) as [m E].
      rewrite E. discriminate.
    - discriminate.
  Qed.

  Lemma summary_run_sound : forall scp times rest done s steps r,
    sgen_run (map sop_of done) s_init = Some s ->
    forallb (addr_ok (List.length insts) (List.length assets) insts (map fst assets)) rest = true ->
    forallb pos_in_ok (all_pos rest) = true ->
    corr_summary scp times s rest steps = Some r ->
    prop_summary scp insts assets done rest steps = true.
  Proof.
    intros scp times. induction rest as [|o rest IH]; intros done s steps r Hrun Haddr Hpos H.
    - destruct steps; [reflexivity|discriminate H].
    - cbn [forallb] in Haddr. apply andb_true_iff in Haddr. destruct Haddr as [Ha Haddr].
      unfold all_pos in Hpos. cbn [flat_map] in Hpos. rewrite forallb_app in Hpos.
      apply andb_true_iff in Hpos. destruct Hpos as [Hp Hpos].
      pose proof (step_defined _ _ _ Hrun Ha) as Hdef.
      destruct steps as [|[so|] steps']; cbn [corr_summary] in H; [discriminate H| |].
      + destruct (sgen_step s (sop_of o)) as [s'|] eqn:E; [|discriminate H].
        rewrite Hp in H. cbn [andb] in H.
        destruct (summary_matches scp times (sgen_generate s') so) eqn:M; [|discriminate H].
        assert (Hrun' : sgen_run (map sop_of (done ++ [o])) s_init = Some s').
        { rewrite map_app. cbn [map]. rewrite sgen_run_snoc, Hrun. exact E. }
        cbn [prop_summary]. rewrite (step_sound _ _ _ _ _ Hrun' M). cbn [andb].
        exact (IH _ _ _ _ Hrun' Haddr Hpos H).
      + exfalso. destruct steps'; [|discriminate H].
        destruct (sgen_step s (sop_of o)); [|exact (Hdef eq_refl)].
        rewrite Hp in H. discriminate H.
  Qed.
End Summary.

(* ---- the theorem ---------------------------------------------------------------------------------------------- *)

Theorem oracle_sound : forall c : case, wf_case c = true -> corr_b c = true -> prop_b c = true.
Proof.
  induction c as [t0 ps g0 sh0 steps|mode t0 insts assets ops s0 steps final|wins total r|profits losses r
                  |pnl price qty r|pts ch c' IH]; intros Hwf H; cbn [corr_b prop_b wf_case] in *.
  6:{ apply andb_true_iff in H. destruct H as [H1 H2]. rewrite H1. cbn [andb]. exact (IH Hwf H2). }
  - (* CSheet *)
    apply andb_true_iff in H. destruct H as [H Hrun]. apply andb_true_iff in H. destruct H as [Hg0 Hs0].
    change (tsg_init t0) with (tsg_run [] (tsg_init t0)) in Hs0 at 1. rewrite sheet_sound in Hs0.
    rewrite Hs0. cbn [andb].
    unfold gen_matches in Hg0. cbn [tsg_init g_start g_now g_pr pr_default pr_raw pr_total pr_losses] in Hg0.
    apply andb_true_iff in Hg0. destruct Hg0 as [Hg0 _].
    apply andb_true_iff in Hg0. destruct Hg0 as [Hg0 _].
    apply andb_true_iff in Hg0. destruct Hg0 as [Hg0 G5].
    apply andb_true_iff in Hg0. destruct Hg0 as [Hg0 G4].
    apply andb_true_iff in Hg0. destruct Hg0 as [_ G3].
    change (uq 0%Qc) with 0 in G3. rewrite (Qeq_bool_sym' _ _ G3).
    rewrite (default_sound_gen _ _ _ _ G4), (default_sound_gen _ _ _ _ G5). cbn [andb].
    apply (sheet_run_sound t0 _ _ ps [] (tsg_init t0) (tsg_init t0) steps Hwf eq_refl); [|exact Hrun].
    unfold sheet_inv. cbn. repeat split; reflexivity.
  - (* CSummary *)
    apply andb_true_iff in Hwf. destruct Hwf as [Hwf Haddr].
    apply andb_true_iff in Hwf. destruct Hwf as [Hwf NDa].
    apply andb_true_iff in Hwf. destruct Hwf as [Hpos NDi].
    apply andb_true_iff in H. destruct H as [H0 H].
    set (scp := pnl_scale (all_pos ops)) in *.
    apply andb_true_intro. split.
    + apply (step_sound t0 insts assets NDi NDa scp (N.eqb mode 0) [] _ s0 eq_refl H0).
    + destruct (corr_summary scp (N.eqb mode 0) (init_sgen t0 insts assets) ops steps) as [r|] eqn:E;
        [|discriminate H].
      exact (summary_run_sound t0 insts assets NDi NDa scp (N.eqb mode 0) ops [] _ steps r eq_refl Haddr Hpos E).
  - apply win_rate_sound. exact H.
  - apply profit_factor_sound. exact H.
  - exact H.
Qed.
