(** Lemmas about the engine model (Model/Engine.v) for properties C03 and C19. *)
From Coq Require Import List ZArith NArith Bool Lia FinFun.
From BV Require Import Model.Engine.
Import ListNotations.
Local Open Scope N_scope.

(* ---------------------------------------------------------------------------------------- *)
(** * Lists *)

Lemma nth_error_upd_nth : forall A (f : A -> A) (l : list A) (n m : nat),
  nth_error (upd_nth l n f) m =
  if Nat.eqb n m then option_map f (nth_error l n) else nth_error l m.
Proof.
  induction l as [|x t IH]; intros n m.
  - destruct n, m; cbn; try reflexivity; destruct (Nat.eqb _ _); reflexivity.
  - destruct n, m; cbn; try reflexivity.
    + rewrite IH. reflexivity.
Qed.

Lemma length_upd_nth : forall A (f : A -> A) (l : list A) n, length (upd_nth l n f) = length l.
Proof. induction l; intros [|n]; cbn; auto. Qed.

Lemma nthN_updN : forall A (f : A -> A) (l : list A) (n m : N),
  nthN (updN l n f) m = if N.eqb n m then option_map f (nthN l n) else nthN l m.
Proof.
  intros. unfold nthN, updN. rewrite nth_error_upd_nth.
  destruct (N.eqb_spec n m) as [E|E].
  - subst. rewrite Nat.eqb_refl. reflexivity.
  - destruct (Nat.eqb_spec (N.to_nat n) (N.to_nat m)) as [E'|E']; [|reflexivity].
    apply N2Nat.inj in E'. contradiction.
Qed.

Lemma length_updN : forall A (f : A -> A) (l : list A) n, length (updN l n f) = length l.
Proof. intros. apply length_upd_nth. Qed.

Lemma updN_none : forall A (f : A -> A) (l : list A) n, nthN l n = None -> updN l n f = l.
Proof.
  intros A f l n. unfold nthN, updN. generalize (N.to_nat n). clear n.
  induction l as [|x t IH]; intros [|k] H; cbn in *; try reflexivity; try discriminate.
  f_equal. auto.
Qed.

(* ---------------------------------------------------------------------------------------- *)
(** * Orders of one instrument *)

Lemma oget_oins : forall c o m c',
  oget (oins c o m) c' = if N.eqb c' c then Some o else oget m c'.
Proof.
  induction m as [|[c0 o0] t IH]; intros c'; cbn.
  - destruct (N.eqb c' c); reflexivity.
  - destruct (N.ltb_spec c c0) as [L|L]; cbn.
    + destruct (N.eqb c' c); reflexivity.
    + destruct (N.eqb_spec c c0) as [E|E]; cbn.
      * subst. destruct (N.eqb c' c0); reflexivity.
      * rewrite IH. destruct (N.eqb_spec c' c0) as [E1|E1]; [|reflexivity].
        subst. destruct (N.eqb_spec c0 c) as [E2|E2]; [congruence|reflexivity].
Qed.

Lemma oget_orem : forall c m c',
  oget (orem c m) c' = if N.eqb c' c then None else oget m c'.
Proof.
  induction m as [|[c0 o0] t IH]; intros c'; cbn.
  - destruct (N.eqb c' c); reflexivity.
  - destruct (N.eqb_spec c c0) as [E|E]; cbn.
    + subst. rewrite IH. destruct (N.eqb c' c0); reflexivity.
    + rewrite IH. destruct (N.eqb_spec c' c0) as [E1|E1]; [|reflexivity].
      subst. destruct (N.eqb_spec c0 c) as [E2|E2]; [congruence|reflexivity].
Qed.

(* ---------------------------------------------------------------------------------------- *)
(** * Execution links *)

Lemma lstat_updN_push : forall ls e x e',
  lstat_of (updN ls e (push x)) e' = lstat_of ls e'.
Proof.
  intros. unfold lstat_of. rewrite nthN_updN.
  destruct (N.eqb_spec e e') as [E|E]; [subst|reflexivity].
  destruct (nthN ls e') as [[| | |]|]; reflexivity.
Qed.

Lemma send_one_stat : forall ls x e, lstat_of (fst (send_one ls x)) e = lstat_of ls e.
Proof.
  intros. unfold send_one. destruct (nthN ls (xr_ex x)) as [[| | |]|]; cbn; try reflexivity.
  apply lstat_updN_push.
Qed.

Lemma send_one_res : forall ls x,
  snd (send_one ls x) =
  if link_open ls (xr_ex x) then None else Some (err_of_stat (lstat_of ls (xr_ex x))).
Proof.
  intros. unfold send_one, link_open, lstat_of.
  destruct (nthN ls (xr_ex x)) as [[| | |]|]; reflexivity.
Qed.

Lemma send_one_mbox : forall ls x e,
  mbox (fst (send_one ls x)) e =
  mbox ls e ++ (if link_open ls (xr_ex x) && N.eqb (xr_ex x) e then [x] else []).
Proof.
  intros. unfold send_one, link_open, lstat_of.
  destruct (nthN ls (xr_ex x)) as [[mb| | |]|] eqn:H; cbn; try (rewrite app_nil_r; reflexivity).
  unfold mbox. rewrite nthN_updN.
  destruct (N.eqb_spec (xr_ex x) e) as [E|E].
  - subst. rewrite H. reflexivity.
  - rewrite app_nil_r. reflexivity.
Qed.

Lemma send_one_length : forall ls x, length (fst (send_one ls x)) = length ls.
Proof.
  intros. unfold send_one. destruct (nthN ls (xr_ex x)) as [[| | |]|]; cbn; try reflexivity.
  apply length_updN.
Qed.

Lemma link_open_ext : forall ls ls' e,
  lstat_of ls' e = lstat_of ls e -> link_open ls' e = link_open ls e.
Proof. intros. unfold link_open. rewrite H. reflexivity. Qed.

Lemma spec_sent_ext : forall R (ex : R -> N) ls ls' rs,
  (forall e, lstat_of ls' e = lstat_of ls e) -> spec_sent ex ls' rs = spec_sent ex ls rs.
Proof.
  intros. unfold spec_sent. apply filter_ext. intros r. apply link_open_ext, H.
Qed.

Lemma spec_errs_ext : forall R (ex : R -> N) ls ls' rs,
  (forall e, lstat_of ls' e = lstat_of ls e) -> spec_errs ex ls' rs = spec_errs ex ls rs.
Proof.
  intros. unfold spec_errs.
  rewrite (filter_ext (fun r => negb (link_open ls' (ex r))) (fun r => negb (link_open ls (ex r)))).
  - apply map_ext. intros r. rewrite H. reflexivity.
  - intros r. f_equal. apply link_open_ext, H.
Qed.

Lemma to_ex_app : forall e a b, to_ex e (a ++ b) = to_ex e a ++ to_ex e b.
Proof. intros. unfold to_ex. apply filter_app. Qed.

(** send_requests: the batch is partitioned by the link table alone; link conditions never
    change; every accepted request is appended, once and in order, to its exchange's mailbox *)
Lemma send_requests_spec : forall R (inj : R -> xreq) rs ls,
  let ex := fun r => xr_ex (inj r) in
  let ls' := fst (send_requests inj ls rs) in
  let out := snd (send_requests inj ls rs) in
  so_sent out = spec_sent ex ls rs /\
  so_errs out = spec_errs ex ls rs /\
  (forall e, lstat_of ls' e = lstat_of ls e) /\
  (forall e, mbox ls' e = mbox ls e ++ to_ex e (map inj (so_sent out))) /\
  length ls' = length ls.
Proof.
  intros R inj rs. induction rs as [|r t IH]; intros ls ex ls' out.
  - subst ls' out. cbn. repeat split; auto. intros. rewrite app_nil_r. reflexivity.
  - subst ls' out. cbn [send_requests].
    pose proof (send_one_stat ls (inj r)) as Hst.
    pose proof (send_one_res ls (inj r)) as Hres.
    pose proof (send_one_mbox ls (inj r)) as Hmb.
    pose proof (send_one_length ls (inj r)) as Hlen.
    destruct (send_one ls (inj r)) as [ls1 res]. cbn [fst snd] in *.
    specialize (IH ls1). cbn zeta in IH.
    destruct (send_requests inj ls1 t) as [ls2 o2]. cbn [fst snd] in *.
    destruct IH as (Hs & He & Hst2 & Hmb2 & Hlen2).
    rewrite (spec_sent_ext _ _ ls ls1) in Hs by exact Hst.
    rewrite (spec_errs_ext _ _ ls ls1) in He by exact Hst.
    unfold spec_sent, spec_errs in *. cbn [filter].
    fold (ex r). change (xr_ex (inj r)) with (ex r) in *.
    destruct (link_open ls (ex r)) eqn:Hop; subst res; cbn [fst snd so_sent so_errs negb filter map].
    + repeat split.
      * f_equal. exact Hs.
      * exact He.
      * intros e. rewrite Hst2. apply Hst.
      * intros e. rewrite Hmb2, Hmb. cbn [andb]. rewrite <- app_assoc. f_equal.
        cbn [map]. unfold to_ex at 2. cbn [filter]. change (xr_ex (inj r)) with (ex r).
        destruct (N.eqb (ex r) e); reflexivity.
      * congruence.
    + repeat split.
      * exact Hs.
      * cbn [map]. f_equal. exact He.
      * intros e. rewrite Hst2. apply Hst.
      * intros e. rewrite Hmb2, Hmb. cbn [andb]. rewrite app_nil_r. reflexivity.
      * congruence.
Qed.

(* ---------------------------------------------------------------------------------------- *)
(** * In-flight recording *)

Lemma ord_record_open : forall is_ r i c,
  ord (record_open is_ r) i c =
  if key_at i c (or_key r) && has_inst is_ i then Some (order_of_req r) else ord is_ i c.
Proof.
  intros. unfold ord, record_open, key_at, has_inst. rewrite nthN_updN.
  destruct (N.eqb_spec (k_inst (or_key r)) i) as [E|E].
  - subst. destruct (nthN is_ (k_inst (or_key r))) as [x|]; cbn.
    + rewrite oget_oins, andb_true_r, (N.eqb_sym c). reflexivity.
    + rewrite andb_false_r. reflexivity.
  - reflexivity.
Qed.

Lemma ord_record_cancel : forall is_ r i c,
  ord (record_cancel is_ r) i c =
  if key_at i c (cr_key r) then mark_cancel (ord is_ i c) else ord is_ i c.
Proof.
  intros. unfold ord, record_cancel, key_at. rewrite nthN_updN.
  destruct (N.eqb_spec (k_inst (cr_key r)) i) as [E|E].
  - subst. destruct (nthN is_ (k_inst (cr_key r))) as [x|]; cbn.
    + destruct (oget (i_orders x) (k_cid (cr_key r))) as [o|] eqn:Ho; cbn.
      * rewrite oget_oins. destruct (N.eqb_spec c (k_cid (cr_key r))) as [E|E]; cbn.
        -- subst. rewrite N.eqb_refl, Ho. reflexivity.
        -- destruct (N.eqb_spec (k_cid (cr_key r)) c); [congruence|]. reflexivity.
      * destruct (N.eqb_spec (k_cid (cr_key r)) c) as [E|E]; [subst; rewrite Ho|]; reflexivity.
    + destruct (N.eqb (k_cid (cr_key r)) c); reflexivity.
  - reflexivity.
Qed.

Lemma has_inst_record_open : forall is_ r i, has_inst (record_open is_ r) i = has_inst is_ i.
Proof.
  intros. unfold has_inst, record_open. rewrite nthN_updN.
  destruct (N.eqb_spec (k_inst (or_key r)) i); [subst|reflexivity].
  destruct (nthN is_ (k_inst (or_key r))); reflexivity.
Qed.

Lemma has_inst_record_cancel : forall is_ r i, has_inst (record_cancel is_ r) i = has_inst is_ i.
Proof.
  intros. unfold has_inst, record_cancel. rewrite nthN_updN.
  destruct (N.eqb_spec (k_inst (cr_key r)) i); [subst|reflexivity].
  destruct (nthN is_ (k_inst (cr_key r))); reflexivity.
Qed.

Lemma has_inst_record_cancels : forall rs is_ i, has_inst (record_cancels is_ rs) i = has_inst is_ i.
Proof.
  induction rs as [|r t IH]; intros; cbn; [reflexivity|].
  unfold record_cancels in *. cbn. rewrite IH. apply has_inst_record_cancel.
Qed.

Lemma has_inst_record_opens : forall rs is_ i, has_inst (record_opens is_ rs) i = has_inst is_ i.
Proof.
  induction rs as [|r t IH]; intros; cbn; [reflexivity|].
  unfold record_opens in *. cbn. rewrite IH. apply has_inst_record_open.
Qed.

Lemma mark_cancel_idem : forall o, mark_cancel (mark_cancel o) = mark_cancel o.
Proof. intros [o|]; [|reflexivity]. cbn. reflexivity. Qed.

Lemma ord_record_cancels : forall rs is_ i c,
  ord (record_cancels is_ rs) i c =
  if names_c i c rs then mark_cancel (ord is_ i c) else ord is_ i c.
Proof.
  induction rs as [|r t IH]; intros; [reflexivity|].
  unfold record_cancels in *. cbn [fold_left names_c existsb]. rewrite IH, ord_record_cancel.
  fold (names_c i c t).
  destruct (key_at i c (cr_key r)); cbn [orb].
  - destruct (names_c i c t); [apply mark_cancel_idem|reflexivity].
  - reflexivity.
Qed.

Lemma ord_record_opens : forall rs is_ i c,
  forallb (fun r => has_inst is_ (k_inst (or_key r))) rs = true ->
  ord (record_opens is_ rs) i c =
  match last_open i c rs with Some r => Some (order_of_req r) | None => ord is_ i c end.
Proof.
  induction rs as [|r t IH]; intros is_ i c Hv; [reflexivity|].
  cbn [forallb] in Hv. apply andb_true_iff in Hv. destruct Hv as [Hr Ht].
  unfold record_opens in *. cbn [fold_left last_open]. rewrite IH.
  - destruct (last_open i c t); [reflexivity|].
    rewrite ord_record_open. destruct (key_at i c (or_key r)) eqn:Hk; cbn [andb]; [|reflexivity].
    unfold key_at in Hk. apply andb_true_iff in Hk. destruct Hk as [Hi _].
    apply N.eqb_eq in Hi. subst. rewrite Hr. reflexivity.
  - rewrite forallb_forall in *. intros x Hx. rewrite has_inst_record_open. auto.
Qed.

(** both recordings together = the pointwise mark specification *)
Lemma record_marked : forall is_ cs os i c,
  forallb (fun r => has_inst is_ (k_inst (or_key r))) os = true ->
  ord (record_opens (record_cancels is_ cs) os) i c = marked (ord is_) cs os i c.
Proof.
  intros. unfold marked. rewrite ord_record_opens.
  - rewrite ord_record_cancels. reflexivity.
  - rewrite forallb_forall in *. intros x Hx. rewrite has_inst_record_cancels. auto.
Qed.

(** what a mark means *)
Lemma last_open_some : forall i c rs r,
  last_open i c rs = Some r -> In r rs /\ key_at i c (or_key r) = true.
Proof.
  induction rs as [|r0 t IH]; intros r H; [discriminate|]. cbn in H.
  destruct (last_open i c t) as [r'|] eqn:E.
  - inversion H; subst. destruct (IH r eq_refl). split; [right|]; assumption.
  - destruct (key_at i c (or_key r0)) eqn:K; [|discriminate]. inversion H; subst.
    split; [left; reflexivity|assumption].
Qed.

Lemma last_open_none : forall i c rs, last_open i c rs = None <-> names_o i c rs = false.
Proof.
  induction rs as [|r0 t IH]; cbn; [tauto|].
  fold (names_o i c t). destruct (last_open i c t) as [r'|] eqn:E.
  - split; [discriminate|]. intros H. apply orb_false_iff in H. destruct H as [_ H].
    apply IH in H. discriminate.
  - destruct (key_at i c (or_key r0)); cbn; [split; discriminate|]. apply IH.
Qed.

Lemma marked_open : forall base cs os r,
  In r os ->
  exists o, marked base cs os (k_inst (or_key r)) (k_cid (or_key r)) = Some o /\ o_st o = OIF /\
            exists r', In r' os /\ o = order_of_req r' /\
                       k_inst (or_key r') = k_inst (or_key r) /\ k_cid (or_key r') = k_cid (or_key r).
Proof.
  intros base cs os r Hin. unfold marked.
  destruct (last_open (k_inst (or_key r)) (k_cid (or_key r)) os) as [r'|] eqn:E.
  - apply last_open_some in E. destruct E as [Hin' Hk].
    exists (order_of_req r'). split; [reflexivity|]. split; [reflexivity|].
    exists r'. unfold key_at in Hk. apply andb_true_iff in Hk. destruct Hk as [H1 H2].
    apply N.eqb_eq in H1. apply N.eqb_eq in H2. auto.
  - apply last_open_none in E. unfold names_o in E.
    assert (existsb (fun r0 => key_at (k_inst (or_key r)) (k_cid (or_key r)) (or_key r0)) os = true) as X.
    { apply existsb_exists. exists r. split; [assumption|]. unfold key_at. rewrite !N.eqb_refl. reflexivity. }
    congruence.
Qed.

Lemma marked_cancel : forall base cs os r o,
  In r cs -> base (k_inst (cr_key r)) (k_cid (cr_key r)) = Some o ->
  names_o (k_inst (cr_key r)) (k_cid (cr_key r)) os = false ->
  marked base cs os (k_inst (cr_key r)) (k_cid (cr_key r)) = Some (with_st o (CIF (open_meta (o_st o)))).
Proof.
  intros base cs os r o Hin Hb Hn. unfold marked.
  apply last_open_none in Hn. rewrite Hn.
  assert (names_c (k_inst (cr_key r)) (k_cid (cr_key r)) cs = true) as X.
  { apply existsb_exists. exists r. split; [assumption|]. unfold key_at. rewrite !N.eqb_refl. reflexivity. }
  rewrite X, Hb. reflexivity.
Qed.

Lemma marked_in_flight : forall base cs os r o,
  In r cs -> base (k_inst (cr_key r)) (k_cid (cr_key r)) = Some o ->
  exists o', marked base cs os (k_inst (cr_key r)) (k_cid (cr_key r)) = Some o' /\ in_flight (o_st o') = true.
Proof.
  intros base cs os r o Hin Hb.
  destruct (names_o (k_inst (cr_key r)) (k_cid (cr_key r)) os) eqn:Hn.
  - unfold marked. destruct (last_open _ _ os) as [r'|] eqn:E.
    + exists (order_of_req r'). split; reflexivity.
    + apply last_open_none in E. congruence.
  - exists (with_st o (CIF (open_meta (o_st o)))). split; [|reflexivity].
    apply marked_cancel; assumption.
Qed.

Lemma marked_frame : forall base cs os i c,
  names_c i c cs = false -> names_o i c os = false -> marked base cs os i c = base i c.
Proof.
  intros. unfold marked. apply last_open_none in H0. rewrite H0, H. reflexivity.
Qed.

(* ---------------------------------------------------------------------------------------- *)
(** * Submitting two request lists: the pattern shared by generation and all four commands *)

Definition submit (s : state) (cs : list creq) (os : list oreq) : state * (sendout creq * sendout oreq) :=
  let '(ls1, co) := send_requests XCancel (links s) cs in
  let '(ls2, oo) := send_requests XOpen ls1 os in
  (mkState (trading s) ls2 (record_opens (record_cancels (insts s) (so_sent co)) (so_sent oo)), (co, oo)).

Definition inst_rest (x : inst) := (i_ex x, i_base x, i_quote x, i_pos x, i_data x).

Lemma map_updN_inv : forall A B (g : A -> B) (f : A -> A) (l : list A) n,
  (forall x, g (f x) = g x) -> map g (updN l n f) = map g l.
Proof.
  intros A B g f l n H. unfold updN. generalize (N.to_nat n). clear n.
  induction l as [|x t IH]; intros [|k]; cbn; try reflexivity.
  - rewrite H. reflexivity.
  - rewrite IH. reflexivity.
Qed.

Lemma rest_record_open : forall is_ r, map inst_rest (record_open is_ r) = map inst_rest is_.
Proof. intros. unfold record_open. apply map_updN_inv. intros x. reflexivity. Qed.

Lemma rest_record_cancel : forall is_ r, map inst_rest (record_cancel is_ r) = map inst_rest is_.
Proof.
  intros. unfold record_cancel. apply map_updN_inv. intros x.
  destruct (oget (i_orders x) (k_cid (cr_key r))); reflexivity.
Qed.

Lemma rest_record_cancels : forall rs is_, map inst_rest (record_cancels is_ rs) = map inst_rest is_.
Proof.
  induction rs as [|r t IH]; intros; [reflexivity|]. unfold record_cancels in *. cbn.
  rewrite IH. apply rest_record_cancel.
Qed.

Lemma rest_record_opens : forall rs is_, map inst_rest (record_opens is_ rs) = map inst_rest is_.
Proof.
  induction rs as [|r t IH]; intros; [reflexivity|]. unfold record_opens in *. cbn.
  rewrite IH. apply rest_record_open.
Qed.

Lemma sendout_eta : forall R (o : sendout R), o = mkSendOut (so_sent o) (so_errs o).
Proof. intros R [a b]. reflexivity. Qed.

Definition valid_opens (is_ : list inst) (os : list oreq) : bool :=
  forallb (fun r => has_inst is_ (k_inst (or_key r))) os.

Lemma submit_spec : forall s cs os,
  let s' := fst (submit s cs os) in
  let co := fst (snd (submit s cs os)) in
  let oo := snd (snd (submit s cs os)) in
  co = mkSendOut (spec_sent cr_ex (links s) cs) (spec_errs cr_ex (links s) cs) /\
  oo = mkSendOut (spec_sent or_ex (links s) os) (spec_errs or_ex (links s) os) /\
  trading s' = trading s /\
  (forall e, lstat_of (links s') e = lstat_of (links s) e) /\
  (forall e, mbox (links s') e =
             mbox (links s) e ++ to_ex e (map XCancel (so_sent co) ++ map XOpen (so_sent oo))) /\
  insts s' = record_opens (record_cancels (insts s) (so_sent co)) (so_sent oo) /\
  map inst_rest (insts s') = map inst_rest (insts s) /\
  (forall i, has_inst (insts s') i = has_inst (insts s) i) /\
  (valid_opens (insts s) (so_sent oo) = true ->
   forall i c, ord (insts s') i c = marked (ord (insts s)) (so_sent co) (so_sent oo) i c).
Proof.
  intros s cs os. unfold submit.
  pose proof (send_requests_spec creq XCancel cs (links s)) as H1. cbn zeta in H1.
  destruct (send_requests XCancel (links s) cs) as [ls1 co]. cbn [fst snd] in H1.
  destruct H1 as (Hs1 & He1 & Hst1 & Hmb1 & _).
  pose proof (send_requests_spec oreq XOpen os ls1) as H2. cbn zeta in H2.
  destruct (send_requests XOpen ls1 os) as [ls2 oo]. cbn [fst snd] in H2.
  destruct H2 as (Hs2 & He2 & Hst2 & Hmb2 & _).
  cbn [fst snd trading links insts].
  change (fun r : creq => xr_ex (XCancel r)) with cr_ex in *.
  change (fun r : oreq => xr_ex (XOpen r)) with or_ex in *.
  rewrite (spec_sent_ext _ or_ex (links s) ls1) in Hs2 by exact Hst1.
  rewrite (spec_errs_ext _ or_ex (links s) ls1) in He2 by exact Hst1.
  repeat split.
  - rewrite (sendout_eta _ co). congruence.
  - rewrite (sendout_eta _ oo). congruence.
  - intros e. rewrite Hst2. apply Hst1.
  - intros e. rewrite Hmb2, Hmb1, to_ex_app, app_assoc. reflexivity.
  - rewrite rest_record_opens, rest_record_cancels. reflexivity.
  - intros i. rewrite has_inst_record_opens, has_inst_record_cancels. reflexivity.
  - intros Hv i c. apply record_marked. exact Hv.
Qed.

Lemma generate_submit : forall s g,
  generate s g =
  let ac := fst (split_mask (gs_cmask g) (gs_cancels g)) in
  let rc := snd (split_mask (gs_cmask g) (gs_cancels g)) in
  let ao := fst (split_mask (gs_omask g) (gs_opens g)) in
  let ro := snd (split_mask (gs_omask g) (gs_opens g)) in
  (fst (submit s ac ao), mkAlgo (fst (snd (submit s ac ao))) (snd (snd (submit s ac ao))) rc ro).
Proof.
  intros. unfold generate, submit.
  destruct (split_mask (gs_cmask g) (gs_cancels g)) as [ac rc].
  destruct (split_mask (gs_omask g) (gs_opens g)) as [ao ro]. cbn [fst snd].
  destruct (send_requests XCancel (links s) ac) as [ls1 co].
  destruct (send_requests XOpen ls1 ao) as [ls2 oo]. reflexivity.
Qed.

Definition wrap_action (c : command) (co : sendout creq) (oo : sendout oreq) : action_out :=
  match c with
  | CSendCancels _ | CCancelOrders _ => AOCancel co
  | CSendOpens _ => AOOpen oo
  | CClosePositions _ => AOClose co oo
  end.

Lemma action_submit : forall cs s c,
  action cs s c =
  let rq := command_requests cs s c in
  (fst (submit s (fst rq) (snd rq)),
   wrap_action c (fst (snd (submit s (fst rq) (snd rq)))) (snd (snd (submit s (fst rq) (snd rq))))).
Proof.
  intros cs s c. destruct c as [rs|rs|f|f]; cbn [action command_requests wrap_action fst snd]; unfold submit.
  - destruct (send_requests XCancel (links s) rs) as [ls1 co]. reflexivity.
  - cbn [send_requests]. destruct (send_requests XOpen (links s) rs) as [ls1 oo]. reflexivity.
  - destruct (cs s f) as [cl ol]. cbn [fst snd].
    destruct (send_requests XCancel (links s) cl) as [ls1 co].
    destruct (send_requests XOpen ls1 ol) as [ls2 oo]. reflexivity.
  - destruct (send_requests XCancel (links s) (cancel_requests f (insts s))) as [ls1 co]. reflexivity.
Qed.

Lemma action_sent_wrap : forall c co oo,
  (match c with CSendCancels _ | CCancelOrders _ => so_sent oo = [] | CSendOpens _ => so_sent co = [] | _ => True end) ->
  action_sent (wrap_action c co oo) = map XCancel (so_sent co) ++ map XOpen (so_sent oo).
Proof.
  intros c co oo H. destruct c; cbn [wrap_action action_sent]; try rewrite H; cbn; try rewrite app_nil_r; reflexivity.
Qed.

(** Engine::action: whatever the command, the two request lists it submits are partitioned by
    the link table, delivered once and in order, and only the sent ones are marked *)
Lemma action_spec : forall cs s c,
  let rq := command_requests cs s c in
  let s' := fst (action cs s c) in
  let a := snd (action cs s c) in
  action_cancels a = mkSendOut (spec_sent cr_ex (links s) (fst rq)) (spec_errs cr_ex (links s) (fst rq)) /\
  action_opens a = mkSendOut (spec_sent or_ex (links s) (snd rq)) (spec_errs or_ex (links s) (snd rq)) /\
  trading s' = trading s /\
  (forall e, lstat_of (links s') e = lstat_of (links s) e) /\
  (forall e, mbox (links s') e = mbox (links s) e ++ to_ex e (action_sent a)) /\
  map inst_rest (insts s') = map inst_rest (insts s) /\
  (forall i, has_inst (insts s') i = has_inst (insts s) i) /\
  (valid_opens (insts s) (so_sent (action_opens a)) = true ->
   forall i c, ord (insts s') i c =
               marked (ord (insts s)) (so_sent (action_cancels a)) (so_sent (action_opens a)) i c).
Proof.
  intros cs s c. rewrite action_submit. cbn zeta. cbn [fst snd].
  set (rq := command_requests cs s c).
  pose proof (submit_spec s (fst rq) (snd rq)) as H. cbn zeta in H.
  destruct (submit s (fst rq) (snd rq)) as [s' [co oo]]. cbn [fst snd] in *.
  destruct H as (Hco & Hoo & Htr & Hst & Hmb & Hins & Hrest & Hhas & Hmk).
  assert (action_cancels (wrap_action c co oo) = co /\ action_opens (wrap_action c co oo) = oo) as [Hc Ho].
  { subst rq. destruct c; cbn [wrap_action action_cancels action_opens command_requests fst snd] in *;
      split; try reflexivity; subst; reflexivity. }
  rewrite Hc, Ho.
  assert (action_sent (wrap_action c co oo) = map XCancel (so_sent co) ++ map XOpen (so_sent oo)) as Hsent.
  { apply action_sent_wrap. subst rq.
    destruct c; cbn [command_requests fst snd] in *; subst; try reflexivity; exact I. }
  rewrite Hsent. repeat split; auto.
Qed.

Lemma generate_spec : forall s g,
  let ac := fst (split_mask (gs_cmask g) (gs_cancels g)) in
  let rc := snd (split_mask (gs_cmask g) (gs_cancels g)) in
  let ao := fst (split_mask (gs_omask g) (gs_opens g)) in
  let ro := snd (split_mask (gs_omask g) (gs_opens g)) in
  let s' := fst (generate s g) in
  let a := snd (generate s g) in
  a = mkAlgo (mkSendOut (spec_sent cr_ex (links s) ac) (spec_errs cr_ex (links s) ac))
             (mkSendOut (spec_sent or_ex (links s) ao) (spec_errs or_ex (links s) ao)) rc ro /\
  trading s' = trading s /\
  (forall e, lstat_of (links s') e = lstat_of (links s) e) /\
  (forall e, mbox (links s') e = mbox (links s) e ++ to_ex e (algo_sent a)) /\
  map inst_rest (insts s') = map inst_rest (insts s) /\
  (forall i, has_inst (insts s') i = has_inst (insts s) i) /\
  (valid_opens (insts s) (so_sent (ao_opens a)) = true ->
   forall i c, ord (insts s') i c =
               marked (ord (insts s)) (so_sent (ao_cancels a)) (so_sent (ao_opens a)) i c).
Proof.
  intros s g. rewrite generate_submit. cbn zeta. cbn [fst snd].
  set (ac := fst (split_mask (gs_cmask g) (gs_cancels g))).
  set (ao := fst (split_mask (gs_omask g) (gs_opens g))).
  pose proof (submit_spec s ac ao) as H. cbn zeta in H.
  destruct (submit s ac ao) as [s' [co oo]]. cbn [fst snd] in *.
  destruct H as (Hco & Hoo & Htr & Hst & Hmb & Hins & Hrest & Hhas & Hmk).
  cbn [ao_cancels ao_opens]. unfold algo_sent. cbn [ao_cancels ao_opens].
  repeat split; auto. rewrite <- Hco, <- Hoo. reflexivity.
Qed.

(* ---------------------------------------------------------------------------------------- *)
(** * Engine::process *)

Lemma update_state_links : forall s ev, links (fst (update_state s ev)) = links s.
Proof.
  intros s ev. destruct ev; cbn; try reflexivity.
  destruct (nthN (insts s) i) as [x|]; [|reflexivity].
  destruct (trade_pos (i_pos x) i sd q). reflexivity.
Qed.

Lemma has_inst_updN : forall (l : list inst) n f i, has_inst (updN l n f) i = has_inst l i.
Proof.
  intros. unfold has_inst. rewrite nthN_updN.
  destruct (N.eqb_spec n i); [subst|reflexivity]. destruct (nthN l i); reflexivity.
Qed.

Lemma has_inst_fold_updN : forall A (k : A -> N) (f : A -> inst -> inst) (l : list A) (is_ : list inst) i,
  has_inst (fold_left (fun acc p => updN acc (k p) (f p)) l is_) i = has_inst is_ i.
Proof.
  induction l as [|p t IH]; intros is_ i; [reflexivity|]. cbn [fold_left]. rewrite IH. apply has_inst_updN.
Qed.

Lemma update_state_has_inst : forall s ev i,
  has_inst (insts (fst (update_state s ev))) i = has_inst (insts s) i.
Proof.
  intros s ev j. destruct ev as [|c|b|o sn|l|k ok|i sd q| |i t p|i t b| |]; cbn; try reflexivity; try apply has_inst_updN.
  - apply (has_inst_fold_updN _ (fun p => k_inst (o_key (fst p)))
             (fun p x => with_orders x (snapshot_orders (i_orders x) (fst p) (snd p)))).
  - destruct (nthN (insts s) i) as [x|]; [|reflexivity].
    destruct (trade_pos (i_pos x) i sd q). cbn. apply has_inst_updN.
Qed.

Lemma update_state_no_reports : forall s ev o,
  In o (snd (update_state s ev)) -> output_sent o = [].
Proof.
  intros s ev o. destruct ev; cbn; try tauto.
  - destruct (trading s && negb enabled); cbn; [intros [<-|[]]; reflexivity|tauto].
  - destruct (nthN (insts s) i) as [x|]; [|cbn; tauto].
    destruct (trade_pos (i_pos x) i sd q) as [p [|]]; cbn; [intros [<-|[]]; reflexivity|tauto].
  - intros [<-|[]]; reflexivity.
  - intros [<-|[]]; reflexivity.
Qed.

(** the part of a step that involves no strategy: the event's own update, or the command *)
Definition pre_step (cs : state -> ifilter -> list creq * list oreq) (s : state) (ev : event)
  : state * option action_out * list output :=
  match ev with
  | EvCommand c => (fst (action cs s c), Some (snd (action cs s c)), [])
  | _ => (fst (update_state s ev), None, snd (update_state s ev))
  end.

(** does generation run in this step? *)
Definition generation_runs (cs : state -> ifilter -> list creq * list oreq) (s : state) (ev : event) : bool :=
  match ev with
  | EvShutdown => false
  | EvCommand c =>
      match action_unrec (snd (action cs s c)) with [] => trading s | _ => false end
  | _ => trading (fst (update_state s ev))
  end.

Lemma process_trace_shape : forall cs s ev g,
  let '(s1, act, outs) := pre_step cs s ev in
  process_trace cs s ev g =
  if generation_runs cs s ev
  then (fst (generate s1 g), mkTrace act outs (Some (snd (generate s1 g))))
  else (s1, mkTrace act outs None).
Proof.
  intros cs s ev g.
  assert (forall c, trading (fst (action cs s c)) = trading s) as Htr.
  { intros c. pose proof (action_spec cs s c) as H. cbn zeta in H. tauto. }
  destruct ev; cbn [pre_step generation_runs process_trace];
    try (destruct (update_state s _) as [s1 outs] eqn:E; cbn [fst snd];
         destruct (trading s1); [destruct (generate s1 g); reflexivity|reflexivity]).
  - reflexivity.
  - specialize (Htr c). destruct (action cs s c) as [s1 out]. cbn [fst snd] in *.
    destruct (action_unrec out); [|reflexivity]. rewrite Htr.
    destruct (trading s); [destruct (generate s1 g); reflexivity|reflexivity].
Qed.

Definition act_sent (act : option action_out) : list xreq :=
  match act with Some a => action_sent a | None => [] end.

Lemma pre_step_spec : forall cs s ev,
  let '(s1, act, outs) := pre_step cs s ev in
  (forall e, lstat_of (links s1) e = lstat_of (links s) e) /\
  (forall e, mbox (links s1) e = mbox (links s) e ++ to_ex e (act_sent act)) /\
  (forall i, has_inst (insts s1) i = has_inst (insts s) i) /\
  (forall o, In o outs -> output_sent o = []).
Proof.
  intros cs s ev.
  assert (forall ev', (forall c, ev' <> EvCommand c) ->
          pre_step cs s ev' = (fst (update_state s ev'), None, snd (update_state s ev'))) as Hnc.
  { intros ev' H. destruct ev'; try reflexivity. exfalso. apply (H c). reflexivity. }
  destruct ev as [|c| | | | | | | | | |];
    try (rewrite Hnc by (intros; discriminate); cbn [act_sent];
         split; [intros e; rewrite update_state_links; reflexivity|];
         split; [intros e; rewrite update_state_links; unfold to_ex; cbn; rewrite app_nil_r; reflexivity|];
         split; [intros ii; apply update_state_has_inst|apply update_state_no_reports]).
  cbn [pre_step act_sent]. pose proof (action_spec cs s c) as H. cbn zeta in H.
  destruct H as (_ & _ & _ & Hst & Hmb & _ & Hhas & _).
  split; [exact Hst|]. split; [exact Hmb|]. split; [exact Hhas|]. intros o [].
Qed.

Lemma trace_sent_mk : forall act outs algo,
  trace_sent (mkTrace act outs algo) =
  act_sent act ++ match algo with Some a => algo_sent a | None => [] end.
Proof. reflexivity. Qed.

(** every link receives, once and in order, exactly the requests of the step's trace that name
    it; link conditions never change *)
Lemma process_delivery : forall cs s ev g e,
  let s' := fst (process_trace cs s ev g) in
  let t := snd (process_trace cs s ev g) in
  lstat_of (links s') e = lstat_of (links s) e /\
  mbox (links s') e = mbox (links s) e ++ to_ex e (trace_sent t).
Proof.
  intros cs s ev g e.
  pose proof (process_trace_shape cs s ev g) as Hsh.
  pose proof (pre_step_spec cs s ev) as Hpre.
  destruct (pre_step cs s ev) as [[s1 act] outs].
  destruct Hpre as (Hst & Hmb & _ & _).
  rewrite Hsh. destruct (generation_runs cs s ev); cbn [fst snd]; rewrite trace_sent_mk.
  - pose proof (generate_spec s1 g) as Hg. cbn zeta in Hg.
    destruct Hg as (_ & _ & Hst2 & Hmb2 & _).
    split.
    + rewrite Hst2. apply Hst.
    + rewrite Hmb2, Hmb, to_ex_app, app_assoc. reflexivity.
  - split; [apply Hst|]. rewrite app_nil_r. apply Hmb.
Qed.

(** sent requests of the two phases of a trace *)
Definition tr_ac (t : trace) : list creq :=
  match tr_action t with Some a => so_sent (action_cancels a) | None => [] end.
Definition tr_ao (t : trace) : list oreq :=
  match tr_action t with Some a => so_sent (action_opens a) | None => [] end.
Definition tr_gc (t : trace) : list creq :=
  match tr_algo t with Some a => so_sent (ao_cancels a) | None => [] end.
Definition tr_go (t : trace) : list oreq :=
  match tr_algo t with Some a => so_sent (ao_opens a) | None => [] end.

Lemma marked_ext : forall base base' cs os i c,
  (forall i c, base i c = base' i c) -> marked base cs os i c = marked base' cs os i c.
Proof. intros. unfold marked. rewrite H. reflexivity. Qed.

Lemma marked_nil : forall base i c, marked base [] [] i c = base i c.
Proof. reflexivity. Qed.

Lemma valid_opens_ext : forall is1 is2 os,
  (forall i, has_inst is1 i = has_inst is2 i) -> valid_opens is1 os = valid_opens is2 os.
Proof.
  intros is1 is2 os H. unfold valid_opens. induction os as [|r t IH]; [reflexivity|].
  cbn. rewrite H, IH. reflexivity.
Qed.

(** orders after a step = the command's marks, then the generation's marks, over the event's
    own update; positions and prices are those of the event's own update *)
Lemma process_orders : forall cs s ev g,
  let s' := fst (process_trace cs s ev g) in
  let t := snd (process_trace cs s ev g) in
  let su := fst (update_state s ev) in
  map inst_rest (insts s') = map inst_rest (insts su) /\
  (valid_opens (insts s) (tr_ao t) = true -> valid_opens (insts s) (tr_go t) = true ->
   forall i c, ord (insts s') i c =
               marked (marked (ord (insts su)) (tr_ac t) (tr_ao t)) (tr_gc t) (tr_go t) i c).
Proof.
  intros cs s ev g.
  pose proof (process_trace_shape cs s ev g) as Hsh.
  (* facts about the pre-step *)
  assert (let '(s1, act, outs) := pre_step cs s ev in
          map inst_rest (insts s1) = map inst_rest (insts (fst (update_state s ev))) /\
          (forall i, has_inst (insts s1) i = has_inst (insts s) i) /\
          (valid_opens (insts s) (match act with Some a => so_sent (action_opens a) | None => [] end) = true ->
           forall i c, ord (insts s1) i c =
             marked (ord (insts (fst (update_state s ev))))
                    (match act with Some a => so_sent (action_cancels a) | None => [] end)
                    (match act with Some a => so_sent (action_opens a) | None => [] end) i c)) as Hpre.
  { destruct ev as [|c| | | | | | | | | |];
      try (cbn [pre_step]; split; [reflexivity|]; split; [intros ii; apply update_state_has_inst|intros _ ii cc; reflexivity]).
    cbn [pre_step update_state fst]. pose proof (action_spec cs s c) as H. cbn zeta in H.
    destruct H as (_ & _ & _ & _ & _ & Hrest & Hhas & Hmk). repeat split; auto. }
  destruct (pre_step cs s ev) as [[s1 act] outs].
  destruct Hpre as (Hrest1 & Hhas1 & Hmk1).
  rewrite Hsh. destruct (generation_runs cs s ev); cbn [fst snd].
  - pose proof (generate_spec s1 g) as Hg. cbn zeta in Hg.
    destruct Hg as (_ & _ & _ & _ & Hrest2 & _ & Hmk2).
    split; [congruence|].
    unfold tr_ac, tr_ao, tr_gc, tr_go. cbn [tr_action tr_algo].
    intros Hv1 Hv2 i c. rewrite Hmk2.
    + apply marked_ext. intros i' c'. apply Hmk1. exact Hv1.
    + rewrite (valid_opens_ext _ (insts s)); assumption.
  - split; [exact Hrest1|].
    unfold tr_ac, tr_ao, tr_gc, tr_go. cbn [tr_action tr_algo].
    intros Hv1 _ i c. rewrite marked_nil. apply Hmk1. exact Hv1.
Qed.

(** no generation => the step is the event's own update / the command alone, whatever the
    strategy and the risk manager would have said *)
Lemma process_no_generation : forall cs s ev g,
  generation_runs cs s ev = false ->
  let '(s1, act, outs) := pre_step cs s ev in
  process cs s ev g = (s1, audit_of (mkTrace act outs None)).
Proof.
  intros cs s ev g H. pose proof (process_trace_shape cs s ev g) as Hsh.
  destruct (pre_step cs s ev) as [[s1 act] outs]. unfold process. rewrite Hsh, H. reflexivity.
Qed.

Lemma process_with_generation : forall cs s ev g,
  generation_runs cs s ev = true ->
  let '(s1, act, outs) := pre_step cs s ev in
  process cs s ev g =
  (fst (generate s1 g), audit_of (mkTrace act outs (Some (snd (generate s1 g))))).
Proof.
  intros cs s ev g H. pose proof (process_trace_shape cs s ev g) as Hsh.
  destruct (pre_step cs s ev) as [[s1 act] outs]. unfold process. rewrite Hsh, H. reflexivity.
Qed.

(* ---------------------------------------------------------------------------------------- *)
(** * The audit *)

Lemma nom_extend_in : forall A (l r : list A) x, In x (nom_extend l r) <-> In x l \/ In x r.
Proof.
  intros A l r x. unfold nom_extend.
  destruct l as [|a [|b l']]; try (rewrite in_app_iff; tauto).
  destruct r as [|c [|d r']]; rewrite in_app_iff; tauto.
Qed.

Lemma so_empty_spec : forall R (o : sendout R), so_empty o = true -> so_sent o = [] /\ so_errs o = [].
Proof.
  intros R [s e]. unfold so_empty. cbn. destruct s; [|discriminate]. destruct e; [|discriminate]. auto.
Qed.

Lemma algo_empty_spec : forall a, algo_empty a = true -> algo_sent a = [] /\ algo_unrec a = [].
Proof.
  intros a H. unfold algo_empty in H. apply andb_true_iff in H. destruct H as [H _].
  apply andb_true_iff in H. destruct H as [H1 H2].
  apply so_empty_spec in H1. apply so_empty_spec in H2. destruct H1 as [S1 E1]. destruct H2 as [S2 E2].
  unfold algo_sent, algo_unrec, so_unrec. rewrite S1, S2, E1, E2. auto.
Qed.

Lemma flat_map_nil : forall A B (f : A -> list B) l, (forall x, In x l -> f x = []) -> flat_map f l = [].
Proof.
  induction l as [|x t IH]; intros H; [reflexivity|]. cbn. rewrite H by (left; reflexivity).
  apply IH. intros y Hy. apply H. right. exact Hy.
Qed.

Lemma base_out_sent : forall act outs,
  (forall o, In o outs -> output_sent o = []) ->
  flat_map output_sent (match act with Some a => [OutCommanded a] | None => [] end ++ outs) = act_sent act.
Proof.
  intros act outs H. rewrite flat_map_app, (flat_map_nil _ _ _ outs H), app_nil_r.
  destruct act; cbn; [apply app_nil_r|reflexivity].
Qed.

(** What the audit reports as sent is a prefix of what was sent; it is all of it unless the
    audit carries errors (generation hit a fatal error: the audit then lists the errors but drops
    the GenerateAlgoOrdersOutput). Every unrecoverable error of the step is in the audit. *)
Lemma audit_of_spec : forall act outs algo,
  (forall o, In o outs -> output_sent o = []) ->
  let t := mkTrace act outs algo in
  (exists extra, trace_sent t = audit_sent (audit_of t) ++ extra /\
                 (au_errors (audit_of t) = [] -> extra = [])) /\
  (forall k, In k (au_errors (audit_of t)) <-> In k (trace_unrec t)).
Proof.
  intros act outs algo H t. subst t. unfold audit_of, audit_sent, trace_unrec. rewrite trace_sent_mk.
  cbn [tr_action tr_update tr_algo].
  destruct algo as [a|].
  - destruct (algo_empty a) eqn:Hem.
    + apply algo_empty_spec in Hem. destruct Hem as [Hs Hu]. rewrite Hs, Hu. cbn [au_outputs au_errors].
      rewrite base_out_sent by exact H. split.
      * exists []. split; [reflexivity|auto].
      * intros k. rewrite app_nil_r. tauto.
    + destruct (algo_unrec a) as [|k0 ks] eqn:Hu; cbn [au_outputs au_errors].
      * rewrite flat_map_app, base_out_sent by exact H. cbn. rewrite app_nil_r. split.
        -- exists []. rewrite app_nil_r. split; [reflexivity|auto].
        -- intros k. rewrite app_nil_r. tauto.
      * rewrite base_out_sent by exact H. split.
        -- exists (algo_sent a). split; [reflexivity|]. intros He. exfalso.
           assert (In k0 (nom_extend (match act with Some a0 => action_unrec a0 | None => [] end) (k0 :: ks))) as X.
           { apply nom_extend_in. right. left. reflexivity. }
           rewrite He in X. destruct X.
        -- intros k. rewrite nom_extend_in, in_app_iff. tauto.
  - cbn [au_outputs au_errors]. rewrite base_out_sent by exact H. split.
    + exists []. split; [reflexivity|auto].
    + intros k. rewrite app_nil_r. tauto.
Qed.

Lemma process_audit : forall cs s ev g,
  let t := snd (process_trace cs s ev g) in
  let a := snd (process cs s ev g) in
  a = audit_of t /\
  (exists extra, trace_sent t = audit_sent a ++ extra /\ (au_errors a = [] -> extra = [])) /\
  (forall k, In k (au_errors a) <-> In k (trace_unrec t)).
Proof.
  intros cs s ev g. unfold process.
  pose proof (process_trace_shape cs s ev g) as Hsh.
  pose proof (pre_step_spec cs s ev) as Hpre.
  destruct (pre_step cs s ev) as [[s1 act] outs]. destruct Hpre as (_ & _ & _ & Hno).
  destruct (process_trace cs s ev g) as [s' t]. cbn [fst snd].
  split; [reflexivity|].
  destruct (generation_runs cs s ev); inversion Hsh; subst; apply audit_of_spec; exact Hno.
Qed.

(** a fatal command ends the step: no generation *)
Lemma fatal_command_stops : forall cs s c g,
  action_unrec (snd (action cs s c)) <> [] ->
  process cs s (EvCommand c) g =
  (fst (action cs s c),
   mkAudit [OutCommanded (snd (action cs s c))] (action_unrec (snd (action cs s c)))).
Proof.
  intros cs s c g H. unfold process. cbn [process_trace].
  destruct (action cs s c) as [s1 out]. cbn [fst snd] in *.
  destruct (action_unrec out) as [|k ks] eqn:E; [congruence|]. cbn. rewrite E. reflexivity.
Qed.

(* ---------------------------------------------------------------------------------------- *)
(** * Trading gate *)

Lemma process_disabled_event : forall cs s ev g,
  (forall c, ev <> EvCommand c) ->
  trading (fst (update_state s ev)) = false ->
  process cs s ev g = (fst (update_state s ev), mkAudit (snd (update_state s ev)) []).
Proof.
  intros cs s ev g Hnc Htr.
  pose proof (process_no_generation cs s ev g) as H.
  destruct ev; try (exfalso; eapply Hnc; reflexivity);
    cbn [pre_step generation_runs] in H; try (apply H; exact Htr).
  - reflexivity.
Qed.

Lemma process_disabled_command : forall cs s c g,
  trading s = false ->
  process cs s (EvCommand c) g =
  (fst (action cs s c),
   mkAudit [OutCommanded (snd (action cs s c))] (action_unrec (snd (action cs s c)))).
Proof.
  intros cs s c g Htr.
  pose proof (process_no_generation cs s (EvCommand c) g) as H.
  cbn [pre_step generation_runs] in H. rewrite H.
  - reflexivity.
  - rewrite Htr. destruct (action_unrec (snd (action cs s c))); reflexivity.
Qed.

Lemma process_enable : forall cs s g,
  process cs s (EvTradingState true) g =
  (fst (generate (set_trading s true) g),
   audit_of (mkTrace None [] (Some (snd (generate (set_trading s true) g))))).
Proof.
  intros cs s g.
  pose proof (process_with_generation cs s (EvTradingState true) g) as H.
  cbn [pre_step generation_runs update_state fst snd] in H.
  rewrite andb_false_r in H. apply H. reflexivity.
Qed.

(* ---------------------------------------------------------------------------------------- *)
(** * Risk verdicts partition the strategy's requests *)

Lemma split_mask_partition : forall A (l : list A) m,
  (length (fst (split_mask m l)) + length (snd (split_mask m l)) = length l)%nat /\
  forall x, In x l <-> In x (fst (split_mask m l)) \/ In x (snd (split_mask m l)).
Proof.
  induction l as [|y t IH]; intros m; cbn.
  - split; [reflexivity|]. intros x. tauto.
  - specialize (IH (tl m)). destruct (split_mask (tl m) t) as [a r]. cbn [fst snd] in IH.
    destruct IH as [Hl Hin]. destruct (hd true m); cbn [fst snd length In]; split; try lia;
      intros x; rewrite Hin; tauto.
Qed.

(* ---------------------------------------------------------------------------------------- *)
(** * C19: filter scope, cancel-orders / close-positions scope, well-formedness invariant *)

Definition lbk (m : omap) (c : N) : Prop := forall c' o', In (c', o') m -> c < c'.

Lemma sorted_cons : forall c o t, sorted_keys ((c, o) :: t) = true <-> lbk t c /\ sorted_keys t = true.
Proof.
  intros c o t. revert c o. induction t as [|[c1 o1] t IH]; intros c o.
  - cbn. split; [intros _; split; [intros ? ? []|reflexivity]|reflexivity].
  - change (sorted_keys ((c, o) :: (c1, o1) :: t)) with (N.ltb c c1 && sorted_keys ((c1, o1) :: t)).
    rewrite andb_true_iff, N.ltb_lt. split.
    + intros [L S]. split; [|exact S]. intros c' o' [E|Hin].
      * inversion E; subst. exact L.
      * apply IH in S. destruct S as [Hl _]. specialize (Hl _ _ Hin). lia.
    + intros [Hl S]. split; [|exact S]. apply (Hl c1 o1). left. reflexivity.
Qed.

Lemma oget_none_lb : forall m c, lbk m c -> oget m c = None.
Proof.
  induction m as [|[c1 o1] t IH]; intros c H; [reflexivity|]. cbn.
  destruct (N.eqb_spec c c1) as [E|E].
  - subst. specialize (H c1 o1 (or_introl eq_refl)). lia.
  - apply IH. intros c' o' Hin. apply (H c' o'). right. exact Hin.
Qed.

Lemma sorted_in_oget : forall m c o, sorted_keys m = true -> (In (c, o) m <-> oget m c = Some o).
Proof.
  induction m as [|[c1 o1] t IH]; intros c o S.
  - cbn. split; [tauto|discriminate].
  - apply sorted_cons in S. destruct S as [Hl S]. cbn [In oget].
    destruct (N.eqb_spec c c1) as [E|E].
    + subst. split.
      * intros [H|H]; [inversion H; reflexivity|]. specialize (Hl _ _ H). lia.
      * intros H. inversion H. left. reflexivity.
    + rewrite <- IH by exact S. split; [intros [H|H]; [inversion H; congruence|exact H]|tauto].
Qed.

Lemma in_oins : forall m c o c' o', sorted_keys m = true ->
  (In (c', o') (oins c o m) <-> (c' = c /\ o' = o) \/ (c' <> c /\ In (c', o') m)).
Proof.
  induction m as [|[c1 o1] t IH]; intros c o c' o' S.
  - cbn. split; [intros [H|[]]; inversion H; auto|intros [[? ?]|[_ []]]; subst; auto].
  - pose proof S as S0. apply sorted_cons in S. destruct S as [Hl S]. cbn [oins].
    destruct (N.ltb_spec c c1) as [L|L].
    + cbn [In]. split.
      * intros [H|[H|H]].
        -- inversion H; auto.
        -- inversion H; subst. right. split; [lia|left; reflexivity].
        -- right. split; [|right; exact H]. specialize (Hl _ _ H). lia.
      * intros [[? ?]|[Hn [H|H]]]; subst; auto.
    + destruct (N.eqb_spec c c1) as [E|E].
      * subst. cbn [In]. split.
        -- intros [H|H]; [inversion H; auto|]. right. split; [|right; exact H]. specialize (Hl _ _ H). lia.
        -- intros [[? ?]|[Hn [H|H]]]; subst; auto. inversion H; subst. congruence.
      * cbn [In]. rewrite IH by exact S. split.
        -- intros [H|[[? ?]|[Hn H]]]; subst; auto. inversion H; subst. right. split; [congruence|left; reflexivity].
        -- intros [[? ?]|[Hn [H|H]]]; subst; auto.
Qed.

Lemma sorted_oins : forall m c o, sorted_keys m = true -> sorted_keys (oins c o m) = true.
Proof.
  induction m as [|[c1 o1] t IH]; intros c o S; [reflexivity|].
  pose proof S as S0. apply sorted_cons in S. destruct S as [Hl S]. cbn [oins].
  destruct (N.ltb_spec c c1) as [L|L].
  - apply sorted_cons. split; [|exact S0]. intros c' o' [H|H].
    + inversion H; subst. exact L.
    + specialize (Hl _ _ H). lia.
  - destruct (N.eqb_spec c c1) as [E|E].
    + subst. apply sorted_cons. split; assumption.
    + apply sorted_cons. split; [|apply IH; exact S].
      intros c' o' H. apply in_oins in H; [|exact S]. destruct H as [[? ?]|[_ H]].
      * subst. lia.
      * apply (Hl _ _ H).
Qed.

Lemma sorted_orem : forall m c, sorted_keys m = true -> sorted_keys (orem c m) = true.
Proof.
  induction m as [|[c1 o1] t IH]; intros c S; [reflexivity|].
  apply sorted_cons in S. destruct S as [Hl S]. unfold orem in *. cbn [filter fst].
  destruct (negb (N.eqb c c1)).
  - apply sorted_cons. split; [|apply IH; exact S].
    intros c' o' H. apply filter_In in H. destruct H as [H _]. apply (Hl _ _ H).
  - apply IH. exact S.
Qed.

(* ---- indexed / filtered ---- *)
Lemma indexed_from_spec : forall A (l : list A) n i x,
  In (i, x) (indexed_from n l) <-> n <= i /\ nth_error l (N.to_nat (i - n)) = Some x.
Proof.
  induction l as [|y t IH]; intros n i x.
  - cbn. split; [tauto|]. intros [_ H]. destruct (N.to_nat (i - n)); discriminate.
  - cbn [indexed_from In]. rewrite IH. split.
    + intros [H|[L H]].
      * inversion H; subst. split; [lia|]. rewrite N.sub_diag. reflexivity.
      * split; [lia|]. replace (N.to_nat (i - n)) with (S (N.to_nat (i - N.succ n))) by lia. exact H.
    + intros [L H]. destruct (N.eqb_spec n i) as [E|E].
      * subst. rewrite N.sub_diag in H. cbn in H. inversion H. left. reflexivity.
      * right. split; [lia|].
        replace (N.to_nat (i - n)) with (S (N.to_nat (i - N.succ n))) in H by lia. exact H.
Qed.

Lemma indexed_spec : forall A (l : list A) i x, In (i, x) (indexed l) <-> nthN l i = Some x.
Proof.
  intros. unfold indexed, nthN. rewrite indexed_from_spec, N.sub_0_r. split; [tauto|]. intros H. split; [lia|exact H].
Qed.

Lemma indexed_from_fst : forall A (l : list A) n,
  map fst (indexed_from n l) = map (fun k => n + N.of_nat k) (seq 0 (length l)).
Proof.
  induction l as [|y t IH]; intros n; [reflexivity|].
  cbn [indexed_from map length seq fst]. rewrite IH. f_equal; [cbn; lia|].
  rewrite <- seq_shift, map_map. apply map_ext. intros k. lia.
Qed.

Lemma NoDup_indexed_fst : forall A (l : list A), NoDup (map fst (indexed l)).
Proof.
  intros. unfold indexed. rewrite indexed_from_fst.
  apply Injective_map_NoDup; [|apply seq_NoDup].
  intros a b H. lia.
Qed.

Lemma memN_In : forall x l, memN x l = true <-> In x l.
Proof.
  intros. unfold memN. rewrite existsb_exists. split.
  - intros [y [Hy E]]. apply N.eqb_eq in E. subst. exact Hy.
  - intros H. exists x. split; [exact H|apply N.eqb_refl].
Qed.

Lemma memNN_In : forall x l, memNN x l = true <-> In x l.
Proof.
  intros [a b] l. unfold memNN. rewrite existsb_exists. split.
  - intros [[c d] [Hy E]]. cbn in E. apply andb_true_iff in E. destruct E as [E1 E2].
    apply N.eqb_eq in E1. apply N.eqb_eq in E2. subst. exact Hy.
  - intros H. exists (a, b). split; [exact H|]. cbn. rewrite !N.eqb_refl. reflexivity.
Qed.

(** the filtered scope, for the four filter variants *)
Lemma filter_match_spec : forall f i x,
  filter_match f i x = true <->
  match f with
  | FNone => True
  | FExchanges l => In (i_ex x) l
  | FInstruments l => In i l
  | FUnderlyings l => In (i_base x, i_quote x) l
  end.
Proof.
  intros [|l|l|l] i x; cbn [filter_match].
  - tauto.
  - apply memN_In.
  - apply memN_In.
  - apply memNN_In.
Qed.

Lemma filtered_spec : forall f is_ i x,
  In (i, x) (filtered f is_) <-> nthN is_ i = Some x /\ filter_match f i x = true.
Proof. intros. unfold filtered. rewrite filter_In, indexed_spec. cbn. tauto. Qed.

Lemma NoDup_map_filter : forall A B (g : A -> B) (p : A -> bool) l, NoDup (map g l) -> NoDup (map g (filter p l)).
Proof.
  induction l as [|x t IH]; intros H; [constructor|]. cbn in *. inversion H; subst.
  destruct (p x); cbn; [constructor|]; auto.
  intros Hin. apply H2. apply in_map_iff in Hin. destruct Hin as [y [E Hy]]. apply filter_In in Hy.
  apply in_map_iff. exists y. tauto.
Qed.

Lemma NoDup_filtered_fst : forall f is_, NoDup (map fst (filtered f is_)).
Proof. intros. unfold filtered. apply NoDup_map_filter, NoDup_indexed_fst. Qed.

(* ---- cancel scope ---- *)
Lemma in_filter_map : forall A B (f : A -> option B) l y,
  In y (filter_map f l) <-> exists x, In x l /\ f x = Some y.
Proof.
  induction l as [|x t IH]; intros y; cbn.
  - split; [tauto|intros [x [[] _]]].
  - destruct (f x) as [z|] eqn:E; cbn; rewrite IH; split.
    + intros [H|[x' [H1 H2]]]; [subst; exists x; auto|exists x'; auto].
    + intros [x' [[H|H] H2]]; [subst; left; congruence|right; exists x'; auto].
    + intros [x' [H1 H2]]. exists x'; auto.
    + intros [x' [[H|H] H2]]; [subst; congruence|exists x'; auto].
Qed.


Lemma to_request_cancel_spec : forall o r,
  to_request_cancel o = Some r <-> not_cif o = true /\ r = cancel_of_order o.
Proof.
  intros o r. unfold to_request_cancel, not_cif, cancel_of_order.
  destruct (o_st o); split; intros H; try discriminate; try (destruct H; discriminate);
    try (inversion H; auto); destruct H as [_ ->]; reflexivity.
Qed.

Lemma state_wf_inst : forall s i x, state_wf s = true -> nthN (insts s) i = Some x -> inst_wf i x = true.
Proof.
  intros s i x H Hn. unfold state_wf in H. rewrite forallb_forall in H.
  apply (H (i, x)). apply indexed_spec. exact Hn.
Qed.

(** cancel-orders scope: the requests are exactly one per tracked, not-already-cancel-in-flight
    order of a matching instrument, addressed by its key and its exchange order id when known *)
Lemma cancel_requests_spec : forall s f r,
  state_wf s = true ->
  (In r (cancel_requests f (insts s)) <->
   exists i x c o, nthN (insts s) i = Some x /\ filter_match f i x = true /\
                   oget (i_orders x) c = Some o /\ not_cif o = true /\ r = cancel_of_order o).
Proof.
  intros s f r Hok. unfold cancel_requests. rewrite in_flat_map. split.
  - intros [[i x] [Hf Hin]]. apply filtered_spec in Hf. destruct Hf as [Hn Hm]. cbn [snd] in Hin.
    apply in_filter_map in Hin. destruct Hin as [o [Ho Hr]]. apply in_map_iff in Ho.
    destruct Ho as [[c o'] [E Hin]]. cbn in E. subst o'.
    pose proof (state_wf_inst s i x Hok Hn) as Hi. unfold inst_wf in Hi.
    apply andb_true_iff in Hi. destruct Hi as [Hi _]. apply andb_true_iff in Hi. destruct Hi as [Hs _].
    apply to_request_cancel_spec in Hr. destruct Hr as [Hc ->].
    exists i, x, c, o. repeat split; auto. apply sorted_in_oget; assumption.
  - intros (i & x & c & o & Hn & Hm & Hg & Hc & ->).
    exists (i, x). split; [apply filtered_spec; auto|]. cbn [snd].
    apply in_filter_map. exists o. split; [|apply to_request_cancel_spec; auto].
    apply in_map_iff. exists (c, o). split; [reflexivity|].
    pose proof (state_wf_inst s i x Hok Hn) as Hi. unfold inst_wf in Hi.
    apply andb_true_iff in Hi. destruct Hi as [Hi _]. apply andb_true_iff in Hi. destruct Hi as [Hs _].
    apply sorted_in_oget; assumption.
Qed.

(* ---- close scope ---- *)

(** default close strategy: no cancels; exactly one market IOC order per matching instrument that
    has a position and a price, opposite side, equal quantity *)
Lemma default_close_spec : forall strat gen s f,
  fst (default_close strat gen s f) = [] /\
  (forall r, In r (snd (default_close strat gen s f)) <->
     exists i x p pr, nthN (insts s) i = Some x /\ filter_match f i x = true /\
                      i_pos x = Some p /\ i_price x = Some pr /\
                      r = mkOReq (mkKey (i_ex x) (p_inst p) strat (gen i))
                                 (mkROpen (flip_side (p_side p)) pr (p_qty p) Market IOC)) /\
  length (snd (default_close strat gen s f)) =
  length (filter (fun p => closable (snd p)) (filtered f (insts s))).
Proof.
  intros strat gen s f. unfold default_close. cbn [fst snd]. split; [reflexivity|]. split.
  - intros r. rewrite in_filter_map. split.
    + intros [[i x] [Hf Hr]]. apply filtered_spec in Hf. destruct Hf as [Hn Hm]. cbn [fst snd] in Hr.
      destruct (i_pos x) as [p|] eqn:Hp; [|discriminate].
      destruct (i_price x) as [pr|] eqn:Hpr; [|discriminate].
      inversion Hr. exists i, x, p, pr. repeat split; auto.
    + intros (i & x & p & pr & Hn & Hm & Hp & Hpr & ->). exists (i, x). split; [apply filtered_spec; auto|].
      cbn [fst snd]. rewrite Hp, Hpr. reflexivity.
  - induction (filtered f (insts s)) as [|[i x] t IH]; [reflexivity|]. cbn [filter_map filter snd fst closable].
    unfold closable at 1. destruct (i_pos x); [destruct (i_price x)|]; cbn [length]; rewrite IH; reflexivity.
Qed.

(* ---- instruments outside the scope are untouched ---- *)
Lemma nthN_record_cancel : forall is_ r j, k_inst (cr_key r) <> j -> nthN (record_cancel is_ r) j = nthN is_ j.
Proof.
  intros. unfold record_cancel. rewrite nthN_updN.
  destruct (N.eqb_spec (k_inst (cr_key r)) j); [contradiction|reflexivity].
Qed.
Lemma nthN_record_open : forall is_ r j, k_inst (or_key r) <> j -> nthN (record_open is_ r) j = nthN is_ j.
Proof.
  intros. unfold record_open. rewrite nthN_updN.
  destruct (N.eqb_spec (k_inst (or_key r)) j); [contradiction|reflexivity].
Qed.
Lemma nthN_record_cancels : forall rs is_ j,
  (forall r, In r rs -> k_inst (cr_key r) <> j) -> nthN (record_cancels is_ rs) j = nthN is_ j.
Proof.
  induction rs as [|r t IH]; intros is_ j H; [reflexivity|]. unfold record_cancels in *. cbn [fold_left].
  rewrite IH by (intros r' Hr'; apply H; right; exact Hr').
  apply nthN_record_cancel. apply H. left. reflexivity.
Qed.
Lemma nthN_record_opens : forall rs is_ j,
  (forall r, In r rs -> k_inst (or_key r) <> j) -> nthN (record_opens is_ rs) j = nthN is_ j.
Proof.
  induction rs as [|r t IH]; intros is_ j H; [reflexivity|]. unfold record_opens in *. cbn [fold_left].
  rewrite IH by (intros r' Hr'; apply H; right; exact Hr').
  apply nthN_record_open. apply H. left. reflexivity.
Qed.

Lemma spec_sent_in : forall R (ex : R -> N) ls rs r, In r (spec_sent ex ls rs) -> In r rs /\ link_open ls (ex r) = true.
Proof. intros. unfold spec_sent in H. apply filter_In in H. exact H. Qed.

Lemma inst_wf_key : forall i x c o, inst_wf i x = true -> oget (i_orders x) c = Some o ->
  k_inst (o_key o) = i /\ k_cid (o_key o) = c.
Proof.
  intros i x c o Hi Hg. unfold inst_wf in Hi.
  apply andb_true_iff in Hi. destruct Hi as [Hi _]. apply andb_true_iff in Hi. destruct Hi as [Hs Hk].
  apply sorted_in_oget in Hg; [|exact Hs]. unfold keys_ok in Hk. rewrite forallb_forall in Hk. specialize (Hk _ Hg). cbn in Hk.
  apply andb_true_iff in Hk. destruct Hk as [H1 H2]. apply N.eqb_eq in H1. apply N.eqb_eq in H2. auto.
Qed.

(** CancelOrders command: an instrument outside the filter keeps its whole state *)
Lemma cancel_orders_outside : forall cs s f j x,
  state_wf s = true -> nthN (insts s) j = Some x -> filter_match f j x = false ->
  nthN (insts (fst (action cs s (CCancelOrders f)))) j = Some x.
Proof.
  intros cs s f j x Hok Hn Hm. cbn [action].
  pose proof (send_requests_spec creq XCancel (cancel_requests f (insts s)) (links s)) as H. cbn zeta in H.
  destruct (send_requests XCancel (links s) (cancel_requests f (insts s))) as [ls1 out]. cbn [fst snd insts] in *.
  destruct H as (Hs & _). rewrite nthN_record_cancels; [exact Hn|].
  intros r Hr E. rewrite Hs in Hr. apply spec_sent_in in Hr. destruct Hr as [Hr _].
  apply cancel_requests_spec in Hr; [|exact Hok].
  destruct Hr as (i & x' & c & o & Hn' & Hm' & Hg & _ & ->).
  pose proof (inst_wf_key i x' c o (state_wf_inst s i x' Hok Hn') Hg) as [Hi _].
  cbn in E. rewrite Hi in E. subst i. rewrite Hn in Hn'. inversion Hn'; subst. congruence.
Qed.

(** ClosePositions command with the default strategy: an instrument outside the filter keeps its
    whole state; a matching one keeps position and price (only gains the in-flight close order) *)
Lemma close_positions_outside : forall strat gen s f j x,
  state_wf s = true -> nthN (insts s) j = Some x -> filter_match f j x = false ->
  nthN (insts (fst (action (default_close strat gen) s (CClosePositions f)))) j = Some x.
Proof.
  intros strat gen s f j x Hok Hn Hm. cbn [action].
  pose proof (default_close_spec strat gen s f) as (Hc & Ho & _).
  destruct (default_close strat gen s f) as [cl ol]. cbn [fst snd] in *. subst cl. cbn [send_requests].
  pose proof (send_requests_spec oreq XOpen ol (links s)) as H. cbn zeta in H.
  destruct (send_requests XOpen (links s) ol) as [ls2 oo]. cbn [fst snd insts so_sent] in *.
  destruct H as (Hs & _). unfold record_cancels at 1. cbn [fold_left].
  rewrite nthN_record_opens; [exact Hn|].
  intros r Hr E. rewrite Hs in Hr. apply spec_sent_in in Hr. destruct Hr as [Hr _].
  apply Ho in Hr. destruct Hr as (i & x' & p & pr & Hn' & Hm' & Hp & _ & ->). cbn in E.
  pose proof (state_wf_inst s i x' Hok Hn') as Hi. unfold inst_wf in Hi.
  apply andb_true_iff in Hi. destruct Hi as [_ Hi]. rewrite Hp in Hi. apply N.eqb_eq in Hi.
  rewrite Hi in E. subst i. rewrite Hn in Hn'. inversion Hn'; subst. congruence.
Qed.

(* ---- well-formedness is an invariant ---- *)
Lemma state_wf_iff : forall s, state_wf s = true <-> forall i x, nthN (insts s) i = Some x -> inst_wf i x = true.
Proof.
  intros s. unfold state_wf. rewrite forallb_forall. split.
  - intros H i x Hn. apply (H (i, x)). apply indexed_spec. exact Hn.
  - intros H [i x] Hin. apply indexed_spec in Hin. apply H. exact Hin.
Qed.

Lemma insts_ok_updN : forall (l : list inst) n f,
  (forall i x, nthN l i = Some x -> inst_wf i x = true) ->
  (forall x, nthN l n = Some x -> inst_wf n (f x) = true) ->
  forall i x, nthN (updN l n f) i = Some x -> inst_wf i x = true.
Proof.
  intros l n f H Hf i x Hn. rewrite nthN_updN in Hn. destruct (N.eqb_spec n i) as [E|E].
  - subst. destruct (nthN l i) as [y|] eqn:Hy; [|discriminate]. cbn in Hn. inversion Hn; subst. apply Hf. reflexivity.
  - apply H. exact Hn.
Qed.


Lemma inst_wf_parts : forall idx x,
  inst_wf idx x = true <->
  sorted_keys (i_orders x) = true /\ keys_ok idx (i_orders x) = true /\
  match i_pos x with Some p => N.eqb (p_inst p) idx | None => true end = true.
Proof. intros. unfold inst_wf. rewrite !andb_true_iff. tauto. Qed.

Lemma keys_ok_oins : forall idx m c o,
  sorted_keys m = true -> keys_ok idx m = true ->
  k_cid (o_key o) = c -> k_inst (o_key o) = idx -> keys_ok idx (oins c o m) = true.
Proof.
  intros idx m c o S K Hc Hi. unfold keys_ok in *. rewrite forallb_forall in *. intros [c' o'] Hin.
  apply in_oins in Hin; [|exact S]. destruct Hin as [[-> ->]|[_ Hin]].
  - cbn. rewrite Hc, Hi, !N.eqb_refl. reflexivity.
  - apply K. exact Hin.
Qed.

Lemma keys_ok_orem : forall idx m c, keys_ok idx m = true -> keys_ok idx (orem c m) = true.
Proof.
  intros idx m c K. unfold keys_ok, orem in *. rewrite forallb_forall in *. intros p Hin.
  apply filter_In in Hin. apply K. tauto.
Qed.

Lemma keys_ok_get : forall idx m c o, sorted_keys m = true -> keys_ok idx m = true -> oget m c = Some o ->
  k_cid (o_key o) = c /\ k_inst (o_key o) = idx.
Proof.
  intros idx m c o S K Hg. apply sorted_in_oget in Hg; [|exact S]. unfold keys_ok in K.
  rewrite forallb_forall in K. specialize (K _ Hg). cbn in K. apply andb_true_iff in K.
  destruct K as [H1 H2]. apply N.eqb_eq in H1. apply N.eqb_eq in H2. auto.
Qed.

Lemma insts_ok_record_cancel : forall is_ r,
  (forall i x, nthN is_ i = Some x -> inst_wf i x = true) ->
  forall i x, nthN (record_cancel is_ r) i = Some x -> inst_wf i x = true.
Proof.
  intros is_ r H. unfold record_cancel. apply insts_ok_updN; [exact H|].
  intros x Hn. specialize (H _ _ Hn). destruct (oget (i_orders x) (k_cid (cr_key r))) as [o|] eqn:Hg; [|exact H].
  apply inst_wf_parts in H. destruct H as (S & K & P). apply inst_wf_parts. cbn [with_orders i_orders i_pos].
  destruct (keys_ok_get _ _ _ _ S K Hg) as [Hc Hi].
  split; [apply sorted_oins; exact S|]. split; [|exact P]. apply keys_ok_oins; auto.
Qed.

Lemma insts_ok_record_open : forall is_ r,
  (forall i x, nthN is_ i = Some x -> inst_wf i x = true) ->
  forall i x, nthN (record_open is_ r) i = Some x -> inst_wf i x = true.
Proof.
  intros is_ r H. unfold record_open. apply insts_ok_updN; [exact H|].
  intros x Hn. specialize (H _ _ Hn). apply inst_wf_parts in H. destruct H as (S & K & P).
  apply inst_wf_parts. cbn [with_orders i_orders i_pos].
  split; [apply sorted_oins; exact S|]. split; [|exact P]. apply keys_ok_oins; auto.
Qed.

Lemma insts_ok_record_cancels : forall rs is_,
  (forall i x, nthN is_ i = Some x -> inst_wf i x = true) ->
  forall i x, nthN (record_cancels is_ rs) i = Some x -> inst_wf i x = true.
Proof.
  induction rs as [|r t IH]; intros is_ H; [exact H|]. unfold record_cancels in *. cbn [fold_left].
  apply IH. apply insts_ok_record_cancel. exact H.
Qed.

Lemma insts_ok_record_opens : forall rs is_,
  (forall i x, nthN is_ i = Some x -> inst_wf i x = true) ->
  forall i x, nthN (record_opens is_ rs) i = Some x -> inst_wf i x = true.
Proof.
  induction rs as [|r t IH]; intros is_ H; [exact H|]. unfold record_opens in *. cbn [fold_left].
  apply IH. apply insts_ok_record_open. exact H.
Qed.

Lemma state_wf_submit : forall s cs os, state_wf s = true -> state_wf (fst (submit s cs os)) = true.
Proof.
  intros s cs os H. pose proof (submit_spec s cs os) as Hs. cbn zeta in Hs.
  destruct Hs as (_ & _ & _ & _ & _ & Hi & _). apply state_wf_iff. rewrite Hi.
  apply insts_ok_record_opens, insts_ok_record_cancels. apply state_wf_iff. exact H.
Qed.

Lemma state_wf_action : forall cs s c, state_wf s = true -> state_wf (fst (action cs s c)) = true.
Proof. intros. rewrite action_submit. cbn zeta. cbn [fst]. apply state_wf_submit. exact H. Qed.

Lemma state_wf_generate : forall s g, state_wf s = true -> state_wf (fst (generate s g)) = true.
Proof. intros. rewrite generate_submit. cbn zeta. cbn [fst]. apply state_wf_submit. exact H. Qed.

Lemma inst_wf_snapshot : forall idx x o sn,
  inst_wf idx x = true -> k_inst (o_key o) = idx ->
  inst_wf idx (with_orders x (snapshot_orders (i_orders x) o sn)) = true.
Proof.
  intros idx x o sn H Hi. apply inst_wf_parts in H. destruct H as (S & K & P).
  apply inst_wf_parts. cbn [with_orders i_orders i_pos]. unfold snapshot_orders.
  assert (Hm : sorted_keys (i_orders x) = true /\ keys_ok idx (i_orders x) = true /\
               match i_pos x with Some p => N.eqb (p_inst p) idx | None => true end = true) by auto.
  assert (Hrem : sorted_keys (orem (k_cid (o_key o)) (i_orders x)) = true /\
                 keys_ok idx (orem (k_cid (o_key o)) (i_orders x)) = true /\
                 match i_pos x with Some p => N.eqb (p_inst p) idx | None => true end = true)
    by (split; [apply sorted_orem; exact S|split; [apply keys_ok_orem; exact K|exact P]]).
  assert (Hins : forall o' : order, k_cid (o_key o') = k_cid (o_key o) -> k_inst (o_key o') = idx ->
                 sorted_keys (oins (k_cid (o_key o)) o' (i_orders x)) = true /\
                 keys_ok idx (oins (k_cid (o_key o)) o' (i_orders x)) = true /\
                 match i_pos x with Some p => N.eqb (p_inst p) idx | None => true end = true)
    by (intros o' Hc' Hi'; split; [apply sorted_oins; exact S|split; [apply keys_ok_oins; auto|exact P]]).
  destruct (oget (i_orders x) (k_cid (o_key o))) as [cur|] eqn:Hg.
  - destruct (keys_ok_get _ _ _ _ S K Hg) as [Hc Hi'].
    destruct sn as [mt| | |u].
    + destruct (match o_st cur with OIF => true | OOpen cm => Z.leb (m_time cm) (m_time mt)
                | CIF None => true | CIF (Some cm) => Z.leb (m_time cm) (m_time mt) end); [|exact Hm].
      destruct (Z.eqb (remaining (o_qty o) mt) 0); [exact Hrem|]. apply Hins; assumption.
    + exact Hrem.
    + exact Hm.
    + destruct (o_st cur) as [|cm|cm]; [apply Hins; assumption|apply Hins; assumption|exact Hm].
  - destruct sn as [mt| | |u].
    + destruct (Z.eqb (remaining (o_qty o) mt) 0); [exact Hm|]. apply Hins; [reflexivity|exact Hi].
    + exact Hm.
    + apply Hins; [reflexivity|exact Hi].
    + apply Hins; [reflexivity|exact Hi].
Qed.

Lemma inst_wf_cancel_response : forall idx x c ok,
  inst_wf idx x = true -> inst_wf idx (with_orders x (cancel_response_orders (i_orders x) c ok)) = true.
Proof.
  intros idx x c ok H. apply inst_wf_parts in H. destruct H as (S & K & P).
  apply inst_wf_parts. cbn [with_orders i_orders i_pos]. unfold cancel_response_orders.
  destruct (oget (i_orders x) c) as [cur|] eqn:Hg; [|auto].
  destruct (keys_ok_get _ _ _ _ S K Hg) as [Hc Hi'].
  destruct ok.
  - split; [apply sorted_orem; exact S|]. split; [apply keys_ok_orem; exact K|exact P].
  - destruct (o_st cur) as [|m|[m|]]; auto.
    + split; [apply sorted_oins; exact S|]. split; [|exact P]. apply keys_ok_oins; auto.
    + split; [apply sorted_orem; exact S|]. split; [apply keys_ok_orem; exact K|exact P].
Qed.

Lemma trade_pos_ok : forall cur i sd q,
  match cur with Some p => N.eqb (p_inst p) i | None => true end = true ->
  match fst (trade_pos cur i sd q) with Some p => N.eqb (p_inst p) i | None => true end = true.
Proof.
  intros cur i sd q H. unfold trade_pos. destruct cur as [p|]; cbn [fst]; [|apply N.eqb_refl].
  destruct (negb (N.eqb (p_inst p) i)); [exact H|].
  destruct (side_eqb (p_side p) sd); [exact H|].
  destruct (Z.ltb (Z.abs q) (p_qty p)); [exact H|].
  destruct (Z.eqb (Z.abs q) (p_qty p)); cbn [fst]; [reflexivity|apply N.eqb_refl].
Qed.

Lemma insts_ok_snapshots : forall (l : list (order * snap)) (is_ : list inst),
  (forall i x, nthN is_ i = Some x -> inst_wf i x = true) ->
  forall i x, nthN (fold_left (fun acc p =>
                      updN acc (k_inst (o_key (fst p)))
                        (fun y => with_orders y (snapshot_orders (i_orders y) (fst p) (snd p)))) l is_) i = Some x ->
              inst_wf i x = true.
Proof.
  induction l as [|p t IH]; intros is_ H; [exact H|]. cbn [fold_left]. apply IH.
  apply insts_ok_updN; [exact H|]. intros y Hn. apply inst_wf_snapshot; [apply H; exact Hn|reflexivity].
Qed.

Lemma state_wf_update_state : forall s ev, state_wf s = true -> state_wf (fst (update_state s ev)) = true.
Proof.
  intros s ev H. rewrite state_wf_iff in H.
  destruct ev as [|c|b|o sn|l|k ok|i sd q| |i t p|i t b| |]; cbn [update_state fst];
    try (apply state_wf_iff; exact H); apply state_wf_iff; cbn [insts set_insts set_trading].
  - apply insts_ok_updN; [exact H|]. intros x Hn. apply inst_wf_snapshot; [apply H; exact Hn|reflexivity].
  - apply insts_ok_snapshots. exact H.
  - apply insts_ok_updN; [exact H|]. intros x Hn. apply inst_wf_cancel_response. apply H. exact Hn.
  - destruct (nthN (insts s) i) as [x|] eqn:Hn; [|exact H].
    pose proof (trade_pos_ok (i_pos x) i sd q) as Ht.
    destruct (trade_pos (i_pos x) i sd q) as [p ex]. cbn [fst insts set_insts] in *.
    apply insts_ok_updN; [exact H|]. intros y Hy. rewrite Hn in Hy. inversion Hy; subst y.
    specialize (H _ _ Hn). apply inst_wf_parts in H. destruct H as (S & K & P).
    apply inst_wf_parts. cbn [with_pos i_orders i_pos]. auto.
  - apply insts_ok_updN; [exact H|]. intros x Hn. specialize (H _ _ Hn).
    apply inst_wf_parts in H. apply inst_wf_parts. exact H.
  - apply insts_ok_updN; [exact H|]. intros x Hn. specialize (H _ _ Hn).
    apply inst_wf_parts in H. apply inst_wf_parts. exact H.
Qed.

(** well-formedness is preserved by every engine step, whatever the scripts *)
Lemma state_wf_process : forall cs s ev g, state_wf s = true -> state_wf (fst (process cs s ev g)) = true.
Proof.
  intros cs s ev g H. unfold process.
  pose proof (process_trace_shape cs s ev g) as Hsh.
  assert (state_wf (fst (fst (pre_step cs s ev))) = true) as Hp.
  { destruct ev; cbn [pre_step fst]; try (apply state_wf_update_state; exact H). apply state_wf_action. exact H. }
  destruct (pre_step cs s ev) as [[s1 act] outs]. cbn [fst] in Hp.
  destruct (process_trace cs s ev g) as [s' t]. cbn [fst].
  destruct (generation_runs cs s ev); inversion Hsh; subst; [apply state_wf_generate|]; exact Hp.
Qed.

(* ---- repeating a cancel command ---- *)
Lemma rest_nth : forall (l l' : list inst) i x x',
  map inst_rest l' = map inst_rest l -> nthN l' i = Some x' -> nthN l i = Some x -> inst_rest x' = inst_rest x.
Proof.
  intros l l' i x x' Hm H1 H2. unfold nthN in *.
  apply (map_nth_error inst_rest) in H1. apply (map_nth_error inst_rest) in H2. rewrite Hm in H1. congruence.
Qed.

Lemma filter_match_rest : forall f i x x', inst_rest x' = inst_rest x -> filter_match f i x' = filter_match f i x.
Proof.
  intros f i x x' H. unfold inst_rest in H. inversion H. destruct f; cbn [filter_match]; congruence.
Qed.

Lemma not_cif_mark : forall o o', mark_cancel (Some o) = Some o' -> not_cif o' = false.
Proof. intros o o' H. cbn in H. inversion H. reflexivity. Qed.

(** after a CancelOrders command, the same command requests only what failed to be sent the
    first time: nothing new, and nothing at all if every link involved was open *)
Lemma cancel_repeat : forall cs s f r,
  state_wf s = true ->
  In r (cancel_requests f (insts (fst (action cs s (CCancelOrders f))))) ->
  In r (cancel_requests f (insts s)) /\ link_open (links s) (cr_ex r) = false.
Proof.
  intros cs s f r Hok Hin.
  pose proof (state_wf_action cs s (CCancelOrders f) Hok) as Hok'.
  pose proof (action_spec cs s (CCancelOrders f)) as Ha. cbn zeta in Ha.
  cbn [command_requests fst snd] in Ha.
  destruct Ha as (Hac & Hao & _ & _ & _ & Hrest & _ & Hmk).
  set (s' := fst (action cs s (CCancelOrders f))) in *.
  set (a := snd (action cs s (CCancelOrders f))) in *.
  apply cancel_requests_spec in Hin; [|exact Hok'].
  destruct Hin as (i & x' & c & o' & Hn' & Hm' & Hg' & Hnc & ->).
  assert (so_sent (action_opens a) = []) as Hno by (rewrite Hao; reflexivity).
  rewrite Hno in Hmk. specialize (Hmk eq_refl i c).
  assert (ord (insts s') i c = Some o') as Ho' by (unfold ord; rewrite Hn'; exact Hg').
  rewrite Ho' in Hmk. unfold marked in Hmk. cbn [last_open] in Hmk.
  destruct (names_c i c (so_sent (action_cancels a))) eqn:Hnm.
  - exfalso. destruct (ord (insts s) i c) as [o|]; [|discriminate].
    symmetry in Hmk. apply not_cif_mark in Hmk. congruence.
  - symmetry in Hmk. unfold ord in Hmk. destruct (nthN (insts s) i) as [x|] eqn:Hn; [|discriminate].
    pose proof (rest_nth _ _ _ _ _ Hrest Hn' Hn) as Hr.
    assert (In (cancel_of_order o') (cancel_requests f (insts s))) as Hin0.
    { apply cancel_requests_spec; [exact Hok|]. exists i, x, c, o'. repeat split; auto.
      rewrite <- (filter_match_rest f i x x' Hr). exact Hm'. }
    split; [exact Hin0|].
    destruct (link_open (links s) (cr_ex (cancel_of_order o'))) eqn:Hop; [|reflexivity]. exfalso.
    assert (In (cancel_of_order o') (so_sent (action_cancels a))) as Hs.
    { rewrite Hac. cbn [so_sent]. unfold spec_sent. apply filter_In. split; assumption. }
    pose proof (inst_wf_key i x c o' (state_wf_inst s i x Hok Hn) Hmk) as [Hi Hc].
    assert (names_c i c (so_sent (action_cancels a)) = true) as X.
    { apply existsb_exists. exists (cancel_of_order o'). split; [exact Hs|].
      unfold key_at, cancel_of_order. cbn. rewrite Hi, Hc, !N.eqb_refl. reflexivity. }
    congruence.
Qed.

Lemma cancel_repeat_nothing : forall cs s f,
  state_wf s = true ->
  (forall r, In r (cancel_requests f (insts s)) -> link_open (links s) (cr_ex r) = true) ->
  cancel_requests f (insts (fst (action cs s (CCancelOrders f)))) = [].
Proof.
  intros cs s f Hok Hall.
  destruct (cancel_requests f (insts (fst (action cs s (CCancelOrders f))))) as [|r t] eqn:E; [reflexivity|].
  exfalso. assert (In r (cancel_requests f (insts (fst (action cs s (CCancelOrders f)))))) as Hin by (rewrite E; left; reflexivity).
  apply cancel_repeat in Hin; [|exact Hok]. destruct Hin as [H1 H2]. rewrite (Hall r H1) in H2. discriminate.
Qed.

(** the requests are pairwise distinct: one per order *)
Lemma in_inst_requests : forall (m : omap) r,
  In r (filter_map to_request_cancel (map snd m)) -> exists c o, In (c, o) m /\ r = cancel_of_order o.
Proof.
  intros m r H. apply in_filter_map in H. destruct H as [o [Ho Hr]]. apply in_map_iff in Ho.
  destruct Ho as [[c o'] [E Hin]]. cbn in E. subst o'. apply to_request_cancel_spec in Hr. destruct Hr as [_ ->].
  exists c, o. auto.
Qed.

Lemma NoDup_inst_requests : forall idx m,
  sorted_keys m = true -> keys_ok idx m = true -> NoDup (filter_map to_request_cancel (map snd m)).
Proof.
  induction m as [|[c o] t IH]; intros S K; [constructor|].
  pose proof S as S0. apply sorted_cons in S. destruct S as [Hl S].
  unfold keys_ok in K. cbn [forallb] in K. apply andb_true_iff in K. destruct K as [K0 K].
  cbn [map snd filter_map]. specialize (IH S K).
  destruct (to_request_cancel o) as [r|] eqn:Hr; [|exact IH]. constructor; [|exact IH].
  intros Hin. apply in_inst_requests in Hin. destruct Hin as (c' & o' & Hin & E).
  apply to_request_cancel_spec in Hr. destruct Hr as [_ Hr]. subst r.
  specialize (Hl _ _ Hin). unfold keys_ok in K. rewrite forallb_forall in K. specialize (K _ Hin).
  cbn in K, K0. apply andb_true_iff in K. apply andb_true_iff in K0.
  destruct K as [K1 _]. destruct K0 as [K2 _]. apply N.eqb_eq in K1. apply N.eqb_eq in K2.
  unfold cancel_of_order in E. inversion E. rewrite H0 in K2. lia.
Qed.

Lemma NoDup_flat_map_disjoint : forall A B (f : A -> list B) (l : list A),
  (forall x, In x l -> NoDup (f x)) ->
  (forall x y z, In x l -> In y l -> In z (f x) -> In z (f y) -> x = y) ->
  NoDup l -> NoDup (flat_map f l).
Proof.
  induction l as [|x t IH]; intros Hn Hd Hl; [constructor|]. cbn. inversion Hl; subst.
  assert (forall l1 l2 : list B, NoDup l1 -> NoDup l2 -> (forall z, In z l1 -> ~ In z l2) -> NoDup (l1 ++ l2)) as Happ.
  { induction l1 as [|a l1 IH1]; intros l2 N1 N2 D; [exact N2|]. cbn. inversion N1; subst. constructor.
    - intros Hin. apply in_app_iff in Hin. destruct Hin as [Hin|Hin]; [contradiction|]. apply (D a); [left; reflexivity|exact Hin].
    - apply IH1; auto. intros z Hz. apply D. right. exact Hz. }
  apply Happ.
  - apply Hn. left. reflexivity.
  - apply IH; auto.
    + intros y Hy. apply Hn. right. exact Hy.
    + intros a b z Ha Hb. apply Hd; right; assumption.
  - intros z Hz Hin. apply in_flat_map in Hin. destruct Hin as [y [Hy Hzy]].
    assert (x = y) by (apply (Hd x y z); auto; [left; reflexivity|right; exact Hy]). subst. contradiction.
Qed.

Lemma NoDup_fst_NoDup : forall A B (l : list (A * B)), NoDup (map fst l) -> NoDup l.
Proof.
  induction l as [|x t IH]; intros H; [constructor|]. cbn in H. inversion H; subst. constructor; [|auto].
  intros Hin. apply H2. apply in_map. exact Hin.
Qed.

Lemma NoDup_cancel_requests : forall s f, state_wf s = true -> NoDup (cancel_requests f (insts s)).
Proof.
  intros s f Hok. unfold cancel_requests. apply NoDup_flat_map_disjoint.
  - intros [i x] Hin. apply filtered_spec in Hin. destruct Hin as [Hn _]. cbn [snd].
    pose proof (state_wf_inst s i x Hok Hn) as Hi. apply inst_wf_parts in Hi. destruct Hi as (S & K & _).
    exact (NoDup_inst_requests i _ S K).
  - intros [i x] [j y] r Hx Hy Hr1 Hr2. apply filtered_spec in Hx. apply filtered_spec in Hy.
    destruct Hx as [Hnx _]. destruct Hy as [Hny _]. cbn [snd] in *.
    apply in_inst_requests in Hr1. apply in_inst_requests in Hr2.
    destruct Hr1 as (c1 & o1 & Hin1 & E1). destruct Hr2 as (c2 & o2 & Hin2 & E2).
    pose proof (state_wf_inst s i x Hok Hnx) as Hi. apply inst_wf_parts in Hi. destruct Hi as (S1 & K1 & _).
    pose proof (state_wf_inst s j y Hok Hny) as Hj. apply inst_wf_parts in Hj. destruct Hj as (S2 & K2 & _).
    apply sorted_in_oget in Hin1; [|exact S1]. apply sorted_in_oget in Hin2; [|exact S2].
    destruct (keys_ok_get _ _ _ _ S1 K1 Hin1) as [_ I1]. destruct (keys_ok_get _ _ _ _ S2 K2 Hin2) as [_ I2].
    subst r. unfold cancel_of_order in E2. inversion E2. rewrite H0 in I1. rewrite I1 in I2. subst j.
    rewrite Hnx in Hny. inversion Hny. reflexivity.
  - apply NoDup_fst_NoDup. apply NoDup_filtered_fst.
Qed.

(** what the two filter commands report *)
Lemma cancel_orders_output : forall cs s f,
  let rq := cancel_requests f (insts s) in
  snd (action cs s (CCancelOrders f)) =
  AOCancel (mkSendOut (spec_sent cr_ex (links s) rq) (spec_errs cr_ex (links s) rq)).
Proof.
  intros cs s f rq. cbn [action]. fold rq.
  pose proof (send_requests_spec creq XCancel rq (links s)) as H. cbn zeta in H.
  destruct (send_requests XCancel (links s) rq) as [ls1 out]. cbn [fst snd] in *.
  destruct H as (Hs & He & _). change (fun r : creq => xr_ex (XCancel r)) with cr_ex in *.
  rewrite (sendout_eta _ out), Hs, He. reflexivity.
Qed.

Lemma close_positions_output : forall strat gen s f,
  let rq := snd (default_close strat gen s f) in
  snd (action (default_close strat gen) s (CClosePositions f)) =
  AOClose (mkSendOut [] []) (mkSendOut (spec_sent or_ex (links s) rq) (spec_errs or_ex (links s) rq)).
Proof.
  intros strat gen s f rq. cbn [action].
  pose proof (default_close_spec strat gen s f) as (Hc & _). subst rq.
  destruct (default_close strat gen s f) as [cl ol]. cbn [fst snd] in *. subst cl. cbn [send_requests].
  pose proof (send_requests_spec oreq XOpen ol (links s)) as H. cbn zeta in H.
  destruct (send_requests XOpen (links s) ol) as [ls2 oo]. cbn [fst snd] in *.
  destruct H as (Hs & He & _). change (fun r : oreq => xr_ex (XOpen r)) with or_ex in *.
  rewrite (sendout_eta _ oo), Hs, He. reflexivity.
Qed.

Lemma state_wf_empty : forall b ls, state_wf (mkState b ls []) = true.
Proof. reflexivity. Qed.
