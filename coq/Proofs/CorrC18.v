(** The C18 oracle is no stricter than the model: on every case inside the property's input
    requirement, if the model reproduces the observations ([corr_b]) then the observations
    satisfy the oracle ([prop_b]). The bridge is the refinement theorems of Proofs/Drawdown.v:
    the model's outputs ARE the decomposition's. *)
From Coq Require Import List ZArith QArith Qcanon Bool Lia.
From BV Require Import Base.Common Model.Drawdown Proofs.Drawdown Corr.C18.
Import ListNotations.

Lemma list_b_app {A B} (f : A -> B -> bool) l1 l2 a b :
  list_b f l1 l2 = true -> list_b f a b = true -> list_b f (l1 ++ a) (l2 ++ b) = true.
Proof.
  revert l2. induction l1 as [|x l1 IH]; intros [|y l2] H1 H2; cbn [list_b app] in *; try discriminate.
  - exact H2.
  - apply andb_true_iff in H1 as [Hx Hl]. rewrite Hx. cbn [andb]. apply IH; assumption.
Qed.
Lemma opt_list_b {A B} (f : A -> B -> bool) x y :
  opt_b f x y = true -> list_b f (opt_list x) (opt_list y) = true.
Proof. destruct x, y; cbn; intros H; try discriminate; [rewrite H|]; reflexivity. Qed.

Lemma positive_qc v : negb (Qle_bool v 0) = true -> (0 < qc v)%Qc.
Proof.
  intros H. apply negb_true_iff in H. unfold Qclt, qc. cbn [this Q2Qc].
  apply Qnot_le_lt. intros Hle. rewrite Qred_correct in Hle.
  assert (Hb : Qle_bool v 0 = true) by (apply Qle_bool_iff; exact Hle). congruence.
Qed.

(* ---- DrawdownGenerator ------------------------------------------------------------------------ *)

Lemma gen_sound_run ops : forall obs pts g em,
  Inv pts g -> list_b dd_close (completed pts) em = true ->
  gen_corr g ops obs = true -> gen_prop pts em ops obs = true.
Proof.
  induction ops as [|op ops IH]; intros [|o obs] pts g em HI Hem Hc; cbn [gen_corr gen_prop] in *;
    try discriminate; [reflexivity|]; destruct op as [t v| |c]; cbn [negb andb] in Hc.
  - destruct (Inv_step pts g (t, qc v) HI) as [HI' Hcomp].
    destruct (gen_update g (t, qc v)) as [g' ret] eqn:Hu. cbn [fst snd] in *.
    apply andb_true_iff in Hc as [Hm Hc]. unfold gobs_matches in Hm.
    apply andb_true_iff in Hm as [Hm Hgen]. apply andb_true_iff in Hm as [Hret _].
    rewrite (Inv_generate _ _ HI') in Hgen. rewrite Hgen, Hcomp.
    assert (Hem' : list_b dd_close (completed pts ++ opt_list ret) (em ++ opt_list (go_ret o)) = true).
    { apply list_b_app; [exact Hem|apply opt_list_b; exact Hret]. }
    rewrite Hem'. cbn [andb]. apply (IH obs _ g'); try assumption. rewrite Hcomp. exact Hem'.
  - apply andb_true_iff in Hc as [Hm Hc]. unfold gobs_matches in Hm.
    apply andb_true_iff in Hm as [Hm Hgen]. apply andb_true_iff in Hm as [Hret _].
    rewrite (Inv_generate _ _ HI) in Hgen, Hret. rewrite Hgen, Hret. cbn [andb].
    apply (IH obs pts g); assumption.
  - apply andb_true_iff in Hc as [Hm Hc]. apply andb_true_iff in Hm as [_ Hm].
    unfold gobs_matches in Hm. apply andb_true_iff in Hm as [_ Hgen].
    rewrite (Inv_generate _ _ HI) in Hgen. rewrite Hgen. cbn [andb].
    apply (IH obs pts g); assumption.
Qed.

Lemma gen_sound_default ops : forall obs,
  positive (first_gen_value None ops) = true ->
  gen_corr gen_default ops obs = true -> gen_prop [] [] ops obs = true.
Proof.
  induction ops as [|op ops IH]; intros [|o obs] Hp Hc; cbn [gen_corr gen_prop] in *;
    try discriminate; [reflexivity|]. destruct op as [t v| |c]; cbn [negb andb] in Hc.
  - cbn [first_gen_value filter positive] in Hp. apply positive_qc in Hp.
    assert (HI : Inv [(t, qc v)] (gen_init (t, qc v))) by (apply Inv_init; exact Hp).
    change (gen_update gen_default (t, qc v)) with (gen_init (t, qc v), @None drawdown) in Hc.
    apply andb_true_iff in Hc as [Hm Hc]. unfold gobs_matches in Hm.
    apply andb_true_iff in Hm as [Hm Hgen]. apply andb_true_iff in Hm as [Hret _].
    rewrite (Inv_generate _ _ HI) in Hgen. cbn [app]. rewrite Hgen.
    destruct (go_ret o) eqn:Er; [discriminate|]. cbn [opt_list app].
    change (completed [(t, qc v)]) with (@nil drawdown). cbn [list_b andb].
    apply (gen_sound_run ops obs _ (gen_init (t, qc v))); [exact HI|reflexivity|exact Hc].
  - cbn [first_gen_value filter] in Hp.
    apply andb_true_iff in Hc as [Hm Hc]. unfold gobs_matches in Hm.
    apply andb_true_iff in Hm as [Hm Hgen]. apply andb_true_iff in Hm as [Hret _].
    change (gen_generate gen_default) with (@None drawdown) in *.
    change (current []) with (@None drawdown). rewrite Hret, Hgen. cbn [andb].
    apply IH; assumption.
  - cbn [first_gen_value filter] in Hp.
    apply andb_true_iff in Hc as [Hm Hc]. apply andb_true_iff in Hm as [_ Hm].
    unfold gobs_matches in Hm. apply andb_true_iff in Hm as [_ Hgen].
    change (gen_generate gen_default) with (@None drawdown) in *.
    change (current []) with (@None drawdown). rewrite Hgen. cbn [andb].
    apply IH; assumption.
Qed.

(* ---- Max / Mean ------------------------------------------------------------------------------- *)

Lemma max_run_is_first_max_f l : max_run None l = first_max_f l.
Proof.
  destruct l as [|d0 ds]; [reflexivity|].
  destruct (max_run_first_max d0 ds) as (d & Hd & Hf).
  change (max_run None (d0 :: ds)) with (max_run (Some d0) ds). rewrite Hd. symmetry.
  apply first_max_f_complete. exact Hf.
Qed.

Lemma max_sound {B} (cmp : drawdown -> B -> bool) l o :
  opt_b cmp (max_run None l) o = true -> opt_b cmp (first_max_f l) o = true.
Proof. rewrite max_run_is_first_max_f. exact (fun H => H). Qed.

Lemma mean_sound l o :
  opt_b mean_close (mg_mean (mean_run mean_default l)) o = true -> mean_ok l o = true.
Proof.
  destruct l as [|d0 ds].
  - cbn. destruct o; [discriminate|reflexivity].
  - assert (Hne : d0 :: ds <> []) by discriminate.
    destruct (mean_run_default _ Hne) as (m & Hm & Hmean).
    rewrite Hm. cbn [mg_mean opt_b]. destruct o as [[dep ms]|]; [|discriminate].
    unfold mean_close. cbn [fst snd mean_ok]. intros H. apply andb_true_iff in H as [Hd Hz].
    apply Z.eqb_eq in Hz. subst ms.
    rewrite <- (is_mean_of_depth _ _ Hne Hmean). rewrite Hd. cbn [andb].
    apply Z.leb_le. exact (proj2 Hmean).
Qed.

Lemma max_corr_sound ds : forall obs seen,
  max_corr (max_run None seen) ds obs = true -> max_prop seen ds obs = true.
Proof.
  induction ds as [|d ds IH]; intros [|o obs] seen H; cbn [max_corr max_prop] in *; try discriminate;
    [reflexivity|].
  rewrite <- max_run_snoc in H. apply andb_true_iff in H as [H H3]. apply andb_true_iff in H as [H1 H2].
  unfold max_ok. rewrite (max_sound _ _ _ H1), (max_sound _ _ _ H2). cbn [andb]. apply IH. exact H3.
Qed.

Lemma mean_corr_sound ds : forall obs seen,
  mean_corr (mean_run mean_default seen) ds obs = true -> mean_prop seen ds obs = true.
Proof.
  induction ds as [|d ds IH]; intros [|o obs] seen H; cbn [mean_corr mean_prop] in *; try discriminate;
    [reflexivity|].
  rewrite <- mean_run_snoc in H. apply andb_true_iff in H as [H H3]. apply andb_true_iff in H as [H1 H2].
  unfold meanstate_close in H1. apply andb_true_iff in H1 as [_ H1].
  rewrite (mean_sound _ _ H1), (mean_sound _ _ H2). cbn [andb]. apply IH. exact H3.
Qed.

(* ---- tear sheets ------------------------------------------------------------------------------ *)

Lemma sheet_sound x rest rep : (0 < snd x)%Qc ->
  report_close (snd (ts_generate (fold_left ts_update rest (ts_init x)))) rep = true ->
  sheet_ok (x :: rest) rep = true.
Proof.
  intros Hx. destruct (tearsheet_report x rest Hx) as (_ & _ & Hc & Hm & Hmx & _).
  cbv zeta in Hc, Hm, Hmx. unfold report_close, sheet_ok. destruct rep as [[c m] mx].
  rewrite Hc, Hm, Hmx. intros H. apply andb_true_iff in H as [H H3]. apply andb_true_iff in H as [H1 H2].
  rewrite H1, (mean_sound _ _ H2). unfold max_ok. rewrite (max_sound _ _ _ H3). reflexivity.
Qed.

Lemma sheet_sound_empty rep :
  report_close (snd (ts_generate ts_default)) rep = true -> sheet_ok [] rep = true.
Proof.
  destruct rep as [[c m] mx]. cbn. destruct c, m, mx; cbn; try discriminate; reflexivity.
Qed.

Lemma asset_sound ops : forall obs a x rest, (0 < snd x)%Qc ->
  a_ts a = fold_left ts_update rest (ts_init x) ->
  asset_corr a ops obs = true -> asset_prop (x :: rest) ops obs = true.
Proof.
  induction ops as [|op ops IH]; intros [|[orep st] obs] a x rest Hx Ha H;
    cbn [asset_corr asset_prop] in *; try discriminate; [reflexivity| |]; destruct op as [t tot fr| |c];
    cbn [asset_corr asset_prop] in *; try discriminate.
  - destruct orep as [[bal rep]|]; [discriminate|].
    apply andb_true_iff in H as [_ H]. rewrite <- app_comm_cons.
    apply (IH obs (asset_update a t (qc tot, qc fr))); [exact Hx| |exact H].
    cbn [asset_update a_ts fst]. rewrite Ha, ts_fold_snoc. reflexivity.
  - destruct orep as [[bal rep]|]; [|discriminate].
    unfold asset_generate in H. rewrite Ha in H.
    change (ts_generate (fold_left ts_update rest (ts_init x)))
      with (fold_left ts_update rest (ts_init x), snd (ts_generate (fold_left ts_update rest (ts_init x)))) in H.
    apply andb_true_iff in H as [H H4]. apply andb_true_iff in H as [H H3]. apply andb_true_iff in H as [_ H2].
    rewrite (sheet_sound x rest rep Hx H2). cbn [andb].
    apply (IH obs (mkATS (a_balance a) (fold_left ts_update rest (ts_init x)))); [exact Hx|reflexivity|exact H4].
  - destruct orep as [[bal rep]|]; [discriminate|].
    apply andb_true_iff in H as [_ H3]. apply (IH obs a x rest); [exact Hx|exact Ha|exact H3].
Qed.

Lemma inst_sound_run ops : forall obs s x rest, (0 < snd x)%Qc ->
  i_ts s = fold_left ts_update rest (ts_init x) ->
  inst_corr s ops obs = true -> inst_prop (i_pnl s) (x :: rest) ops obs = true.
Proof.
  induction ops as [|op ops IH]; intros [|[orep st] obs] s x rest Hx Hs H;
    cbn [inst_corr inst_prop] in *; try discriminate; [reflexivity| |]; destruct op as [t pnl| |c];
    cbn [inst_corr inst_prop] in *; try discriminate.
  - destruct orep as [[p rep]|]; [discriminate|].
    apply andb_true_iff in H as [_ H]. rewrite <- app_comm_cons.
    apply (IH obs (inst_update s t (qc pnl)) x (rest ++ [(t, (i_pnl s + qc pnl)%Qc)])); [exact Hx| |exact H].
    cbn [inst_update i_ts]. rewrite Hs, ts_fold_snoc. reflexivity.
  - destruct orep as [[p rep]|]; [|discriminate].
    unfold inst_generate in H. rewrite Hs in H.
    change (ts_generate (fold_left ts_update rest (ts_init x)))
      with (fold_left ts_update rest (ts_init x), snd (ts_generate (fold_left ts_update rest (ts_init x)))) in H.
    apply andb_true_iff in H as [H H4]. apply andb_true_iff in H as [H H3]. apply andb_true_iff in H as [_ H2].
    rewrite (sheet_sound x rest rep Hx H2). cbn [andb].
    apply (IH obs (mkITS (i_now s) (i_pnl s) (fold_left ts_update rest (ts_init x))) x rest);
      [exact Hx|reflexivity|exact H4].
  - destruct orep as [[p rep]|]; [discriminate|].
    apply andb_true_iff in H as [_ H3]. apply (IH obs s x rest); [exact Hx|exact Hs|exact H3].
Qed.

Lemma inst_sound_default ops : forall obs s,
  positive (first_inst_value ops) = true -> i_ts s = ts_default -> i_pnl s = 0%Qc ->
  inst_corr s ops obs = true -> inst_prop 0%Qc [] ops obs = true.
Proof.
  induction ops as [|op ops IH]; intros [|[orep st] obs] s Hp Hs Hraw H;
    cbn [inst_corr inst_prop] in *; try discriminate; [reflexivity| |]; destruct op as [t pnl| |c];
    cbn [inst_corr inst_prop] in *; try discriminate.
  - destruct orep as [[p rep]|]; [discriminate|].
    cbn [first_inst_value filter positive] in Hp. apply positive_qc in Hp.
    apply andb_true_iff in H as [_ H].
    assert (Hraw' : i_pnl (inst_update s t (qc pnl)) = (0 + qc pnl)%Qc).
    { cbn [inst_update i_pnl]. rewrite Hraw. reflexivity. }
    cbn [app].
    pose proof (inst_sound_run ops obs (inst_update s t (qc pnl)) (t, (0 + qc pnl)%Qc) []) as G.
    rewrite Hraw' in G. apply G.
    + cbn [snd]. rewrite Qcplus_0_l. exact Hp.
    + cbn [inst_update i_ts fold_left]. rewrite Hs, Hraw. reflexivity.
    + exact H.
  - destruct orep as [[p rep]|]; [|discriminate].
    cbn [first_inst_value filter] in Hp.
    unfold inst_generate in H. rewrite Hs in H.
    change (ts_generate ts_default) with (ts_default, snd (ts_generate ts_default)) in H.
    apply andb_true_iff in H as [H H4]. apply andb_true_iff in H as [H H3]. apply andb_true_iff in H as [_ H2].
    rewrite (sheet_sound_empty rep H2). cbn [andb].
    apply (IH obs (mkITS (i_now s) (i_pnl s) ts_default)); [exact Hp|reflexivity|exact Hraw|exact H4].
  - destruct orep as [[p rep]|]; [discriminate|].
    cbn [first_inst_value filter] in Hp.
    apply andb_true_iff in H as [_ H3]. apply (IH obs s); [exact Hp|exact Hs|exact Hraw|exact H3].
Qed.

Lemma sum_inst_sound t0 ops obs0 obs i :
  sum_inst_corr t0 ops obs0 obs i = true -> sum_inst_prop ops obs i = true.
Proof.
  unfold sum_inst_corr, sum_inst_prop. destruct (nth_error (fst obs0) i) as [st0|]; [|discriminate].
  destruct (proj_inst i ops obs) as [[po pb]|]; [|discriminate]. intros H.
  apply andb_true_iff in H as [H _]. apply andb_true_iff in H as [_ H].
  destruct (positive (first_inst_value po)) eqn:Hp; [|reflexivity].
  apply (inst_sound_default po pb (inst_init t0)); [exact Hp|reflexivity|reflexivity|exact H].
Qed.

Lemma sum_asset_sound starts ops obs0 obs j :
  sum_asset_corr starts ops obs0 obs j = true -> sum_asset_prop starts ops obs j = true.
Proof.
  unfold sum_asset_corr, sum_asset_prop. destruct (nth_error starts j) as [[[t tot] fr]|]; [|discriminate].
  destruct (nth_error (snd obs0) j) as [st0|]; [|discriminate].
  destruct (proj_asset j ops obs) as [[po pb]|]; [|discriminate]. intros H.
  apply andb_true_iff in H as [H _]. apply andb_true_iff in H as [_ H].
  destruct (positive (Some tot)) eqn:Hp; [|reflexivity]. cbn [positive] in Hp. apply positive_qc in Hp.
  apply (asset_sound po pb (asset_init t (qc tot, qc fr)) (t, qc tot) []); [exact Hp|reflexivity|exact H].
Qed.

Theorem oracle_sound c : in_scope c = true -> corr_b c = true -> prop_b c = true.
Proof.
  destruct c as [start ops obs0 obs|init ds rts chg obs0 obs|init ds rts chg obs0 obs|[[t tot] fr] ops obs0 obs|t0 ops obs0 obs|t0 n starts ops obs0 obs|sc w];
    cbn [in_scope corr_b prop_b]; intros Hs Hc.
  - apply andb_true_iff in Hc as [H0 Hc]. unfold gobs_matches in H0.
    apply andb_true_iff in H0 as [H0 Hg0]. apply andb_true_iff in H0 as [Hr0 _].
    destruct start as [[t v]|].
    + cbn [first_gen_value positive] in Hs. apply positive_qc in Hs.
      assert (HI : Inv [(t, qc v)] (gen_init (t, qc v))) by (apply Inv_init; exact Hs).
      cbn [gen_start] in *. rewrite (Inv_generate _ _ HI) in Hg0. rewrite Hr0, Hg0. cbn [andb].
      apply (gen_sound_run ops obs _ (gen_init (t, qc v))); [exact HI|reflexivity|exact Hc].
    + cbn [gen_start] in *. change (gen_generate gen_default) with (@None drawdown) in Hg0.
      change (current []) with (@None drawdown). rewrite Hr0, Hg0. cbn [andb].
      apply gen_sound_default; assumption.
  - apply andb_true_iff in Hc as [H0 Hc]. apply andb_true_iff in H0 as [H1 H2].
    apply andb_true_iff in H1 as [_ H1].
    assert (E : max_start init = max_run None (start_list init)) by (destruct init; reflexivity).
    rewrite E in *. unfold max_ok. rewrite (max_sound _ _ _ H1), (max_sound _ _ _ H2). cbn [andb].
    apply max_corr_sound. exact Hc.
  - apply andb_true_iff in Hc as [H0 Hc]. apply andb_true_iff in H0 as [H1 H2].
    apply andb_true_iff in H1 as [_ H1].
    assert (E : mean_start init = mean_run mean_default (start_list init)) by (destruct init; reflexivity).
    rewrite E in *. unfold meanstate_close in H1. apply andb_true_iff in H1 as [_ H1].
    rewrite (mean_sound _ _ H1), (mean_sound _ _ H2). cbn [andb].
    apply mean_corr_sound. exact Hc.
  - apply andb_true_iff in Hc as [_ Hc]. cbn [positive] in Hs. apply positive_qc in Hs.
    apply (asset_sound ops obs (asset_init t (qc tot, qc fr)) (t, qc tot) []); [exact Hs|reflexivity|exact Hc].
  - apply andb_true_iff in Hc as [_ Hc].
    apply (inst_sound_default ops obs (inst_init t0)); [exact Hs|reflexivity|reflexivity|exact Hc].
  - apply andb_true_iff in Hc as [Hc Ha]. apply andb_true_iff in Hc as [_ Hi].
    apply andb_true_iff. split; apply forallb_forall; intros k Hk.
    + rewrite forallb_forall in Hi. apply (sum_inst_sound t0 ops obs0). apply Hi. exact Hk.
    + rewrite forallb_forall in Ha. apply (sum_asset_sound starts ops obs0). apply Ha. exact Hk.
  - discriminate.
Qed.
