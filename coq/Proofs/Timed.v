(** Lemmas about Model/Timed.v (property C09). *)
From BV Require Import Model.Timed Proofs.Orders.
From Coq Require Import Lia ZifyBool Permutation.
Local Open Scope Z_scope.

(* ------------------------------------------------------------------------------------------ *)
(** * Registers: latest timestamp wins, for ANY delivery list *)

Section Register.
Context {V : Type}.
Implicit Types (d : Z * V) (ds l : list (Z * V)) (r : reg V).

Lemma seen_nonempty_some : forall r ds, r <> None -> seen r ds <> [].
Proof. intros [d|] ds H; simpl; congruence. Qed.

Lemma put_le_some : forall r d, put_le r d <> None.
Proof. intros [[t0 v0]|] d; simpl; [destruct (Z.leb t0 (fst d))|]; congruence. Qed.
Lemma put_lt_some : forall r d, put_lt r d <> None.
Proof. intros [[t0 v0]|] d; simpl; [destruct (Z.ltb t0 (fst d))|]; congruence. Qed.

Lemma in_split_bound : forall (P Q : Z -> Prop) l1 l2 (x y : Z * V) t,
  (forall u, P u -> u <= t) -> (forall u, Q u -> u <= t) -> fst y = t ->
  In x (l1 ++ y :: l2) -> Forall (fun d => P (fst d)) l1 -> Forall (fun d => Q (fst d)) l2 ->
  fst x <= t.
Proof.
  intros P Q l1 l2 x y t HP HQ Hy Hin H1 H2. apply in_app_or in Hin. destruct Hin as [Hin|[->|Hin]].
  - rewrite Forall_forall in H1. apply HP. apply (H1 x Hin).
  - lia.
  - rewrite Forall_forall in H2. apply HQ. apply (H2 x Hin).
Qed.

(** [<=] guard: the register ends with the LAST delivered among those with the greatest time *)
Theorem latest_wins_le : forall ds r0,
  seen r0 ds <> [] ->
  exists t v l1 l2,
    fold_left put_le ds r0 = Some (t, v) /\ seen r0 ds = l1 ++ (t, v) :: l2 /\
    Forall (fun d => fst d <= t) l1 /\ Forall (fun d => fst d < t) l2.
Proof.
  induction ds as [|d ds IH]; intros r0 Hne.
  - destruct r0 as [[t v]|]; simpl in *; [|congruence].
    exists t, v, [], []. repeat split; constructor.
  - simpl fold_left.
    destruct (IH (put_le r0 d) (seen_nonempty_some _ _ (put_le_some r0 d)))
      as [t [v [l1 [l2 [Hf [Hs [H1 H2]]]]]]].
    destruct r0 as [[t0 v0]|]; simpl in *.
    + revert Hf Hs. destruct (Z.leb_spec t0 (fst d)) as [Hle|Hgt]; intros Hf Hs; simpl in Hs.
      * exists t, v, ((t0, v0) :: l1), l2. rewrite Hf. repeat split; auto.
        -- rewrite Hs. reflexivity.
        -- constructor; auto. simpl.
           assert (fst d <= t).
           { apply (in_split_bound (fun u => u <= t) (fun u => u < t) l1 l2 d (t, v) t);
               auto; try (intros; lia). rewrite <- Hs. left. reflexivity. }
           lia.
      * destruct l1 as [|x l1]; simpl in Hs.
        -- inversion Hs; subst. exists t, v, [], (d :: l2). rewrite Hf.
           repeat split; auto; try (constructor; auto).
        -- inversion Hs; subst. exists t, v, ((t0, v0) :: d :: l1), l2.
           rewrite Hf. repeat split; auto.
           inversion H1; subst. simpl in *. constructor; [simpl; lia|].
           constructor; [lia|auto].
    + exists t, v, l1, l2. repeat split; auto.
Qed.

(** [<] guard: the register ends with the FIRST delivered among those with the greatest time *)
Theorem latest_wins_lt : forall ds r0,
  seen r0 ds <> [] ->
  exists t v l1 l2,
    fold_left put_lt ds r0 = Some (t, v) /\ seen r0 ds = l1 ++ (t, v) :: l2 /\
    Forall (fun d => fst d < t) l1 /\ Forall (fun d => fst d <= t) l2.
Proof.
  induction ds as [|d ds IH]; intros r0 Hne.
  - destruct r0 as [[t v]|]; simpl in *; [|congruence].
    exists t, v, [], []. repeat split; constructor.
  - simpl fold_left.
    destruct (IH (put_lt r0 d) (seen_nonempty_some _ _ (put_lt_some r0 d)))
      as [t [v [l1 [l2 [Hf [Hs [H1 H2]]]]]]].
    destruct r0 as [[t0 v0]|]; simpl in *.
    + revert Hf Hs. destruct (Z.ltb_spec t0 (fst d)) as [Hlt|Hge]; intros Hf Hs; simpl in Hs.
      * exists t, v, ((t0, v0) :: l1), l2. rewrite Hf. repeat split; auto.
        -- rewrite Hs. reflexivity.
        -- constructor; auto. simpl.
           assert (fst d <= t).
           { apply (in_split_bound (fun u => u < t) (fun u => u <= t) l1 l2 d (t, v) t);
               auto; try (intros; lia). rewrite <- Hs. left. reflexivity. }
           lia.
      * destruct l1 as [|x l1]; simpl in Hs.
        -- inversion Hs; subst. exists t, v, [], (d :: l2). rewrite Hf.
           repeat split; auto; try (constructor; auto).
        -- inversion Hs; subst. exists t, v, ((t0, v0) :: d :: l1), l2.
           rewrite Hf. repeat split; auto.
           inversion H1; subst. simpl in *. constructor; [simpl; lia|].
           constructor; [lia|auto].
    + exists t, v, l1, l2. repeat split; auto.
Qed.

(** what both say: the register holds the greatest delivered time with a value delivered with it *)
Definition is_latest (l : list (Z * V)) (r : reg V) : Prop :=
  match r with
  | None => l = []
  | Some (t, v) => In (t, v) l /\ Forall (fun d => fst d <= t) l
  end.

Lemma split_is_latest : forall l t v l1 l2 (P Q : Z -> Prop),
  l = l1 ++ (t, v) :: l2 ->
  (forall u, P u -> u <= t) -> (forall u, Q u -> u <= t) ->
  Forall (fun d => P (fst d)) l1 -> Forall (fun d => Q (fst d)) l2 ->
  is_latest l (Some (t, v)).
Proof.
  intros l t v l1 l2 P Q -> HP HQ H1 H2. simpl. split.
  - apply in_or_app. right. left. reflexivity.
  - apply Forall_forall. intros x Hx.
    apply (in_split_bound P Q l1 l2 x (t, v) t); auto.
Qed.

Theorem latest_le : forall ds r0, is_latest (seen r0 ds) (fold_left put_le ds r0).
Proof.
  intros ds r0. destruct (seen r0 ds) as [|x l] eqn:E.
  - destruct r0; simpl in E; [discriminate|]. subst. reflexivity.
  - destruct (latest_wins_le ds r0) as [t [v [l1 [l2 [Hf [Hs [H1 H2]]]]]]]; [congruence|].
    rewrite Hf, <- E.
    apply (split_is_latest _ t v l1 l2 (fun u => u <= t) (fun u => u < t)); auto; intros; lia.
Qed.

Theorem latest_lt : forall ds r0, is_latest (seen r0 ds) (fold_left put_lt ds r0).
Proof.
  intros ds r0. destruct (seen r0 ds) as [|x l] eqn:E.
  - destruct r0; simpl in E; [discriminate|]. subst. reflexivity.
  - destruct (latest_wins_lt ds r0) as [t [v [l1 [l2 [Hf [Hs [H1 H2]]]]]]]; [congruence|].
    rewrite Hf, <- E.
    apply (split_is_latest _ t v l1 l2 (fun u => u < t) (fun u => u <= t)); auto; intros; lia.
Qed.

(** an older message never overwrites newer state: one delivery ... *)
Lemma put_le_never_older : forall r d t0 v0 t v,
  r = Some (t0, v0) -> put_le r d = Some (t, v) -> t0 <= t.
Proof.
  intros r [td vd] t0 v0 t v -> H. simpl in H.
  destruct (Z.leb_spec t0 td); injection H as <- <-; lia.
Qed.
Lemma put_lt_never_older : forall r d t0 v0 t v,
  r = Some (t0, v0) -> put_lt r d = Some (t, v) -> t0 <= t.
Proof.
  intros r [td vd] t0 v0 t v -> H. simpl in H.
  destruct (Z.ltb_spec t0 td); injection H as <- <-; lia.
Qed.

(** ... and any number of them *)
Lemma fold_never_older : forall (put : reg V -> Z * V -> reg V),
  (forall r d t0 v0 t v, r = Some (t0, v0) -> put r d = Some (t, v) -> t0 <= t) ->
  (forall r d, put r d <> None) ->
  forall ds r0 t0 v0, r0 = Some (t0, v0) ->
  exists t v, fold_left put ds r0 = Some (t, v) /\ t0 <= t.
Proof.
  intros put Hmono Hsome. induction ds as [|d ds IH]; intros r0 t0 v0 H0; simpl.
  - exists t0, v0. split; [auto|lia].
  - destruct (put r0 d) as [[t1 v1]|] eqn:E; [|exfalso; apply (Hsome r0 d E)].
    assert (t0 <= t1) by (eapply Hmono; eauto).
    destruct (IH (Some (t1, v1)) t1 v1 eq_refl) as [t [v [Hf Hle]]].
    exists t, v. split; [auto|lia].
Qed.

(** the outcome does not depend on the delivery order or on duplicates: two delivery lists with
    the same messages end at the same timestamp, and at the same value when that timestamp was
    delivered with one value only *)
Lemma latest_time_unique : forall l l' r r',
  is_latest l r -> is_latest l' r' -> (forall d, In d l <-> In d l') ->
  option_map fst r = option_map fst r'.
Proof.
  intros l l' [[t v]|] [[t' v']|] H H' Hsame; simpl in *.
  - destruct H as [Hin Hall], H' as [Hin' Hall'].
    rewrite Forall_forall in Hall, Hall'.
    assert (t' <= t) by (apply (Hall (t', v')); apply Hsame; auto).
    assert (t <= t') by (apply (Hall' (t, v)); apply Hsame; auto).
    f_equal. lia.
  - subst l'. destruct H as [Hin _]. apply Hsame in Hin. destruct Hin.
  - subst l. destruct H' as [Hin _]. apply Hsame in Hin. destruct Hin.
  - reflexivity.
Qed.

Lemma latest_value_unique : forall l l' r r',
  is_latest l r -> is_latest l' r' -> (forall d, In d l <-> In d l') ->
  (forall t v v', In (t, v) l -> In (t, v') l -> v = v') ->
  r = r'.
Proof.
  intros l l' r r' H H' Hsame Hfun.
  pose proof (latest_time_unique l l' r r' H H' Hsame) as Ht.
  destruct r as [[t v]|], r' as [[t' v']|]; simpl in *; try discriminate; auto.
  injection Ht as <-. destruct H as [Hin _], H' as [Hin' _].
  apply Hsame in Hin'. rewrite (Hfun t v v' Hin Hin'). reflexivity.
Qed.

End Register.

(** a permutation of the deliveries, in particular *)
Lemma perm_same_elements : forall A (l l' : list A),
  Permutation l l' -> forall d, In d l <-> In d l'.
Proof.
  intros A l l' H d. split; intros Hin.
  - eapply Permutation_in; eauto.
  - eapply Permutation_in; [apply Permutation_sym|]; eauto.
Qed.

(* ------------------------------------------------------------------------------------------ *)
(** * The code's registers are these registers *)

Lemma update_from_balance_is_put_le : forall cur m,
  update_from_balance cur m = put_le cur (b_time m, b_val m).
Proof.
  intros [[t0 v0]|] m; simpl; [|reflexivity]. destruct (Z.leb t0 (b_time m)); reflexivity.
Qed.

Lemma trade_process_is_put_lt : forall d t p,
  md_last (market_process d t (MTrade (Some p))) = put_lt (md_last d) (t, p) /\
  md_l1 (market_process d t (MTrade (Some p))) = md_l1 d.
Proof.
  intros [b [[t0 v0]|]] t p; simpl; [|split; reflexivity].
  destruct (Z.ltb t0 t); split; reflexivity.
Qed.

Definition l1reg (d : mdata) : reg l1 := Some (lut (md_l1 d), md_l1 d).

Lemma l1_process_is_put_lt : forall d t b,
  lut b = t ->
  l1reg (market_process d t (ML1 b)) = put_lt (l1reg d) (t, b) /\
  md_last (market_process d t (ML1 b)) = md_last d.
Proof.
  intros d t b H. unfold l1reg. simpl.
  destruct (Z.ltb (lut (md_l1 d)) t); simpl; split; try reflexivity. rewrite H. reflexivity.
Qed.

Lemma mp_trade_none : forall d t, market_process d t (MTrade None) = d.
Proof. intros [b [[t0 v0]|]] t; simpl; [destruct (Z.ltb t0 t)|]; reflexivity. Qed.
Lemma mp_l1_last : forall d t b, md_last (market_process d t (ML1 b)) = md_last d.
Proof. intros [b0 r] t b; simpl. destruct (Z.ltb (lut b0) t); reflexivity. Qed.
Lemma mp_trade_l1 : forall d t p, md_l1 (market_process d t (MTrade p)) = md_l1 d.
Proof.
  intros [b [[t0 v0]|]] t [p|]; simpl; try reflexivity; destruct (Z.ltb t0 t); reflexivity.
Qed.

Lemma fupd_same : forall A (f : Z -> A) i v, fupd f i v i = v.
Proof. intros. unfold fupd. rewrite Z.eqb_refl. reflexivity. Qed.
Lemma fupd_other : forall A (f : Z -> A) i v j, j <> i -> fupd f i v j = f j.
Proof. intros A f i v j H. unfold fupd. destruct (Z.eqb_spec j i); [contradiction|reflexivity]. Qed.

(* ---- balances ------------------------------------------------------------------------------ *)

Lemma bal_step_proj : forall b m a,
  bal_step b m a = fold_left put_le (bal_of a m) (b a).
Proof.
  intros b m a. unfold bal_step, bal_of. destruct (Z.eqb_spec (b_asset m) a) as [E|E].
  - subst. rewrite fupd_same. simpl. apply update_from_balance_is_put_le.
  - rewrite fupd_other by congruence. reflexivity.
Qed.

Lemma bal_steps_proj : forall bals b a,
  fold_left bal_step bals b a = fold_left put_le (flat_map (bal_of a) bals) (b a).
Proof.
  induction bals as [|m bals IH]; intros b a; simpl; [reflexivity|].
  rewrite IH, fold_left_app, bal_step_proj. reflexivity.
Qed.

Theorem balance_projection : forall xs e a,
  e_bal (erun9 xs e) a = fold_left put_le (bal_deliveries a xs) (e_bal e a).
Proof.
  unfold erun9, bal_deliveries. induction xs as [|x xs IH]; intros e a; simpl; [reflexivity|].
  rewrite IH, fold_left_app. f_equal.
  destruct x as [m|bals insts|o|i t k]; simpl; auto.
  - apply bal_step_proj.
  - apply bal_steps_proj.
Qed.

(* ---- last traded price ------------------------------------------------------------------------ *)

Theorem trade_projection : forall xs e i,
  md_last (e_md (erun9 xs e) i) = fold_left put_lt (trade_deliveries i xs) (md_last (e_md e i)).
Proof.
  unfold erun9, trade_deliveries. induction xs as [|x xs IH]; intros e i; simpl; [reflexivity|].
  rewrite IH, fold_left_app. f_equal.
  destruct x as [m|bals insts|o|j t k]; simpl; auto.
  destruct (Z.eqb_spec j i) as [E|E].
  - subst. rewrite fupd_same. destruct k as [[p|]|b|]; cbn -[market_process put_lt].
    + exact (proj1 (trade_process_is_put_lt (e_md e i) t p)).
    + rewrite mp_trade_none. reflexivity.
    + rewrite mp_l1_last. reflexivity.
    + reflexivity.
  - rewrite fupd_other by congruence. destruct k as [[p|]|b|]; reflexivity.
Qed.

(* ---- top of book -------------------------------------------------------------------------------- *)

Theorem l1_projection : forall xs e i,
  l1_wf xs ->
  l1reg (e_md (erun9 xs e) i) = fold_left put_lt (l1_deliveries i xs) (l1reg (e_md e i)).
Proof.
  unfold erun9, l1_deliveries. induction xs as [|x xs IH]; intros e i Hwf; simpl; [reflexivity|].
  rewrite IH by (intros j t b H; apply (Hwf j t b); right; auto).
  rewrite fold_left_app. f_equal.
  destruct x as [m|bals insts|o|j t k]; simpl; auto.
  destruct (Z.eqb_spec j i) as [E|E].
  - subst. rewrite fupd_same. destruct k as [p|b|]; cbn -[market_process put_lt l1reg].
    + unfold l1reg. rewrite mp_trade_l1. reflexivity.
    + refine (proj1 (l1_process_is_put_lt (e_md e i) t b _)). apply (Hwf i t b). left. reflexivity.
    + reflexivity.
  - rewrite fupd_other by congruence. destruct k as [p|b|]; reflexivity.
Qed.

(* ---- open-order details --------------------------------------------------------------------------- *)

Lemma reports_at_for : forall i l, reports_at i l = reports_for i l.
Proof. reflexivity. Qed.

Lemma step_ext : forall s1 s2 o, (forall c, s1 c = s2 c) -> forall c, step s1 o c = step s2 o c.
Proof.
  intros s1 s2 o H c. destruct (Z.eq_dec (cid_of o) c) as [E|E].
  - subst c. apply step_local. apply H.
  - rewrite !step_frame by auto. apply H.
Qed.

Lemma run_ext : forall ops s1 s2, (forall c, s1 c = s2 c) -> forall c, run ops s1 c = run ops s2 c.
Proof.
  induction ops as [|o ops IH]; intros s1 s2 H c; simpl; [apply H|].
  apply IH. intros c'. apply step_ext. exact H.
Qed.

Lemma run_snaps : forall sns s, fold_left snapshot_step sns s = run (map Snap sns) s.
Proof. induction sns as [|sn sns IH]; intros s; simpl; [reflexivity|]. apply IH. Qed.

(** each instrument's orders see exactly the order inputs routed to it, in order *)
Theorem orders_projection : forall xs e i c,
  e_ord (erun9 xs e) i c = run (inst_inputs i xs) (e_ord e i) c.
Proof.
  unfold erun9, inst_inputs. induction xs as [|x xs IH]; intros e i c; simpl; [reflexivity|].
  rewrite IH, run_app. apply run_ext. intros c'.
  destruct x as [m|bals insts|o|j t k]; simpl; auto.
  - change (fold_left isnap_step insts (e_ord e)) with (estep (e_ord e) (EAcctSnapshot insts)).
    rewrite account_snapshot_per_instrument, run_snaps. reflexivity.
  - unfold eupd. rewrite (Z.eqb_sym (inst_of o) i).
    destruct (Z.eqb_spec i (inst_of o)) as [E|E]; simpl; [subst|]; reflexivity.
Qed.

Lemma run_local : forall ops s1 s2 c,
  Forall (fun o => cid_of o = c) ops -> s1 c = s2 c -> run ops s1 c = run ops s2 c.
Proof.
  induction ops as [|o ops IH]; intros s1 s2 c Hall H; simpl; [exact H|].
  inversion Hall as [|? ? Ho Hrest]; subst. apply IH; auto. apply step_local. exact H.
Qed.

(** ... and one id sees exactly the inputs addressed to it *)
Lemma run_filter : forall ops s c,
  run ops s c = run (filter (fun o => Z.eqb (cid_of o) c) ops) s c.
Proof.
  induction ops as [|o ops IH]; intros s c; simpl; [reflexivity|].
  destruct (Z.eqb_spec (cid_of o) c) as [E|E]; simpl.
  - apply IH.
  - rewrite IH. apply run_local.
    + apply Forall_forall. intros x Hx. apply filter_In in Hx. destruct Hx as [_ Hx].
      apply Z.eqb_eq. exact Hx.
    + apply step_frame. exact E.
Qed.

Theorem order_projection : forall xs e i c,
  e_ord (erun9 xs e) i c = run (ord_inputs i c xs) (e_ord e i) c.
Proof. intros. rewrite orders_projection, run_filter. reflexivity. Qed.

(** an open report with something left acts on the held open-order details as the [<=] register *)
Lemma open_report_is_put_le : forall s o d,
  open_report o = Some d -> oreg (step s o (cid_of o)) = put_le (oreg (s (cid_of o))) d.
Proof.
  intros s o d H. destruct o as [r|k|sn|k ok]; simpl in H; try discriminate.
  unfold cid_of. simpl. unfold snapshot_step, to_active.
  destruct (o_state sn) as [[|m|x]|i] eqn:Es; try discriminate.
  destruct (Z.eqb_spec (rem (o_qty sn) m) 0) as [E0|E0]; [discriminate|].
  injection H as <-.
  destruct (s (k_cid (o_key sn))) as [cur|] eqn:Ec; simpl.
  - destruct cur as [ck cs cp cq ckd ct [|cm|[cm|]]]; simpl;
      repeat match goal with
      | |- context [Z.eqb ?a ?b] => destruct (Z.eqb_spec a b); try contradiction
      | |- context [Z.leb ?a ?b] => destruct (Z.leb_spec a b)
      end; rewrite ?upd_same, ?Ec; simpl; try reflexivity; try lia.
  - destruct (Z.eqb_spec (rem (o_qty sn) m) 0); [contradiction|].
    rewrite upd_same. reflexivity.
Qed.

Lemma open_reports_fold : forall ops s c,
  Forall (fun o => cid_of o = c /\ open_report o <> None) ops ->
  oreg (run ops s c) = fold_left put_le (open_deliveries ops) (oreg (s c)).
Proof.
  unfold open_deliveries. induction ops as [|o ops IH]; intros s c Hall; simpl; [reflexivity|].
  inversion Hall as [|? ? [Hc Ho] Hrest]; subst.
  destruct (open_report o) as [d|] eqn:E; [|congruence].
  rewrite IH by auto. simpl. f_equal. apply open_report_is_put_le. exact E.
Qed.

(** while the reports about an id are open reports with something left, the open-order details
    the engine holds for it are the [<=] register over what those reports delivered *)
Theorem order_details_projection : forall xs e i c,
  Forall (fun o => open_report o <> None) (ord_inputs i c xs) ->
  oreg (e_ord (erun9 xs e) i c) =
  fold_left put_le (open_deliveries (ord_inputs i c xs)) (oreg (e_ord e i c)).
Proof.
  intros xs e i c H. rewrite order_projection. apply open_reports_fold.
  apply Forall_forall. intros o Ho. split.
  - unfold ord_inputs in Ho. apply filter_In in Ho. destruct Ho as [_ Ho]. apply Z.eqb_eq. exact Ho.
  - rewrite Forall_forall in H. apply H. exact Ho.
Qed.

(* ---- open-order details along a tracking episode (in-flight recordings interleaved) ------------- *)

Lemma ts_oreg : forall (s : orders) c, ts s c = option_map fst (oreg (s c)).
Proof.
  intros s c. unfold ts, oreg. destruct (s c) as [o|]; [|reflexivity].
  destruct (held (o_state o)); reflexivity.
Qed.

(** while an id stays tracked and no new open request for it is recorded, held open data is never
    dropped ... *)
Lemma details_not_dropped : forall s o c t,
  ts s c = Some t -> step s o c <> None ->
  (forall r, o = RecOpen r -> k_cid (o_key r) <> c) ->
  ts (step s o) c <> None.
Proof.
  intros s o c t Ht Hn Hno. destruct (Z.eq_dec (cid_of o) c) as [E|E].
  2:{ unfold ts in *. rewrite step_frame by auto. congruence. }
  subst c. unfold ts in *. destruct (s (cid_of o)) as [x|] eqn:Ex; [|discriminate].
  destruct x as [k sd p q kd tf st]. simpl in Ht.
  destruct o as [r|k0|sn|k0 ok]; unfold cid_of in *; simpl in *.
  - exfalso. apply (Hno r eq_refl). reflexivity.
  - unfold record_cancel_step in *. rewrite Ex in *. rewrite upd_same in *. simpl.
    destruct st as [|m|[m|]]; simpl in *; congruence.
  - revert Hn. unfold snapshot_step, to_active. rewrite Ex. simpl.
    destruct st as [|cm|[cm|]]; try discriminate;
      destruct (o_state sn) as [[|m|[um|]]|ist]; simpl;
      repeat break_match; rewrite ?upd_same, ?Ex; simpl; intros;
      repeat match goal with H : context [upd _ _ _ _] |- _ => rewrite upd_same in H end;
      try congruence;
      match goal with H : Some _ = Some _ |- _ => injection H as H; subst end; simpl in *; congruence.
  - revert Hn. unfold cancel_response_step. rewrite Ex. simpl.
    destruct st as [|cm|[cm|]]; try discriminate; destruct ok; simpl;
      repeat break_match; rewrite ?upd_same, ?Ex; simpl; intros;
      repeat match goal with H : context [upd _ _ _ _] |- _ => rewrite upd_same in H end;
      try congruence;
      match goal with H : Some _ = Some _ |- _ => injection H as H; subst end; simpl in *; congruence.
Qed.

(** ... and its exchange timestamp never decreases *)
Theorem details_persist : forall s o c t,
  ts s c = Some t -> step s o c <> None ->
  (forall r, o = RecOpen r -> k_cid (o_key r) <> c) ->
  exists t', ts (step s o) c = Some t' /\ t <= t'.
Proof.
  intros s o c t Ht Hn Hno.
  destruct (ts (step s o) c) as [t'|] eqn:E.
  - exists t'. split; [reflexivity|]. eapply step_ts_monotone; eauto.
  - exfalso. eapply details_not_dropped; eauto.
Qed.

(** an open report with something left and exchange time T leaves the id tracked with open data
    at least as recent as T, whatever was recorded in flight before *)
Theorem open_report_floor : forall s o T m,
  open_report o = Some (T, m) ->
  exists t', ts (step s o) (cid_of o) = Some t' /\ T <= t'.
Proof.
  intros s o T m H. rewrite ts_oreg, (open_report_is_put_le s o (T, m) H).
  destruct (oreg (s (cid_of o))) as [[t0 v0]|]; simpl.
  - destruct (Z.leb_spec t0 T); simpl; eexists; split; try reflexivity; lia.
  - eexists. split; [reflexivity|lia].
Qed.

(* ---- over-filled reports (filled > quantity: the remaining quantity is negative, not zero) -------- *)

Lemma overfilled_is_open_report : forall sn m,
  o_state sn = SA (Open m) -> rem (o_qty sn) m < 0 ->
  open_report (Snap sn) = Some (m_time m, m).
Proof.
  intros sn m Hs Hr. simpl. rewrite Hs. destruct (Z.eqb_spec (rem (o_qty sn) m) 0); [lia|reflexivity].
Qed.

Lemma open_report_tracked : forall s o d, open_report o = Some d -> step s o (cid_of o) <> None.
Proof.
  intros s o [T m] H Hn. destruct (open_report_floor s o T m H) as [t' [Ht' _]].
  unfold ts in Ht'. rewrite Hn in Ht'. discriminate.
Qed.

Lemma open_report_not_recopen : forall o d c,
  open_report o = Some d -> forall r, o = RecOpen r -> k_cid (o_key r) <> c.
Proof. intros o d c H r ->. discriminate. Qed.

(** any run of open reports (something left, or over-filled) about a tracked id that holds open
    data at least as recent as T leaves it tracked with data at least as recent as T: late
    reports never roll the held details back *)
Theorem open_reports_floor_run : forall ops s c T t0,
  ts s c = Some t0 -> T <= t0 ->
  Forall (fun o => cid_of o = c /\ open_report o <> None) ops ->
  exists t', ts (run ops s) c = Some t' /\ T <= t'.
Proof.
  induction ops as [|o ops IH]; intros s c T t0 Ht Hle Hall.
  - exists t0. split; assumption.
  - inversion Hall as [|? ? [Hc Ho] Hrest]; subst.
    destruct (open_report o) as [d|] eqn:E; [|congruence].
    destruct (details_persist s o (cid_of o) t0 Ht (open_report_tracked s o d E)
                (open_report_not_recopen o d _ E)) as [t1 [Ht1 Hle1]].
    simpl. apply (IH (step s o) (cid_of o) T t1); auto. lia.
Qed.

(** ... in particular after an over-filled report: the order stays tracked, and no later open
    report, however late it was produced, moves the held details before the over-filled one *)
Theorem overfilled_no_rollback : forall (s : orders) sn m ops,
  o_state sn = SA (Open m) -> rem (o_qty sn) m < 0 ->
  Forall (fun o => cid_of o = k_cid (o_key sn) /\ open_report o <> None) ops ->
  exists t', ts (run ops (step s (Snap sn))) (k_cid (o_key sn)) = Some t' /\ m_time m <= t'.
Proof.
  intros s sn m ops Hs Hr Hall.
  pose proof (overfilled_is_open_report sn m Hs Hr) as Ho.
  destruct (open_report_floor s (Snap sn) (m_time m) m Ho) as [t1 [Ht1 Hle1]].
  exact (open_reports_floor_run ops (step s (Snap sn)) _ (m_time m) t1 Ht1 Hle1 Hall).
Qed.

(** a non-empty run of open reports leaves the id tracked *)
Lemma open_reports_tracked : forall ops s c,
  ops <> [] -> Forall (fun o => cid_of o = c /\ open_report o <> None) ops ->
  run ops s c <> None.
Proof.
  induction ops as [|o ops IH]; intros s c Hne Hall; [congruence|].
  inversion Hall as [|? ? [Hc Ho] Hrest]; subst.
  destruct (open_report o) as [d|] eqn:E; [|congruence].
  destruct ops as [|o2 ops].
  - simpl. apply (open_report_tracked s o d E).
  - change (run (o :: o2 :: ops) s) with (run (o2 :: ops) (step s o)). apply IH; [discriminate|auto].
Qed.
