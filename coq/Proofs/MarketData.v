(** Lemmas about Model/MarketData.v: the invariant behind property C15. *)
From Coq Require Import Lia Lqa Setoid Qcanon Qcabs.
From BV Require Import Model.Position Model.MarketData Proofs.Position.
Open Scope Qc_scope.

Lemma irun_snoc h e : irun (h ++ [e]) = istep (irun h) e.
Proof. unfold irun. rewrite fold_left_app. reflexivity. Qed.
Lemma grun_snoc h e : grun (h ++ [e]) = gstep (grun h) e.
Proof. unfold grun. rewrite fold_left_app. reflexivity. Qed.
Lemma erun_snoc h e : erun (h ++ [e]) = estep (erun h) e.
Proof. unfold erun. rewrite fold_left_app. reflexivity. Qed.

(** the estimate only reads side, average entry price, quantity, max quantity and entry fees *)
Lemma estimate_update_pnl_u p pr r : estimate (update_pnl_u p pr) r = estimate p r.
Proof. reflexivity. Qed.

Lemma pnl_u_update_pnl_u p pr : p_pnl_u (update_pnl_u p pr) = estimate p pr.
Proof. reflexivity. Qed.

(** the "freshly opened" flag of the specification agrees with the arm the code takes *)
Definition flag (n s : Qc) : bool := Qc_eqb n 0 || crosses_strictly_b n s.

Lemma flag_arm i p f : good i (Some p) -> valid_fill i f ->
  match arm_of p f with
  | ArmIncrease | ArmReduce => flag (sq_pos p) (sq_fill f) = false
  | ArmFlip => flag (sq_pos p) (sq_fill f) = true
  | _ => True
  end.
Proof.
  intros [Hi [Hq Hm]] Hv. pose proof Hv as [_ Hfq].
  assert (Hn0 : Qc_eqb (sq_pos p) 0 = false).
  { destruct (Qc_eqb (sq_pos p) 0) eqn:E; [|reflexivity]. apply Qc_eqb_true in E.
    exfalso. unfold sq_pos in E. destruct (p_side p); qc_lin. }
  assert (Hcs : forall b, (crosses_strictly (sq_pos p) (sq_fill f) <-> b = true) ->
                     crosses_strictly_b (sq_pos p) (sq_fill f) = b).
  { intros b Hb. destruct (crosses_strictly_b (sq_pos p) (sq_fill f)) eqn:E.
    - apply crosses_strictly_b_true in E. symmetry. apply Hb, E.
    - destruct b; [|reflexivity]. assert (T : true = true) by reflexivity.
      apply Hb, crosses_strictly_b_true in T. congruence. }
  unfold flag. rewrite Hn0. cbn [orb].
  destruct (arm_cases i p f Hi Hv) as [[Hs Ha]|[[Hs [Hlt Ha]]|[[Hs [Hlt Ha]]|[Hs [Hlt Ha]]]]];
    rewrite Ha; try exact I; apply Hcs; unfold crosses_strictly, sq_pos, sq_fill.
  - rewrite <- Hs. split; [|discriminate].
    destruct (p_side p); intros [[A B]|[A B]]; exfalso; qc_lin.
  - split; [|discriminate].
    destruct (p_side p), (f_side f); try congruence; intros [[A B]|[A B]]; exfalso; qc_lin.
  - split; [reflexivity|intros _].
    destruct (p_side p), (f_side f); try congruence; [left|right]; split; qc_lin.
Qed.

(** the invariant tying the instrument state to what the history determines *)
Definition pos_inv (g : ghost) (c : pm) : Prop :=
  match c with
  | None => True
  | Some p =>
      exists r, g_ref g = Some r /\
      if g_fresh g
      then p_pnl_u p = 0 /\ r = p_avg p /\ p_qty p = p_qmax p
      else p_pnl_u p = estimate p r
  end.

Record inv (i : N) (s : istate) (g : ghost) : Prop := {
  iv_md : is_md s = g_md g;
  iv_good : good i (is_pos s);
  iv_net : sq_pm (is_pos s) = g_net g;
  iv_pos : pos_inv g (is_pos s) }.

Lemma inv_step i s g e : inv i s g -> valid_ievent i e -> inv i (istep s e) (gstep g e).
Proof.
  intros [Hmd Hg Hn Hp] Hv. destruct s as [c md]. cbn [is_md is_pos] in *. subst md.
  destruct e as [m|f]; cbn [istep gstep valid_ievent] in *.
  - (* market event *)
    unfold is_market. cbn [is_md is_pos].
    destruct c as [p|].
    + destruct (md_price (md_process (g_md g) m)) as [pr|] eqn:Epr.
      * constructor; cbn [is_md is_pos g_md g_net g_ref g_fresh pos_inv];
          [reflexivity|exact Hg|exact Hn|exists pr; split; reflexivity].
      * constructor; cbn [is_md is_pos g_md g_net g_ref g_fresh]; try reflexivity; assumption.
    + destruct (md_price (md_process (g_md g) m)); constructor;
        cbn [is_md is_pos g_md g_net pos_inv]; try reflexivity; try exact I; exact Hn.
  - (* fill *)
    unfold is_fill. cbn [fst is_md is_pos].
    constructor; cbn [is_md is_pos g_md g_net g_ref g_fresh].
    + reflexivity.
    + exact (step_good i c f Hg Hv).
    + rewrite (step_net i c f Hg Hv), Hn. reflexivity.
    + rewrite <- Hn. fold (flag (sq_pm c) (sq_fill f)).
      destruct c as [p|].
      * pose proof (flag_arm i p f Hg Hv) as Hf. cbn [sq_pm].
        destruct Hg as [Hi [Hq Hm]]. pose proof Hv as [_ Hfq].
        unfold pm_update, pos_update.
        destruct (arm_of p f) eqn:Ha; cbn [fst pos_inv].
        -- (* ignore: impossible for a valid fill *)
           exfalso. destruct (arm_cases i p f Hi Hv) as [[_ A]|[[_ [_ A]]|[[_ [_ A]]|[_ [_ A]]]]]; congruence.
        -- rewrite Hf. eexists. split; [reflexivity|]. reflexivity.
        -- rewrite Hf. eexists. split; [reflexivity|]. reflexivity.
        -- exact I.
        -- rewrite Hf. exists (f_price f). split; [reflexivity|]. repeat split; reflexivity.
      * unfold flag, sq_pm. cbn [pm_update fst pos_inv].
        assert (E : Qc_eqb 0 0 = true) by (apply Qc_eqb_true; reflexivity).
        rewrite E. cbn [orb]. exists (f_price f). split; [reflexivity|]. repeat split; reflexivity.
Qed.

Lemma inv_run i h : Forall (valid_ievent i) h -> inv i (irun h) (grun h).
Proof.
  induction h as [|e h IH] using rev_ind; intros Hv.
  - constructor; cbn; try reflexivity; exact I.
  - apply Forall_app in Hv. destruct Hv as [Hh He]. inversion He as [|? ? Hve _]; subst.
    rewrite irun_snoc, grun_snoc. apply inv_step; auto.
Qed.

(** main statement: outside the known class the unrealised PnL tracks the reference price *)
Lemma tracks_unless_fresh i h : Forall (valid_ievent i) h -> ~ fresh_open h -> tracks h.
Proof.
  intros Hv Hnf. destruct (inv_run i h Hv) as [_ _ _ Hp]. unfold tracks, fresh_open in *.
  destruct (is_pos (irun h)) as [p|]; [|exact I].
  destruct Hp as [r [Hr Hp]]. rewrite Hr.
  destruct (g_fresh (grun h)); [congruence|exact Hp].
Qed.

(** inside the known class: the stored value is 0 while the estimate at the fill price is
    minus the entry fees of the freshly opened position *)
Lemma fresh_open_value i h p : Forall (valid_ievent i) h -> fresh_open h ->
  is_pos (irun h) = Some p ->
  p_pnl_u p = 0 /\ g_ref (grun h) = Some (p_avg p) /\ estimate p (p_avg p) = - p_fin p.
Proof.
  intros Hv Hf Hpos. destruct (inv_run i h Hv) as [_ Hg _ Hp]. unfold fresh_open in Hf.
  rewrite Hpos in *. destruct Hp as [r [Hr Hp]]. rewrite Hf in Hp.
  destruct Hp as [H0 [Hr' Hq]]. subst r. split; [exact H0|]. split; [exact Hr|].
  destruct Hg as [_ [Hq0 Hm0]]. unfold estimate, calc_pnl_u, exit_fees. rewrite <- Hq.
  assert (p_qty p <> 0) by qc_lin. destruct (p_side p); field; assumption.
Qed.

(** the two sentences of the property as corollaries *)
Lemma refreshed_by_market i h m p pr : Forall (valid_ievent i) h ->
  is_pos (irun (h ++ [IMarket m])) = Some p ->
  md_price (is_md (irun (h ++ [IMarket m]))) = Some pr ->
  p_pnl_u p = estimate p pr.
Proof.
  intros Hv. rewrite irun_snoc. cbn [istep]. unfold is_market.
  destruct (is_pos (irun h)) as [q|]; [|discriminate].
  destruct (md_price (md_process (is_md (irun h)) m)) as [pr'|] eqn:E; cbn [is_pos is_md].
  - intros Hp Hpr. inversion Hp; subst p. rewrite E in Hpr. inversion Hpr; subst pr'. reflexivity.
  - intros _ Hpr. congruence.
Qed.

Lemma after_fill i h f p : Forall (valid_ievent i) h -> valid_fill i f ->
  ~ fresh_open (h ++ [IFill f]) ->
  is_pos (irun (h ++ [IFill f])) = Some p ->
  p_pnl_u p = estimate p (f_price f).
Proof.
  intros Hv Hf Hnf Hp.
  assert (Hv' : Forall (valid_ievent i) (h ++ [IFill f])).
  { apply Forall_app. split; [exact Hv|]. constructor; [exact Hf|constructor]. }
  pose proof (tracks_unless_fresh i _ Hv' Hnf) as T. unfold tracks in T.
  rewrite Hp in T. rewrite grun_snoc in T. cbn [gstep g_ref] in T. exact T.
Qed.

(* ---- engine level: instruments are independent ----------------------------------------------- *)

Lemma proj_snoc i h e :
  proj i (h ++ [e]) = (proj i h ++ (if N.eqb (route e) i then [payload e] else []))%list.
Proof. unfold proj. rewrite flat_map_app. cbn [flat_map]. rewrite app_nil_r. reflexivity. Qed.

Lemma erun_proj h : forall i, erun h i = irun (proj i h).
Proof.
  induction h as [|e h IH] using rev_ind; intros i; [reflexivity|].
  rewrite erun_snoc, proj_snoc. unfold estep, eupd.
  rewrite (N.eqb_sym i (route e)).
  destruct (N.eqb (route e) i) eqn:E.
  - apply N.eqb_eq in E. subst i. rewrite irun_snoc, IH. reflexivity.
  - rewrite app_nil_r. apply IH.
Qed.

Lemma valid_proj h i : Forall valid_eevent h -> Forall (valid_ievent i) (proj i h).
Proof.
  induction h as [|e h IH]; intros Hv; [constructor|].
  inversion Hv as [|? ? He Hh]; subst. unfold proj. cbn [flat_map]. fold (proj i h).
  destruct (N.eqb (route e) i) eqn:E; [|apply IH, Hh].
  apply Forall_app. split; [|apply IH, Hh]. constructor; [|constructor].
  apply N.eqb_eq in E. destruct e as [j m|f]; cbn [payload valid_ievent route valid_eevent] in *.
  - exact I.
  - split; [exact E|exact He].
Qed.

Lemma engine_tracks h i : Forall valid_eevent h -> ~ fresh_open (proj i h) ->
  match is_pos (erun h i), g_ref (grun (proj i h)) with
  | Some p, Some r => p_pnl_u p = estimate p r
  | _, _ => True
  end.
Proof.
  intros Hv Hnf. rewrite erun_proj.
  exact (tracks_unless_fresh i (proj i h) (valid_proj h i Hv) Hnf).
Qed.

Lemma engine_frame h e i : route e <> i -> erun (h ++ [e]) i = erun h i.
Proof.
  intros Hne. rewrite erun_snoc. unfold estep, eupd.
  destruct (N.eqb i (route e)) eqn:E; [|reflexivity]. apply N.eqb_eq in E. congruence.
Qed.

(* ---- price() is "latest wins per kind, top of book preferred" ------------------------------------ *)

Lemma md_run_snoc h e : md_run (h ++ [e]) = md_process (md_run h) e.
Proof. unfold md_run. rewrite fold_left_app. reflexivity. Qed.

Lemma l1_deliveries_snoc h e :
  l1_deliveries (h ++ [e]) = (l1_deliveries h ++ match e with ML1 t l => [(t, l)] | _ => [] end)%list.
Proof. unfold l1_deliveries. rewrite flat_map_app. cbn [flat_map]. rewrite app_nil_r. reflexivity. Qed.
Lemma trade_deliveries_snoc h e :
  trade_deliveries (h ++ [e]) =
  (trade_deliveries h ++ match e with MTrade t (Some p) => [(t, p)] | _ => [] end)%list.
Proof. unfold trade_deliveries. rewrite flat_map_app. cbn [flat_map]. rewrite app_nil_r. reflexivity. Qed.

Lemma is_latest_keep {V} (ds : list (Z * V)) d x :
  is_latest ds d -> (fst x <= fst d)%Z -> is_latest (ds ++ [x]) d.
Proof.
  intros [Hin Hmax] Hx. split; [apply in_or_app; left; exact Hin|].
  intros d' H. apply in_app_or in H. destruct H as [H|[H|[]]]; [apply Hmax, H|subst; exact Hx].
Qed.
Lemma is_latest_new {V} (ds : list (Z * V)) d x :
  is_latest ds d -> (fst d < fst x)%Z -> is_latest (ds ++ [x]) x.
Proof.
  intros [Hin Hmax] Hx. split; [apply in_or_app; right; left; reflexivity|].
  intros d' H. apply in_app_or in H. destruct H as [H|[H|[]]]; [specialize (Hmax _ H); lia|subst; lia].
Qed.

Definition md_latest (h : list mevent) (m : mdata) : Prop :=
  is_latest ((0%Z, l1_default) :: l1_deliveries h) (l1_time (md_l1 m), md_l1 m) /\
  match md_last m with
  | None => trade_deliveries h = []%list
  | Some d => is_latest (trade_deliveries h) d
  end.

Lemma md_run_latest h : Forall mevent_wf h -> md_latest h (md_run h).
Proof.
  induction h as [|e h IH] using rev_ind; intros Hwf.
  - split; [|reflexivity]. split; [left; reflexivity|]. intros d' [H|[]]. subst. cbn. lia.
  - apply Forall_app in Hwf. destruct Hwf as [Hh He]. inversion He as [|? ? Hwe _]; subst.
    destruct (IH Hh) as [HL HT]. rewrite md_run_snoc. set (m := md_run h) in *.
    unfold md_latest. rewrite l1_deliveries_snoc, trade_deliveries_snoc.
    destruct e as [t [p|]|t l|t]; cbn [md_process mevent_wf] in *.
    + (* priced trade *)
      destruct (md_last m) as [[t0 p0]|] eqn:El.
      * destruct (Z.ltb_spec t0 t) as [Hlt|Hge]; cbn [md_l1 md_last]; rewrite ?app_nil_r.
        -- split; [exact HL|]. apply (is_latest_new _ (t0, p0)); [exact HT|exact Hlt].
        -- rewrite El. split; [exact HL|]. apply is_latest_keep; [exact HT|exact Hge].
      * cbn [md_l1 md_last]. rewrite app_nil_r, HT. split; [exact HL|].
        split; [left; reflexivity|]. intros d' [H|[]]. subst. lia.
    + (* trade whose price does not convert *)
      rewrite !app_nil_r.
      destruct (match md_last m with Some (t0, _) => Z.ltb t0 t | None => true end); split; assumption.
    + (* top of book *)
      rewrite app_nil_r.
      destruct (Z.ltb_spec (l1_time (md_l1 m)) t) as [Hlt|Hge]; cbn [md_l1 md_last].
      * split; [|exact HT]. rewrite Hwe.
        change ((0%Z, l1_default) :: l1_deliveries h ++ [(t, l)])%list
          with (((0%Z, l1_default) :: l1_deliveries h) ++ [(t, l)])%list.
        apply (is_latest_new _ (l1_time (md_l1 m), md_l1 m)); [exact HL|exact Hlt].
      * split; [|exact HT].
        change ((0%Z, l1_default) :: l1_deliveries h ++ [(t, l)])%list
          with (((0%Z, l1_default) :: l1_deliveries h) ++ [(t, l)])%list.
        apply is_latest_keep; [exact HL|exact Hge].
    + rewrite !app_nil_r. split; assumption.
Qed.

(** price() of the data after any delivery list = reference price of a latest top-of-book update
    (the default book counting as time 0) and a latest priced trade *)
Lemma price_latest_wins h : Forall mevent_wf h ->
  exists l last,
    is_latest ((0%Z, l1_default) :: l1_deliveries h) (l1_time l, l) /\
    match last with
    | None => trade_deliveries h = []%list
    | Some d => is_latest (trade_deliveries h) d
    end /\
    md_price (md_run h) = ref_price l last.
Proof.
  intros Hwf. destruct (md_run_latest h Hwf) as [HL HT].
  exists (md_l1 (md_run h)), (md_last (md_run h)). split; [exact HL|]. split; [exact HT|].
  destruct (md_run h). reflexivity.
Qed.

(** fills never touch the market data *)
Lemma market_events_snoc h e :
  market_events (h ++ [e]) = (market_events h ++ match e with IMarket m => [m] | IFill _ => [] end)%list.
Proof. unfold market_events. rewrite flat_map_app. cbn [flat_map]. rewrite app_nil_r. reflexivity. Qed.

Lemma irun_md h : is_md (irun h) = md_run (market_events h).
Proof.
  induction h as [|e h IH] using rev_ind; [reflexivity|].
  rewrite irun_snoc, market_events_snoc. destruct e as [m|f]; cbn [istep].
  - rewrite md_run_snoc, <- IH. unfold is_market.
    destruct (is_pos (irun h)); [destruct (md_price _)|]; reflexivity.
  - rewrite app_nil_r. exact IH.
Qed.

(* ---- receive times never matter ------------------------------------------------------------------ *)

Lemma restamp_invariant h h' : same_modulo_received h h' -> srun h = srun h'.
Proof.
  intros H. unfold srun. f_equal. induction H as [|a b l l' Hab _ IH]; [reflexivity|].
  cbn [map]. rewrite Hab, IH. reflexivity.
Qed.

(** runs are invariant under inserting persist / restore steps *)
Lemma perun_restore_invariant h : perun h = srun (drop_restores h).
Proof.
  unfold perun, srun, erun. generalize (fun _ : N => is0).
  induction h as [|p h IH]; intros s; [reflexivity|].
  destruct p as [e|i]; cbn [fold_left pestep drop_restores flat_map app map]; apply IH.
Qed.
