(** C10: the oracle is no stricter than the model.
    [oracle_sound]: for EVERY case, if the model reproduces all observations ([corr_b c = true])
    then the observations satisfy the property oracle ([prop_b c = true]) - numbering and shape of
    the tick stream, terminal flags, engine sequence, the replica's accept / skip / reject rule and
    frame, the whole-stream run, and (on unperturbed streams whose processed part meets the input
    requirements, [wf_case]) the engine/replica simulation part, which is where the theorems of
    Proofs/Replica.v (Rst_step, marker_free_step, replica_step_next) enter.
    [rep_rule_sound] is the earlier stand-alone statement about the validation rule. *)
From Coq Require Import List ZArith NArith Bool Lia.
From BV Require Import Base.Common Model.Replica Proofs.Replica Corr.C10.
Import ListNotations.

(* ---- group 0: decidable equalities and the observed order lists ---------------------------- *)
Lemma meta_eqb_eq a b : meta_eqb a b = true -> a = b.
Proof.
  destruct a, b. unfold meta_eqb. cbn. intro H.
  apply andb_prop in H. destruct H as [H H3]. apply andb_prop in H. destruct H as [H1 H2].
  apply Z.eqb_eq in H1, H2, H3. congruence.
Qed.
Lemma meta_eqb_refl a : meta_eqb a a = true.
Proof. destruct a. unfold meta_eqb. cbn. now rewrite !Z.eqb_refl. Qed.

Lemma ostate_eqb_eq a b : ostate_eqb a b = true -> a = b.
Proof.
  destruct a as [|m|[m|]], b as [|m'|[m'|]]; cbn; intro H; try discriminate; try reflexivity;
    apply meta_eqb_eq in H; congruence.
Qed.
Lemma ostate_eqb_refl a : ostate_eqb a a = true.
Proof. destruct a as [|m|[m|]]; cbn; auto using meta_eqb_refl. Qed.

Lemma order_eqb_eq a b : order_eqb a b = true -> a = b.
Proof.
  destruct a, b. unfold order_eqb. cbn. intro H.
  apply andb_prop in H. destruct H as [H H3]. apply andb_prop in H. destruct H as [H1 H2].
  apply Z.eqb_eq in H1, H2. apply ostate_eqb_eq in H3. congruence.
Qed.
Lemma order_eqb_refl a : order_eqb a a = true.
Proof. destruct a. unfold order_eqb. cbn. now rewrite !Z.eqb_refl, ostate_eqb_refl. Qed.

Lemma oorder_eqb_eq (x y : option order) : option_eqb order_eqb x y = true -> x = y.
Proof. destruct x, y; cbn; intro H; try discriminate; auto. now apply order_eqb_eq in H; subst. Qed.
Lemma oorder_eqb_refl (x : option order) : option_eqb order_eqb x x = true.
Proof. destruct x; cbn; auto using order_eqb_refl. Qed.

Lemma okey_mem_In k l : okey_mem k l = true <-> In k l.
Proof.
  unfold okey_mem. rewrite existsb_exists. split.
  - intros (x & Hx & E). destruct (okey_eqb_spec k x); [now subst|discriminate].
  - intro H. exists k. split; [exact H|apply okey_eqb_refl].
Qed.

Lemma ofind_None m k : ofind m k = None <-> ~ In k (map fst m).
Proof.
  induction m as [|[k0 o] t IH]; cbn; [tauto|].
  destruct (okey_eqb_spec k0 k) as [E|E].
  - subst. split; [discriminate|]. intro H. elim H. now left.
  - rewrite IH. split; intro H; [intros [F|F]; [congruence|tauto]|tauto].
Qed.

Lemma ofind_Some_In m k o : ofind m k = Some o -> In (k, o) m.
Proof.
  induction m as [|[k0 o0] t IH]; cbn; [discriminate|].
  destruct (okey_eqb_spec k0 k) as [E|E].
  - intro H. injection H as <-. subst. now left.
  - intro H. right. auto.
Qed.

Lemma In_ofind_nodup m k o :
  keys_nodup (map fst m) = true -> In (k, o) m -> ofind m k = Some o.
Proof.
  induction m as [|[k0 o0] t IH]; cbn; [tauto|].
  intro H. apply andb_prop in H. destruct H as [H1 H2]. intros [E|I].
  - injection E as -> ->. now rewrite okey_eqb_refl.
  - destruct (okey_eqb_spec k0 k) as [E|E]; [|auto].
    subst k0. apply negb_true_iff in H1.
    assert (In k (map fst t)) by (apply in_map_iff; exists (k, o); auto).
    apply okey_mem_In in H. congruence.
Qed.

(** [omap_eqb] is extensional equality of the two maps *)
Lemma omap_eqb_ext m a : omap_eqb m a = true -> forall k, ofind m k = ofind a k.
Proof.
  unfold omap_eqb. intro H. apply andb_prop in H. destruct H as [_ H]. intro k.
  rewrite forallb_forall in H.
  destruct (in_dec (fun x y => match okey_eqb_spec x y with ReflectT _ e => left e | ReflectF _ n => right n end)
                   k (map fst m ++ map fst a)) as [I|I].
  - apply oorder_eqb_eq. auto.
  - assert (~ In k (map fst m) /\ ~ In k (map fst a)) as [I1 I2].
    { split; intro; apply I; apply in_or_app; auto. }
    apply ofind_None in I1, I2. congruence.
Qed.

Lemma omap_eqb_nodup m a : omap_eqb m a = true -> keys_nodup (map fst a) = true.
Proof. unfold omap_eqb. intro H. apply andb_prop in H. tauto. Qed.

Lemma omap_eqb_intro a b :
  keys_nodup (map fst b) = true -> (forall k, ofind a k = ofind b k) -> omap_eqb a b = true.
Proof.
  intros N E. unfold omap_eqb. rewrite N. cbn. apply forallb_forall. intros k _.
  rewrite E. apply oorder_eqb_refl.
Qed.

(** two observations of the same model map agree *)
Lemma omap_eqb_via m a b : omap_eqb m a = true -> omap_eqb m b = true -> omap_eqb a b = true.
Proof.
  intros Ha Hb. apply omap_eqb_intro; [exact (omap_eqb_nodup _ _ Hb)|].
  intro k. rewrite <- (omap_eqb_ext _ _ Ha k). apply (omap_eqb_ext _ _ Hb).
Qed.

(* ---- group 1: list_match ------------------------------------------------------------------------ *)
Lemma list_match_length {A B} (f : A -> B -> bool) l1 l2 :
  list_match f l1 l2 = true -> length l1 = length l2.
Proof.
  revert l2; induction l1 as [|x t IH]; intros [|y t2]; cbn; intro H; try discriminate; auto.
  apply andb_prop in H. f_equal. apply IH. tauto.
Qed.

Lemma list_match_app_l {A B} (f : A -> B -> bool) l1 x l2 :
  list_match f (l1 ++ [x]) l2 = true ->
  exists l2' y, l2 = l2' ++ [y] /\ list_match f l1 l2' = true /\ f x y = true.
Proof.
  revert l2; induction l1 as [|a t IH]; intros [|b t2]; cbn; intro H; try discriminate.
  - destruct t2; [|rewrite andb_false_r in H; discriminate].
    exists [], b. rewrite andb_true_r in H. auto.
  - apply andb_prop in H. destruct H as [H1 H2].
    destruct (IH _ H2) as (l2' & y & E & M & F). exists (b :: l2'), y. subst. cbn.
    rewrite H1, M. auto.
Qed.

Lemma list_match_nth {A B} (f : A -> B -> bool) l1 l2 k x :
  list_match f l1 l2 = true -> nth_error l1 k = Some x ->
  exists y, nth_error l2 k = Some y /\ f x y = true.
Proof.
  revert l2 k; induction l1 as [|a t IH]; intros [|b t2] k; cbn; intros H N; try discriminate;
    try (destruct k; discriminate).
  apply andb_prop in H. destruct H as [H1 H2]. destruct k; cbn in *.
  - injection N as <-. eauto.
  - eauto.
Qed.

Lemma list_eqb_N_refl l : list_eqb N.eqb l l = true.
Proof. induction l; cbn; auto. now rewrite N.eqb_refl. Qed.

(* ---- group 2: the model run behind a case ------------------------------------------------------- *)
Lemma derive_feed_fst bad hook f : forall st, map fst (derive_feed bad hook st f) = map fst f.
Proof. induction f as [|[e s] f IH]; intro st; cbn; [reflexivity|]. now rewrite IH. Qed.

Lemma model_run_spec md sinit tr0 bad hook pre feed :
  let m := model_run md sinit tr0 bad hook pre feed in
  exists e1 : engine unit,
    e_seq e1 = (fst (mr_snap m) + 1)%N /\ e_state e1 = snd (mr_snap m) /\
    map fst (mr_feed m) = map fst feed /\
    match md with
    | Manual => m_run_manual e1 (mr_feed m) = (mr_final m, mr_ticks m) /\
                mr_eng m = map Some (m_trace e1 (mr_feed m))
    | _ => m_run_loop e1 (mr_feed m) = (mr_final m, mr_ticks m) /\
           mr_eng m = repeat None (pred (length (mr_ticks m))) ++ [Some (mr_final m)]
    end.
Proof.
  unfold model_run, audit_snapshot.
  set (e_pre := fst (m_run_manual _ _)).
  set (e1 := mkEngine (e_state e_pre) (e_seq e_pre + 1)).
  set (feed' := derive_feed bad hook (e_state e1) feed).
  destruct md.
  - destruct (m_run_manual e1 feed') as [e2 ticks] eqn:H. cbn. exists e1.
    repeat split; auto. apply derive_feed_fst.
  - destruct (m_run_loop e1 feed') as [e2 ticks] eqn:H. cbn. exists e1.
    repeat split; auto. apply derive_feed_fst.
  - destruct (m_run_loop e1 feed') as [e2 ticks] eqn:H. cbn. exists e1.
    repeat split; auto. apply derive_feed_fst.
Qed.

Lemma tick_matches_spec t o :
  tick_matches t o = true ->
  fst t = t_seq o /\ is_process (snd t) = t_proc o /\ t_same o = true /\
  is_terminal (snd t) = t_term o /\ audit_errs (snd t) = t_errs o.
Proof.
  unfold tick_matches. intro H.
  repeat match goal with
         | H : (_ && _)%bool = true |- _ => apply andb_prop in H; destruct H
         end.
  repeat match goal with
         | H : N.eqb _ _ = true |- _ => apply N.eqb_eq in H
         | H : Bool.eqb _ _ = true |- _ => apply eqb_prop in H
         end. auto.
Qed.

Lemma ticks_seq_map mts ticks :
  list_match tick_matches mts ticks = true -> map t_seq ticks = map fst mts.
Proof.
  revert ticks; induction mts as [|t mts IH]; intros [|o ticks]; cbn; intro H; try discriminate; auto.
  apply andb_prop in H. destruct H as [H1 H2]. apply tick_matches_spec in H1.
  destruct H1 as [-> _]. f_equal. auto.
Qed.

Lemma numbering_ok mts ticks s :
  list_match tick_matches mts ticks = true -> map fst mts = seqN s (length mts) ->
  list_eqb N.eqb (map t_seq ticks) (seqN s (length ticks)) = true.
Proof.
  intros M E. rewrite (ticks_seq_map _ _ M), E, (list_match_length _ _ _ M).
  apply list_eqb_N_refl.
Qed.

(** what the k-th model tick of a run carries *)
Definition carries (f : list ev) (k0 : nat) (mts : list mtick) : Prop :=
  forall j t, nth_error mts j = Some t ->
    snd t = AFeedEnded \/
    exists errs o x, snd t = AProcess x errs o /\ nth_error f (k0 + j) = Some x.

Lemma run_manual_carries : forall (f : list (ev * script)) e e' ts,
  m_run_manual e f = (e', ts) -> carries (map fst f) 0 ts /\
  Forall (fun t => is_process (snd t) = true) ts.
Proof.
  induction f as [|[x sc] f IH]; intros e e' ts H; cbn [Replica.run_manual] in H.
  - injection H as <- <-. split; [|constructor]. intros [|j] t N; discriminate.
  - destruct (process_with_audit_spec unit unit u_z u_z u_p u_p e x sc) as (errs & o & Hp).
    rewrite Hp in H. destruct (m_run_manual _ f) as [e'' ts'] eqn:Hr. injection H as <- <-.
    destruct (IH _ _ _ Hr) as [C F]. split; [|constructor; [reflexivity|exact F]].
    intros [|j] t N; cbn in N.
    + injection N as <-. right. exists errs, o, x. split; reflexivity.
    + destruct (C j t N) as [E|(er & oo & y & E1 & E2)]; [now left|].
      right. exists er, oo, y. split; [exact E1|exact E2].
Qed.

Lemma run_loop_carries : forall (f : list (ev * script)) e e' ts,
  m_run_loop e f = (e', ts) -> carries (map fst f) 0 ts.
Proof.
  induction f as [|[x sc] f IH]; intros e e' ts H; cbn [Replica.run_loop] in H.
  - unfold audit_feed_ended in H. injection H as <- <-. intros [|[|j]] t N; try discriminate.
    injection N as <-. now left.
  - destruct (process_with_audit_spec unit unit u_z u_z u_p u_p e x sc) as (errs & o & Hp).
    rewrite Hp in H. cbn [snd] in H.
    assert (HD : forall t, (e_seq e, AProcess x errs o) = t ->
                 snd t = AFeedEnded \/
                 exists errs0 o0 x0, snd t = AProcess x0 errs0 o0 /\
                                     nth_error (map fst ((x, sc) :: f)) 0 = Some x0).
    { intros t <-. right. exists errs, o, x. split; reflexivity. }
    destruct (is_terminal (AProcess x errs o)).
    + injection H as <- <-. intros [|[|j]] t N; try discriminate. injection N as N. auto.
    + destruct (m_run_loop _ f) as [e'' ts'] eqn:Hr. injection H as <- <-.
      intros [|j] t N; cbn in N.
      * injection N as N. auto.
      * destruct (IH _ _ _ Hr j t N) as [E|(er & oo & y & E1 & E2)]; [now left|].
        right. exists er, oo, y. split; [exact E1|exact E2].
Qed.

Lemma carries_shift f k mts t : carries f k (t :: mts) -> carries f (S k) mts.
Proof. intros C j u N. specialize (C (S j) u N). now rewrite <- plus_n_Sm in C. Qed.

Lemma fed_is_shutdown_spec (feed : list (ev * strat)) k x :
  nth_error (map fst feed) k = Some x -> fed_is_shutdown feed k = is_shutdown x.
Proof.
  unfold fed_is_shutdown. rewrite nth_error_map. destruct (nth_error feed k) as [[y s]|]; cbn;
    [|discriminate]. intro H. injection H as ->. destruct x; reflexivity.
Qed.

Lemma terminal_flags_sound (feed : list (ev * strat)) : forall mts ticks k,
  list_match tick_matches mts ticks = true -> carries (map fst feed) k mts ->
  terminal_flags_ok feed k ticks = true.
Proof.
  induction mts as [|t mts IH]; intros [|o ticks] k M C; cbn in M; try discriminate; [reflexivity|].
  apply andb_prop in M. destruct M as [M1 M2]. cbn [terminal_flags_ok].
  rewrite (IH _ _ M2 (carries_shift _ _ _ _ C)), andb_true_r.
  apply tick_matches_spec in M1. destruct M1 as (_ & P & _ & T & E).
  rewrite <- P, <- T, <- E. destruct (C 0%nat t eq_refl) as [F|(errs & oo & x & F & N)]; rewrite F.
  - reflexivity.
  - rewrite Nat.add_0_r in N. rewrite (fed_is_shutdown_spec _ _ _ N). cbn.
    destruct (is_shutdown x), errs; reflexivity.
Qed.

(** shape of the observed stream *)
Lemma manual_shape_sound mts ticks n :
  list_match tick_matches mts ticks = true -> length mts = n ->
  Forall (fun t => is_process (snd t) = true) mts ->
  (Nat.eqb (length ticks) n && forallb (fun t => t_proc t && t_same t) ticks)%bool = true.
Proof.
  intros M L F. rewrite <- (list_match_length _ _ _ M), L, Nat.eqb_refl. cbn. clear L.
  revert ticks M. induction F as [|t mts Ht F IH]; intros [|o ticks] M; cbn in M; try discriminate;
    [reflexivity|].
  apply andb_prop in M. destruct M as [M1 M2]. cbn. rewrite (IH _ M2), andb_true_r.
  apply tick_matches_spec in M1. destruct M1 as (_ & P & S & _). now rewrite <- P, Ht, S.
Qed.

Lemma nonterminal_forall mts ticks :
  list_match tick_matches mts ticks = true ->
  Forall (fun t => is_terminal (snd t) = false) mts ->
  Forall (fun t => is_process (snd t) = true) mts ->
  forallb (fun t => t_proc t && t_same t && negb (t_term t)) ticks = true.
Proof.
  intros M F. revert ticks M. induction F as [|t mts Ht F IH]; intros [|o ticks] M G; cbn in M;
    try discriminate; [reflexivity|].
  apply andb_prop in M. destruct M as [M1 M2]. inversion G; subst. cbn.
  rewrite (IH _ M2) by assumption. rewrite andb_true_r.
  apply tick_matches_spec in M1. destruct M1 as (_ & P & S & T & _).
  rewrite <- P, <- T, Ht, S. now rewrite H1.
Qed.

Lemma loop_shape_sound (f : list (ev * script)) e e' mts ticks :
  m_run_loop e f = (e', mts) -> list_match tick_matches mts ticks = true ->
  match rev ticks with
  | [] => false
  | last :: _ =>
      forallb (fun t => t_proc t && t_same t && negb (t_term t)) (all_but_last ticks) &&
      t_term last &&
      (if t_proc last then t_same last && Nat.leb (length ticks) (length f)
       else Nat.eqb (length ticks) (S (length f)))
  end = true.
Proof.
  intros H M.
  destruct (run_loop_shape unit unit u_z u_z u_p u_p _ _ _ _ H)
    as (pre & last & E & Hpre & Hlast & Hc & Hd).
  subst mts. destruct (list_match_app_l _ _ _ _ M) as (tpre & tlast & -> & Mp & Ml).
  rewrite rev_unit. unfold all_but_last. rewrite removelast_last.
  assert (PP : Forall (fun t => is_process (snd t) = true) pre).
  { apply Forall_forall. intros t I. apply In_nth_error in I. destruct I as [j N].
    assert (NC : nth_error (map (fun t => carried (snd t)) pre) j = Some (carried (snd t)))
      by (rewrite nth_error_map, N; reflexivity).
    rewrite Hc, nth_error_map in NC. destruct (snd t); [|reflexivity].
    destruct (nth_error (firstn (length pre) (map fst f)) j); discriminate. }
  rewrite (nonterminal_forall _ _ Mp Hpre PP). cbn [andb].
  apply tick_matches_spec in Ml. destruct Ml as (_ & P & Sm & T & _).
  rewrite <- T, Hlast, <- P, Sm. cbn [andb].
  rewrite app_length. cbn [length]. rewrite <- (list_match_length _ _ _ Mp).
  destruct Hd as [[D1 D2]|(x & D1 & D2)].
  - rewrite D1. cbn. rewrite D2. replace (length f + 1)%nat with (S (length f)) by lia.
    apply Nat.eqb_refl.
  - destruct (snd last); [discriminate|]. cbn.
    assert (length pre < length (map fst f))%nat by (apply nth_error_Some; congruence).
    rewrite map_length in H0. apply Nat.leb_le. lia.
Qed.

(* ---- group 3: the observed engines ---------------------------------------------------------------- *)
Lemma eng_matches_Some e o :
  eng_matches (Some e) o = true ->
  exists x, o = Some x /\ e_seq e = eo_seq x /\ trading (e_state e) = eo_trading x /\
            omap_eqb (orders (e_state e)) (eo_orders x) = true.
Proof.
  destruct o as [x|]; cbn; [|discriminate]. intro H.
  apply andb_prop in H. destruct H as [H H3]. apply andb_prop in H. destruct H as [H1 H2].
  apply N.eqb_eq in H1. apply eqb_prop in H2. eauto.
Qed.

Lemma eng_matches_None o : eng_matches None o = true -> o = None.
Proof. destruct o; cbn; [discriminate|reflexivity]. Qed.

Lemma manual_eng_sound : forall (f : list (ev * script)) e e' mts ticks engs,
  m_run_manual e f = (e', mts) ->
  list_match tick_matches mts ticks = true ->
  list_match eng_matches (map Some (m_trace e f)) engs = true ->
  length engs = length ticks /\ eng_seq_ok ticks engs = true.
Proof.
  induction f as [|[x sc] f IH]; intros e e' mts ticks engs H M G; cbn [Replica.run_manual] in H.
  - injection H as <- <-. destruct ticks; [|discriminate]. destruct engs; [|discriminate]. auto.
  - cbn [m_trace map] in G.
    destruct (process_with_audit_spec unit unit u_z u_z u_p u_p e x sc) as (errs & o & Hp).
    rewrite Hp in H, G. cbn [fst] in G.
    destruct (m_run_manual _ f) as [e'' ts'] eqn:Hr. injection H as <- <-.
    destruct ticks as [|t ticks]; [discriminate|]. destruct engs as [|g engs]; [discriminate|].
    cbn [list_match] in M, G. apply andb_prop in M. destruct M as [M1 M2].
    apply andb_prop in G. destruct G as [G1 G2].
    destruct (IH _ _ _ _ _ Hr M2 G2) as [L S]. split; [cbn; now rewrite L|].
    unfold eng_seq_ok in *. cbn. rewrite S, andb_true_r.
    apply eng_matches_Some in G1. destruct G1 as (y & -> & Q & _).
    apply tick_matches_spec in M1. destruct M1 as (T & _). cbn in Q, T.
    rewrite <- Q, <- T. apply N.eqb_refl.
Qed.

Lemma loop_eng_shape (e2 : engine unit) : forall ticks engs s,
  map t_seq ticks = seqN s (length ticks) -> ticks <> [] ->
  e_seq e2 = (s + N.of_nat (length ticks))%N ->
  list_match eng_matches (repeat None (pred (length ticks)) ++ [Some e2]) engs = true ->
  length engs = length ticks /\ eng_seq_ok ticks engs = true.
Proof.
  induction ticks as [|t ticks IH]; intros engs s Q NE E G; [congruence|].
  cbn [map length seqN] in Q. injection Q as Q1 Q2.
  destruct ticks as [|t2 ticks].
  - cbn in G. destruct engs as [|g [|g2 engs]]; try discriminate;
      [|cbn in G; rewrite andb_false_r in G; discriminate].
    cbn in G. rewrite andb_true_r in G. apply eng_matches_Some in G.
    destruct G as (y & -> & Qy & _). split; [reflexivity|].
    unfold eng_seq_ok. cbn. rewrite andb_true_r, <- Qy, E, Q1. cbn.
    replace (s + 1)%N with (s + 1)%N by lia. apply N.eqb_eq. lia.
  - cbn [length pred repeat app] in G. destruct engs as [|g engs]; [discriminate|].
    cbn [list_match] in G. apply andb_prop in G. destruct G as [G1 G2].
    apply eng_matches_None in G1. subst g.
    destruct (IH engs (s + 1)%N Q2 ltac:(discriminate)) as [L S].
    + rewrite E. cbn [length]. lia.
    + exact G2.
    + split; [cbn [length]; now rewrite L|]. unfold eng_seq_ok in *. cbn [list_match]. exact S.
Qed.

Lemma loop_eng_sound (f : list (ev * script)) e e2 mts ticks engs :
  m_run_loop e f = (e2, mts) ->
  list_match tick_matches mts ticks = true ->
  list_match eng_matches (repeat None (pred (length mts)) ++ [Some e2]) engs = true ->
  length engs = length ticks /\ eng_seq_ok ticks engs = true.
Proof.
  intros H M G.
  destruct (run_loop_numbering unit unit u_z u_z u_p u_p _ _ _ _ H) as [N1 N2].
  destruct (run_loop_shape unit unit u_z u_z u_p u_p _ _ _ _ H) as (pre & last & E & _).
  pose proof (list_match_length _ _ _ M) as L. rewrite L in G.
  apply (loop_eng_shape e2 ticks engs (e_seq e)).
  - rewrite (ticks_seq_map _ _ M), N1, L. reflexivity.
  - intro Z. subst ticks. subst mts. rewrite app_length in L. cbn in L. lia.
  - rewrite N2, L. reflexivity.
  - exact G.
Qed.

(* ---- group 4: the replica fed tick by tick ----------------------------------------------------------- *)
Definition ok_flag (res : rres) : bool := match res with RErr => false | _ => true end.
Definition unch_flag (res : rres) : bool := match res with RApplied => false | _ => true end.

Lemma rep_matches_cons r t w fed o os :
  rep_matches r ((t, w) :: fed) (o :: os) = true ->
  forall r' res, m_replica_step r t = (r', res) ->
  fst t = ro_fseq o /\ is_process (snd t) = ro_fproc o /\ ok_flag res = ro_ok o /\
  r_seq r' = ro_seq o /\ trading (r_state r') = ro_trading o /\
  omap_eqb (orders (r_state r')) (ro_orders o) = true /\ unch_flag res = ro_unchanged o /\
  match ro_cmp o with Some c => (w && cmp_all c)%bool | None => negb w end = true /\
  rep_matches r' fed os = true.
Proof.
  cbn [rep_matches]. intros H r' res E. rewrite E in H.
  repeat match goal with
         | H : (_ && _)%bool = true |- _ => apply andb_prop in H; destruct H
         end.
  repeat match goal with
         | H : N.eqb _ _ = true |- _ => apply N.eqb_eq in H
         | H : Bool.eqb _ _ = true |- _ => apply eqb_prop in H
         end.
  unfold ok_flag, unch_flag. repeat split; auto.
Qed.

Lemma rep_matches_nil_l r reps : rep_matches r [] reps = true -> reps = [].
Proof. destruct reps; cbn; [reflexivity|discriminate]. Qed.

Lemma rep_matches_cons_inv r t w fed reps :
  rep_matches r ((t, w) :: fed) reps = true -> exists o os, reps = o :: os.
Proof. destruct reps; cbn; [discriminate|eauto]. Qed.

Lemma rep_rule_from_matches : forall fed r reps,
  rep_matches r fed reps = true -> rep_rule_ok (r_seq r) reps = true.
Proof.
  induction fed as [|[t w] fed IH]; intros r reps H.
  - apply rep_matches_nil_l in H. now subst.
  - destruct (rep_matches_cons_inv _ _ _ _ _ H) as (o & os & ->).
    destruct (m_replica_step r t) as [r' res] eqn:E.
    destruct (rep_matches_cons _ _ _ _ _ _ H _ _ E) as (F1 & F2 & F3 & F4 & _ & _ & F7 & _ & R).
    specialize (IH _ _ R). cbn [rep_rule_ok]. rewrite <- F1, <- F2, <- F3, <- F4, <- F7.
    unfold Replica.replica_step in E. destruct t as [s a]. cbn [fst snd] in *.
    destruct a as [|x errs oo]; cbn [is_process negb].
    + injection E as <- <-. cbn. now rewrite N.eqb_refl, IH.
    + destruct (N.leb_spec s (r_seq r)) as [L|L].
      * injection E as <- <-. cbn. now rewrite N.eqb_refl, IH.
      * destruct (N.eqb_spec (r_seq r) (s - 1)) as [Q|Q]; cbn [negb] in E; injection E as <- <-.
        -- destruct (N.eqb_spec s (r_seq r + 1)); [|lia]. cbn [ok_flag unch_flag negb andb r_seq] in *.
           now rewrite N.eqb_refl, IH.
        -- destruct (N.eqb_spec s (r_seq r + 1)); [lia|]. cbn. now rewrite N.eqb_refl, IH.
Qed.

Lemma unch_same_replica r t r' res :
  m_replica_step r t = (r', res) -> unch_flag res = true -> r' = r.
Proof.
  intros E U. pose proof (replica_step_seq unit unit u_z u_z u_p u_p _ _ _ _ E) as Q.
  destruct res; try exact Q. discriminate.
Qed.

Lemma rep_frame_from_matches : forall fed r reps ptr po,
  rep_matches r fed reps = true -> ptr = trading (r_state r) ->
  omap_eqb (orders (r_state r)) po = true -> rep_frame_ok ptr po reps = true.
Proof.
  induction fed as [|[t w] fed IH]; intros r reps ptr po H T O.
  - apply rep_matches_nil_l in H. now subst.
  - destruct (rep_matches_cons_inv _ _ _ _ _ H) as (o & os & ->).
    destruct (m_replica_step r t) as [r' res] eqn:E.
    destruct (rep_matches_cons _ _ _ _ _ _ H _ _ E) as (_ & _ & _ & _ & F5 & F6 & F7 & _ & R).
    cbn [rep_frame_ok]. rewrite (IH _ _ _ _ R (eq_sym F5) F6), andb_true_r.
    destruct (ro_unchanged o) eqn:U; [|reflexivity].
    assert (U' : unch_flag res = true) by congruence.
    pose proof (unch_same_replica _ _ _ _ E U') as ->.
    rewrite <- F5, T, Bool.eqb_reflx. cbn.
    now rewrite (omap_eqb_via _ _ _ O F6), (omap_eqb_via _ _ _ F6 O).
Qed.

(* ---- group 5: StateReplicaManager::run over the whole fed stream ---------------------------------- *)
Lemma In_firstn {A} n (l : list A) x : In x (firstn n l) -> In x l.
Proof. intro H. rewrite <- (firstn_skipn n l). apply in_or_app. now left. Qed.
Lemma In_skipn {A} n (l : list A) x : In x (skipn n l) -> In x l.
Proof. intro H. rewrite <- (firstn_skipn n l). apply in_or_app. now right. Qed.

Lemma perturb_list_In {A} p (l : list A) x : In x (perturb_list p l) -> In x l.
Proof.
  destruct p as [|i|i|i|i|i n|i]; cbn [perturb_list]; intro H; auto.
  - apply in_app_or in H. destruct H; [eapply In_firstn|eapply In_skipn]; eauto.
  - apply in_app_or in H. destruct H; [eapply In_firstn|eapply In_skipn]; eauto.
  - destruct (skipn (N.to_nat i) l) as [|a [|b r]] eqn:E; auto.
    apply in_app_or in H. destruct H as [H|H]; [eapply In_firstn; eauto|].
    apply (In_skipn (N.to_nat i)). rewrite E. cbn in *. tauto.
  - destruct (nth_error l (N.to_nat i)) eqn:E; auto.
    apply in_app_or in H. destruct H as [H|[<-|[]]]; auto. eapply nth_error_In; eauto.
  - apply in_app_or in H. destruct H as [H|H]; auto.
    eapply In_skipn, In_firstn; eauto.
  - assert (D : forall y, In y (firstn (S (N.to_nat i)) l ++ skipn (N.to_nat i) l) -> In y l).
    { intros y Hy. apply in_app_or in Hy. destruct Hy; [eapply In_firstn|eapply In_skipn]; eauto. }
    apply D. apply in_app_or in H. destruct H; [eapply In_firstn|eapply In_skipn]; eauto.
Qed.

Lemma seqN_ge s n x : In x (seqN s n) -> (s <= x)%N.
Proof.
  revert s; induction n; intros s H; cbn in H; [tauto|].
  destruct H as [<-|H]; [lia|]. apply IHn in H. lia.
Qed.
Lemma seqN_NoDup s n : NoDup (seqN s n).
Proof.
  revert s; induction n; intro s; cbn; constructor; auto.
  intro H. apply seqN_ge in H. lia.
Qed.

Lemma term_of_notin ticks s : ~ In s (map t_seq ticks) -> term_of ticks s = false.
Proof.
  unfold term_of. induction ticks as [|o ticks IH]; cbn; intro H; [reflexivity|].
  rewrite IH by tauto. destruct (N.eqb_spec (t_seq o) s); [elim H; auto|reflexivity].
Qed.

Lemma term_of_spec : forall mts ticks t,
  list_match tick_matches mts ticks = true -> NoDup (map fst mts) -> In t mts ->
  term_of ticks (fst t) = is_terminal (snd t).
Proof.
  induction mts as [|m mts IH]; intros [|o ticks] t M ND I; cbn in M; try discriminate; [destruct I|].
  apply andb_prop in M. destruct M as [M1 M2]. cbn [map] in ND. inversion ND as [|? ? NI ND']; subst.
  pose proof (ticks_seq_map _ _ M2) as SM.
  apply tick_matches_spec in M1. destruct M1 as (Q & _ & _ & T & _).
  unfold term_of. cbn [existsb]. fold (term_of ticks (fst t)). destruct I as [->|I].
  - rewrite <- Q, N.eqb_refl, <- T. cbn. rewrite term_of_notin by (rewrite SM; exact NI).
    now rewrite orb_false_r.
  - rewrite (IH _ _ M2 ND' I). destruct (N.eqb_spec (t_seq o) (fst t)) as [E|E]; [|reflexivity].
    elim NI. rewrite Q, E. now apply in_map.
Qed.

Definition term_consistent (ticks : list tobs) (fed : list (mtick * bool)) : Prop :=
  forall t w, In (t, w) fed -> term_of ticks (fst t) = is_terminal (snd t).

Lemma term_consistent_tl ticks x fed : term_consistent ticks (x :: fed) -> term_consistent ticks fed.
Proof. intros H t w I. apply (H t w). now right. Qed.

Definition matches_replica (rw : replica unit) (o : robs) : Prop :=
  r_seq rw = ro_seq o /\ trading (r_state rw) = ro_trading o /\
  omap_eqb (orders (r_state rw)) (ro_orders o) = true.

Lemma whole_walk_sound ticks : forall fed r reps,
  rep_matches r fed reps = true -> term_consistent ticks fed ->
  forall n ok rw okm,
  whole_walk ticks (r_seq r) reps = (n, ok) -> m_replica_run r (map fst fed) = (rw, okm) ->
  ok = okm /\
  match n with
  | O => rw = r
  | S k => exists o, nth_error reps k = Some o /\ matches_replica rw o
  end.
Proof.
  induction fed as [|[t w] fed IH]; intros r reps H TC n ok rw okm W R.
  - apply rep_matches_nil_l in H. subst. cbn in W, R. injection W as <- <-. injection R as <- <-. auto.
  - destruct (rep_matches_cons_inv _ _ _ _ _ H) as (o & os & ->).
    destruct (m_replica_step r t) as [r' res] eqn:E.
    destruct (rep_matches_cons _ _ _ _ _ _ H _ _ E) as (F1 & F2 & F3 & F4 & F5 & F6 & F7 & _ & RM).
    assert (MO : matches_replica r' o) by (repeat split; auto).
    pose proof (TC t w (or_introl eq_refl)) as TT.
    specialize (IH _ _ RM (term_consistent_tl _ _ _ TC)).
    cbn [map fst Replica.replica_run] in R. rewrite E in R.
    cbn [whole_walk] in W. rewrite <- F1, <- F2 in W.
    unfold Replica.replica_step in E. destruct t as [s a]. cbn [fst snd] in *.
    destruct a as [|x errs oo]; cbn [is_process negb] in W.
    + injection E as <- <-. injection W as <- <-. injection R as <- <-. split; [reflexivity|].
      exists o. split; [reflexivity|exact MO].
    + destruct (N.leb_spec s (r_seq r)) as [L|L].
      * injection E as <- <-.
        destruct (whole_walk ticks (r_seq r) os) as [n' ok'] eqn:W'. injection W as <- <-.
        destruct (IH _ _ _ _ eq_refl R) as [I1 I2]. split; [exact I1|].
        destruct n' as [|k]; [subst rw; exists o; split; [reflexivity|exact MO]|exact I2].
      * destruct (N.eqb_spec (r_seq r) (s - 1)) as [Q|Q]; cbn [negb] in E; injection E as <- <-.
        -- destruct (N.eqb_spec s (r_seq r + 1)); [|lia]. rewrite TT in W.
           destruct (is_terminal (AProcess x errs oo)).
           ++ injection W as <- <-. injection R as <- <-. split; [reflexivity|].
              exists o. split; [reflexivity|exact MO].
           ++ destruct (whole_walk ticks s os) as [n' ok'] eqn:W'. injection W as <- <-.
              destruct (IH _ _ _ _ W' R) as [I1 I2]. split; [exact I1|].
              destruct n' as [|k]; [subst rw; exists o; split; [reflexivity|exact MO]|exact I2].
        -- destruct (N.eqb_spec s (r_seq r + 1)); [lia|].
           injection W as <- <-. injection R as <- <-. split; [reflexivity|].
           exists o. split; [reflexivity|exact MO].
Qed.

(* ---- group 6: the simulation part ---------------------------------------------------------------------- *)
Notation m_step_ok := (step_ok unit unit u_z u_z u_p u_p).
Definition flag (e : option (engine unit)) : bool := match e with Some _ => true | None => false end.

Lemma proj_fix_open (o : order) : proj (Some o) = Some o -> exists m, o_st o = Open m.
Proof.
  destruct o as [sf q [|m|[m|]]]; cbn; intro H; try discriminate; eauto.
Qed.

Lemma no_markers_marker_free m a :
  omap_eqb m a = true -> no_markers a = true -> marker_free m.
Proof.
  intros E N k. rewrite (omap_eqb_ext _ _ E k). destruct (ofind a k) as [o|] eqn:F; [|reflexivity].
  apply ofind_Some_In in F. unfold no_markers in N. rewrite forallb_forall in N.
  specialize (N _ F). cbn in N. destruct o as [sf q [|mm|c]]; try discriminate. reflexivity.
Qed.

Lemma marker_free_no_markers m a :
  omap_eqb m a = true -> marker_free m -> no_markers a = true.
Proof.
  intros E MF. unfold no_markers. apply forallb_forall. intros [k o] I. cbn.
  pose proof (In_ofind_nodup _ _ _ (omap_eqb_nodup _ _ E) I) as F.
  specialize (MF k). rewrite (omap_eqb_ext _ _ E k), F in MF.
  destruct (proj_fix_open _ MF) as [mm ->]. reflexivity.
Qed.

Lemma orders_related_sound me mr a b :
  omap_eqb me a = true -> omap_eqb mr b = true ->
  (forall k, proj (ofind me k) = proj (ofind mr k)) -> orders_related a b = true.
Proof.
  intros Ea Eb H. unfold orders_related.
  rewrite (omap_eqb_nodup _ _ Ea), (omap_eqb_nodup _ _ Eb). cbn.
  apply forallb_forall. intros k _.
  rewrite <- (omap_eqb_ext _ _ Ea k), <- (omap_eqb_ext _ _ Eb k), H. apply oorder_eqb_refl.
Qed.

Lemma eng_rep_ok_sound (e : engine unit) (r : replica unit) xe o :
  Rst (e_state e) (r_state r) -> eng_matches (Some e) (Some xe) = true ->
  matches_replica r o ->
  match ro_cmp o with Some c => cmp_all c | None => false end = true ->
  eng_rep_ok xe o = true.
Proof.
  intros (R1 & _ & R3) G (_ & M2 & M3) C.
  apply eng_matches_Some in G. destruct G as (y & Ey & _ & T & O). injection Ey as <-.
  unfold eng_rep_ok. rewrite C, andb_true_r, <- T, <- M2, R1, Bool.eqb_reflx. cbn.
  exact (orders_related_sound _ _ _ _ O M3 R3).
Qed.

Lemma cmp_flag_true o c0 :
  match ro_cmp o with Some c => (true && cmp_all c)%bool | None => negb true end = true ->
  c0 = tt -> match ro_cmp o with Some c => cmp_all c | None => false end = true.
Proof. destruct (ro_cmp o); cbn; auto. Qed.

Lemma head_step mf (e : engine unit) (r : replica unit) x sc errs oo w fed o os t :
  Rel e r -> m_step_ok (e_state e) (r_state r) x sc = true ->
  (mf = true -> marker_free (orders (r_state r))) ->
  tick_matches (e_seq e, AProcess x errs oo) t = true ->
  rep_matches r (((e_seq e, AProcess x errs oo), w) :: fed) (o :: os) = true ->
  let e1 := mkEngine (fst (m_process (e_state e) x sc)) (e_seq e + 1) in
  let r1 := mkReplica (m_replica_update (r_state r) x) (e_seq e) in
  Rel e1 r1 /\ (mf = true -> marker_free (orders (r_state r1))) /\
  rep_matches r1 fed os = true /\ matches_replica r1 o /\
  m_replica_step r (e_seq e, AProcess x errs oo) = (r1, RApplied) /\
  (N.eqb (ro_fseq o) (t_seq t) &&
   (if t_proc t then ro_ok o && negb (ro_unchanged o) else ro_ok o) &&
   (if mf then no_markers (ro_orders o) else true))%bool = true /\
  match ro_cmp o with Some c => (w && cmp_all c)%bool | None => negb w end = true.
Proof.
  intros [HR Hs] Hok MF TM RM e1 r1.
  pose proof (replica_step_next unit unit u_z u_z u_p u_p r (e_seq e) x errs oo Hs) as ST.
  fold r1 in ST.
  destruct (rep_matches_cons _ _ _ _ _ _ RM _ _ ST) as (F1 & F2 & F3 & F4 & F5 & F6 & F7 & F8 & R).
  assert (HR' : Rel e1 r1).
  { split; cbn [e_state r_state e_seq r_seq e1 r1]; [|reflexivity].
    rewrite process_state_eq. apply Rst_step; auto. }
  assert (MF' : mf = true -> marker_free (orders (r_state r1))).
  { intro Q. cbn [r_state r1]. apply (marker_free_step unit unit u_z u_z u_p u_p _ _ _ _ Hok). auto. }
  split; [exact HR'|]. split; [exact MF'|]. split; [exact R|].
  split; [repeat split; auto|]. split; [exact ST|]. split; [|exact F8].
  apply tick_matches_spec in TM. destruct TM as (Q & P & _).
  cbn [fst snd] in *. rewrite <- Q, <- F1, N.eqb_refl, <- P. cbn [is_process andb].
  rewrite <- F3, <- F7. cbn. destruct mf; [|reflexivity].
  apply (marker_free_no_markers _ _ F6). auto.
Qed.

Lemma m_trace_seq : forall (f : list (ev * script)) e j ej,
  nth_error (m_trace e f) j = Some ej -> e_seq ej = (e_seq e + N.of_nat j + 1)%N.
Proof.
  induction f as [|[x sc] f IH]; intros e j ej N; cbn [m_trace] in N; [destruct j; discriminate|].
  destruct (process_with_audit_spec unit unit u_z u_z u_p u_p e x sc) as (errs & o & Hp).
  rewrite Hp in N. cbn [fst] in N. destruct j as [|j]; cbn in N.
  - injection N as <-. cbn. lia.
  - apply IH in N. cbn [e_seq] in N. lia.
Qed.

Lemma manual_sim mf : forall (f : list (ev * script)) e r e' mts ticks engs reps,
  Rel e r -> m_hyps (e_state e) (r_state r) f = true ->
  (mf = true -> marker_free (orders (r_state r))) ->
  m_run_manual e f = (e', mts) ->
  list_match tick_matches mts ticks = true ->
  list_match eng_matches (map Some (m_trace e f)) engs = true ->
  rep_matches r (combine mts (map flag (map Some (m_trace e f)))) reps = true ->
  list_match (sim_tick mf) (combine ticks engs) reps = true /\
  exists rw, m_replica_run r mts = (rw, true) /\
    (rw = r \/ exists j ej, nth_error (m_trace e f) j = Some ej /\
                            e_seq ej = (r_seq rw + 1)%N /\ Rst (e_state ej) (r_state rw)).
Proof.
  induction f as [|[x sc] f IH]; intros e r e' mts ticks engs reps HR Hh MF H M G RM;
    cbn [Replica.run_manual] in H.
  - injection H as <- <-. destruct ticks; [|discriminate]. destruct engs; [|discriminate].
    cbn in RM. destruct reps; [|discriminate]. split; [reflexivity|].
    exists r. split; [reflexivity|now left].
  - cbn [Replica.hyps] in Hh. apply andb_prop in Hh. destruct Hh as [Hok Hh].
    cbn [m_trace map] in G, RM.
    destruct (process_with_audit_spec unit unit u_z u_z u_p u_p e x sc) as (errs & o & Hp).
    rewrite Hp in H, G, RM. cbn [fst] in G, RM.
    destruct (m_run_manual _ f) as [e'' ts'] eqn:Hr. injection H as <- <-.
    destruct ticks as [|t ticks]; [discriminate|]. destruct engs as [|g engs]; [discriminate|].
    cbn [list_match] in M, G. apply andb_prop in M. destruct M as [M1 M2].
    apply andb_prop in G. destruct G as [G1 G2].
    cbn [combine flag] in RM.
    destruct (rep_matches_cons_inv _ _ _ _ _ RM) as (ob & os & ->).
    destruct (head_step mf e r x sc errs o true _ ob os t HR Hok MF M1 RM)
      as (HR' & MF' & RM' & MR & ST & HD & CF).
    set (e1 := mkEngine (fst (m_process (e_state e) x sc)) (e_seq e + 1)) in *.
    set (r1 := mkReplica (m_replica_update (r_state r) x) (e_seq e)) in *.
    destruct (IH e1 r1 _ _ _ _ _ HR' Hh MF' Hr M2 G2 RM') as (I1 & rw & I2 & I3).
    split.
    + cbn [combine list_match]. rewrite I1, andb_true_r. unfold sim_tick. cbn [fst snd].
      rewrite HD. cbn [andb].
      destruct (eng_matches_Some _ _ G1) as (y & -> & _).
      apply (eng_rep_ok_sound e1 r1);
        [apply (proj1 HR')|assumption|exact MR|destruct (ro_cmp ob); cbn in CF |- *; auto].
    + assert (TR : m_trace e ((x, sc) :: f) = e1 :: m_trace e1 f).
      { cbn [m_trace]. rewrite Hp. reflexivity. }
      rewrite TR. cbn [Replica.replica_run]. rewrite ST. cbn [snd].
      destruct (is_terminal (AProcess x errs o)).
      * exists r1. split; [reflexivity|]. right. exists 0%nat, e1.
        split; [reflexivity|]. split; [cbn; lia|apply (proj1 HR')].
      * exists rw. split; [exact I2|]. right. destruct I3 as [->|(j & ej & N1 & N2 & N3)].
        -- exists 0%nat, e1. split; [reflexivity|]. split; [cbn; lia|apply (proj1 HR')].
        -- exists (S j), ej. split; [exact N1|]. split; assumption.
Qed.

Lemma run_loop_nonempty : forall (f : list (ev * script)) e e' ts,
  m_run_loop e f = (e', ts) -> ts <> [].
Proof.
  intros f e e' ts H. destruct (run_loop_shape unit unit u_z u_z u_p u_p _ _ _ _ H) as (pre & l & -> & _).
  destruct pre; discriminate.
Qed.

Lemma loop_sim mf : forall (f : list (ev * script)) e r e2 mts ticks engs reps,
  Rel e r ->
  m_hyps (e_state e) (r_state r)
         (firstn (length (filter (fun t => is_process (snd t)) mts)) f) = true ->
  (mf = true -> marker_free (orders (r_state r))) ->
  m_run_loop e f = (e2, mts) ->
  list_match tick_matches mts ticks = true ->
  list_match eng_matches (repeat None (pred (length mts)) ++ [Some e2]) engs = true ->
  rep_matches r (combine mts (map flag (repeat None (pred (length mts)) ++ [Some e2]))) reps = true ->
  list_match (sim_tick mf) (combine ticks engs) reps = true /\
  exists rw, m_replica_run r mts = (rw, true) /\ Rst (e_state e2) (r_state rw).
Proof.
  induction f as [|[x sc] f IH]; intros e r e2 mts ticks engs reps HR Hh MF H M G RM;
    cbn [Replica.run_loop] in H.
  - unfold audit_feed_ended in H. injection H as <- <-.
    cbn [length pred repeat app map flag combine] in G, RM.
    destruct ticks as [|t [|t2 ticks]]; try discriminate;
      [|cbn in M; rewrite andb_false_r in M; discriminate].
    destruct engs as [|g [|g2 engs]]; try discriminate;
      [|cbn in G; rewrite andb_false_r in G; discriminate].
    destruct reps as [|ob [|o2 reps]]; try discriminate.
    2:{ cbn in RM. rewrite !andb_false_r in RM. discriminate. }
    cbn [list_match] in M, G. rewrite andb_true_r in M, G.
    assert (ST : m_replica_step r (e_seq e, AFeedEnded) = (r, RStopped)) by reflexivity.
    destruct (rep_matches_cons _ _ _ _ _ _ RM _ _ ST) as (F1 & F2 & F3 & F4 & F5 & F6 & F7 & F8 & _).
    split.
    + cbn [combine list_match]. rewrite andb_true_r. unfold sim_tick. cbn [fst snd].
      apply tick_matches_spec in M. destruct M as (Q & P & _). cbn [fst snd] in *.
      rewrite <- Q, <- F1, N.eqb_refl, <- P. cbn [is_process andb]. rewrite <- F3. cbn [ok_flag andb].
      assert (NM : (if mf then no_markers (ro_orders ob) else true) = true).
      { destruct mf; [|reflexivity]. apply (marker_free_no_markers _ _ F6). auto. }
      rewrite NM. cbn [andb].
      destruct (eng_matches_Some _ _ G) as (y & -> & _).
      apply (eng_rep_ok_sound (mkEngine (e_state e) (e_seq e + 1)) r);
        [apply (proj1 HR)|assumption|repeat split; auto|destruct (ro_cmp ob); cbn in F8 |- *; auto].
    + exists r. split; [reflexivity|apply (proj1 HR)].
  - destruct (process_with_audit_spec unit unit u_z u_z u_p u_p e x sc) as (errs & o & Hp).
    rewrite Hp in H. cbn [snd] in H.
    set (e1 := mkEngine (fst (m_process (e_state e) x sc)) (e_seq e + 1)) in *.
    destruct (is_terminal (AProcess x errs o)) eqn:Ht.
    + injection H as <- <-.
      cbn [length pred repeat app map flag combine filter snd is_process firstn] in G, RM, Hh.
      cbn [Replica.hyps] in Hh. apply andb_prop in Hh. destruct Hh as [Hok _].
      destruct ticks as [|t [|t2 ticks]]; try discriminate;
        [|cbn in M; rewrite andb_false_r in M; discriminate].
      destruct engs as [|g [|g2 engs]]; try discriminate;
        [|cbn in G; rewrite andb_false_r in G; discriminate].
      destruct reps as [|ob [|o2 reps]]; try discriminate.
      2:{ cbn [rep_matches] in RM. destruct (m_replica_step r _) as [rq resq].
          rewrite !andb_false_r in RM. discriminate. }
      cbn [list_match] in M, G. rewrite andb_true_r in M, G.
      destruct (head_step mf e r x sc errs o true _ ob [] t HR Hok MF M RM)
        as (HR' & MF' & RM' & MR & ST & HD & CF).
      fold e1 in HR'.
      set (r1 := mkReplica (m_replica_update (r_state r) x) (e_seq e)) in *.
      split.
      * cbn [combine list_match]. rewrite andb_true_r. unfold sim_tick. cbn [fst snd].
        rewrite HD. cbn [andb]. destruct (eng_matches_Some _ _ G) as (y & -> & _).
        apply (eng_rep_ok_sound e1 r1);
          [apply (proj1 HR')|assumption|exact MR|destruct (ro_cmp ob); cbn in CF |- *; auto].
      * exists r1. split; [|apply (proj1 HR')].
        cbn [Replica.replica_run]. rewrite ST. cbn [snd]. now rewrite Ht.
    + destruct (m_run_loop e1 f) as [e'' ts'] eqn:Hr. injection H as <- <-.
      pose proof (run_loop_nonempty _ _ _ _ Hr) as NE.
      destruct ts' as [|t1 ts']; [congruence|].
      cbn [length pred] in G, RM.
      change (repeat None (S (length ts'))) with (@None (engine unit) :: repeat None (length ts')) in G, RM.
      cbn [app map flag combine] in G, RM.
      cbn [filter snd is_process length firstn] in Hh.
      cbn [Replica.hyps] in Hh. apply andb_prop in Hh. destruct Hh as [Hok Hh].
      destruct ticks as [|t ticks]; [discriminate|]. destruct engs as [|g engs]; [discriminate|].
      cbn [list_match] in M, G. apply andb_prop in M. destruct M as [M1 M2].
      apply andb_prop in G. destruct G as [G1 G2]. apply eng_matches_None in G1. subst g.
      destruct (rep_matches_cons_inv _ _ _ _ _ RM) as (ob & os & ->).
      destruct (head_step mf e r x sc errs o false _ ob os t HR Hok MF M1 RM)
        as (HR' & MF' & RM' & MR & ST & HD & CF).
      fold e1 in HR'.
      set (r1 := mkReplica (m_replica_update (r_state r) x) (e_seq e)) in *.
      destruct (IH e1 r1 e'' (t1 :: ts') ticks engs os HR' Hh MF' Hr M2 G2 RM') as (I1 & rw & I2 & I3).
      split.
      * cbn [combine list_match]. rewrite I1, andb_true_r. unfold sim_tick. cbn [fst snd].
        rewrite HD. reflexivity.
      * exists rw. split; [|exact I3]. cbn [Replica.replica_run]. rewrite ST. cbn [snd].
        rewrite Ht. exact I2.
Qed.

(* ---- group 7: assembly ---------------------------------------------------------------------------------- *)
Lemma rep_matches_length : forall fed r reps, rep_matches r fed reps = true -> length reps = length fed.
Proof.
  induction fed as [|[t w] fed IH]; intros r reps H.
  - apply rep_matches_nil_l in H. now subst.
  - destruct (rep_matches_cons_inv _ _ _ _ _ H) as (o & os & ->).
    destruct (m_replica_step r t) as [r' res] eqn:E.
    destruct (rep_matches_cons _ _ _ _ _ _ H _ _ E) as (_ & _ & _ & _ & _ & _ & _ & _ & R).
    cbn. f_equal. eauto.
Qed.

Lemma list_match_nth_r {A B} (f : A -> B -> bool) l1 l2 k y :
  list_match f l1 l2 = true -> nth_error l2 k = Some y ->
  exists x, nth_error l1 k = Some x /\ f x y = true.
Proof.
  revert l2 k; induction l1 as [|a t IH]; intros [|b t2] k; cbn; intros H N; try discriminate;
    try (destruct k; discriminate).
  apply andb_prop in H. destruct H as [H1 H2]. destruct k; cbn in *.
  - injection N as <-. eauto.
  - eauto.
Qed.

Lemma map_fst_combine {A B} (a : list A) (b : list B) :
  length a = length b -> map fst (combine a b) = a.
Proof.
  revert b; induction a as [|x a IH]; intros [|y b] L; cbn in *; try discriminate; auto.
  f_equal. apply IH. lia.
Qed.

Lemma last_eng_snoc engs x : last_eng (engs ++ [Some x]) = Some x.
Proof. unfold last_eng. rewrite fold_left_app. reflexivity. Qed.

Lemma filter_all {A} (f : A -> bool) l : Forall (fun x => f x = true) l -> filter f l = l.
Proof. induction 1; cbn; [reflexivity|]. rewrite H. now f_equal. Qed.

Lemma m_trace_length : forall (f : list (ev * script)) e, length (m_trace e f) = length f.
Proof. induction f as [|[x sc] f IH]; intro e; cbn; [reflexivity|]. now rewrite IH. Qed.

Theorem oracle_sound : forall c, corr_b c = true -> prop_b c = true.
Proof.
  intros [md sinit tr0 bad hook pre feed p snap_seq snap_tr snap_orders snap_eq ticks engs reps whole| |];
    [|discriminate|reflexivity].
  intro H. unfold corr_b in H.
  pose proof (model_run_spec md sinit tr0 bad hook pre feed) as SP. cbv zeta in SP.
  assert (WFE : wf_case (mkCase md sinit tr0 bad hook pre feed p snap_seq snap_tr snap_orders snap_eq
                                ticks engs reps whole) =
                m_hyps (snd (mr_snap (model_run md sinit tr0 bad hook pre feed)))
                       (snd (mr_snap (model_run md sinit tr0 bad hook pre feed)))
                       (firstn (length (filter (fun t => is_process (snd t))
                                               (mr_ticks (model_run md sinit tr0 bad hook pre feed))))
                               (mr_feed (model_run md sinit tr0 bad hook pre feed)))) by reflexivity.
  set (m := model_run md sinit tr0 bad hook pre feed) in *.
  destruct SP as (e1 & S1 & S2 & S3 & SM).
  set (r0 := replica_init (mr_snap m)) in *.
  set (flags := map (fun e : option (engine unit) => match e with Some _ => is_pnone p | None => false end)
                    (mr_eng m)) in *.
  set (fed := perturb_list p (combine (mr_ticks m) flags)) in *.
  cbv zeta in H.
  destruct (m_replica_run r0 (map fst fed)) as [rw okm] eqn:RW.
  repeat match goal with
         | H : (_ && _)%bool = true |- _ => apply andb_prop in H; destruct H
         end.
  repeat match goal with
         | H : N.eqb _ _ = true |- _ => apply N.eqb_eq in H
         | H : Bool.eqb _ _ = true |- _ => apply eqb_prop in H
         end.
  match goal with H : fst (mr_snap m) = snap_seq |- _ => rename H into C1 end.
  match goal with H : trading (snd (mr_snap m)) = snap_tr |- _ => rename H into C2 end.
  match goal with H : omap_eqb (orders (snd (mr_snap m))) snap_orders = true |- _ => rename H into C3 end.
  match goal with H : list_match tick_matches _ _ = true |- _ => rename H into LT end.
  match goal with H : list_match eng_matches _ _ = true |- _ => rename H into LE end.
  match goal with H : rep_matches _ _ _ = true |- _ => rename H into RM end.
  match goal with H : okm = ro_ok whole |- _ => rename H into W1 end.
  match goal with H : r_seq rw = ro_seq whole |- _ => rename H into W2 end.
  match goal with H : trading (r_state rw) = ro_trading whole |- _ => rename H into W3 end.
  match goal with H : omap_eqb (orders (r_state rw)) _ = true |- _ => rename H into W4 end.
  match goal with H : N.eqb (r_seq rw) (r_seq r0) = ro_unchanged whole |- _ => rename H into W5 end.
  match goal with H : match ro_cmp whole with _ => _ end = true |- _ => rename H into W6 end.
  subst snap_eq.
  assert (R0seq : r_seq r0 = snap_seq) by (rewrite <- C1; reflexivity).
  assert (R0tr : trading (r_state r0) = snap_tr) by (rewrite <- C2; reflexivity).
  assert (LF : length (mr_feed m) = length feed).
  { rewrite <- (map_length fst (mr_feed m)), S3. apply map_length. }
  (* facts common to both modes *)
  assert (COMMON :
    map fst (mr_ticks m) = seqN (snap_seq + 1) (length (mr_ticks m)) /\
    carries (map fst feed) 0 (mr_ticks m) /\
    length (mr_eng m) = length (mr_ticks m) /\
    (length engs = length ticks /\ eng_seq_ok ticks engs = true) /\
    match md with
    | Manual => (Nat.eqb (length ticks) (length feed) &&
                 forallb (fun t => t_proc t && t_same t) ticks)%bool
    | _ => match rev ticks with
           | [] => false
           | last :: _ =>
               forallb (fun t => t_proc t && t_same t && negb (t_term t)) (all_but_last ticks) &&
               t_term last &&
               (if t_proc last then t_same last && Nat.leb (length ticks) (length feed)
                else Nat.eqb (length ticks) (S (length feed)))
           end
    end = true).
  { rewrite <- C1, <- S1, <- S3, <- LF. destruct md.
    - destruct SM as [SM1 SM2].
      destruct (run_manual_numbering unit unit u_z u_z u_p u_p _ _ _ _ SM1) as (N1 & N2 & _ & _).
      destruct (run_manual_carries _ _ _ _ SM1) as [CA PR].
      split; [now rewrite N2|]. split; [exact CA|].
      split; [rewrite SM2, map_length, m_trace_length; now rewrite N2|].
      split; [rewrite SM2 in LE; exact (manual_eng_sound _ _ _ _ _ _ SM1 LT LE)|].
      exact (manual_shape_sound _ _ _ LT N2 PR).
    - destruct SM as [SM1 SM2].
      destruct (run_loop_numbering unit unit u_z u_z u_p u_p _ _ _ _ SM1) as (N1 & _).
      split; [exact N1|]. split; [exact (run_loop_carries _ _ _ _ SM1)|].
      pose proof (run_loop_nonempty _ _ _ _ SM1) as NE.
      split; [rewrite SM2, app_length, repeat_length; cbn [length];
              destruct (mr_ticks m) as [|a0 l0]; [congruence|cbn [length pred]; lia]|].
      split; [rewrite SM2 in LE; exact (loop_eng_sound _ _ _ _ _ _ SM1 LT LE)|].
      exact (loop_shape_sound _ _ _ _ _ SM1 LT).
    - destruct SM as [SM1 SM2].
      destruct (run_loop_numbering unit unit u_z u_z u_p u_p _ _ _ _ SM1) as (N1 & _).
      split; [exact N1|]. split; [exact (run_loop_carries _ _ _ _ SM1)|].
      pose proof (run_loop_nonempty _ _ _ _ SM1) as NE.
      split; [rewrite SM2, app_length, repeat_length; cbn [length];
              destruct (mr_ticks m) as [|a0 l0]; [congruence|cbn [length pred]; lia]|].
      split; [rewrite SM2 in LE; exact (loop_eng_sound _ _ _ _ _ _ SM1 LT LE)|].
      exact (loop_shape_sound _ _ _ _ _ SM1 LT). }
  destruct COMMON as (NUM & CAR & LENG & (LEN & ESQ) & SHAPE).
  assert (TC : term_consistent ticks fed).
  { intros t w I. apply perturb_list_In, in_combine_l in I.
    apply (term_of_spec _ _ _ LT); [rewrite NUM; apply seqN_NoDup|exact I]. }
  assert (A2 : ticks_ok md (length feed) snap_seq ticks = true).
  { unfold ticks_ok. rewrite (numbering_ok _ _ _ LT NUM). cbn [andb]. destruct md; exact SHAPE. }
  assert (A3 : terminal_flags_ok feed 0 ticks = true) by exact (terminal_flags_sound _ _ _ _ LT CAR).
  assert (A4 : Nat.eqb (length engs) (length ticks) = true) by (rewrite LEN; apply Nat.eqb_refl).
  assert (A6 : rep_rule_ok snap_seq reps = true).
  { rewrite <- R0seq. exact (rep_rule_from_matches _ _ _ RM). }
  assert (A7 : rep_frame_ok snap_tr snap_orders reps = true).
  { apply (rep_frame_from_matches _ _ _ _ _ RM); [now rewrite R0tr|exact C3]. }
  assert (A8 : whole_ok ticks snap_seq snap_tr snap_orders reps whole = true).
  { (* whole_ok *)
    unfold whole_ok. destruct (whole_walk ticks snap_seq reps) as [n ok] eqn:WW.
    rewrite <- R0seq in WW.
    destruct (whole_walk_sound ticks _ _ _ RM TC _ _ _ _ WW RW) as [OK ST].
    repeat (apply andb_true_intro; split).
    + rewrite <- W1, OK. apply Bool.eqb_reflx.
    + destruct n as [|k].
      * subst rw. rewrite <- W2, R0seq, N.eqb_refl, <- W3, R0tr, Bool.eqb_reflx. cbn.
        exact (omap_eqb_via _ _ _ C3 W4).
      * destruct ST as (o & -> & Q1 & Q2 & Q3).
        rewrite <- W2, Q1, N.eqb_refl, <- W3, Q2, Bool.eqb_reflx. cbn.
        now rewrite (omap_eqb_via _ _ _ Q3 W4), (omap_eqb_via _ _ _ W4 Q3).
    + rewrite <- W5, <- W2, R0seq. apply Bool.eqb_reflx. }
  unfold prop_b. rewrite A2, A3, A4, ESQ, A6, A7, A8. cbn [andb].
  (* the simulation part *)
  destruct (is_pnone p) eqn:PN; [|reflexivity]. cbn [andb].
  rewrite WFE. destruct (m_hyps _ _ _) eqn:WF; [|reflexivity].
  destruct p; try discriminate. cbn [perturb_list] in fed. cbn [is_pnone] in flags.
  assert (FL : length (mr_ticks m) = length flags).
  { unfold flags. now rewrite map_length, LENG. }
  assert (MFC : map fst fed = mr_ticks m) by (apply map_fst_combine; exact FL).
  rewrite MFC in RW.
  assert (REL : Rel e1 r0).
  { split; [|rewrite S1; reflexivity]. rewrite S2. repeat split; reflexivity. }
  set (mf := no_markers snap_orders).
  assert (MF : mf = true -> marker_free (orders (r_state r0))).
  { intro Q. exact (no_markers_marker_free _ _ C3 Q). }
  assert (LR : length ticks = length reps).
  { rewrite (rep_matches_length _ _ _ RM). unfold fed. rewrite combine_length, <- FL, Nat.min_id.
    symmetry. apply (list_match_length _ _ _ LT). }
  assert (CMPW : match ro_cmp whole with Some x => cmp_all x | None => false end = true).
  { destruct (ro_cmp whole); [cbn in W6; exact W6|discriminate]. }
  assert (MW : matches_replica rw whole) by (repeat split; auto).
  unfold sim_ok. rewrite LR, Nat.eqb_refl. cbn [andb].
  destruct md.
  - destruct SM as [SM1 SM2].
    destruct (run_manual_carries _ _ _ _ SM1) as [_ PR].
    destruct (run_manual_numbering unit unit u_z u_z u_p u_p _ _ _ _ SM1) as (_ & N2 & _ & _).
    rewrite (filter_all _ _ PR), N2, firstn_all in WF.
    assert (WF' : m_hyps (e_state e1) (r_state r0) (mr_feed m) = true) by (rewrite S2; exact WF).
    assert (RM' : rep_matches r0 (combine (mr_ticks m) (map flag (map Some (m_trace e1 (mr_feed m)))))
                              reps = true).
    { unfold fed, flags in RM. rewrite SM2 in RM. exact RM. }
    rewrite SM2 in LE.
    destruct (manual_sim mf _ _ _ _ _ _ _ _ REL WF' MF SM1 LT LE RM') as (SIM & rw' & RR & STOP).
    rewrite RR in RW. injection RW as <- <-.
    rewrite SIM. cbn [andb]. apply andb_true_intro. split; [now rewrite <- W1|].
    destruct (find _ engs) as [[xe|]|] eqn:FD; cbn [join_opt]; try exact CMPW.
    apply find_some in FD. destruct FD as [IN SEQ]. apply N.eqb_eq in SEQ.
    apply In_nth_error in IN. destruct IN as [i NI].
    destruct (list_match_nth_r _ _ _ _ _ LE NI) as (me & NM & EM).
    rewrite nth_error_map in NM. destruct (nth_error (m_trace e1 (mr_feed m)) i) as [ei|] eqn:NT;
      [|discriminate]. injection NM as <-.
    pose proof (m_trace_seq _ _ _ _ NT) as QI.
    destruct (eng_matches_Some _ _ EM) as (y & Ey & QS & _). injection Ey as <-.
    destruct STOP as [->|(j & ej & NJ & QJ & RJ)].
    + exfalso. unfold r0 in *. cbn [replica_init r_seq] in *. lia.
    + pose proof (m_trace_seq _ _ _ _ NJ) as QJ'.
      assert (i = j) by lia. subst j. rewrite NT in NJ. injection NJ as <-.
      exact (eng_rep_ok_sound ei rw' xe whole RJ EM MW CMPW).
  - destruct SM as [SM1 SM2].
    assert (WF' : m_hyps (e_state e1) (r_state r0) (firstn (length (filter (fun t => is_process (snd t)) (mr_ticks m))) (mr_feed m)) = true) by (rewrite S2; exact WF).
    assert (RM' : rep_matches r0 (combine (mr_ticks m)
                     (map flag (repeat None (pred (length (mr_ticks m))) ++ [Some (mr_final m)])))
                              reps = true).
    { unfold fed, flags in RM. rewrite SM2 in RM. exact RM. }
    rewrite SM2 in LE.
    destruct (loop_sim mf _ _ _ _ _ _ _ _ REL WF' MF SM1 LT LE RM') as (SIM & rw' & RR & RST).
    rewrite RR in RW. injection RW as <- <-.
    rewrite SIM. cbn [andb]. apply andb_true_intro. split; [now rewrite <- W1|].
    destruct (list_match_app_l _ _ _ _ LE) as (engs' & g & -> & _ & EM).
    destruct (eng_matches_Some _ _ EM) as (y & -> & _).
    rewrite last_eng_snoc.
    exact (eng_rep_ok_sound (mr_final m) rw' y whole RST EM MW CMPW).
  - destruct SM as [SM1 SM2].
    assert (WF' : m_hyps (e_state e1) (r_state r0) (firstn (length (filter (fun t => is_process (snd t)) (mr_ticks m))) (mr_feed m)) = true) by (rewrite S2; exact WF).
    assert (RM' : rep_matches r0 (combine (mr_ticks m)
                     (map flag (repeat None (pred (length (mr_ticks m))) ++ [Some (mr_final m)])))
                              reps = true).
    { unfold fed, flags in RM. rewrite SM2 in RM. exact RM. }
    rewrite SM2 in LE.
    destruct (loop_sim mf _ _ _ _ _ _ _ _ REL WF' MF SM1 LT LE RM') as (SIM & rw' & RR & RST).
    rewrite RR in RW. injection RW as <- <-.
    rewrite SIM. cbn [andb]. apply andb_true_intro. split; [now rewrite <- W1|].
    destruct (list_match_app_l _ _ _ _ LE) as (engs' & g & -> & _ & EM).
    destruct (eng_matches_Some _ _ EM) as (y & -> & _).
    rewrite last_eng_snoc.
    exact (eng_rep_ok_sound (mr_final m) rw' y whole RST EM MW CMPW).
Qed.
Print Assumptions oracle_sound.

(* ---- the validation rule alone ------------------------------------------------------------------------ *)
Definition model_obs (t : N * audit unit) (r' : replica unit) (res : rres) : robs :=
  mkR (fst t) (is_process (snd t)) (match res with RErr => false | _ => true end)
      (r_seq r') (trading (r_state r')) (orders (r_state r'))
      (match res with RApplied => false | _ => true end) None.

Fixpoint model_robs (r : replica unit) (fed : list (N * audit unit)) : list robs :=
  match fed with
  | [] => []
  | t :: fed' =>
      let (r', res) := replica_step unit unit u_z u_z u_p u_p r t in
      model_obs t r' res :: model_robs r' fed'
  end.

Theorem rep_rule_sound : forall fed r, rep_rule_ok (r_seq r) (model_robs r fed) = true.
Proof.
  induction fed as [|t fed IH]; intro r; cbn [model_robs]; [reflexivity|].
  unfold replica_step. destruct t as [s a]. cbn [fst snd].
  destruct a as [|ev errs o]; cbn [rep_rule_ok model_obs is_process ro_fproc ro_ok ro_unchanged
                                   ro_seq ro_fseq fst snd negb].
  - rewrite N.eqb_refl. cbn. apply IH.
  - destruct (N.leb_spec s (r_seq r)) as [L|L].
    + cbn [rep_rule_ok model_obs is_process ro_fproc ro_ok ro_unchanged ro_seq ro_fseq fst snd negb].
      destruct (N.leb_spec s (r_seq r)); [|lia]. rewrite N.eqb_refl. cbn. apply IH.
    + destruct (N.eqb_spec (r_seq r) (s - 1)) as [E|E]; cbn [negb].
      * cbn [rep_rule_ok model_obs is_process ro_fproc ro_ok ro_unchanged ro_seq ro_fseq fst snd
             negb r_seq].
        destruct (N.leb_spec s (r_seq r)); [lia|].
        destruct (N.eqb_spec s (r_seq r + 1)); [|lia]. rewrite N.eqb_refl. cbn.
        exact (IH (mkReplica _ s)).
      * cbn [rep_rule_ok model_obs is_process ro_fproc ro_ok ro_unchanged ro_seq ro_fseq fst snd
             negb].
        destruct (N.leb_spec s (r_seq r)); [lia|].
        destruct (N.eqb_spec s (r_seq r + 1)); [lia|]. rewrite N.eqb_refl. cbn. apply IH.
Qed.
Print Assumptions rep_rule_sound.
