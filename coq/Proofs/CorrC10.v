(** C10: the replica-validation part of the oracle ([rep_rule_ok] in Corr/C10.v) is no stricter
    than the model: the observations the model's [replica_step] would produce for ANY stream of
    ticks fed to ANY replica satisfy it. *)
From Coq Require Import List ZArith NArith Bool Lia.
From BV Require Import Base.Common Model.Replica Proofs.Replica Corr.C10.
Import ListNotations.

Definition model_obs (t : N * audit unit) (r' : replica unit) (res : rres) : robs :=
  mkR (fst t) (is_process (snd t)) (match res with RErr => false | _ => true end)
      (r_seq r') (trading (r_state r')) (orders (r_state r'))
      (match res with RApplied => false | _ => true end) None.

Fixpoint model_robs (r : replica unit) (fed : list (N * audit unit)) : list robs :=
  match fed with
  | [] => []
  | t :: fed' =>
      let (r', res) := replica_step unit unit u_z u_z u_p u_p r t in
      model_obs t r' res :: model_robs r' fed'
  end.

Theorem rep_rule_sound : forall fed r, rep_rule_ok (r_seq r) (model_robs r fed) = true.
Proof.
  induction fed as [|t fed IH]; intro r; cbn [model_robs]; [reflexivity|].
  unfold replica_step. destruct t as [s a]. cbn [fst snd].
  destruct a as [|ev errs o]; cbn [rep_rule_ok model_obs is_process ro_fproc ro_ok ro_unchanged
                                   ro_seq ro_fseq fst snd negb].
  - rewrite N.eqb_refl. cbn. apply IH.
  - destruct (N.leb_spec s (r_seq r)) as [L|L].
    + cbn [rep_rule_ok model_obs is_process ro_fproc ro_ok ro_unchanged ro_seq ro_fseq fst snd negb].
      destruct (N.leb_spec s (r_seq r)); [|lia]. rewrite N.eqb_refl. cbn. apply IH.
    + destruct (N.eqb_spec (r_seq r) (s - 1)) as [E|E]; cbn [negb].
      * cbn [rep_rule_ok model_obs is_process ro_fproc ro_ok ro_unchanged ro_seq ro_fseq fst snd
             negb r_seq].
        destruct (N.leb_spec s (r_seq r)); [lia|].
        destruct (N.eqb_spec s (r_seq r + 1)); [|lia]. rewrite N.eqb_refl. cbn.
        exact (IH (mkReplica _ s)).
      * cbn [rep_rule_ok model_obs is_process ro_fproc ro_ok ro_unchanged ro_seq ro_fseq fst snd
             negb].
        destruct (N.leb_spec s (r_seq r)); [lia|].
        destruct (N.eqb_spec s (r_seq r + 1)); [lia|]. rewrite N.eqb_refl. cbn. apply IH.
Qed.
Print Assumptions rep_rule_sound.
